pub fn case_0(vars: &Vars) -> InferredGoal<DU, DE, Goal<DU, DE>> {
    let qa = vars.v[0].clone();
    let qb = vars.v[1].clone();
    let coll0: Vec<LT> = vec![lterm!(3), lterm!(1)];
    proto_vulcan!([|h, z| { h == [[2, _ | qb], [3]] }, for e in &coll0 { e == qb }])
}
pub fn case_1(vars: &Vars) -> InferredGoal<DU, DE, Goal<DU, DE>> {
    let qa = vars.v[0].clone();
    let qb = vars.v[1].clone();
    let coll0: Vec<LT> = vec![];
    proto_vulcan!([for e in &coll0 { conde { [[_, e] == qb, qa == 3], [qb != _, qa == [[[]], [qb], [_, 1, 2]]] }, |t, h| { false, member(qb, [3, 2, 3]), t == [3, qa, t] } }])
}
pub fn case_2(vars: &Vars) -> InferredGoal<DU, DE, Goal<DU, DE>> {
    let qa = vars.v[0].clone();
    let qb = vars.v[1].clone();
    let coll0: Vec<LT> = vec![lterm!(3)];
    proto_vulcan!([qb == [_, qb, _], for e in &coll0 { |y| { e == [_, [[], 'a' | e] | qa] }, [qb, qb] == 1 }])
}
pub fn case_3(vars: &Vars) -> InferredGoal<DU, DE, Goal<DU, DE>> {
    let qa = vars.v[0].clone();
    let qb = vars.v[1].clone();
    let coll0: Vec<LT> = vec![];
    proto_vulcan!([for e in &coll0 { [2] == qb }])
}
pub fn case_4(vars: &Vars) -> InferredGoal<DU, DE, Goal<DU, DE>> {
    let qa = vars.v[0].clone();
    let qb = vars.v[1].clone();
    let coll0: Vec<LT> = vec![qa.clone()];
    proto_vulcan!([for e in &coll0 { [qa] == e }])
}
pub fn case_5(vars: &Vars) -> InferredGoal<DU, DE, Goal<DU, DE>> {
    let qa = vars.v[0].clone();
    let qb = vars.v[1].clone();
    let coll0: Vec<LT> = vec![lterm!(2), lterm!([1]), lterm!([1])];
    proto_vulcan!([for e in &coll0 { true, e != 1 }])
}
pub fn case_6(vars: &Vars) -> InferredGoal<DU, DE, Goal<DU, DE>> {
    let qa = vars.v[0].clone();
    let qb = vars.v[1].clone();
    let coll0: Vec<LT> = vec![lterm!(2)];
    proto_vulcan!([qa == [1, qb, qb | qb], for e in &coll0 { qb != [[1, 3, _], e, [e, 3 | e] | e] }])
}
pub fn case_7(vars: &Vars) -> InferredGoal<DU, DE, Goal<DU, DE>> {
    let qa = vars.v[0].clone();
    let qb = vars.v[1].clone();
    let coll0: Vec<LT> = vec![lterm!(1), lterm!([1]), lterm!([2])];
    proto_vulcan!([1 == qa, for e in &coll0 { conde { qa == [qa | e], qa == qb }, [qb, 1, _] == qa }])
}
pub fn case_8(vars: &Vars) -> InferredGoal<DU, DE, Goal<DU, DE>> {
    let qa = vars.v[0].clone();
    let qb = vars.v[1].clone();
    let coll0: Vec<LT> = vec![];
    proto_vulcan!([qa != [[qa, _, 1 | qb], [qb] | qa], for e in &coll0 { [_, qa] == qb, qb == [_, [e]] }])
}
pub fn case_9(vars: &Vars) -> InferredGoal<DU, DE, Goal<DU, DE>> {
    let qa = vars.v[0].clone();
    let qb = vars.v[1].clone();
    let coll0: Vec<LT> = vec![lterm!(3), qa.clone()];
    proto_vulcan!([1 == qa, for e in &coll0 { |y| { member(qb, [1]) }, qb == qa }])
}
pub fn case_10(vars: &Vars) -> InferredGoal<DU, DE, Goal<DU, DE>> {
    let qa = vars.v[0].clone();
    let qb = vars.v[1].clone();
    let coll0: Vec<LT> = vec![lterm!(2), qa.clone(), qa.clone()];
    proto_vulcan!([[[3], 1] == qb, for e in &coll0 { [e, e | qa] != qa }])
}
pub fn case_11(vars: &Vars) -> InferredGoal<DU, DE, Goal<DU, DE>> {
    let qa = vars.v[0].clone();
    let qb = vars.v[1].clone();
    let coll0: Vec<LT> = vec![lterm!(3)];
    proto_vulcan!([for e in &coll0 { [2, e, _] != qb, [append(e, qb, [3, 3]), qb == [1, qb, [_ | e] | qa], e == [[], qa]] }])
}
pub fn case_12(vars: &Vars) -> InferredGoal<DU, DE, Goal<DU, DE>> {
    let qa = vars.v[0].clone();
    let qb = vars.v[1].clone();
    let coll0: Vec<LT> = vec![qb.clone(), lterm!(2), lterm!(2)];
    proto_vulcan!([for e in &coll0 { e == [[1, e | e]] }])
}
pub fn case_13(vars: &Vars) -> InferredGoal<DU, DE, Goal<DU, DE>> {
    let qa = vars.v[0].clone();
    let qb = vars.v[1].clone();
    let coll0: Vec<LT> = vec![];
    proto_vulcan!([false, for e in &coll0 { qb == "a" }])
}
pub fn case_14(vars: &Vars) -> InferredGoal<DU, DE, Goal<DU, DE>> {
    let qa = vars.v[0].clone();
    let qb = vars.v[1].clone();
    let coll0: Vec<LT> = vec![lterm!([2]), lterm!(2)];
    proto_vulcan!([[3, 2] == [[[], false, qa | qa], ['a', qb, qb] | qb], for e in &coll0 { [[e, qa, qa] == qb, true] }])
}
pub fn case_15(vars: &Vars) -> InferredGoal<DU, DE, Goal<DU, DE>> {
    let qa = vars.v[0].clone();
    let qb = vars.v[1].clone();
    let coll0: Vec<LT> = vec![];
    proto_vulcan!([|y| { qb != y, [[false, [] | qa] | qa] == y }, for e in &coll0 { qa == [qb, 3], qa == e }])
}
pub fn case_16(vars: &Vars) -> InferredGoal<DU, DE, Goal<DU, DE>> {
    let qa = vars.v[0].clone();
    let qb = vars.v[1].clone();
    let coll0: Vec<LT> = vec![lterm!([1]), lterm!([2])];
    proto_vulcan!([for e in &coll0 { |y| { qb == qb } }])
}
pub fn case_17(vars: &Vars) -> InferredGoal<DU, DE, Goal<DU, DE>> {
    let qa = vars.v[0].clone();
    let qb = vars.v[1].clone();
    let coll0: Vec<LT> = vec![lterm!([2])];
    proto_vulcan!([3 != qa, for e in &coll0 { qb == qb }])
}
pub fn case_18(vars: &Vars) -> InferredGoal<DU, DE, Goal<DU, DE>> {
    let qa = vars.v[0].clone();
    let qb = vars.v[1].clone();
    let coll0: Vec<LT> = vec![qa.clone(), lterm!(1), qb.clone()];
    proto_vulcan!([member(qb, [1]), for e in &coll0 { [e, [1, _] | qb] == [], 2 == qb }])
}
pub fn case_19(vars: &Vars) -> InferredGoal<DU, DE, Goal<DU, DE>> {
    let qa = vars.v[0].clone();
    let qb = vars.v[1].clone();
    let coll0: Vec<LT> = vec![];
    proto_vulcan!([for e in &coll0 { qa == [2, 1, 3] }])
}
pub fn case_20(vars: &Vars) -> InferredGoal<DU, DE, Goal<DU, DE>> {
    let qa = vars.v[0].clone();
    let qb = vars.v[1].clone();
    let coll0: Vec<LT> = vec![lterm!(3), qb.clone()];
    proto_vulcan!([for e in &coll0 { false, |x| { true } }])
}
pub fn case_21(vars: &Vars) -> InferredGoal<DU, DE, Goal<DU, DE>> {
    let qa = vars.v[0].clone();
    let qb = vars.v[1].clone();
    let coll0: Vec<LT> = vec![lterm!([2]), qa.clone(), lterm!(3)];
    proto_vulcan!([qb != [qb, [[], 1, 3]], for e in &coll0 { [[1 | qa] == qa, e != [2], append(qa, e, [1, 2])] }])
}
pub fn case_22(vars: &Vars) -> InferredGoal<DU, DE, Goal<DU, DE>> {
    let qa = vars.v[0].clone();
    let qb = vars.v[1].clone();
    let coll0: Vec<LT> = vec![lterm!([1])];
    proto_vulcan!([qb == 'a', for e in &coll0 { [_, 2 | qb] == qb, [qa == [[1 | qb], 1, [[]]]] }])
}
pub fn case_23(vars: &Vars) -> InferredGoal<DU, DE, Goal<DU, DE>> {
    let qa = vars.v[0].clone();
    let qb = vars.v[1].clone();
    let coll0: Vec<LT> = vec![lterm!(2), lterm!([1])];
    proto_vulcan!([qa == [], for e in &coll0 { qa != [2, false | e] }])
}
pub fn case_24(vars: &Vars) -> InferredGoal<DU, DE, Goal<DU, DE>> {
    let qa = vars.v[0].clone();
    let qb = vars.v[1].clone();
    let coll0: Vec<LT> = vec![lterm!(2)];
    proto_vulcan!([for e in &coll0 { e == qa, [member(qa, [1]), qa != 1] }])
}
pub fn case_25(vars: &Vars) -> InferredGoal<DU, DE, Goal<DU, DE>> {
    let qa = vars.v[0].clone();
    let qb = vars.v[1].clone();
    let coll0: Vec<LT> = vec![qa.clone()];
    proto_vulcan!([for e in &coll0 { qa == [e, [], qa], append(qa, qa, []) }])
}
pub fn case_26(vars: &Vars) -> InferredGoal<DU, DE, Goal<DU, DE>> {
    let qa = vars.v[0].clone();
    let qb = vars.v[1].clone();
    let coll0: Vec<LT> = vec![qa.clone(), qa.clone(), lterm!(2)];
    proto_vulcan!([for e in &coll0 { [false, _ == qb, e == qa], |y| { e == 1, y == e, [_, y | qb] == y } }])
}
pub fn case_27(vars: &Vars) -> InferredGoal<DU, DE, Goal<DU, DE>> {
    let qa = vars.v[0].clone();
    let qb = vars.v[1].clone();
    let coll0: Vec<LT> = vec![lterm!(2)];
    proto_vulcan!([[[qa | qa] == qa, append(qa, qb, [2])], for e in &coll0 { conde { [2] == qa, qa == [e, qb], [e == [e, 3, [] | 'a'], qa == 2] }, [3, 1, 2] != e }])
}
pub fn case_28(vars: &Vars) -> InferredGoal<DU, DE, Goal<DU, DE>> {
    let qa = vars.v[0].clone();
    let qb = vars.v[1].clone();
    let coll0: Vec<LT> = vec![lterm!([2])];
    proto_vulcan!([for e in &coll0 { e == _ }])
}
pub fn case_29(vars: &Vars) -> InferredGoal<DU, DE, Goal<DU, DE>> {
    let qa = vars.v[0].clone();
    let qb = vars.v[1].clone();
    let coll0: Vec<LT> = vec![lterm!(2), lterm!([2])];
    proto_vulcan!([for e in &coll0 { [[]] == qa }])
}
pub fn case_30(vars: &Vars) -> InferredGoal<DU, DE, Goal<DU, DE>> {
    let qa = vars.v[0].clone();
    let qb = vars.v[1].clone();
    let coll0: Vec<LT> = vec![lterm!([1]), lterm!(1), lterm!(3)];
    proto_vulcan!([for e in &coll0 { [[[qb], 3] == 2], [[_, 1 | qb]] == qa }])
}
pub fn case_31(vars: &Vars) -> InferredGoal<DU, DE, Goal<DU, DE>> {
    let qa = vars.v[0].clone();
    let qb = vars.v[1].clone();
    let coll0: Vec<LT> = vec![qa.clone()];
    proto_vulcan!([member(qa, [2, 3]), for e in &coll0 { [_] == qa }])
}
pub fn case_32(vars: &Vars) -> InferredGoal<DU, DE, Goal<DU, DE>> {
    let qa = vars.v[0].clone();
    let qb = vars.v[1].clone();
    let coll0: Vec<LT> = vec![qa.clone(), lterm!(2), qa.clone()];
    proto_vulcan!([for e in &coll0 { false, conde { [member(qb, []), qb != "bc"], true == qb } }])
}
pub fn case_33(vars: &Vars) -> InferredGoal<DU, DE, Goal<DU, DE>> {
    let qa = vars.v[0].clone();
    let qb = vars.v[1].clone();
    let coll0: Vec<LT> = vec![qa.clone(), lterm!(1), lterm!(2)];
    proto_vulcan!([[_, true] == qb, for e in &coll0 { e == [_, qb, []] }])
}
pub fn case_34(vars: &Vars) -> InferredGoal<DU, DE, Goal<DU, DE>> {
    let qa = vars.v[0].clone();
    let qb = vars.v[1].clone();
    let coll0: Vec<LT> = vec![lterm!(3)];
    proto_vulcan!([[qa == [[], 2, _], qb != [1], false], for e in &coll0 { _ == [qa], e == _ }])
}
pub fn case_35(vars: &Vars) -> InferredGoal<DU, DE, Goal<DU, DE>> {
    let qa = vars.v[0].clone();
    let qb = vars.v[1].clone();
    let coll0: Vec<LT> = vec![lterm!(3)];
    proto_vulcan!([qb != [[_, [], qa], [qa | qb]], for e in &coll0 { qb == _ }])
}
pub fn case_36(vars: &Vars) -> InferredGoal<DU, DE, Goal<DU, DE>> {
    let qa = vars.v[0].clone();
    let qb = vars.v[1].clone();
    let coll0: Vec<LT> = vec![lterm!(2)];
    proto_vulcan!([[1, _, 2] == qb, for e in &coll0 { [false, false] }])
}
pub fn case_37(vars: &Vars) -> InferredGoal<DU, DE, Goal<DU, DE>> {
    let qa = vars.v[0].clone();
    let qb = vars.v[1].clone();
    let coll0: Vec<LT> = vec![];
    proto_vulcan!([for e in &coll0 { |t| { e != qb, [[], 1, e] == 3, qa == [t, [t, 1, 3 | e]] } }])
}
pub fn case_38(vars: &Vars) -> InferredGoal<DU, DE, Goal<DU, DE>> {
    let qa = vars.v[0].clone();
    let qb = vars.v[1].clone();
    let coll0: Vec<LT> = vec![lterm!(1), lterm!(1), lterm!(2)];
    proto_vulcan!([qa != [[] | qb], for e in &coll0 { [] == [["bc", true], ["bc", 1, e | qb]] }])
}
pub fn case_39(vars: &Vars) -> InferredGoal<DU, DE, Goal<DU, DE>> {
    let qa = vars.v[0].clone();
    let qb = vars.v[1].clone();
    let coll0: Vec<LT> = vec![qa.clone(), qa.clone()];
    proto_vulcan!([for e in &coll0 { qb == qb, |x| { [x, 2, e | qa] == qb, qa == qb, [qa, 2] == x } }])
}
pub fn case_40(vars: &Vars) -> InferredGoal<DU, DE, Goal<DU, DE>> {
    let qa = vars.v[0].clone();
    let qb = vars.v[1].clone();
    let coll0: Vec<LT> = vec![lterm!([2]), lterm!([2]), lterm!(3)];
    proto_vulcan!([for e in &coll0 { [[], 1, _] == qb }])
}
pub fn case_41(vars: &Vars) -> InferredGoal<DU, DE, Goal<DU, DE>> {
    let qa = vars.v[0].clone();
    let qb = vars.v[1].clone();
    let coll0: Vec<LT> = vec![qb.clone(), qb.clone(), qb.clone()];
    proto_vulcan!([_ == qb, for e in &coll0 { |y, x| { append(e, qa, [1]) } }])
}
pub fn case_42(vars: &Vars) -> InferredGoal<DU, DE, Goal<DU, DE>> {
    let qa = vars.v[0].clone();
    let qb = vars.v[1].clone();
    let coll0: Vec<LT> = vec![];
    proto_vulcan!([for e in &coll0 { _ != [] }])
}
pub fn case_43(vars: &Vars) -> InferredGoal<DU, DE, Goal<DU, DE>> {
    let qa = vars.v[0].clone();
    let qb = vars.v[1].clone();
    let coll0: Vec<LT> = vec![lterm!(1), lterm!(2)];
    proto_vulcan!([for e in &coll0 { conde { [2, qa, qa] == qa, qa == _, [false != e, e == 2] }, qb != [2, qa] }])
}
pub fn case_44(vars: &Vars) -> InferredGoal<DU, DE, Goal<DU, DE>> {
    let qa = vars.v[0].clone();
    let qb = vars.v[1].clone();
    let coll0: Vec<LT> = vec![lterm!(1), lterm!(1)];
    proto_vulcan!([for e in &coll0 { qa == [e | qb], e == [3, e] }])
}
pub fn case_45(vars: &Vars) -> InferredGoal<DU, DE, Goal<DU, DE>> {
    let qa = vars.v[0].clone();
    let qb = vars.v[1].clone();
    let coll0: Vec<LT> = vec![lterm!(1), qb.clone()];
    proto_vulcan!([for e in &coll0 { |h| { qb == [3, 2, 3 | 3] } }])
}
pub fn case_46(vars: &Vars) -> InferredGoal<DU, DE, Goal<DU, DE>> {
    let qa = vars.v[0].clone();
    let qb = vars.v[1].clone();
    let coll0: Vec<LT> = vec![lterm!(2), lterm!(1), lterm!(1)];
    proto_vulcan!([for e in &coll0 { e == 'b' }])
}
pub fn case_47(vars: &Vars) -> InferredGoal<DU, DE, Goal<DU, DE>> {
    let qa = vars.v[0].clone();
    let qb = vars.v[1].clone();
    let coll0: Vec<LT> = vec![lterm!([2]), qb.clone(), lterm!([1])];
    proto_vulcan!([for e in &coll0 { false, |t| { true, 1 != [3], t == [t, e, 2] } }])
}
pub fn case_48(vars: &Vars) -> InferredGoal<DU, DE, Goal<DU, DE>> {
    let qa = vars.v[0].clone();
    let qb = vars.v[1].clone();
    let coll0: Vec<LT> = vec![];
    proto_vulcan!([qb == qa, for e in &coll0 { e != [true] }])
}
pub fn case_49(vars: &Vars) -> InferredGoal<DU, DE, Goal<DU, DE>> {
    let qa = vars.v[0].clone();
    let qb = vars.v[1].clone();
    let coll0: Vec<LT> = vec![];
    proto_vulcan!([[qa] == qb, for e in &coll0 { |z, h| { z == qb, z != [[1, e, 2], 2 | qb], qb != ['b'] }, [[3], 1] == qb }])
}
pub fn case_50(vars: &Vars) -> InferredGoal<DU, DE, Goal<DU, DE>> {
    let qa = vars.v[0].clone();
    let qb = vars.v[1].clone();
    let coll0: Vec<LT> = vec![];
    proto_vulcan!([for e in &coll0 { qb == [qa, [], qa] }])
}
pub fn case_51(vars: &Vars) -> InferredGoal<DU, DE, Goal<DU, DE>> {
    let qa = vars.v[0].clone();
    let qb = vars.v[1].clone();
    let coll0: Vec<LT> = vec![qb.clone()];
    proto_vulcan!([for e in &coll0 { [] == [_ | qb], qb != [[] | e] }])
}
pub fn case_52(vars: &Vars) -> InferredGoal<DU, DE, Goal<DU, DE>> {
    let qa = vars.v[0].clone();
    let qb = vars.v[1].clone();
    let coll0: Vec<LT> = vec![];
    proto_vulcan!([for e in &coll0 { |h| { append(e, qb, [1]), [[], 2, 2] != e, h == e }, conde { e == [3, _, qb | e], [append(qa, qb, [1, 2]), 3 == qa] } }])
}
pub fn case_53(vars: &Vars) -> InferredGoal<DU, DE, Goal<DU, DE>> {
    let qa = vars.v[0].clone();
    let qb = vars.v[1].clone();
    let coll0: Vec<LT> = vec![lterm!([2])];
    proto_vulcan!([|t| { qa == [1], t == [true, 3, 2] }, for e in &coll0 { [true, 'a', e] == qa, [[], e] == e }])
}
pub fn case_54(vars: &Vars) -> InferredGoal<DU, DE, Goal<DU, DE>> {
    let qa = vars.v[0].clone();
    let qb = vars.v[1].clone();
    let coll0: Vec<LT> = vec![lterm!(2), qa.clone()];
    proto_vulcan!([[[qa] == [[2, [], 3]]], for e in &coll0 { |t| { qb == ['b', qb] } }])
}
pub fn case_55(vars: &Vars) -> InferredGoal<DU, DE, Goal<DU, DE>> {
    let qa = vars.v[0].clone();
    let qb = vars.v[1].clone();
    let coll0: Vec<LT> = vec![lterm!(2), lterm!([2])];
    proto_vulcan!([for e in &coll0 { [2, e] == 2 }])
}
pub fn case_56(vars: &Vars) -> InferredGoal<DU, DE, Goal<DU, DE>> {
    let qa = vars.v[0].clone();
    let qb = vars.v[1].clone();
    let coll0: Vec<LT> = vec![lterm!([2])];
    proto_vulcan!([for e in &coll0 { [qb != qa, true], qb != [] }])
}
pub fn case_57(vars: &Vars) -> InferredGoal<DU, DE, Goal<DU, DE>> {
    let qa = vars.v[0].clone();
    let qb = vars.v[1].clone();
    let coll0: Vec<LT> = vec![lterm!([1]), qa.clone(), qb.clone()];
    proto_vulcan!([qa == [["a", 1], 'a', [qb, qb, [] | qb]], for e in &coll0 { 1 != qb, qb != [2] }])
}
pub fn case_58(vars: &Vars) -> InferredGoal<DU, DE, Goal<DU, DE>> {
    let qa = vars.v[0].clone();
    let qb = vars.v[1].clone();
    let coll0: Vec<LT> = vec![];
    proto_vulcan!([false, for e in &coll0 { ['b'] == e, [qa, 3, 2] == e }])
}
pub fn case_59(vars: &Vars) -> InferredGoal<DU, DE, Goal<DU, DE>> {
    let qa = vars.v[0].clone();
    let qb = vars.v[1].clone();
    let coll0: Vec<LT> = vec![qa.clone(), qb.clone(), lterm!(2)];
    proto_vulcan!([for e in &coll0 { qb != qb }])
}
pub fn case_60(vars: &Vars) -> InferredGoal<DU, DE, Goal<DU, DE>> {
    let qa = vars.v[0].clone();
    let qb = vars.v[1].clone();
    let coll0: Vec<LT> = vec![lterm!(3), lterm!([1]), lterm!(3)];
    proto_vulcan!([[qa == qb], for e in &coll0 { append(qa, e, [1]), false }])
}
pub fn case_61(vars: &Vars) -> InferredGoal<DU, DE, Goal<DU, DE>> {
    let qa = vars.v[0].clone();
    let qb = vars.v[1].clone();
    let coll0: Vec<LT> = vec![];
    proto_vulcan!([for e in &coll0 { conde { [[false, 2]] == [e, 2], [e != qa, [2] != e], [false, [[], qb] == qb] } }])
}
pub fn case_62(vars: &Vars) -> InferredGoal<DU, DE, Goal<DU, DE>> {
    let qa = vars.v[0].clone();
    let qb = vars.v[1].clone();
    let coll0: Vec<LT> = vec![lterm!(1)];
    proto_vulcan!([for e in &coll0 { [[qa] | e] == true, conde { e == e, [qb, qb, e] == qa, true } }])
}
pub fn case_63(vars: &Vars) -> InferredGoal<DU, DE, Goal<DU, DE>> {
    let qa = vars.v[0].clone();
    let qb = vars.v[1].clone();
    let coll0: Vec<LT> = vec![lterm!(2), qb.clone(), lterm!([2])];
    proto_vulcan!([qa != [[]], for e in &coll0 { e == e, e == e }])
}
pub fn case_64(vars: &Vars) -> InferredGoal<DU, DE, Goal<DU, DE>> {
    let qa = vars.v[0].clone();
    let qb = vars.v[1].clone();
    let coll0: Vec<LT> = vec![qb.clone(), lterm!(3), lterm!(3)];
    proto_vulcan!([[2 | qb] == [true], for e in &coll0 { 3 == e, append(qa, qa, []) }])
}
pub fn case_65(vars: &Vars) -> InferredGoal<DU, DE, Goal<DU, DE>> {
    let qa = vars.v[0].clone();
    let qb = vars.v[1].clone();
    let coll0: Vec<LT> = vec![lterm!(2), qa.clone()];
    proto_vulcan!([2 == qb, for e in &coll0 { false, 2 != qa }])
}
pub fn case_66(vars: &Vars) -> InferredGoal<DU, DE, Goal<DU, DE>> {
    let qa = vars.v[0].clone();
    let qb = vars.v[1].clone();
    let coll0: Vec<LT> = vec![];
    proto_vulcan!([for e in &coll0 { conde { [false, false], e == [[[]], 3], false }, [[[], qa, 1]] == qa }])
}
pub fn case_67(vars: &Vars) -> InferredGoal<DU, DE, Goal<DU, DE>> {
    let qa = vars.v[0].clone();
    let qb = vars.v[1].clone();
    let coll0: Vec<LT> = vec![lterm!(3)];
    proto_vulcan!([qb == [qa, ["bc" | qa], [2 | qb]], for e in &coll0 { conde { [qb == _, [[1, e | e], [[]]] == []], [[qa, qb, 3] != qa, qa != qb], [qb] == e } }])
}
pub fn case_68(vars: &Vars) -> InferredGoal<DU, DE, Goal<DU, DE>> {
    let qa = vars.v[0].clone();
    let qb = vars.v[1].clone();
    let coll0: Vec<LT> = vec![lterm!([2]), lterm!(1)];
    proto_vulcan!([qb != qb, for e in &coll0 { |t| { [['b']] == e, qa == [t], true }, conde { qb == e, qa != [1] } }])
}
pub fn case_69(vars: &Vars) -> InferredGoal<DU, DE, Goal<DU, DE>> {
    let qa = vars.v[0].clone();
    let qb = vars.v[1].clone();
    let coll0: Vec<LT> = vec![lterm!(3)];
    proto_vulcan!([[true, qa == [], qa != [1, qa, qb | "a"]], for e in &coll0 { [qa, _, e] == e, qb == qa }])
}
pub fn case_70(vars: &Vars) -> InferredGoal<DU, DE, Goal<DU, DE>> {
    let qa = vars.v[0].clone();
    let qb = vars.v[1].clone();
    let coll0: Vec<LT> = vec![];
    proto_vulcan!([|y, h| { [] == qa, qa == [[2, _], h] }, for e in &coll0 { qa == qa, qa == [e] }])
}
pub fn case_71(vars: &Vars) -> InferredGoal<DU, DE, Goal<DU, DE>> {
    let qa = vars.v[0].clone();
    let qb = vars.v[1].clone();
    let coll0: Vec<LT> = vec![lterm!([2]), lterm!(1), lterm!(2)];
    proto_vulcan!([qb == qa, for e in &coll0 { |x| { [qa] == qa, append(x, qb, []) } }])
}
pub fn case_72(vars: &Vars) -> InferredGoal<DU, DE, Goal<DU, DE>> {
    let qa = vars.v[0].clone();
    let qb = vars.v[1].clone();
    let coll0: Vec<LT> = vec![lterm!(1), qa.clone()];
    proto_vulcan!([for e in &coll0 { qb != qb }])
}
pub fn case_73(vars: &Vars) -> InferredGoal<DU, DE, Goal<DU, DE>> {
    let qa = vars.v[0].clone();
    let qb = vars.v[1].clone();
    let coll0: Vec<LT> = vec![qa.clone()];
    proto_vulcan!([for e in &coll0 { [2, 1] == qa, |t| { [[[], e | t], qa, [e]] == t, [3, [], 2] == t } }])
}
pub fn case_74(vars: &Vars) -> InferredGoal<DU, DE, Goal<DU, DE>> {
    let qa = vars.v[0].clone();
    let qb = vars.v[1].clone();
    let coll0: Vec<LT> = vec![lterm!([1]), lterm!([1])];
    proto_vulcan!([['a', qb] == 3, for e in &coll0 { qb != [_] }])
}
pub fn case_75(vars: &Vars) -> InferredGoal<DU, DE, Goal<DU, DE>> {
    let qa = vars.v[0].clone();
    let qb = vars.v[1].clone();
    let coll0: Vec<LT> = vec![lterm!([2]), qb.clone()];
    proto_vulcan!([for e in &coll0 { qb == _ }])
}
pub fn case_76(vars: &Vars) -> InferredGoal<DU, DE, Goal<DU, DE>> {
    let qa = vars.v[0].clone();
    let qb = vars.v[1].clone();
    let coll0: Vec<LT> = vec![lterm!([1]), qa.clone(), lterm!(1)];
    proto_vulcan!([[] != qb, for e in &coll0 { |z, h| { append(qa, h, [2]) }, append(qb, e, []) }])
}
pub fn case_77(vars: &Vars) -> InferredGoal<DU, DE, Goal<DU, DE>> {
    let qa = vars.v[0].clone();
    let qb = vars.v[1].clone();
    let coll0: Vec<LT> = vec![lterm!(1)];
    proto_vulcan!([conde { [qa, _, 3] == qb, [[1, qb, 2 | qa] == qb, qb != qa], [qa == [qb, false], qa != [qa]] }, for e in &coll0 { |z| { [e | qa] == qa } }])
}
pub fn case_78(vars: &Vars) -> InferredGoal<DU, DE, Goal<DU, DE>> {
    let qa = vars.v[0].clone();
    let qb = vars.v[1].clone();
    let coll0: Vec<LT> = vec![];
    proto_vulcan!([[1, [[], qb, [] | qb], [qb, _, 1 | true]] != [2], for e in &coll0 { [e == [[qb, 'b' | qa], true], e == []], 3 == 2 }])
}
pub fn case_79(vars: &Vars) -> InferredGoal<DU, DE, Goal<DU, DE>> {
    let qa = vars.v[0].clone();
    let qb = vars.v[1].clone();
    let coll0: Vec<LT> = vec![lterm!(3), lterm!([2])];
    proto_vulcan!([qb == qb, for e in &coll0 { [2, [qb] | qa] == qb, |h, y| { qb == 'b', y == [[], e, 1] } }])
}
pub fn case_80(vars: &Vars) -> InferredGoal<DU, DE, Goal<DU, DE>> {
    let qa = vars.v[0].clone();
    let qb = vars.v[1].clone();
    let coll0: Vec<LT> = vec![lterm!(1), qa.clone(), lterm!([1])];
    proto_vulcan!([[_] == qa, for e in &coll0 { conde { [qa == [qb, qb | qa], e != [qa, []]], [false, qa != qa] } }])
}
pub fn case_81(vars: &Vars) -> InferredGoal<DU, DE, Goal<DU, DE>> {
    let qa = vars.v[0].clone();
    let qb = vars.v[1].clone();
    let coll0: Vec<LT> = vec![lterm!([2])];
    proto_vulcan!([[_, qb] == qa, for e in &coll0 { [[e, 1 | _] | qb] == 2 }])
}
pub fn case_82(vars: &Vars) -> InferredGoal<DU, DE, Goal<DU, DE>> {
    let qa = vars.v[0].clone();
    let qb = vars.v[1].clone();
    let coll0: Vec<LT> = vec![lterm!([1])];
    proto_vulcan!([for e in &coll0 { |z| { e == [3, qb, 3] } }])
}
pub fn case_83(vars: &Vars) -> InferredGoal<DU, DE, Goal<DU, DE>> {
    let qa = vars.v[0].clone();
    let qb = vars.v[1].clone();
    let coll0: Vec<LT> = vec![];
    proto_vulcan!([qa == qa, for e in &coll0 { qb == _, e == _ }])
}
pub fn case_84(vars: &Vars) -> InferredGoal<DU, DE, Goal<DU, DE>> {
    let qa = vars.v[0].clone();
    let qb = vars.v[1].clone();
    let coll0: Vec<LT> = vec![lterm!([1])];
    proto_vulcan!([for e in &coll0 { [qb == [false]], qb != qb }])
}
pub fn case_85(vars: &Vars) -> InferredGoal<DU, DE, Goal<DU, DE>> {
    let qa = vars.v[0].clone();
    let qb = vars.v[1].clone();
    let coll0: Vec<LT> = vec![lterm!(3), lterm!(1), lterm!(1)];
    proto_vulcan!([|h, y| { y == y, 3 == [1], 2 == qa }, for e in &coll0 { |y, x| { [y, 1 | qb] != e, append(qb, qb, [3]), false } }])
}
pub fn case_86(vars: &Vars) -> InferredGoal<DU, DE, Goal<DU, DE>> {
    let qa = vars.v[0].clone();
    let qb = vars.v[1].clone();
    let coll0: Vec<LT> = vec![];
    proto_vulcan!([for e in &coll0 { conde { [[2, qb, [[], qb, 1]] == qb, qa == 3], qb == 3, qb != e } }])
}
pub fn case_87(vars: &Vars) -> InferredGoal<DU, DE, Goal<DU, DE>> {
    let qa = vars.v[0].clone();
    let qb = vars.v[1].clone();
    let coll0: Vec<LT> = vec![lterm!(2)];
    proto_vulcan!([for e in &coll0 { member(qa, [3, 2, 3]) }])
}
pub fn case_88(vars: &Vars) -> InferredGoal<DU, DE, Goal<DU, DE>> {
    let qa = vars.v[0].clone();
    let qb = vars.v[1].clone();
    let coll0: Vec<LT> = vec![lterm!([1])];
    proto_vulcan!([for e in &coll0 { [2, e, 2] == 3 }])
}
pub fn case_89(vars: &Vars) -> InferredGoal<DU, DE, Goal<DU, DE>> {
    let qa = vars.v[0].clone();
    let qb = vars.v[1].clone();
    let coll0: Vec<LT> = vec![lterm!(1), qa.clone(), lterm!(3)];
    proto_vulcan!([for e in &coll0 { qb == [[]], ["a", e, e] != qb }])
}
pub fn case_90(vars: &Vars) -> InferredGoal<DU, DE, Goal<DU, DE>> {
    let qa = vars.v[0].clone();
    let qb = vars.v[1].clone();
    let coll0: Vec<LT> = vec![lterm!(2), qb.clone()];
    proto_vulcan!([for e in &coll0 { [qa | qa] == qa }])
}
pub fn case_91(vars: &Vars) -> InferredGoal<DU, DE, Goal<DU, DE>> {
    let qa = vars.v[0].clone();
    let qb = vars.v[1].clone();
    let coll0: Vec<LT> = vec![lterm!(2)];
    proto_vulcan!([conde { qa == qb, [append(qa, qa, [1]), qb != "bc"] }, for e in &coll0 { qb == [e, _, 1] }])
}
pub fn case_92(vars: &Vars) -> InferredGoal<DU, DE, Goal<DU, DE>> {
    let qa = vars.v[0].clone();
    let qb = vars.v[1].clone();
    let coll0: Vec<LT> = vec![qb.clone()];
    proto_vulcan!([for e in &coll0 { |t| { member(qa, [3, 2]) }, [false, qb != [[3], [qa, "bc"]], true == qa] }])
}
pub fn case_93(vars: &Vars) -> InferredGoal<DU, DE, Goal<DU, DE>> {
    let qa = vars.v[0].clone();
    let qb = vars.v[1].clone();
    let coll0: Vec<LT> = vec![lterm!([1])];
    proto_vulcan!([for e in &coll0 { conde { e == qb, "bc" != [] } }])
}
pub fn case_94(vars: &Vars) -> InferredGoal<DU, DE, Goal<DU, DE>> {
    let qa = vars.v[0].clone();
    let qb = vars.v[1].clone();
    let coll0: Vec<LT> = vec![lterm!([2]), lterm!(1), qb.clone()];
    proto_vulcan!([for e in &coll0 { e == [_], conde { [true, 1 != [e, [1, true, 2]]], [qa != [[qb, e, 1], e], e == [e, [] | qa]], false } }])
}
pub fn case_95(vars: &Vars) -> InferredGoal<DU, DE, Goal<DU, DE>> {
    let qa = vars.v[0].clone();
    let qb = vars.v[1].clone();
    let coll0: Vec<LT> = vec![qa.clone(), lterm!(2), qa.clone()];
    proto_vulcan!([[_] == qa, for e in &coll0 { e == _, false != qb }])
}
pub fn case_96(vars: &Vars) -> InferredGoal<DU, DE, Goal<DU, DE>> {
    let qa = vars.v[0].clone();
    let qb = vars.v[1].clone();
    let coll0: Vec<LT> = vec![lterm!(3), qb.clone(), lterm!(3)];
    proto_vulcan!([[[qb, 1], []] == qb, for e in &coll0 { e != e, qa != _ }])
}
pub fn case_97(vars: &Vars) -> InferredGoal<DU, DE, Goal<DU, DE>> {
    let qa = vars.v[0].clone();
    let qb = vars.v[1].clone();
    let coll0: Vec<LT> = vec![lterm!(3), lterm!([2]), lterm!(1)];
    proto_vulcan!([for e in &coll0 { [['b', true | qa] == qb, qb == [[3, 'a']]], qb == qa }])
}
pub fn case_98(vars: &Vars) -> InferredGoal<DU, DE, Goal<DU, DE>> {
    let qa = vars.v[0].clone();
    let qb = vars.v[1].clone();
    let coll0: Vec<LT> = vec![lterm!([2]), lterm!([1])];
    proto_vulcan!([for e in &coll0 { |y| { _ == qa, qb != [1, [], qa], qb == _ } }])
}
pub fn case_99(vars: &Vars) -> InferredGoal<DU, DE, Goal<DU, DE>> {
    let qa = vars.v[0].clone();
    let qb = vars.v[1].clone();
    let coll0: Vec<LT> = vec![lterm!(2)];
    proto_vulcan!([[2, [2, 'b', _], _] != qa, for e in &coll0 { |h, z| { [e, qa, [] | z] != h, [true, [1 | e], [[], _, _] | qb] == [_, e] } }])
}
pub fn case_100(vars: &Vars) -> InferredGoal<DU, DE, Goal<DU, DE>> {
    let qa = vars.v[0].clone();
    let qb = vars.v[1].clone();
    let coll0: Vec<LT> = vec![lterm!(2), lterm!([2]), lterm!(1)];
    proto_vulcan!([for e in &coll0 { conde { [qb == e, true], 1 == [[qa, _]] } }])
}
pub fn case_101(vars: &Vars) -> InferredGoal<DU, DE, Goal<DU, DE>> {
    let qa = vars.v[0].clone();
    let qb = vars.v[1].clone();
    let coll0: Vec<LT> = vec![lterm!(1), lterm!([2]), qa.clone()];
    proto_vulcan!([[1] == qa, for e in &coll0 { conde { [qb == _, qb == [2, 'b', qb]], [false, [qa, _, 'a' | _] == qb] }, false }])
}
pub fn case_102(vars: &Vars) -> InferredGoal<DU, DE, Goal<DU, DE>> {
    let qa = vars.v[0].clone();
    let qb = vars.v[1].clone();
    let coll0: Vec<LT> = vec![];
    proto_vulcan!([|z, h| { h == [2] }, for e in &coll0 { conde { append(qb, e, [2, 1]), [qb == [_, [qa, true | qa], 'b'], e == e], qa == [3, "bc", 3] }, [qa, 'b', 2] == e }])
}
pub fn case_103(vars: &Vars) -> InferredGoal<DU, DE, Goal<DU, DE>> {
    let qa = vars.v[0].clone();
    let qb = vars.v[1].clone();
    let coll0: Vec<LT> = vec![lterm!(3), qa.clone(), lterm!([1])];
    proto_vulcan!([[[qa], [], [qb, qb]] == qb, for e in &coll0 { [2, [e, 1, _ | e]] == e }])
}
pub fn case_104(vars: &Vars) -> InferredGoal<DU, DE, Goal<DU, DE>> {
    let qa = vars.v[0].clone();
    let qb = vars.v[1].clone();
    let coll0: Vec<LT> = vec![lterm!([2])];
    proto_vulcan!([[false, "a" == qb, [3] == qa], for e in &coll0 { [[qa, _], []] == qb }])
}
pub fn case_105(vars: &Vars) -> InferredGoal<DU, DE, Goal<DU, DE>> {
    let qa = vars.v[0].clone();
    let qb = vars.v[1].clone();
    let coll0: Vec<LT> = vec![];
    proto_vulcan!([qb == [[qa, _, []]], for e in &coll0 { qa == [[2, 1, e | e], qb | qb] }])
}
pub fn case_106(vars: &Vars) -> InferredGoal<DU, DE, Goal<DU, DE>> {
    let qa = vars.v[0].clone();
    let qb = vars.v[1].clone();
    let coll0: Vec<LT> = vec![qb.clone(), lterm!(3), lterm!(1)];
    proto_vulcan!([qb != _, for e in &coll0 { qb == [3, [1, qa]] }])
}
pub fn case_107(vars: &Vars) -> InferredGoal<DU, DE, Goal<DU, DE>> {
    let qa = vars.v[0].clone();
    let qb = vars.v[1].clone();
    let coll0: Vec<LT> = vec![qb.clone(), lterm!(1)];
    proto_vulcan!([for e in &coll0 { qb == [1] }])
}
pub fn case_108(vars: &Vars) -> InferredGoal<DU, DE, Goal<DU, DE>> {
    let qa = vars.v[0].clone();
    let qb = vars.v[1].clone();
    let coll0: Vec<LT> = vec![];
    proto_vulcan!([for e in &coll0 { 2 == qa }])
}
pub fn case_109(vars: &Vars) -> InferredGoal<DU, DE, Goal<DU, DE>> {
    let qa = vars.v[0].clone();
    let qb = vars.v[1].clone();
    let coll0: Vec<LT> = vec![];
    proto_vulcan!([qa == [2, _, 3], for e in &coll0 { qa == [e, 1 | e], [false, [[], 3]] == [[], 2] }])
}
pub fn case_110(vars: &Vars) -> InferredGoal<DU, DE, Goal<DU, DE>> {
    let qa = vars.v[0].clone();
    let qb = vars.v[1].clone();
    let coll0: Vec<LT> = vec![qa.clone(), lterm!([1]), lterm!([2])];
    proto_vulcan!([for e in &coll0 { |h| { [qb, ['a', 2 | qb], qa] != [[_]] }, [qb] != [1, [qb, 2, qa] | e] }])
}
pub fn case_111(vars: &Vars) -> InferredGoal<DU, DE, Goal<DU, DE>> {
    let qa = vars.v[0].clone();
    let qb = vars.v[1].clone();
    let coll0: Vec<LT> = vec![lterm!(3)];
    proto_vulcan!([[3] == _, for e in &coll0 { true, false }])
}
pub fn case_112(vars: &Vars) -> InferredGoal<DU, DE, Goal<DU, DE>> {
    let qa = vars.v[0].clone();
    let qb = vars.v[1].clone();
    let coll0: Vec<LT> = vec![qa.clone(), lterm!(3), lterm!(2)];
    proto_vulcan!([for e in &coll0 { [1 != e], member(qb, [3]) }])
}
pub fn case_113(vars: &Vars) -> InferredGoal<DU, DE, Goal<DU, DE>> {
    let qa = vars.v[0].clone();
    let qb = vars.v[1].clone();
    let coll0: Vec<LT> = vec![lterm!([2]), lterm!([2]), lterm!(1)];
    proto_vulcan!([for e in &coll0 { [2, [[], qb, qa]] == qb, |y| { y != [1, 1, []], member(qb, [2, 2, 1]) } }])
}
pub fn case_114(vars: &Vars) -> InferredGoal<DU, DE, Goal<DU, DE>> {
    let qa = vars.v[0].clone();
    let qb = vars.v[1].clone();
    let coll0: Vec<LT> = vec![];
    proto_vulcan!([conde { qa == qb, [1 == qb, qa != [qa, 3, qa | qa]], [2, []] == qa }, for e in &coll0 { |h, x| { x == [[], qa], _ == x, [[x], 2, qa] == qb } }])
}
pub fn case_115(vars: &Vars) -> InferredGoal<DU, DE, Goal<DU, DE>> {
    let qa = vars.v[0].clone();
    let qb = vars.v[1].clone();
    let coll0: Vec<LT> = vec![lterm!([2]), lterm!([2]), lterm!(2)];
    proto_vulcan!([for e in &coll0 { qa == qa }])
}
pub fn case_116(vars: &Vars) -> InferredGoal<DU, DE, Goal<DU, DE>> {
    let qa = vars.v[0].clone();
    let qb = vars.v[1].clone();
    let coll0: Vec<LT> = vec![lterm!(1), lterm!(2)];
    proto_vulcan!([[qb, 1] == qa, for e in &coll0 { [e == qb, [[1], qb] != qa] }])
}
pub fn case_117(vars: &Vars) -> InferredGoal<DU, DE, Goal<DU, DE>> {
    let qa = vars.v[0].clone();
    let qb = vars.v[1].clone();
    let coll0: Vec<LT> = vec![];
    proto_vulcan!([qb == qb, for e in &coll0 { conde { [[_, [], false] == qa, 'b' == [[qb, true], [2, []]]], [qb != [2, e, [] | qa], append(e, e, [])], [true, _ != qa] }, [qa, 2, []] == e }])
}
pub fn case_118(vars: &Vars) -> InferredGoal<DU, DE, Goal<DU, DE>> {
    let qa = vars.v[0].clone();
    let qb = vars.v[1].clone();
    let coll0: Vec<LT> = vec![];
    proto_vulcan!([qa == [qa, qb, qa], for e in &coll0 { [[[], 1 | e] != e], qb == [true, 3, qb | e] }])
}
pub fn case_119(vars: &Vars) -> InferredGoal<DU, DE, Goal<DU, DE>> {
    let qa = vars.v[0].clone();
    let qb = vars.v[1].clone();
    let coll0: Vec<LT> = vec![lterm!(3)];
    proto_vulcan!([for e in &coll0 { |x, y| { 'a' == y, ['b'] == y } }])
}
pub fn case_120(vars: &Vars) -> InferredGoal<DU, DE, Goal<DU, DE>> {
    let qa = vars.v[0].clone();
    let qb = vars.v[1].clone();
    let coll0: Vec<LT> = vec![lterm!(2), lterm!([2])];
    proto_vulcan!([for e in &coll0 { e != [1] }])
}
pub fn case_121(vars: &Vars) -> InferredGoal<DU, DE, Goal<DU, DE>> {
    let qa = vars.v[0].clone();
    let qb = vars.v[1].clone();
    let coll0: Vec<LT> = vec![lterm!(1), lterm!([2])];
    proto_vulcan!([for e in &coll0 { |h| { _ == qb, false }, 1 == 1 }])
}
pub fn case_122(vars: &Vars) -> InferredGoal<DU, DE, Goal<DU, DE>> {
    let qa = vars.v[0].clone();
    let qb = vars.v[1].clone();
    let coll0: Vec<LT> = vec![lterm!(2), lterm!(1), qb.clone()];
    proto_vulcan!([qb == 1, for e in &coll0 { |t| { append(e, qb, [1, 2]), ["a", 2, "bc"] == e } }])
}
pub fn case_123(vars: &Vars) -> InferredGoal<DU, DE, Goal<DU, DE>> {
    let qa = vars.v[0].clone();
    let qb = vars.v[1].clone();
    let coll0: Vec<LT> = vec![lterm!([2]), lterm!(2), lterm!([1])];
    proto_vulcan!([[[false, []] == qb, qb == qb, [[_, 1, _] | _] == qb], for e in &coll0 { |h| { 1 == e } }])
}
pub fn case_124(vars: &Vars) -> InferredGoal<DU, DE, Goal<DU, DE>> {
    let qa = vars.v[0].clone();
    let qb = vars.v[1].clone();
    let coll0: Vec<LT> = vec![lterm!(1)];
    proto_vulcan!([[qa == [1 | qb], 'b' == qb, append(qa, qb, [2, 3])], for e in &coll0 { _ == qa }])
}
pub fn case_125(vars: &Vars) -> InferredGoal<DU, DE, Goal<DU, DE>> {
    let qa = vars.v[0].clone();
    let qb = vars.v[1].clone();
    let coll0: Vec<LT> = vec![lterm!([1]), lterm!([1]), lterm!([1])];
    proto_vulcan!([qa == _, for e in &coll0 { [false, qb == qb] }])
}
pub fn case_126(vars: &Vars) -> InferredGoal<DU, DE, Goal<DU, DE>> {
    let qa = vars.v[0].clone();
    let qb = vars.v[1].clone();
    let coll0: Vec<LT> = vec![];
    proto_vulcan!([for e in &coll0 { qb == [qb, qa, qa] }])
}
pub fn case_127(vars: &Vars) -> InferredGoal<DU, DE, Goal<DU, DE>> {
    let qa = vars.v[0].clone();
    let qb = vars.v[1].clone();
    let coll0: Vec<LT> = vec![qb.clone(), qa.clone(), qa.clone()];
    proto_vulcan!([for e in &coll0 { [['a', qb, qa] != qb] }])
}
pub fn case_128(vars: &Vars) -> InferredGoal<DU, DE, Goal<DU, DE>> {
    let qa = vars.v[0].clone();
    let qb = vars.v[1].clone();
    let coll0: Vec<LT> = vec![];
    proto_vulcan!([|t| { [[], t] != t, true }, for e in &coll0 { |y, t| { append(y, e, [3, 1]), true } }])
}
pub fn case_129(vars: &Vars) -> InferredGoal<DU, DE, Goal<DU, DE>> {
    let qa = vars.v[0].clone();
    let qb = vars.v[1].clone();
    let coll0: Vec<LT> = vec![];
    proto_vulcan!([for e in &coll0 { |z| { 1 == z, true, [e, 2] == qa }, qb == [false, e] }])
}
pub fn case_130(vars: &Vars) -> InferredGoal<DU, DE, Goal<DU, DE>> {
    let qa = vars.v[0].clone();
    let qb = vars.v[1].clone();
    let coll0: Vec<LT> = vec![];
    proto_vulcan!([for e in &coll0 { qa == [[3, 1, qa], qb | qb], qa != 3 }])
}
pub fn case_131(vars: &Vars) -> InferredGoal<DU, DE, Goal<DU, DE>> {
    let qa = vars.v[0].clone();
    let qb = vars.v[1].clone();
    let coll0: Vec<LT> = vec![qa.clone()];
    proto_vulcan!([for e in &coll0 { qa == [[qa], "a", qb], _ != e }])
}
pub fn case_132(vars: &Vars) -> InferredGoal<DU, DE, Goal<DU, DE>> {
    let qa = vars.v[0].clone();
    let qb = vars.v[1].clone();
    let coll0: Vec<LT> = vec![];
    proto_vulcan!([for e in &coll0 { |z| { [2, _] != qa, true }, 3 == qb }])
}
pub fn case_133(vars: &Vars) -> InferredGoal<DU, DE, Goal<DU, DE>> {
    let qa = vars.v[0].clone();
    let qb = vars.v[1].clone();
    let coll0: Vec<LT> = vec![qa.clone(), lterm!([1])];
    proto_vulcan!([_ == qb, for e in &coll0 { 3 != qa }])
}
pub fn case_134(vars: &Vars) -> InferredGoal<DU, DE, Goal<DU, DE>> {
    let qa = vars.v[0].clone();
    let qb = vars.v[1].clone();
    let coll0: Vec<LT> = vec![lterm!([1]), lterm!(2)];
    proto_vulcan!([1 == qb, for e in &coll0 { [[[], 1] == qa] }])
}
pub fn case_135(vars: &Vars) -> InferredGoal<DU, DE, Goal<DU, DE>> {
    let qa = vars.v[0].clone();
    let qb = vars.v[1].clone();
    let coll0: Vec<LT> = vec![lterm!([2]), lterm!(1)];
    proto_vulcan!([for e in &coll0 { qa == e }])
}
pub fn case_136(vars: &Vars) -> InferredGoal<DU, DE, Goal<DU, DE>> {
    let qa = vars.v[0].clone();
    let qb = vars.v[1].clone();
    let coll0: Vec<LT> = vec![lterm!([2]), qb.clone(), qa.clone()];
    proto_vulcan!([qa != [], for e in &coll0 { [qa, qa, "a" | qb] == e }])
}
pub fn case_137(vars: &Vars) -> InferredGoal<DU, DE, Goal<DU, DE>> {
    let qa = vars.v[0].clone();
    let qb = vars.v[1].clone();
    let coll0: Vec<LT> = vec![];
    proto_vulcan!([for e in &coll0 { e != e }])
}
pub fn case_138(vars: &Vars) -> InferredGoal<DU, DE, Goal<DU, DE>> {
    let qa = vars.v[0].clone();
    let qb = vars.v[1].clone();
    let coll0: Vec<LT> = vec![];
    proto_vulcan!([for e in &coll0 { [_ | qa] == qa, [] != qb }])
}
pub fn case_139(vars: &Vars) -> InferredGoal<DU, DE, Goal<DU, DE>> {
    let qa = vars.v[0].clone();
    let qb = vars.v[1].clone();
    let coll0: Vec<LT> = vec![lterm!(3)];
    proto_vulcan!([conde { qa == [qa], [qa != 2, qa != [false, "a"]] }, for e in &coll0 { qb != [qb, qa, qa | qb], conde { [append(qa, qa, [2]), qb == [[[], qb | qa] | 3]], [[2, false] != qb, qa == qb] } }])
}
pub fn case_140(vars: &Vars) -> InferredGoal<DU, DE, Goal<DU, DE>> {
    let x = vars.v[0].clone();
    proto_vulcan!([match x { [x | _] => x == 1, }])
}
pub fn case_141(vars: &Vars) -> InferredGoal<DU, DE, Goal<DU, DE>> {
    let x = vars.v[0].clone();
    let y = vars.v[1].clone();
    proto_vulcan!([match x { [h, h] => h == y, }])
}
pub fn case_142(vars: &Vars) -> InferredGoal<DU, DE, Goal<DU, DE>> {
    let x = vars.v[0].clone();
    proto_vulcan!([match x { [] | [_] => , [_, _ | t] => t == [], }])
}
pub fn case_143(vars: &Vars) -> InferredGoal<DU, DE, Goal<DU, DE>> {
    let x = vars.v[0].clone();
    let y = vars.v[1].clone();
    proto_vulcan!([member(x, [1, 2]), matcha x { 1 => y == 10, _ => y == 20, }])
}
pub fn case_144(vars: &Vars) -> InferredGoal<DU, DE, Goal<DU, DE>> {
    let x = vars.v[0].clone();
    let y = vars.v[1].clone();
    proto_vulcan!([matchu [x, y] { [h, _] => member(h, [1, 2]), _ => , }])
}
pub fn case_145(vars: &Vars) -> InferredGoal<DU, DE, Goal<DU, DE>> {
    let x = vars.v[0].clone();
    proto_vulcan!([x == [], match x { 1 => , [[t, 2, h | _], [[]]] => { x != [3 | h], [[true, _] == t, 'a' != x] }, x => , }])
}
pub fn case_146(vars: &Vars) -> InferredGoal<DU, DE, Goal<DU, DE>> {
    let q = vars.v[0].clone();
    let x = vars.v[1].clone();
    proto_vulcan!([matche q { 1 | 2 => [match x { 3 => x != [2, x], }, matchu q { [[1, []], [y, [], t], []] => q == t, }], y => , }])
}
pub fn case_147(vars: &Vars) -> InferredGoal<DU, DE, Goal<DU, DE>> {
    let x = vars.v[0].clone();
    proto_vulcan!([matche x { [['b', 'a', y | x], t, z] => { y != [[t | z], _ | z], conde { [[y, t] != y, y == [[x, "bc"], t, ["a", []]]], [y == [3, 'b' | x], x == 2], [y != [2 | x], x != 2] } }, [["bc", _, _ | t], [x], 3 | y] => , [[[], t | h], [z, _, t | x]] => matche h { 2 => z == [2, x], [z, [2 | t], [y, _, 1]] => { false }, }, }])
}
pub fn case_148(vars: &Vars) -> InferredGoal<DU, DE, Goal<DU, DE>> {
    let x = vars.v[0].clone();
    proto_vulcan!([matcha x { [] | [3, y, [[]]] => x == "bc", [3, [t, z | _]] => [[_ == z], false], 1 => [[[x, _ | 1] != x, append(x, x, [])], x == [2]], }])
}
pub fn case_149(vars: &Vars) -> InferredGoal<DU, DE, Goal<DU, DE>> {
    let x = vars.v[0].clone();
    proto_vulcan!([false, matche x { 2 | [[t, _]] => , 'b' => , [_, [] | _] => { false }, }])
}
pub fn case_150(vars: &Vars) -> InferredGoal<DU, DE, Goal<DU, DE>> {
    let x = vars.v[0].clone();
    let y = vars.v[1].clone();
    proto_vulcan!([matchu [1, 1, x] { [[true], _, h] => { condu { [append(x, x, [3]), [2] == y], [[2, x] != x, y == h] } }, [[z, 1, 2]] => [[false], match z { [[_], x, [x, z | _]] => z == 2, [[x, 1, z], 1, x] => , [[2, _], _, ["a", [], 2 | _] | _] => { false, 2 != z }, }], }])
}
pub fn case_151(vars: &Vars) -> InferredGoal<DU, DE, Goal<DU, DE>> {
    let x = vars.v[0].clone();
    let y = vars.v[1].clone();
    proto_vulcan!([matcha y { _ | [[h, z, h]] => , }])
}
pub fn case_152(vars: &Vars) -> InferredGoal<DU, DE, Goal<DU, DE>> {
    let q = vars.v[0].clone();
    let x = vars.v[1].clone();
    proto_vulcan!([matcha q { 'b' => [condu { x == [[q], [x]], [q] == x, x == x }, false], }])
}
pub fn case_153(vars: &Vars) -> InferredGoal<DU, DE, Goal<DU, DE>> {
    let x = vars.v[0].clone();
    let y = vars.v[1].clone();
    proto_vulcan!([matchu x { [[true, 2 | _], [3, 1 | _]] | [[h], 3, [y]] => { x == x, matcha x { [y, t, [_, y]] => , } }, [[1 | _]] => [onceo { true }, onceo { false }], }])
}
pub fn case_154(vars: &Vars) -> InferredGoal<DU, DE, Goal<DU, DE>> {
    let x = vars.v[0].clone();
    let y = vars.v[1].clone();
    proto_vulcan!([matche y { _ => , }])
}
pub fn case_155(vars: &Vars) -> InferredGoal<DU, DE, Goal<DU, DE>> {
    let x = vars.v[0].clone();
    proto_vulcan!([matche x { [[1, false, z], _] => member(z, [1]), }])
}
pub fn case_156(vars: &Vars) -> InferredGoal<DU, DE, Goal<DU, DE>> {
    let q = vars.v[0].clone();
    let x = vars.v[1].clone();
    proto_vulcan!([matchu x { [[t, true, false | 1], [2, y | y] | false] => |x| { q == _ }, [[z, [], x]] => { [[q, _, []], "bc", [1, _, []] | x] == q }, [[1, _ | z], [h, h, x]] => , }])
}
pub fn case_157(vars: &Vars) -> InferredGoal<DU, DE, Goal<DU, DE>> {
    let x = vars.v[0].clone();
    proto_vulcan!([matcha x { [1] => [x == 3, matcha x { [1, z | y] | [h, [true, 3]] => { 1 == x, x == [3] }, }], }])
}
pub fn case_158(vars: &Vars) -> InferredGoal<DU, DE, Goal<DU, DE>> {
    let x = vars.v[0].clone();
    let y = vars.v[1].clone();
    proto_vulcan!([|x, t| { [[t], _ | x] == x, ['a', _] == x }, matcha y { _ | [['b']] => { matchu y { h => { x == [false, [], x | x], [3, h, _] != h }, } }, [[x]] | [[[]], []] => { matcha y { [[t, h, 1]] => { [1, [1 | t], "a"] == [2, y, 2] }, 2 => [y == [], _ != y], [_ | t] => { y != y }, }, condu { [y != y, y == 2] } }, x | [y, y, 2 | z] => , }])
}
pub fn case_159(vars: &Vars) -> InferredGoal<DU, DE, Goal<DU, DE>> {
    let x = vars.v[0].clone();
    let y = vars.v[1].clone();
    proto_vulcan!([|t| { "a" != x }, matcha [x | y] { [[] | t] => { false, t == x }, }])
}
pub fn case_160(vars: &Vars) -> InferredGoal<DU, DE, Goal<DU, DE>> {
    let x = vars.v[0].clone();
    proto_vulcan!([matchu x { [z] | 2 => , [[z, y]] => { |t| { z == 2, [2 | y] == t, ['b'] != 1 }, conde { [[3, 2, 2], 3] != [y], [2, 2] == x, [[x] | z] == [2, x] } }, }])
}
pub fn case_161(vars: &Vars) -> InferredGoal<DU, DE, Goal<DU, DE>> {
    let q = vars.v[0].clone();
    let x = vars.v[1].clone();
    proto_vulcan!([match q { [[], [x | 'a'], "bc"] | _ => [conda { [q != [[], [], q], member(q, [1, 1, 1])] }, conde { q == ["bc", 2, q], [[3, [q | q]] == q, member(q, [])] }], y => [q == [y, x, 2], y == 3], t => conde { [[], t, q] == x, true, [t == [q | q], true] }, }])
}
pub fn case_162(vars: &Vars) -> InferredGoal<DU, DE, Goal<DU, DE>> {
    let q = vars.v[0].clone();
    let x = vars.v[1].clone();
    proto_vulcan!([match q { [[h, t] | _] => { append(q, h, []), h == t }, true => , }])
}
pub fn case_163(vars: &Vars) -> InferredGoal<DU, DE, Goal<DU, DE>> {
    let x = vars.v[0].clone();
    let y = vars.v[1].clone();
    proto_vulcan!([x != 3, matche y { [[3, 1], [true, 1, t | _], [h, y, x]] => , [[[] | 1], [[]], 1] => , }])
}
pub fn case_164(vars: &Vars) -> InferredGoal<DU, DE, Goal<DU, DE>> {
    let x = vars.v[0].clone();
    proto_vulcan!([matcha x { [[3 | _], [z, 2], [[], _ | 1] | z] => [2 == z, [x | x] != 1], [x] => matchu x { [[1, y], [x, h, "a"], 1 | x] | [3, [_, 1 | _], [y]] => , }, }])
}
pub fn case_165(vars: &Vars) -> InferredGoal<DU, DE, Goal<DU, DE>> {
    let x = vars.v[0].clone();
    let y = vars.v[1].clone();
    proto_vulcan!([matchu x { [[], []] | [[_, 1 | x]] => , }])
}
pub fn case_166(vars: &Vars) -> InferredGoal<DU, DE, Goal<DU, DE>> {
    let x = vars.v[0].clone();
    let y = vars.v[1].clone();
    proto_vulcan!([matchu y { _ => { [x, _, []] != y }, }])
}
pub fn case_167(vars: &Vars) -> InferredGoal<DU, DE, Goal<DU, DE>> {
    let q = vars.v[0].clone();
    let x = vars.v[1].clone();
    proto_vulcan!([matchu q { [z, [_] | t] => [matcha q { [["bc" | _]] => { q == "bc" }, [[2 | h], 3, [z, _, 2 | y] | y] => [[]] != q, [[h], [], [3, y]] => , }, t == [3]], 2 => [q == _, match x { [[true] | 1] => [2, 3, 1] == x, }], _ => , }])
}
pub fn case_168(vars: &Vars) -> InferredGoal<DU, DE, Goal<DU, DE>> {
    let q = vars.v[0].clone();
    let x = vars.v[1].clone();
    proto_vulcan!([matcha [2 | q] { [h, [z, x | _], [] | _] => , [[_, 1, x]] | h => { match [q, 2, [] | q] { [] => { q == 2 }, }, [q] != q }, }])
}
pub fn case_169(vars: &Vars) -> InferredGoal<DU, DE, Goal<DU, DE>> {
    let q = vars.v[0].clone();
    let x = vars.v[1].clone();
    proto_vulcan!([[q, [], q | q] != x, matchu x { 1 => , }])
}
pub fn case_170(vars: &Vars) -> InferredGoal<DU, DE, Goal<DU, DE>> {
    let q = vars.v[0].clone();
    let x = vars.v[1].clone();
    proto_vulcan!([matcha q { [z, []] => [[2, 3] == z, [append(q, x, [1]), [1, 1, 1] == z]], [t, h, [z, []]] => { z != t }, }])
}
pub fn case_171(vars: &Vars) -> InferredGoal<DU, DE, Goal<DU, DE>> {
    let x = vars.v[0].clone();
    proto_vulcan!([x == 3, matche x { [[3 | 2] | _] | 2 => , [[h, _ | h], [2, "a", x], ['b', 2, t] | t] => condu { [["a"], x] == [h, t, h], [[1], [1 | t], [x, []] | t] == t, [x == _, member(h, [1, 3, 1])] }, }])
}
pub fn case_172(vars: &Vars) -> InferredGoal<DU, DE, Goal<DU, DE>> {
    let q = vars.v[0].clone();
    let x = vars.v[1].clone();
    proto_vulcan!([|t| { true }, matchu [x, _, x] { [t] | [h, _ | _] => [append(q, q, [2, 1])], }])
}
pub fn case_173(vars: &Vars) -> InferredGoal<DU, DE, Goal<DU, DE>> {
    let q = vars.v[0].clone();
    let x = vars.v[1].clone();
    proto_vulcan!([match x { 2 => { condu { q != x, [q != [[q, q, q], [true], x], false], [2 == [[x, 'b', []], x, [3, x, 2 | q]], _ == q] }, conde { q == [1, x, 2], [q == [[], 1, x], x == []] } }, true | 1 => , }])
}
pub fn case_174(vars: &Vars) -> InferredGoal<DU, DE, Goal<DU, DE>> {
    let x = vars.v[0].clone();
    proto_vulcan!([true, matcha x { [[1, 1 | _], [[], _, 2 | 3], t] => [["bc" | t] != x, 3 == x], [1, [[], z | _]] | [1] => , }])
}
pub fn case_175(vars: &Vars) -> InferredGoal<DU, DE, Goal<DU, DE>> {
    let q = vars.v[0].clone();
    let x = vars.v[1].clone();
    proto_vulcan!([[3, _ | q] == q, matche x { z => [conde { x == x, z == q }, |x, z| { member(x, [3, 3]) }], [[2], [x, 1]] => , [[z, z, 1], [], 'b' | t] => { q != [], |x, y| { member(z, [2, 1, 2]), [[], [z, q, 1 | z] | x] == t } }, }])
}
pub fn case_176(vars: &Vars) -> InferredGoal<DU, DE, Goal<DU, DE>> {
    let x = vars.v[0].clone();
    proto_vulcan!([matcha x { [x | y] | t => , [[z, _], [[], 2, z | t]] => [z == [1, x, 1], |y, z| { x == [[[], y], [x], [[]] | z], t == z, append(z, t, [3]) }], }])
}
pub fn case_177(vars: &Vars) -> InferredGoal<DU, DE, Goal<DU, DE>> {
    let x = vars.v[0].clone();
    proto_vulcan!([conde { true, x == [x | x], 2 == x }, matche x { _ => , }])
}
pub fn case_178(vars: &Vars) -> InferredGoal<DU, DE, Goal<DU, DE>> {
    let x = vars.v[0].clone();
    proto_vulcan!([matche x { "bc" => { append(x, x, [3]) }, }])
}
pub fn case_179(vars: &Vars) -> InferredGoal<DU, DE, Goal<DU, DE>> {
    let q = vars.v[0].clone();
    let x = vars.v[1].clone();
    proto_vulcan!([q == q, matche [_, _ | x] { [] => , _ | [] => [true, conde { x == q, [true, false] }], }])
}
pub fn case_180(vars: &Vars) -> InferredGoal<DU, DE, Goal<DU, DE>> {
    let x = vars.v[0].clone();
    proto_vulcan!([matcha x { [h, true, [x]] => , }])
}
pub fn case_181(vars: &Vars) -> InferredGoal<DU, DE, Goal<DU, DE>> {
    let q = vars.v[0].clone();
    let x = vars.v[1].clone();
    proto_vulcan!([[[q], [q, q, 2], [1, 2, x] | x] == q, matcha x { 3 => { 1 == q, [3, _ | 1] == q }, [1] | y => , }])
}
pub fn case_182(vars: &Vars) -> InferredGoal<DU, DE, Goal<DU, DE>> {
    let x = vars.v[0].clone();
    proto_vulcan!([onceo { x == [1, _] }, matche [x] { [[t] | _] => { matche x { [1] => { member(x, [2]), true }, [t | y] => [] != t, }, matchu x { [[z | t], y, z] | _ => { 1 == x, x != x }, 'a' => , false => [[x, x, "a"], [t, _, 3] | t] == x, } }, }])
}
pub fn case_183(vars: &Vars) -> InferredGoal<DU, DE, Goal<DU, DE>> {
    let x = vars.v[0].clone();
    proto_vulcan!([matche x { ['b', [x, x | z]] | [["a", _, h | _], [[], x | t], [y, false]] => { matchu [x, x, [] | x] { [[[]]] => { member(x, [1]), x == ['b', [3, x] | x] }, [[y, t, z], 1, t] => , [2, _, [[], 1]] => , }, ["bc" | x] == x }, [["a"]] | ['a'] => , 3 => { conde { [member(x, []), false], [x != 3, member(x, [])], x == x }, [2 | _] == x }, }])
}
pub fn case_184(vars: &Vars) -> InferredGoal<DU, DE, Goal<DU, DE>> {
    let x = vars.v[0].clone();
    proto_vulcan!([|y| { y == x }, matche [3 | x] { [3] => { x != x }, [[x, 3], y] => [append(x, y, [1, 3]), append(x, x, [3, 3])], [[x, y, z], _, [t, [], y] | y] | [[false, 1], [[], t]] => { matcha t { _ => , x => [_ | x] == x, [t] => { false, [] == t }, } }, }])
}
pub fn case_185(vars: &Vars) -> InferredGoal<DU, DE, Goal<DU, DE>> {
    let q = vars.v[0].clone();
    let x = vars.v[1].clone();
    proto_vulcan!([x == q, match x { [[]] | ["a", [t], 2 | z] => |h, x| { q == 2, false }, h => [h == q, |x, t| { t == [q, 2, 1] }], }])
}
pub fn case_186(vars: &Vars) -> InferredGoal<DU, DE, Goal<DU, DE>> {
    let q = vars.v[0].clone();
    let x = vars.v[1].clone();
    proto_vulcan!([_ == q, matche q { [[y, "a" | z] | t] | 2 => , }])
}
pub fn case_187(vars: &Vars) -> InferredGoal<DU, DE, Goal<DU, DE>> {
    let q = vars.v[0].clone();
    let x = vars.v[1].clone();
    proto_vulcan!([q == [1, "bc", q], matche x { y => , [1, ['b', h, 1 | "a"]] => { [1] != ["bc"], |z| { true, [2, 2] != h } }, [[], [z, x, []]] => , }])
}
pub fn case_188(vars: &Vars) -> InferredGoal<DU, DE, Goal<DU, DE>> {
    let q = vars.v[0].clone();
    let x = vars.v[1].clone();
    proto_vulcan!([match x { [[x], [_], [x]] => { matche x { 'b' | [z, [3, []], true] => , [[z, _], [], 2] => 2 == x, [[2, []], 2, _] => x == [['a' | x]], }, match x { [[1, z], ["bc", 2, 2], [2 | _]] => { q == x, [false, _, z] == [[3, "a", x | q], [x, x | x] | x] }, [x] => , } }, [[], ['a', y, h | z]] => { z == h }, 1 => [conda { [2 != q, q == [x, 2, false]], q == q }, x == [2, x]], }])
}
pub fn case_189(vars: &Vars) -> InferredGoal<DU, DE, Goal<DU, DE>> {
    let x = vars.v[0].clone();
    proto_vulcan!([false, matcha x { [_, true, 1] => { matchu 1 { [[h, false, "a" | y]] => { [_, 3] == h, y == h }, } }, [[1, 'b', y] | _] => { conde { ["bc", [[], 1], []] != x, [[] == y, y == y], [1 == y, "a" != x] }, conde { y == 3, [x == x, x == [x, 2, x]], [x == [[], _ | 3], x != [_, 1, y]] } }, }])
}
pub fn case_190(vars: &Vars) -> InferredGoal<DU, DE, Goal<DU, DE>> {
    let x = vars.v[0].clone();
    let y = vars.v[1].clone();
    proto_vulcan!([match y { [[y, 1, 1], [[], 2], 2] => { [y] == [2, 2, []] }, 2 | [] => [y != x, [_, 3] == x], }])
}
pub fn case_191(vars: &Vars) -> InferredGoal<DU, DE, Goal<DU, DE>> {
    let x = vars.v[0].clone();
    let y = vars.v[1].clone();
    proto_vulcan!([match y { 2 | [t] => { matchu x { z => true, _ => { [[true, x, 1]] == [[3, 'a']], y == y }, [['a', x, 3]] => [[3] == [], x == [y, 2]], } }, [[t, 1, h], [3] | _] => , z => , }])
}
pub fn case_192(vars: &Vars) -> InferredGoal<DU, DE, Goal<DU, DE>> {
    let x = vars.v[0].clone();
    let y = vars.v[1].clone();
    proto_vulcan!([match x { [[z, z], _, x] => |h| { false }, "bc" | 3 => matcha x { [[y, y, h], [2, 3, [] | x] | _] => [y == [y | x], [[], x, _] == h], }, [] => , }])
}
pub fn case_193(vars: &Vars) -> InferredGoal<DU, DE, Goal<DU, DE>> {
    let q = vars.v[0].clone();
    let x = vars.v[1].clone();
    proto_vulcan!([false, matche x { 2 => , }])
}
pub fn case_194(vars: &Vars) -> InferredGoal<DU, DE, Goal<DU, DE>> {
    let x = vars.v[0].clone();
    proto_vulcan!([matche x { t => [[[], 2, []] == t, 1 == x], [[t, _], [z], "a"] => [[z == [z | t], t == [[]], x == [z, [[], t, t], t]], [] != [[_, 3, t], [[], x, 2], [_]]], }])
}
pub fn case_195(vars: &Vars) -> InferredGoal<DU, DE, Goal<DU, DE>> {
    let q = vars.v[0].clone();
    let x = vars.v[1].clone();
    proto_vulcan!([match x { 1 => [match q { [[1], false] | x => [q == "bc", q != [[], "a"]], }, |y| { y == [1], [_, 'b' | y] == y }], [[false], [[], t], []] => { conde { [1, t] == x, [[[x, [], 2], [[]] | q] == 3, [1, x, false | _] == x] } }, ["bc" | _] => [conde { [x == [[] | _], [1] == x], false, [x == 'a', member(q, [2, 3, 1])] }, conde { [2 == [[2]], [q] == []], [3 == 2, q == [2, 1]] }], }])
}
pub fn case_196(vars: &Vars) -> InferredGoal<DU, DE, Goal<DU, DE>> {
    let x = vars.v[0].clone();
    proto_vulcan!([[[_] == x, 3 != [2, x, []]], matcha x { [[h, 3, 3 | _] | h] => { [1] == x }, }])
}
pub fn case_197(vars: &Vars) -> InferredGoal<DU, DE, Goal<DU, DE>> {
    let x = vars.v[0].clone();
    let y = vars.v[1].clone();
    proto_vulcan!([matchu y { [3, [[], 2]] => { [y] == y }, [[2, "bc"] | "a"] => { member(x, [3]), conde { y == [y], x == x } }, }])
}
pub fn case_198(vars: &Vars) -> InferredGoal<DU, DE, Goal<DU, DE>> {
    let x = vars.v[0].clone();
    proto_vulcan!([matchu x { _ | false => conde { x == _, [_ == 2, x != "a"] }, _ => , [] | y => { x == 1 }, }])
}
pub fn case_199(vars: &Vars) -> InferredGoal<DU, DE, Goal<DU, DE>> {
    let x = vars.v[0].clone();
    let y = vars.v[1].clone();
    proto_vulcan!([condu { [x == [[]], true], [y != [2, [[]]], true] }, match x { "a" => , }])
}
pub fn case_200(vars: &Vars) -> InferredGoal<DU, DE, Goal<DU, DE>> {
    let x = vars.v[0].clone();
    proto_vulcan!([[_ | x] == x, matcha x { "a" => [[_ | x] != x, append(x, x, [3]), 3 == x], [[x, 1, _], [z], [_]] => { x == _, condu { [x == 2, x != 3], [[['b', z, _ | x], ['b'] | x] == x, x == [2 | x]], 3 == x } }, }])
}
pub fn case_201(vars: &Vars) -> InferredGoal<DU, DE, Goal<DU, DE>> {
    let q = vars.v[0].clone();
    let x = vars.v[1].clone();
    proto_vulcan!([false, matche x { [[1, h]] | [1] => [append(q, x, [1, 3]), conde { [member(q, [2, 3, 3]), x != x], member(x, [3, 3, 3]) }], [["a", 1], 2, [3, []]] => { "a" == x, [3, 2] == x }, [[true]] => { conda { q == [[_, 1 | x], [3, 2, 2] | 2], [[[3 | q], "bc", []] == x, false], [[] == q, [q] == q] } }, }])
}
pub fn case_202(vars: &Vars) -> InferredGoal<DU, DE, Goal<DU, DE>> {
    let x = vars.v[0].clone();
    proto_vulcan!(["a" == x, matche [x] { [[2, t | z]] => , }])
}
pub fn case_203(vars: &Vars) -> InferredGoal<DU, DE, Goal<DU, DE>> {
    let x = vars.v[0].clone();
    proto_vulcan!([match x { 'a' => { [] == x, true }, [[_, x, t]] => [conda { [[1, 3 | x] == 2, x == [t]], x == t }, false], }])
}
pub fn case_204(vars: &Vars) -> InferredGoal<DU, DE, Goal<DU, DE>> {
    let q = vars.v[0].clone();
    let x = vars.v[1].clone();
    proto_vulcan!([q == q, matche x { [[[]], false | z] => , }])
}
pub fn case_205(vars: &Vars) -> InferredGoal<DU, DE, Goal<DU, DE>> {
    let x = vars.v[0].clone();
    let y = vars.v[1].clone();
    proto_vulcan!([matchu y { [y] | 1 => |z| { x == [], [[2 | false]] == [[z | z], z, [2, z, x] | z], 1 == x }, }])
}
pub fn case_206(vars: &Vars) -> InferredGoal<DU, DE, Goal<DU, DE>> {
    let x = vars.v[0].clone();
    proto_vulcan!([conde { member(x, [1]), x == [_, 3, x | x], member(x, [3, 1, 1]) }, matchu [2, 1] { [[1, 1]] => { matcha x { [[z], 1, []] => { _ == z, [z, []] == [[[], x, z], 2, [x]] }, t => { [t, 3] == [] }, 1 => , } }, [] => { x != x, matcha x { [1, h, [2, 3]] | [['b' | _], []] => , [h, [[]], [t, 2]] => { t == [], [1] == t }, } }, }])
}
pub fn case_207(vars: &Vars) -> InferredGoal<DU, DE, Goal<DU, DE>> {
    let x = vars.v[0].clone();
    proto_vulcan!([match x { [[_ | _], y | _] | [[3, 1, t | 3], [x, 1, 3], [t, y, _]] => [y == 2, [y | y] == y], h | [[x, y], [_]] => , }])
}
pub fn case_208(vars: &Vars) -> InferredGoal<DU, DE, Goal<DU, DE>> {
    let x = vars.v[0].clone();
    let y = vars.v[1].clone();
    proto_vulcan!([|y| { append(y, y, [2]) }, matchu x { [false, [h, []], [1, 2, t | z] | z] => { append(x, z, []), y == [[y | y]] }, }])
}
pub fn case_209(vars: &Vars) -> InferredGoal<DU, DE, Goal<DU, DE>> {
    let x = vars.v[0].clone();
    proto_vulcan!([conde { [[x, 2 | x], [1]] == x, append(x, x, [3, 1]) }, matchu x { [_] => { conde { x == [2], [x == [x | false], true] } }, [[3, _], [1 | _], [z, x, []]] => , [y, 'b'] => , }])
}
pub fn case_210(vars: &Vars) -> InferredGoal<DU, DE, Goal<DU, DE>> {
    let q = vars.v[0].clone();
    let x = vars.v[1].clone();
    proto_vulcan!([match q { 1 => { 2 != x, [x] != q }, }])
}
pub fn case_211(vars: &Vars) -> InferredGoal<DU, DE, Goal<DU, DE>> {
    let x = vars.v[0].clone();
    proto_vulcan!([matcha x { "a" | _ => { x != x }, [h, [y, 2, 2]] | _ => [[x | x] == x, 2 == x], }])
}
pub fn case_212(vars: &Vars) -> InferredGoal<DU, DE, Goal<DU, DE>> {
    let x = vars.v[0].clone();
    proto_vulcan!([member(x, [2]), matche [] { [1, 3] | _ => [x] == x, false => { conde { x == [[2, [], _], x, 3], [1 != x, x == x] } }, x => { |z| { 2 == [[[] | z], [false]], [_, [_, [], []], x] == x }, conda { [x, x, [] | x] == x } }, }])
}
pub fn case_213(vars: &Vars) -> InferredGoal<DU, DE, Goal<DU, DE>> {
    let q = vars.v[0].clone();
    let x = vars.v[1].clone();
    proto_vulcan!([match q { z | [z, [t], []] => [[[1, x, _] | q] != x, z != [q, x, x]], }])
}
pub fn case_214(vars: &Vars) -> InferredGoal<DU, DE, Goal<DU, DE>> {
    let x = vars.v[0].clone();
    proto_vulcan!([member(x, [3, 3]), matchu x { x | _ => , }])
}
pub fn case_215(vars: &Vars) -> InferredGoal<DU, DE, Goal<DU, DE>> {
    let q = vars.v[0].clone();
    let x = vars.v[1].clone();
    proto_vulcan!([matche q { [[]] => , }])
}
pub fn case_216(vars: &Vars) -> InferredGoal<DU, DE, Goal<DU, DE>> {
    let x = vars.v[0].clone();
    proto_vulcan!([x != 1, matcha x { [] => [x != [x, x | x], x == [1]], }])
}
pub fn case_217(vars: &Vars) -> InferredGoal<DU, DE, Goal<DU, DE>> {
    let x = vars.v[0].clone();
    let y = vars.v[1].clone();
    proto_vulcan!([matche x { 'a' => [conda { [[y, x, []], 2] == [false, [], 1] }, matche [1, 1] { 2 => , }], [[y, t], 2] => { condu { y == x, [x == 1, true], [y == 1, [2, y, x] == t] }, |y| { [x] == t } }, }])
}
pub fn case_218(vars: &Vars) -> InferredGoal<DU, DE, Goal<DU, DE>> {
    let x = vars.v[0].clone();
    let y = vars.v[1].clone();
    proto_vulcan!([y == x, matcha x { [] | x => , z => [conde { [[[z], [], [y, 2, []] | x] == [], x == y], member(x, []), [true, z == 1] }, onceo { [[z]] != [z] }], t => true, }])
}
pub fn case_219(vars: &Vars) -> InferredGoal<DU, DE, Goal<DU, DE>> {
    let x = vars.v[0].clone();
    let y = vars.v[1].clone();
    proto_vulcan!([matche [true | 'b'] { 3 => [[[3, y] == 2, x == [[], false]], [[[x, false], [x, 3], [_, x]] == x]], [[h, z | _], [2 | _]] => [false, matchu _ { t => [[[[], z] | x] == t, append(z, z, [2, 2])], [x] => , [] => , }], }])
}
pub fn case_220(vars: &Vars) -> InferredGoal<DU, DE, Goal<DU, DE>> {
    let q = vars.v[0].clone();
    let x = vars.v[1].clone();
    proto_vulcan!([[false == [[q]], q != q], match x { [[], _, [_, t, z]] | [['a']] => , [[z, 'a', h], [_, z], h] => { q != "bc" }, }])
}
pub fn case_221(vars: &Vars) -> InferredGoal<DU, DE, Goal<DU, DE>> {
    let x = vars.v[0].clone();
    let y = vars.v[1].clone();
    proto_vulcan!([match x { [[t, t, h], []] => matche t { [[h, "bc", y], [x, x, 1]] | _ => 1 == _, }, 1 | [1, x] => , }])
}
pub fn case_222(vars: &Vars) -> InferredGoal<DU, DE, Goal<DU, DE>> {
    let x = vars.v[0].clone();
    let y = vars.v[1].clone();
    proto_vulcan!([[x == y, [_] != x, 'b' == x], matche x { [[x, []], [[]], 3] => { [true, x != ['a', _], [1, 1 | x] != x], x == x }, [[[]], x, ['a']] => [matche x { [['a', []] | _] => { y == [2, 3, []], 3 != [[2, y | y] | x] }, 3 => { [3] == x, [2, x, 1] == x }, [[2], z | _] | [[1, y, 1] | 1] => , }, 2 == y], [[x, y, 2], [h, h | x], [3]] | [2, [1, 3 | z], [2]] => , }])
}
pub fn case_223(vars: &Vars) -> InferredGoal<DU, DE, Goal<DU, DE>> {
    let q = vars.v[0].clone();
    let x = vars.v[1].clone();
    proto_vulcan!([matcha q { h => , y => , [[_, z], ["a", 'a', 2 | x], [t, 1]] => { 3 == z }, }])
}
pub fn case_224(vars: &Vars) -> InferredGoal<DU, DE, Goal<DU, DE>> {
    let x = vars.v[0].clone();
    proto_vulcan!([matcha x { [[x | _], y] => { conde { y != [_, x, 2], [y != [2], ['b', [3]] != _] } }, [[t, h | y], [] | y] => { true }, [[z, x], [true] | _] => , }])
}
pub fn case_225(vars: &Vars) -> InferredGoal<DU, DE, Goal<DU, DE>> {
    let q = vars.v[0].clone();
    let x = vars.v[1].clone();
    proto_vulcan!([matche x { y => { [2, []] == q }, }])
}
pub fn case_226(vars: &Vars) -> InferredGoal<DU, DE, Goal<DU, DE>> {
    let q = vars.v[0].clone();
    let x = vars.v[1].clone();
    proto_vulcan!([[false], matchu q { z | [y, [t | _] | y] => , }])
}
pub fn case_227(vars: &Vars) -> InferredGoal<DU, DE, Goal<DU, DE>> {
    let x = vars.v[0].clone();
    let y = vars.v[1].clone();
    proto_vulcan!([[x] == x, matche y { [[z, x], t] => , }])
}
pub fn case_228(vars: &Vars) -> InferredGoal<DU, DE, Goal<DU, DE>> {
    let q = vars.v[0].clone();
    let x = vars.v[1].clone();
    proto_vulcan!([matchu x { 2 => [q == [q, x], false], [[x, 2 | "a"], [_, 1, h], [] | t] => { q == t, onceo { true } }, [] | [[_, _, z], [_, x, x] | _] => [[[q, [[]], [3, 3, q]] == [[q, 1 | q], [[] | q]], 'b' == q], q == [3, [_]]], }])
}
pub fn case_229(vars: &Vars) -> InferredGoal<DU, DE, Goal<DU, DE>> {
    let q = vars.v[0].clone();
    let x = vars.v[1].clone();
    proto_vulcan!([q != [[]], match [x, 2, q] { [[t], 1] => , 1 => , }])
}
pub fn case_230(vars: &Vars) -> InferredGoal<DU, DE, Goal<DU, DE>> {
    let x = vars.v[0].clone();
    let y = vars.v[1].clone();
    proto_vulcan!([y != [x, x], matchu [[], _ | x] { y => , [[t, z, t | z], [[], t, 1] | t] | t => { matcha x { [[z | t], _, [_]] => { y == z, x != [z, [], t] }, _ => { member(y, [3, 3, 2]), t == _ }, }, t == t }, [[2, t, 2 | 1], x, [y, 1, _]] => , }])
}
pub fn case_231(vars: &Vars) -> InferredGoal<DU, DE, Goal<DU, DE>> {
    let x = vars.v[0].clone();
    proto_vulcan!([match x { [x, t] => [matcha x { [3, y] => , [[[], h]] => [x == [[]], false], }, [[1] != x]], x => , }])
}
pub fn case_232(vars: &Vars) -> InferredGoal<DU, DE, Goal<DU, DE>> {
    let x = vars.v[0].clone();
    let y = vars.v[1].clone();
    proto_vulcan!([y != x, matche [[], _, x | x] { t => [|h, y| { [3 | x] == t, y == [t, _], append(y, x, []) }, x == [_, 3]], y | [_, [h, h]] => { [] == x }, [h] => , }])
}
pub fn case_233(vars: &Vars) -> InferredGoal<DU, DE, Goal<DU, DE>> {
    let q = vars.v[0].clone();
    let x = vars.v[1].clone();
    proto_vulcan!([[x, x | x] == q, matchu x { [[t], [h | 2], _] | [[y, _], [_, _, _]] => , }])
}
pub fn case_234(vars: &Vars) -> InferredGoal<DU, DE, Goal<DU, DE>> {
    let x = vars.v[0].clone();
    let y = vars.v[1].clone();
    proto_vulcan!([|x, t| { x == t, x == [x], x == 2 }, matcha y { t => , [[_, z, "a"], [z, 3] | x] => [onceo { false }, [] == [[3, 3 | x], [[], [], 1]]], }])
}
pub fn case_235(vars: &Vars) -> InferredGoal<DU, DE, Goal<DU, DE>> {
    let x = vars.v[0].clone();
    proto_vulcan!([[1 | x] == x, matcha x { _ | [[y, 1, h | _], y] => match x { [[[], [], 1]] => , t => , }, }])
}
pub fn case_236(vars: &Vars) -> InferredGoal<DU, DE, Goal<DU, DE>> {
    let q = vars.v[0].clone();
    let x = vars.v[1].clone();
    proto_vulcan!([[] == x, matcha x { [[2, []], _, [3, [] | _] | _] => [[[x, [] | x], 3] == 2, matche x { z => , 1 => { [_ | x] == x }, 2 => [member(x, [2, 1, 3]), x == [1, x | q]], }], }])
}
pub fn case_237(vars: &Vars) -> InferredGoal<DU, DE, Goal<DU, DE>> {
    let q = vars.v[0].clone();
    let x = vars.v[1].clone();
    proto_vulcan!([conde { [q == "a", append(x, q, [1, 1])], member(x, [2]), [[x, 3, q] == [2, [3, []], [x, _] | 2], [1, 1, []] == x] }, matcha [q] { [3] => |x| { q == ['b'], true, append(x, x, [1]) }, [[3], [3, 3, y | _] | z] | [h] => , true => [onceo { append(x, x, [2, 1]) }, x == [x]], }])
}
pub fn case_238(vars: &Vars) -> InferredGoal<DU, DE, Goal<DU, DE>> {
    let x = vars.v[0].clone();
    proto_vulcan!([match x { x => , x => { x == [x, x | 1], matcha x { [3, [[], _, h], [3] | z] => { [[h, x, 1]] != [[[], "a" | "bc"], x, [1, _]], [z, 1] == 2 }, [[2, "a"]] => x == ["a"], } }, }])
}
pub fn case_239(vars: &Vars) -> InferredGoal<DU, DE, Goal<DU, DE>> {
    let q = vars.v[0].clone();
    let x = vars.v[1].clone();
    proto_vulcan!([match q { [[_], "bc"] => { [x == _] }, ["a", [3, 3, x]] => , y => , }])
}
pub fn case_240(vars: &Vars) -> InferredGoal<DU, DE, Goal<DU, DE>> {
    let x = vars.v[0].clone();
    let y = vars.v[1].clone();
    proto_vulcan!([match y { 1 => , [_ | h] => onceo { [2, _] == h }, [[2 | z], z] => { conde { true, 2 == x, true }, z == 2 }, }])
}
pub fn case_241(vars: &Vars) -> InferredGoal<DU, DE, Goal<DU, DE>> {
    let q = vars.v[0].clone();
    let x = vars.v[1].clone();
    proto_vulcan!([x == [[]], match [x, 3 | 1] { [1, 2, t] => , 3 => { false, 2 == q }, [[x, y]] => , }])
}
pub fn case_242(vars: &Vars) -> InferredGoal<DU, DE, Goal<DU, DE>> {
    let x = vars.v[0].clone();
    proto_vulcan!([conde { false, 2 != x, x == [1, 'b', false | x] }, match x { [[true], _, [t, 1]] => { [false, x == [_, true, t]] }, }])
}
pub fn case_243(vars: &Vars) -> InferredGoal<DU, DE, Goal<DU, DE>> {
    let x = vars.v[0].clone();
    proto_vulcan!([|y| { y != [1, y], y == [y, x, x] }, matche x { [[t, _, "a"], 1 | _] => [x != 3, [x, x] == x], }])
}
pub fn case_244(vars: &Vars) -> InferredGoal<DU, DE, Goal<DU, DE>> {
    let x = vars.v[0].clone();
    let y = vars.v[1].clone();
    proto_vulcan!([y == [[y], [x, 1, y]], matche x { [] => { [2, _] == x }, }])
}
pub fn case_245(vars: &Vars) -> InferredGoal<DU, DE, Goal<DU, DE>> {
    let x = vars.v[0].clone();
    proto_vulcan!([match x { 2 => { matcha x { [['b', [], x] | t] => { t != 1 }, [[_, 2] | _] => , [[_ | false], [[]]] => , }, member(x, [3]) }, t | _ => [|x, z| { append(z, x, [1]), [z, [z, 3], "a"] == x }, append(x, x, [3])], }])
}
pub fn case_246(vars: &Vars) -> InferredGoal<DU, DE, Goal<DU, DE>> {
    let x = vars.v[0].clone();
    let y = vars.v[1].clone();
    proto_vulcan!([[[1], [_, 1 | x], [] | y] == x, matcha y { [[z, 3], ['b', [], 1], x] => { conda { [y == [3], x == _], [false, x == [[], y | x]], [y == _, x == x] }, [x] == x }, 1 => conda { true, [x != [[] | y], x == [x, x]] }, }])
}
pub fn case_247(vars: &Vars) -> InferredGoal<DU, DE, Goal<DU, DE>> {
    let q = vars.v[0].clone();
    let x = vars.v[1].clone();
    proto_vulcan!([match x { [[[], 2, t], [x, 2] | z] | _ => { [_, [], 3 | q] == q }, t => { [[2, q, x]] == x }, [3, [x, 'b'], x] | z => [q == [[_, 3, _], ['b', 2], 'b'], onceo { [] == q }], }])
}
pub fn case_248(vars: &Vars) -> InferredGoal<DU, DE, Goal<DU, DE>> {
    let x = vars.v[0].clone();
    let y = vars.v[1].clone();
    proto_vulcan!([x != y, matcha x { [[t, x]] | _ => [[y != "bc", y == 3], matche y { 1 => , }], }])
}
pub fn case_249(vars: &Vars) -> InferredGoal<DU, DE, Goal<DU, DE>> {
    let x = vars.v[0].clone();
    proto_vulcan!([match x { [3 | y] => , 1 => , }])
}
pub fn case_250(vars: &Vars) -> InferredGoal<DU, DE, Goal<DU, DE>> {
    let x = vars.v[0].clone();
    let y = vars.v[1].clone();
    proto_vulcan!([[y, y | 1] != y, match y { "bc" => , }])
}
pub fn case_251(vars: &Vars) -> InferredGoal<DU, DE, Goal<DU, DE>> {
    let q = vars.v[0].clone();
    let x = vars.v[1].clone();
    proto_vulcan!([q == [q], matcha x { [[2, z, t], ['a', y], [3, 3, 2]] | [['b', t, 3]] => { [x != [2, x | q], [q, 3 | q] == x, member(x, [1])] }, y => [|h| { _ == q, member(x, [3]), [] == x }, y == [2, 2]], [[x | t], 3 | _] => { |h| { member(h, [3, 2]), t != t } }, }])
}
pub fn case_252(vars: &Vars) -> InferredGoal<DU, DE, Goal<DU, DE>> {
    let x = vars.v[0].clone();
    proto_vulcan!([match [1, x] { [['b'], [2, x | h], 2] => { |t, h| { [x | h] == t, ['a', "a", 1] == x } }, }])
}
pub fn case_253(vars: &Vars) -> InferredGoal<DU, DE, Goal<DU, DE>> {
    let x = vars.v[0].clone();
    proto_vulcan!([matcha x { [_ | y] => [matchu y { ['a', 2, [x, 3, 2 | z]] => { true, member(y, [2]) }, ['a', [[], 2, []], [x, z]] => { x == x, x == z }, }, conde { [_, y] == y, member(y, [1, 2, 1]), true }], t => { [t == t] }, }])
}
pub fn case_254(vars: &Vars) -> InferredGoal<DU, DE, Goal<DU, DE>> {
    let x = vars.v[0].clone();
    proto_vulcan!([matche x { [[2 | _], 1] => [[3, false | x] != x, |x| { false }], _ => { matcha x { 1 => { x == [3, [[], [] | x], x | x] }, [_ | z] | 3 => { member(x, [3, 1, 3]) }, }, |t, y| { y == t, "bc" == [[]], [[], t] == x } }, [t, [1]] => { conde { [append(t, t, [1]), [] != t], t == [x, t] } }, }])
}
pub fn case_255(vars: &Vars) -> InferredGoal<DU, DE, Goal<DU, DE>> {
    let q = vars.v[0].clone();
    let x = vars.v[1].clone();
    proto_vulcan!([q != q, matchu q { z => , 'b' | [y, [y | 2]] => , }])
}
pub fn case_256(vars: &Vars) -> InferredGoal<DU, DE, Goal<DU, DE>> {
    let x = vars.v[0].clone();
    proto_vulcan!([matcha x { 1 | 1 => { [2, x] == [[2, x, 2], 1] }, }])
}
pub fn case_257(vars: &Vars) -> InferredGoal<DU, DE, Goal<DU, DE>> {
    let x = vars.v[0].clone();
    let y = vars.v[1].clone();
    proto_vulcan!([matche x { [[z, x, 3], [_, 1], []] | 1 => , "bc" => , y | ['a', h, [2, h, 2] | y] => [match x { [[1 | y], [1, 2, _]] => , 1 => x == [y, [y], false | x], [[y, []], [z, 1, 3]] | [[2, _]] => x == 3, }, [x, y] == y], }])
}
pub fn case_258(vars: &Vars) -> InferredGoal<DU, DE, Goal<DU, DE>> {
    let x = vars.v[0].clone();
    proto_vulcan!([matchu x { 2 | [[2, x | h]] => , [[h]] => [conda { [h, x, x] != ["a"], [h == h, [x] == x], [member(x, [2, 1, 3]), [[x, x | x], [], [h, x]] != h] }, member(h, [])], }])
}
pub fn case_259(vars: &Vars) -> InferredGoal<DU, DE, Goal<DU, DE>> {
    let q = vars.v[0].clone();
    let x = vars.v[1].clone();
    proto_vulcan!([q == [], matchu x { [[2, _], [h, []], x] | [[], [_, 'a']] => { matchu [2, 1] { z => [q, z, z] == z, } }, ["bc"] => [matchu q { [2, [x | t]] => , [[x | z]] => x == _, }, |y| { "bc" == x, y == [1, y], [1] != 3 }], }])
}
pub fn case_260(vars: &Vars) -> InferredGoal<DU, DE, Goal<DU, DE>> {
    let x = vars.v[0].clone();
    proto_vulcan!([matchu [2, 1, _] { [[[], x]] => { onceo { x == x }, matche x { 1 | [x] => , } }, }])
}
pub fn case_261(vars: &Vars) -> InferredGoal<DU, DE, Goal<DU, DE>> {
    let q = vars.v[0].clone();
    let x = vars.v[1].clone();
    proto_vulcan!([matchu q { [_, false] => 1 == q, }])
}
pub fn case_262(vars: &Vars) -> InferredGoal<DU, DE, Goal<DU, DE>> {
    let x = vars.v[0].clone();
    let y = vars.v[1].clone();
    proto_vulcan!([matchu y { h | _ => |t, z| { x == z }, [[x, 1, 2 | _], [x, [], []], [3, h] | _] => , [[1, [], z | _]] => matche [z, 2, [] | 'b'] { x => , }, }])
}
pub fn case_263(vars: &Vars) -> InferredGoal<DU, DE, Goal<DU, DE>> {
    let x = vars.v[0].clone();
    proto_vulcan!([conda { [x == 'b', 3 == x] }, matche x { [[[]], 2, t | h] => [false], _ => [matcha [1, [], _] { x => , [[2], 3, [2, 2]] | 1 => true, [t, [t | _]] | 2 => { [1, 2, x] == x, [[x, x, true]] == x }, }, |y| { y != 2 }], }])
}
pub fn case_264(vars: &Vars) -> InferredGoal<DU, DE, Goal<DU, DE>> {
    let x = vars.v[0].clone();
    proto_vulcan!([match x { [[[], x, x | _], [h, "bc"], [2]] => condu { [[[] | x] == x, 2 == h] }, ["a", [3, t | t] | x] => , [y, [3, x, h]] => [[["bc", y, "bc" | y], [_, [], 1]] == y, [[x, y], [[], 1], 2] == y], }])
}
pub fn case_265(vars: &Vars) -> InferredGoal<DU, DE, Goal<DU, DE>> {
    let x = vars.v[0].clone();
    let y = vars.v[1].clone();
    proto_vulcan!([matchu y { y => { y == y }, [z, [[], h, t], [] | x] => , 1 => conde { [[[x, x, 1], [1] | y] != y, false], x == 'b' }, }])
}
pub fn case_266(vars: &Vars) -> InferredGoal<DU, DE, Goal<DU, DE>> {
    let x = vars.v[0].clone();
    let y = vars.v[1].clone();
    proto_vulcan!([[false], matche y { [[[]], [y, "bc", t | t]] => { ['b', [], _] != t, t == [] }, }])
}
pub fn case_267(vars: &Vars) -> InferredGoal<DU, DE, Goal<DU, DE>> {
    let q = vars.v[0].clone();
    let x = vars.v[1].clone();
    proto_vulcan!([match [1, 1, 1] { [[_, true, x], 2, t] => [conde { [member(x, []), t == [[]]], [t == 2, x == [2, 1, "bc"]] }, [q == [], [q, x] == q]], 1 | [[[], 3 | 3], t] => , }])
}
pub fn case_268(vars: &Vars) -> InferredGoal<DU, DE, Goal<DU, DE>> {
    let q = vars.v[0].clone();
    let x = vars.v[1].clone();
    proto_vulcan!([[[x]] == [q, _ | 2], matchu x { _ | [3, [z, 2 | _]] => [|z, y| { 2 == [q], [q, 1 | y] == q }, conde { [member(x, [1]), 2 != x], false }], [[x, _], h, [t, x, 'b'] | x] => , }])
}
pub fn case_269(vars: &Vars) -> InferredGoal<DU, DE, Goal<DU, DE>> {
    let x = vars.v[0].clone();
    let y = vars.v[1].clone();
    proto_vulcan!([matche y { [] => { [[_ | 1] == y, x == [['a' | y]], [3] == x], conde { [false, _ == y], [x, x] == x } }, }])
}
pub fn case_270(vars: &Vars) -> InferredGoal<DU, DE, Goal<DU, DE>> {
    let x = vars.v[0].clone();
    let y = vars.v[1].clone();
    proto_vulcan!([matche y { [[_]] => { matchu y { [1, [t, 2], [1, _, 2] | t] => y == [y | x], } }, }])
}
pub fn case_271(vars: &Vars) -> InferredGoal<DU, DE, Goal<DU, DE>> {
    let q = vars.v[0].clone();
    let x = vars.v[1].clone();
    proto_vulcan!([x != [3 | x], matcha q { [[[] | _], [_ | y]] => , 3 => , }])
}
pub fn case_272(vars: &Vars) -> InferredGoal<DU, DE, Goal<DU, DE>> {
    let x = vars.v[0].clone();
    proto_vulcan!([[] == [1], matche x { [[1]] => ["bc", _, 3 | x] != x, t | x => , [[[], _, _ | 3], [_, h], [1] | t] => { |x| { true, false }, matchu x { true => , } }, }])
}
pub fn case_273(vars: &Vars) -> InferredGoal<DU, DE, Goal<DU, DE>> {
    let x = vars.v[0].clone();
    proto_vulcan!([matche x { t => { matchu [t, true, []] { ['b', [1, 2], z | 2] => { false, append(x, x, []) }, y => { append(y, t, [1, 2]) }, [[false], [2, 3, 1]] => [true, [x, true, _] == [[3, 2, true | t], [t, 2, 3], [] | t]], }, [] == t }, h | 1 => { conda { [[x | 1] != [2 | x], 2 == [x, [x, [], false] | x]], [[[], 1, x]] == 3 }, x != [2, x | x] }, }])
}
pub fn case_274(vars: &Vars) -> InferredGoal<DU, DE, Goal<DU, DE>> {
    let q = vars.v[0].clone();
    let x = vars.v[1].clone();
    proto_vulcan!([matche x { [[y, x] | x] => [|x, y| { x == [x], 1 == y }, matche x { [[3, x, 1], [_, y]] => [[true, []] != x, x == false], }], [[[]], [t]] | [[x, t, _]] => , t => { t == 3 }, }])
}
pub fn case_275(vars: &Vars) -> InferredGoal<DU, DE, Goal<DU, DE>> {
    let x = vars.v[0].clone();
    let y = vars.v[1].clone();
    proto_vulcan!([x == [2, 2], match true { [[z, h, y | x]] => , }])
}
pub fn case_276(vars: &Vars) -> InferredGoal<DU, DE, Goal<DU, DE>> {
    let x = vars.v[0].clone();
    proto_vulcan!([conda { [x == x, [1, 2] == [3 | 1]] }, matchu x { [2, z] => member(x, [1, 3, 3]), [x, 1] => x == [x, x, 1], [['a', []]] => { |z| { [_] == x } }, }])
}
pub fn case_277(vars: &Vars) -> InferredGoal<DU, DE, Goal<DU, DE>> {
    let x = vars.v[0].clone();
    proto_vulcan!([matchu 2 { [[[], t, t | x], [z], [1, 2 | 3] | h] => , }])
}
pub fn case_278(vars: &Vars) -> InferredGoal<DU, DE, Goal<DU, DE>> {
    let x = vars.v[0].clone();
    proto_vulcan!([conda { [2 == x, x == []], [x == 1, x != x], [[2, x, []] == x, member(x, [1])] }, match x { _ => , [[z]] => { |z, y| { [z] != x }, z == [x, 2, 1 | z] }, }])
}
pub fn case_279(vars: &Vars) -> InferredGoal<DU, DE, Goal<DU, DE>> {
    let x = vars.v[0].clone();
    proto_vulcan!([|z, h| { member(h, []) }, matchu x { [[_, t], y, [3, 1, _] | y] => { conde { [t == [[], t, []], [2] != y], [x == [1, y], x == ['b', []]] } }, [h, 1] => conda { h == [[x, 3 | x]], [x == [x, false], false], [x == h, [] == [[], 2, "a" | 2]] }, false => { |h, x| { false }, [x, [x, 2, 1], [2, 1]] == x }, }])
}
pub fn case_280(vars: &Vars) -> InferredGoal<DU, DE, Goal<DU, DE>> {
    let q = vars.v[0].clone();
    let x = vars.v[1].clone();
    proto_vulcan!([matcha [1, [], x] { 1 | [[h, h], [y, [], 2], [3]] => , [[3, _, false], [x, _, z], 1] => [|x| { member(x, []), z == [z, "a"], [1 | z] == x }, |y, t| { [x, y, q] == y }], }])
}
pub fn case_281(vars: &Vars) -> InferredGoal<DU, DE, Goal<DU, DE>> {
    let x = vars.v[0].clone();
    proto_vulcan!([x == x, match x { [t, 2 | _] => match t { 3 => , }, [[1 | z], _] | [] => { onceo { x == x } }, }])
}
pub fn case_282(vars: &Vars) -> InferredGoal<DU, DE, Goal<DU, DE>> {
    let x = vars.v[0].clone();
    proto_vulcan!([matchu x { x => { [x != [1, x, x | x], 2 == [x, 2 | x]], x != x }, [[y, [], _ | x], _, [x, 1, h]] => [conde { [[], x, []] != [[false, y, x | h], ["a", _ | y] | 1], 1 != y, [2, x, 2 | h] == x }, matchu y { [[x], t] => [[[y, "bc"] | t] != [1], [[], "bc", "bc"] == 2], }], }])
}
pub fn case_283(vars: &Vars) -> InferredGoal<DU, DE, Goal<DU, DE>> {
    let x = vars.v[0].clone();
    let y = vars.v[1].clone();
    proto_vulcan!([conde { [false, x == [x]], x == [3, x] }, match x { [_] => { [x != [y, 2 | y], [_, 2, x] == y, append(y, x, [1, 2])], [[1, x, 'b'] == x, [1] == y, x == [_]] }, 2 => [conde { [[[], y, 'a'] == [[3, y], [x]], x == 3], [[[]] != y, x == [x]] }, y == [[_, _]]], [[_], [h] | h] => , }])
}
pub fn case_284(vars: &Vars) -> InferredGoal<DU, DE, Goal<DU, DE>> {
    let x = vars.v[0].clone();
    proto_vulcan!([matcha x { [3, [x, y, [] | y], [y, _]] => match x { [[], [h, 2, []]] => { [[2 | h], _ | x] != [1 | 2], [h] != x }, [_, [1], [] | x] | [y, 'b' | x] => , }, [[t], [h, 2], 2] | [[], [2, 3], []] => conde { [x == [x, x | x], append(x, x, [])], [[x, "a", []], [x | x]] != [[x, x]], [[3, x] == x, x == [3, x, x]] }, }])
}
pub fn case_285(vars: &Vars) -> InferredGoal<DU, DE, Goal<DU, DE>> {
    let x = vars.v[0].clone();
    let y = vars.v[1].clone();
    proto_vulcan!([x == [1, [2, _] | y], y != []])
}
pub fn case_286(vars: &Vars) -> InferredGoal<DU, DE, Goal<DU, DE>> {
    let x = vars.v[0].clone();
    proto_vulcan!([conde { x == 'a', [x == "bc", true], false }])
}
pub fn case_287(vars: &Vars) -> InferredGoal<DU, DE, Goal<DU, DE>> {
    let q = vars.v[0].clone();
    let x = vars.v[1].clone();
    proto_vulcan!([|x| { x == 1, q == [x, true] }])
}
pub fn case_288(vars: &Vars) -> InferredGoal<DU, DE, Goal<DU, DE>> {
    let x = vars.v[0].clone();
    proto_vulcan!([closure { [x == 1, conde { true, true }] }])
}
pub fn case_289(vars: &Vars) -> InferredGoal<DU, DE, Goal<DU, DE>> {
    let x = vars.v[0].clone();
    let y = vars.v[1].clone();
    proto_vulcan!([[] == x, y == [[]]])
}
pub fn case_290(vars: &Vars) -> InferredGoal<DU, DE, Goal<DU, DE>> {
    let q = vars.v[0].clone();
    let x = vars.v[1].clone();
    proto_vulcan!([[q, _, 2] == q, append(q, q, [2]), [] == 2, closure { |z, y| { z != [x], [[x, x, x], z, [q, x] | z] == [2, 1, 3 | x], [[]] == x } }])
}
pub fn case_291(vars: &Vars) -> InferredGoal<DU, DE, Goal<DU, DE>> {
    let x = vars.v[0].clone();
    proto_vulcan!([x != ['a'], x == x, closure { [x == [x, x, 1 | x], |z| { member(z, []) }, |h| { h == [x, true, x | h], [1, h, 2 | x] == x, h != [[3, h], false | x] }] }])
}
pub fn case_292(vars: &Vars) -> InferredGoal<DU, DE, Goal<DU, DE>> {
    let x = vars.v[0].clone();
    let y = vars.v[1].clone();
    proto_vulcan!([onceo { y == [3, [y, 3] | x] }, conde { [true, [[[y, x | y] == y, true], y == [[_, [] | x], [_, _ | y]], x == y]], [y == ['b', [] | y], [conde { [[3, y, 2], [2]] == y, [] != x, [x == [x], [[2, 2, x | x]] == 2] }, x == 2]], [x == y, x != []] }, |t| { 1 != ["a", x | y], t == y }])
}
pub fn case_293(vars: &Vars) -> InferredGoal<DU, DE, Goal<DU, DE>> {
    let x = vars.v[0].clone();
    proto_vulcan!([|x| { |h| { [2, _, x] == [[x, 'a', [] | h], [h, 2], h | h], |t, y| { x != [[3, x], [x | x], _], [[y, 2, true | x], x, _] != h }, x == [_, _, 3] }, |x| { x != [x | x], 3 == x }, true }])
}
pub fn case_294(vars: &Vars) -> InferredGoal<DU, DE, Goal<DU, DE>> {
    let q = vars.v[0].clone();
    let x = vars.v[1].clone();
    proto_vulcan!([q == [1], x != [x], member(q, [3])])
}
pub fn case_295(vars: &Vars) -> InferredGoal<DU, DE, Goal<DU, DE>> {
    let x = vars.v[0].clone();
    let y = vars.v[1].clone();
    proto_vulcan!([onceo { |x, y| { |x| { [[2, y]] == [y], [[x], _, "bc"] == x }, [[_] != y, [y, 2, 1] == _] } }, 2 == x])
}
pub fn case_296(vars: &Vars) -> InferredGoal<DU, DE, Goal<DU, DE>> {
    let x = vars.v[0].clone();
    let y = vars.v[1].clone();
    proto_vulcan!([[y, 2, [] | 1] == x])
}
pub fn case_297(vars: &Vars) -> InferredGoal<DU, DE, Goal<DU, DE>> {
    let x = vars.v[0].clone();
    let y = vars.v[1].clone();
    proto_vulcan!([[x != [1]], |t| { 'b' == y, |h, z| { onceo { z != [] }, x == [[1, t], [] | false] } }, closure { [conda { [[_, true | x] == x, false], [y == _, [] == x], [[[x, 2] | y] == [_, x], x == x] }, [y == [x, y], [[2, 1], [] | y] == [x], [_] == x]] }])
}
pub fn case_298(vars: &Vars) -> InferredGoal<DU, DE, Goal<DU, DE>> {
    let x = vars.v[0].clone();
    let y = vars.v[1].clone();
    proto_vulcan!([x == ['a', y | y]])
}
pub fn case_299(vars: &Vars) -> InferredGoal<DU, DE, Goal<DU, DE>> {
    let x = vars.v[0].clone();
    proto_vulcan!([|t| { [[1], x] == [t] }, |y| { conda { [["bc"] == x, [1 | x] != x], [x == [[[], 2, []], [y, x], [x, [], []] | y], conde { [[[y], [y]] == y, true], false, [y == [[2, []], x, x], false] }], [|h| { h != y, y == [h, false, h | h], x != [y, h] }, |x, y| { true, [1, [[], y, 1] | 3] == y, x == x }] } }])
}
pub fn case_300(vars: &Vars) -> InferredGoal<DU, DE, Goal<DU, DE>> {
    let x = vars.v[0].clone();
    let y = vars.v[1].clone();
    proto_vulcan!([[_, []] != x, closure { [append(x, y, [1]), y == true] }])
}
pub fn case_301(vars: &Vars) -> InferredGoal<DU, DE, Goal<DU, DE>> {
    let q = vars.v[0].clone();
    let x = vars.v[1].clone();
    proto_vulcan!([q == q])
}
pub fn case_302(vars: &Vars) -> InferredGoal<DU, DE, Goal<DU, DE>> {
    let q = vars.v[0].clone();
    let x = vars.v[1].clone();
    proto_vulcan!([conde { [[x == [q], conde { [append(q, x, [3, 2]), q == [x, 'b']], [3 != x, [q, false, x] == q], _ != q }], q == [[], "a", q]], 2 != x, q == [1, q, 1 | x] }, true])
}
pub fn case_303(vars: &Vars) -> InferredGoal<DU, DE, Goal<DU, DE>> {
    let q = vars.v[0].clone();
    let x = vars.v[1].clone();
    proto_vulcan!([[_, true | q] == x, [false, q, x | x] == q, closure { [x, q] == q }])
}
pub fn case_304(vars: &Vars) -> InferredGoal<DU, DE, Goal<DU, DE>> {
    let q = vars.v[0].clone();
    let x = vars.v[1].clone();
    proto_vulcan!([x == [[], q | x]])
}
pub fn case_305(vars: &Vars) -> InferredGoal<DU, DE, Goal<DU, DE>> {
    let q = vars.v[0].clone();
    let x = vars.v[1].clone();
    proto_vulcan!([condu { [_, "a", 1] == q, [[_, 1 | q], [3, _], x | x] == [q, [], "a" | x] }, closure { [1 != x, 'a' == x] }])
}
pub fn case_306(vars: &Vars) -> InferredGoal<DU, DE, Goal<DU, DE>> {
    let x = vars.v[0].clone();
    proto_vulcan!([false, conda { onceo { conde { [[2 | x] == [1, [x] | x], append(x, x, [])], [x != 2, member(x, [])] } }, [[x, 'a', x | x], [_, _], 1] == [[2, 2], 1, [x, _]] }, closure { [onceo { |z| { true, x != 2 } }, x != [x, x]] }])
}
pub fn case_307(vars: &Vars) -> InferredGoal<DU, DE, Goal<DU, DE>> {
    let q = vars.v[0].clone();
    let x = vars.v[1].clone();
    proto_vulcan!([[x != [[], 1], x == [x], 1 == x], q == [x, ['b', 2, q]]])
}
pub fn case_308(vars: &Vars) -> InferredGoal<DU, DE, Goal<DU, DE>> {
    let x = vars.v[0].clone();
    proto_vulcan!([|y| { 1 == x, [_, 'a'] == y }, x == 3])
}
pub fn case_309(vars: &Vars) -> InferredGoal<DU, DE, Goal<DU, DE>> {
    let x = vars.v[0].clone();
    proto_vulcan!([x == x, [false] == x, |z, y| { false }, closure { |x| { conde { x == [[2, x], x, [x | x]], [] != x, [x, _] == x } } }])
}
pub fn case_310(vars: &Vars) -> InferredGoal<DU, DE, Goal<DU, DE>> {
    let x = vars.v[0].clone();
    let y = vars.v[1].clone();
    proto_vulcan!([[[1, x, y | x] | x] == x, closure { [[[3, 1] != x, y == x], onceo { y == [1, y, 1] }] }])
}
pub fn case_311(vars: &Vars) -> InferredGoal<DU, DE, Goal<DU, DE>> {
    let q = vars.v[0].clone();
    let x = vars.v[1].clone();
    proto_vulcan!([q == q])
}
pub fn case_312(vars: &Vars) -> InferredGoal<DU, DE, Goal<DU, DE>> {
    let q = vars.v[0].clone();
    let x = vars.v[1].clone();
    proto_vulcan!([[conde { [append(q, x, []), |y| { [_] == 3 }], [q == x, x != [2, 2]] }], |z, x| { |z, x| { [x] == q, [["bc", 1 | 3], 1, [q, x, x | _] | x] == q, [_, "a", z] == x }, [[[], x], [], [3, 2]] == _, |t| { onceo { [x, "bc"] == [[2 | q], x] }, conde { append(z, z, []), [z | x] == q, [[t, 3, _] != t, t == [x | z]] }, false == q } }, conde { [x != [[q, q], ["a"], x | x], conde { [|z| { [[_, 3, 2 | "a"], q] == z, member(x, []) }, q != [3]], [condu { x == [1, _ | x] }, |h| { q == h }] }], conda { [|t, h| { x == [q | t], 2 == h }, q == 1], q == q }, conde { [[[] == q, false], |z| { x == 2, [x] == z, [x] == [[], [1, []], x] }], [true, onceo { true == [1] }] } }, closure { onceo { q == [q, q | q] } }])
}
pub fn case_313(vars: &Vars) -> InferredGoal<DU, DE, Goal<DU, DE>> {
    let x = vars.v[0].clone();
    let y = vars.v[1].clone();
    proto_vulcan!([conde { y != [2, 3, [] | x], [[y, [], []] == y, [[], y | x] != x] }, [y != 2]])
}
pub fn case_314(vars: &Vars) -> InferredGoal<DU, DE, Goal<DU, DE>> {
    let x = vars.v[0].clone();
    let y = vars.v[1].clone();
    proto_vulcan!([conde { false, y == x, [y == [y | y], member(x, [1, 1, 1])] }, [2, x, "bc" | 2] == y])
}
pub fn case_315(vars: &Vars) -> InferredGoal<DU, DE, Goal<DU, DE>> {
    let q = vars.v[0].clone();
    let x = vars.v[1].clone();
    proto_vulcan!([q == q, onceo { [x == x] }, 2 == 1])
}
pub fn case_316(vars: &Vars) -> InferredGoal<DU, DE, Goal<DU, DE>> {
    let x = vars.v[0].clone();
    let y = vars.v[1].clone();
    proto_vulcan!([[2, [x]] == 1, [1 | x] == x, false])
}
pub fn case_317(vars: &Vars) -> InferredGoal<DU, DE, Goal<DU, DE>> {
    let x = vars.v[0].clone();
    proto_vulcan!([append(x, x, [3, 3])])
}
pub fn case_318(vars: &Vars) -> InferredGoal<DU, DE, Goal<DU, DE>> {
    let x = vars.v[0].clone();
    proto_vulcan!([append(x, x, [1, 3])])
}
pub fn case_319(vars: &Vars) -> InferredGoal<DU, DE, Goal<DU, DE>> {
    let q = vars.v[0].clone();
    let x = vars.v[1].clone();
    proto_vulcan!([onceo { conda { ["bc", 1, x] == ["bc", q, [] | q], [q == [1, 'a', 2], |z, x| { member(q, [1, 1]), false }] } }, |t| { [append(t, q, [1]), [_, x | _] != t], |z| { t == "bc" } }, closure { q == x }])
}
pub fn case_320(vars: &Vars) -> InferredGoal<DU, DE, Goal<DU, DE>> {
    let x = vars.v[0].clone();
    let y = vars.v[1].clone();
    proto_vulcan!([[[[y == y, [x, 'a'] == 1], conde { [append(y, y, [1, 1]), y != [[2, 3, y], [y, []]]], x == [y, 3] }]], conde { [y == [y, y], [onceo { x != [] }, |t, y| { y != [x, y, []], y == y, y != [1, y, []] }, |y| { x == y, append(y, x, [3, 2]) }]], [[x] == x, [x, x | y] == y], conde { x == [x, [], _], [conda { [[]] != y }, |x| { false }] } }, false, closure { [y, 1, y] == y }])
}
pub fn case_321(vars: &Vars) -> InferredGoal<DU, DE, Goal<DU, DE>> {
    let q = vars.v[0].clone();
    let x = vars.v[1].clone();
    proto_vulcan!([x != [x, x, x | q]])
}
pub fn case_322(vars: &Vars) -> InferredGoal<DU, DE, Goal<DU, DE>> {
    let x = vars.v[0].clone();
    proto_vulcan!([x == x, x == [1], closure { [conda { [x != _, |x, h| { [2, _, 'a' | h] != x }] }, conde { x != [2, x, 1], x != [] }] }])
}
pub fn case_323(vars: &Vars) -> InferredGoal<DU, DE, Goal<DU, DE>> {
    let x = vars.v[0].clone();
    proto_vulcan!([x == x, closure { [x != [["a", x, 2], [1, _, x], _ | x], x == [3, x]] }])
}
pub fn case_324(vars: &Vars) -> InferredGoal<DU, DE, Goal<DU, DE>> {
    let x = vars.v[0].clone();
    let y = vars.v[1].clone();
    proto_vulcan!([[x, x | 'b'] == y])
}
pub fn case_325(vars: &Vars) -> InferredGoal<DU, DE, Goal<DU, DE>> {
    let q = vars.v[0].clone();
    let x = vars.v[1].clone();
    proto_vulcan!([|z| { z == [q, 'a'] }, 1 == q, [3] == q])
}
pub fn case_326(vars: &Vars) -> InferredGoal<DU, DE, Goal<DU, DE>> {
    let x = vars.v[0].clone();
    proto_vulcan!([[false], |h, z| { [z, [x, x, x], z | z] != x, false }, |z| { conde { ['b', [2, []]] == z, false, [[1, ["a", z, []]] == [x, _], append(z, x, [1, 1]), x == [[], [3, 1 | z] | x]] }, [|y| { [[false, 1 | x], 1] != z, false, 3 == [] }], z != [x | x] }])
}
pub fn case_327(vars: &Vars) -> InferredGoal<DU, DE, Goal<DU, DE>> {
    let x = vars.v[0].clone();
    proto_vulcan!([|h| { [x] == [[[], 1 | h], [_], [x, x]], conde { |h, y| { y == [h, [], false], false, h != 1 }, [h == "a", conde { [x == [_, ["bc", 1]], member(x, [])], [h == [2], h == [3, 2, []]], h == [1 | x] }] } }, |x| { [x, 2, x] == x }, closure { [conde { [conde { x == x, [true, false], [[[x | x] | x] == 2, x == [_]] }, [[2 | 1], [_], [] | x] == 2], [x == x, conda { x == x, [x == [x], false], [x] != x }], append(x, x, [2, 2]) }, conde { conde { [[2, []], ['a'] | x] != x, 2 != 2 }, [x == x, x == [x, x | x]], [[[x]] != x, 3 == x] }] }])
}
pub fn case_328(vars: &Vars) -> InferredGoal<DU, DE, Goal<DU, DE>> {
    let x = vars.v[0].clone();
    let y = vars.v[1].clone();
    proto_vulcan!([[x, "bc" | x] == x, conde { |t, x| { false, ["a" | y] == y, [3] == t }, |x| { conde { [x == [[x, x], [x, 2, 1], [3, x | y]], x == []], member(y, []) }, conde { x != x, x != [_ | x], [y != true, true] } }, [|t| { y != [x, [true, x | y] | t] }, member(x, [2])] }])
}
pub fn case_329(vars: &Vars) -> InferredGoal<DU, DE, Goal<DU, DE>> {
    let q = vars.v[0].clone();
    let x = vars.v[1].clone();
    proto_vulcan!([conde { onceo { 2 == [1, [1, "a"], 1 | x] }, conda { [['b', true, 2] != [[q]], [[[], 1]] != x] }, [|t| { x != [t] }, q == [x, 1]] }, conde { [x == q, x == x], [[append(q, q, [3, 1]), [[]] == 2, |h, t| { h == h, false, [[t], [2, [], t], [1 | t]] != x }], [[1, q], [q, q] | q] == [x, [true], [2 | x] | q]], [q == [_, _, 1], false] }])
}
pub fn case_330(vars: &Vars) -> InferredGoal<DU, DE, Goal<DU, DE>> {
    let q = vars.v[0].clone();
    let x = vars.v[1].clone();
    proto_vulcan!([[q == x, x == 2, [q, 2, x] == x], |h| { onceo { conde { member(x, []), q != [x, 1], [[q, 2 | 3] == h, x == _] } } }])
}
pub fn case_331(vars: &Vars) -> InferredGoal<DU, DE, Goal<DU, DE>> {
    let x = vars.v[0].clone();
    proto_vulcan!([[[x], [2, _, 2], _] == x, [x, x] == x, [conde { member(x, [1, 1, 3]), x == [2] }]])
}
pub fn case_332(vars: &Vars) -> InferredGoal<DU, DE, Goal<DU, DE>> {
    let x = vars.v[0].clone();
    let y = vars.v[1].clone();
    proto_vulcan!([[|z| { [member(z, []), [z] == z], |t, y| { [2 | t] != z, true } }, x == ['b' | y]], y == [false, [3, y] | x]])
}
pub fn case_333(vars: &Vars) -> InferredGoal<DU, DE, Goal<DU, DE>> {
    let x = vars.v[0].clone();
    let y = vars.v[1].clone();
    proto_vulcan!([[onceo { [[] == y] }, true == 1, conde { y == 2, [x, [y], _ | y] == y }], conda { |x, y| { y == [y | 3], |t| { append(x, y, [1, 1]) } } }, conde { [x == y, x == false], [[[x, 1] == [[y], [2, y], false], _ == x, [y] == y], condu { [[append(x, x, [1]), [[x, y, y], [y, 2, _], true] == [[]], [x, [2, y, 2], _] != x], x != y], |h| { h == [h | x] }, [onceo { y == [2, [], _] }, x == [[3 | y], y, [2, 1]]] }] }, closure { x == [[x, y, x], [y | x], [y, 1] | _] }])
}
pub fn case_334(vars: &Vars) -> InferredGoal<DU, DE, Goal<DU, DE>> {
    let q = vars.v[0].clone();
    let x = vars.v[1].clone();
    proto_vulcan!([[[_, 1, []], 1, []] == 'a', 2 == x])
}
pub fn case_335(vars: &Vars) -> InferredGoal<DU, DE, Goal<DU, DE>> {
    let x = vars.v[0].clone();
    proto_vulcan!([[x] == x, closure { append(x, x, [3]) }])
}
pub fn case_336(vars: &Vars) -> InferredGoal<DU, DE, Goal<DU, DE>> {
    let x = vars.v[0].clone();
    proto_vulcan!([conde { [[x | x] == [[x, x], [2, x], x], onceo { onceo { false } }], 'a' == x }, |t, x| { true }, member(x, [2, 1, 3]), closure { [[[x | x] != x, member(x, [1, 3])], conde { [|x| { x == [1], x == [2, []], x == [x, _, x | x] }, conde { [append(x, x, []), [2] == x], [append(x, x, [2, 1]), [x, 2, x] == x], append(x, x, []) }], [conde { member(x, []), [2] != x, false == x }, x == [[x, x, x]]] }] }])
}
pub fn case_337(vars: &Vars) -> InferredGoal<DU, DE, Goal<DU, DE>> {
    let x = vars.v[0].clone();
    proto_vulcan!([conde { [x == ['b' | 3], x == [x, 1, 1]], [|x, t| { true, [x] == x }, append(x, x, []), x == ['b', 2, 1]], conde { [onceo { x == x }, [[1, 2] == x, x == [], x == [2, [x, x, x]]]], [onceo { x != _ }, x == [[3, "a", x | x] | x]], [x, "bc" | x] != x } }])
}
pub fn case_338(vars: &Vars) -> InferredGoal<DU, DE, Goal<DU, DE>> {
    let q = vars.v[0].clone();
    let x = vars.v[1].clone();
    proto_vulcan!([[x, 2] != q, |z, y| { conde { conda { [y == [true, 'b', z], "a" != x], [[x, 2] == z, 1 == y], [y == _, false] }, [[2, q, _] == y], [y == [], [append(y, z, [])]] } }, closure { [|y, x| { 2 == [y, y, true | q] }, [[[3, 1, _], 1, [true, x] | q] == [2, _]]] }])
}
pub fn case_339(vars: &Vars) -> InferredGoal<DU, DE, Goal<DU, DE>> {
    let x = vars.v[0].clone();
    let y = vars.v[1].clone();
    proto_vulcan!([conde { [|y| { |t| { y == _ }, true }, condu { [[x, 2, 3] == y, |x| { x == [y] }], [|z| { x != [[z, 'b'], [3, x, y], false] }, member(y, [3, 2])] }], |z, y| { y == x, [_] == [[z], _, [x, 2]], conde { [1] != [y], [1 == y, true] } } }, y == [y], [1] == y, closure { y == y }])
}
pub fn case_340(vars: &Vars) -> InferredGoal<DU, DE, Goal<DU, DE>> {
    let x = vars.v[0].clone();
    proto_vulcan!([false, closure { [x != x, conde { [[[2, x | _], [[], 2], [1, x, x | x]] == x, 1 == x], [x == x, [[x | x] | x] == x] }] }])
}
pub fn case_341(vars: &Vars) -> InferredGoal<DU, DE, Goal<DU, DE>> {
    let x = vars.v[0].clone();
    let y = vars.v[1].clone();
    proto_vulcan!([y == [[2 | y], [y, x, x]], conde { x == _, [x == _, |t| { x != 2 }] }, [[conde { y == [y, 1, 2 | y], true }, _ == y, append(x, y, [])]]])
}
pub fn case_342(vars: &Vars) -> InferredGoal<DU, DE, Goal<DU, DE>> {
    let x = vars.v[0].clone();
    let y = vars.v[1].clone();
    proto_vulcan!([conde { [[_, 3, 2] != [2, [1, x, 1]], |h, z| { x == 1 }], x == [[]], [onceo { [y] == y }, |h| { y != [y | y], [2 | y] != x, member(x, [1]) }] }, [[y, 1, 1]] == [[x, y, x], x]])
}
pub fn case_343(vars: &Vars) -> InferredGoal<DU, DE, Goal<DU, DE>> {
    let q = vars.v[0].clone();
    let x = vars.v[1].clone();
    proto_vulcan!([[[q, 2]] == [x, x, [] | x], |x| { |z, h| { conde { h != "a", append(z, q, []), [[q, h, []] == x, x == [[false, x, 'b']]] }, [[false, z] == [x, [z, []]], append(q, x, []), [2] == z] } }, onceo { 2 == x }, closure { [conde { conde { [2 == x, false], [append(x, x, [2, 2]), [q] == q], true }, [x == 3, append(q, x, [1])] }, "bc" == q] }])
}
pub fn case_344(vars: &Vars) -> InferredGoal<DU, DE, Goal<DU, DE>> {
    let x = vars.v[0].clone();
    proto_vulcan!([append(x, x, [3]), |y| { onceo { append(x, x, [3]) }, |x, z| { condu { [[] != z, x == 1], [true, "a" | x] == x }, [["a", []]] == x, [[2, [], true] != z, 2 == y] }, condu { conda { x == ["bc"], [[3, y, 1 | y] != x, true], y == x }, [|y| { y != _, [] == x }, true] } }, 1 != x])
}
pub fn case_345(vars: &Vars) -> InferredGoal<DU, DE, Goal<DU, DE>> {
    let x = vars.v[0].clone();
    proto_vulcan!([conda { [[[true, x, 1 | x]] == x, 3 == [[1, [], 1 | x], [2, "a", 2], [3, [], x] | x]], [append(x, x, [2]), member(x, [])], [x == [[x, x], 1, [] | x], conde { [x, 'a', x] != x, [true, append(x, x, [1, 3])], x != 'b' }, [[_, 1]] == x] }, ['b', 3, 1] != x, onceo { x == x }])
}
pub fn case_346(vars: &Vars) -> InferredGoal<DU, DE, Goal<DU, DE>> {
    let q = vars.v[0].clone();
    let x = vars.v[1].clone();
    proto_vulcan!([[x == 2]])
}
pub fn case_347(vars: &Vars) -> InferredGoal<DU, DE, Goal<DU, DE>> {
    let x = vars.v[0].clone();
    proto_vulcan!([conda { x == [3, x | x] }, x == [x, _ | x], onceo { onceo { [member(x, [2, 2, 3]), x != [[] | x], false] } }])
}
pub fn case_348(vars: &Vars) -> InferredGoal<DU, DE, Goal<DU, DE>> {
    let x = vars.v[0].clone();
    proto_vulcan!([condu { x == [2 | x], [x == x, conde { [x == [_, [], x], x == []], [2, x, true | _] != [x, [_, _]], |x, h| { "bc" == x } }] }, x == 'a'])
}
pub fn case_349(vars: &Vars) -> InferredGoal<DU, DE, Goal<DU, DE>> {
    let q = vars.v[0].clone();
    let x = vars.v[1].clone();
    proto_vulcan!([q == 'b', |x| { |x| { [_, x, [] | q] == x }, |h, z| { conde { z == 2, [append(z, q, [3]), append(x, q, [])], [[false | q] == h, false] } }, [x, _, 1] == x }, x == [x, false], closure { q == q }])
}
pub fn case_350(vars: &Vars) -> InferredGoal<DU, DE, Goal<DU, DE>> {
    let q = vars.v[0].clone();
    let x = vars.v[1].clone();
    proto_vulcan!([|z, y| { conde { [member(z, []), _ == q, append(z, z, [])], [[] == x, condu { [x != 2, y != q] }], [x == x, x == [[z, 'a', 2], "a", [q, _, "bc"]]] }, [] == 2 }, |t| { [2 | t] == q }])
}
pub fn case_351(vars: &Vars) -> InferredGoal<DU, DE, Goal<DU, DE>> {
    let x = vars.v[0].clone();
    proto_vulcan!([[[[]] == [[x] | x]], x == [x]])
}
pub fn case_352(vars: &Vars) -> InferredGoal<DU, DE, Goal<DU, DE>> {
    let x = vars.v[0].clone();
    let y = vars.v[1].clone();
    proto_vulcan!([x == 2, member(x, [3, 1]), [|y| { true, 1 == y }, onceo { 2 == x }], closure { true }])
}
pub fn case_353(vars: &Vars) -> InferredGoal<DU, DE, Goal<DU, DE>> {
    let x = vars.v[0].clone();
    let y = vars.v[1].clone();
    proto_vulcan!([|t, x| { y != y }, x == [3, y], conde { [condu { [y == x, |t, h| { true, [t, _ | t] == t }], 1 == y, false }, [y, 3, 2] == y], condu { true, [false, onceo { y == 1 }] }, conde { [conde { [1 == y, [1] == x], [y == y, y == x], ['b' | y] == y }, x == [2, y]], [[y == [y, [], y]], y == y] } }, closure { |y, z| { y == true, |t, z| { y == [], 1 == z }, y == [2, 1 | y] } }])
}
pub fn case_354(vars: &Vars) -> InferredGoal<DU, DE, Goal<DU, DE>> {
    let x = vars.v[0].clone();
    proto_vulcan!([|z| { |z, h| { |z| { [] == z } } }, false, x == x])
}
pub fn case_355(vars: &Vars) -> InferredGoal<DU, DE, Goal<DU, DE>> {
    let q = vars.v[0].clone();
    let x = vars.v[1].clone();
    proto_vulcan!([false, closure { [x == [q, x | x], x == [q, x]] }])
}
pub fn case_356(vars: &Vars) -> InferredGoal<DU, DE, Goal<DU, DE>> {
    let x = vars.v[0].clone();
    let y = vars.v[1].clone();
    proto_vulcan!([conde { |z, y| { condu { [[], x, y | y] == x }, [[x, x] != x, x != y, 1 == _], conde { false, [1, [], []] == z, [y, 2 | 2] == y } }, y != y, [['a', x], [y, 2, [] | y], [_, 'a', 3]] == x }, |x| { |h| { h == 1, |h| { member(x, [3]) } }, y == [[[]], [true | y], [_, x, x]] }, [1 | x] == y, closure { x != [x, x, y] }])
}
pub fn case_357(vars: &Vars) -> InferredGoal<DU, DE, Goal<DU, DE>> {
    let q = vars.v[0].clone();
    let x = vars.v[1].clone();
    proto_vulcan!([[1, 2] == q, append(q, q, [1]), closure { [[1] != x, ["bc" == q, q == x]] }])
}
pub fn case_358(vars: &Vars) -> InferredGoal<DU, DE, Goal<DU, DE>> {
    let q = vars.v[0].clone();
    let x = vars.v[1].clone();
    proto_vulcan!([|h| { conde { [1 == [h], [[x, false] | q] == x, member(h, [2, 3])], [[[[], _] == x], h != [1, 2]], [true, [] == h] }, q != [], x == q }, conde { ["a" == q, |x| { |x| { [3, x, 1] == x, q == [] }, q != x }], [q == q, conde { [q != q, x == [1, q, 2]], false, [conde { [true, ["a", 2 | x] == x], false }, _ == q] }], [x == [x], [x == [true, q | x]]] }, closure { x == [x, x, 1 | x] }])
}
pub fn case_359(vars: &Vars) -> InferredGoal<DU, DE, Goal<DU, DE>> {
    let q = vars.v[0].clone();
    let x = vars.v[1].clone();
    proto_vulcan!([[2] != x, |y| { y != y, |h, z| { x == [[y] | z], true } }])
}
pub fn case_360(vars: &Vars) -> InferredGoal<DU, DE, Goal<DU, DE>> {
    let x = vars.v[0].clone();
    proto_vulcan!([|z| { |y, t| { |y| { x != [y, 1 | y] }, onceo { false }, [z] == t }, [x, [_], [x]] == z }, closure { [false, x != 2] }])
}
pub fn case_361(vars: &Vars) -> InferredGoal<DU, DE, Goal<DU, DE>> {
    let x = vars.v[0].clone();
    proto_vulcan!([[x, _] == x, [x == []]])
}
pub fn case_362(vars: &Vars) -> InferredGoal<DU, DE, Goal<DU, DE>> {
    let q = vars.v[0].clone();
    let x = vars.v[1].clone();
    proto_vulcan!([|y| { [_] == q }])
}
pub fn case_363(vars: &Vars) -> InferredGoal<DU, DE, Goal<DU, DE>> {
    let x = vars.v[0].clone();
    proto_vulcan!([[x] != x, |t| { 1 == t }])
}
pub fn case_364(vars: &Vars) -> InferredGoal<DU, DE, Goal<DU, DE>> {
    let q = vars.v[0].clone();
    let x = vars.v[1].clone();
    proto_vulcan!([[x, x] == x, [] != q, 1 == x, closure { onceo { q != [x, 2] } }])
}
pub fn case_365(vars: &Vars) -> InferredGoal<DU, DE, Goal<DU, DE>> {
    let q = vars.v[0].clone();
    let x = vars.v[1].clone();
    proto_vulcan!([conde { q != [[_, 'b' | true], _], conda { [[append(q, q, []), [3] == x, [2, "a"] == q], q != [q]], |t, h| { x == x, h == t } }, [1] == q }, closure { [q == _, [3, x, 3] != [[x, 3 | x], []]] }])
}
pub fn case_366(vars: &Vars) -> InferredGoal<DU, DE, Goal<DU, DE>> {
    let x = vars.v[0].clone();
    let y = vars.v[1].clone();
    proto_vulcan!([append(x, x, []), y == []])
}
pub fn case_367(vars: &Vars) -> InferredGoal<DU, DE, Goal<DU, DE>> {
    let x = vars.v[0].clone();
    let y = vars.v[1].clone();
    proto_vulcan!([conde { _ == x, y == y, [[x, 1, 2] == x, [y] == 3] }, y == y])
}
pub fn case_368(vars: &Vars) -> InferredGoal<DU, DE, Goal<DU, DE>> {
    let x = vars.v[0].clone();
    proto_vulcan!([x == [x, x]])
}
pub fn case_369(vars: &Vars) -> InferredGoal<DU, DE, Goal<DU, DE>> {
    let x = vars.v[0].clone();
    proto_vulcan!([[] != x])
}
pub fn case_370(vars: &Vars) -> InferredGoal<DU, DE, Goal<DU, DE>> {
    let x = vars.v[0].clone();
    proto_vulcan!([x == 3])
}
pub fn case_371(vars: &Vars) -> InferredGoal<DU, DE, Goal<DU, DE>> {
    let q = vars.v[0].clone();
    let x = vars.v[1].clone();
    proto_vulcan!([conde { [conde { conde { [true, [[], q] == x], q == q }, |t, y| { false, [y, [1 | x]] == t, t == t }, [[[2, _ | q], [1, x], [q]] == x, x != [[_ | q] | x]] }, |h, t| { t == h, [append(h, x, [3]), append(x, h, []), [[_, 3 | x], 1, 'a' | x] == [[1, x | h]]] }], [[[true, member(q, [])]], onceo { [true] }], [conde { [q == [], [q == [x], q == q]], |h| { h == q } }, onceo { onceo { [q] != q } }] }, closure { [_] == x }])
}
pub fn case_372(vars: &Vars) -> InferredGoal<DU, DE, Goal<DU, DE>> {
    let x = vars.v[0].clone();
    proto_vulcan!([_ == "bc", |t| { conde { [[t | x] == t, t == [[1], [], [[], 3, 3]]], condu { t == 1, [t == [[], [t, [], 2 | x], [1]], append(x, x, [])], 2 == x } }, conde { [3] == t, [onceo { t == t }, x != [t, [true, _]]], [[t, _, t] | 2] != _ }, |y| { 1 == x } }])
}
pub fn case_373(vars: &Vars) -> InferredGoal<DU, DE, Goal<DU, DE>> {
    let x = vars.v[0].clone();
    let y = vars.v[1].clone();
    proto_vulcan!([|t| { x == [x, t, t] }, y == [[], 2]])
}
pub fn case_374(vars: &Vars) -> InferredGoal<DU, DE, Goal<DU, DE>> {
    let x = vars.v[0].clone();
    let y = vars.v[1].clone();
    proto_vulcan!([|y| { y == y }])
}
pub fn case_375(vars: &Vars) -> InferredGoal<DU, DE, Goal<DU, DE>> {
    let x = vars.v[0].clone();
    let y = vars.v[1].clone();
    proto_vulcan!([conde { y == [y, 3], [[member(y, [1, 3, 2]), y == [y]]], [[] == x, [conda { [x == [3, 2, y | x], y != x] }, condu { [y, [y, "a", true], x | y] == [3, 2, "a"] }]] }, closure { [[y == [1, 'a', y | 2]], [[1, x, 3 | y] != x, [1, 1, [2, _]] == [], conde { [x == 2, false], [x == y, y == [2, y]] }]] }])
}
pub fn case_376(vars: &Vars) -> InferredGoal<DU, DE, Goal<DU, DE>> {
    let x = vars.v[0].clone();
    proto_vulcan!([1 == x, false, |y| { conde { [append(x, y, [2]), y == ["bc"]], [x != [x, x, x], member(y, [2])] } }])
}
pub fn case_377(vars: &Vars) -> InferredGoal<DU, DE, Goal<DU, DE>> {
    let q = vars.v[0].clone();
    let x = vars.v[1].clone();
    proto_vulcan!([conda { [[_ | x], [q, x]] == [x, x], |y| { [[], 2] == q, [[q | x] == [_, x, [false, 2, 1 | x]], x == y], q != q } }, |z| { [z, 1, 3] == [z, _, 1 | q], [[1, 'b' | x], x | 2] == [] }])
}
pub fn case_378(vars: &Vars) -> InferredGoal<DU, DE, Goal<DU, DE>> {
    let x = vars.v[0].clone();
    let y = vars.v[1].clone();
    proto_vulcan!([[_, y, 2 | x] == x, y == [[], [], y], conde { append(x, x, [3, 2]), [x == y, [1] == [[x], 2 | 1]] }])
}
pub fn case_379(vars: &Vars) -> InferredGoal<DU, DE, Goal<DU, DE>> {
    let x = vars.v[0].clone();
    proto_vulcan!([|x| { x == [x, 'b', 1 | x] }])
}
pub fn case_380(vars: &Vars) -> InferredGoal<DU, DE, Goal<DU, DE>> {
    let x = vars.v[0].clone();
    proto_vulcan!([[[2, _, x] == x, [x, x | x] == x, |t, h| { conde { [_ == t, 1 == x], 2 == x }, t != t }], true])
}
pub fn case_381(vars: &Vars) -> InferredGoal<DU, DE, Goal<DU, DE>> {
    let x = vars.v[0].clone();
    proto_vulcan!([x == [x, x], [[2, 1, 1], ["a", x, _] | x] == x, x != x, closure { [[1, x] == x, |y| { x != y }] }])
}
pub fn case_382(vars: &Vars) -> InferredGoal<DU, DE, Goal<DU, DE>> {
    let x = vars.v[0].clone();
    proto_vulcan!([false, closure { [[2, 'b', [] | x] == x, x == [x, 'b' | x]] }])
}
pub fn case_383(vars: &Vars) -> InferredGoal<DU, DE, Goal<DU, DE>> {
    let q = vars.v[0].clone();
    let x = vars.v[1].clone();
    proto_vulcan!([conda { [conda { conde { member(q, [3, 3, 3]), [q == [], x == [[x, x], []]], q == [[[]], [2 | _] | q] }, q != 1, |y| { [[y | q]] == x, [true, 1, false] == y, 2 == y } }, [q == [2], q == [[]]]] }, [|x| { x == [2, true | x], x == [_, 2, x | q] }, true, [] != x], x == [q, _, q]])
}
pub fn case_384(vars: &Vars) -> InferredGoal<DU, DE, Goal<DU, DE>> {
    let q = vars.v[0].clone();
    let x = vars.v[1].clone();
    proto_vulcan!([|z, h| { onceo { |t, y| { member(x, []), ['a'] == [y, h], h != [false] } }, |z| { [_, _ | x] == z }, [true, q, 1] == z }, |y| { 3 == y, [[[], x | true], 3 | x] != q }, closure { conde { x != [[], x, "a"], [[[1] == q, q == [x, q, x], x == x], |h| { 2 == h, ['b' | h] != q }], [q == x, 1 == q, x == ['a' | q]] } }])
}
pub fn case_385(vars: &Vars) -> InferredGoal<DU, DE, Goal<DU, DE>> {
    let x = vars.v[0].clone();
    proto_vulcan!([x == [2, _], x == x])
}
pub fn case_386(vars: &Vars) -> InferredGoal<DU, DE, Goal<DU, DE>> {
    let x = vars.v[0].clone();
    let y = vars.v[1].clone();
    proto_vulcan!([true, conde { [1 == x, condu { [true, conde { [y, 3 | 1] == [[[], x, y], [[] | y], [1, x | x]], [x == [[]], x == [1]] }], y == x }], [x == _, |x| { conde { true, [true, 2 == _] } }], [[x, [3, [] | 3] | y] == "bc", conde { [conde { [[false, false] != x, y == [[_, x] | y]], y == [y, _, 1] }, x == y], x == false, onceo { true } }] }, [1, _] == x])
}
pub fn case_387(vars: &Vars) -> InferredGoal<DU, DE, Goal<DU, DE>> {
    let x = vars.v[0].clone();
    let y = vars.v[1].clone();
    proto_vulcan!([|y, t| { [[t | x]] == x }, conde { [y != [x, 1, y], 3 == x], [[[x, x] != y, y != ["a", 1], onceo { [y] == y }], x == 2], 2 == x }])
}
pub fn case_388(vars: &Vars) -> InferredGoal<DU, DE, Goal<DU, DE>> {
    let x = vars.v[0].clone();
    proto_vulcan!([[2, x, [x, x, x]] == x, onceo { [x, [], x] != x }, closure { [x == x, |z, h| { |x, y| { [x, []] == y, "a" == x }, h != [[_, 'a', false | "a"], z | x] }] }])
}
pub fn case_389(vars: &Vars) -> InferredGoal<DU, DE, Goal<DU, DE>> {
    let x = vars.v[0].clone();
    proto_vulcan!([[2 == [x], condu { condu { [1, 1 | x] == [x, x, [x]], [[x, 2] == x, [[2, x | _] | x] == 2], x != [false, 'a', x] } }], [x] == x])
}
pub fn case_390(vars: &Vars) -> InferredGoal<DU, DE, Goal<DU, DE>> {
    let x = vars.v[0].clone();
    let y = vars.v[1].clone();
    proto_vulcan!(['b' == x, true, append(x, x, [2])])
}
pub fn case_391(vars: &Vars) -> InferredGoal<DU, DE, Goal<DU, DE>> {
    let x = vars.v[0].clone();
    proto_vulcan!([x == 1, [1, _, x] == x, condu { |h| { [[[], x, h | h]] == h, conde { [[] == x, h == [[false], []]], [[[x]] != 3, [2, [], []] != h], append(x, x, [3, 3]) }, member(h, [1]) }, x == [1] }, closure { x != [x, 2] }])
}
pub fn case_392(vars: &Vars) -> InferredGoal<DU, DE, Goal<DU, DE>> {
    let q = vars.v[0].clone();
    let x = vars.v[1].clone();
    proto_vulcan!([[onceo { member(q, []) }]])
}
pub fn case_393(vars: &Vars) -> InferredGoal<DU, DE, Goal<DU, DE>> {
    let x = vars.v[0].clone();
    proto_vulcan!([x != x, [x == "bc", [x, x | x] == [[x, x | x]]]])
}
pub fn case_394(vars: &Vars) -> InferredGoal<DU, DE, Goal<DU, DE>> {
    let x = vars.v[0].clone();
    proto_vulcan!([onceo { |x, y| { x == 3, |z, x| { [z | 2] == [1, x | 1], [3, 3] != y }, [3 == x] } }, [[[x, [true], [2 | x]] == x, x == [_, 'a'], x == 1]], conde { [[true, |t, x| { x == [x, false | x], [3, 2, x | x] == x, t == t }, condu { [false, [[[], x | x]] != x], [_ == x, x == x] }], ['a', _, x] == x], [x != x, x == x], [onceo { onceo { 1 == x } }, [|t| { t != [], append(x, t, [3]) }, x == [x, x, x], conde { x == [x, x], x == [true, x, 3 | x], [x] != x }]] }, closure { |x, z| { [x, []] == [false, [1, 1], [x, x, x]], x == "a", conda { [x == x, x == z], z == 1 } } }])
}
pub fn case_395(vars: &Vars) -> InferredGoal<DU, DE, Goal<DU, DE>> {
    let x = vars.v[0].clone();
    proto_vulcan!([[x, x] == x, x == [], [] == x, closure { [[|y| { y == y, y == [], y == 3 }, |t, y| { y == 1, t == [[[], t], [2], [2, 2, "bc"] | x], 2 != t }], ["bc" == x]] }])
}
pub fn case_396(vars: &Vars) -> InferredGoal<DU, DE, Goal<DU, DE>> {
    let x = vars.v[0].clone();
    proto_vulcan!([member(x, [1, 2]), x == [2, x], closure { [1, x, x] != x }])
}
pub fn case_397(vars: &Vars) -> InferredGoal<DU, DE, Goal<DU, DE>> {
    let q = vars.v[0].clone();
    let x = vars.v[1].clone();
    proto_vulcan!([q == 2, onceo { x == [[]] }, onceo { |h, y| { 1 == [[], h, y] } }])
}
pub fn case_398(vars: &Vars) -> InferredGoal<DU, DE, Goal<DU, DE>> {
    let q = vars.v[0].clone();
    let x = vars.v[1].clone();
    proto_vulcan!([onceo { q == [x, [_, 1] | q] }, false == q, x == [[x, 3, 2], [1 | x], [x | q]], closure { 2 == [[_]] }])
}
pub fn case_399(vars: &Vars) -> InferredGoal<DU, DE, Goal<DU, DE>> {
    let x = vars.v[0].clone();
    let y = vars.v[1].clone();
    proto_vulcan!([condu { |x| { conda { [false, x != [[], [], x]] }, x != [2, 1, y | x] }, y != x, [x == [[2, []], _, 1], y == y] }, y == y])
}
pub fn case_400(vars: &Vars) -> InferredGoal<DU, DE, Goal<DU, DE>> {
    let x = vars.v[0].clone();
    proto_vulcan!([x == [[], x, x], [_, x, x | _] == x, true])
}
pub fn case_401(vars: &Vars) -> InferredGoal<DU, DE, Goal<DU, DE>> {
    let x = vars.v[0].clone();
    proto_vulcan!([x == [3, x, 2], x != x])
}
pub fn case_402(vars: &Vars) -> InferredGoal<DU, DE, Goal<DU, DE>> {
    let q = vars.v[0].clone();
    let x = vars.v[1].clone();
    proto_vulcan!([1 == x, [|z| { conde { x != [q, _, q | 3], 'a' == [1, 'a', z | 2], x != [[x, [], "bc" | x], [[]]] } }, condu { [conde { [_ == q, q == [[2 | false]]], [q == x, [] == [x, [1, x]]], [[["a", x, x]] == x, q == ["a", "a"]] }, 'b' == x] }], [|y, t| { conde { [[2, y, x] == q, member(q, [])], [1, 'a', q] == x }, [2 | y] != [x, x, false], [[[[]], ["bc"], [[], t, []] | 1] == 1] }, q == q], closure { [append(q, q, [2]), x == 2] }])
}
pub fn case_403(vars: &Vars) -> InferredGoal<DU, DE, Goal<DU, DE>> {
    let x = vars.v[0].clone();
    let y = vars.v[1].clone();
    proto_vulcan!([[false], y == [[], y], closure { [false, [3 | y] == x] }])
}
pub fn case_404(vars: &Vars) -> InferredGoal<DU, DE, Goal<DU, DE>> {
    let x = vars.v[0].clone();
    proto_vulcan!([|y| { |y| { [[], y] != [[1 | y] | y], y == x, conde { [y == 1, x != [1, 2, false]], [[2] == x, [1, 3, 3] == y] } } }])
}
pub fn case_405(vars: &Vars) -> InferredGoal<DU, DE, Goal<DU, DE>> {
    let x = vars.v[0].clone();
    proto_vulcan!([|t| { x != [3, x | 1], [x, [], t | 1] == t }, closure { [x != [1], x == [[[], 1 | x], ["bc" | _] | x]] }])
}
pub fn case_406(vars: &Vars) -> InferredGoal<DU, DE, Goal<DU, DE>> {
    let x = vars.v[0].clone();
    let y = vars.v[1].clone();
    proto_vulcan!([|h, y| { [2 == y, [member(h, []), y == [x, 1 | _], h == 2]], x == [[]] }, y == [[]]])
}
pub fn case_407(vars: &Vars) -> InferredGoal<DU, DE, Goal<DU, DE>> {
    let x = vars.v[0].clone();
    let y = vars.v[1].clone();
    proto_vulcan!([conde { conde { [2 == y, y == [y | y]], [_ == y, true] }, [false, conde { [x == _, |h, z| { x == [[[], _, z | h], [true, "bc", 1 | h], 'a'], [2, 1, z] != x }], [x == x, member(x, [])], conde { x == [], [[1] == y, [1] == _], [y == y, x == _] } }] }, closure { [[false, x == [y | x], [[1, x, 2] == x, y == [y], _ == x]], [y] == y] }])
}
pub fn case_408(vars: &Vars) -> InferredGoal<DU, DE, Goal<DU, DE>> {
    let x = vars.v[0].clone();
    let y = vars.v[1].clone();
    proto_vulcan!([x == x, [[x != [_], [] == x, x == [y, 2, _]], onceo { [append(x, y, [1]), x == [[], []]] }], conde { [x != _, |z| { z == 3, |y, h| { true }, true }], [_ != y, [[_, x] == x, x == [2], |x| { [y, [], 3] == y }]] }])
}
pub fn case_409(vars: &Vars) -> InferredGoal<DU, DE, Goal<DU, DE>> {
    let x = vars.v[0].clone();
    let y = vars.v[1].clone();
    proto_vulcan!([y == 1])
}
pub fn case_410(vars: &Vars) -> InferredGoal<DU, DE, Goal<DU, DE>> {
    let x = vars.v[0].clone();
    let y = vars.v[1].clone();
    proto_vulcan!([onceo { x == [y, _, 'b'] }])
}
pub fn case_411(vars: &Vars) -> InferredGoal<DU, DE, Goal<DU, DE>> {
    let x = vars.v[0].clone();
    proto_vulcan!([onceo { [1, x, "a"] != x }])
}
pub fn case_412(vars: &Vars) -> InferredGoal<DU, DE, Goal<DU, DE>> {
    let x = vars.v[0].clone();
    proto_vulcan!([|h| { x == h, x == 1 }, |h| { [2, x] == [[h, [], [] | h], [x, 2, 2 | 2]], [x == [_ | h], [x] == h, conde { [2, [x], false | x] != [x, [[], 2 | h], [2, h, 3]], x == 1 }], [[[], 3, 3]] == h }, false])
}
pub fn case_413(vars: &Vars) -> InferredGoal<DU, DE, Goal<DU, DE>> {
    let x = vars.v[0].clone();
    let y = vars.v[1].clone();
    proto_vulcan!([[2] == x, |y| { y != y }, condu { true == y }])
}
pub fn case_414(vars: &Vars) -> InferredGoal<DU, DE, Goal<DU, DE>> {
    let x = vars.v[0].clone();
    proto_vulcan!([[x == [x], [x, x, x] == x], conde { false, [x != [[] | 2], ['b', 'b', x | x] != x], [conde { x != x, append(x, x, []) }, true] }, x == 1])
}
pub fn case_415(vars: &Vars) -> InferredGoal<DU, DE, Goal<DU, DE>> {
    let x = vars.v[0].clone();
    proto_vulcan!([x == [x, x], [|y, z| { ['b' == 1] }]])
}
pub fn case_416(vars: &Vars) -> InferredGoal<DU, DE, Goal<DU, DE>> {
    let q = vars.v[0].clone();
    let x = vars.v[1].clone();
    proto_vulcan!([[q] == q, x == [[], 1 | q], |z| { |h| { [member(h, [3, 3])], conde { [1, "bc"] != z, [3 == x, z == x] }, |h, y| { 2 == q, [q, 2 | h] == h } } }])
}
pub fn case_417(vars: &Vars) -> InferredGoal<DU, DE, Goal<DU, DE>> {
    let x = vars.v[0].clone();
    proto_vulcan!([x != [], x == [[x, 2 | x] | x], x == [x]])
}
pub fn case_418(vars: &Vars) -> InferredGoal<DU, DE, Goal<DU, DE>> {
    let x = vars.v[0].clone();
    proto_vulcan!([conde { [_, 2, 3] == x, [[x] == 1, [[x == [], [x] == x]]], [[3] != x, conde { [member(x, []), member(x, [1, 3, 1])], conde { x == 2, [[false, x | 3] == x, false] } }] }, onceo { 3 != x }, conde { x == 1, 2 != [[_, []], [_] | x] }])
}
pub fn case_419(vars: &Vars) -> InferredGoal<DU, DE, Goal<DU, DE>> {
    let q = vars.v[0].clone();
    let x = vars.v[1].clone();
    proto_vulcan!([[x == x, q != q, conda { [[q | q] == q, true], x == q }], member(x, [1, 3, 1]), |z, x| { condu { [q == [3], [z != q]], [[[[q, 3], [q, q]] != x, x == q], z == ["bc"]] }, [z != [z, 2, 1], [q == x, z != 2, z == q], [true, [2] != x]], [1, 2] == x }])
}
pub fn case_420(vars: &Vars) -> InferredGoal<DU, DE, Goal<DU, DE>> {
    let x = vars.v[0].clone();
    let y = vars.v[1].clone();
    proto_vulcan!([onceo { 1 != y }, closure { append(x, x, [2, 3]) }])
}
pub fn case_421(vars: &Vars) -> InferredGoal<DU, DE, Goal<DU, DE>> {
    let x = vars.v[0].clone();
    let y = vars.v[1].clone();
    proto_vulcan!([conda { conde { [x != 2], [[[1, [] | x]] == y, [1, y | _] == y], y != _ }, [|x| { [2, x | x] != x, [[2, x], [x, 'a'], [[]]] == [[], 2], [_ == x] }, onceo { 'a' == y }], conde { y == [[[], 'b', y], x], [|x, z| { true, [y] == x, member(y, [1, 1]) }, y == _], |z, t| { append(z, x, []) } } }, |z, h| { x != 2, onceo { _ == 3 } }])
}
pub fn case_422(vars: &Vars) -> InferredGoal<DU, DE, Goal<DU, DE>> {
    let x = vars.v[0].clone();
    proto_vulcan!([x == [[1], [x], [x, _ | x]], [] == x, [[], _] == x])
}
pub fn case_423(vars: &Vars) -> InferredGoal<DU, DE, Goal<DU, DE>> {
    let x = vars.v[0].clone();
    let y = vars.v[1].clone();
    proto_vulcan!([conde { [[x, [] | x] != y, |t| { y == ['a', _ | x] }], [y == 2, x == x] }, closure { [_ == [x], [[y, "bc"], [1], ['a', y, y] | x] != 3] }])
}
pub fn case_424(vars: &Vars) -> InferredGoal<DU, DE, Goal<DU, DE>> {
    let q = vars.v[0].clone();
    let x = vars.v[1].clone();
    proto_vulcan!([x == q, closure { [conde { [[true | x] == x, x == [[], 1, false]], x == 3, [q == x, [[q], ['a', q | "bc"]] == x] }, 2 == x, true] }])
}
pub fn case_425(vars: &Vars) -> InferredGoal<DU, DE, Goal<DU, DE>> {
    let x = vars.v[0].clone();
    let y = vars.v[1].clone();
    proto_vulcan!([|y, t| { 1 != [y, [], [x, _ | y] | t], conde { [x == _, true], y != [2 | t], [|y, z| { z == [[true], [_, x], [false, [], 3]] }, [y == [1], true, y == y]] }, conda { y == [2], [[[]] == x, append(y, y, [2]), y != ["bc", _]] } }, true, [2, []] == [y | 'b'], closure { [[[[3, x] == x, y == y, y == [y, 2, x | x]]], [|y| { y != [_] }, _ != y]] }])
}
pub fn case_426(vars: &Vars) -> InferredGoal<DU, DE, Goal<DU, DE>> {
    let x = vars.v[0].clone();
    proto_vulcan!([append(x, x, [2, 1]), x == [x]])
}
pub fn case_427(vars: &Vars) -> InferredGoal<DU, DE, Goal<DU, DE>> {
    let x = vars.v[0].clone();
    proto_vulcan!([x != [x, x], [x, 1 | x] == [3, [x, false] | x], true])
}
pub fn case_428(vars: &Vars) -> InferredGoal<DU, DE, Goal<DU, DE>> {
    let x = vars.v[0].clone();
    proto_vulcan!([x == x, closure { [[[x | x], [1, x | x]] != x, condu { x == true, [|y| { [[x, y, _]] != y }, member(x, [3, 3, 3])], [x == [[], x], |t| { t == x, t != t, false }] }] }])
}
pub fn case_429(vars: &Vars) -> InferredGoal<DU, DE, Goal<DU, DE>> {
    let x = vars.v[0].clone();
    let y = vars.v[1].clone();
    proto_vulcan!([x != [["a", 3, 'a'], y, 1], |y| { conde { [[[3, _, 3], [2, 1, y], 2] != y, x == [y, 1]], |h| { y == y, x != h }, [[3, 2] == x, member(y, [3])] }, |x, y| { y == [_] } }, closure { y == y }])
}
pub fn case_430(vars: &Vars) -> InferredGoal<DU, DE, Goal<DU, DE>> {
    let x = vars.v[0].clone();
    proto_vulcan!([|x| { false }, [1, [2, x, x], [x, x, x | x]] == [[1 | x], [x, x, x] | x]])
}
pub fn case_431(vars: &Vars) -> InferredGoal<DU, DE, Goal<DU, DE>> {
    let x = vars.v[0].clone();
    proto_vulcan!([|fresh_name_9| { false }, [1, [2, x, x], [x, x, x | x]] == [[1 | x], [x, x, x] | x]])
}
pub fn case_432(vars: &Vars) -> InferredGoal<DU, DE, Goal<DU, DE>> {
    let x = vars.v[0].clone();
    proto_vulcan!([x == [_, 1, x], conde { [|y| { y == _ }, x == []], [conde { [|y| { y == y, [1] != x, y == [y, x] }, conde { [[['b', 1 | x], [x], [x] | x] == 3, x == 2], [3, x, []] != x, [false, false] }], conde { [[x, 3]] == 'a', member(x, [2, 1]), [[1, x] == x, x == []] }, [match x { [[y | _], [[], x]] | 1 => , }, match x { [y] => { [_, [x, y, 1]] == 'b', x == [x, y, [] | x] }, ["bc"] => { [[], []] == x, x == x }, }] }, x == x], matche x { 2 => { match x { x | [[], [3 | z], h | 1] => , x | [["a", 2]] => , }, [[2, _ | x], [[], x], [x | x]] == x }, [z | h] => { 2 != z, |t| { [[_] | z] != h, [_] == h } }, } }, conde { x == x, match x { y => , [_, ['a', t] | _] => { match 2 { [[h, 'a' | x], 3, [h, y]] => [[2, 1, x | h] != x, 1 == h], }, conde { [t] == x, [false, [x, false] != x], [x != t, t == x] } }, [[false, 2, 1 | x], []] => , }, [conde { [matche 3 { _ => [[x | _] | x] == [false, 2], [[[], _, 2], [_, 3, false]] | t => , [x, [true, "a", 1 | t] | 1] | [1, []] => , }, false], [[x, 1] == [[], x, x | x], [[x, 1, false], x, [] | 1] == x], [|t, z| { z == [1, x, x], z == [1, t, 1] }, matche x { t => [x == [t, x], x == x], }] }, conde { [1] == x, [[true, x == [x], false], [true, member(x, [1, 3]), _ == x]] }] }, closure { [conde { matche x { [h, [[] | z] | z] => { append(x, z, [3]), h == x }, 1 => , }, [|z| { x == 2, [[2, z | x]] == [[1, 3, z], [z, true]] }, |x| { append(x, x, []), [_, 'a', 1] == x, x != 1 }] }, x == x] }])
}
pub fn case_433(vars: &Vars) -> InferredGoal<DU, DE, Goal<DU, DE>> {
    let x = vars.v[0].clone();
    proto_vulcan!([x == [_, 1, x], conde { [|y| { y == _ }, x == []], [conde { [|y| { y == y, [1] != x, y == [y, x] }, conde { [[['b', 1 | x], [x], [x] | x] == 3, x == 2], [3, x, []] != x, [false, false] }], conde { [[x, 3]] == 'a', member(x, [2, 1]), [[1, x] == x, x == []] }, [match x { [[y | _], [[], x]] | 1 => , }, match x { [y] => { [_, [x, y, 1]] == 'b', x == [x, y, [] | x] }, ["bc"] => { [[], []] == x, x == x }, }] }, x == x], matche x { 2 => { match x { x | [[], [3 | z], h | 1] => , x | [["a", 2]] => , }, [[2, _ | x], [[], x], [x | x]] == x }, [fresh_name_9 | h] => { 2 != fresh_name_9, |t| { [[_] | fresh_name_9] != h, [_] == h } }, } }, conde { x == x, match x { y => , [_, ['a', t] | _] => { match 2 { [[h, 'a' | x], 3, [h, y]] => [[2, 1, x | h] != x, 1 == h], }, conde { [t] == x, [false, [x, false] != x], [x != t, t == x] } }, [[false, 2, 1 | x], []] => , }, [conde { [matche 3 { _ => [[x | _] | x] == [false, 2], [[[], _, 2], [_, 3, false]] | t => , [x, [true, "a", 1 | t] | 1] | [1, []] => , }, false], [[x, 1] == [[], x, x | x], [[x, 1, false], x, [] | 1] == x], [|t, z| { z == [1, x, x], z == [1, t, 1] }, matche x { t => [x == [t, x], x == x], }] }, conde { [1] == x, [[true, x == [x], false], [true, member(x, [1, 3]), _ == x]] }] }, closure { [conde { matche x { [h, [[] | z] | z] => { append(x, z, [3]), h == x }, 1 => , }, [|z| { x == 2, [[2, z | x]] == [[1, 3, z], [z, true]] }, |x| { append(x, x, []), [_, 'a', 1] == x, x != 1 }] }, x == x] }])
}
pub fn case_434(vars: &Vars) -> InferredGoal<DU, DE, Goal<DU, DE>> {
    let q = vars.v[0].clone();
    let x = vars.v[1].clone();
    proto_vulcan!([q == q, conde { 2 == x, [true, append(x, q, [3, 2])], matche x { [[], [y, y, 1]] => conde { append(x, x, []), _ == [[1, x], [_, x], 'b'] }, } }])
}
pub fn case_435(vars: &Vars) -> InferredGoal<DU, DE, Goal<DU, DE>> {
    let q = vars.v[0].clone();
    let x = vars.v[1].clone();
    proto_vulcan!([q == q, conde { 2 == x, [true, append(x, q, [3, 2])], matche x { [[], [fresh_name_9, fresh_name_9, 1]] => conde { append(x, x, []), _ == [[1, x], [_, x], 'b'] }, } }])
}
pub fn case_436(vars: &Vars) -> InferredGoal<DU, DE, Goal<DU, DE>> {
    let q = vars.v[0].clone();
    let x = vars.v[1].clone();
    proto_vulcan!([match q { [[1 | h]] => { true, |t| { q == t, q != t } }, [2, [h]] => h == [3], 2 => [matche q { _ | 1 => matche q { x | [[t, 2 | _], t, ['b', x] | z] => [q] == true, [[] | y] | [] => , x => { x != [1, q, x] }, }, x => { conde { [x == [x], [[2, [], 1] | x] == [false, _, 1 | x]], true, [_ == x, [[q | q], 1 | x] == ['b', 3 | x]] }, [x == [q, 3], x == [_ | q], x == [[x, q | x], 2, [2, _]]] }, }, q == [x, q, 1 | true]], }, conde { [q == q, [x == [x, _], matche x { [['a', true, h], [x, 2, 3], [1, x | _] | "bc"] => x == [x, 3], [[3 | z]] => , }, [append(x, q, [1]), x != q, member(x, [3])]]], matche x { 2 => , z => { member(x, [1, 1]) }, }, x == q }, closure { [conde { q != q, [['a', q, q], ["a"]] == x }, conde { q == [[], _, []], q != q }] }])
}
pub fn case_437(vars: &Vars) -> InferredGoal<DU, DE, Goal<DU, DE>> {
    let q = vars.v[0].clone();
    let x = vars.v[1].clone();
    proto_vulcan!([match q { [[1 | h]] => { true, |t| { q == t, q != t } }, [2, [h]] => h == [3], 2 => [matche q { _ | 1 => matche q { x | [[t, 2 | _], t, ['b', x] | z] => [q] == true, [[] | y] | [] => , x => { x != [1, q, x] }, }, fresh_name_9 => { conde { [fresh_name_9 == [fresh_name_9], [[2, [], 1] | fresh_name_9] == [false, _, 1 | fresh_name_9]], true, [_ == fresh_name_9, [[q | q], 1 | fresh_name_9] == ['b', 3 | fresh_name_9]] }, [fresh_name_9 == [q, 3], fresh_name_9 == [_ | q], fresh_name_9 == [[fresh_name_9, q | fresh_name_9], 2, [2, _]]] }, }, q == [x, q, 1 | true]], }, conde { [q == q, [x == [x, _], matche x { [['a', true, h], [x, 2, 3], [1, x | _] | "bc"] => x == [x, 3], [[3 | z]] => , }, [append(x, q, [1]), x != q, member(x, [3])]]], matche x { 2 => , z => { member(x, [1, 1]) }, }, x == q }, closure { [conde { q != q, [['a', q, q], ["a"]] == x }, conde { q == [[], _, []], q != q }] }])
}
pub fn case_438(vars: &Vars) -> InferredGoal<DU, DE, Goal<DU, DE>> {
    let x = vars.v[0].clone();
    proto_vulcan!([|x| { [[x, 'a', x] == x, match x { [[h] | _] => { false }, [[_, 2] | y] => [x == [[y], 2 | x], member(x, [3, 3, 3])], [[y, [] | _], 2, 1] => { member(x, [3, 2, 3]), append(x, y, [2, 3]) }, }, [[2, 1] == x]], [false, x == [_, 2], [["a", x | x], [1, x, 3]] == x], conde { [[] == x, [[1, 1], [x, x, x] | x] == [x | x]], [2 | 2] == [[2], [], [x, 3 | x]], [x == _, member(x, [2])] } }, |z, t| { |z, t| { matche x { true | [[2, 1, t], [y, y, []]] => , }, z == [1, []] }, [append(x, x, [3, 3]), |z| { [] != _, [1, x, 'b'] == z, t == [[[]], [2, _, 2 | z], [1, 3, 1]] }], t == [3 | t] }, 2 == 2, closure { [x, [1, [], x], [2 | x]] != x }])
}
pub fn case_439(vars: &Vars) -> InferredGoal<DU, DE, Goal<DU, DE>> {
    let x = vars.v[0].clone();
    proto_vulcan!([|x| { [[x, 'a', x] == x, match x { [[h] | _] => { false }, [[_, 2] | y] => [x == [[y], 2 | x], member(x, [3, 3, 3])], [[y, [] | _], 2, 1] => { member(x, [3, 2, 3]), append(x, y, [2, 3]) }, }, [[2, 1] == x]], [false, x == [_, 2], [["a", x | x], [1, x, 3]] == x], conde { [[] == x, [[1, 1], [x, x, x] | x] == [x | x]], [2 | 2] == [[2], [], [x, 3 | x]], [x == _, member(x, [2])] } }, |z, t| { |z, fresh_name_9| { matche x { true | [[2, 1, t], [y, y, []]] => , }, z == [1, []] }, [append(x, x, [3, 3]), |z| { [] != _, [1, x, 'b'] == z, t == [[[]], [2, _, 2 | z], [1, 3, 1]] }], t == [3 | t] }, 2 == 2, closure { [x, [1, [], x], [2 | x]] != x }])
}
pub fn case_440(vars: &Vars) -> InferredGoal<DU, DE, Goal<DU, DE>> {
    let x = vars.v[0].clone();
    let y = vars.v[1].clone();
    proto_vulcan!([match [x, y | y] { z => [x == 3, conde { [conde { [2 == [[z, [], []], [x, y, y], [false, 1, z]], member(z, [])], [z == [3, []], false] }, false], conde { [_ != x, [y, 1, 2] == z], [y == [_, [], 2 | x], x == [3, []]] }, [[false], 2 == [[y, z, 2], y]] }], h => [[x != [1 | y], [h] == h, [[x], [2]] == [[h | y], 2]], [y, 3, [] | h] == y], }, [[[], y, _] != x, append(y, y, [1])], conde { [y == [y, x | x], conde { [true, [x | x] == x, [[3, 2, x | 1], [2, y, []] | x] == 2], [conde { [append(y, x, [1]), append(x, y, [2])], [y != [[], _], [y] != y] }, [1, [y, y], x | y] != y] }], [[y, 3, _] != y], false }])
}
pub fn case_441(vars: &Vars) -> InferredGoal<DU, DE, Goal<DU, DE>> {
    let x = vars.v[0].clone();
    let y = vars.v[1].clone();
    proto_vulcan!([match [x, y | y] { fresh_name_9 => [x == 3, conde { [conde { [2 == [[fresh_name_9, [], []], [x, y, y], [false, 1, fresh_name_9]], member(fresh_name_9, [])], [fresh_name_9 == [3, []], false] }, false], conde { [_ != x, [y, 1, 2] == fresh_name_9], [y == [_, [], 2 | x], x == [3, []]] }, [[false], 2 == [[y, fresh_name_9, 2], y]] }], h => [[x != [1 | y], [h] == h, [[x], [2]] == [[h | y], 2]], [y, 3, [] | h] == y], }, [[[], y, _] != x, append(y, y, [1])], conde { [y == [y, x | x], conde { [true, [x | x] == x, [[3, 2, x | 1], [2, y, []] | x] == 2], [conde { [append(y, x, [1]), append(x, y, [2])], [y != [[], _], [y] != y] }, [1, [y, y], x | y] != y] }], [[y, 3, _] != y], false }])
}
pub fn case_442(vars: &Vars) -> InferredGoal<DU, DE, Goal<DU, DE>> {
    let q = vars.v[0].clone();
    let x = vars.v[1].clone();
    proto_vulcan!([match [x, q, 2 | x] { [3, [2]] => [|y| { |t, y| { member(y, [2]) }, [[x, "a"], q, [q, 3 | y]] != [x] }, x == [x]], [[x, 3 | 1]] => [|z| { match 1 { 3 | h => , }, [[[]], 1] == 1, [1, x, _ | z] == q }, |h| { |z| { append(h, x, [1, 2]), member(x, [3, 2, 3]) } }], [z, [h, [] | y], true] => , }, closure { [[[_], [x | x]] == [_, [], 1], [_, x, x | x] != x] }])
}
pub fn case_443(vars: &Vars) -> InferredGoal<DU, DE, Goal<DU, DE>> {
    let q = vars.v[0].clone();
    let x = vars.v[1].clone();
    proto_vulcan!([match [x, q, 2 | x] { [3, [2]] => [|y| { |t, y| { member(y, [2]) }, [[x, "a"], q, [q, 3 | y]] != [x] }, x == [x]], [[fresh_name_9, 3 | 1]] => [|z| { match 1 { 3 | h => , }, [[[]], 1] == 1, [1, fresh_name_9, _ | z] == q }, |h| { |z| { append(h, fresh_name_9, [1, 2]), member(fresh_name_9, [3, 2, 3]) } }], [z, [h, [] | y], true] => , }, closure { [[[_], [x | x]] == [_, [], 1], [_, x, x | x] != x] }])
}
pub fn case_444(vars: &Vars) -> InferredGoal<DU, DE, Goal<DU, DE>> {
    let q = vars.v[0].clone();
    let x = vars.v[1].clone();
    proto_vulcan!([|x| { 1 == 2 }, closure { ["bc" == q, [_, 'a', 3] == x] }])
}
pub fn case_445(vars: &Vars) -> InferredGoal<DU, DE, Goal<DU, DE>> {
    let q = vars.v[0].clone();
    let x = vars.v[1].clone();
    proto_vulcan!([|fresh_name_9| { 1 == 2 }, closure { ["bc" == q, [_, 'a', 3] == x] }])
}
pub fn case_446(vars: &Vars) -> InferredGoal<DU, DE, Goal<DU, DE>> {
    let x = vars.v[0].clone();
    proto_vulcan!([match 1 { [['b', 2, 1], 2, [z, [], _]] => |x| { append(x, x, [3]), x == [x, [[]], ["a", x, x] | x] }, [[h, 2, []]] => , }, 3 == x])
}
pub fn case_447(vars: &Vars) -> InferredGoal<DU, DE, Goal<DU, DE>> {
    let x = vars.v[0].clone();
    proto_vulcan!([match 1 { [['b', 2, 1], 2, [z, [], _]] => |fresh_name_9| { append(fresh_name_9, fresh_name_9, [3]), fresh_name_9 == [fresh_name_9, [[]], ["a", fresh_name_9, fresh_name_9] | fresh_name_9] }, [[h, 2, []]] => , }, 3 == x])
}
pub fn case_448(vars: &Vars) -> InferredGoal<DU, DE, Goal<DU, DE>> {
    let x = vars.v[0].clone();
    proto_vulcan!([[[2, 2], 1, x] != [x], x == [1, []], |h| { |h, z| { |t| { "a" != h }, [x == 2, x != [x, h, h]] }, |t, z| { member(t, []) }, h == [false, "a"] }])
}
pub fn case_449(vars: &Vars) -> InferredGoal<DU, DE, Goal<DU, DE>> {
    let x = vars.v[0].clone();
    proto_vulcan!([[[2, 2], 1, x] != [x], x == [1, []], |h| { |h, fresh_name_9| { |t| { "a" != h }, [x == 2, x != [x, h, h]] }, |t, z| { member(t, []) }, h == [false, "a"] }])
}
pub fn case_450(vars: &Vars) -> InferredGoal<DU, DE, Goal<DU, DE>> {
    let x = vars.v[0].clone();
    let y = vars.v[1].clone();
    proto_vulcan!([x == [y, true, 3], |z| { [x == [3, z], y == z, |y| { [1, y | z] == z, z == [] }], x == y }, closure { [matche y { 3 => [[[2], [3], y] != _, [y, y | x] == x], }, |x, t| { [true] == y, append(y, x, []) }] }])
}
pub fn case_451(vars: &Vars) -> InferredGoal<DU, DE, Goal<DU, DE>> {
    let x = vars.v[0].clone();
    let y = vars.v[1].clone();
    proto_vulcan!([x == [y, true, 3], |z| { [x == [3, z], y == z, |y| { [1, y | z] == z, z == [] }], x == y }, closure { [matche y { 3 => [[[2], [3], y] != _, [y, y | x] == x], }, |fresh_name_9, t| { [true] == y, append(y, fresh_name_9, []) }] }])
}
pub fn case_452(vars: &Vars) -> InferredGoal<DU, DE, Goal<DU, DE>> {
    let x = vars.v[0].clone();
    let y = vars.v[1].clone();
    proto_vulcan!([conde { conde { y != [x, y, _], [matche x { [[t, 2, 3], 1] => append(y, x, []), [[z, h, h | z], [z, y | y], t | z] | 3 => , _ => x == ["bc", [], 1], }, [y, _] == y] }, |h| { y != [3], |t, h| { [3, h, x] == 2, [1 | y] == x, [h] == x }, [[1, 1, 1 | y] == x, [[h]] != x] } }, member(x, []), |x, t| { |h| { matche x { [[y, 2], [1 | h], [3, x]] => y != h, [[[], true, true], y] | [[2]] => { 1 == x }, 2 => [false, [y | x] == y], }, match y { [[3], 'a', [y, 'a']] => true, }, x == [[3, 2, x]] } }, closure { [[1, x] != y, matche y { true => 2 == x, 'b' | [_, [[], 2, y]] => , [[h], [y, _, 2]] => { true }, }] }])
}
pub fn case_453(vars: &Vars) -> InferredGoal<DU, DE, Goal<DU, DE>> {
    let x = vars.v[0].clone();
    let y = vars.v[1].clone();
    proto_vulcan!([conde { conde { y != [x, y, _], [matche x { [[t, 2, 3], 1] => append(y, x, []), [[z, h, h | z], [z, y | y], t | z] | 3 => , _ => x == ["bc", [], 1], }, [y, _] == y] }, |h| { y != [3], |t, h| { [3, h, x] == 2, [1 | y] == x, [h] == x }, [[1, 1, 1 | y] == x, [[h]] != x] } }, member(x, []), |x, t| { |h| { matche x { [[y, 2], [1 | fresh_name_9], [3, x]] => y != fresh_name_9, [[[], true, true], y] | [[2]] => { 1 == x }, 2 => [false, [y | x] == y], }, match y { [[3], 'a', [y, 'a']] => true, }, x == [[3, 2, x]] } }, closure { [[1, x] != y, matche y { true => 2 == x, 'b' | [_, [[], 2, y]] => , [[h], [y, _, 2]] => { true }, }] }])
}
pub fn case_454(vars: &Vars) -> InferredGoal<DU, DE, Goal<DU, DE>> {
    let x = vars.v[0].clone();
    let y = vars.v[1].clone();
    proto_vulcan!([matche x { [[_], [t | _]] | x => { append(y, y, [2, 2]) }, [[2, z], _, [2, t]] => { [[], "bc", [_, y] | y] == [1] }, }, [y != [y, 1], false]])
}
pub fn case_455(vars: &Vars) -> InferredGoal<DU, DE, Goal<DU, DE>> {
    let x = vars.v[0].clone();
    let y = vars.v[1].clone();
    proto_vulcan!([matche x { [[_], [t | _]] | x => { append(y, y, [2, 2]) }, [[2, z], _, [2, fresh_name_9]] => { [[], "bc", [_, y] | y] == [1] }, }, [y != [y, 1], false]])
}
pub fn case_456(vars: &Vars) -> InferredGoal<DU, DE, Goal<DU, DE>> {
    let x = vars.v[0].clone();
    proto_vulcan!([x == [3, x, 2], conde { [x == [[x, 3, 2 | x], [1, 'b', []] | "a"], conde { [[], 1, x] != x, matche x { 3 => [append(x, x, []), x == []], _ => x == 1, z | true => { x == [x, x, []] }, } }], [conde { [[x, 'a', []] == x, x == [_, 'b', _]], [conde { x == [[], [], x], x == [[[], x, x], [1, x]], [x == [x, x, _], true] }, x != [[false, x, 2]]], [[[1, x] == x], [[[x, x], [1, true | x]] == x]] }, [x, 2, x | x] == x], conde { [false == [1, x, x], match [_] { [[t, x | _]] => , }], [['a'] == x, append(x, x, [3, 1])], [x == [x], x == [x, x | x]] } }])
}
pub fn case_457(vars: &Vars) -> InferredGoal<DU, DE, Goal<DU, DE>> {
    let x = vars.v[0].clone();
    proto_vulcan!([x == [3, x, 2], conde { [x == [[x, 3, 2 | x], [1, 'b', []] | "a"], conde { [[], 1, x] != x, matche x { 3 => [append(x, x, []), x == []], _ => x == 1, z | true => { x == [x, x, []] }, } }], [conde { [[x, 'a', []] == x, x == [_, 'b', _]], [conde { x == [[], [], x], x == [[[], x, x], [1, x]], [x == [x, x, _], true] }, x != [[false, x, 2]]], [[[1, x] == x], [[[x, x], [1, true | x]] == x]] }, [x, 2, x | x] == x], conde { [false == [1, x, x], match [_] { [[fresh_name_9, x | _]] => , }], [['a'] == x, append(x, x, [3, 1])], [x == [x], x == [x, x | x]] } }])
}
pub fn case_458(vars: &Vars) -> InferredGoal<DU, DE, Goal<DU, DE>> {
    let q = vars.v[0].clone();
    let x = vars.v[1].clone();
    proto_vulcan!([[[q, 1, 1 | x]] == x, conde { [[x, x | 2], [3]] == x, [_, [], x | q] == x, [matche q { [[h, h, x | _], _, [x, [], h] | x] => , }, x != q] }, |t| { q != [3, [] | x], [x != t, [1 == q, [1, q | q] == q], matche t { [] => member(t, []), [[z | 'a'] | _] => { [[q], 2, 2 | q] != x }, }] }, closure { |x| { |x| { x == [2 | x] }, x == [_, 2, [q, x]] } }])
}
pub fn case_459(vars: &Vars) -> InferredGoal<DU, DE, Goal<DU, DE>> {
    let q = vars.v[0].clone();
    let x = vars.v[1].clone();
    proto_vulcan!([[[q, 1, 1 | x]] == x, conde { [[x, x | 2], [3]] == x, [_, [], x | q] == x, [matche q { [[h, h, x | _], _, [x, [], h] | x] => , }, x != q] }, |fresh_name_9| { q != [3, [] | x], [x != fresh_name_9, [1 == q, [1, q | q] == q], matche fresh_name_9 { [] => member(fresh_name_9, []), [[z | 'a'] | _] => { [[q], 2, 2 | q] != x }, }] }, closure { |x| { |x| { x == [2 | x] }, x == [_, 2, [q, x]] } }])
}
pub fn case_460(vars: &Vars) -> InferredGoal<DU, DE, Goal<DU, DE>> {
    let x = vars.v[0].clone();
    proto_vulcan!([[1 | x] == x, closure { [matche x { [[1, x, _]] => [x == [], member(x, [])], }, x == [x, [], false | x]] }])
}
pub fn case_461(vars: &Vars) -> InferredGoal<DU, DE, Goal<DU, DE>> {
    let x = vars.v[0].clone();
    proto_vulcan!([[1 | x] == x, closure { [matche x { [[1, fresh_name_9, _]] => [fresh_name_9 == [], member(fresh_name_9, [])], }, x == [x, [], false | x]] }])
}
pub fn case_462(vars: &Vars) -> InferredGoal<DU, DE, Goal<DU, DE>> {
    let x = vars.v[0].clone();
    let y = vars.v[1].clone();
    proto_vulcan!([match [y] { z => false, }])
}
pub fn case_463(vars: &Vars) -> InferredGoal<DU, DE, Goal<DU, DE>> {
    let x = vars.v[0].clone();
    let y = vars.v[1].clone();
    proto_vulcan!([match [y] { fresh_name_9 => false, }])
}
pub fn case_464(vars: &Vars) -> InferredGoal<DU, DE, Goal<DU, DE>> {
    let x = vars.v[0].clone();
    proto_vulcan!([x == [1], closure { |x| { ["bc", x, x | x] == x, x != [[], x, 2] } }])
}
pub fn case_465(vars: &Vars) -> InferredGoal<DU, DE, Goal<DU, DE>> {
    let x = vars.v[0].clone();
    proto_vulcan!([x == [1], closure { |fresh_name_9| { ["bc", fresh_name_9, fresh_name_9 | fresh_name_9] == fresh_name_9, fresh_name_9 != [[], fresh_name_9, 2] } }])
}
pub fn case_466(vars: &Vars) -> InferredGoal<DU, DE, Goal<DU, DE>> {
    let x = vars.v[0].clone();
    let y = vars.v[1].clone();
    proto_vulcan!([conde { [y == x, x == [1, y]], [|y, x| { matche x { _ => { y == [[]], 1 == y }, [[z, 3]] | [] => [[x, 3, x | 'b'] != y, true], } }, false] }, |z| { 1 == y }])
}
pub fn case_467(vars: &Vars) -> InferredGoal<DU, DE, Goal<DU, DE>> {
    let x = vars.v[0].clone();
    let y = vars.v[1].clone();
    proto_vulcan!([conde { [y == x, x == [1, y]], [|y, x| { matche x { _ => { y == [[]], 1 == y }, [[z, 3]] | [] => [[x, 3, x | 'b'] != y, true], } }, false] }, |fresh_name_9| { 1 == y }])
}
pub fn case_468(vars: &Vars) -> InferredGoal<DU, DE, Goal<DU, DE>> {
    let x = vars.v[0].clone();
    proto_vulcan!([[1 | x] == x, [[2 | x]] == x, conde { [|x| { |h, t| { append(x, x, [3, 1]), t == x }, matche x { [[], [2, false | z]] => { [z, x] == [x], z == [z | z] }, t => member(x, [2, 3]), }, x != x }, |t| { [x == _, x == [1], [3 | t] != t], x == [_ | "bc"], matche 2 { [t] => , [3, [t, z, "bc" | _], [h, h]] | 'b' => , } }], [1 != x, [match x { y | [[_, 3, x], [x, 2, 1], [h, "bc", [] | z]] => , }, match [x | x] { [[[], _ | _], [2, _]] => { x == [1] }, }]], [x == [x | 2], x != [[_, 2], [[] | x], x]] }])
}
pub fn case_469(vars: &Vars) -> InferredGoal<DU, DE, Goal<DU, DE>> {
    let x = vars.v[0].clone();
    proto_vulcan!([[1 | x] == x, [[2 | x]] == x, conde { [|x| { |h, t| { append(x, x, [3, 1]), t == x }, matche x { [[], [2, false | z]] => { [z, x] == [x], z == [z | z] }, fresh_name_9 => member(x, [2, 3]), }, x != x }, |t| { [x == _, x == [1], [3 | t] != t], x == [_ | "bc"], matche 2 { [t] => , [3, [t, z, "bc" | _], [h, h]] | 'b' => , } }], [1 != x, [match x { y | [[_, 3, x], [x, 2, 1], [h, "bc", [] | z]] => , }, match [x | x] { [[[], _ | _], [2, _]] => { x == [1] }, }]], [x == [x | 2], x != [[_, 2], [[] | x], x]] }])
}
pub fn case_470(vars: &Vars) -> InferredGoal<DU, DE, Goal<DU, DE>> {
    let x = vars.v[0].clone();
    proto_vulcan!([[matche x { x => { match x { [[3 | z], [[]], x] => , [y, [[], 2]] | y => , 2 => , }, x == [[x, x, 2]] }, [[[], t, x | t], y, [y, [], 1] | 2] => { [member(x, [3, 2, 3]), x == y], t != y }, }, x == 1], closure { [[match x { h => , }, x == [[x, 'b' | x], [2, 2], x | x], x == x], conde { match ["bc", x, _] { [[false, _, [] | _], _, "bc"] => member(x, [3, 1, 1]), t => t == "bc", }, [|z, h| { [z, "a", h] == x }, 3 == x] }] }])
}
pub fn case_471(vars: &Vars) -> InferredGoal<DU, DE, Goal<DU, DE>> {
    let x = vars.v[0].clone();
    proto_vulcan!([[matche x { x => { match x { [[3 | z], [[]], x] => , [y, [[], 2]] | y => , 2 => , }, x == [[x, x, 2]] }, [[[], t, x | t], fresh_name_9, [fresh_name_9, [], 1] | 2] => { [member(x, [3, 2, 3]), x == fresh_name_9], t != fresh_name_9 }, }, x == 1], closure { [[match x { h => , }, x == [[x, 'b' | x], [2, 2], x | x], x == x], conde { match ["bc", x, _] { [[false, _, [] | _], _, "bc"] => member(x, [3, 1, 1]), t => t == "bc", }, [|z, h| { [z, "a", h] == x }, 3 == x] }] }])
}
pub fn case_472(vars: &Vars) -> InferredGoal<DU, DE, Goal<DU, DE>> {
    let x = vars.v[0].clone();
    let y = vars.v[1].clone();
    proto_vulcan!([[|t, h| { [t, [y | h], [h, x, h] | x] == t, conde { [h] == [[[], 2, 3], 3, [1]], [[x, 1] != t, true] }, [[2, [], y] == t, x == [x, []]] }, [x, [], 3] != x, match x { 'b' | [h, [1, y, 2 | t]] => |h, x| { [_, []] == x, 1 == h }, y => , t => { x == [2, x], [[x] != t] }, }], conde { conde { x == [y, 1], [append(y, y, [1, 1]), match y { 'a' => , }] }, y == [[x, y, _], [1]] }])
}
pub fn case_473(vars: &Vars) -> InferredGoal<DU, DE, Goal<DU, DE>> {
    let x = vars.v[0].clone();
    let y = vars.v[1].clone();
    proto_vulcan!([[|t, h| { [t, [y | h], [h, x, h] | x] == t, conde { [h] == [[[], 2, 3], 3, [1]], [[x, 1] != t, true] }, [[2, [], y] == t, x == [x, []]] }, [x, [], 3] != x, match x { 'b' | [h, [1, y, 2 | t]] => |h, x| { [_, []] == x, 1 == h }, fresh_name_9 => , t => { x == [2, x], [[x] != t] }, }], conde { conde { x == [y, 1], [append(y, y, [1, 1]), match y { 'a' => , }] }, y == [[x, y, _], [1]] }])
}
pub fn case_474(vars: &Vars) -> InferredGoal<DU, DE, Goal<DU, DE>> {
    let q = vars.v[0].clone();
    let x = vars.v[1].clone();
    proto_vulcan!([[1, x] != [2, [q, 1, q | x], ["bc"] | x], |y, x| { matche q { [[[], x, x], [1], t | y] | 2 => { [1, [1, _, q]] == q, conde { [q, 3, q] == q, [[q | 1] == q, 3 == q], [q] == q } }, }, conde { [[q == [1, q]], [x == x, x == x, x == 1]], conde { [false, false], [true == 2, y == [y, x, true | 'a']] }, [conde { [x == [x, [], q], false], [q == [[[]]], q != 2], [_ == q, y == 2] }, y == q] }, [x | x] == [1] }, [|x, h| { h == [x, q, x], [[3] == x, true, h == 2] }]])
}
pub fn case_475(vars: &Vars) -> InferredGoal<DU, DE, Goal<DU, DE>> {
    let q = vars.v[0].clone();
    let x = vars.v[1].clone();
    proto_vulcan!([[1, x] != [2, [q, 1, q | x], ["bc"] | x], |y, x| { matche q { [[[], x, x], [1], t | y] | 2 => { [1, [1, _, q]] == q, conde { [q, 3, q] == q, [[q | 1] == q, 3 == q], [q] == q } }, }, conde { [[q == [1, q]], [x == x, x == x, x == 1]], conde { [false, false], [true == 2, y == [y, x, true | 'a']] }, [conde { [x == [x, [], q], false], [q == [[[]]], q != 2], [_ == q, y == 2] }, y == q] }, [x | x] == [1] }, [|x, fresh_name_9| { fresh_name_9 == [x, q, x], [[3] == x, true, fresh_name_9 == 2] }]])
}
pub fn case_476(vars: &Vars) -> InferredGoal<DU, DE, Goal<DU, DE>> {
    let x = vars.v[0].clone();
    let y = vars.v[1].clone();
    proto_vulcan!([conde { matche [[], x] { [] => { match y { [1, [t, t | x] | h] => { [[y]] != 2, t == h }, } }, }, [[x == 3], [conde { [2 == y, [[x] | y] == [[x, 2, "a" | y], true | x]], [[_], [x, y]] == [[3, 1], [x | y]], [append(y, x, [1]), [x, "bc"] == x] }, |z, y| { append(y, z, [3]), member(y, [1, 2]), [2, 2, 'b' | x] == y }]] }, ["a" | y] == [[2, y, x | y], true, [y] | y]])
}
pub fn case_477(vars: &Vars) -> InferredGoal<DU, DE, Goal<DU, DE>> {
    let x = vars.v[0].clone();
    let y = vars.v[1].clone();
    proto_vulcan!([conde { matche [[], x] { [] => { match y { [1, [t, t | x] | h] => { [[y]] != 2, t == h }, } }, }, [[x == 3], [conde { [2 == y, [[x] | y] == [[x, 2, "a" | y], true | x]], [[_], [x, y]] == [[3, 1], [x | y]], [append(y, x, [1]), [x, "bc"] == x] }, |z, fresh_name_9| { append(fresh_name_9, z, [3]), member(fresh_name_9, [1, 2]), [2, 2, 'b' | x] == fresh_name_9 }]] }, ["a" | y] == [[2, y, x | y], true, [y] | y]])
}
pub fn case_478(vars: &Vars) -> InferredGoal<DU, DE, Goal<DU, DE>> {
    let q = vars.v[0].clone();
    let x = vars.v[1].clone();
    proto_vulcan!([x != _, true, conde { [_, x, 3] == 1, [q, [x], [2, "a", 3 | q]] == [q, [_, 2], q], [[x == q, |t, z| { q != [_, false | z], [2, x] == x }, [q == q, q == 2]], |h| { conde { [_ == [], [q] == q], [q == [2, h, x | 1], member(q, [1, 1])], [[] == x, [x, q, 2] != q] }, conde { _ != [3, 1, x], q != 3, [2] == q } }] }])
}
pub fn case_479(vars: &Vars) -> InferredGoal<DU, DE, Goal<DU, DE>> {
    let q = vars.v[0].clone();
    let x = vars.v[1].clone();
    proto_vulcan!([x != _, true, conde { [_, x, 3] == 1, [q, [x], [2, "a", 3 | q]] == [q, [_, 2], q], [[x == q, |fresh_name_9, z| { q != [_, false | z], [2, x] == x }, [q == q, q == 2]], |h| { conde { [_ == [], [q] == q], [q == [2, h, x | 1], member(q, [1, 1])], [[] == x, [x, q, 2] != q] }, conde { _ != [3, 1, x], q != 3, [2] == q } }] }])
}
pub fn case_480(vars: &Vars) -> InferredGoal<DU, DE, Goal<DU, DE>> {
    let q = vars.v[0].clone();
    let x = vars.v[1].clone();
    proto_vulcan!([q != [_ | x], |t, x| { [x == [3, t, x]], [t, [], "a"] == x }, [q == x]])
}
pub fn case_481(vars: &Vars) -> InferredGoal<DU, DE, Goal<DU, DE>> {
    let q = vars.v[0].clone();
    let x = vars.v[1].clone();
    proto_vulcan!([q != [_ | x], |fresh_name_9, x| { [x == [3, fresh_name_9, x]], [fresh_name_9, [], "a"] == x }, [q == x]])
}
pub fn case_482(vars: &Vars) -> InferredGoal<DU, DE, Goal<DU, DE>> {
    let q = vars.v[0].clone();
    let x = vars.v[1].clone();
    proto_vulcan!([matche q { [1, y, y] => , [[_, h | y], [3 | x], [1, 2, _]] | _ => [q == [q, 3 | q], [q] == q], }, x != q])
}
pub fn case_483(vars: &Vars) -> InferredGoal<DU, DE, Goal<DU, DE>> {
    let q = vars.v[0].clone();
    let x = vars.v[1].clone();
    proto_vulcan!([matche q { [1, fresh_name_9, fresh_name_9] => , [[_, h | y], [3 | x], [1, 2, _]] | _ => [q == [q, 3 | q], [q] == q], }, x != q])
}
pub fn case_484(vars: &Vars) -> InferredGoal<DU, DE, Goal<DU, DE>> {
    let x = vars.v[0].clone();
    let y = vars.v[1].clone();
    proto_vulcan!([|x, y| { x != 1, match y { [[1, x]] | [[], t, [1, z]] => , } }, conde { [matche x { [[false, false], [h]] => { [y] == h }, [[2, [], []]] | [[true, t, y | false]] => , [[1, 'b'], [2, x, h | x], [[]]] => { [x == 1, false] }, }, |h| { |y, h| { append(x, y, [2, 2]), y == ["bc", _] }, |h| { [[h], x] != h, [x] == y, h == x }, [true, h != x] }], [match x { x => y == [_, y], [[3 | x], 1] | [[_, 1, x | z], [x, x]] => , }, |h| { x == ["a", _, _], conde { y == [[], x], [true, [[x, 3, y]] != _], [x != [1, [] | 2], [[2], [_, y]] == [[x]]] }, match x { [[1, 2, []]] => [false, [] == x], 1 => , [[2], [t | t]] | x => false, } }], [match [x] { [[y], h] | 3 => |t, h| { [[]] == h }, 1 => [[x == x, y == [[1, x | x], [1, 2 | y] | y]], x == x], 3 => , }, x == [x, x | x]] }, true])
}
pub fn case_485(vars: &Vars) -> InferredGoal<DU, DE, Goal<DU, DE>> {
    let x = vars.v[0].clone();
    let y = vars.v[1].clone();
    proto_vulcan!([|x, y| { x != 1, match y { [[1, x]] | [[], t, [1, z]] => , } }, conde { [matche x { [[false, false], [h]] => { [y] == h }, [[2, [], []]] | [[true, t, y | false]] => , [[1, 'b'], [2, x, h | x], [[]]] => { [x == 1, false] }, }, |h| { |fresh_name_9, h| { append(x, fresh_name_9, [2, 2]), fresh_name_9 == ["bc", _] }, |h| { [[h], x] != h, [x] == y, h == x }, [true, h != x] }], [match x { x => y == [_, y], [[3 | x], 1] | [[_, 1, x | z], [x, x]] => , }, |h| { x == ["a", _, _], conde { y == [[], x], [true, [[x, 3, y]] != _], [x != [1, [] | 2], [[2], [_, y]] == [[x]]] }, match x { [[1, 2, []]] => [false, [] == x], 1 => , [[2], [t | t]] | x => false, } }], [match [x] { [[y], h] | 3 => |t, h| { [[]] == h }, 1 => [[x == x, y == [[1, x | x], [1, 2 | y] | y]], x == x], 3 => , }, x == [x, x | x]] }, true])
}
pub fn case_486(vars: &Vars) -> InferredGoal<DU, DE, Goal<DU, DE>> {
    let x = vars.v[0].clone();
    let y = vars.v[1].clone();
    proto_vulcan!([|y, t| { [[], x, "bc"] == t }, |y| { |z| { matche y { [[z, 1, "bc"], _, [t, z, 1]] => [[2, t, [] | y] == z, _ == z], x => [append(y, x, []), member(y, [1, 3])], }, z != y }, conde { [_, 2, 1] == x, |z| { [[z], [y, false, 1]] == z }, [2, [1]] != x } }, |y| { match y { ['b'] => , y => , 1 => , } }, closure { [conde { [x == [[y, 2, 2], ['a', 1, _ | x]], [3, 1] == [[_ | y] | 'a']], false }, y == [y, x]] }])
}
pub fn case_487(vars: &Vars) -> InferredGoal<DU, DE, Goal<DU, DE>> {
    let x = vars.v[0].clone();
    let y = vars.v[1].clone();
    proto_vulcan!([|y, t| { [[], x, "bc"] == t }, |y| { |z| { matche y { [[z, 1, "bc"], _, [t, z, 1]] => [[2, t, [] | y] == z, _ == z], x => [append(y, x, []), member(y, [1, 3])], }, z != y }, conde { [_, 2, 1] == x, |z| { [[z], [y, false, 1]] == z }, [2, [1]] != x } }, |y| { match y { ['b'] => , fresh_name_9 => , 1 => , } }, closure { [conde { [x == [[y, 2, 2], ['a', 1, _ | x]], [3, 1] == [[_ | y] | 'a']], false }, y == [y, x]] }])
}
pub fn case_488(vars: &Vars) -> InferredGoal<DU, DE, Goal<DU, DE>> {
    let q = vars.v[0].clone();
    let x = vars.v[1].clone();
    proto_vulcan!([match [x, x, x] { [[3, y | x] | z] | [["bc"]] => , _ => { q == [1, q, [x, x]] }, [1, _ | z] | _ => , }, |h| { conde { [q != 1, false], conde { [1, q, q] != q, [2, [2, h], [q, 2, x | x] | x] == h, [1 == [], 3 == q] } }, h != q }])
}
pub fn case_489(vars: &Vars) -> InferredGoal<DU, DE, Goal<DU, DE>> {
    let q = vars.v[0].clone();
    let x = vars.v[1].clone();
    proto_vulcan!([match [x, x, x] { [[3, y | x] | z] | [["bc"]] => , _ => { q == [1, q, [x, x]] }, [1, _ | z] | _ => , }, |fresh_name_9| { conde { [q != 1, false], conde { [1, q, q] != q, [2, [2, fresh_name_9], [q, 2, x | x] | x] == fresh_name_9, [1 == [], 3 == q] } }, fresh_name_9 != q }])
}
pub fn case_490(vars: &Vars) -> InferredGoal<DU, DE, Goal<DU, DE>> {
    let x = vars.v[0].clone();
    proto_vulcan!([match x { [[y | z], "a"] | [] => matche ['a', _ | x] { [[true, _, []] | t] => , [[t | 1], [1, "a", y | _] | false] => [3, 1] == [[x], [[], _, 2 | y]], y | [_ | _] => , }, }, x == x, conde { [[x, 1] != x, matche x { h => , [['b', y | z], h] => , [[3 | t], 2, [] | 1] => , }], [x != 1, match x { 1 => |z, t| { [true, 2 | t] == x, append(z, x, [2, 3]) }, y => { conde { [y == ['b' | y], 2 != y], [x == [], y == [_]] }, y != 1 }, }] }, closure { [x == [1, _, 1], [x != x, matche ["a", 2, 3 | x] { _ => 3 == 'a', 1 => , [] | [3, [1, 2, y] | _] => , }]] }])
}
pub fn case_491(vars: &Vars) -> InferredGoal<DU, DE, Goal<DU, DE>> {
    let x = vars.v[0].clone();
    proto_vulcan!([match x { [[y | z], "a"] | [] => matche ['a', _ | x] { [[true, _, []] | t] => , [[t | 1], [1, "a", y | _] | false] => [3, 1] == [[x], [[], _, 2 | y]], y | [_ | _] => , }, }, x == x, conde { [[x, 1] != x, matche x { fresh_name_9 => , [['b', y | z], h] => , [[3 | t], 2, [] | 1] => , }], [x != 1, match x { 1 => |z, t| { [true, 2 | t] == x, append(z, x, [2, 3]) }, y => { conde { [y == ['b' | y], 2 != y], [x == [], y == [_]] }, y != 1 }, }] }, closure { [x == [1, _, 1], [x != x, matche ["a", 2, 3 | x] { _ => 3 == 'a', 1 => , [] | [3, [1, 2, y] | _] => , }]] }])
}
pub fn case_492(vars: &Vars) -> InferredGoal<DU, DE, Goal<DU, DE>> {
    let q = vars.v[0].clone();
    let x = vars.v[1].clone();
    proto_vulcan!([matche x { [[], ["a", _, [] | t]] => , [[[], x, 3], [2, 2, []] | _] | [[_ | y], [x, h, "bc" | x], [_ | _]] => , 'b' => { x != [q, [q, 3, 2 | x], [q]], |z, h| { z == [h, 2 | x], matche q { false => , }, [[z], [q, 1], 'a' | q] == [1, h] } }, }, q != q])
}
pub fn case_493(vars: &Vars) -> InferredGoal<DU, DE, Goal<DU, DE>> {
    let q = vars.v[0].clone();
    let x = vars.v[1].clone();
    proto_vulcan!([matche x { [[], ["a", _, [] | t]] => , [[[], x, 3], [2, 2, []] | _] | [[_ | y], [x, h, "bc" | x], [_ | _]] => , 'b' => { x != [q, [q, 3, 2 | x], [q]], |z, fresh_name_9| { z == [fresh_name_9, 2 | x], matche q { false => , }, [[z], [q, 1], 'a' | q] == [1, fresh_name_9] } }, }, q != q])
}
pub fn case_494(vars: &Vars) -> InferredGoal<DU, DE, Goal<DU, DE>> {
    let x = vars.v[0].clone();
    proto_vulcan!([[[x, 'a'], [], [x, x, x | x] | x] != 1, closure { |h| { [3 == h], [h, 3, [[], 2]] == x, match x { [['a', y]] | [[3 | _], [[], 1]] => , [_, 1, 1 | _] => h == [1, h], 1 => [h != 2, x == [_, x | h]], } } }])
}
pub fn case_495(vars: &Vars) -> InferredGoal<DU, DE, Goal<DU, DE>> {
    let x = vars.v[0].clone();
    proto_vulcan!([[[x, 'a'], [], [x, x, x | x] | x] != 1, closure { |fresh_name_9| { [3 == fresh_name_9], [fresh_name_9, 3, [[], 2]] == x, match x { [['a', y]] | [[3 | _], [[], 1]] => , [_, 1, 1 | _] => fresh_name_9 == [1, fresh_name_9], 1 => [fresh_name_9 != 2, x == [_, x | fresh_name_9]], } } }])
}
pub fn case_496(vars: &Vars) -> InferredGoal<DU, DE, Goal<DU, DE>> {
    let x = vars.v[0].clone();
    proto_vulcan!([[append(x, x, []), [2 | x] == 1], closure { |y| { member(y, [2, 2, 1]) } }])
}
pub fn case_497(vars: &Vars) -> InferredGoal<DU, DE, Goal<DU, DE>> {
    let x = vars.v[0].clone();
    proto_vulcan!([[append(x, x, []), [2 | x] == 1], closure { |fresh_name_9| { member(fresh_name_9, [2, 2, 1]) } }])
}
pub fn case_498(vars: &Vars) -> InferredGoal<DU, DE, Goal<DU, DE>> {
    let x = vars.v[0].clone();
    let y = vars.v[1].clone();
    proto_vulcan!([y == true, matche y { [t, [1, z]] => [2, 3, 2 | x] == x, [h] => { [y, 2, h] == y }, 3 => , }])
}
pub fn case_499(vars: &Vars) -> InferredGoal<DU, DE, Goal<DU, DE>> {
    let x = vars.v[0].clone();
    let y = vars.v[1].clone();
    proto_vulcan!([y == true, matche y { [fresh_name_9, [1, z]] => [2, 3, 2 | x] == x, [h] => { [y, 2, h] == y }, 3 => , }])
}
pub fn case_500(vars: &Vars) -> InferredGoal<DU, DE, Goal<DU, DE>> {
    let x = vars.v[0].clone();
    let y = vars.v[1].clone();
    proto_vulcan!([|z, x| { [x != x] }, |z| { y != _, [y, _ | x] == 3 }, closure { |y| { |z| { x != [_, z, y | y], [3, 1 | z] == y } } }])
}
pub fn case_501(vars: &Vars) -> InferredGoal<DU, DE, Goal<DU, DE>> {
    let x = vars.v[0].clone();
    let y = vars.v[1].clone();
    proto_vulcan!([|z, x| { [x != x] }, |z| { y != _, [y, _ | x] == 3 }, closure { |fresh_name_9| { |z| { x != [_, z, fresh_name_9 | fresh_name_9], [3, 1 | z] == fresh_name_9 } } }])
}
pub fn case_502(vars: &Vars) -> InferredGoal<DU, DE, Goal<DU, DE>> {
    let q = vars.v[0].clone();
    let x = vars.v[1].clone();
    proto_vulcan!([[[x | _] != q], x == x, closure { [match _ { x => , }, x == 1] }])
}
pub fn case_503(vars: &Vars) -> InferredGoal<DU, DE, Goal<DU, DE>> {
    let q = vars.v[0].clone();
    let x = vars.v[1].clone();
    proto_vulcan!([[[x | _] != q], x == x, closure { [match _ { fresh_name_9 => , }, x == 1] }])
}
pub fn case_504(vars: &Vars) -> InferredGoal<DU, DE, Goal<DU, DE>> {
    let q = vars.v[0].clone();
    let x = vars.v[1].clone();
    proto_vulcan!([false, q == q, closure { conde { [match q { 3 => { q == [2, _ | x] }, }, |x| { false, append(q, x, [1, 2]) }], [q != q, conde { _ == q, x == [], [q] == x }], [|h| { [[1 | q], []] == [q, q, q], q == [x, h] }, conde { [q == q, q != q], [false, q == [3, q, []]] }] } }])
}
pub fn case_505(vars: &Vars) -> InferredGoal<DU, DE, Goal<DU, DE>> {
    let q = vars.v[0].clone();
    let x = vars.v[1].clone();
    proto_vulcan!([false, q == q, closure { conde { [match q { 3 => { q == [2, _ | x] }, }, |x| { false, append(q, x, [1, 2]) }], [q != q, conde { _ == q, x == [], [q] == x }], [|fresh_name_9| { [[1 | q], []] == [q, q, q], q == [x, fresh_name_9] }, conde { [q == q, q != q], [false, q == [3, q, []]] }] } }])
}
pub fn case_506(vars: &Vars) -> InferredGoal<DU, DE, Goal<DU, DE>> {
    let x = vars.v[0].clone();
    proto_vulcan!([match x { h => [x == h, 2 == h], 2 => , [[2, 1]] | [[t, true]] => , }])
}
pub fn case_507(vars: &Vars) -> InferredGoal<DU, DE, Goal<DU, DE>> {
    let x = vars.v[0].clone();
    proto_vulcan!([match x { fresh_name_9 => [x == fresh_name_9, 2 == fresh_name_9], 2 => , [[2, 1]] | [[t, true]] => , }])
}
pub fn case_508(vars: &Vars) -> InferredGoal<DU, DE, Goal<DU, DE>> {
    let q = vars.v[0].clone();
    let x = vars.v[1].clone();
    proto_vulcan!([|h, y| { q != q, append(q, y, []) }, closure { |y| { [[q, x | 1], ['a', 3, []] | y] != [], [2 != q, member(y, [2])] } }])
}
pub fn case_509(vars: &Vars) -> InferredGoal<DU, DE, Goal<DU, DE>> {
    let q = vars.v[0].clone();
    let x = vars.v[1].clone();
    proto_vulcan!([|fresh_name_9, y| { q != q, append(q, y, []) }, closure { |y| { [[q, x | 1], ['a', 3, []] | y] != [], [2 != q, member(y, [2])] } }])
}
pub fn case_510(vars: &Vars) -> InferredGoal<DU, DE, Goal<DU, DE>> {
    let q = vars.v[0].clone();
    let x = vars.v[1].clone();
    proto_vulcan!([q == [[], [[]], []], closure { [conde { [x != x, [q == [q, 2, 1]]], [matche x { [t, [false, t], []] => , }, [2, x] == q] }, [1] == q] }])
}
pub fn case_511(vars: &Vars) -> InferredGoal<DU, DE, Goal<DU, DE>> {
    let q = vars.v[0].clone();
    let x = vars.v[1].clone();
    proto_vulcan!([q == [[], [[]], []], closure { [conde { [x != x, [q == [q, 2, 1]]], [matche x { [fresh_name_9, [false, fresh_name_9], []] => , }, [2, x] == q] }, [1] == q] }])
}
pub fn case_512(vars: &Vars) -> InferredGoal<DU, DE, Goal<DU, DE>> {
    let x = vars.v[0].clone();
    let y = vars.v[1].clone();
    proto_vulcan!([conde { [|x| { 'a' != x, x == [2] }, 2 == y], x == [_, ['b', 1, []] | 2] }, closure { [conde { [[x, x, y | x] == x, y != 2], [false, x == y], [|t| { true == x, [2, 1, []] == x, true }, 1 != y] }, true] }])
}
pub fn case_513(vars: &Vars) -> InferredGoal<DU, DE, Goal<DU, DE>> {
    let x = vars.v[0].clone();
    let y = vars.v[1].clone();
    proto_vulcan!([conde { [|fresh_name_9| { 'a' != fresh_name_9, fresh_name_9 == [2] }, 2 == y], x == [_, ['b', 1, []] | 2] }, closure { [conde { [[x, x, y | x] == x, y != 2], [false, x == y], [|t| { true == x, [2, 1, []] == x, true }, 1 != y] }, true] }])
}
pub fn case_514(vars: &Vars) -> InferredGoal<DU, DE, Goal<DU, DE>> {
    let q = vars.v[0].clone();
    let x = vars.v[1].clone();
    proto_vulcan!([|h, t| { [[1, q, 'a'] | x] == h, matche t { 1 => { [h, x, 1 | x] == x }, } }, closure { [x == [], x == [x, _ | q]] }])
}
pub fn case_515(vars: &Vars) -> InferredGoal<DU, DE, Goal<DU, DE>> {
    let q = vars.v[0].clone();
    let x = vars.v[1].clone();
    proto_vulcan!([|h, fresh_name_9| { [[1, q, 'a'] | x] == h, matche fresh_name_9 { 1 => { [h, x, 1 | x] == x }, } }, closure { [x == [], x == [x, _ | q]] }])
}
pub fn case_516(vars: &Vars) -> InferredGoal<DU, DE, Goal<DU, DE>> {
    let x = vars.v[0].clone();
    proto_vulcan!([matche x { [[t]] => , [[2, y, 1], [t]] | [true] => , }, 3 == x])
}
pub fn case_517(vars: &Vars) -> InferredGoal<DU, DE, Goal<DU, DE>> {
    let x = vars.v[0].clone();
    proto_vulcan!([matche x { [[fresh_name_9]] => , [[2, y, 1], [t]] | [true] => , }, 3 == x])
}
pub fn case_518(vars: &Vars) -> InferredGoal<DU, DE, Goal<DU, DE>> {
    let q = vars.v[0].clone();
    let x = vars.v[1].clone();
    proto_vulcan!([|h, x| { false == h, [h == [[]]] }, [1, _] == x, append(x, q, [])])
}
pub fn case_519(vars: &Vars) -> InferredGoal<DU, DE, Goal<DU, DE>> {
    let q = vars.v[0].clone();
    let x = vars.v[1].clone();
    proto_vulcan!([|h, fresh_name_9| { false == h, [h == [[]]] }, [1, _] == x, append(x, q, [])])
}
pub fn case_520(vars: &Vars) -> InferredGoal<DU, DE, Goal<DU, DE>> {
    let q = vars.v[0].clone();
    let x = vars.v[1].clone();
    proto_vulcan!([match x { [[z, 2] | h] | _ => [|h| { [3, h | "a"] == x }, conde { |x| { x == q, x != x }, q == x, [[3, 1 | x], [1, "a"], x] == [q, x, x] }], }, [x == x, [|t| { t != x, [_] != 1, member(q, [1]) }], |h| { [h, h, "bc"] == q }]])
}
pub fn case_521(vars: &Vars) -> InferredGoal<DU, DE, Goal<DU, DE>> {
    let q = vars.v[0].clone();
    let x = vars.v[1].clone();
    proto_vulcan!([match x { [[z, 2] | h] | _ => [|h| { [3, h | "a"] == x }, conde { |fresh_name_9| { fresh_name_9 == q, fresh_name_9 != fresh_name_9 }, q == x, [[3, 1 | x], [1, "a"], x] == [q, x, x] }], }, [x == x, [|t| { t != x, [_] != 1, member(q, [1]) }], |h| { [h, h, "bc"] == q }]])
}
pub fn case_522(vars: &Vars) -> InferredGoal<DU, DE, Goal<DU, DE>> {
    let x = vars.v[0].clone();
    proto_vulcan!([_ == x, closure { [2 == x, [|y| { x == _ }]] }])
}
pub fn case_523(vars: &Vars) -> InferredGoal<DU, DE, Goal<DU, DE>> {
    let x = vars.v[0].clone();
    proto_vulcan!([_ == x, closure { [2 == x, [|fresh_name_9| { x == _ }]] }])
}
pub fn case_524(vars: &Vars) -> InferredGoal<DU, DE, Goal<DU, DE>> {
    let x = vars.v[0].clone();
    proto_vulcan!([|z| { match _ { ['a', [_, 1, 1], [h, []]] => [|y| { append(h, z, []), member(z, [2, 3]) }, x == 3], }, 1 != z }, |z, t| { 2 == t, z == [1, [], 1], |y| { [[_, y, 2 | 1], t, [y, 2, []]] == z, ['a' == x], match t { [[h | 'b'], 3, [2, z, 1 | 1] | t] => [true, x == [[]]], 'b' => , z | [x, [1, 1, _ | t] | y] => , } } }, x == x])
}
pub fn case_525(vars: &Vars) -> InferredGoal<DU, DE, Goal<DU, DE>> {
    let x = vars.v[0].clone();
    proto_vulcan!([|z| { match _ { ['a', [_, 1, 1], [h, []]] => [|y| { append(h, z, []), member(z, [2, 3]) }, x == 3], }, 1 != z }, |z, t| { 2 == t, z == [1, [], 1], |y| { [[_, y, 2 | 1], t, [y, 2, []]] == z, ['a' == x], match t { [[h | 'b'], 3, [2, z, 1 | 1] | fresh_name_9] => [true, x == [[]]], 'b' => , z | [x, [1, 1, _ | t] | y] => , } } }, x == x])
}
pub fn case_526(vars: &Vars) -> InferredGoal<DU, DE, Goal<DU, DE>> {
    let x = vars.v[0].clone();
    proto_vulcan!([conde { x == 1, [conde { false, x != x, [[[], x] == x, false] }], [x | x] == x }, true, |y| { [append(y, x, [])], conde { [x == [[], x, x], [[2], [y, 2, y | x] | y] != x], x == x }, [|y| { y == [], [[], 1, true | y] == y, y == x }, _ == y, x == [[3, x], [y]]] }, closure { [|x, z| { x != [false, x | z] }] }])
}
pub fn case_527(vars: &Vars) -> InferredGoal<DU, DE, Goal<DU, DE>> {
    let x = vars.v[0].clone();
    proto_vulcan!([conde { x == 1, [conde { false, x != x, [[[], x] == x, false] }], [x | x] == x }, true, |y| { [append(y, x, [])], conde { [x == [[], x, x], [[2], [y, 2, y | x] | y] != x], x == x }, [|y| { y == [], [[], 1, true | y] == y, y == x }, _ == y, x == [[3, x], [y]]] }, closure { [|x, fresh_name_9| { x != [false, x | fresh_name_9] }] }])
}
pub fn case_528(vars: &Vars) -> InferredGoal<DU, DE, Goal<DU, DE>> {
    let x = vars.v[0].clone();
    proto_vulcan!([[true, x, x] != x, |t, h| { false == t, |t| { [_, _, [t] | t] == 1, matche 'b' { [[x | z], [x]] => , x | [[x, x, y], []] => [x == [3 | 1], [t, _, false] != x], [[_ | x]] => { _ != h, [[]] == x }, } } }, [x, _] == x, closure { [append(x, x, [3]), [[[2, 1] == x], match x { [[z, y | t], h] | 'a' => { [2, x | x] != x }, }, [x, x, _] == x]] }])
}
pub fn case_529(vars: &Vars) -> InferredGoal<DU, DE, Goal<DU, DE>> {
    let x = vars.v[0].clone();
    proto_vulcan!([[true, x, x] != x, |t, h| { false == t, |t| { [_, _, [t] | t] == 1, matche 'b' { [[x | z], [x]] => , x | [[x, x, y], []] => [x == [3 | 1], [t, _, false] != x], [[_ | fresh_name_9]] => { _ != h, [[]] == fresh_name_9 }, } } }, [x, _] == x, closure { [append(x, x, [3]), [[[2, 1] == x], match x { [[z, y | t], h] | 'a' => { [2, x | x] != x }, }, [x, x, _] == x]] }])
}
pub fn case_530(vars: &Vars) -> InferredGoal<DU, DE, Goal<DU, DE>> {
    let x = vars.v[0].clone();
    let y = vars.v[1].clone();
    proto_vulcan!([|z| { true, [[z, 1 | z], false, [2, y, x]] != x, [[_, _, false], [_, y]] == [x] }, matche x { _ => [y == [], x != [[1], [[], false, 'a' | 'a'] | 1]], }])
}
pub fn case_531(vars: &Vars) -> InferredGoal<DU, DE, Goal<DU, DE>> {
    let x = vars.v[0].clone();
    let y = vars.v[1].clone();
    proto_vulcan!([|fresh_name_9| { true, [[fresh_name_9, 1 | fresh_name_9], false, [2, y, x]] != x, [[_, _, false], [_, y]] == [x] }, matche x { _ => [y == [], x != [[1], [[], false, 'a' | 'a'] | 1]], }])
}
pub fn case_532(vars: &Vars) -> InferredGoal<DU, DE, Goal<DU, DE>> {
    let x = vars.v[0].clone();
    let y = vars.v[1].clone();
    proto_vulcan!([|y, h| { conde { matche x { [[1, _ | 1] | y] | x => , [[true], 3, [2, 'b', z | h] | 'a'] => { y != [2 | h] }, }, [conde { [append(y, y, [1]), true], ['a', y] != y }, x == [[], false, 1 | y]], [conde { [append(h, y, [2]), [[_, 'a', h | y], 1 | x] != y], [2 == y, [[2, [], [] | _] | y] == x], [x != x, true == x] }, x == [[[]], h, []]] } }])
}
pub fn case_533(vars: &Vars) -> InferredGoal<DU, DE, Goal<DU, DE>> {
    let x = vars.v[0].clone();
    let y = vars.v[1].clone();
    proto_vulcan!([|y, h| { conde { matche x { [[1, _ | 1] | y] | x => , [[true], 3, [2, 'b', z | fresh_name_9] | 'a'] => { y != [2 | fresh_name_9] }, }, [conde { [append(y, y, [1]), true], ['a', y] != y }, x == [[], false, 1 | y]], [conde { [append(h, y, [2]), [[_, 'a', h | y], 1 | x] != y], [2 == y, [[2, [], [] | _] | y] == x], [x != x, true == x] }, x == [[[]], h, []]] } }])
}
pub fn case_534(vars: &Vars) -> InferredGoal<DU, DE, Goal<DU, DE>> {
    let x = vars.v[0].clone();
    let y = vars.v[1].clone();
    proto_vulcan!([matche y { [_] | [] => , h | [2] => , t => match y { [y] => [matche x { [2, [2, t, 2 | 1]] | [y] => { 2 == x }, [[h, 3, t] | h] => [3, "a", 1] == t, _ => [_ == y, [3, [_, y, y]] != [x, y, x]], }, true], }, }, true, |x| { 3 == y, |t, z| { t != [_, 2, 2 | t], x != y } }])
}
pub fn case_535(vars: &Vars) -> InferredGoal<DU, DE, Goal<DU, DE>> {
    let x = vars.v[0].clone();
    let y = vars.v[1].clone();
    proto_vulcan!([matche y { [_] | [] => , h | [2] => , t => match y { [y] => [matche x { [2, [2, t, 2 | 1]] | [y] => { 2 == x }, [[h, 3, t] | h] => [3, "a", 1] == t, _ => [_ == y, [3, [_, y, y]] != [x, y, x]], }, true], }, }, true, |fresh_name_9| { 3 == y, |t, z| { t != [_, 2, 2 | t], fresh_name_9 != y } }])
}
pub fn case_536(vars: &Vars) -> InferredGoal<DU, DE, Goal<DU, DE>> {
    let x = vars.v[0].clone();
    proto_vulcan!([match x { [[_], 'b' | _] | 'b' => { match [x, x] { [[1, z], z, [[], x, x]] => { z == [x, z | x] }, [[1]] => { [[], x, x] == [[_, 1, 1] | x] }, [[x, 1], [1, h]] => { conde { [[x] == x, x != x], x == [2, x], [x == x, x == x] } }, } }, }, matche x { [y, [t, 2] | t] => [|h| { |t, h| { h == 'a', t != t, member(y, [3]) } }, [t != [1, _, []]]], 2 | [y, 1, []] => [_ != x, x == [[1], 2]], [[z | t]] => { conde { [[3, _ | x] == x, matche [false] { [[[], _]] => { ["bc"] == x }, y | [[h, 1], [[]], t] => z == _, [z | x] => , }], [[2 != t, x != 2, [[t, z, 2], [1, 3], x | 1] != z], [t != z, member(x, [2, 2])]], t == [[] | t] }, x == [_, [x, _ | x]] }, }])
}
pub fn case_537(vars: &Vars) -> InferredGoal<DU, DE, Goal<DU, DE>> {
    let x = vars.v[0].clone();
    proto_vulcan!([match x { [[_], 'b' | _] | 'b' => { match [x, x] { [[1, z], z, [[], x, x]] => { z == [x, z | x] }, [[1]] => { [[], x, x] == [[_, 1, 1] | x] }, [[x, 1], [1, h]] => { conde { [[x] == x, x != x], x == [2, x], [x == x, x == x] } }, } }, }, matche x { [y, [t, 2] | t] => [|h| { |t, h| { h == 'a', t != t, member(y, [3]) } }, [t != [1, _, []]]], 2 | [y, 1, []] => [_ != x, x == [[1], 2]], [[z | t]] => { conde { [[3, _ | x] == x, matche [false] { [[[], _]] => { ["bc"] == x }, y | [[h, 1], [[]], t] => z == _, [fresh_name_9 | x] => , }], [[2 != t, x != 2, [[t, z, 2], [1, 3], x | 1] != z], [t != z, member(x, [2, 2])]], t == [[] | t] }, x == [_, [x, _ | x]] }, }])
}
pub fn case_538(vars: &Vars) -> InferredGoal<DU, DE, Goal<DU, DE>> {
    let x = vars.v[0].clone();
    let y = vars.v[1].clone();
    proto_vulcan!([conde { |z| { matche x { [2 | y] => false, y => , }, conde { append(x, x, []), [y == [[2, false], x | z], true] } }, [|x| { x == [x, 2, 2], match x { [] | _ => x != 'b', }, append(x, x, [3, 2]) }, y == [[]]], [_ == x, [false | 2] != y] }, [] != x, |h, y| { [true, x != _] }])
}
pub fn case_539(vars: &Vars) -> InferredGoal<DU, DE, Goal<DU, DE>> {
    let x = vars.v[0].clone();
    let y = vars.v[1].clone();
    proto_vulcan!([conde { |z| { matche x { [2 | y] => false, y => , }, conde { append(x, x, []), [y == [[2, false], x | z], true] } }, [|x| { x == [x, 2, 2], match x { [] | _ => x != 'b', }, append(x, x, [3, 2]) }, y == [[]]], [_ == x, [false | 2] != y] }, [] != x, |fresh_name_9, y| { [true, x != _] }])
}
pub fn case_540(vars: &Vars) -> InferredGoal<DU, DE, Goal<DU, DE>> {
    let x = vars.v[0].clone();
    let y = vars.v[1].clone();
    proto_vulcan!([[|x| { [[_, 2, 1], x] != x, [[x, _, x], [1, x], x | x] == y, [[1, x] == x, false] }, [y == [1, y], conde { [member(x, []), 'b' == [x, [_, 3], [y]]], [1 == y, [[], y] == y] }], conde { [['b', 2, _] == true, |y| { [y, 2, _ | y] != x, false == x, [] == y }], matche y { [[1, t | 1], [t, x | x] | _] => , } }], y == [[], y]])
}
pub fn case_541(vars: &Vars) -> InferredGoal<DU, DE, Goal<DU, DE>> {
    let x = vars.v[0].clone();
    let y = vars.v[1].clone();
    proto_vulcan!([[|fresh_name_9| { [[_, 2, 1], fresh_name_9] != fresh_name_9, [[fresh_name_9, _, fresh_name_9], [1, fresh_name_9], fresh_name_9 | fresh_name_9] == y, [[1, fresh_name_9] == fresh_name_9, false] }, [y == [1, y], conde { [member(x, []), 'b' == [x, [_, 3], [y]]], [1 == y, [[], y] == y] }], conde { [['b', 2, _] == true, |y| { [y, 2, _ | y] != x, false == x, [] == y }], matche y { [[1, t | 1], [t, x | x] | _] => , } }], y == [[], y]])
}
pub fn case_542(vars: &Vars) -> InferredGoal<DU, DE, Goal<DU, DE>> {
    let x = vars.v[0].clone();
    let y = vars.v[1].clone();
    proto_vulcan!([|z, t| { [1, [2, _, 2 | x]] == t, [[[], z, y | 2], [1, x], [2, z, 1]] != x }, [[]] == [[2]]])
}
pub fn case_543(vars: &Vars) -> InferredGoal<DU, DE, Goal<DU, DE>> {
    let x = vars.v[0].clone();
    let y = vars.v[1].clone();
    proto_vulcan!([|fresh_name_9, t| { [1, [2, _, 2 | x]] == t, [[[], fresh_name_9, y | 2], [1, x], [2, fresh_name_9, 1]] != x }, [[]] == [[2]]])
}
pub fn case_544(vars: &Vars) -> InferredGoal<DU, DE, Goal<DU, DE>> {
    let q = vars.v[0].clone();
    let x = vars.v[1].clone();
    proto_vulcan!([[[_, q, _], q, "a"] == q, conde { [[[2, q, x], x] == q, q == x], [["a"] == x, [] != x], [|h| { |x, z| { true, x == q, x != h }, [q] == h, x == [h, [q, 1, h], [q, 1, 1 | h] | x] }, conde { [member(q, [2]), q == q], [[_, 2] == q] }] }, match q { y | "a" => { q == ['a', 2, _], [] != x }, [[y], [3, z, t | x]] | [[x, _, 2], ['a', 3] | _] => { conde { x == [x, 2 | q], [[_, 1] == q, conde { ["bc", 1, _] == x, [1, 2] != q }] } }, [[1, z, 1], [z, h], [z | y]] => { [q, [_, 3] | y] == q }, }])
}
pub fn case_545(vars: &Vars) -> InferredGoal<DU, DE, Goal<DU, DE>> {
    let q = vars.v[0].clone();
    let x = vars.v[1].clone();
    proto_vulcan!([[[_, q, _], q, "a"] == q, conde { [[[2, q, x], x] == q, q == x], [["a"] == x, [] != x], [|h| { |x, z| { true, x == q, x != h }, [q] == h, x == [h, [q, 1, h], [q, 1, 1 | h] | x] }, conde { [member(q, [2]), q == q], [[_, 2] == q] }] }, match q { y | "a" => { q == ['a', 2, _], [] != x }, [[y], [3, z, t | x]] | [[x, _, 2], ['a', 3] | _] => { conde { x == [x, 2 | q], [[_, 1] == q, conde { ["bc", 1, _] == x, [1, 2] != q }] } }, [[1, fresh_name_9, 1], [fresh_name_9, h], [fresh_name_9 | y]] => { [q, [_, 3] | y] == q }, }])
}
pub fn case_546(vars: &Vars) -> InferredGoal<DU, DE, Goal<DU, DE>> {
    let q = vars.v[0].clone();
    let x = vars.v[1].clone();
    proto_vulcan!([[q | q] == x, [] == x, |z, h| { [[[2, 'b'], [2, x]] == [h | q]], |h| { true, |h| { h != true, false } } }, closure { [matche x { 1 => { |t, x| { q == [x, x], q == [], x == x }, [q, 1] == q }, 3 => { |z, h| { [q, 1] != h, z == x, z == 1 } }, [2, [y, t | _], z] => [z == [z], [[2, q], _, [1, [] | _]] == _], }, q == x] }])
}
pub fn case_547(vars: &Vars) -> InferredGoal<DU, DE, Goal<DU, DE>> {
    let q = vars.v[0].clone();
    let x = vars.v[1].clone();
    proto_vulcan!([[q | q] == x, [] == x, |z, h| { [[[2, 'b'], [2, x]] == [h | q]], |h| { true, |fresh_name_9| { fresh_name_9 != true, false } } }, closure { [matche x { 1 => { |t, x| { q == [x, x], q == [], x == x }, [q, 1] == q }, 3 => { |z, h| { [q, 1] != h, z == x, z == 1 } }, [2, [y, t | _], z] => [z == [z], [[2, q], _, [1, [] | _]] == _], }, q == x] }])
}
pub fn case_548(vars: &Vars) -> InferredGoal<DU, DE, Goal<DU, DE>> {
    let x = vars.v[0].clone();
    let y = vars.v[1].clone();
    proto_vulcan!([[x == [[], 3, x], matche y { 1 => { x == ["bc", [1, x], [2, x | x]] }, }, |h| { x != h }], conde { [[x == [y, x, x]], |y| { x != x, [_ == [[[], y, "bc" | y], [_ | y], [3, 1]], x == [[2, 'b'], [x, 2] | x]], true }], [[y], [1]] == _ }, closure { [match y { _ | [[y], h, [t]] => , ["bc", [2, 'a', t]] | h => matche y { h => , [] | x => [true != y, false], }, y => { match y { [[2], [2, z, 1], [_]] => { true }, h => [y == [_, x, 2], y == _], ["a", _] => , } }, }, [[]] == [y, [x] | y]] }])
}
pub fn case_549(vars: &Vars) -> InferredGoal<DU, DE, Goal<DU, DE>> {
    let x = vars.v[0].clone();
    let y = vars.v[1].clone();
    proto_vulcan!([[x == [[], 3, x], matche y { 1 => { x == ["bc", [1, x], [2, x | x]] }, }, |h| { x != h }], conde { [[x == [y, x, x]], |y| { x != x, [_ == [[[], y, "bc" | y], [_ | y], [3, 1]], x == [[2, 'b'], [x, 2] | x]], true }], [[y], [1]] == _ }, closure { [match y { _ | [[y], h, [t]] => , ["bc", [2, 'a', t]] | h => matche y { fresh_name_9 => , [] | x => [true != y, false], }, y => { match y { [[2], [2, z, 1], [_]] => { true }, h => [y == [_, x, 2], y == _], ["a", _] => , } }, }, [[]] == [y, [x] | y]] }])
}
pub fn case_550(vars: &Vars) -> InferredGoal<DU, DE, Goal<DU, DE>> {
    let q = vars.v[0].clone();
    let x = vars.v[1].clone();
    proto_vulcan!([|y| { y == [x], [[]] != q }, closure { [conde { [true, x == [x, [q, "bc", _ | 'a']]], member(x, [3]) }, |z, t| { conde { [true, q == 1], [z == [3, 2, q | z], t == x] }, member(q, [2]), [x == [["a" | false], [], [_] | 1], q == q] }] }])
}
pub fn case_551(vars: &Vars) -> InferredGoal<DU, DE, Goal<DU, DE>> {
    let q = vars.v[0].clone();
    let x = vars.v[1].clone();
    proto_vulcan!([|y| { y == [x], [[]] != q }, closure { [conde { [true, x == [x, [q, "bc", _ | 'a']]], member(x, [3]) }, |fresh_name_9, t| { conde { [true, q == 1], [fresh_name_9 == [3, 2, q | fresh_name_9], t == x] }, member(q, [2]), [x == [["a" | false], [], [_] | 1], q == q] }] }])
}
pub fn case_552(vars: &Vars) -> InferredGoal<DU, DE, Goal<DU, DE>> {
    let x = vars.v[0].clone();
    proto_vulcan!([conde { |z, y| { [1, x, 3] != [[z, 2], 2, 1], [[z | x] != y, z == 'b'] }, 'b' == x }])
}
pub fn case_553(vars: &Vars) -> InferredGoal<DU, DE, Goal<DU, DE>> {
    let x = vars.v[0].clone();
    proto_vulcan!([conde { |z, fresh_name_9| { [1, x, 3] != [[z, 2], 2, 1], [[z | x] != fresh_name_9, z == 'b'] }, 'b' == x }])
}
pub fn case_554(vars: &Vars) -> InferredGoal<DU, DE, Goal<DU, DE>> {
    let q = vars.v[0].clone();
    let x = vars.v[1].clone();
    proto_vulcan!([[_, [], false] == [_, [2, "bc", false | q], [q, 2]], 2 == x, matche q { z => { q != [z, x, 2] }, 1 => , }])
}
pub fn case_555(vars: &Vars) -> InferredGoal<DU, DE, Goal<DU, DE>> {
    let q = vars.v[0].clone();
    let x = vars.v[1].clone();
    proto_vulcan!([[_, [], false] == [_, [2, "bc", false | q], [q, 2]], 2 == x, matche q { fresh_name_9 => { q != [fresh_name_9, x, 2] }, 1 => , }])
}
pub fn case_556(vars: &Vars) -> InferredGoal<DU, DE, Goal<DU, DE>> {
    let q = vars.v[0].clone();
    let x = vars.v[1].clone();
    proto_vulcan!([[matche [2, 2, q | q] { _ => q == [2, x], }, [[x, true | q], _, "a"] == _, |z| { true }], q == x, [x == [q, x, q], match x { [_] => { x != 1 }, }, q == "a"], closure { [x, [] | 1] == x }])
}
pub fn case_557(vars: &Vars) -> InferredGoal<DU, DE, Goal<DU, DE>> {
    let q = vars.v[0].clone();
    let x = vars.v[1].clone();
    proto_vulcan!([[matche [2, 2, q | q] { _ => q == [2, x], }, [[x, true | q], _, "a"] == _, |fresh_name_9| { true }], q == x, [x == [q, x, q], match x { [_] => { x != 1 }, }, q == "a"], closure { [x, [] | 1] == x }])
}
pub fn case_558(vars: &Vars) -> InferredGoal<DU, DE, Goal<DU, DE>> {
    let x = vars.v[0].clone();
    let y = vars.v[1].clone();
    proto_vulcan!([|t, y| { matche t { [1, []] | [false, 1] => [[[]] == y, |z, t| { y == [3, [], 2], [t, z, x] == z, 2 != z }], [1] | [1, "a", z | x] => { |t, x| { t == [x], append(t, t, []) }, [y] != t }, [3, 3] | 'a' => y == [1, [y, 2] | x], }, [[1, [], 3]] == t, [t | y] == [[false, 1] | t] }, closure { |t| { y == y, [1, 2] == x, 1 == [[1, _, []], "a" | x] } }])
}
pub fn case_559(vars: &Vars) -> InferredGoal<DU, DE, Goal<DU, DE>> {
    let x = vars.v[0].clone();
    let y = vars.v[1].clone();
    proto_vulcan!([|t, y| { matche t { [1, []] | [false, 1] => [[[]] == y, |z, t| { y == [3, [], 2], [t, z, x] == z, 2 != z }], [1] | [1, "a", z | x] => { |fresh_name_9, x| { fresh_name_9 == [x], append(fresh_name_9, fresh_name_9, []) }, [y] != t }, [3, 3] | 'a' => y == [1, [y, 2] | x], }, [[1, [], 3]] == t, [t | y] == [[false, 1] | t] }, closure { |t| { y == y, [1, 2] == x, 1 == [[1, _, []], "a" | x] } }])
}
pub fn case_560(vars: &Vars) -> InferredGoal<DU, DE, Goal<DU, DE>> {
    let q = vars.v[0].clone();
    let x = vars.v[1].clone();
    proto_vulcan!([[matche q { [["a", 2], [t, [] | _]] => { [_, q, x] != q, false }, }, x == [], [[2 == q]]], x == [[x, _, q], 3], [1] != []])
}
pub fn case_561(vars: &Vars) -> InferredGoal<DU, DE, Goal<DU, DE>> {
    let q = vars.v[0].clone();
    let x = vars.v[1].clone();
    proto_vulcan!([[matche q { [["a", 2], [fresh_name_9, [] | _]] => { [_, q, x] != q, false }, }, x == [], [[2 == q]]], x == [[x, _, q], 3], [1] != []])
}
pub fn case_562(vars: &Vars) -> InferredGoal<DU, DE, Goal<DU, DE>> {
    let x = vars.v[0].clone();
    proto_vulcan!([1 == x, conde { [_, [], x] == x, [x == [1, x | x], match x { y => append(y, x, [1, 2]), 1 | 2 => , }], |z| { |t| { t != 2 }, conde { [false, member(x, [])], z == x } } }, [[]] == x, closure { [1 == x, [['a' == [1 | x]]]] }])
}
pub fn case_563(vars: &Vars) -> InferredGoal<DU, DE, Goal<DU, DE>> {
    let x = vars.v[0].clone();
    proto_vulcan!([1 == x, conde { [_, [], x] == x, [x == [1, x | x], match x { fresh_name_9 => append(fresh_name_9, x, [1, 2]), 1 | 2 => , }], |z| { |t| { t != 2 }, conde { [false, member(x, [])], z == x } } }, [[]] == x, closure { [1 == x, [['a' == [1 | x]]]] }])
}
pub fn case_564(vars: &Vars) -> InferredGoal<DU, DE, Goal<DU, DE>> {
    let x = vars.v[0].clone();
    let y = vars.v[1].clone();
    proto_vulcan!([2 == x, |y| { true }, closure { [x != [_, _, 2], [member(x, [2])]] }])
}
pub fn case_565(vars: &Vars) -> InferredGoal<DU, DE, Goal<DU, DE>> {
    let x = vars.v[0].clone();
    let y = vars.v[1].clone();
    proto_vulcan!([2 == x, |fresh_name_9| { true }, closure { [x != [_, _, 2], [member(x, [2])]] }])
}
pub fn case_566(vars: &Vars) -> InferredGoal<DU, DE, Goal<DU, DE>> {
    let q = vars.v[0].clone();
    let x = vars.v[1].clone();
    proto_vulcan!([append(x, x, [3]), conde { [[x != [x, [] | x], x == x, conde { [[[q, []], [2, x, []], [1] | _] == x, q == q], x == [2], q == x }], conde { |y, x| { [] == y }, [x == [q, [x, 1 | q]], |t| { append(x, x, []), [2, [] | x] != t }] }], [x != 2, x != x], conde { conde { _ != x, [q, x] == x }, [q, [3, 1, 'a'] | q] != x, [x == [x], [q | _] == q] } }, [_, q, x] == [[x, q], [q, 3 | x] | x]])
}
pub fn case_567(vars: &Vars) -> InferredGoal<DU, DE, Goal<DU, DE>> {
    let q = vars.v[0].clone();
    let x = vars.v[1].clone();
    proto_vulcan!([append(x, x, [3]), conde { [[x != [x, [] | x], x == x, conde { [[[q, []], [2, x, []], [1] | _] == x, q == q], x == [2], q == x }], conde { |fresh_name_9, x| { [] == fresh_name_9 }, [x == [q, [x, 1 | q]], |t| { append(x, x, []), [2, [] | x] != t }] }], [x != 2, x != x], conde { conde { _ != x, [q, x] == x }, [q, [3, 1, 'a'] | q] != x, [x == [x], [q | _] == q] } }, [_, q, x] == [[x, q], [q, 3 | x] | x]])
}
pub fn case_568(vars: &Vars) -> InferredGoal<DU, DE, Goal<DU, DE>> {
    let q = vars.v[0].clone();
    let x = vars.v[1].clone();
    proto_vulcan!([[[x == [_], conde { q == [1, [x, _, x], [q, []]], [q == [[3, false, true], "a"], [1, q] == q], [2 != q, q == [[2, _], [_, x | q]]] }, matche 1 { h => [[q] == h, [_] == q], [[x], false] => , 2 => , }], matche q { [x, 2 | z] => [|t, x| { [false, [x], [t, 1] | x] != [[false], [x], [2, x, 3]], 1 == [x, q, [x, z, 2 | z]] }, [z, z] == [3, 3 | x]], 3 => |y, t| { true, false, [["a", x], [[], y, 'a']] != 1 }, [['b', h, y] | h] => , }, true], [q, 2, x] != q, ['b' | _] == q])
}
pub fn case_569(vars: &Vars) -> InferredGoal<DU, DE, Goal<DU, DE>> {
    let q = vars.v[0].clone();
    let x = vars.v[1].clone();
    proto_vulcan!([[[x == [_], conde { q == [1, [x, _, x], [q, []]], [q == [[3, false, true], "a"], [1, q] == q], [2 != q, q == [[2, _], [_, x | q]]] }, matche 1 { h => [[q] == h, [_] == q], [[x], false] => , 2 => , }], matche q { [fresh_name_9, 2 | z] => [|t, x| { [false, [x], [t, 1] | x] != [[false], [x], [2, x, 3]], 1 == [x, q, [x, z, 2 | z]] }, [z, z] == [3, 3 | fresh_name_9]], 3 => |y, t| { true, false, [["a", x], [[], y, 'a']] != 1 }, [['b', h, y] | h] => , }, true], [q, 2, x] != q, ['b' | _] == q])
}
pub fn case_570(vars: &Vars) -> InferredGoal<DU, DE, Goal<DU, DE>> {
    let x = vars.v[0].clone();
    let y = vars.v[1].clone();
    proto_vulcan!([[_] == x, conde { [|h| { append(x, h, []) }, match y { [2 | z] => , x | y => , 2 => { |y, t| { member(x, [2]) }, [] != x }, }], [conde { [[[x, x, [2] | y] == _], [x == [[], _], y == _]], x == x, [match x { [[x, _, y | h], [1, y], [y, h]] => x == [true, x], [[1 | _] | t] | [[h], ["a", t, 3]] => [true, false], [] => [2, true | x] == [], }, match y { [1, [], [_, 3] | y] => [true, [2] == y], }] }, true] }, [[y, x], x, [_]] == y])
}
pub fn case_571(vars: &Vars) -> InferredGoal<DU, DE, Goal<DU, DE>> {
    let x = vars.v[0].clone();
    let y = vars.v[1].clone();
    proto_vulcan!([[_] == x, conde { [|h| { append(x, h, []) }, match y { [2 | z] => , x | y => , 2 => { |y, t| { member(x, [2]) }, [] != x }, }], [conde { [[[x, x, [2] | y] == _], [x == [[], _], y == _]], x == x, [match x { [[x, _, y | h], [1, y], [y, h]] => x == [true, x], [[1 | _] | t] | [[h], ["a", t, 3]] => [true, false], [] => [2, true | x] == [], }, match y { [1, [], [_, 3] | fresh_name_9] => [true, [2] == fresh_name_9], }] }, true] }, [[y, x], x, [_]] == y])
}
pub fn case_572(vars: &Vars) -> InferredGoal<DU, DE, Goal<DU, DE>> {
    let q = vars.v[0].clone();
    let x = vars.v[1].clone();
    proto_vulcan!([[[]] == q, conde { [[[x], [x, _], 2] == x, [[], 2] == [[_], _]], [2 != ['b', [3, []], [q, 2]], [matche x { 2 => , }, match q { h => { q != 1 }, 'b' => [[q, 3, q] == q, member(x, [1, 3, 2])], }, [[x], []] == [q, q, [1]]]] }, closure { [append(q, q, [1, 1]), [1, q] == x] }])
}
pub fn case_573(vars: &Vars) -> InferredGoal<DU, DE, Goal<DU, DE>> {
    let q = vars.v[0].clone();
    let x = vars.v[1].clone();
    proto_vulcan!([[[]] == q, conde { [[[x], [x, _], 2] == x, [[], 2] == [[_], _]], [2 != ['b', [3, []], [q, 2]], [matche x { 2 => , }, match q { fresh_name_9 => { q != 1 }, 'b' => [[q, 3, q] == q, member(x, [1, 3, 2])], }, [[x], []] == [q, q, [1]]]] }, closure { [append(q, q, [1, 1]), [1, q] == x] }])
}
pub fn case_574(vars: &Vars) -> InferredGoal<DU, DE, Goal<DU, DE>> {
    let x = vars.v[0].clone();
    let y = vars.v[1].clone();
    proto_vulcan!([y != [3 | y], matche y { [[[], h], _, [[], 2, [] | t]] => [matche h { [h, t, z] | y => [|h| { _ != [1, []] }, [2 | x] != x], [[z, [], 1], [t, h | y], z] | [[y, true, true], false] => [conde { [_ == y, [_] != y], y == [3], [[[[], 2]] == [y, 1, y], 2 == y] }, match [[]] { 2 | h => [member(y, [2, 3, 1]), append(y, x, [2, 1])], [] | [['a', y], ['b', 2 | z]] => { [x, 1, x | 2] == x, x == x }, }], }, [2, h, h] == h], }])
}
pub fn case_575(vars: &Vars) -> InferredGoal<DU, DE, Goal<DU, DE>> {
    let x = vars.v[0].clone();
    let y = vars.v[1].clone();
    proto_vulcan!([y != [3 | y], matche y { [[[], fresh_name_9], _, [[], 2, [] | t]] => [matche fresh_name_9 { [h, t, z] | y => [|h| { _ != [1, []] }, [2 | x] != x], [[z, [], 1], [t, h | y], z] | [[y, true, true], false] => [conde { [_ == y, [_] != y], y == [3], [[[[], 2]] == [y, 1, y], 2 == y] }, match [[]] { 2 | h => [member(y, [2, 3, 1]), append(y, x, [2, 1])], [] | [['a', y], ['b', 2 | z]] => { [x, 1, x | 2] == x, x == x }, }], }, [2, fresh_name_9, fresh_name_9] == fresh_name_9], }])
}
pub fn case_576(vars: &Vars) -> InferredGoal<DU, DE, Goal<DU, DE>> {
    let x = vars.v[0].clone();
    let y = vars.v[1].clone();
    proto_vulcan!([x == [3 | y], match x { [[1, 2, 'b'], h, 3] => , }, closure { [|x| { y == x, x == x }, |x| { matche y { 2 | 2 => { x == x, [1] == _ }, } }] }])
}
pub fn case_577(vars: &Vars) -> InferredGoal<DU, DE, Goal<DU, DE>> {
    let x = vars.v[0].clone();
    let y = vars.v[1].clone();
    proto_vulcan!([x == [3 | y], match x { [[1, 2, 'b'], fresh_name_9, 3] => , }, closure { [|x| { y == x, x == x }, |x| { matche y { 2 | 2 => { x == x, [1] == _ }, } }] }])
}
pub fn case_578(vars: &Vars) -> InferredGoal<DU, DE, Goal<DU, DE>> {
    let x = vars.v[0].clone();
    let y = vars.v[1].clone();
    proto_vulcan!([false == x, [conde { [|y| { [] != [2, [[], 2, y], y | y], [x, "bc", y] == x, [[], [2], [[] | y]] == [y] }, [3, y] != [2]], |h, y| { y == [x | x], [_, [], true | h] == y, x != [[]] } }, true, [2] == 1], closure { [|x| { false }, conde { [[[1, x, x | x], [x, 2 | y]] == y, |t| { false, t == [y | x], member(t, []) }], [[_] == y, y != 1], true == y }] }])
}
pub fn case_579(vars: &Vars) -> InferredGoal<DU, DE, Goal<DU, DE>> {
    let x = vars.v[0].clone();
    let y = vars.v[1].clone();
    proto_vulcan!([false == x, [conde { [|y| { [] != [2, [[], 2, y], y | y], [x, "bc", y] == x, [[], [2], [[] | y]] == [y] }, [3, y] != [2]], |h, y| { y == [x | x], [_, [], true | h] == y, x != [[]] } }, true, [2] == 1], closure { [|fresh_name_9| { false }, conde { [[[1, x, x | x], [x, 2 | y]] == y, |t| { false, t == [y | x], member(t, []) }], [[_] == y, y != 1], true == y }] }])
}
pub fn case_580(vars: &Vars) -> InferredGoal<DU, DE, Goal<DU, DE>> {
    let x = vars.v[0].clone();
    let y = vars.v[1].clone();
    proto_vulcan!([|h, z| { matche x { 2 => , [] | 1 => { "a" == [_ | y] }, [x, [_, 2, 2], _ | _] => matche x { [[h, h | h]] | [x, [t]] => z == [2, z | y], [[true, 3, x], [_, [], z] | y] => , }, }, |t, h| { 2 == [[t, y] | h] }, h != [y, [], 2] }, match x { t | [[h, _ | z], [t, h | z] | _] => , ['b', [[], 1]] => { matche y { y => { [[y, _, 1] == [[1, x]], 2 == x, y == [[], y]], x == y }, }, [matche x { _ => { _ == [y, true, _] }, }] }, }])
}
pub fn case_581(vars: &Vars) -> InferredGoal<DU, DE, Goal<DU, DE>> {
    let x = vars.v[0].clone();
    let y = vars.v[1].clone();
    proto_vulcan!([|h, z| { matche x { 2 => , [] | 1 => { "a" == [_ | y] }, [x, [_, 2, 2], _ | _] => matche x { [[h, h | h]] | [x, [t]] => z == [2, z | y], [[true, 3, x], [_, [], z] | y] => , }, }, |fresh_name_9, h| { 2 == [[fresh_name_9, y] | h] }, h != [y, [], 2] }, match x { t | [[h, _ | z], [t, h | z] | _] => , ['b', [[], 1]] => { matche y { y => { [[y, _, 1] == [[1, x]], 2 == x, y == [[], y]], x == y }, }, [matche x { _ => { _ == [y, true, _] }, }] }, }])
}
pub fn case_582(vars: &Vars) -> InferredGoal<DU, DE, Goal<DU, DE>> {
    let x = vars.v[0].clone();
    let y = vars.v[1].clone();
    proto_vulcan!([matche x { 2 => { y == [3, [x | x], x | y] }, [[1 | _] | z] | ['a', [z], ['a']] => , [[_, 3]] => { match 1 { [[z, []], [], [3]] | 1 => { matche y { [[3, y, 2 | x], y, [3] | x] => [[1] == x, y == [y]], h | 'a' => [y == x, x == [y, [], y | x]], [[[], 3, z] | t] => { append(y, z, []), [[], _] != _ }, } }, t | 3 => , [[1, x, 3], [2, y, 'a'] | _] => , }, |h| { matche 3 { [['b'], _] | _ => { y == [1, [y | y]] }, [[2, x, 1 | y], t] => , [y, ["bc", x], y] => true, }, 3 == ['b', 1, _ | _] } }, }])
}
pub fn case_583(vars: &Vars) -> InferredGoal<DU, DE, Goal<DU, DE>> {
    let x = vars.v[0].clone();
    let y = vars.v[1].clone();
    proto_vulcan!([matche x { 2 => { y == [3, [x | x], x | y] }, [[1 | _] | z] | ['a', [z], ['a']] => , [[_, 3]] => { match 1 { [[z, []], [], [3]] | 1 => { matche y { [[3, y, 2 | x], y, [3] | x] => [[1] == x, y == [y]], h | 'a' => [y == x, x == [y, [], y | x]], [[[], 3, z] | t] => { append(y, z, []), [[], _] != _ }, } }, t | 3 => , [[1, x, 3], [2, y, 'a'] | _] => , }, |fresh_name_9| { matche 3 { [['b'], _] | _ => { y == [1, [y | y]] }, [[2, x, 1 | y], t] => , [y, ["bc", x], y] => true, }, 3 == ['b', 1, _ | _] } }, }])
}
pub fn case_584(vars: &Vars) -> InferredGoal<DU, DE, Goal<DU, DE>> {
    let q = vars.v[0].clone();
    let x = vars.v[1].clone();
    proto_vulcan!([|h| { [2] == x, 2 != x, matche h { [2, [h], 1] => { [[q] | 'a'] == 3 }, z | 1 => , ["bc" | t] => { [t] == h, |x, z| { x != [["bc" | x], 1, [q, z, z | z] | t], append(h, x, [2]) } }, } }, closure { [[match x { z => , [[x, h], [] | y] | [[2, []], [_], z] => , _ => [false, false], }], true] }])
}
pub fn case_585(vars: &Vars) -> InferredGoal<DU, DE, Goal<DU, DE>> {
    let q = vars.v[0].clone();
    let x = vars.v[1].clone();
    proto_vulcan!([|h| { [2] == x, 2 != x, matche h { [2, [fresh_name_9], 1] => { [[q] | 'a'] == 3 }, z | 1 => , ["bc" | t] => { [t] == h, |x, z| { x != [["bc" | x], 1, [q, z, z | z] | t], append(h, x, [2]) } }, } }, closure { [[match x { z => , [[x, h], [] | y] | [[2, []], [_], z] => , _ => [false, false], }], true] }])
}
pub fn case_586(vars: &Vars) -> InferredGoal<DU, DE, Goal<DU, DE>> {
    let x = vars.v[0].clone();
    proto_vulcan!([[[x, 1, [] | x], ["a" | x]] == x, match x { [[y, h], 2] | [[[], x, z], [y | x], [1]] => , [t, h, 3] => { 1 == h }, }, closure { x == 1 }])
}
pub fn case_587(vars: &Vars) -> InferredGoal<DU, DE, Goal<DU, DE>> {
    let x = vars.v[0].clone();
    proto_vulcan!([[[x, 1, [] | x], ["a" | x]] == x, match x { [[y, h], 2] | [[[], x, z], [y | x], [1]] => , [t, fresh_name_9, 3] => { 1 == fresh_name_9 }, }, closure { x == 1 }])
}
pub fn case_588(vars: &Vars) -> InferredGoal<DU, DE, Goal<DU, DE>> {
    let x = vars.v[0].clone();
    proto_vulcan!([|t| { ["a", x | t] == t }, matche x { [[2, z], false, [3 | _]] | 1 => { conde { x == [2, x | x], conde { x != _, [x == [[x, "a", x], x, [x]], append(x, x, [1])] }, [conde { x == x, [true, false] }, x == [1]] } }, _ => x == [x, x], 1 | 'a' => [x == [_, []], conde { [member(x, [2]), [3] == x], matche x { false => { append(x, x, [2]) }, 3 => { member(x, [1, 2, 1]), [_, [x, 'b'], x] != x }, [[], [y | _]] => true, }, [[[], x, x]] == 2 }], }, closure { _ != x }])
}
pub fn case_589(vars: &Vars) -> InferredGoal<DU, DE, Goal<DU, DE>> {
    let x = vars.v[0].clone();
    proto_vulcan!([|fresh_name_9| { ["a", x | fresh_name_9] == fresh_name_9 }, matche x { [[2, z], false, [3 | _]] | 1 => { conde { x == [2, x | x], conde { x != _, [x == [[x, "a", x], x, [x]], append(x, x, [1])] }, [conde { x == x, [true, false] }, x == [1]] } }, _ => x == [x, x], 1 | 'a' => [x == [_, []], conde { [member(x, [2]), [3] == x], matche x { false => { append(x, x, [2]) }, 3 => { member(x, [1, 2, 1]), [_, [x, 'b'], x] != x }, [[], [y | _]] => true, }, [[[], x, x]] == 2 }], }, closure { _ != x }])
}
pub fn case_590(vars: &Vars) -> InferredGoal<DU, DE, Goal<DU, DE>> {
    let x = vars.v[0].clone();
    let y = vars.v[1].clone();
    proto_vulcan!([|z, y| { x == [1, [], z], y == [[1 | "a"]] }, [false, [x, y, x | x] | y] == x, closure { [|h| { [true, y, []] == h, y == [2] }, |z| { member(x, [1]), matche x { [[3]] => [append(z, z, [1]), [] != y], 2 => , [2, [1, 1, _]] => { false, [true, 1] != x }, }, y == 3 }] }])
}
pub fn case_591(vars: &Vars) -> InferredGoal<DU, DE, Goal<DU, DE>> {
    let x = vars.v[0].clone();
    let y = vars.v[1].clone();
    proto_vulcan!([|z, y| { x == [1, [], z], y == [[1 | "a"]] }, [false, [x, y, x | x] | y] == x, closure { [|h| { [true, y, []] == h, y == [2] }, |fresh_name_9| { member(x, [1]), matche x { [[3]] => [append(fresh_name_9, fresh_name_9, [1]), [] != y], 2 => , [2, [1, 1, _]] => { false, [true, 1] != x }, }, y == 3 }] }])
}
pub fn case_592(vars: &Vars) -> InferredGoal<DU, DE, Goal<DU, DE>> {
    let x = vars.v[0].clone();
    proto_vulcan!([match x { [['a'], h, [x, []]] => [[[[] | h]] == h, |t, z| { [[_] == [[_, 3, t]], [false, z, z | z] != z, t == [x, 2, []]] }], [[false | _], [3, 3], [_, 3]] => , }, x != [3, x]])
}
pub fn case_593(vars: &Vars) -> InferredGoal<DU, DE, Goal<DU, DE>> {
    let x = vars.v[0].clone();
    proto_vulcan!([match x { [['a'], h, [fresh_name_9, []]] => [[[[] | h]] == h, |t, z| { [[_] == [[_, 3, t]], [false, z, z | z] != z, t == [fresh_name_9, 2, []]] }], [[false | _], [3, 3], [_, 3]] => , }, x != [3, x]])
}
pub fn case_594(vars: &Vars) -> InferredGoal<DU, DE, Goal<DU, DE>> {
    let q = vars.v[0].clone();
    let x = vars.v[1].clone();
    proto_vulcan!([conde { [[[2, "bc" | q] != [[1, _]], q != x], [q, [3, "bc"]] == q], false, [true, [2 | x] != q] }, match q { x | [1] => [[matche q { [[z, 3], t | h] => , }, [[3, _, 2 | q] == q, [q, 1, q] == q]], [[], [] | q] != q], [[x], 2, 1] => { conde { x == x, [x == [_], x == [false | x]] } }, 2 => conde { [|h, y| { _ != h }, |h| { [[h | 'b']] == 1, true, false == q }], [matche 1 { [[2, 1 | h]] => [h == [2], h == [_, 'b', _]], [["bc"]] | [[2 | _] | true] => , }, |y| { q == y }], [[x == [false, 2], _ == x, [q, [2, q | q], [1 | q] | x] == q], |t| { t == [q, x, 1] }] }, }, conde { [matche x { [1, [h], [z, 2 | _] | t] => [|y| { [_, [1, y]] == [q, t | h] }, [2, _] == x], [[h, t | _]] => { [x | 1] == h }, 2 => [matche false { [y] => q == [2, 3, q], "a" | 2 => , }, append(x, q, [1])], }, [3 | x] == x], [append(q, x, []), [[] | q] == q], [x == [[]], true] }, closure { [match x { [x, [y, 1 | 2]] => , }, [member(q, []), conde { [[[x, "bc"], x, _] == _, true], [[[], [_], [2]] != [1, 1], q == [x, q, 'b']], [x != [3, q], [[]] == q] }, [x == q]]] }])
}
pub fn case_595(vars: &Vars) -> InferredGoal<DU, DE, Goal<DU, DE>> {
    let q = vars.v[0].clone();
    let x = vars.v[1].clone();
    proto_vulcan!([conde { [[[2, "bc" | q] != [[1, _]], q != x], [q, [3, "bc"]] == q], false, [true, [2 | x] != q] }, match q { x | [1] => [[matche q { [[z, 3], t | h] => , }, [[3, _, 2 | q] == q, [q, 1, q] == q]], [[], [] | q] != q], [[x], 2, 1] => { conde { x == x, [x == [_], x == [false | x]] } }, 2 => conde { [|h, y| { _ != h }, |fresh_name_9| { [[fresh_name_9 | 'b']] == 1, true, false == q }], [matche 1 { [[2, 1 | h]] => [h == [2], h == [_, 'b', _]], [["bc"]] | [[2 | _] | true] => , }, |y| { q == y }], [[x == [false, 2], _ == x, [q, [2, q | q], [1 | q] | x] == q], |t| { t == [q, x, 1] }] }, }, conde { [matche x { [1, [h], [z, 2 | _] | t] => [|y| { [_, [1, y]] == [q, t | h] }, [2, _] == x], [[h, t | _]] => { [x | 1] == h }, 2 => [matche false { [y] => q == [2, 3, q], "a" | 2 => , }, append(x, q, [1])], }, [3 | x] == x], [append(q, x, []), [[] | q] == q], [x == [[]], true] }, closure { [match x { [x, [y, 1 | 2]] => , }, [member(q, []), conde { [[[x, "bc"], x, _] == _, true], [[[], [_], [2]] != [1, 1], q == [x, q, 'b']], [x != [3, q], [[]] == q] }, [x == q]]] }])
}
pub fn case_596(vars: &Vars) -> InferredGoal<DU, DE, Goal<DU, DE>> {
    let x = vars.v[0].clone();
    let y = vars.v[1].clone();
    proto_vulcan!([|h, t| { |t, h| { matche [3, t] { [2, [z, 3], ['b', t | _]] => [t == [1, h | z], [t, 'a', [] | t] != [y, [h, t, _], [true | 3] | y]], [[y, _ | _], ["bc", 1 | 'a'], [y, false]] | [[_], [_], [2, [], 1]] => , }, t == x }, false }, closure { [y == x, false] }])
}
pub fn case_597(vars: &Vars) -> InferredGoal<DU, DE, Goal<DU, DE>> {
    let x = vars.v[0].clone();
    let y = vars.v[1].clone();
    proto_vulcan!([|h, fresh_name_9| { |t, h| { matche [3, t] { [2, [z, 3], ['b', t | _]] => [t == [1, h | z], [t, 'a', [] | t] != [y, [h, t, _], [true | 3] | y]], [[y, _ | _], ["bc", 1 | 'a'], [y, false]] | [[_], [_], [2, [], 1]] => , }, t == x }, false }, closure { [y == x, false] }])
}
pub fn case_598(vars: &Vars) -> InferredGoal<DU, DE, Goal<DU, DE>> {
    let x = vars.v[0].clone();
    proto_vulcan!([conde { [|h| { match [h | h] { 1 | z => [["bc", ['b', x]] == h, x != ['b', x, []]], y => , [1] => { x == [x] }, }, [[2] == h, x != [_, []]] }, [|y| { [_ | y] == x }, matche x { y | h => , [[3, 3], [[] | _], [3, t] | x] => t == [1, [3], [t | x]], [[2, 2], [3, 1, _], [[], h, _] | _] | x => , }, conde { x == _, [[[] | x] == [1], [1, x] == x], [member(x, [2]), false] }]], [2, [x, []]] == x, matche x { [[2, 3, 1] | 'b'] | 'b' => { match x { 1 => x == x, } }, } }])
}
pub fn case_599(vars: &Vars) -> InferredGoal<DU, DE, Goal<DU, DE>> {
    let x = vars.v[0].clone();
    proto_vulcan!([conde { [|h| { match [h | h] { 1 | z => [["bc", ['b', x]] == h, x != ['b', x, []]], y => , [1] => { x == [x] }, }, [[2] == h, x != [_, []]] }, [|fresh_name_9| { [_ | fresh_name_9] == x }, matche x { y | h => , [[3, 3], [[] | _], [3, t] | x] => t == [1, [3], [t | x]], [[2, 2], [3, 1, _], [[], h, _] | _] | x => , }, conde { x == _, [[[] | x] == [1], [1, x] == x], [member(x, [2]), false] }]], [2, [x, []]] == x, matche x { [[2, 3, 1] | 'b'] | 'b' => { match x { 1 => x == x, } }, } }])
}
pub fn case_600(vars: &Vars) -> InferredGoal<DU, DE, Goal<DU, DE>> {
    let q = vars.v[0].clone();
    let x = vars.v[1].clone();
    proto_vulcan!([[1, _, false] == x, conde { conde { [member(x, []), |h, z| { x == x, q == [1, _, x | q], x == q }], [conde { true, [1 == [], x == [_, [], _ | q]], [[_] == q, "bc" == []] }, ["a", x, _] != x] }, [|z| { false, [1, q | z] == x }, q == 1] }, match x { [[_, 2], 3, [2 | y]] => { conde { matche x { [x, [_, [], z]] | _ => , }, [x == [[y]], [[_ | y] | 'a'] != x], matche x { [[t, []], [h, 2, true | y], t | h] | 1 => , 2 | [] => , } } }, [x, [t, 'b', x | _], [z, false]] => { 1 != z }, [true, y] => { x != y }, }, closure { [[x, q | x] == x, x == [q | q]] }])
}
pub fn case_601(vars: &Vars) -> InferredGoal<DU, DE, Goal<DU, DE>> {
    let q = vars.v[0].clone();
    let x = vars.v[1].clone();
    proto_vulcan!([[1, _, false] == x, conde { conde { [member(x, []), |h, z| { x == x, q == [1, _, x | q], x == q }], [conde { true, [1 == [], x == [_, [], _ | q]], [[_] == q, "bc" == []] }, ["a", x, _] != x] }, [|fresh_name_9| { false, [1, q | fresh_name_9] == x }, q == 1] }, match x { [[_, 2], 3, [2 | y]] => { conde { matche x { [x, [_, [], z]] | _ => , }, [x == [[y]], [[_ | y] | 'a'] != x], matche x { [[t, []], [h, 2, true | y], t | h] | 1 => , 2 | [] => , } } }, [x, [t, 'b', x | _], [z, false]] => { 1 != z }, [true, y] => { x != y }, }, closure { [[x, q | x] == x, x == [q | q]] }])
}
pub fn case_602(vars: &Vars) -> InferredGoal<DU, DE, Goal<DU, DE>> {
    let q = vars.v[0].clone();
    let x = vars.v[1].clone();
    proto_vulcan!([x != [], closure { [q == 2, |h, x| { conde { [[1, true, 1 | h] == h, h != 2], [member(h, [2, 2]), q == [[x] | x]] }, match q { [] => { [h, q, h | x] == 1, false }, [[3, y], [h, h], []] | _ => { member(x, [3, 2]) }, }, h == h }] }])
}
pub fn case_603(vars: &Vars) -> InferredGoal<DU, DE, Goal<DU, DE>> {
    let q = vars.v[0].clone();
    let x = vars.v[1].clone();
    proto_vulcan!([x != [], closure { [q == 2, |h, fresh_name_9| { conde { [[1, true, 1 | h] == h, h != 2], [member(h, [2, 2]), q == [[fresh_name_9] | fresh_name_9]] }, match q { [] => { [h, q, h | fresh_name_9] == 1, false }, [[3, y], [h, h], []] | _ => { member(fresh_name_9, [3, 2]) }, }, h == h }] }])
}
pub fn case_604(vars: &Vars) -> InferredGoal<DU, DE, Goal<DU, DE>> {
    let x = vars.v[0].clone();
    let y = vars.v[1].clone();
    proto_vulcan!([match y { [t] | [_, "bc", [true]] => , [[_, 1 | x]] => { y != _, x == x }, y => , }, 1 != [[_, _]], [2, 'b'] == x])
}
pub fn case_605(vars: &Vars) -> InferredGoal<DU, DE, Goal<DU, DE>> {
    let x = vars.v[0].clone();
    let y = vars.v[1].clone();
    proto_vulcan!([match y { [t] | [_, "bc", [true]] => , [[_, 1 | x]] => { y != _, x == x }, fresh_name_9 => , }, 1 != [[_, _]], [2, 'b'] == x])
}
pub fn case_606(vars: &Vars) -> InferredGoal<DU, DE, Goal<DU, DE>> {
    let q = vars.v[0].clone();
    let x = vars.v[1].clone();
    proto_vulcan!([|z, y| { |y| { q == "bc", z == [1, _, 2] }, [y] != 2 }, matche [q] { _ => { conde { [[[_], [], [1, "a", q] | x] == [q, 2, false | 1], |h, z| { h != [[q, x, x], [h]] }], [[append(x, q, [3, 1]), x == [x, q], x == [true | "a"]], q != [_, q]] }, x == x }, [_, [2, 2], [z | y]] => z != [2, _], }, closure { [q, q] == x }])
}
pub fn case_607(vars: &Vars) -> InferredGoal<DU, DE, Goal<DU, DE>> {
    let q = vars.v[0].clone();
    let x = vars.v[1].clone();
    proto_vulcan!([|z, fresh_name_9| { |y| { q == "bc", z == [1, _, 2] }, [fresh_name_9] != 2 }, matche [q] { _ => { conde { [[[_], [], [1, "a", q] | x] == [q, 2, false | 1], |h, z| { h != [[q, x, x], [h]] }], [[append(x, q, [3, 1]), x == [x, q], x == [true | "a"]], q != [_, q]] }, x == x }, [_, [2, 2], [z | y]] => z != [2, _], }, closure { [q, q] == x }])
}
pub fn case_608(vars: &Vars) -> InferredGoal<DU, DE, Goal<DU, DE>> {
    let x = vars.v[0].clone();
    let y = vars.v[1].clone();
    proto_vulcan!([[y, y] == y, |z| { matche y { h => { ['a' != 1] }, x | [[x, []]] => match [y, z, 1] { [[[], h, t | _]] => [[[], 2 | z] == y, member(x, [3, 2, 2])], [[[]], [h], 'a' | y] | t => , }, [_, 2, 2] | h => , }, match [z, z, "a"] { [[1, 3, z]] | 1 => { conde { append(y, y, [2, 1]), [y == [[[], 2, [] | x], [_, y, x], [y, 'b'] | x], 2 != [2, [x], [y]]] }, [y, false] != x }, [[1, t], [3, _, 3 | _] | _] => [[append(t, z, [1, 2]), [2, x, [] | y] == y], y == _], [[y, _, y]] => { true, append(y, z, []) }, }, 2 == [y] }])
}
pub fn case_609(vars: &Vars) -> InferredGoal<DU, DE, Goal<DU, DE>> {
    let x = vars.v[0].clone();
    let y = vars.v[1].clone();
    proto_vulcan!([[y, y] == y, |z| { matche y { h => { ['a' != 1] }, x | [[x, []]] => match [y, z, 1] { [[[], fresh_name_9, t | _]] => [[[], 2 | z] == y, member(x, [3, 2, 2])], [[[]], [h], 'a' | y] | t => , }, [_, 2, 2] | h => , }, match [z, z, "a"] { [[1, 3, z]] | 1 => { conde { append(y, y, [2, 1]), [y == [[[], 2, [] | x], [_, y, x], [y, 'b'] | x], 2 != [2, [x], [y]]] }, [y, false] != x }, [[1, t], [3, _, 3 | _] | _] => [[append(t, z, [1, 2]), [2, x, [] | y] == y], y == _], [[y, _, y]] => { true, append(y, z, []) }, }, 2 == [y] }])
}
pub fn case_610(vars: &Vars) -> InferredGoal<DU, DE, Goal<DU, DE>> {
    let q = vars.v[0].clone();
    let x = vars.v[1].clone();
    proto_vulcan!([|y, z| { [match z { _ => , }, conde { false, [[[y, q | x], 1 | x] == q, append(x, z, [])] }] }, [x, x, 2] == 2])
}
pub fn case_611(vars: &Vars) -> InferredGoal<DU, DE, Goal<DU, DE>> {
    let q = vars.v[0].clone();
    let x = vars.v[1].clone();
    proto_vulcan!([|fresh_name_9, z| { [match z { _ => , }, conde { false, [[[fresh_name_9, q | x], 1 | x] == q, append(x, z, [])] }] }, [x, x, 2] == 2])
}
pub fn case_612(vars: &Vars) -> InferredGoal<DU, DE, Goal<DU, DE>> {
    let x = vars.v[0].clone();
    proto_vulcan!([matche x { _ => , [[z, z, x | t]] => { conde { [x != [[], [] | x], z == _], [matche x { [[1, 1, false | z], [y, t]] => , [[1], [h]] => { x == [[] | t], [t, h] != x }, }, append(t, x, [3])] } }, [['a', x, t], ['a' | x], [y]] => { |x, h| { x == 1, append(h, x, []) }, conde { match t { [y, h, _ | _] => [_ | h] == x, z | [[x], [[] | _]] => { 1 == t, 1 != t }, [[2, 'b'], z] => [t == x, y != x], }, 1 == t, [matche x { [[y] | _] | [[1, 1], _, 2 | x] => , h => , ["a"] => { y == [[], [], t | y], false }, }, conde { [false, x != [x, 1, y]], [x != "bc", true] }] } }, }, x == x, [[1, x], [2, x, _], [1, [], "a"]] == x])
}
pub fn case_613(vars: &Vars) -> InferredGoal<DU, DE, Goal<DU, DE>> {
    let x = vars.v[0].clone();
    proto_vulcan!([matche x { _ => , [[z, z, x | t]] => { conde { [x != [[], [] | x], z == _], [matche x { [[1, 1, false | z], [y, t]] => , [[1], [h]] => { x == [[] | t], [t, h] != x }, }, append(t, x, [3])] } }, [['a', x, fresh_name_9], ['a' | x], [y]] => { |x, h| { x == 1, append(h, x, []) }, conde { match fresh_name_9 { [y, h, _ | _] => [_ | h] == x, z | [[x], [[] | _]] => { 1 == fresh_name_9, 1 != fresh_name_9 }, [[2, 'b'], z] => [fresh_name_9 == x, y != x], }, 1 == fresh_name_9, [matche x { [[y] | _] | [[1, 1], _, 2 | x] => , h => , ["a"] => { y == [[], [], fresh_name_9 | y], false }, }, conde { [false, x != [x, 1, y]], [x != "bc", true] }] } }, }, x == x, [[1, x], [2, x, _], [1, [], "a"]] == x])
}
pub fn case_614(vars: &Vars) -> InferredGoal<DU, DE, Goal<DU, DE>> {
    let x = vars.v[0].clone();
    let y = vars.v[1].clone();
    proto_vulcan!([x == [], [|t, x| { match y { 3 => , z => , x => [x, 1, _] == t, } }, append(y, x, [2, 1]), |x, z| { |x| { x == 3, z == [[1, 3], [x | x]], false }, ["bc"] == z, conde { member(x, []), [[] == x, [[]] != x], y == ["a", x] } }], conde { [conde { 1 != y, [y == y, y == [[]]] }, |t| { |h, y| { _ != t, [t] == x }, [x, 1 | 1] == t }], [y == [[], "bc" | x], append(y, x, [3, 1])], [x == [y, []], match ["bc", x] { [[h, "a" | _], ["bc", 1, false] | t] => , [true, [t]] | [2, [], [_, 1, 2 | t]] => { match [t] { x => { [[1 | t], x | t] != [t, _ | y] }, }, false }, }] }])
}
pub fn case_615(vars: &Vars) -> InferredGoal<DU, DE, Goal<DU, DE>> {
    let x = vars.v[0].clone();
    let y = vars.v[1].clone();
    proto_vulcan!([x == [], [|t, x| { match y { 3 => , z => , x => [x, 1, _] == t, } }, append(y, x, [2, 1]), |x, fresh_name_9| { |x| { x == 3, fresh_name_9 == [[1, 3], [x | x]], false }, ["bc"] == fresh_name_9, conde { member(x, []), [[] == x, [[]] != x], y == ["a", x] } }], conde { [conde { 1 != y, [y == y, y == [[]]] }, |t| { |h, y| { _ != t, [t] == x }, [x, 1 | 1] == t }], [y == [[], "bc" | x], append(y, x, [3, 1])], [x == [y, []], match ["bc", x] { [[h, "a" | _], ["bc", 1, false] | t] => , [true, [t]] | [2, [], [_, 1, 2 | t]] => { match [t] { x => { [[1 | t], x | t] != [t, _ | y] }, }, false }, }] }])
}
pub fn case_616(vars: &Vars) -> InferredGoal<DU, DE, Goal<DU, DE>> {
    let q = vars.v[0].clone();
    let x = vars.v[1].clone();
    proto_vulcan!([true == [2, ["a" | x], [q]], |t| { |x| { |h, y| { 2 == h, [x, 1, q | x] == y, [3, q] == x }, q != [[] | 1] }, t == 'b' }, [[q, false, q] | q] != [[]]])
}
pub fn case_617(vars: &Vars) -> InferredGoal<DU, DE, Goal<DU, DE>> {
    let q = vars.v[0].clone();
    let x = vars.v[1].clone();
    proto_vulcan!([true == [2, ["a" | x], [q]], |t| { |fresh_name_9| { |h, y| { 2 == h, [fresh_name_9, 1, q | fresh_name_9] == y, [3, q] == fresh_name_9 }, q != [[] | 1] }, t == 'b' }, [[q, false, q] | q] != [[]]])
}
pub fn case_618(vars: &Vars) -> InferredGoal<DU, DE, Goal<DU, DE>> {
    let q = vars.v[0].clone();
    let x = vars.v[1].clone();
    proto_vulcan!([|x| { [x != [_ | x], q == [x, x | q], [[1] == x, q == x]], [match ['a'] { h => _ != q, 2 | 1 => { false, x == x }, [[3, 2], [1, z], "bc"] => [[[q]] != [z], true], }, [_, _, []] == q, [3, _ | x] == x] }, match x { y => , [[]] => , }, closure { [matche x { 1 | 1 => { match q { 1 => x == [], [1, [y, _]] => [member(y, []), [x] == [2, [q, 1, [] | x], [x, true]]], [] => q == q, } }, }, x == q] }])
}
pub fn case_619(vars: &Vars) -> InferredGoal<DU, DE, Goal<DU, DE>> {
    let q = vars.v[0].clone();
    let x = vars.v[1].clone();
    proto_vulcan!([|fresh_name_9| { [fresh_name_9 != [_ | fresh_name_9], q == [fresh_name_9, fresh_name_9 | q], [[1] == fresh_name_9, q == fresh_name_9]], [match ['a'] { h => _ != q, 2 | 1 => { false, fresh_name_9 == fresh_name_9 }, [[3, 2], [1, z], "bc"] => [[[q]] != [z], true], }, [_, _, []] == q, [3, _ | fresh_name_9] == fresh_name_9] }, match x { y => , [[]] => , }, closure { [matche x { 1 | 1 => { match q { 1 => x == [], [1, [y, _]] => [member(y, []), [x] == [2, [q, 1, [] | x], [x, true]]], [] => q == q, } }, }, x == q] }])
}
pub fn case_620(vars: &Vars) -> InferredGoal<DU, DE, Goal<DU, DE>> {
    let x = vars.v[0].clone();
    proto_vulcan!([match x { [[_, x, 2], [y, 1 | t], [_, t]] => { [[[] == t], x == 1], _ == y }, 'a' => [append(x, x, []), |h, t| { |h| { h != _, 2 == h, t == 3 }, t == t, match ['a', [] | x] { [t, [t], 1] | [] => , [[t, y], _ | 2] => { y != ['a', x, []] }, [[z, 'b'], []] => [1] == [1, z, x], } }], [[h, _, 1 | 2], [x] | z] => , }, match x { _ => , [[_, [], [] | h], z, [[], 1, _]] => , [z] => , }, x == [x, x, 'a']])
}
pub fn case_621(vars: &Vars) -> InferredGoal<DU, DE, Goal<DU, DE>> {
    let x = vars.v[0].clone();
    proto_vulcan!([match x { [[_, x, 2], [y, 1 | t], [_, t]] => { [[[] == t], x == 1], _ == y }, 'a' => [append(x, x, []), |h, t| { |h| { h != _, 2 == h, t == 3 }, t == t, match ['a', [] | x] { [t, [t], 1] | [] => , [[fresh_name_9, y], _ | 2] => { y != ['a', x, []] }, [[z, 'b'], []] => [1] == [1, z, x], } }], [[h, _, 1 | 2], [x] | z] => , }, match x { _ => , [[_, [], [] | h], z, [[], 1, _]] => , [z] => , }, x == [x, x, 'a']])
}
pub fn case_622(vars: &Vars) -> InferredGoal<DU, DE, Goal<DU, DE>> {
    let x = vars.v[0].clone();
    proto_vulcan!([|z| { [[]] == z }, |t| { |z, h| { true, t == [[], 'a'] }, [x, [x, "bc", x], _] == t, |z, x| { [z == [[]]] } }, x == [["a", x | x], [_]]])
}
pub fn case_623(vars: &Vars) -> InferredGoal<DU, DE, Goal<DU, DE>> {
    let x = vars.v[0].clone();
    proto_vulcan!([|z| { [[]] == z }, |t| { |z, h| { true, t == [[], 'a'] }, [x, [x, "bc", x], _] == t, |fresh_name_9, x| { [fresh_name_9 == [[]]] } }, x == [["a", x | x], [_]]])
}
pub const NCASES: usize = 624;
pub fn case(i: usize, vars: &Vars) -> Goal<DU, DE> {
    match i {
        0 => case_0(vars).goal,
        1 => case_1(vars).goal,
        2 => case_2(vars).goal,
        3 => case_3(vars).goal,
        4 => case_4(vars).goal,
        5 => case_5(vars).goal,
        6 => case_6(vars).goal,
        7 => case_7(vars).goal,
        8 => case_8(vars).goal,
        9 => case_9(vars).goal,
        10 => case_10(vars).goal,
        11 => case_11(vars).goal,
        12 => case_12(vars).goal,
        13 => case_13(vars).goal,
        14 => case_14(vars).goal,
        15 => case_15(vars).goal,
        16 => case_16(vars).goal,
        17 => case_17(vars).goal,
        18 => case_18(vars).goal,
        19 => case_19(vars).goal,
        20 => case_20(vars).goal,
        21 => case_21(vars).goal,
        22 => case_22(vars).goal,
        23 => case_23(vars).goal,
        24 => case_24(vars).goal,
        25 => case_25(vars).goal,
        26 => case_26(vars).goal,
        27 => case_27(vars).goal,
        28 => case_28(vars).goal,
        29 => case_29(vars).goal,
        30 => case_30(vars).goal,
        31 => case_31(vars).goal,
        32 => case_32(vars).goal,
        33 => case_33(vars).goal,
        34 => case_34(vars).goal,
        35 => case_35(vars).goal,
        36 => case_36(vars).goal,
        37 => case_37(vars).goal,
        38 => case_38(vars).goal,
        39 => case_39(vars).goal,
        40 => case_40(vars).goal,
        41 => case_41(vars).goal,
        42 => case_42(vars).goal,
        43 => case_43(vars).goal,
        44 => case_44(vars).goal,
        45 => case_45(vars).goal,
        46 => case_46(vars).goal,
        47 => case_47(vars).goal,
        48 => case_48(vars).goal,
        49 => case_49(vars).goal,
        50 => case_50(vars).goal,
        51 => case_51(vars).goal,
        52 => case_52(vars).goal,
        53 => case_53(vars).goal,
        54 => case_54(vars).goal,
        55 => case_55(vars).goal,
        56 => case_56(vars).goal,
        57 => case_57(vars).goal,
        58 => case_58(vars).goal,
        59 => case_59(vars).goal,
        60 => case_60(vars).goal,
        61 => case_61(vars).goal,
        62 => case_62(vars).goal,
        63 => case_63(vars).goal,
        64 => case_64(vars).goal,
        65 => case_65(vars).goal,
        66 => case_66(vars).goal,
        67 => case_67(vars).goal,
        68 => case_68(vars).goal,
        69 => case_69(vars).goal,
        70 => case_70(vars).goal,
        71 => case_71(vars).goal,
        72 => case_72(vars).goal,
        73 => case_73(vars).goal,
        74 => case_74(vars).goal,
        75 => case_75(vars).goal,
        76 => case_76(vars).goal,
        77 => case_77(vars).goal,
        78 => case_78(vars).goal,
        79 => case_79(vars).goal,
        80 => case_80(vars).goal,
        81 => case_81(vars).goal,
        82 => case_82(vars).goal,
        83 => case_83(vars).goal,
        84 => case_84(vars).goal,
        85 => case_85(vars).goal,
        86 => case_86(vars).goal,
        87 => case_87(vars).goal,
        88 => case_88(vars).goal,
        89 => case_89(vars).goal,
        90 => case_90(vars).goal,
        91 => case_91(vars).goal,
        92 => case_92(vars).goal,
        93 => case_93(vars).goal,
        94 => case_94(vars).goal,
        95 => case_95(vars).goal,
        96 => case_96(vars).goal,
        97 => case_97(vars).goal,
        98 => case_98(vars).goal,
        99 => case_99(vars).goal,
        100 => case_100(vars).goal,
        101 => case_101(vars).goal,
        102 => case_102(vars).goal,
        103 => case_103(vars).goal,
        104 => case_104(vars).goal,
        105 => case_105(vars).goal,
        106 => case_106(vars).goal,
        107 => case_107(vars).goal,
        108 => case_108(vars).goal,
        109 => case_109(vars).goal,
        110 => case_110(vars).goal,
        111 => case_111(vars).goal,
        112 => case_112(vars).goal,
        113 => case_113(vars).goal,
        114 => case_114(vars).goal,
        115 => case_115(vars).goal,
        116 => case_116(vars).goal,
        117 => case_117(vars).goal,
        118 => case_118(vars).goal,
        119 => case_119(vars).goal,
        120 => case_120(vars).goal,
        121 => case_121(vars).goal,
        122 => case_122(vars).goal,
        123 => case_123(vars).goal,
        124 => case_124(vars).goal,
        125 => case_125(vars).goal,
        126 => case_126(vars).goal,
        127 => case_127(vars).goal,
        128 => case_128(vars).goal,
        129 => case_129(vars).goal,
        130 => case_130(vars).goal,
        131 => case_131(vars).goal,
        132 => case_132(vars).goal,
        133 => case_133(vars).goal,
        134 => case_134(vars).goal,
        135 => case_135(vars).goal,
        136 => case_136(vars).goal,
        137 => case_137(vars).goal,
        138 => case_138(vars).goal,
        139 => case_139(vars).goal,
        140 => case_140(vars).goal,
        141 => case_141(vars).goal,
        142 => case_142(vars).goal,
        143 => case_143(vars).goal,
        144 => case_144(vars).goal,
        145 => case_145(vars).goal,
        146 => case_146(vars).goal,
        147 => case_147(vars).goal,
        148 => case_148(vars).goal,
        149 => case_149(vars).goal,
        150 => case_150(vars).goal,
        151 => case_151(vars).goal,
        152 => case_152(vars).goal,
        153 => case_153(vars).goal,
        154 => case_154(vars).goal,
        155 => case_155(vars).goal,
        156 => case_156(vars).goal,
        157 => case_157(vars).goal,
        158 => case_158(vars).goal,
        159 => case_159(vars).goal,
        160 => case_160(vars).goal,
        161 => case_161(vars).goal,
        162 => case_162(vars).goal,
        163 => case_163(vars).goal,
        164 => case_164(vars).goal,
        165 => case_165(vars).goal,
        166 => case_166(vars).goal,
        167 => case_167(vars).goal,
        168 => case_168(vars).goal,
        169 => case_169(vars).goal,
        170 => case_170(vars).goal,
        171 => case_171(vars).goal,
        172 => case_172(vars).goal,
        173 => case_173(vars).goal,
        174 => case_174(vars).goal,
        175 => case_175(vars).goal,
        176 => case_176(vars).goal,
        177 => case_177(vars).goal,
        178 => case_178(vars).goal,
        179 => case_179(vars).goal,
        180 => case_180(vars).goal,
        181 => case_181(vars).goal,
        182 => case_182(vars).goal,
        183 => case_183(vars).goal,
        184 => case_184(vars).goal,
        185 => case_185(vars).goal,
        186 => case_186(vars).goal,
        187 => case_187(vars).goal,
        188 => case_188(vars).goal,
        189 => case_189(vars).goal,
        190 => case_190(vars).goal,
        191 => case_191(vars).goal,
        192 => case_192(vars).goal,
        193 => case_193(vars).goal,
        194 => case_194(vars).goal,
        195 => case_195(vars).goal,
        196 => case_196(vars).goal,
        197 => case_197(vars).goal,
        198 => case_198(vars).goal,
        199 => case_199(vars).goal,
        200 => case_200(vars).goal,
        201 => case_201(vars).goal,
        202 => case_202(vars).goal,
        203 => case_203(vars).goal,
        204 => case_204(vars).goal,
        205 => case_205(vars).goal,
        206 => case_206(vars).goal,
        207 => case_207(vars).goal,
        208 => case_208(vars).goal,
        209 => case_209(vars).goal,
        210 => case_210(vars).goal,
        211 => case_211(vars).goal,
        212 => case_212(vars).goal,
        213 => case_213(vars).goal,
        214 => case_214(vars).goal,
        215 => case_215(vars).goal,
        216 => case_216(vars).goal,
        217 => case_217(vars).goal,
        218 => case_218(vars).goal,
        219 => case_219(vars).goal,
        220 => case_220(vars).goal,
        221 => case_221(vars).goal,
        222 => case_222(vars).goal,
        223 => case_223(vars).goal,
        224 => case_224(vars).goal,
        225 => case_225(vars).goal,
        226 => case_226(vars).goal,
        227 => case_227(vars).goal,
        228 => case_228(vars).goal,
        229 => case_229(vars).goal,
        230 => case_230(vars).goal,
        231 => case_231(vars).goal,
        232 => case_232(vars).goal,
        233 => case_233(vars).goal,
        234 => case_234(vars).goal,
        235 => case_235(vars).goal,
        236 => case_236(vars).goal,
        237 => case_237(vars).goal,
        238 => case_238(vars).goal,
        239 => case_239(vars).goal,
        240 => case_240(vars).goal,
        241 => case_241(vars).goal,
        242 => case_242(vars).goal,
        243 => case_243(vars).goal,
        244 => case_244(vars).goal,
        245 => case_245(vars).goal,
        246 => case_246(vars).goal,
        247 => case_247(vars).goal,
        248 => case_248(vars).goal,
        249 => case_249(vars).goal,
        250 => case_250(vars).goal,
        251 => case_251(vars).goal,
        252 => case_252(vars).goal,
        253 => case_253(vars).goal,
        254 => case_254(vars).goal,
        255 => case_255(vars).goal,
        256 => case_256(vars).goal,
        257 => case_257(vars).goal,
        258 => case_258(vars).goal,
        259 => case_259(vars).goal,
        260 => case_260(vars).goal,
        261 => case_261(vars).goal,
        262 => case_262(vars).goal,
        263 => case_263(vars).goal,
        264 => case_264(vars).goal,
        265 => case_265(vars).goal,
        266 => case_266(vars).goal,
        267 => case_267(vars).goal,
        268 => case_268(vars).goal,
        269 => case_269(vars).goal,
        270 => case_270(vars).goal,
        271 => case_271(vars).goal,
        272 => case_272(vars).goal,
        273 => case_273(vars).goal,
        274 => case_274(vars).goal,
        275 => case_275(vars).goal,
        276 => case_276(vars).goal,
        277 => case_277(vars).goal,
        278 => case_278(vars).goal,
        279 => case_279(vars).goal,
        280 => case_280(vars).goal,
        281 => case_281(vars).goal,
        282 => case_282(vars).goal,
        283 => case_283(vars).goal,
        284 => case_284(vars).goal,
        285 => case_285(vars).goal,
        286 => case_286(vars).goal,
        287 => case_287(vars).goal,
        288 => case_288(vars).goal,
        289 => case_289(vars).goal,
        290 => case_290(vars).goal,
        291 => case_291(vars).goal,
        292 => case_292(vars).goal,
        293 => case_293(vars).goal,
        294 => case_294(vars).goal,
        295 => case_295(vars).goal,
        296 => case_296(vars).goal,
        297 => case_297(vars).goal,
        298 => case_298(vars).goal,
        299 => case_299(vars).goal,
        300 => case_300(vars).goal,
        301 => case_301(vars).goal,
        302 => case_302(vars).goal,
        303 => case_303(vars).goal,
        304 => case_304(vars).goal,
        305 => case_305(vars).goal,
        306 => case_306(vars).goal,
        307 => case_307(vars).goal,
        308 => case_308(vars).goal,
        309 => case_309(vars).goal,
        310 => case_310(vars).goal,
        311 => case_311(vars).goal,
        312 => case_312(vars).goal,
        313 => case_313(vars).goal,
        314 => case_314(vars).goal,
        315 => case_315(vars).goal,
        316 => case_316(vars).goal,
        317 => case_317(vars).goal,
        318 => case_318(vars).goal,
        319 => case_319(vars).goal,
        320 => case_320(vars).goal,
        321 => case_321(vars).goal,
        322 => case_322(vars).goal,
        323 => case_323(vars).goal,
        324 => case_324(vars).goal,
        325 => case_325(vars).goal,
        326 => case_326(vars).goal,
        327 => case_327(vars).goal,
        328 => case_328(vars).goal,
        329 => case_329(vars).goal,
        330 => case_330(vars).goal,
        331 => case_331(vars).goal,
        332 => case_332(vars).goal,
        333 => case_333(vars).goal,
        334 => case_334(vars).goal,
        335 => case_335(vars).goal,
        336 => case_336(vars).goal,
        337 => case_337(vars).goal,
        338 => case_338(vars).goal,
        339 => case_339(vars).goal,
        340 => case_340(vars).goal,
        341 => case_341(vars).goal,
        342 => case_342(vars).goal,
        343 => case_343(vars).goal,
        344 => case_344(vars).goal,
        345 => case_345(vars).goal,
        346 => case_346(vars).goal,
        347 => case_347(vars).goal,
        348 => case_348(vars).goal,
        349 => case_349(vars).goal,
        350 => case_350(vars).goal,
        351 => case_351(vars).goal,
        352 => case_352(vars).goal,
        353 => case_353(vars).goal,
        354 => case_354(vars).goal,
        355 => case_355(vars).goal,
        356 => case_356(vars).goal,
        357 => case_357(vars).goal,
        358 => case_358(vars).goal,
        359 => case_359(vars).goal,
        360 => case_360(vars).goal,
        361 => case_361(vars).goal,
        362 => case_362(vars).goal,
        363 => case_363(vars).goal,
        364 => case_364(vars).goal,
        365 => case_365(vars).goal,
        366 => case_366(vars).goal,
        367 => case_367(vars).goal,
        368 => case_368(vars).goal,
        369 => case_369(vars).goal,
        370 => case_370(vars).goal,
        371 => case_371(vars).goal,
        372 => case_372(vars).goal,
        373 => case_373(vars).goal,
        374 => case_374(vars).goal,
        375 => case_375(vars).goal,
        376 => case_376(vars).goal,
        377 => case_377(vars).goal,
        378 => case_378(vars).goal,
        379 => case_379(vars).goal,
        380 => case_380(vars).goal,
        381 => case_381(vars).goal,
        382 => case_382(vars).goal,
        383 => case_383(vars).goal,
        384 => case_384(vars).goal,
        385 => case_385(vars).goal,
        386 => case_386(vars).goal,
        387 => case_387(vars).goal,
        388 => case_388(vars).goal,
        389 => case_389(vars).goal,
        390 => case_390(vars).goal,
        391 => case_391(vars).goal,
        392 => case_392(vars).goal,
        393 => case_393(vars).goal,
        394 => case_394(vars).goal,
        395 => case_395(vars).goal,
        396 => case_396(vars).goal,
        397 => case_397(vars).goal,
        398 => case_398(vars).goal,
        399 => case_399(vars).goal,
        400 => case_400(vars).goal,
        401 => case_401(vars).goal,
        402 => case_402(vars).goal,
        403 => case_403(vars).goal,
        404 => case_404(vars).goal,
        405 => case_405(vars).goal,
        406 => case_406(vars).goal,
        407 => case_407(vars).goal,
        408 => case_408(vars).goal,
        409 => case_409(vars).goal,
        410 => case_410(vars).goal,
        411 => case_411(vars).goal,
        412 => case_412(vars).goal,
        413 => case_413(vars).goal,
        414 => case_414(vars).goal,
        415 => case_415(vars).goal,
        416 => case_416(vars).goal,
        417 => case_417(vars).goal,
        418 => case_418(vars).goal,
        419 => case_419(vars).goal,
        420 => case_420(vars).goal,
        421 => case_421(vars).goal,
        422 => case_422(vars).goal,
        423 => case_423(vars).goal,
        424 => case_424(vars).goal,
        425 => case_425(vars).goal,
        426 => case_426(vars).goal,
        427 => case_427(vars).goal,
        428 => case_428(vars).goal,
        429 => case_429(vars).goal,
        430 => case_430(vars).goal,
        431 => case_431(vars).goal,
        432 => case_432(vars).goal,
        433 => case_433(vars).goal,
        434 => case_434(vars).goal,
        435 => case_435(vars).goal,
        436 => case_436(vars).goal,
        437 => case_437(vars).goal,
        438 => case_438(vars).goal,
        439 => case_439(vars).goal,
        440 => case_440(vars).goal,
        441 => case_441(vars).goal,
        442 => case_442(vars).goal,
        443 => case_443(vars).goal,
        444 => case_444(vars).goal,
        445 => case_445(vars).goal,
        446 => case_446(vars).goal,
        447 => case_447(vars).goal,
        448 => case_448(vars).goal,
        449 => case_449(vars).goal,
        450 => case_450(vars).goal,
        451 => case_451(vars).goal,
        452 => case_452(vars).goal,
        453 => case_453(vars).goal,
        454 => case_454(vars).goal,
        455 => case_455(vars).goal,
        456 => case_456(vars).goal,
        457 => case_457(vars).goal,
        458 => case_458(vars).goal,
        459 => case_459(vars).goal,
        460 => case_460(vars).goal,
        461 => case_461(vars).goal,
        462 => case_462(vars).goal,
        463 => case_463(vars).goal,
        464 => case_464(vars).goal,
        465 => case_465(vars).goal,
        466 => case_466(vars).goal,
        467 => case_467(vars).goal,
        468 => case_468(vars).goal,
        469 => case_469(vars).goal,
        470 => case_470(vars).goal,
        471 => case_471(vars).goal,
        472 => case_472(vars).goal,
        473 => case_473(vars).goal,
        474 => case_474(vars).goal,
        475 => case_475(vars).goal,
        476 => case_476(vars).goal,
        477 => case_477(vars).goal,
        478 => case_478(vars).goal,
        479 => case_479(vars).goal,
        480 => case_480(vars).goal,
        481 => case_481(vars).goal,
        482 => case_482(vars).goal,
        483 => case_483(vars).goal,
        484 => case_484(vars).goal,
        485 => case_485(vars).goal,
        486 => case_486(vars).goal,
        487 => case_487(vars).goal,
        488 => case_488(vars).goal,
        489 => case_489(vars).goal,
        490 => case_490(vars).goal,
        491 => case_491(vars).goal,
        492 => case_492(vars).goal,
        493 => case_493(vars).goal,
        494 => case_494(vars).goal,
        495 => case_495(vars).goal,
        496 => case_496(vars).goal,
        497 => case_497(vars).goal,
        498 => case_498(vars).goal,
        499 => case_499(vars).goal,
        500 => case_500(vars).goal,
        501 => case_501(vars).goal,
        502 => case_502(vars).goal,
        503 => case_503(vars).goal,
        504 => case_504(vars).goal,
        505 => case_505(vars).goal,
        506 => case_506(vars).goal,
        507 => case_507(vars).goal,
        508 => case_508(vars).goal,
        509 => case_509(vars).goal,
        510 => case_510(vars).goal,
        511 => case_511(vars).goal,
        512 => case_512(vars).goal,
        513 => case_513(vars).goal,
        514 => case_514(vars).goal,
        515 => case_515(vars).goal,
        516 => case_516(vars).goal,
        517 => case_517(vars).goal,
        518 => case_518(vars).goal,
        519 => case_519(vars).goal,
        520 => case_520(vars).goal,
        521 => case_521(vars).goal,
        522 => case_522(vars).goal,
        523 => case_523(vars).goal,
        524 => case_524(vars).goal,
        525 => case_525(vars).goal,
        526 => case_526(vars).goal,
        527 => case_527(vars).goal,
        528 => case_528(vars).goal,
        529 => case_529(vars).goal,
        530 => case_530(vars).goal,
        531 => case_531(vars).goal,
        532 => case_532(vars).goal,
        533 => case_533(vars).goal,
        534 => case_534(vars).goal,
        535 => case_535(vars).goal,
        536 => case_536(vars).goal,
        537 => case_537(vars).goal,
        538 => case_538(vars).goal,
        539 => case_539(vars).goal,
        540 => case_540(vars).goal,
        541 => case_541(vars).goal,
        542 => case_542(vars).goal,
        543 => case_543(vars).goal,
        544 => case_544(vars).goal,
        545 => case_545(vars).goal,
        546 => case_546(vars).goal,
        547 => case_547(vars).goal,
        548 => case_548(vars).goal,
        549 => case_549(vars).goal,
        550 => case_550(vars).goal,
        551 => case_551(vars).goal,
        552 => case_552(vars).goal,
        553 => case_553(vars).goal,
        554 => case_554(vars).goal,
        555 => case_555(vars).goal,
        556 => case_556(vars).goal,
        557 => case_557(vars).goal,
        558 => case_558(vars).goal,
        559 => case_559(vars).goal,
        560 => case_560(vars).goal,
        561 => case_561(vars).goal,
        562 => case_562(vars).goal,
        563 => case_563(vars).goal,
        564 => case_564(vars).goal,
        565 => case_565(vars).goal,
        566 => case_566(vars).goal,
        567 => case_567(vars).goal,
        568 => case_568(vars).goal,
        569 => case_569(vars).goal,
        570 => case_570(vars).goal,
        571 => case_571(vars).goal,
        572 => case_572(vars).goal,
        573 => case_573(vars).goal,
        574 => case_574(vars).goal,
        575 => case_575(vars).goal,
        576 => case_576(vars).goal,
        577 => case_577(vars).goal,
        578 => case_578(vars).goal,
        579 => case_579(vars).goal,
        580 => case_580(vars).goal,
        581 => case_581(vars).goal,
        582 => case_582(vars).goal,
        583 => case_583(vars).goal,
        584 => case_584(vars).goal,
        585 => case_585(vars).goal,
        586 => case_586(vars).goal,
        587 => case_587(vars).goal,
        588 => case_588(vars).goal,
        589 => case_589(vars).goal,
        590 => case_590(vars).goal,
        591 => case_591(vars).goal,
        592 => case_592(vars).goal,
        593 => case_593(vars).goal,
        594 => case_594(vars).goal,
        595 => case_595(vars).goal,
        596 => case_596(vars).goal,
        597 => case_597(vars).goal,
        598 => case_598(vars).goal,
        599 => case_599(vars).goal,
        600 => case_600(vars).goal,
        601 => case_601(vars).goal,
        602 => case_602(vars).goal,
        603 => case_603(vars).goal,
        604 => case_604(vars).goal,
        605 => case_605(vars).goal,
        606 => case_606(vars).goal,
        607 => case_607(vars).goal,
        608 => case_608(vars).goal,
        609 => case_609(vars).goal,
        610 => case_610(vars).goal,
        611 => case_611(vars).goal,
        612 => case_612(vars).goal,
        613 => case_613(vars).goal,
        614 => case_614(vars).goal,
        615 => case_615(vars).goal,
        616 => case_616(vars).goal,
        617 => case_617(vars).goal,
        618 => case_618(vars).goal,
        619 => case_619(vars).goal,
        620 => case_620(vars).goal,
        621 => case_621(vars).goal,
        622 => case_622(vars).goal,
        623 => case_623(vars).goal,
        _ => unreachable!(),
    }
}
