pub fn case_0(vars: &Vars) -> InferredGoal<DU, DE, Goal<DU, DE>> {
    let qa = vars.v[0].clone();
    let qb = vars.v[1].clone();
    let coll0: Vec<LT> = vec![qa.clone(), qa.clone()];
    proto_vulcan!([for e in &coll0 { conde { e == 1, true } }])
}
pub fn case_1(vars: &Vars) -> InferredGoal<DU, DE, Goal<DU, DE>> {
    let qa = vars.v[0].clone();
    let qb = vars.v[1].clone();
    let coll0: LT = LT::from_vec(vec![lterm!(7), lterm!(7), lterm!(3)]);
    proto_vulcan!([for e in &coll0 { conde { qa == 5, e == e } }])
}
pub fn case_2(vars: &Vars) -> InferredGoal<DU, DE, Goal<DU, DE>> {
    let qa = vars.v[0].clone();
    let qb = vars.v[1].clone();
    let coll0: LT = LT::from_vec(vec![qa.clone(), qb.clone(), qb.clone()]);
    proto_vulcan!([for e in &coll0 { conde { e == 2, true }, e != 3 }])
}
pub fn case_3(vars: &Vars) -> InferredGoal<DU, DE, Goal<DU, DE>> {
    let qa = vars.v[0].clone();
    let qb = vars.v[1].clone();
    let coll0: Vec<LT> = vec![lterm!(1), lterm!(2)];
    proto_vulcan!([conde { qa == 1, qa == 3 }, for e in &coll0 { qa != e, true }])
}
pub fn case_4(vars: &Vars) -> InferredGoal<DU, DE, Goal<DU, DE>> {
    let qa = vars.v[0].clone();
    let qb = vars.v[1].clone();
    let coll0: Vec<LT> = vec![qb.clone(), lterm!(2)];
    proto_vulcan!([for e in &coll0 { qa == 4, true, e != 2 }])
}
pub fn case_5(vars: &Vars) -> InferredGoal<DU, DE, Goal<DU, DE>> {
    let qa = vars.v[0].clone();
    let qb = vars.v[1].clone();
    let coll0: LT = LT::from_vec(vec![lterm!(1), lterm!([]), lterm!(2)]);
    proto_vulcan!([conde { qa == 1, qa == 2, qa == 3 }, for e in &coll0 { qa != e }])
}
pub fn case_6(vars: &Vars) -> InferredGoal<DU, DE, Goal<DU, DE>> {
    let qa = vars.v[0].clone();
    let qb = vars.v[1].clone();
    let coll0: Vec<LT> = vec![lterm!([]), qa.clone()];
    proto_vulcan!([for e in &coll0 { e != 2, conde { e == 1, true } }])
}
pub fn case_7(vars: &Vars) -> InferredGoal<DU, DE, Goal<DU, DE>> {
    let qa = vars.v[0].clone();
    let qb = vars.v[1].clone();
    let coll0: LT = LT::from_vec(vec![lterm!(1)]);
    proto_vulcan!([for e in &coll0 { [qa] != qa }])
}
pub fn case_8(vars: &Vars) -> InferredGoal<DU, DE, Goal<DU, DE>> {
    let qa = vars.v[0].clone();
    let qb = vars.v[1].clone();
    let coll0: Vec<LT> = vec![lterm!(2), lterm!([[], 2])];
    proto_vulcan!([for e in &coll0 { [2, qa] != e, [2, qb] != qb }])
}
pub fn case_9(vars: &Vars) -> InferredGoal<DU, DE, Goal<DU, DE>> {
    let qa = vars.v[0].clone();
    let qb = vars.v[1].clone();
    let coll0: Vec<LT> = vec![];
    proto_vulcan!([[qa, qa, qa | qa] == qa, for e in &coll0 { e == ([], _) }])
}
pub fn case_10(vars: &Vars) -> InferredGoal<DU, DE, Goal<DU, DE>> {
    let qa = vars.v[0].clone();
    let qb = vars.v[1].clone();
    let coll0: Vec<LT> = vec![lterm!([[], 2]), qb.clone()];
    proto_vulcan!([qb == qa, for e in &coll0 { conde { e == 3, true }, [3, 3] != qb, qa != (e, _) }])
}
pub fn case_11(vars: &Vars) -> InferredGoal<DU, DE, Goal<DU, DE>> {
    let qa = vars.v[0].clone();
    let qb = vars.v[1].clone();
    let coll0: Vec<LT> = vec![];
    proto_vulcan!([|x| { [qa, qb | qa] == 2 }, for e in &coll0 { conde { e == 3, true }, [2, true, 2] != e }])
}
pub fn case_12(vars: &Vars) -> InferredGoal<DU, DE, Goal<DU, DE>> {
    let qa = vars.v[0].clone();
    let qb = vars.v[1].clone();
    let coll0: Vec<LT> = vec![lterm!([]), lterm!([])];
    proto_vulcan!([for e in &coll0 { conde { e == 3, true }, [|tz| { tz == [2, 3], [1 | tz] != [1, 2, 3] }, [[e | qa], [qa, e | e], [3, qb | qb]] == 1, true] }])
}
pub fn case_13(vars: &Vars) -> InferredGoal<DU, DE, Goal<DU, DE>> {
    let qa = vars.v[0].clone();
    let qb = vars.v[1].clone();
    let coll0: Vec<LT> = vec![];
    proto_vulcan!([for e in &coll0 { false }])
}
pub fn case_14(vars: &Vars) -> InferredGoal<DU, DE, Goal<DU, DE>> {
    let qa = vars.v[0].clone();
    let qb = vars.v[1].clone();
    let coll0: LT = LT::from_vec(vec![qa.clone(), lterm!(2), lterm!([[], 1])]);
    proto_vulcan!([qa != [[qa], [_], qb], for e in &coll0 { qa != 1 }])
}
pub fn case_15(vars: &Vars) -> InferredGoal<DU, DE, Goal<DU, DE>> {
    let qa = vars.v[0].clone();
    let qb = vars.v[1].clone();
    let coll0: Vec<LT> = vec![];
    proto_vulcan!([for e in &coll0 { [1 == e, e == [[] | qb], e == P3(1, 1, qa)], |z| { member(qa, [2, 3]), qa == [z, 2], member(z, [3, 3]) } }])
}
pub fn case_16(vars: &Vars) -> InferredGoal<DU, DE, Goal<DU, DE>> {
    let qa = vars.v[0].clone();
    let qb = vars.v[1].clone();
    let coll0: Vec<LT> = vec![];
    proto_vulcan!([qa == [true, 2, [] | qa], for e in &coll0 { [[qa, 2, 1 | qa], [_, _], e] == qa, qa != P3([], e, [_, _]) }])
}
pub fn case_17(vars: &Vars) -> InferredGoal<DU, DE, Goal<DU, DE>> {
    let qa = vars.v[0].clone();
    let qb = vars.v[1].clone();
    let coll0: LT = LT::from_vec(vec![lterm!([1]), lterm!([1]), lterm!([1])]);
    proto_vulcan!([qa == 2, for e in &coll0 { conde { e == 3, true }, [1] == qa }])
}
pub fn case_18(vars: &Vars) -> InferredGoal<DU, DE, Goal<DU, DE>> {
    let qa = vars.v[0].clone();
    let qb = vars.v[1].clone();
    let coll0: LT = LT::from_vec(vec![lterm!(2), lterm!([]), lterm!([])]);
    proto_vulcan!([for e in &coll0 { |tz| { tz == [2, 3], [3, 3, 2, 3] != [3, 3 | tz] } }])
}
pub fn case_19(vars: &Vars) -> InferredGoal<DU, DE, Goal<DU, DE>> {
    let qa = vars.v[0].clone();
    let qb = vars.v[1].clone();
    let coll0: LT = LT::from_vec(vec![lterm!(1)]);
    proto_vulcan!([for e in &coll0 { conde { e == 1, true }, |y| {  } }])
}
pub fn case_20(vars: &Vars) -> InferredGoal<DU, DE, Goal<DU, DE>> {
    let qa = vars.v[0].clone();
    let qb = vars.v[1].clone();
    let coll0: Vec<LT> = vec![];
    proto_vulcan!([for e in &coll0 { append(e, qb, []), |h| { qa == 1 } }])
}
pub fn case_21(vars: &Vars) -> InferredGoal<DU, DE, Goal<DU, DE>> {
    let qa = vars.v[0].clone();
    let qb = vars.v[1].clone();
    let coll0: Vec<LT> = vec![lterm!([[], 2]), lterm!(1)];
    proto_vulcan!([for e in &coll0 { 1 != e }])
}
pub fn case_22(vars: &Vars) -> InferredGoal<DU, DE, Goal<DU, DE>> {
    let qa = vars.v[0].clone();
    let qb = vars.v[1].clone();
    let coll0: LT = LT::from_vec(vec![lterm!(2)]);
    proto_vulcan!([P3(1, [1], 1) == qb, for e in &coll0 { conde { ["bc" != e, e == [e, qb, 2]], qa == [_, [] | qb], [1] == _ }, conde { [[_, "a"] == [2, [qb, [], true] | qa], "bc" == qa], [append(qb, qb, [2, 3]), [[2, 3, 3], _] != qa] } }])
}
pub fn case_23(vars: &Vars) -> InferredGoal<DU, DE, Goal<DU, DE>> {
    let qa = vars.v[0].clone();
    let qb = vars.v[1].clone();
    let coll0: Vec<LT> = vec![lterm!([[], 1]), lterm!([1]), lterm!([1]), qa.clone()];
    proto_vulcan!([[qa == [2 | qb], qb != P3([qb, 3], [], 2), member(qb, [3, 2])], for e in &coll0 { conde { e == 1, true }, qa == qb }])
}
pub fn case_24(vars: &Vars) -> InferredGoal<DU, DE, Goal<DU, DE>> {
    let qa = vars.v[0].clone();
    let qb = vars.v[1].clone();
    let coll0: Vec<LT> = vec![];
    proto_vulcan!([qa == P3([[], 1], _, 1), for e in &coll0 { qa == _ }])
}
pub fn case_25(vars: &Vars) -> InferredGoal<DU, DE, Goal<DU, DE>> {
    let qa = vars.v[0].clone();
    let qb = vars.v[1].clone();
    let coll0: LT = LT::from_vec(vec![lterm!([[], 2]), lterm!([[], 2]), lterm!(1)]);
    proto_vulcan!([|t| { t == 3 }, for e in &coll0 { conde { e == 3, true }, |tz| { [3, 2, 2, 1] != [3, 2 | tz], tz == [2, 1] } }])
}
pub fn case_26(vars: &Vars) -> InferredGoal<DU, DE, Goal<DU, DE>> {
    let qa = vars.v[0].clone();
    let qb = vars.v[1].clone();
    let coll0: Vec<LT> = vec![];
    proto_vulcan!([for e in &coll0 { conde { e == 2, true }, conde { [e == qb, P3([], [e, qb], _) == []] } }])
}
pub fn case_27(vars: &Vars) -> InferredGoal<DU, DE, Goal<DU, DE>> {
    let qa = vars.v[0].clone();
    let qb = vars.v[1].clone();
    let coll0: Vec<LT> = vec![];
    proto_vulcan!([qb == qb, for e in &coll0 { conde { e == 1, true }, qb == 2 }])
}
pub fn case_28(vars: &Vars) -> InferredGoal<DU, DE, Goal<DU, DE>> {
    let qa = vars.v[0].clone();
    let qb = vars.v[1].clone();
    let coll0: Vec<LT> = vec![lterm!([[], 1]), lterm!([]), qb.clone(), qb.clone()];
    proto_vulcan!([for e in &coll0 { conde { e == 2, true }, qa == [] }])
}
pub fn case_29(vars: &Vars) -> InferredGoal<DU, DE, Goal<DU, DE>> {
    let qa = vars.v[0].clone();
    let qb = vars.v[1].clone();
    let coll0: LT = LT::from_vec(vec![lterm!(3)]);
    proto_vulcan!([for e in &coll0 { qb == _, |tz| { [2 | tz] != [2, 3, 2], tz == [3, 2] } }])
}
pub fn case_30(vars: &Vars) -> InferredGoal<DU, DE, Goal<DU, DE>> {
    let qa = vars.v[0].clone();
    let qb = vars.v[1].clone();
    let coll0: Vec<LT> = vec![];
    proto_vulcan!([conde { true }, for e in &coll0 { conde { e == 2, true }, |tz| { [3 | tz] != [3, 2], tz == [2] } }])
}
pub fn case_31(vars: &Vars) -> InferredGoal<DU, DE, Goal<DU, DE>> {
    let qa = vars.v[0].clone();
    let qb = vars.v[1].clone();
    let coll0: Vec<LT> = vec![];
    proto_vulcan!([for e in &coll0 { [1] == e, qb == [] }])
}
pub fn case_32(vars: &Vars) -> InferredGoal<DU, DE, Goal<DU, DE>> {
    let qa = vars.v[0].clone();
    let qb = vars.v[1].clone();
    let coll0: Vec<LT> = vec![];
    proto_vulcan!([|tz| { tz == [3], [2, 3 | tz] != [2, 3, 3] }, for e in &coll0 { conde { e == 2, true }, |tz| { tz == [3, 3], [2, 3, 3] != [2 | tz] }, |x, z| { e != P3([], 2, _), [[], [_, qa, 2], [1, _, "bc"]] != x } }])
}
pub fn case_33(vars: &Vars) -> InferredGoal<DU, DE, Goal<DU, DE>> {
    let qa = vars.v[0].clone();
    let qb = vars.v[1].clone();
    let coll0: Vec<LT> = vec![qa.clone(), lterm!(1)];
    proto_vulcan!([(2, _) == qb, for e in &coll0 { |tz| { tz == [2], [1 | tz] != [1, 2] } }])
}
pub fn case_34(vars: &Vars) -> InferredGoal<DU, DE, Goal<DU, DE>> {
    let qa = vars.v[0].clone();
    let qb = vars.v[1].clone();
    let coll0: Vec<LT> = vec![lterm!(3), lterm!(3)];
    proto_vulcan!([false, for e in &coll0 { conde { e == 2, true }, P3(qb, 1, e) == qa, ([], [[]]) == e }])
}
pub fn case_35(vars: &Vars) -> InferredGoal<DU, DE, Goal<DU, DE>> {
    let qa = vars.v[0].clone();
    let qb = vars.v[1].clone();
    let coll0: Vec<LT> = vec![];
    proto_vulcan!([qb == [true, [[], qb | qa] | qa], for e in &coll0 { [P3(3, qa, _) != qb, qa == (1, [[], 1]), |tz| { [2, 1, 3, 3] != [2, 1 | tz], tz == [3, 3] }], member(qa, [2]) }])
}
pub fn case_36(vars: &Vars) -> InferredGoal<DU, DE, Goal<DU, DE>> {
    let qa = vars.v[0].clone();
    let qb = vars.v[1].clone();
    let coll0: Vec<LT> = vec![lterm!(3), lterm!([[], 1])];
    proto_vulcan!([for e in &coll0 { |z, x| { false, "a" == qb, append(qb, qa, [2]) } }])
}
pub fn case_37(vars: &Vars) -> InferredGoal<DU, DE, Goal<DU, DE>> {
    let qa = vars.v[0].clone();
    let qb = vars.v[1].clone();
    let coll0: LT = LT::from_vec(vec![lterm!(3)]);
    proto_vulcan!([for e in &coll0 { e != 2 }])
}
pub fn case_38(vars: &Vars) -> InferredGoal<DU, DE, Goal<DU, DE>> {
    let qa = vars.v[0].clone();
    let qb = vars.v[1].clone();
    let coll0: Vec<LT> = vec![lterm!(2), qa.clone()];
    proto_vulcan!([for e in &coll0 { conde { e == 1, true }, (qb, _) == qa, P3(_, 2, []) == [[2, e]] }])
}
pub fn case_39(vars: &Vars) -> InferredGoal<DU, DE, Goal<DU, DE>> {
    let qa = vars.v[0].clone();
    let qb = vars.v[1].clone();
    let coll0: Vec<LT> = vec![];
    proto_vulcan!([for e in &coll0 { |t, y| {  } }])
}
pub fn case_40(vars: &Vars) -> InferredGoal<DU, DE, Goal<DU, DE>> {
    let qa = vars.v[0].clone();
    let qb = vars.v[1].clone();
    let coll0: Vec<LT> = vec![];
    proto_vulcan!([qa == [qb, 'a', "bc"], for e in &coll0 { P3(1, [], 3) == P3([], _, [1]), [qa, qb, 1] == [false | qb] }])
}
pub fn case_41(vars: &Vars) -> InferredGoal<DU, DE, Goal<DU, DE>> {
    let qa = vars.v[0].clone();
    let qb = vars.v[1].clone();
    let coll0: LT = LT::from_vec(vec![lterm!([1]), lterm!(1), lterm!(3)]);
    proto_vulcan!([|h| { member(h, [2, 2]), qa == P3(qa, _, 2) }, for e in &coll0 { qb != [[1, _]], 1 == e }])
}
pub fn case_42(vars: &Vars) -> InferredGoal<DU, DE, Goal<DU, DE>> {
    let qa = vars.v[0].clone();
    let qb = vars.v[1].clone();
    let coll0: LT = LT::from_vec(vec![lterm!([]), qb.clone(), qb.clone()]);
    proto_vulcan!([|x| { x != [2, _ | qb], qb == x }, for e in &coll0 { conde { e == 2, true }, |t, h| { [[], [_, e, 2], [1]] != t, [[2, h | qb], [true, e], [[], qb | e]] == [[], 1, 'a'] } }])
}
pub fn case_43(vars: &Vars) -> InferredGoal<DU, DE, Goal<DU, DE>> {
    let qa = vars.v[0].clone();
    let qb = vars.v[1].clone();
    let coll0: Vec<LT> = vec![lterm!([[], 2]), lterm!([[], 2])];
    proto_vulcan!([for e in &coll0 { conde { e == 2, true }, 3 == e }])
}
pub fn case_44(vars: &Vars) -> InferredGoal<DU, DE, Goal<DU, DE>> {
    let qa = vars.v[0].clone();
    let qb = vars.v[1].clone();
    let coll0: Vec<LT> = vec![];
    proto_vulcan!([for e in &coll0 { [], [2, e] == 3 }])
}
pub fn case_45(vars: &Vars) -> InferredGoal<DU, DE, Goal<DU, DE>> {
    let qa = vars.v[0].clone();
    let qb = vars.v[1].clone();
    let coll0: Vec<LT> = vec![lterm!([]), lterm!([]), lterm!(3), lterm!(2)];
    proto_vulcan!([for e in &coll0 { conde { e == 2, true }, [[] | qb] == qa, [qb == P3([2, 1], e, []), append(qb, e, [1]), [] != e] }])
}
pub fn case_46(vars: &Vars) -> InferredGoal<DU, DE, Goal<DU, DE>> {
    let qa = vars.v[0].clone();
    let qb = vars.v[1].clone();
    let coll0: Vec<LT> = vec![lterm!(1), lterm!(1)];
    proto_vulcan!([for e in &coll0 { conde { e == 3, true }, member(qb, [1, 2, 2]), |tz| { [2 | tz] != [2, 2, 1], tz == [2, 1] } }])
}
pub fn case_47(vars: &Vars) -> InferredGoal<DU, DE, Goal<DU, DE>> {
    let qa = vars.v[0].clone();
    let qb = vars.v[1].clone();
    let coll0: Vec<LT> = vec![lterm!([2]), lterm!([2]), qa.clone(), lterm!(1)];
    proto_vulcan!([for e in &coll0 { conde { e == 2, true }, |y| { qa == 2, append(qa, y, [1]), member(qa, [1]) }, |x| { [[], 1] != e, [[]] == qb, qb == [1] } }])
}
pub fn case_48(vars: &Vars) -> InferredGoal<DU, DE, Goal<DU, DE>> {
    let qa = vars.v[0].clone();
    let qb = vars.v[1].clone();
    let coll0: LT = LT::from_vec(vec![lterm!([])]);
    proto_vulcan!([conde { qa != P3([], 3, []), qb != P3(3, qa, [qb, []]) }, for e in &coll0 { [e] == e }])
}
pub fn case_49(vars: &Vars) -> InferredGoal<DU, DE, Goal<DU, DE>> {
    let qa = vars.v[0].clone();
    let qb = vars.v[1].clone();
    let coll0: Vec<LT> = vec![];
    proto_vulcan!([for e in &coll0 { member(qb, [3, 2]) }])
}
pub fn case_50(vars: &Vars) -> InferredGoal<DU, DE, Goal<DU, DE>> {
    let qa = vars.v[0].clone();
    let qb = vars.v[1].clone();
    let coll0: Vec<LT> = vec![qa.clone(), qb.clone()];
    proto_vulcan!([for e in &coll0 { conde { e == 1, true }, [[] | 2] == [[2, 'b'], [_, 2, qb | [[], 2]], [[], _, 3]], [e] == qa }])
}
pub fn case_51(vars: &Vars) -> InferredGoal<DU, DE, Goal<DU, DE>> {
    let qa = vars.v[0].clone();
    let qb = vars.v[1].clone();
    let coll0: Vec<LT> = vec![lterm!(2), lterm!([])];
    proto_vulcan!([for e in &coll0 { conde { e == 1, true }, conde { e != true, (3, []) == qa } }])
}
pub fn case_52(vars: &Vars) -> InferredGoal<DU, DE, Goal<DU, DE>> {
    let qa = vars.v[0].clone();
    let qb = vars.v[1].clone();
    let coll0: Vec<LT> = vec![lterm!(2), qb.clone(), lterm!(3), lterm!(3)];
    proto_vulcan!([[_ == qa, qb == qa], for e in &coll0 { conde { e == 1, true }, false, qa == [e, 3, 'a'] }])
}
pub fn case_53(vars: &Vars) -> InferredGoal<DU, DE, Goal<DU, DE>> {
    let qa = vars.v[0].clone();
    let qb = vars.v[1].clone();
    let coll0: Vec<LT> = vec![lterm!([1]), lterm!(1)];
    proto_vulcan!([for e in &coll0 { 1 != qa }])
}
pub fn case_54(vars: &Vars) -> InferredGoal<DU, DE, Goal<DU, DE>> {
    let qa = vars.v[0].clone();
    let qb = vars.v[1].clone();
    let coll0: Vec<LT> = vec![];
    proto_vulcan!([for e in &coll0 { conde { e != [qa], [append(qa, qa, [1]), e != qa], [|tz| { tz == [3, 1], [2 | tz] != [2, 3, 1] }, (qa, e) != qb] }, append(qa, e, [1]) }])
}
pub fn case_55(vars: &Vars) -> InferredGoal<DU, DE, Goal<DU, DE>> {
    let qa = vars.v[0].clone();
    let qb = vars.v[1].clone();
    let coll0: Vec<LT> = vec![lterm!([1]), lterm!(1), lterm!([2]), lterm!([2])];
    proto_vulcan!([for e in &coll0 { conde { e == 1, true }, |z| { z == ([], [_]), append(e, e, []), [qa, qb] == qa }, true }])
}
pub fn case_56(vars: &Vars) -> InferredGoal<DU, DE, Goal<DU, DE>> {
    let qa = vars.v[0].clone();
    let qb = vars.v[1].clone();
    let coll0: Vec<LT> = vec![];
    proto_vulcan!([qb == qa, for e in &coll0 { [] == [qa, qa, _] }])
}
pub fn case_57(vars: &Vars) -> InferredGoal<DU, DE, Goal<DU, DE>> {
    let qa = vars.v[0].clone();
    let qb = vars.v[1].clone();
    let coll0: Vec<LT> = vec![lterm!([]), lterm!([]), lterm!([1]), lterm!([])];
    proto_vulcan!([conde { [2] == qa, [qa == qb, member(qb, [2, 2, 3])] }, for e in &coll0 { conde { e == 2, true }, e == P3([_, 1], [], qb) }])
}
pub fn case_58(vars: &Vars) -> InferredGoal<DU, DE, Goal<DU, DE>> {
    let qa = vars.v[0].clone();
    let qb = vars.v[1].clone();
    let coll0: LT = LT::from_vec(vec![lterm!(3)]);
    proto_vulcan!([for e in &coll0 { e == [[]], [[2, qa, _] | qb] == qa }])
}
pub fn case_59(vars: &Vars) -> InferredGoal<DU, DE, Goal<DU, DE>> {
    let qa = vars.v[0].clone();
    let qb = vars.v[1].clone();
    let coll0: Vec<LT> = vec![];
    proto_vulcan!([for e in &coll0 { [member(qb, [2, 1, 1])], conde { 1 == e, qa == qa } }])
}
pub fn case_60(vars: &Vars) -> InferredGoal<DU, DE, Goal<DU, DE>> {
    let qa = vars.v[0].clone();
    let qb = vars.v[1].clone();
    let coll0: Vec<LT> = vec![lterm!(1), lterm!(1)];
    proto_vulcan!([for e in &coll0 { conde { e == 2, true }, [1] == qa }])
}
pub fn case_61(vars: &Vars) -> InferredGoal<DU, DE, Goal<DU, DE>> {
    let qa = vars.v[0].clone();
    let qb = vars.v[1].clone();
    let coll0: Vec<LT> = vec![lterm!([1]), lterm!([1])];
    proto_vulcan!([for e in &coll0 { conde { e == 1, true }, e == ["bc", qa, 1], [qa | []] == [1, true, [e]] }])
}
pub fn case_62(vars: &Vars) -> InferredGoal<DU, DE, Goal<DU, DE>> {
    let qa = vars.v[0].clone();
    let qb = vars.v[1].clone();
    let coll0: LT = LT::from_vec(vec![qb.clone(), lterm!(2), lterm!(2)]);
    proto_vulcan!([for e in &coll0 { conde { e == 3, true }, |tz| { tz == [1], [2, 1] != [2 | tz] } }])
}
pub fn case_63(vars: &Vars) -> InferredGoal<DU, DE, Goal<DU, DE>> {
    let qa = vars.v[0].clone();
    let qb = vars.v[1].clone();
    let coll0: Vec<LT> = vec![];
    proto_vulcan!([for e in &coll0 { _ == qb }])
}
pub fn case_64(vars: &Vars) -> InferredGoal<DU, DE, Goal<DU, DE>> {
    let qa = vars.v[0].clone();
    let qb = vars.v[1].clone();
    let coll0: Vec<LT> = vec![];
    proto_vulcan!([for e in &coll0 { P3([qb], [], []) == qb }])
}
pub fn case_65(vars: &Vars) -> InferredGoal<DU, DE, Goal<DU, DE>> {
    let qa = vars.v[0].clone();
    let qb = vars.v[1].clone();
    let coll0: LT = LT::from_vec(vec![lterm!(3)]);
    proto_vulcan!([for e in &coll0 { conde { e == 1, true }, P3(3, 1, 1) == qa, qa == [1] }])
}
pub fn case_66(vars: &Vars) -> InferredGoal<DU, DE, Goal<DU, DE>> {
    let qa = vars.v[0].clone();
    let qb = vars.v[1].clone();
    let coll0: Vec<LT> = vec![];
    proto_vulcan!([for e in &coll0 { conde { e == 1, true }, qb == [qa], true }])
}
pub fn case_67(vars: &Vars) -> InferredGoal<DU, DE, Goal<DU, DE>> {
    let qa = vars.v[0].clone();
    let qb = vars.v[1].clone();
    let coll0: Vec<LT> = vec![lterm!(1), lterm!([])];
    proto_vulcan!([[1] == qa, for e in &coll0 { [e == ['b', _, qa]], |tz| { [3 | tz] != [3, 3], tz == [3] } }])
}
pub fn case_68(vars: &Vars) -> InferredGoal<DU, DE, Goal<DU, DE>> {
    let qa = vars.v[0].clone();
    let qb = vars.v[1].clone();
    let coll0: LT = LT::from_vec(vec![lterm!([[], 1]), lterm!([1]), lterm!(1)]);
    proto_vulcan!([for e in &coll0 { [[1, []] == qb, qa == "bc"] }])
}
pub fn case_69(vars: &Vars) -> InferredGoal<DU, DE, Goal<DU, DE>> {
    let qa = vars.v[0].clone();
    let qb = vars.v[1].clone();
    let coll0: Vec<LT> = vec![lterm!([]), lterm!([2])];
    proto_vulcan!([for e in &coll0 { [[3 | qa] == qa, qb == [[[], 3 | 2], [3, qb, 2]]] }])
}
pub fn case_70(vars: &Vars) -> InferredGoal<DU, DE, Goal<DU, DE>> {
    let qa = vars.v[0].clone();
    let qb = vars.v[1].clone();
    let coll0: Vec<LT> = vec![lterm!([[], 2]), lterm!(2)];
    proto_vulcan!([qa == ([], qb), for e in &coll0 { qa == [qa, 1, _] }])
}
pub fn case_71(vars: &Vars) -> InferredGoal<DU, DE, Goal<DU, DE>> {
    let qa = vars.v[0].clone();
    let qb = vars.v[1].clone();
    let coll0: Vec<LT> = vec![lterm!([2]), lterm!([]), lterm!([]), lterm!([1])];
    proto_vulcan!([for e in &coll0 { conde { e == 3, true }, [qa == P3(3, 2, _), append(qb, qb, [2])] }])
}
pub fn case_72(vars: &Vars) -> InferredGoal<DU, DE, Goal<DU, DE>> {
    let qa = vars.v[0].clone();
    let qb = vars.v[1].clone();
    let coll0: Vec<LT> = vec![lterm!([2]), lterm!([[], 1]), lterm!(1), lterm!(1)];
    proto_vulcan!([for e in &coll0 { conde { e == 3, true }, qb == e }])
}
pub fn case_73(vars: &Vars) -> InferredGoal<DU, DE, Goal<DU, DE>> {
    let qa = vars.v[0].clone();
    let qb = vars.v[1].clone();
    let coll0: LT = LT::from_vec(vec![qa.clone(), lterm!([[], 2]), qb.clone()]);
    proto_vulcan!([for e in &coll0 { conde { [qb == 1, 1 == qb] }, [[qb] == qb, qb != e] }])
}
pub fn case_74(vars: &Vars) -> InferredGoal<DU, DE, Goal<DU, DE>> {
    let qa = vars.v[0].clone();
    let qb = vars.v[1].clone();
    let coll0: LT = LT::from_vec(vec![lterm!(1)]);
    proto_vulcan!([for e in &coll0 { conde { [qb == 1, qa == qb] } }])
}
pub fn case_75(vars: &Vars) -> InferredGoal<DU, DE, Goal<DU, DE>> {
    let qa = vars.v[0].clone();
    let qb = vars.v[1].clone();
    let coll0: Vec<LT> = vec![];
    proto_vulcan!([for e in &coll0 { qa != [true, e, 2] }])
}
pub fn case_76(vars: &Vars) -> InferredGoal<DU, DE, Goal<DU, DE>> {
    let qa = vars.v[0].clone();
    let qb = vars.v[1].clone();
    let coll0: LT = LT::from_vec(vec![lterm!([[], 1])]);
    proto_vulcan!([for e in &coll0 { [] }])
}
pub fn case_77(vars: &Vars) -> InferredGoal<DU, DE, Goal<DU, DE>> {
    let qa = vars.v[0].clone();
    let qb = vars.v[1].clone();
    let coll0: Vec<LT> = vec![lterm!([[], 1]), lterm!([[], 1])];
    proto_vulcan!([qb == [], for e in &coll0 { conde { e == 1, true }, |z| { P3([z], z, z) != z, [qb, 3 | qb] == 1 }, ['a', [qa, "bc", 2] | e] != e }])
}
pub fn case_78(vars: &Vars) -> InferredGoal<DU, DE, Goal<DU, DE>> {
    let qa = vars.v[0].clone();
    let qb = vars.v[1].clone();
    let coll0: LT = LT::from_vec(vec![lterm!([2])]);
    proto_vulcan!([for e in &coll0 { conde { qb == [], _ == qa }, conde { [1] == e, e == [qb], |tz| { [3, 3 | tz] != [3, 3, 3, 1], tz == [3, 1] } } }])
}
pub fn case_79(vars: &Vars) -> InferredGoal<DU, DE, Goal<DU, DE>> {
    let qa = vars.v[0].clone();
    let qb = vars.v[1].clone();
    let coll0: Vec<LT> = vec![lterm!([1]), lterm!([])];
    proto_vulcan!([for e in &coll0 { |tz| { [1 | tz] != [1, 3], tz == [3] } }])
}
pub fn case_80(vars: &Vars) -> InferredGoal<DU, DE, Goal<DU, DE>> {
    let qa = vars.v[0].clone();
    let qb = vars.v[1].clone();
    let coll0: LT = LT::from_vec(vec![qa.clone()]);
    proto_vulcan!([conde { [qa != [], qa == false], [append(qa, qa, [3, 2]), qb == qb], member(qa, [1, 3, 1]) }, for e in &coll0 { conde { e == 1, true }, |z| { qb == e }, member(e, [3, 3]) }])
}
pub fn case_81(vars: &Vars) -> InferredGoal<DU, DE, Goal<DU, DE>> {
    let qa = vars.v[0].clone();
    let qb = vars.v[1].clone();
    let coll0: Vec<LT> = vec![lterm!([1]), qa.clone()];
    proto_vulcan!([for e in &coll0 { e == [1, qa | qa], e == [2, [], 'b' | e] }])
}
pub fn case_82(vars: &Vars) -> InferredGoal<DU, DE, Goal<DU, DE>> {
    let qa = vars.v[0].clone();
    let qb = vars.v[1].clone();
    let coll0: Vec<LT> = vec![lterm!(3), lterm!(3), lterm!([[], 1]), lterm!([2])];
    proto_vulcan!([false, for e in &coll0 { conde { e == 3, true }, conde { qb != [1, e, 2], [append(qb, e, [3]), "a" == e], [false | e] == qb }, conde { [], [e == e, e == [['a', qa, 2 | qb], [[]] | [e, 2]]], [append(e, qa, [2]), ([], e) == qb] } }])
}
pub fn case_83(vars: &Vars) -> InferredGoal<DU, DE, Goal<DU, DE>> {
    let qa = vars.v[0].clone();
    let qb = vars.v[1].clone();
    let coll0: Vec<LT> = vec![];
    proto_vulcan!([for e in &coll0 { |t| {  } }])
}
pub fn case_84(vars: &Vars) -> InferredGoal<DU, DE, Goal<DU, DE>> {
    let qa = vars.v[0].clone();
    let qb = vars.v[1].clone();
    let coll0: Vec<LT> = vec![lterm!([1]), qb.clone()];
    proto_vulcan!([|tz| { [1, 3, 3] != [1 | tz], tz == [3, 3] }, for e in &coll0 { conde { [member(qb, []), append(qa, e, [3, 1])] } }])
}
pub fn case_85(vars: &Vars) -> InferredGoal<DU, DE, Goal<DU, DE>> {
    let qa = vars.v[0].clone();
    let qb = vars.v[1].clone();
    let coll0: Vec<LT> = vec![];
    proto_vulcan!([for e in &coll0 { conde { e == 3, true }, qa == [qa, [qa, _, qb]], [[qa, qb]] == 1 }])
}
pub fn case_86(vars: &Vars) -> InferredGoal<DU, DE, Goal<DU, DE>> {
    let qa = vars.v[0].clone();
    let qb = vars.v[1].clone();
    let coll0: LT = LT::from_vec(vec![lterm!(2)]);
    proto_vulcan!([[["a"] | qa] == qa, for e in &coll0 { conde { e == 1, true }, qa == qb, [[], qa, qb] != false }])
}
pub fn case_87(vars: &Vars) -> InferredGoal<DU, DE, Goal<DU, DE>> {
    let qa = vars.v[0].clone();
    let qb = vars.v[1].clone();
    let coll0: Vec<LT> = vec![lterm!(1), lterm!([1])];
    proto_vulcan!([|z| { true, qb == qa, [z, [[] | [qb, 1]], ["a", 2] | qa] == z }, for e in &coll0 { [(e, []) == 1, _ == e, [e, _, qa] == qa], [3, 3] == qa }])
}
pub fn case_88(vars: &Vars) -> InferredGoal<DU, DE, Goal<DU, DE>> {
    let qa = vars.v[0].clone();
    let qb = vars.v[1].clone();
    let coll0: Vec<LT> = vec![];
    proto_vulcan!([qa == qb, for e in &coll0 { qa == [[2, 1, 1 | qa] | 1], [["a", 1], 2, [1, _]] == qb }])
}
pub fn case_89(vars: &Vars) -> InferredGoal<DU, DE, Goal<DU, DE>> {
    let qa = vars.v[0].clone();
    let qb = vars.v[1].clone();
    let coll0: Vec<LT> = vec![];
    proto_vulcan!([qa != ([], [3, 1]), for e in &coll0 { conde { e == 2, true }, [[[], e, 2 | qa] == qb, false], |tz| { [3, 3 | tz] != [3, 3, 2], tz == [2] } }])
}
pub fn case_90(vars: &Vars) -> InferredGoal<DU, DE, Goal<DU, DE>> {
    let qa = vars.v[0].clone();
    let qb = vars.v[1].clone();
    let coll0: LT = LT::from_vec(vec![lterm!([[], 1])]);
    proto_vulcan!([for e in &coll0 { [qa == _, true != qb], 1 == ["bc", qb] }])
}
pub fn case_91(vars: &Vars) -> InferredGoal<DU, DE, Goal<DU, DE>> {
    let qa = vars.v[0].clone();
    let qb = vars.v[1].clone();
    let coll0: LT = LT::from_vec(vec![lterm!([]), lterm!(3), lterm!(2)]);
    proto_vulcan!([[2] == qa, for e in &coll0 { (_, qa) == e }])
}
pub fn case_92(vars: &Vars) -> InferredGoal<DU, DE, Goal<DU, DE>> {
    let qa = vars.v[0].clone();
    let qb = vars.v[1].clone();
    let coll0: Vec<LT> = vec![];
    proto_vulcan!([(_, qa) != qa, for e in &coll0 { true == qb }])
}
pub fn case_93(vars: &Vars) -> InferredGoal<DU, DE, Goal<DU, DE>> {
    let qa = vars.v[0].clone();
    let qb = vars.v[1].clone();
    let coll0: Vec<LT> = vec![lterm!([[], 2]), lterm!([1])];
    proto_vulcan!([for e in &coll0 { conde { e == 1, true }, conde { qb == ["a", 2, false], qb != [], [3 == [1, qa], e == [[], qb, qa]] } }])
}
pub fn case_94(vars: &Vars) -> InferredGoal<DU, DE, Goal<DU, DE>> {
    let qa = vars.v[0].clone();
    let qb = vars.v[1].clone();
    let coll0: LT = LT::from_vec(vec![lterm!([2])]);
    proto_vulcan!([for e in &coll0 { [2, qb] == qa }])
}
pub fn case_95(vars: &Vars) -> InferredGoal<DU, DE, Goal<DU, DE>> {
    let qa = vars.v[0].clone();
    let qb = vars.v[1].clone();
    let coll0: LT = LT::from_vec(vec![qb.clone(), lterm!(1), lterm!(1)]);
    proto_vulcan!([for e in &coll0 { qa != [[] | e] }])
}
pub fn case_96(vars: &Vars) -> InferredGoal<DU, DE, Goal<DU, DE>> {
    let qa = vars.v[0].clone();
    let qb = vars.v[1].clone();
    let coll0: LT = LT::from_vec(vec![qb.clone(), lterm!(2), qa.clone()]);
    proto_vulcan!([1 == _, for e in &coll0 { ["bc", qa, 2 | e] == qa }])
}
pub fn case_97(vars: &Vars) -> InferredGoal<DU, DE, Goal<DU, DE>> {
    let qa = vars.v[0].clone();
    let qb = vars.v[1].clone();
    let coll0: Vec<LT> = vec![lterm!([]), lterm!([])];
    proto_vulcan!([for e in &coll0 { conde { e == 2, true }, |tz| { [1, 2, 3] != [1, 2 | tz], tz == [3] }, [2, qb, qa] == [[2 | qb], _, 3] }])
}
pub fn case_98(vars: &Vars) -> InferredGoal<DU, DE, Goal<DU, DE>> {
    let qa = vars.v[0].clone();
    let qb = vars.v[1].clone();
    let coll0: Vec<LT> = vec![];
    proto_vulcan!([conde { [P3([[]], [qa], 3) == qa, (qa, _) != qa] }, for e in &coll0 { qb != [3, 1] }])
}
pub fn case_99(vars: &Vars) -> InferredGoal<DU, DE, Goal<DU, DE>> {
    let qa = vars.v[0].clone();
    let qb = vars.v[1].clone();
    let coll0: Vec<LT> = vec![lterm!(1), lterm!(3)];
    proto_vulcan!([for e in &coll0 { conde { qb == ([], qb), [[["a"], [e, 1 | qa], ["a", e, 3 | qa]] == (qb, qb), (1, 3) != e] }, [] }])
}
pub fn case_100(vars: &Vars) -> InferredGoal<DU, DE, Goal<DU, DE>> {
    let qa = vars.v[0].clone();
    let qb = vars.v[1].clone();
    let coll0: LT = LT::from_vec(vec![lterm!([])]);
    proto_vulcan!([for e in &coll0 { |tz| { [3, 3 | tz] != [3, 3, 1], tz == [1] } }])
}
pub fn case_101(vars: &Vars) -> InferredGoal<DU, DE, Goal<DU, DE>> {
    let qa = vars.v[0].clone();
    let qb = vars.v[1].clone();
    let coll0: LT = LT::from_vec(vec![lterm!([[], 2]), lterm!(2), lterm!([])]);
    proto_vulcan!([[qb, _, qa] == 3, for e in &coll0 { conde { e == 2, true }, [["a" | qa] == qa, 1 == e, [3] == qb], qb == e }])
}
pub fn case_102(vars: &Vars) -> InferredGoal<DU, DE, Goal<DU, DE>> {
    let qa = vars.v[0].clone();
    let qb = vars.v[1].clone();
    let coll0: LT = LT::from_vec(vec![lterm!([[], 1])]);
    proto_vulcan!([[2 != qb, qa != qa], for e in &coll0 { conde { e == 3, true }, [] == qb }])
}
pub fn case_103(vars: &Vars) -> InferredGoal<DU, DE, Goal<DU, DE>> {
    let qa = vars.v[0].clone();
    let qb = vars.v[1].clone();
    let coll0: Vec<LT> = vec![];
    proto_vulcan!([[qa == P3(qb, [], []), qb == [[qb, qa], [qb, [], qb], [qb]], [] != qa], for e in &coll0 { [1] != [[qb, "a", qa | e], [qa, e, 1] | qa], [append(qa, qa, []), qb != (1, 1)] }])
}
pub fn case_104(vars: &Vars) -> InferredGoal<DU, DE, Goal<DU, DE>> {
    let qa = vars.v[0].clone();
    let qb = vars.v[1].clone();
    let coll0: Vec<LT> = vec![qb.clone(), lterm!(2)];
    proto_vulcan!([for e in &coll0 { conde { e == 1, true }, e == [2, []], conde { qb == [[]], [qb == [e | qb], |tz| { [1, 1] != [1 | tz], tz == [1] }] } }])
}
pub fn case_105(vars: &Vars) -> InferredGoal<DU, DE, Goal<DU, DE>> {
    let qa = vars.v[0].clone();
    let qb = vars.v[1].clone();
    let coll0: Vec<LT> = vec![];
    proto_vulcan!([for e in &coll0 { conde { e == 2, true }, |x| { [[e], [qb, x], qa] == qb }, |x| { |tz| { tz == [3, 2], [3, 1, 3, 2] != [3, 1 | tz] } } }])
}
pub fn case_106(vars: &Vars) -> InferredGoal<DU, DE, Goal<DU, DE>> {
    let qa = vars.v[0].clone();
    let qb = vars.v[1].clone();
    let coll0: Vec<LT> = vec![lterm!([1]), lterm!([1]), lterm!([[], 2]), qa.clone()];
    proto_vulcan!([3 == qb, for e in &coll0 { conde { e == 2, true }, [false] }])
}
pub fn case_107(vars: &Vars) -> InferredGoal<DU, DE, Goal<DU, DE>> {
    let qa = vars.v[0].clone();
    let qb = vars.v[1].clone();
    let coll0: Vec<LT> = vec![qa.clone(), qa.clone()];
    proto_vulcan!([1 == qb, for e in &coll0 { conde { e == 1, true }, true, [[2, _] | qb] == false }])
}
pub fn case_108(vars: &Vars) -> InferredGoal<DU, DE, Goal<DU, DE>> {
    let qa = vars.v[0].clone();
    let qb = vars.v[1].clone();
    let coll0: Vec<LT> = vec![lterm!(3), lterm!(3)];
    proto_vulcan!([for e in &coll0 { qb == [1, qb, qb], conde { [qb == [e | []], P3([[], e], [], e) == P3(_, _, 1)] } }])
}
pub fn case_109(vars: &Vars) -> InferredGoal<DU, DE, Goal<DU, DE>> {
    let qa = vars.v[0].clone();
    let qb = vars.v[1].clone();
    let coll0: LT = LT::from_vec(vec![lterm!(2)]);
    proto_vulcan!([for e in &coll0 { conde { e == 3, true }, |t, h| { (_, [_]) == e, h == h, qb == [t] } }])
}
pub fn case_110(vars: &Vars) -> InferredGoal<DU, DE, Goal<DU, DE>> {
    let qa = vars.v[0].clone();
    let qb = vars.v[1].clone();
    let coll0: Vec<LT> = vec![];
    proto_vulcan!([[_] == 1, for e in &coll0 { conde { e == 1, true }, |t| { qb == qa, t == qb }, [e] == qa }])
}
pub fn case_111(vars: &Vars) -> InferredGoal<DU, DE, Goal<DU, DE>> {
    let qa = vars.v[0].clone();
    let qb = vars.v[1].clone();
    let coll0: LT = LT::from_vec(vec![lterm!(2)]);
    proto_vulcan!([for e in &coll0 { [e, 3, 3] == qb }])
}
pub fn case_112(vars: &Vars) -> InferredGoal<DU, DE, Goal<DU, DE>> {
    let qa = vars.v[0].clone();
    let qb = vars.v[1].clone();
    let coll0: Vec<LT> = vec![lterm!([2]), lterm!([2])];
    proto_vulcan!([for e in &coll0 { conde { e == 2, true }, |z| { 1 == ([e, 2], e), 1 == z, qa != e }, true }])
}
pub fn case_113(vars: &Vars) -> InferredGoal<DU, DE, Goal<DU, DE>> {
    let qa = vars.v[0].clone();
    let qb = vars.v[1].clone();
    let coll0: Vec<LT> = vec![lterm!([]), lterm!([[], 2])];
    proto_vulcan!([for e in &coll0 { conde { e == 1, true }, |t| { [qa] == e, qa == [1, qb, qb] }, append(qa, qb, [2]) }])
}
pub fn case_114(vars: &Vars) -> InferredGoal<DU, DE, Goal<DU, DE>> {
    let qa = vars.v[0].clone();
    let qb = vars.v[1].clone();
    let coll0: Vec<LT> = vec![lterm!(3), lterm!(2)];
    proto_vulcan!([for e in &coll0 { ['b', 3] == qb, e != [[], _, 1] }])
}
pub fn case_115(vars: &Vars) -> InferredGoal<DU, DE, Goal<DU, DE>> {
    let qa = vars.v[0].clone();
    let qb = vars.v[1].clone();
    let coll0: LT = LT::from_vec(vec![lterm!([])]);
    proto_vulcan!([for e in &coll0 { ['a', 2] == _ }])
}
pub fn case_116(vars: &Vars) -> InferredGoal<DU, DE, Goal<DU, DE>> {
    let qa = vars.v[0].clone();
    let qb = vars.v[1].clone();
    let coll0: Vec<LT> = vec![lterm!(1), lterm!(1), lterm!([[], 1]), lterm!([[], 1])];
    proto_vulcan!([|z, t| { member(t, [1, 1]) }, for e in &coll0 { conde { e == 3, true }, conde { [member(qa, [3, 1, 1]), qb == [[qb, "a", 1], [1, 2, 1]]], [] } }])
}
pub fn case_117(vars: &Vars) -> InferredGoal<DU, DE, Goal<DU, DE>> {
    let qa = vars.v[0].clone();
    let qb = vars.v[1].clone();
    let coll0: Vec<LT> = vec![];
    proto_vulcan!([[1 | qa] == qa, for e in &coll0 { |x, t| {  } }])
}
pub fn case_118(vars: &Vars) -> InferredGoal<DU, DE, Goal<DU, DE>> {
    let qa = vars.v[0].clone();
    let qb = vars.v[1].clone();
    let coll0: Vec<LT> = vec![lterm!([2]), lterm!([2])];
    proto_vulcan!([P3([qa, qa], qb, _) == qb, for e in &coll0 { conde { e == 3, true }, qa == [_] }])
}
pub fn case_119(vars: &Vars) -> InferredGoal<DU, DE, Goal<DU, DE>> {
    let qa = vars.v[0].clone();
    let qb = vars.v[1].clone();
    let coll0: LT = LT::from_vec(vec![qa.clone(), qa.clone(), lterm!([])]);
    proto_vulcan!([qb == [false | qb], for e in &coll0 { conde { [], [(3, e) == (qb, [_]), |tz| { tz == [1, 2], [3 | tz] != [3, 1, 2] }] }, e == [1 | qb] }])
}
pub fn case_120(vars: &Vars) -> InferredGoal<DU, DE, Goal<DU, DE>> {
    let qa = vars.v[0].clone();
    let qb = vars.v[1].clone();
    let coll0: Vec<LT> = vec![];
    proto_vulcan!([for e in &coll0 { [qa] == e, [true] }])
}
pub fn case_121(vars: &Vars) -> InferredGoal<DU, DE, Goal<DU, DE>> {
    let qa = vars.v[0].clone();
    let qb = vars.v[1].clone();
    let coll0: Vec<LT> = vec![lterm!(2), lterm!(2)];
    proto_vulcan!([for e in &coll0 { conde { e == 2, true }, conde { [true, true], member(qb, []) }, conde { [P3([qa], [], 2) == qb, qb != P3(_, [3], _)], e == _ } }])
}
pub fn case_122(vars: &Vars) -> InferredGoal<DU, DE, Goal<DU, DE>> {
    let qa = vars.v[0].clone();
    let qb = vars.v[1].clone();
    let coll0: LT = LT::from_vec(vec![lterm!([]), qa.clone(), lterm!([2])]);
    proto_vulcan!([for e in &coll0 { conde { e == 2, true }, [member(qb, [1, 2])], qb != [qb, 2, 1 | qa] }])
}
pub fn case_123(vars: &Vars) -> InferredGoal<DU, DE, Goal<DU, DE>> {
    let qa = vars.v[0].clone();
    let qb = vars.v[1].clone();
    let coll0: LT = LT::from_vec(vec![lterm!(3), lterm!([[], 2]), qa.clone()]);
    proto_vulcan!([[qa] == qb, for e in &coll0 { [[qa], [e, e, 1 | qb]] != [2, [2, e, false] | 1], (e, 1) == qa }])
}
pub fn case_124(vars: &Vars) -> InferredGoal<DU, DE, Goal<DU, DE>> {
    let qa = vars.v[0].clone();
    let qb = vars.v[1].clone();
    let coll0: LT = LT::from_vec(vec![lterm!([1]), lterm!([2]), lterm!([2])]);
    proto_vulcan!([qa == ([[]], 2), for e in &coll0 { conde { e == 3, true }, [append(qa, qa, [])], conde { [e == qb, true], [true, false], [qa, qb] != qb } }])
}
pub fn case_125(vars: &Vars) -> InferredGoal<DU, DE, Goal<DU, DE>> {
    let qa = vars.v[0].clone();
    let qb = vars.v[1].clone();
    let coll0: LT = LT::from_vec(vec![lterm!(1), lterm!([[], 1]), lterm!(2)]);
    proto_vulcan!([for e in &coll0 { conde { e == 1, true }, |y, z| { P3(e, 2, y) != [[3, qb] | qb], y == [[1, qb], 1, ['a'] | 1], (1, 3) == qb }, 3 == qa }])
}
pub fn case_126(vars: &Vars) -> InferredGoal<DU, DE, Goal<DU, DE>> {
    let qa = vars.v[0].clone();
    let qb = vars.v[1].clone();
    let coll0: Vec<LT> = vec![lterm!(3), lterm!([2])];
    proto_vulcan!([qb == [qa], for e in &coll0 { [[]] == qb }])
}
pub fn case_127(vars: &Vars) -> InferredGoal<DU, DE, Goal<DU, DE>> {
    let qa = vars.v[0].clone();
    let qb = vars.v[1].clone();
    let coll0: Vec<LT> = vec![qa.clone(), lterm!(3), lterm!(1), lterm!(1)];
    proto_vulcan!([for e in &coll0 { conde { e == 1, true }, |x, z| { z == e, qb == [[2, z], 2 | x], append(z, qa, [1, 3]) } }])
}
pub fn case_128(vars: &Vars) -> InferredGoal<DU, DE, Goal<DU, DE>> {
    let qa = vars.v[0].clone();
    let qb = vars.v[1].clone();
    let coll0: Vec<LT> = vec![lterm!([]), lterm!([[], 1]), lterm!([1]), lterm!([1])];
    proto_vulcan!([[3, [], _ | []] == qa, for e in &coll0 { conde { e == 3, true }, [1, 3, []] == qb, |z| { member(qa, [3]), append(qb, qa, [1, 2]), member(qa, [1]) } }])
}
pub fn case_129(vars: &Vars) -> InferredGoal<DU, DE, Goal<DU, DE>> {
    let qa = vars.v[0].clone();
    let qb = vars.v[1].clone();
    let coll0: LT = LT::from_vec(vec![lterm!([[], 2]), lterm!([[], 1]), lterm!([1])]);
    proto_vulcan!([[[2], [qa | qa], [[]] | qb] == [qa], for e in &coll0 { [3, _, 1] == e, [[] | e] == e }])
}
pub fn case_130(vars: &Vars) -> InferredGoal<DU, DE, Goal<DU, DE>> {
    let qa = vars.v[0].clone();
    let qb = vars.v[1].clone();
    let coll0: Vec<LT> = vec![lterm!(2), lterm!(2)];
    proto_vulcan!([for e in &coll0 { conde { e == 3, true }, true, qa != ([], 2) }])
}
pub fn case_131(vars: &Vars) -> InferredGoal<DU, DE, Goal<DU, DE>> {
    let qa = vars.v[0].clone();
    let qb = vars.v[1].clone();
    let coll0: LT = LT::from_vec(vec![lterm!([1]), lterm!(1), lterm!(1)]);
    proto_vulcan!([[append(qb, qa, [1, 3])], for e in &coll0 { conde { e == 3, true }, conde { [[[qa, qa, qb | []], 2] != e, qb == P3(_, 1, qa)] }, |tz| { tz == [2, 1], [2 | tz] != [2, 2, 1] } }])
}
pub fn case_132(vars: &Vars) -> InferredGoal<DU, DE, Goal<DU, DE>> {
    let qa = vars.v[0].clone();
    let qb = vars.v[1].clone();
    let coll0: Vec<LT> = vec![];
    proto_vulcan!([for e in &coll0 { P3(e, 1, _) == qb }])
}
pub fn case_133(vars: &Vars) -> InferredGoal<DU, DE, Goal<DU, DE>> {
    let qa = vars.v[0].clone();
    let qb = vars.v[1].clone();
    let coll0: LT = LT::from_vec(vec![lterm!([]), lterm!([]), qa.clone()]);
    proto_vulcan!([for e in &coll0 { e != P3(3, [qb, qb], [3]) }])
}
pub fn case_134(vars: &Vars) -> InferredGoal<DU, DE, Goal<DU, DE>> {
    let qa = vars.v[0].clone();
    let qb = vars.v[1].clone();
    let coll0: Vec<LT> = vec![lterm!([1]), lterm!([[], 1])];
    proto_vulcan!([for e in &coll0 { conde { e == 1, true }, ([], [1, 2]) == qb }])
}
pub fn case_135(vars: &Vars) -> InferredGoal<DU, DE, Goal<DU, DE>> {
    let qa = vars.v[0].clone();
    let qb = vars.v[1].clone();
    let coll0: Vec<LT> = vec![lterm!([[], 1]), lterm!([[], 1])];
    proto_vulcan!([[[3, qa, 1], [] | [[], true]] == P3([], qb, []), for e in &coll0 { conde { e == 2, true }, |y| { false, |tz| { [1 | tz] != [1, 2, 3], tz == [2, 3] }, true } }])
}
pub fn case_136(vars: &Vars) -> InferredGoal<DU, DE, Goal<DU, DE>> {
    let qa = vars.v[0].clone();
    let qb = vars.v[1].clone();
    let coll0: LT = LT::from_vec(vec![lterm!([])]);
    proto_vulcan!([for e in &coll0 { qa == [_, 2, 1] }])
}
pub fn case_137(vars: &Vars) -> InferredGoal<DU, DE, Goal<DU, DE>> {
    let qa = vars.v[0].clone();
    let qb = vars.v[1].clone();
    let coll0: LT = LT::from_vec(vec![qb.clone()]);
    proto_vulcan!([for e in &coll0 { [[3 | e] == e] }])
}
pub fn case_138(vars: &Vars) -> InferredGoal<DU, DE, Goal<DU, DE>> {
    let qa = vars.v[0].clone();
    let qb = vars.v[1].clone();
    let coll0: LT = LT::from_vec(vec![lterm!(1), lterm!(2), qa.clone()]);
    proto_vulcan!([qa == ([qb], qa), for e in &coll0 { |y, z| { qa == [qa, 2], false, P3(1, [], qa) == y } }])
}
pub fn case_139(vars: &Vars) -> InferredGoal<DU, DE, Goal<DU, DE>> {
    let qa = vars.v[0].clone();
    let qb = vars.v[1].clone();
    let coll0: Vec<LT> = vec![lterm!([]), lterm!([])];
    proto_vulcan!([for e in &coll0 { conde { e == 3, true }, |z| { qa == (e, qb), z != qa } }])
}
pub fn case_140(vars: &Vars) -> InferredGoal<DU, DE, Goal<DU, DE>> {
    let qa = vars.v[0].clone();
    let qb = vars.v[1].clone();
    let coll0: LT = LT::from_vec(vec![lterm!([[], 2])]);
    proto_vulcan!([for e in &coll0 { conde { e == 1, true }, P3(1, [2], [2, []]) != qb }])
}
pub fn case_141(vars: &Vars) -> InferredGoal<DU, DE, Goal<DU, DE>> {
    let qa = vars.v[0].clone();
    let qb = vars.v[1].clone();
    let coll0: LT = LT::from_vec(vec![lterm!(3)]);
    proto_vulcan!([for e in &coll0 { |t| { e == [[_, [], _], [1, [], e]] }, conde { member(qa, [2, 2, 2]) } }])
}
pub fn case_142(vars: &Vars) -> InferredGoal<DU, DE, Goal<DU, DE>> {
    let qa = vars.v[0].clone();
    let qb = vars.v[1].clone();
    let coll0: LT = LT::from_vec(vec![qa.clone(), lterm!([2]), lterm!(3)]);
    proto_vulcan!([for e in &coll0 { conde { [1, [qa, _], qb] != P3([e, _], [qb], [qa]), qb == qa, [qa == qb, _ == qb] }, [] != qa }])
}
pub fn case_143(vars: &Vars) -> InferredGoal<DU, DE, Goal<DU, DE>> {
    let qa = vars.v[0].clone();
    let qb = vars.v[1].clone();
    let coll0: Vec<LT> = vec![lterm!(2), lterm!([[], 1])];
    proto_vulcan!([for e in &coll0 { qb == e, conde { [], false } }])
}
pub fn case_144(vars: &Vars) -> InferredGoal<DU, DE, Goal<DU, DE>> {
    let qa = vars.v[0].clone();
    let qb = vars.v[1].clone();
    let coll0: Vec<LT> = vec![lterm!([]), lterm!(3)];
    proto_vulcan!([['a'] == qb, for e in &coll0 { P3(_, e, []) != qb, (e, []) == [qb, 2, qa] }])
}
pub fn case_145(vars: &Vars) -> InferredGoal<DU, DE, Goal<DU, DE>> {
    let qa = vars.v[0].clone();
    let qb = vars.v[1].clone();
    let coll0: Vec<LT> = vec![];
    proto_vulcan!([for e in &coll0 { conde { e == 2, true }, conde { append(qa, qa, [2, 1]), [e == 1, [qb, 'a', _] == qa], [true, [qa] == P3(qa, 1, [2])] } }])
}
pub fn case_146(vars: &Vars) -> InferredGoal<DU, DE, Goal<DU, DE>> {
    let qa = vars.v[0].clone();
    let qb = vars.v[1].clone();
    let coll0: Vec<LT> = vec![];
    proto_vulcan!([for e in &coll0 { conde { e == 3, true }, false }])
}
pub fn case_147(vars: &Vars) -> InferredGoal<DU, DE, Goal<DU, DE>> {
    let x = vars.v[0].clone();
    proto_vulcan!([match x { [x | _] => x == 1, }])
}
pub fn case_148(vars: &Vars) -> InferredGoal<DU, DE, Goal<DU, DE>> {
    let x = vars.v[0].clone();
    let y = vars.v[1].clone();
    proto_vulcan!([match x { [h, h] => h == y, }])
}
pub fn case_149(vars: &Vars) -> InferredGoal<DU, DE, Goal<DU, DE>> {
    let x = vars.v[0].clone();
    proto_vulcan!([match x { [] | [_] => , [_, _ | t] => t == [], }])
}
pub fn case_150(vars: &Vars) -> InferredGoal<DU, DE, Goal<DU, DE>> {
    let x = vars.v[0].clone();
    let y = vars.v[1].clone();
    proto_vulcan!([member(x, [1, 2]), matcha x { 1 => y == 10, _ => y == 20, }])
}
pub fn case_151(vars: &Vars) -> InferredGoal<DU, DE, Goal<DU, DE>> {
    let x = vars.v[0].clone();
    let y = vars.v[1].clone();
    proto_vulcan!([matchu [x, y] { [h, _] => member(h, [1, 2]), _ => , }])
}
pub fn case_152(vars: &Vars) -> InferredGoal<DU, DE, Goal<DU, DE>> {
    let q = vars.v[0].clone();
    let b = vars.v[1].clone();
    proto_vulcan!([b == 5, match q { [a | [b]] => [a == 1, b == 7], }])
}
pub fn case_153(vars: &Vars) -> InferredGoal<DU, DE, Goal<DU, DE>> {
    let q = vars.v[0].clone();
    let x = vars.v[1].clone();
    proto_vulcan!([x == 9, matche q { [y | [x | _]] => [y == x, x == 2], }])
}
pub fn case_154(vars: &Vars) -> InferredGoal<DU, DE, Goal<DU, DE>> {
    let x = vars.v[0].clone();
    let y = vars.v[1].clone();
    proto_vulcan!([x == P3(1, 2, 3), match x { P3(_, b, _) => y == [2, b], P3(a, _, _) => y == [1, a], }])
}
pub fn case_155(vars: &Vars) -> InferredGoal<DU, DE, Goal<DU, DE>> {
    let x = vars.v[0].clone();
    let y = vars.v[1].clone();
    proto_vulcan!([x == P3(1, [2], 3), matche x { P3(_, _, c) => y == c, P3(a, _, _) => y == a, }])
}
pub fn case_156(vars: &Vars) -> InferredGoal<DU, DE, Goal<DU, DE>> {
    let x = vars.v[0].clone();
    let y = vars.v[1].clone();
    proto_vulcan!([match x { P3(_, b, _) => [b == 5, y == x], }])
}
pub fn case_157(vars: &Vars) -> InferredGoal<DU, DE, Goal<DU, DE>> {
    let x = vars.v[0].clone();
    proto_vulcan!([_ == x, matche [2] { [[1, 'a']] | [[y], [y], [y]] => [append(x, x, [3, 3]), [x != [2, x], append(x, x, [1, 3])]], }])
}
pub fn case_158(vars: &Vars) -> InferredGoal<DU, DE, Goal<DU, DE>> {
    let q = vars.v[0].clone();
    let x = vars.v[1].clone();
    proto_vulcan!([|t, z| {  }, matcha x { [[1] | _] | P3([_], [], 1) => |tz| { [1, 2] != [1 | tz], tz == [2] }, [[h, [], z]] | [[_, x], [[], t], [x, _, x | _]] => , _ => [x == 7, x == 8], }])
}
pub fn case_159(vars: &Vars) -> InferredGoal<DU, DE, Goal<DU, DE>> {
    let x = vars.v[0].clone();
    let y = vars.v[1].clone();
    proto_vulcan!([match y { y | [[], [h, z | _]] => , [[t, false | y]] => , Named { a: t, b: y } => , }])
}
pub fn case_160(vars: &Vars) -> InferredGoal<DU, DE, Goal<DU, DE>> {
    let x = vars.v[0].clone();
    proto_vulcan!([true, match x { [[z, x, z], [true], _ | z] => [[append(x, z, [])], onceo { false }], }])
}
pub fn case_161(vars: &Vars) -> InferredGoal<DU, DE, Goal<DU, DE>> {
    let x = vars.v[0].clone();
    proto_vulcan!([matche x { P3([2, 1], 2, _) => conde { [true, P3(x, [], [_]) == x], false, [x == ([], [_, 3]), append(x, x, [1, 1])] }, P3(_, _, []) => [|y, z| { y != (z, 3), |tz| { tz == [2], [1, 2 | tz] != [1, 2, 2] }, z != [_] }, [_ | 1] != x], }])
}
pub fn case_162(vars: &Vars) -> InferredGoal<DU, DE, Goal<DU, DE>> {
    let x = vars.v[0].clone();
    let y = vars.v[1].clone();
    proto_vulcan!([matche y { y => [[y, 2, 1 | 1], y] != x, x => [conde { [member(x, [3, 2, 2]), false] }, conde { [true, true == [3 | x]] }], }])
}
pub fn case_163(vars: &Vars) -> InferredGoal<DU, DE, Goal<DU, DE>> {
    let x = vars.v[0].clone();
    proto_vulcan!([match x { [z, 2, false | t] => [[t == _]], P3(1, y, 1) | [z, [t, y | _], ['b', 2, y | _]] => { y == y, |t, z| { x == [y] } }, }])
}
pub fn case_164(vars: &Vars) -> InferredGoal<DU, DE, Goal<DU, DE>> {
    let q = vars.v[0].clone();
    let x = vars.v[1].clone();
    proto_vulcan!([matche [q, 'b'] { _ => member(q, [1, 2, 3]), 1 => { q != [x, 2 | 3], |t| { [1, t | q] == x, [x, q] == x } }, y | Named { a: [_, []], b: [] } => [conde { q == (3, [3]), [[x | 1] == x, q != [x, 3, []]], [x != [q, [q, []]], 2 == x] }, |y, x| {  }], }])
}
pub fn case_165(vars: &Vars) -> InferredGoal<DU, DE, Goal<DU, DE>> {
    let x = vars.v[0].clone();
    let y = vars.v[1].clone();
    proto_vulcan!([conda { [[1, x] == x, y == [3]], [[1, 1], [2 | [y]], [x, x, 'b']] == ([x, x], x) }, matcha x { true | t => , }])
}
pub fn case_166(vars: &Vars) -> InferredGoal<DU, DE, Goal<DU, DE>> {
    let q = vars.v[0].clone();
    let x = vars.v[1].clone();
    proto_vulcan!([conde { [], false, [x == (x, q), q == [[], 1, 'a']] }, matcha 2 { [[z, z, [] | 3], [1], [[], y, h]] | _ => { conde { [[3, 1, x]] == x, [|tz| { [3 | tz] != [3, 1], tz == [1] }, q != [[q, _], [[], _, _ | x], 1 | [[]]]] }, [[x, x, x | q], [] | q] == x }, }])
}
pub fn case_167(vars: &Vars) -> InferredGoal<DU, DE, Goal<DU, DE>> {
    let q = vars.v[0].clone();
    let x = vars.v[1].clone();
    proto_vulcan!([conde { [["bc"] == x, x == [_, q]], [false, [1] == x] }, match q { [2] | [[], x] => |tz| { tz == [3], [2, 1 | tz] != [2, 1, 3] }, _ => [q == 7, q == 8], }])
}
pub fn case_168(vars: &Vars) -> InferredGoal<DU, DE, Goal<DU, DE>> {
    let q = vars.v[0].clone();
    let x = vars.v[1].clone();
    proto_vulcan!([matcha q { [[h, t, y | x]] | [h] => , P3([z], y, z) => , P3([[], []], 2, _) | [[_ | [y]], [x, 2, 3], [z, 3, x]] => { [|tz| { tz == [1], [2, 1] != [2 | tz] }], conda { [q == [[1 | [1, q]], 2], q == q] } }, }])
}
pub fn case_169(vars: &Vars) -> InferredGoal<DU, DE, Goal<DU, DE>> {
    let x = vars.v[0].clone();
    proto_vulcan!([matchu x { [[1], [h, 3 | 2]] => |z| { z != (2, _), ['a', 1] == x, z == 1 }, [h, [[], _, 1]] => , _ => { x == 7, x == 8 }, }])
}
pub fn case_170(vars: &Vars) -> InferredGoal<DU, DE, Goal<DU, DE>> {
    let x = vars.v[0].clone();
    proto_vulcan!([conda { [|tz| { [3, 2 | tz] != [3, 2, 3, 3], tz == [3, 3] }, [[[], _], x | x] == x], true, [1] == x }, match x { 1 => true, }])
}
pub fn case_171(vars: &Vars) -> InferredGoal<DU, DE, Goal<DU, DE>> {
    let x = vars.v[0].clone();
    let y = vars.v[1].clone();
    proto_vulcan!([|h| { [y, 3 | h] == y, false }, matchu x { 3 | [] => , t | ["a", 3 | [z]] => { conda { [append(y, y, [3]), x != [[y, [], 3 | y], 3, ['a']]], |tz| { tz == [3], [2 | tz] != [2, 3] }, [1 == x, [y, 2 | y] == y] } }, }])
}
pub fn case_172(vars: &Vars) -> InferredGoal<DU, DE, Goal<DU, DE>> {
    let x = vars.v[0].clone();
    let y = vars.v[1].clone();
    proto_vulcan!([match [2, x, 1 | y] { _ => , [[[], 3, 1], [3, "bc", _]] | _ => [onceo { x == [[x, x, x], [y, x]] }, matchu x { _ | _ => { member(x, [1, 2, 3]) }, ['b', 3, []] | _ => [2 == y, true], _ => { (_, _) == 2 }, }], }])
}
pub fn case_173(vars: &Vars) -> InferredGoal<DU, DE, Goal<DU, DE>> {
    let x = vars.v[0].clone();
    proto_vulcan!([|t| { [t, t, x] != t, [false, _] == t }, match x { P3([[]], z, []) => [[], member(x, [])], Named { a: 3, b: [[]] } => { member(x, []), 1 != x }, _ => , }])
}
pub fn case_174(vars: &Vars) -> InferredGoal<DU, DE, Goal<DU, DE>> {
    let x = vars.v[0].clone();
    let y = vars.v[1].clone();
    proto_vulcan!([matche x { x => conde { [false, false], [], x != [[1, 3], [3, 3], y] }, ['a'] => x != [[]], [[t | _], x] => [[]], }])
}
pub fn case_175(vars: &Vars) -> InferredGoal<DU, DE, Goal<DU, DE>> {
    let q = vars.v[0].clone();
    let x = vars.v[1].clone();
    proto_vulcan!([[['a' | q], [q], 1] == 1, match 1 { [z | _] => matcha q { [[1 | []], _ | z] => , [y, 2, [h, t, 2]] => false, }, [[], [h, 'b'], [t, 2, 2] | [[], x]] | Named { a: [], b: _ } => [|t, x| { q != [t], 1 == q }, q != 1], }])
}
pub fn case_176(vars: &Vars) -> InferredGoal<DU, DE, Goal<DU, DE>> {
    let q = vars.v[0].clone();
    let x = vars.v[1].clone();
    proto_vulcan!([|x| { true, _ == 3 }, matchu [2] { P3(_, [_], z) | _ => { |h, y| { h != [y | h], (3, y) != y, [[1 | q], [], [2, 3, 'a']] != h }, |t| { |tz| { tz == [3], [3, 3] != [3 | tz] } } }, }])
}
pub fn case_177(vars: &Vars) -> InferredGoal<DU, DE, Goal<DU, DE>> {
    let x = vars.v[0].clone();
    proto_vulcan!([x == x, matchu x { x => { conde { [x == [x], _ == [1, x, x]] }, true == x }, }])
}
pub fn case_178(vars: &Vars) -> InferredGoal<DU, DE, Goal<DU, DE>> {
    let x = vars.v[0].clone();
    let y = vars.v[1].clone();
    proto_vulcan!([match y { P3(x, 3, x) => { conde { [], [[1, 2] == x, x != [y | x]] }, [[2, y, 'b'] != y, y != x] }, [['b', 2 | _], [x, 1] | t] | Named { a: 1, b: 1 } => , }])
}
pub fn case_179(vars: &Vars) -> InferredGoal<DU, DE, Goal<DU, DE>> {
    let x = vars.v[0].clone();
    let y = vars.v[1].clone();
    proto_vulcan!([matchu x { [[false, _, y | y], ['b', z, 1], 2] | [1, [3 | h]] => , }])
}
pub fn case_180(vars: &Vars) -> InferredGoal<DU, DE, Goal<DU, DE>> {
    let x = vars.v[0].clone();
    proto_vulcan!([matche x { [[1, h, [] | z], ['a', y, t | z], 1 | [h, h]] => [[y == t, [2, x, x] == t, x != [2, _, z]]], Named { a: x, b: _ } => , _ => { match x { _ => member(x, [1, 2, 3]), _ => , [[], [x], _] => { |tz| { tz == [2, 2], [3, 2 | tz] != [3, 2, 2, 2] }, false }, } }, }])
}
pub fn case_181(vars: &Vars) -> InferredGoal<DU, DE, Goal<DU, DE>> {
    let q = vars.v[0].clone();
    let x = vars.v[1].clone();
    proto_vulcan!([|t| { q == P3(1, q, 2), |tz| { tz == [1], [1, 1, 1] != [1, 1 | tz] } }, matchu x { [[1, 2], [_], [x, 2]] => , [[y, y]] => , P3([_], [[]], h) | "bc" => { onceo { x == [_] }, |y| { q != [1, x], member(q, [1]), y == q } }, }])
}
pub fn case_182(vars: &Vars) -> InferredGoal<DU, DE, Goal<DU, DE>> {
    let x = vars.v[0].clone();
    let y = vars.v[1].clone();
    proto_vulcan!([|y| { true }, matcha x { [[] | x] => , x | [_] => , _ => { member(y, [1, 2, 3]) }, }])
}
pub fn case_183(vars: &Vars) -> InferredGoal<DU, DE, Goal<DU, DE>> {
    let x = vars.v[0].clone();
    let y = vars.v[1].clone();
    proto_vulcan!([matchu x { [[], [[], x] | [z, h]] => { P3(y, 1, 1) != x, x != _ }, y => , }])
}
pub fn case_184(vars: &Vars) -> InferredGoal<DU, DE, Goal<DU, DE>> {
    let x = vars.v[0].clone();
    let y = vars.v[1].clone();
    proto_vulcan!([|h| { h != [1, h, 2], (y, 3) == x }, matchu [3, 1] { _ => { member(y, [1, 2, 3]) }, [[h, [], [] | _], [y, h, z], 1] => , [[_, z, t], [false], [z, 'a', "bc" | z]] => , }])
}
pub fn case_185(vars: &Vars) -> InferredGoal<DU, DE, Goal<DU, DE>> {
    let q = vars.v[0].clone();
    let x = vars.v[1].clone();
    proto_vulcan!([P3(1, [], x) != q, matche q { t => , }])
}
pub fn case_186(vars: &Vars) -> InferredGoal<DU, DE, Goal<DU, DE>> {
    let q = vars.v[0].clone();
    let x = vars.v[1].clone();
    proto_vulcan!([matchu 1 { _ => [x == 7, x == 8], true | [[z, 2, _ | h]] => , }])
}
pub fn case_187(vars: &Vars) -> InferredGoal<DU, DE, Goal<DU, DE>> {
    let x = vars.v[0].clone();
    let y = vars.v[1].clone();
    proto_vulcan!([onceo { false }, matchu y { [y] | [[t | _], t] => , }])
}
pub fn case_188(vars: &Vars) -> InferredGoal<DU, DE, Goal<DU, DE>> {
    let x = vars.v[0].clone();
    let y = vars.v[1].clone();
    proto_vulcan!([x == [], matchu y { [[1, _, z]] => , _ => , }])
}
pub fn case_189(vars: &Vars) -> InferredGoal<DU, DE, Goal<DU, DE>> {
    let x = vars.v[0].clone();
    proto_vulcan!([matchu x { 'a' => { [|tz| { tz == [1, 2], [1, 2, 1, 2] != [1, 2 | tz] }, member(x, [2, 3]), |tz| { tz == [2, 2], [2, 3, 2, 2] != [2, 3 | tz] }], condu { [append(x, x, [2, 3]), |tz| { tz == [2, 1], [1, 1, 2, 1] != [1, 1 | tz] }], [[x, [] | x] == x, false] } }, Named { a: [[], z], b: [1, t] } => { match t { h => , P3([h], 1, [z, y]) => , Named { a: z, b: [x] } => { true == [z, z | z], z != [2, z | t] }, }, [] }, }])
}
pub fn case_190(vars: &Vars) -> InferredGoal<DU, DE, Goal<DU, DE>> {
    let x = vars.v[0].clone();
    proto_vulcan!([|h| { append(x, h, []) }, matchu [x] { _ => , [[x, t | _] | _] => , 3 | Named { a: [], b: [] } => [matcha x { 2 => [x == [[x | ['a', x]]], 1 != x], P3(1, _, z) => [z != [z, 3, 2 | [x, "bc"]], member(x, [])], _ => { |tz| { [1, 1, 2, 1] != [1, 1 | tz], tz == [2, 1] } }, }, append(x, x, [])], }])
}
pub fn case_191(vars: &Vars) -> InferredGoal<DU, DE, Goal<DU, DE>> {
    let q = vars.v[0].clone();
    let x = vars.v[1].clone();
    proto_vulcan!([matcha [q, _] { [_, h | x] => [conde { x != P3(_, 3, [_, h]), [P3(3, [3, _], [2]) != h, [x, 3] == 'a'] }, x == [[2, false, _], [x, x]]], }])
}
pub fn case_192(vars: &Vars) -> InferredGoal<DU, DE, Goal<DU, DE>> {
    let x = vars.v[0].clone();
    proto_vulcan!([matchu x { [] => { conde { [] } }, [[t], h] => |y, z| { z == 1, _ != t, [1] == y }, _ => [matche x { 2 | 2 => { false }, _ => [_] == x, [[z, 1, t]] => { z != [3, x, 2], append(x, x, [2]) }, }, x == 1], }])
}
pub fn case_193(vars: &Vars) -> InferredGoal<DU, DE, Goal<DU, DE>> {
    let q = vars.v[0].clone();
    let x = vars.v[1].clone();
    proto_vulcan!([matche [_ | x] { P3(_, t, _) | [[h, 2, _], x, t] => , t | [[t], [2 | _], [y, 'a']] => q != 3, _ | [[x, x, x | [2, h]], 2, ["bc"]] => { q == [[_, 1 | false], [q], [_, []] | q], conde { [[q | q] == q, q == P3(1, q, 3)], [[_], [1, _ | q], q] == q } }, }])
}
pub fn case_194(vars: &Vars) -> InferredGoal<DU, DE, Goal<DU, DE>> {
    let x = vars.v[0].clone();
    let y = vars.v[1].clone();
    proto_vulcan!([matche y { _ => member(x, [1, 2, 3]), }])
}
pub fn case_195(vars: &Vars) -> InferredGoal<DU, DE, Goal<DU, DE>> {
    let x = vars.v[0].clone();
    let y = vars.v[1].clone();
    proto_vulcan!([conde { [member(x, [2, 2, 3]), x != [y, y]], [x != [[y], 3 | []], |tz| { [1, 2, 3, 1] != [1, 2 | tz], tz == [3, 1] }], P3([x, 3], x, 3) == x }, matcha x { [[z], h | 1] => { append(h, x, [2]), [] }, }])
}
pub fn case_196(vars: &Vars) -> InferredGoal<DU, DE, Goal<DU, DE>> {
    let x = vars.v[0].clone();
    let y = vars.v[1].clone();
    proto_vulcan!([false, match x { [[t, 3]] => [x == 3, [y != 1, member(x, []), y == 3]], }])
}
pub fn case_197(vars: &Vars) -> InferredGoal<DU, DE, Goal<DU, DE>> {
    let x = vars.v[0].clone();
    let y = vars.v[1].clone();
    proto_vulcan!([condu { y == P3(2, [], [y]) }, matchu y { [z, [1, [], x | z], [z, 2] | z] => |tz| { tz == [3], [2, 3] != [2 | tz] }, }])
}
pub fn case_198(vars: &Vars) -> InferredGoal<DU, DE, Goal<DU, DE>> {
    let x = vars.v[0].clone();
    proto_vulcan!([matcha x { [1 | z] => , }])
}
pub fn case_199(vars: &Vars) -> InferredGoal<DU, DE, Goal<DU, DE>> {
    let x = vars.v[0].clone();
    proto_vulcan!([x == 1, matcha x { 1 => , }])
}
pub fn case_200(vars: &Vars) -> InferredGoal<DU, DE, Goal<DU, DE>> {
    let x = vars.v[0].clone();
    let y = vars.v[1].clone();
    proto_vulcan!([match x { Named { a: _, b: z } | h => [y != y, 2 == x], }])
}
pub fn case_201(vars: &Vars) -> InferredGoal<DU, DE, Goal<DU, DE>> {
    let q = vars.v[0].clone();
    let x = vars.v[1].clone();
    proto_vulcan!([q == [x, q], match [_, "bc", 1 | q] { [[3]] => { member(q, [2]), x == false }, [] => matchu x { P3(h, x, y) => { x != y }, }, [] => { member(x, [2, 1, 1]) }, }])
}
pub fn case_202(vars: &Vars) -> InferredGoal<DU, DE, Goal<DU, DE>> {
    let x = vars.v[0].clone();
    let y = vars.v[1].clone();
    proto_vulcan!([matcha y { 1 => { true, |y, t| { false, [] == t } }, false => { y == [_, y, 3 | y], |h, y| { false, x == y, append(h, h, []) } }, [[_, t, 'a'], [3, 1, 1], [2, _ | _]] => , }])
}
pub fn case_203(vars: &Vars) -> InferredGoal<DU, DE, Goal<DU, DE>> {
    let x = vars.v[0].clone();
    let y = vars.v[1].clone();
    proto_vulcan!([matche x { _ => [[false, |tz| { tz == [2, 2], [3, 2, 2, 2] != [3, 2 | tz] }]], }])
}
pub fn case_204(vars: &Vars) -> InferredGoal<DU, DE, Goal<DU, DE>> {
    let q = vars.v[0].clone();
    let x = vars.v[1].clone();
    proto_vulcan!([|x| { false, false }, matchu x { _ => { |x| { [[], q | x] != x } }, }])
}
pub fn case_205(vars: &Vars) -> InferredGoal<DU, DE, Goal<DU, DE>> {
    let x = vars.v[0].clone();
    proto_vulcan!([|x| { member(x, [2, 2]) }, matchu [true | x] { [1, [y, 2 | t], [t | t] | h] | P3(1, y, z) => { append(x, y, [3]) }, }])
}
pub fn case_206(vars: &Vars) -> InferredGoal<DU, DE, Goal<DU, DE>> {
    let x = vars.v[0].clone();
    let y = vars.v[1].clone();
    proto_vulcan!([matchu x { _ => { x == 7, x == 8 }, Named { a: [[]], b: [] } | [[1, x], _, [1, "bc", x]] => false, }])
}
pub fn case_207(vars: &Vars) -> InferredGoal<DU, DE, Goal<DU, DE>> {
    let x = vars.v[0].clone();
    let y = vars.v[1].clone();
    proto_vulcan!([matcha 3 { [_] => { [([], [y, _]) == [[3, 2, 3], [1], [1, _] | x], y == x, x == x] }, [[y | z], [_ | x]] => , ["bc", [[]], 3] | [[]] => [x] == [2], }])
}
pub fn case_208(vars: &Vars) -> InferredGoal<DU, DE, Goal<DU, DE>> {
    let x = vars.v[0].clone();
    proto_vulcan!([matcha x { _ => member(x, [1, 2, 3]), [[_], x] => [matcha x { [y, 2, [false] | x] => { member(y, [2, 3, 2]), true }, [[x, y], t, [2]] => , z | 1 => , }, [x, "bc" | x] != [[1, x | x], _]], }])
}
pub fn case_209(vars: &Vars) -> InferredGoal<DU, DE, Goal<DU, DE>> {
    let q = vars.v[0].clone();
    let x = vars.v[1].clone();
    proto_vulcan!([condu { [x == _, q != x], [2 | x] == x }, match x { [[1, 'a' | x]] | [[2, t]] => { 1 == q }, 2 => x == (q, q), t => [[1] == q, [[[2]] == P3([2, x], _, [3]), [1, t] == q]], }])
}
pub fn case_210(vars: &Vars) -> InferredGoal<DU, DE, Goal<DU, DE>> {
    let q = vars.v[0].clone();
    let x = vars.v[1].clone();
    proto_vulcan!([[true, x, 3 | x] != x, match x { Named { a: t, b: [z] } => , }])
}
pub fn case_211(vars: &Vars) -> InferredGoal<DU, DE, Goal<DU, DE>> {
    let x = vars.v[0].clone();
    proto_vulcan!([[false, [[], [], []] != x, append(x, x, [])], matcha x { P3(2, z, []) => onceo { z != _ }, Named { a: [], b: 3 } => [[_ | x], [[], 2, x]] == x, }])
}
pub fn case_212(vars: &Vars) -> InferredGoal<DU, DE, Goal<DU, DE>> {
    let x = vars.v[0].clone();
    proto_vulcan!([matchu x { ['a'] => , }])
}
pub fn case_213(vars: &Vars) -> InferredGoal<DU, DE, Goal<DU, DE>> {
    let x = vars.v[0].clone();
    proto_vulcan!([matcha x { [_ | _] => , P3([], 3, 2) => false, Named { a: _, b: _ } => { x != [3, x, 2] }, }])
}
pub fn case_214(vars: &Vars) -> InferredGoal<DU, DE, Goal<DU, DE>> {
    let q = vars.v[0].clone();
    let x = vars.v[1].clone();
    proto_vulcan!([matchu x { [[[], 1], 2] => x == P3([x, x], _, 3), Named { a: x, b: z } => , }])
}
pub fn case_215(vars: &Vars) -> InferredGoal<DU, DE, Goal<DU, DE>> {
    let x = vars.v[0].clone();
    proto_vulcan!([x != _, matchu x { Named { a: _, b: 3 } | [[1]] => [member(x, [1]), true], [true, [_, 2, 2]] => { match x { [[t | x], [h, [], x], [false, y]] | [h] => h != (h, []), [[3], [x, false], 1 | [2]] => , }, matchu x { [y, [t, _ | x]] => { member(t, []) }, } }, [z, 1, [_]] => , }])
}
pub fn case_216(vars: &Vars) -> InferredGoal<DU, DE, Goal<DU, DE>> {
    let q = vars.v[0].clone();
    let x = vars.v[1].clone();
    proto_vulcan!([conde { [|tz| { tz == [2], [2, 2] != [2 | tz] }, q == 1], [true, [[2 | x], 2] == q], false }, match [q, 2] { 2 => |y, h| { member(x, [1]), true }, }])
}
pub fn case_217(vars: &Vars) -> InferredGoal<DU, DE, Goal<DU, DE>> {
    let q = vars.v[0].clone();
    let x = vars.v[1].clone();
    proto_vulcan!([[[x, [], q] == q], matchu q { h => { h != [1, 1 | h], matchu x { _ => { member(h, [1, 2, 3]) }, _ => member(q, [1, 2, 3]), } }, _ | [h] => , }])
}
pub fn case_218(vars: &Vars) -> InferredGoal<DU, DE, Goal<DU, DE>> {
    let q = vars.v[0].clone();
    let x = vars.v[1].clone();
    proto_vulcan!([matcha 1 { _ | [[2] | true] => [[q == [[], 2, _ | x], append(x, x, []), [2, _, 3] == x]], }])
}
pub fn case_219(vars: &Vars) -> InferredGoal<DU, DE, Goal<DU, DE>> {
    let x = vars.v[0].clone();
    let y = vars.v[1].clone();
    proto_vulcan!([x == [], matchu y { P3(1, _, 2) => conde { [1 == 2, true], [y != [_], true], [] }, }])
}
pub fn case_220(vars: &Vars) -> InferredGoal<DU, DE, Goal<DU, DE>> {
    let q = vars.v[0].clone();
    let x = vars.v[1].clone();
    proto_vulcan!([match _ { [_, 2, 2 | _] => { q == [q, _], match x { [[_], [1, 3, [] | _] | y] => { P3(3, x, [[], 3]) != x, q == [y, y | y] }, _ => { member(q, [1, 2, 3]) }, } }, _ => , }])
}
pub fn case_221(vars: &Vars) -> InferredGoal<DU, DE, Goal<DU, DE>> {
    let x = vars.v[0].clone();
    proto_vulcan!([[x] == x, matcha [1, _, []] { [3] => { member(x, []) }, }])
}
pub fn case_222(vars: &Vars) -> InferredGoal<DU, DE, Goal<DU, DE>> {
    let x = vars.v[0].clone();
    let y = vars.v[1].clone();
    proto_vulcan!([[] == ([_, y], []), match x { x => { [[[], x], [1, _, y] | x] != [x, y], [['b' | y], [2, y, x]] == [2] }, t => [|x| {  }, [P3(3, [], _) == x, t == [[2, [], 'b'], [y, 3, 1]], P3(t, x, [_, []]) != y]], P3(x, [x], y) => conde { [[], y] == y, [y == [y, false, x], y == y] }, }])
}
pub fn case_223(vars: &Vars) -> InferredGoal<DU, DE, Goal<DU, DE>> {
    let q = vars.v[0].clone();
    let x = vars.v[1].clone();
    proto_vulcan!([matcha x { t | _ => { [false, [true] == q, [2, [] | q] == q] }, }])
}
pub fn case_224(vars: &Vars) -> InferredGoal<DU, DE, Goal<DU, DE>> {
    let q = vars.v[0].clone();
    let x = vars.v[1].clone();
    proto_vulcan!([|y| { (x, []) == x }, matche x { _ | Named { a: 2, b: [] } => , }])
}
pub fn case_225(vars: &Vars) -> InferredGoal<DU, DE, Goal<DU, DE>> {
    let q = vars.v[0].clone();
    let x = vars.v[1].clone();
    proto_vulcan!([matche x { P3(1, 2, h) => [|x| { [[], x | h] != h, false }, q == 1], z => P3([x, _], [], 2) != q, Named { a: _, b: z } => , }])
}
pub fn case_226(vars: &Vars) -> InferredGoal<DU, DE, Goal<DU, DE>> {
    let x = vars.v[0].clone();
    proto_vulcan!([match x { z => , P3([2, h], z, 1) => [condu { [[[2, []]] == [[z, z, h | h], [1, 1]], [[], _] == 3], x != [[x, 2, h], h], [append(h, h, [3]), [x, x] != h] }, |h, z| { [[], z, _] == h, member(h, [3]), z == z }], }])
}
pub fn case_227(vars: &Vars) -> InferredGoal<DU, DE, Goal<DU, DE>> {
    let x = vars.v[0].clone();
    let y = vars.v[1].clone();
    proto_vulcan!([x == (1, _), matchu x { _ => { [(x, [[], _]) == x] }, _ => [y == 7, y == 8], }])
}
pub fn case_228(vars: &Vars) -> InferredGoal<DU, DE, Goal<DU, DE>> {
    let x = vars.v[0].clone();
    let y = vars.v[1].clone();
    proto_vulcan!([[x == (2, 1)], match [] { h => , }])
}
pub fn case_229(vars: &Vars) -> InferredGoal<DU, DE, Goal<DU, DE>> {
    let q = vars.v[0].clone();
    let x = vars.v[1].clone();
    proto_vulcan!([[2, [_, x, q], q] == x, matche q { _ => { x != (_, q), |z, y| { false } }, [[[], 'a', 2], "bc"] => false, P3(2, _, [[]]) => q == [2, q, 2], }])
}
pub fn case_230(vars: &Vars) -> InferredGoal<DU, DE, Goal<DU, DE>> {
    let x = vars.v[0].clone();
    proto_vulcan!([x == x, match x { [[]] => { x == [[]], [x != P3(x, [[]], [[], 3])] }, _ => { x == 7, x == 8 }, [[2, 2], [2, x, 1], 2] => { conde { [true, append(x, x, [1, 3])], [x != [x | x], x != P3(x, x, x)], |tz| { [3, 2, 1] != [3 | tz], tz == [2, 1] } } }, }])
}
pub fn case_231(vars: &Vars) -> InferredGoal<DU, DE, Goal<DU, DE>> {
    let q = vars.v[0].clone();
    let x = vars.v[1].clone();
    proto_vulcan!([matche x { _ => { member(x, [1, 2, 3]) }, "bc" => { append(q, x, [1]), [[_, [] | [_, x]] != [[_, _, 2 | q] | _], q == q] }, [[3], [2, _, 2]] => , }])
}
pub fn case_232(vars: &Vars) -> InferredGoal<DU, DE, Goal<DU, DE>> {
    let x = vars.v[0].clone();
    proto_vulcan!([matche x { [h] | P3(2, 1, h) => [2 == x, match x { [] => [false, x == P3([2], _, [])], [[z, y], [x | 2]] => { x == 1 }, [[y]] | [] => , }], [x, [2, []]] => , [[z | _] | z] | [[t, t | x], 3 | z] => matchu z { _ | h => { 3 == z, member(z, [3, 2]) }, [[_, h | t] | y] | P3([], [z], [x]) => , _ => { z == 7, z == 8 }, }, }])
}
pub fn case_233(vars: &Vars) -> InferredGoal<DU, DE, Goal<DU, DE>> {
    let x = vars.v[0].clone();
    proto_vulcan!([[x] == 2, matche x { P3(2, 1, _) => [matche x { [h] => h == "a", }, conde { [x == [3], append(x, x, [2, 1])], [] }], [[] | y] => { [[_, [], 2], [x], x] == [2, x, 1 | x], |y| { true, y != _, y == [[]] } }, }])
}
pub fn case_234(vars: &Vars) -> InferredGoal<DU, DE, Goal<DU, DE>> {
    let q = vars.v[0].clone();
    let x = vars.v[1].clone();
    proto_vulcan!([x != ["bc" | q], match q { P3(3, z, 2) | y => [matche x { [[x, _, 3], [], [x, true | h]] | _ => { [["a", q] | q] == q, P3(q, [q], 1) == q }, [[1, 1, []], [x | _], 'b'] => { x == (x, q), q == 1 }, y => , }, conde { append(x, x, [2, 2]), [] }], Named { a: 1, b: [] } => { matche q { [_] => [x != "bc", |tz| { [3, 1, 2, 1] != [3, 1 | tz], tz == [2, 1] }], }, ([], 2) == q }, }])
}
pub fn case_235(vars: &Vars) -> InferredGoal<DU, DE, Goal<DU, DE>> {
    let q = vars.v[0].clone();
    let x = vars.v[1].clone();
    proto_vulcan!([P3([[]], _, 3) == q, matchu 3 { 1 => { |tz| { tz == [3, 2], [3, 3 | tz] != [3, 3, 3, 2] }, conde { [false, true] } }, Named { a: 3, b: [y] } => [member(y, [1, 1]), []], }])
}
pub fn case_236(vars: &Vars) -> InferredGoal<DU, DE, Goal<DU, DE>> {
    let x = vars.v[0].clone();
    let y = vars.v[1].clone();
    proto_vulcan!([match y { [y | []] => [onceo { append(y, y, [1]) }, conde { [member(x, [1]), y == [2]], true, ['b' != 1, [y, 2 | y] == y] }], [true] => , }])
}
pub fn case_237(vars: &Vars) -> InferredGoal<DU, DE, Goal<DU, DE>> {
    let q = vars.v[0].clone();
    let x = vars.v[1].clone();
    proto_vulcan!([conda { member(q, []) }, matche [1] { _ => { x == 7, x == 8 }, }])
}
pub fn case_238(vars: &Vars) -> InferredGoal<DU, DE, Goal<DU, DE>> {
    let q = vars.v[0].clone();
    let x = vars.v[1].clone();
    proto_vulcan!([matche q { [3, ["bc", 2 | [1]]] | t => , _ => { |y| { append(q, q, [1]), true } }, }])
}
pub fn case_239(vars: &Vars) -> InferredGoal<DU, DE, Goal<DU, DE>> {
    let q = vars.v[0].clone();
    let x = vars.v[1].clone();
    proto_vulcan!([match q { y | [2, [x, 2, z]] => { q == q }, [[1, h, z] | _] | [[] | t] => { |tz| { tz == [1], [2, 2 | tz] != [2, 2, 1] }, x != x }, [["a", 1], [z], 1] => [1 == x, onceo { q == 2 }], }])
}
pub fn case_240(vars: &Vars) -> InferredGoal<DU, DE, Goal<DU, DE>> {
    let x = vars.v[0].clone();
    proto_vulcan!([matche x { h => { [x, h, _] == h }, _ => { x == 7, x == 8 }, }])
}
pub fn case_241(vars: &Vars) -> InferredGoal<DU, DE, Goal<DU, DE>> {
    let x = vars.v[0].clone();
    proto_vulcan!([x == P3([[], x], _, 1), match 3 { ["a"] => { x == x, match x { Named { a: [], b: y } | [[x], [y], _] => [y == y, append(y, y, [3])], } }, 1 => [conda { [member(x, [3, 1]), x == [x, x, _]], 2 == x }, conde { |tz| { [3 | tz] != [3, 1], tz == [1] }, [x == ['a', 'b', _], |tz| { tz == [1], [2, 3, 1] != [2, 3 | tz] }], [3, x, 'b'] != x }], [[[] | [true]], [y, x, 2] | t] => { |h| { false, false, [[y, _, 1], h, [x | x]] == x } }, }])
}
pub fn case_242(vars: &Vars) -> InferredGoal<DU, DE, Goal<DU, DE>> {
    let q = vars.v[0].clone();
    let x = vars.v[1].clone();
    proto_vulcan!([match x { [[h, x, []]] => [onceo { [] == x }, q == [["bc", h, 'a'] | x]], }])
}
pub fn case_243(vars: &Vars) -> InferredGoal<DU, DE, Goal<DU, DE>> {
    let x = vars.v[0].clone();
    let y = vars.v[1].clone();
    proto_vulcan!([conda { [[[1, y, 3]] != P3([[]], 2, [2]), true] }, matchu y { [x] | _ => , _ => { conde { [[]] != y, [] } }, }])
}
pub fn case_244(vars: &Vars) -> InferredGoal<DU, DE, Goal<DU, DE>> {
    let q = vars.v[0].clone();
    let x = vars.v[1].clone();
    proto_vulcan!([q == ([], [_, []]), matcha "a" { [[x, x, 2 | z], [3, t, t], [2]] => [condu { z == [[1, 1 | x]], [q == [_, x], x == [2, false]], [[], z, q] == z }, (1, _) == t], [false] => [|h, z| { z == [[2], "a"], (x, 3) == q }, |tz| { [2, 2, 2] != [2, 2 | tz], tz == [2] }], }])
}
pub fn case_245(vars: &Vars) -> InferredGoal<DU, DE, Goal<DU, DE>> {
    let x = vars.v[0].clone();
    proto_vulcan!([matcha x { [[], [_, z, y | 1] | _] => , }])
}
pub fn case_246(vars: &Vars) -> InferredGoal<DU, DE, Goal<DU, DE>> {
    let q = vars.v[0].clone();
    let x = vars.v[1].clone();
    proto_vulcan!([matcha q { P3([_], _, 2) => , }])
}
pub fn case_247(vars: &Vars) -> InferredGoal<DU, DE, Goal<DU, DE>> {
    let x = vars.v[0].clone();
    let y = vars.v[1].clone();
    proto_vulcan!([matche x { 3 => , _ | t => |h, z| { y == (3, 1), y == y, (3, z) != [[h, z], ['a', []] | 2] }, [3, [x, 2], [2]] | [[[], y, _], ["bc"], [2, y]] => , }])
}
pub fn case_248(vars: &Vars) -> InferredGoal<DU, DE, Goal<DU, DE>> {
    let x = vars.v[0].clone();
    let y = vars.v[1].clone();
    proto_vulcan!([matcha x { [z, [1, 1, z], t] => [[_ == x]], }])
}
pub fn case_249(vars: &Vars) -> InferredGoal<DU, DE, Goal<DU, DE>> {
    let x = vars.v[0].clone();
    let y = vars.v[1].clone();
    proto_vulcan!([[1, x, [] | []] == x, matcha x { _ => { member(x, [1, 2, 3]) }, }])
}
pub fn case_250(vars: &Vars) -> InferredGoal<DU, DE, Goal<DU, DE>> {
    let x = vars.v[0].clone();
    let y = vars.v[1].clone();
    proto_vulcan!([matcha y { Named { a: [], b: [_, []] } => { true, [[x], [_, y | x]] == x }, _ | [y, [x, false | h], [z]] => , }])
}
pub fn case_251(vars: &Vars) -> InferredGoal<DU, DE, Goal<DU, DE>> {
    let q = vars.v[0].clone();
    let x = vars.v[1].clone();
    proto_vulcan!([matcha [] { _ | [[x, _, z | [true, z]], [1, 1]] => , [t, t, [[]] | h] => { [] == (1, h) }, }])
}
pub fn case_252(vars: &Vars) -> InferredGoal<DU, DE, Goal<DU, DE>> {
    let x = vars.v[0].clone();
    proto_vulcan!([x == x, matchu x { _ | _ => { 3 == x, true }, x | [h, 2, [y, x, 2]] => matchu x { _ => [x == 7, x == 8], Named { a: 3, b: [2, z] } => , }, x => , }])
}
pub fn case_253(vars: &Vars) -> InferredGoal<DU, DE, Goal<DU, DE>> {
    let q = vars.v[0].clone();
    let x = vars.v[1].clone();
    proto_vulcan!([matcha q { x => { matchu [[]] { [2] => , [[_], [z, [], t | 'a'], 'b'] => { true, 1 == P3([1], t, x) }, }, [q == [x, []]] }, [t] | Named { a: [3], b: x } => { [] }, [[x], [x | z]] | [[2, x, y], [[], _]] => { conde { x == x } }, }])
}
pub fn case_254(vars: &Vars) -> InferredGoal<DU, DE, Goal<DU, DE>> {
    let x = vars.v[0].clone();
    let y = vars.v[1].clone();
    proto_vulcan!([[x, y, [] | y] == x, matchu y { _ | Named { a: [3, x], b: [1, t] } => [|x| { member(y, [2]) }, |h| { y == h, [h, y] == [["bc", [], 1 | h] | h], (_, y) == h }], }])
}
pub fn case_255(vars: &Vars) -> InferredGoal<DU, DE, Goal<DU, DE>> {
    let x = vars.v[0].clone();
    let y = vars.v[1].clone();
    proto_vulcan!([x == [3, y, []], matcha x { [] => { false, [[y, "bc", []] != x, [x, [], []] == x] }, [z, [t, "a", 1 | z], [z]] => , }])
}
pub fn case_256(vars: &Vars) -> InferredGoal<DU, DE, Goal<DU, DE>> {
    let q = vars.v[0].clone();
    let x = vars.v[1].clone();
    proto_vulcan!([x == [3 | x], matche x { ['a', [1, h], [x, _]] => { [_, x, x | h] == P3(_, [_], 2), onceo { [x | h] == [3, [h, h, x]] } }, [] => , h => , }])
}
pub fn case_257(vars: &Vars) -> InferredGoal<DU, DE, Goal<DU, DE>> {
    let x = vars.v[0].clone();
    let y = vars.v[1].clone();
    proto_vulcan!([matcha x { _ => , P3(h, 2, y) => [h == P3(x, y, 1), false], _ => condu { append(x, x, [1]) }, }])
}
pub fn case_258(vars: &Vars) -> InferredGoal<DU, DE, Goal<DU, DE>> {
    let x = vars.v[0].clone();
    proto_vulcan!([matcha x { Named { a: _, b: x } | _ => , t | 'b' => [|t| { 1 == [false, t], t == t, append(x, x, [3, 1]) }, append(x, x, [1])], [[3 | x], [_]] => |z, x| { false }, }])
}
pub fn case_259(vars: &Vars) -> InferredGoal<DU, DE, Goal<DU, DE>> {
    let q = vars.v[0].clone();
    let x = vars.v[1].clone();
    proto_vulcan!([matche q { [[1, h] | t] => { |h| { true, q == [x | q], P3(t, 3, [_]) != t }, true }, _ => conde { [], [q == x, [[x, []]] == q] }, [[2], ['b']] | _ => [matcha x { z => , [[x, 1, x] | t] => { 3 == t, t == x }, _ => { member(x, [1, 2, 3]) }, }, |z| {  }], }])
}
pub fn case_260(vars: &Vars) -> InferredGoal<DU, DE, Goal<DU, DE>> {
    let x = vars.v[0].clone();
    proto_vulcan!([|tz| { tz == [1], [2, 1, 1] != [2, 1 | tz] }, match x { 1 => , }])
}
pub fn case_261(vars: &Vars) -> InferredGoal<DU, DE, Goal<DU, DE>> {
    let x = vars.v[0].clone();
    proto_vulcan!([condu { [|tz| { tz == [2, 1], [2, 3 | tz] != [2, 3, 2, 1] }, x != [x, true | [x]]], [x == [[x, 1], [x, x]], x != 3], [append(x, x, [3, 3]), [[], _, x] != x] }, matche [_ | x] { 1 | [[[], t]] => , P3(3, y, z) | [[_, h]] => , }])
}
pub fn case_262(vars: &Vars) -> InferredGoal<DU, DE, Goal<DU, DE>> {
    let x = vars.v[0].clone();
    let y = vars.v[1].clone();
    proto_vulcan!([[true, 3, y] == y, matchu x { [["a", t, 2], [_], [z, "a", 1]] => , _ => { conde { [[3, 2, _ | y] == x, true], [y == x, y == [[y, y], _, [x]]] }, [y, y, 2] == y }, }])
}
pub fn case_263(vars: &Vars) -> InferredGoal<DU, DE, Goal<DU, DE>> {
    let x = vars.v[0].clone();
    let y = vars.v[1].clone();
    proto_vulcan!([3 == y, matche [x, x] { _ => [x == 7, x == 8], }])
}
pub fn case_264(vars: &Vars) -> InferredGoal<DU, DE, Goal<DU, DE>> {
    let q = vars.v[0].clone();
    let x = vars.v[1].clone();
    proto_vulcan!([q == [[false, 3], q], matchu x { P3(z, 3, 3) => , y => { [true, 2 | x] == q, [[] | x] == x }, 2 | [[3, 2 | z], y | x] => { [append(q, q, [2, 2]), member(q, [1, 1])] }, }])
}
pub fn case_265(vars: &Vars) -> InferredGoal<DU, DE, Goal<DU, DE>> {
    let q = vars.v[0].clone();
    let x = vars.v[1].clone();
    proto_vulcan!([[[1, x, 2 | [true]], x, [] | q] != (2, x), matchu [x] { _ => { |h, z| { true, member(z, []), |tz| { tz == [1], [2, 1, 1] != [2, 1 | tz] } } }, Named { a: 2, b: 3 } => { x == (x, 1) }, P3(_, [], [h]) | [y, [t], [h, t]] => , }])
}
pub fn case_266(vars: &Vars) -> InferredGoal<DU, DE, Goal<DU, DE>> {
    let q = vars.v[0].clone();
    let x = vars.v[1].clone();
    proto_vulcan!([[append(x, q, [1, 3]), append(x, q, [])], match q { [z, [3, 2]] => , }])
}
pub fn case_267(vars: &Vars) -> InferredGoal<DU, DE, Goal<DU, DE>> {
    let x = vars.v[0].clone();
    proto_vulcan!([match [[], x, 3 | x] { _ => { member(x, [1, 2, 3]) }, _ | [] => , }])
}
pub fn case_268(vars: &Vars) -> InferredGoal<DU, DE, Goal<DU, DE>> {
    let q = vars.v[0].clone();
    let x = vars.v[1].clone();
    proto_vulcan!([match x { [[h, x | h], [x]] => , _ => { member(q, [1, 2, 3]) }, }])
}
pub fn case_269(vars: &Vars) -> InferredGoal<DU, DE, Goal<DU, DE>> {
    let x = vars.v[0].clone();
    let y = vars.v[1].clone();
    proto_vulcan!([match [y, x, _ | x] { [[2], [false, z, t | t] | _] => , }])
}
pub fn case_270(vars: &Vars) -> InferredGoal<DU, DE, Goal<DU, DE>> {
    let q = vars.v[0].clone();
    let x = vars.v[1].clone();
    proto_vulcan!([matche q { ["bc", ['b', 2], [2, t]] => { conde { [member(t, [2]), append(t, x, [])] }, [member(q, [2, 2, 1]), false] }, P3(_, [1, _], []) => [[[1, x | []] == q, [] != [[3, 1 | 3]]]], [_, t] | ['a', [1, []] | [x]] => , }])
}
pub fn case_271(vars: &Vars) -> InferredGoal<DU, DE, Goal<DU, DE>> {
    let x = vars.v[0].clone();
    proto_vulcan!([P3(x, [3], [x]) == x, matche x { _ => [x == 7, x == 8], }])
}
pub fn case_272(vars: &Vars) -> InferredGoal<DU, DE, Goal<DU, DE>> {
    let x = vars.v[0].clone();
    let y = vars.v[1].clone();
    proto_vulcan!([|y, h| { 3 == x, true }, match x { [z] => { z != [2, "a"], |z, t| { 2 == y } }, _ => member(y, [1, 2, 3]), }])
}
pub fn case_273(vars: &Vars) -> InferredGoal<DU, DE, Goal<DU, DE>> {
    let q = vars.v[0].clone();
    let x = vars.v[1].clone();
    proto_vulcan!([matcha x { P3(2, _, _) => , }])
}
pub fn case_274(vars: &Vars) -> InferredGoal<DU, DE, Goal<DU, DE>> {
    let x = vars.v[0].clone();
    proto_vulcan!([match x { [[1, t | x], 1, [y, 3, 1 | x]] => , [[[]], [h, 2, 2] | y] | [2, [2, []]] => { (x, 2) != x, x != [2, 1, _] }, [] => { P3(x, _, [x, _]) != x, append(x, x, []) }, }])
}
pub fn case_275(vars: &Vars) -> InferredGoal<DU, DE, Goal<DU, DE>> {
    let x = vars.v[0].clone();
    let y = vars.v[1].clone();
    proto_vulcan!([P3(_, x, []) != _, matchu x { [[3, 2, h | x], [[], _]] => , }])
}
pub fn case_276(vars: &Vars) -> InferredGoal<DU, DE, Goal<DU, DE>> {
    let q = vars.v[0].clone();
    let x = vars.v[1].clone();
    proto_vulcan!([[member(x, [3]), false, q == x], matche q { _ | z => { [q != (x, [q]), (3, q) == x, append(x, x, [3, 2])], |h, z| {  } }, P3([[], t], _, 3) => |h, t| { x == P3([], h, []) }, }])
}
pub fn case_277(vars: &Vars) -> InferredGoal<DU, DE, Goal<DU, DE>> {
    let x = vars.v[0].clone();
    proto_vulcan!([x != x, match x { t => { condu { x == [t, 2, t | t], true, [t] != x }, [x, 2, t | t] == t }, t => { [t == 1] }, }])
}
pub fn case_278(vars: &Vars) -> InferredGoal<DU, DE, Goal<DU, DE>> {
    let x = vars.v[0].clone();
    proto_vulcan!([member(x, [2]), matche [2, x, x] { Named { a: [1, []], b: [_, _] } => { x == P3([], _, x), x == P3([x], [], [x, _]) }, P3([], z, [h]) => [[h == [2, z], [] == x]], [[z, 1, []], [h, "a"], [h, 1]] => { |y, z| { true } }, }])
}
pub fn case_279(vars: &Vars) -> InferredGoal<DU, DE, Goal<DU, DE>> {
    let q = vars.v[0].clone();
    let x = vars.v[1].clone();
    proto_vulcan!([|tz| { tz == [2], [1, 2] != [1 | tz] }, matche q { _ | x => { false == q, conda { false, [false, [[q, _], _] == q], [[q, q] | q] != q } }, }])
}
pub fn case_280(vars: &Vars) -> InferredGoal<DU, DE, Goal<DU, DE>> {
    let q = vars.v[0].clone();
    let x = vars.v[1].clone();
    proto_vulcan!([matchu q { y => append(q, x, [1]), _ => { q == 7, q == 8 }, }])
}
pub fn case_281(vars: &Vars) -> InferredGoal<DU, DE, Goal<DU, DE>> {
    let x = vars.v[0].clone();
    let y = vars.v[1].clone();
    proto_vulcan!([matche y { [[t], h | _] => { onceo { x == [] }, matche y { z => , [[true, _], [_, y, []], 'a' | _] => { [y | t] != x, h == [false, y, _] }, 2 => { t == P3([[]], [_], []), [[t | h], [_ | y]] == x }, } }, }])
}
pub fn case_282(vars: &Vars) -> InferredGoal<DU, DE, Goal<DU, DE>> {
    let x = vars.v[0].clone();
    let y = vars.v[1].clone();
    proto_vulcan!([match y { P3([_, _], [], z) => z == y, P3(1, t, [1]) => { conde { [|tz| { [1, 2 | tz] != [1, 2, 2, 3], tz == [2, 3] }, [] == x], [1, x] == P3([x], _, t), [[[], t, [] | t] | x] == [x, y, t] }, conde { |tz| { tz == [3, 1], [3, 3, 1] != [3 | tz] }, append(x, x, [2]), [['b', 1] == t, append(y, t, [1])] } }, _ => member(y, [1, 2, 3]), }])
}
pub fn case_283(vars: &Vars) -> InferredGoal<DU, DE, Goal<DU, DE>> {
    let x = vars.v[0].clone();
    proto_vulcan!([matchu 1 { ['a', [_], _] => , }])
}
pub fn case_284(vars: &Vars) -> InferredGoal<DU, DE, Goal<DU, DE>> {
    let x = vars.v[0].clone();
    proto_vulcan!([|h, z| { h == x }, matche x { [2] => { matcha x { [[]] => false, }, [|tz| { tz == [1, 3], [3 | tz] != [3, 1, 3] }, (x, x) == x] }, [2, []] => , [[t, y], [3, h | t], [2, 2, []]] => { append(y, t, [2, 2]), [h, _, y] == [x, 2, _] }, }])
}
pub fn case_285(vars: &Vars) -> InferredGoal<DU, DE, Goal<DU, DE>> {
    let x = vars.v[0].clone();
    proto_vulcan!([matcha x { y => , [[], [z, h]] | x => , h => { 2 == h }, }])
}
pub fn case_286(vars: &Vars) -> InferredGoal<DU, DE, Goal<DU, DE>> {
    let q = vars.v[0].clone();
    let x = vars.v[1].clone();
    proto_vulcan!([x == [q, x], matchu q { P3(1, h, [[], h]) => { matcha q { _ => { h == 7, h == 8 }, _ | [[false, t]] => [[h, q | []], [h, _] | q] == [x, _], } }, }])
}
pub fn case_287(vars: &Vars) -> InferredGoal<DU, DE, Goal<DU, DE>> {
    let q = vars.v[0].clone();
    let x = vars.v[1].clone();
    proto_vulcan!([matche x { [[[]]] => { [x, 2, x] == q }, x => , }])
}
pub fn case_288(vars: &Vars) -> InferredGoal<DU, DE, Goal<DU, DE>> {
    let x = vars.v[0].clone();
    proto_vulcan!([match x { [[t, 2 | _], [[]], [3]] => , }])
}
pub fn case_289(vars: &Vars) -> InferredGoal<DU, DE, Goal<DU, DE>> {
    let x = vars.v[0].clone();
    proto_vulcan!([matchu [x] { [[], 'a', "a"] => { [x == ([[], x], x), false], conde { x != [x, 2 | x], [2, [x, 1 | x] | []] == x, [1 != 2, x == 1] } }, _ => { [true, 1, x] != x }, }])
}
pub fn case_290(vars: &Vars) -> InferredGoal<DU, DE, Goal<DU, DE>> {
    let x = vars.v[0].clone();
    proto_vulcan!([matchu x { _ => { x == 7, x == 8 }, _ => member(x, [1, 2, 3]), }])
}
pub fn case_291(vars: &Vars) -> InferredGoal<DU, DE, Goal<DU, DE>> {
    let x = vars.v[0].clone();
    let y = vars.v[1].clone();
    proto_vulcan!([matche y { _ => , }])
}
pub fn case_292(vars: &Vars) -> InferredGoal<DU, DE, Goal<DU, DE>> {
    let x = vars.v[0].clone();
    proto_vulcan!([match 1 { P3(z, [], 2) => [[z == ([z], x), [] == [x], x == z]], y => [|h, x| { x == [3, "bc", 3 | x] }, matchu y { P3(1, [[]], [[], y]) => { true }, [[_]] => { true }, [h, [1, 2]] => , }], }])
}
pub fn case_293(vars: &Vars) -> InferredGoal<DU, DE, Goal<DU, DE>> {
    let q = vars.v[0].clone();
    let x = vars.v[1].clone();
    proto_vulcan!([match x { [[[], t, []]] => { condu { t != ([t, x], []) } }, Named { a: [3], b: 1 } => { |x| { false } }, }])
}
pub fn case_294(vars: &Vars) -> InferredGoal<DU, DE, Goal<DU, DE>> {
    let q = vars.v[0].clone();
    let x = vars.v[1].clone();
    proto_vulcan!([x == [x, 2 | q], matchu [[], q, x | x] { [[t, y | h], t, [_ | _] | t] => [conde { [y == 2, x == ([], [])], [y == P3(x, _, 3), [[], q, x] == y] }, conde { [false, append(h, t, [2])], [[[], []]] == ["bc", _ | x] }], }])
}
pub fn case_295(vars: &Vars) -> InferredGoal<DU, DE, Goal<DU, DE>> {
    let q = vars.v[0].clone();
    let x = vars.v[1].clone();
    proto_vulcan!([matche x { Named { a: [y, h], b: _ } => { P3([], [_, 3], h) != [[1, q, 3 | h], [1, q, y | x]] }, P3([1, 1], y, _) => , }])
}
pub fn case_296(vars: &Vars) -> InferredGoal<DU, DE, Goal<DU, DE>> {
    let q = vars.v[0].clone();
    let x = vars.v[1].clone();
    proto_vulcan!([|x, y| { [] == 2, 1 == x, P3([], 2, _) != [x | x] }, matchu q { z => { ([], _) != x, [z, q, x] != z }, }])
}
pub fn case_297(vars: &Vars) -> InferredGoal<DU, DE, Goal<DU, DE>> {
    let x = vars.v[0].clone();
    let y = vars.v[1].clone();
    proto_vulcan!([x == [1, [2, _] | y], y != []])
}
pub fn case_298(vars: &Vars) -> InferredGoal<DU, DE, Goal<DU, DE>> {
    let x = vars.v[0].clone();
    proto_vulcan!([conde { x == 'a', [x == "bc", true], false }])
}
pub fn case_299(vars: &Vars) -> InferredGoal<DU, DE, Goal<DU, DE>> {
    let x = vars.v[0].clone();
    proto_vulcan!([conde { x == 1, true, x == 2 }])
}
pub fn case_300(vars: &Vars) -> InferredGoal<DU, DE, Goal<DU, DE>> {
    let x = vars.v[0].clone();
    let y = vars.v[1].clone();
    proto_vulcan!([conde { x == 1, [true, true], y == 2, [x == 3, y == 3] }])
}
pub fn case_301(vars: &Vars) -> InferredGoal<DU, DE, Goal<DU, DE>> {
    let x = vars.v[0].clone();
    proto_vulcan!([conde { true, true }])
}
pub fn case_302(vars: &Vars) -> InferredGoal<DU, DE, Goal<DU, DE>> {
    let q = vars.v[0].clone();
    let x = vars.v[1].clone();
    proto_vulcan!([|x| { x == 1, q == [x, true] }])
}
pub fn case_303(vars: &Vars) -> InferredGoal<DU, DE, Goal<DU, DE>> {
    let x = vars.v[0].clone();
    proto_vulcan!([closure { [x == 1, conde { true, true }] }])
}
pub fn case_304(vars: &Vars) -> InferredGoal<DU, DE, Goal<DU, DE>> {
    let x = vars.v[0].clone();
    let y = vars.v[1].clone();
    proto_vulcan!([[] == x, y == [[]]])
}
pub fn case_305(vars: &Vars) -> InferredGoal<DU, DE, Goal<DU, DE>> {
    let x = vars.v[0].clone();
    let y = vars.v[1].clone();
    proto_vulcan!([x == [1, 2 | []], y == [x | [3]]])
}
pub fn case_306(vars: &Vars) -> InferredGoal<DU, DE, Goal<DU, DE>> {
    let x = vars.v[0].clone();
    proto_vulcan!([x != [1 | []], conde { x == [1], x == [1, []] }])
}
pub fn case_307(vars: &Vars) -> InferredGoal<DU, DE, Goal<DU, DE>> {
    let q = vars.v[0].clone();
    let x = vars.v[1].clone();
    proto_vulcan!([|t| { q != (1, x), t == P3([q], q, [_]) }])
}
pub fn case_308(vars: &Vars) -> InferredGoal<DU, DE, Goal<DU, DE>> {
    let x = vars.v[0].clone();
    let y = vars.v[1].clone();
    proto_vulcan!([conda { conde { x == [x, [y, x, 2]], |x, t| {  }, onceo { [y] == y } }, (_, [x]) == x, true }])
}
pub fn case_309(vars: &Vars) -> InferredGoal<DU, DE, Goal<DU, DE>> {
    let q = vars.v[0].clone();
    let x = vars.v[1].clone();
    proto_vulcan!([[], { let c__: InferredGoal<DU, DE, Goal<DU, DE>> = proto_vulcan_closure!(|yy| { conde { [q == [yy | _], yy == 1], [q == [_, yy | _], yy == 2] } }); let g__: Goal<DU, DE> = ::proto_vulcan::GoalCast::cast_into(c__); let r__: InferredGoal<DU, DE, Goal<DU, DE>> = proto_vulcan!([g__.clone(), g__]); r__ }])
}
pub fn case_310(vars: &Vars) -> InferredGoal<DU, DE, Goal<DU, DE>> {
    let q = vars.v[0].clone();
    let x = vars.v[1].clone();
    proto_vulcan!([onceo { [q, 1] == x }, x == 1, q == [1, x, x]])
}
pub fn case_311(vars: &Vars) -> InferredGoal<DU, DE, Goal<DU, DE>> {
    let x = vars.v[0].clone();
    proto_vulcan!([x != 2, [|x| { 'a' == x }, conde { [x == 3, onceo { x == (2, _) }], 1 != x, [onceo { (1, _) == x }, [3] == x] }], x == "bc"])
}
pub fn case_312(vars: &Vars) -> InferredGoal<DU, DE, Goal<DU, DE>> {
    let q = vars.v[0].clone();
    let x = vars.v[1].clone();
    proto_vulcan!([[] == q, [q, 3] == x, { let c__: InferredGoal<DU, DE, Goal<DU, DE>> = proto_vulcan_closure!(|yy| { conde { [x == [yy | _], yy == 1], [x == [_, yy | _], yy == 2] } }); let g__: Goal<DU, DE> = ::proto_vulcan::GoalCast::cast_into(c__); let r__: InferredGoal<DU, DE, Goal<DU, DE>> = proto_vulcan!([g__.clone(), g__]); r__ }])
}
pub fn case_313(vars: &Vars) -> InferredGoal<DU, DE, Goal<DU, DE>> {
    let q = vars.v[0].clone();
    let x = vars.v[1].clone();
    proto_vulcan!([q == q, [x | _] == x, closure { [[onceo { append(x, q, [1]) }, x == 3]] }])
}
pub fn case_314(vars: &Vars) -> InferredGoal<DU, DE, Goal<DU, DE>> {
    let q = vars.v[0].clone();
    let x = vars.v[1].clone();
    proto_vulcan!([q == [q, 3, _], [3] == q])
}
pub fn case_315(vars: &Vars) -> InferredGoal<DU, DE, Goal<DU, DE>> {
    let q = vars.v[0].clone();
    let x = vars.v[1].clone();
    proto_vulcan!([(_, [[]]) == q, x == P3(2, [x, q], []), closure { [[x != [_], [[x, 1] | q] != q], |t| { [[t, t], [_, _, x]] == q }] }])
}
pub fn case_316(vars: &Vars) -> InferredGoal<DU, DE, Goal<DU, DE>> {
    let x = vars.v[0].clone();
    let y = vars.v[1].clone();
    proto_vulcan!([|h, x| { onceo { true }, h == x, member(y, [3, 3]) }])
}
pub fn case_317(vars: &Vars) -> InferredGoal<DU, DE, Goal<DU, DE>> {
    let q = vars.v[0].clone();
    let x = vars.v[1].clone();
    proto_vulcan!([|t| { [q, 2] == t }, x == P3([], [1], [2, []])])
}
pub fn case_318(vars: &Vars) -> InferredGoal<DU, DE, Goal<DU, DE>> {
    let x = vars.v[0].clone();
    let y = vars.v[1].clone();
    proto_vulcan!([[x, 2, x] == x, onceo { |z| { x == [1], [] } }, closure { [[3 != x, [[x] != x], [3, x] == y]] }])
}
pub fn case_319(vars: &Vars) -> InferredGoal<DU, DE, Goal<DU, DE>> {
    let x = vars.v[0].clone();
    let y = vars.v[1].clone();
    proto_vulcan!([[1, y, 2] != x, |h| { [y] == y, y != h, [h == [y, 1, "bc"], append(x, h, [3, 1])] }, member(y, [2, 1, 2])])
}
pub fn case_320(vars: &Vars) -> InferredGoal<DU, DE, Goal<DU, DE>> {
    let q = vars.v[0].clone();
    let x = vars.v[1].clone();
    proto_vulcan!([q == [x, x], 1 != x])
}
pub fn case_321(vars: &Vars) -> InferredGoal<DU, DE, Goal<DU, DE>> {
    let q = vars.v[0].clone();
    let x = vars.v[1].clone();
    proto_vulcan!([[], _ == q])
}
pub fn case_322(vars: &Vars) -> InferredGoal<DU, DE, Goal<DU, DE>> {
    let q = vars.v[0].clone();
    let x = vars.v[1].clone();
    proto_vulcan!([q == [[true], q], member(x, []), |t, h| { onceo { |t, z| { 2 != x, P3(_, 1, 3) == q, 3 == [1] } }, [|t, h| {  }, 2 == q, |z| {  }] }])
}
pub fn case_323(vars: &Vars) -> InferredGoal<DU, DE, Goal<DU, DE>> {
    let x = vars.v[0].clone();
    proto_vulcan!([x == [2, 3], x != [[], 1, x]])
}
pub fn case_324(vars: &Vars) -> InferredGoal<DU, DE, Goal<DU, DE>> {
    let x = vars.v[0].clone();
    proto_vulcan!([conde { false, [x == [[]], conde { [conde { [member(x, []), [_] == x] }, 'a' == x], P3([x, 3], [_, _], _) == x }], [[[_]] == x, false] }, member(x, [2, 1])])
}
pub fn case_325(vars: &Vars) -> InferredGoal<DU, DE, Goal<DU, DE>> {
    let q = vars.v[0].clone();
    let x = vars.v[1].clone();
    proto_vulcan!([|x, z| { [], ([[]], x) == x }, condu { [_ != x, |h, z| { true, conde { append(h, q, [3, 2]) }, [q, 1, 2] != x }], [conde { |t| { append(q, q, []), (t, [1]) == t }, [|h, x| { q == [x, [] | x] }, |z| {  }], [[1, 2] == q, conde { [append(q, q, [2]), member(x, [3])], [[2, 'a' | [q]] == x, q == "bc"], [[], [], x | q] == q }] }, false], q != [[q, x, x], [_, 3 | x], [[], _, 3] | x] }, closure { [[], [] == q] }])
}
pub fn case_326(vars: &Vars) -> InferredGoal<DU, DE, Goal<DU, DE>> {
    let q = vars.v[0].clone();
    let x = vars.v[1].clone();
    proto_vulcan!([conde { [], q == [q, _, q], |y, x| { q == y, condu { [_ | x] == x, [x == y, [[], y, x] == x] } } }, (_, 1) == [], ([], q) == q, { let c__: InferredGoal<DU, DE, Goal<DU, DE>> = proto_vulcan_closure!(|yy| { conde { [q == [yy | _], yy == 1], [q == [_, yy | _], yy == 2] } }); let g__: Goal<DU, DE> = ::proto_vulcan::GoalCast::cast_into(c__); let r__: InferredGoal<DU, DE, Goal<DU, DE>> = proto_vulcan!([g__.clone(), g__]); r__ }])
}
pub fn case_327(vars: &Vars) -> InferredGoal<DU, DE, Goal<DU, DE>> {
    let x = vars.v[0].clone();
    let y = vars.v[1].clone();
    proto_vulcan!([|y, x| { ([x], y) == y, conde { |t, z| { t != [[], 1, 3] }, conde { member(y, [1]), 'a' == y }, member(x, [3, 1, 1]) }, y == 2 }, closure { [|tz| { tz == [3], [3, 3] != [3 | tz] }, [y] != y] }])
}
pub fn case_328(vars: &Vars) -> InferredGoal<DU, DE, Goal<DU, DE>> {
    let x = vars.v[0].clone();
    proto_vulcan!([x == "a"])
}
pub fn case_329(vars: &Vars) -> InferredGoal<DU, DE, Goal<DU, DE>> {
    let x = vars.v[0].clone();
    let y = vars.v[1].clone();
    proto_vulcan!([|x| { x == y, y == [2, y, [true]] }])
}
pub fn case_330(vars: &Vars) -> InferredGoal<DU, DE, Goal<DU, DE>> {
    let q = vars.v[0].clone();
    let x = vars.v[1].clone();
    proto_vulcan!([|h, z| { member(q, [2, 2, 1]), |tz| { [1, 2, 3, 2] != [1, 2 | tz], tz == [3, 2] } }])
}
pub fn case_331(vars: &Vars) -> InferredGoal<DU, DE, Goal<DU, DE>> {
    let q = vars.v[0].clone();
    let x = vars.v[1].clone();
    proto_vulcan!([conde { [|t| { |y, z| { [[] | q] == z, |tz| { [3 | tz] != [3, 1], tz == [1] }, [[3, t], [2 | x], [x] | [1, []]] == 1 } }, conde { [conde { [append(x, q, []), q != [x]], [[[x, [], 1 | q], [q | q]] == x, x != [[], false]], [x == P3([_], q, q), |tz| { tz == [3, 1], [2 | tz] != [2, 3, 1] }] }, true], conde { [1, 1, _] == x, false } }] }, [3, 2] != [1, q, q], |y, z| { z == [q | z], condu { |x, y| { member(x, []), x == [1] }, [[y, 1 | z] == 2, |h, y| { [[], z, x] == h, [2] == [x, [[], 1] | y] }] } }])
}
pub fn case_332(vars: &Vars) -> InferredGoal<DU, DE, Goal<DU, DE>> {
    let x = vars.v[0].clone();
    let y = vars.v[1].clone();
    proto_vulcan!([y != 3, |y| { onceo { [[member(y, [2, 1])]] } }, y == [[y, "a", y], []]])
}
pub fn case_333(vars: &Vars) -> InferredGoal<DU, DE, Goal<DU, DE>> {
    let q = vars.v[0].clone();
    let x = vars.v[1].clone();
    proto_vulcan!([|h| { onceo { |y| { |tz| { [3, 1, 1] != [3 | tz], tz == [1, 1] }, x != [[_ | q] | x] } } }, 1 != q, [[1] == q]])
}
pub fn case_334(vars: &Vars) -> InferredGoal<DU, DE, Goal<DU, DE>> {
    let x = vars.v[0].clone();
    proto_vulcan!([[1 | x] == x, ([1, 2], []) == x, [] == x, { let c__: InferredGoal<DU, DE, Goal<DU, DE>> = proto_vulcan_closure!([|yy| { conde { [x == [yy | _], yy == 1], [x == [_, yy | _], yy == 2] } }, |h, z| { z == [z, 1, _ | x], 'a' != x, h != ([[]], z) }]); let g__: Goal<DU, DE> = ::proto_vulcan::GoalCast::cast_into(c__); let r__: InferredGoal<DU, DE, Goal<DU, DE>> = proto_vulcan!([g__.clone(), g__]); r__ }])
}
pub fn case_335(vars: &Vars) -> InferredGoal<DU, DE, Goal<DU, DE>> {
    let x = vars.v[0].clone();
    let y = vars.v[1].clone();
    proto_vulcan!([y == [[y, 'b']], [[y, 1], [2, false], 2] == "a", [|h| { |z| { ([[]], 1) == h, [y, 2] == ['a'], member(y, [2]) }, |x| { |tz| { tz == [2], [3, 2] != [3 | tz] }, |tz| { [3, 2 | tz] != [3, 2, 2], tz == [2] }, y == [h, x | h] }, |t| { member(h, [1, 1]), h != [_] } }, y == [y, "bc", 1 | x], [_, 3] == y], closure { [[], [1, y, 1], [3 | y] | y] == x }])
}
pub fn case_336(vars: &Vars) -> InferredGoal<DU, DE, Goal<DU, DE>> {
    let x = vars.v[0].clone();
    proto_vulcan!([[[x, 2 | x], [2, x | x]] == x, closure { [[[], _] != x, x == x] }])
}
pub fn case_337(vars: &Vars) -> InferredGoal<DU, DE, Goal<DU, DE>> {
    let q = vars.v[0].clone();
    let x = vars.v[1].clone();
    proto_vulcan!([|z| { |h| { condu { [(q, q) != x, (_, [2, []]) != x], [[[2, 1, h], h] != [q], [2] == h], true } } }, closure { [_ != q, x == (x, [1])] }])
}
pub fn case_338(vars: &Vars) -> InferredGoal<DU, DE, Goal<DU, DE>> {
    let q = vars.v[0].clone();
    let x = vars.v[1].clone();
    proto_vulcan!([conde { q == q, [condu { conde { [append(q, q, [1]), false] }, [|t, h| { q == [2] }, |tz| { tz == [1, 3], [1, 1, 3] != [1 | tz] }], [|h| { h != [_, _], [2, q, 3 | h] != h, member(x, [3, 2]) }, append(x, q, [3, 2])] }, ([x, q], 3) != x] }])
}
pub fn case_339(vars: &Vars) -> InferredGoal<DU, DE, Goal<DU, DE>> {
    let x = vars.v[0].clone();
    let y = vars.v[1].clone();
    proto_vulcan!([conda { x == P3(3, y, _), [[]] }, [x, 3] == y, |y| { [y == P3(2, 1, [y, _]), onceo { append(x, x, []) }] }])
}
pub fn case_340(vars: &Vars) -> InferredGoal<DU, DE, Goal<DU, DE>> {
    let x = vars.v[0].clone();
    let y = vars.v[1].clone();
    proto_vulcan!([|tz| { [1, 3, 1] != [1 | tz], tz == [3, 1] }, onceo { |x| { |z| { ([2, []], []) == x, false } } }, [2, _, x | 1] == x])
}
pub fn case_341(vars: &Vars) -> InferredGoal<DU, DE, Goal<DU, DE>> {
    let x = vars.v[0].clone();
    proto_vulcan!([|x, y| { [conde { [], member(x, [3, 1]), [member(x, [1, 3]), true] }, |x, z| { P3([], _, _) == x, true, [[] | 3] == x }, |x| { ["a", x, _ | y] != [[1], [1, [], x], [3, 1]], |tz| { [2, 1 | tz] != [2, 1, 2, 1], tz == [2, 1] } }], true, (x, [[]]) != x }, x != x, x == _])
}
pub fn case_342(vars: &Vars) -> InferredGoal<DU, DE, Goal<DU, DE>> {
    let x = vars.v[0].clone();
    proto_vulcan!([[|z| { [z | x] != x, [z, z | x] != x, (1, _) == x }, conda { [[], conde { [[[1, x, []], 2 | x] == x, [x] == x], false, [[x, _ | _] == x, x != P3(3, x, [[], x])] }] }, x == P3(3, 1, x)], [x, [1, x, 2], []] == x, onceo { [[onceo { |tz| { [3 | tz] != [3, 1], tz == [1] } }]] }, { let c__: InferredGoal<DU, DE, Goal<DU, DE>> = proto_vulcan_closure!([|yy| { conde { [x == [yy | _], yy == 1], [x == [_, yy | _], yy == 2] } }, onceo { [_, x, x | x] == x }]); let g__: Goal<DU, DE> = ::proto_vulcan::GoalCast::cast_into(c__); let r__: InferredGoal<DU, DE, Goal<DU, DE>> = proto_vulcan!([g__.clone(), g__]); r__ }])
}
pub fn case_343(vars: &Vars) -> InferredGoal<DU, DE, Goal<DU, DE>> {
    let x = vars.v[0].clone();
    proto_vulcan!([[onceo { |z| { x == z, z == _, [1, true, true] == [[[]] | _] } }], conde { [], P3([3], [[]], 3) == x, conde { [|x, h| { member(h, []), member(h, [3]), true }, x == [2]], [P3([3], _, x) == [x | x], condu { [false, [[], x | x] == [x | x]], x == [] }], [x == true, x == [[x], x, [x]]] } }, ["a", 2] == x])
}
pub fn case_344(vars: &Vars) -> InferredGoal<DU, DE, Goal<DU, DE>> {
    let x = vars.v[0].clone();
    proto_vulcan!([[|t| { |t, x| { (_, []) == [[2, t, x | t], t, t], x != ['a', 3 | x], 1 == x }, [2, 2] != x }], [2, x | x] == P3(_, [3, 1], 3)])
}
pub fn case_345(vars: &Vars) -> InferredGoal<DU, DE, Goal<DU, DE>> {
    let x = vars.v[0].clone();
    let y = vars.v[1].clone();
    proto_vulcan!([1 == y])
}
pub fn case_346(vars: &Vars) -> InferredGoal<DU, DE, Goal<DU, DE>> {
    let x = vars.v[0].clone();
    let y = vars.v[1].clone();
    proto_vulcan!([[[2, x], y | y] == y, |x| {  }, onceo { |y, t| { t == [[1, y]], (t, []) != y } }])
}
pub fn case_347(vars: &Vars) -> InferredGoal<DU, DE, Goal<DU, DE>> {
    let x = vars.v[0].clone();
    proto_vulcan!([condu { [[[], x | x], [x, 2, 2]] == [1], [[], ['a', x, []] == x] }, x == 2, { let c__: InferredGoal<DU, DE, Goal<DU, DE>> = proto_vulcan_closure!(|yy| { conde { [x == [yy | _], yy == 1], [x == [_, yy | _], yy == 2] } }); let g__: Goal<DU, DE> = ::proto_vulcan::GoalCast::cast_into(c__); let r__: InferredGoal<DU, DE, Goal<DU, DE>> = proto_vulcan!([g__.clone(), g__]); r__ }])
}
pub fn case_348(vars: &Vars) -> InferredGoal<DU, DE, Goal<DU, DE>> {
    let q = vars.v[0].clone();
    let x = vars.v[1].clone();
    proto_vulcan!([conde { conde { [|tz| { [1, 2 | tz] != [1, 2, 3, 2], tz == [3, 2] }, true], [x != [3, "a", q | q], |h, z| {  }], [q == [2, 1, 2], |z| { P3(_, [q, 3], []) == 2, append(q, x, [3, 2]) }] }, [], [[x == [q], P3([3], [], _) == P3(3, x, 2), |tz| { tz == [2, 2], [3, 3 | tz] != [3, 3, 2, 2] }]] }])
}
pub fn case_349(vars: &Vars) -> InferredGoal<DU, DE, Goal<DU, DE>> {
    let x = vars.v[0].clone();
    let y = vars.v[1].clone();
    proto_vulcan!([conde { true, [|t| { member(t, []) }, x == [x, 1]], [conde { [[y != ([1], y)], |h| { true, append(x, y, [2, 3]), y == x }] }, conde { |z, y| { [[x, y, x]] == [[y, x | y], [2, z, 3]], false == x, z == _ }, |x| { x == ["bc", x, x | x], [x | x] == y, [false, y] == y }, [y, 1 | y] == [[]] }] }, closure { [2 == [y, [[], 2, x]], |y| {  }] }])
}
pub fn case_350(vars: &Vars) -> InferredGoal<DU, DE, Goal<DU, DE>> {
    let q = vars.v[0].clone();
    let x = vars.v[1].clone();
    proto_vulcan!([q != x, [q == x]])
}
pub fn case_351(vars: &Vars) -> InferredGoal<DU, DE, Goal<DU, DE>> {
    let x = vars.v[0].clone();
    let y = vars.v[1].clone();
    proto_vulcan!([[x, y, 3] != x])
}
pub fn case_352(vars: &Vars) -> InferredGoal<DU, DE, Goal<DU, DE>> {
    let x = vars.v[0].clone();
    proto_vulcan!([x != x])
}
pub fn case_353(vars: &Vars) -> InferredGoal<DU, DE, Goal<DU, DE>> {
    let x = vars.v[0].clone();
    proto_vulcan!([2 != x, conda { [[condu { x == [1] }], |x, y| { x != x, member(x, [1, 1]), onceo { x == [[], _] } }], [false, |x| {  }], [conde { [], [], conde { x == [x, [], 3] } }, [|tz| { [2 | tz] != [2, 3], tz == [3] }]] }, conde { [true, [conde { [x == x, x == ['b']], x == [[x, false, x | x]], [[[2]] == 2, member(x, [2])] }]], [x == [2, [[], x, 1]], [[], 1, 1] != [2]], [[onceo { false }], |y| { y == ([], x) }] }, { let c__: InferredGoal<DU, DE, Goal<DU, DE>> = proto_vulcan_closure!([|yy| { conde { [x == [yy | _], yy == 1], [x == [_, yy | _], yy == 2] } }, 3 == x]); let g__: Goal<DU, DE> = ::proto_vulcan::GoalCast::cast_into(c__); let r__: InferredGoal<DU, DE, Goal<DU, DE>> = proto_vulcan!([g__.clone(), g__]); r__ }])
}
pub fn case_354(vars: &Vars) -> InferredGoal<DU, DE, Goal<DU, DE>> {
    let x = vars.v[0].clone();
    let y = vars.v[1].clone();
    proto_vulcan!([conde { [1 != [_, [2, "a", x] | x], false], [P3(x, x, [_, y]) == y, x != [[]]], true }, closure { [|tz| { [2 | tz] != [2, 1, 1], tz == [1, 1] }, y == y] }])
}
pub fn case_355(vars: &Vars) -> InferredGoal<DU, DE, Goal<DU, DE>> {
    let x = vars.v[0].clone();
    let y = vars.v[1].clone();
    proto_vulcan!([x != [y, []], [1] == y, |tz| { [1, 3 | tz] != [1, 3, 1, 2], tz == [1, 2] }])
}
pub fn case_356(vars: &Vars) -> InferredGoal<DU, DE, Goal<DU, DE>> {
    let x = vars.v[0].clone();
    proto_vulcan!([[x] == x])
}
pub fn case_357(vars: &Vars) -> InferredGoal<DU, DE, Goal<DU, DE>> {
    let q = vars.v[0].clone();
    let x = vars.v[1].clone();
    proto_vulcan!([2 == q, condu { [|t, z| { conde { [x == [2], 2 == t], [[t, q] == z, member(x, [])], [[z, [q], [1 | t] | t] == t, append(t, z, [])] }, [_ | t] == z, |t| {  } }, [[2, x, q], [], [2, [], q | 'b'] | x] != [2, "a"]], |h, y| { [1, _, y | q] == [false] } }, P3([], _, _) != [_, 3]])
}
pub fn case_358(vars: &Vars) -> InferredGoal<DU, DE, Goal<DU, DE>> {
    let q = vars.v[0].clone();
    let x = vars.v[1].clone();
    proto_vulcan!([true, { let c__: InferredGoal<DU, DE, Goal<DU, DE>> = proto_vulcan_closure!([|yy| { conde { [x == [yy | _], yy == 1], [x == [_, yy | _], yy == 2] } }, q != P3(x, 3, [3, _])]); let g__: Goal<DU, DE> = ::proto_vulcan::GoalCast::cast_into(c__); let r__: InferredGoal<DU, DE, Goal<DU, DE>> = proto_vulcan!([g__.clone(), g__]); r__ }])
}
pub fn case_359(vars: &Vars) -> InferredGoal<DU, DE, Goal<DU, DE>> {
    let x = vars.v[0].clone();
    let y = vars.v[1].clone();
    proto_vulcan!([onceo { (2, 2) == y }, P3(y, [], [y]) == x, y == x, { let c__: InferredGoal<DU, DE, Goal<DU, DE>> = proto_vulcan_closure!(|yy| { conde { [x == [yy | _], yy == 1], [x == [_, yy | _], yy == 2] } }); let g__: Goal<DU, DE> = ::proto_vulcan::GoalCast::cast_into(c__); let r__: InferredGoal<DU, DE, Goal<DU, DE>> = proto_vulcan!([g__.clone(), g__]); r__ }])
}
pub fn case_360(vars: &Vars) -> InferredGoal<DU, DE, Goal<DU, DE>> {
    let x = vars.v[0].clone();
    let y = vars.v[1].clone();
    proto_vulcan!([member(y, [2, 2, 1]), x == (_, []), conde { [conde { y == [3, 1], [|h, z| { |tz| { tz == [1], [1, 2, 1] != [1, 2 | tz] }, x == h }, [y == x, member(x, [])]], [x] == x }, append(x, x, [1, 2])], [] }])
}
pub fn case_361(vars: &Vars) -> InferredGoal<DU, DE, Goal<DU, DE>> {
    let x = vars.v[0].clone();
    let y = vars.v[1].clone();
    proto_vulcan!([[1] == x])
}
pub fn case_362(vars: &Vars) -> InferredGoal<DU, DE, Goal<DU, DE>> {
    let x = vars.v[0].clone();
    let y = vars.v[1].clone();
    proto_vulcan!([["a", 1, 1] == x, { let c__: InferredGoal<DU, DE, Goal<DU, DE>> = proto_vulcan_closure!([|yy| { conde { [y == [yy | _], yy == 1], [y == [_, yy | _], yy == 2] } }, [[]] != [3, 1]]); let g__: Goal<DU, DE> = ::proto_vulcan::GoalCast::cast_into(c__); let r__: InferredGoal<DU, DE, Goal<DU, DE>> = proto_vulcan!([g__.clone(), g__]); r__ }])
}
pub fn case_363(vars: &Vars) -> InferredGoal<DU, DE, Goal<DU, DE>> {
    let x = vars.v[0].clone();
    let y = vars.v[1].clone();
    proto_vulcan!([conde { [], (x, 1) == y }, y == y, closure { [x == ([y, _], []), [true, false, |t, z| {  }]] }])
}
pub fn case_364(vars: &Vars) -> InferredGoal<DU, DE, Goal<DU, DE>> {
    let x = vars.v[0].clone();
    let y = vars.v[1].clone();
    proto_vulcan!([|tz| { [2, 3, 3] != [2 | tz], tz == [3, 3] }, [true, 1, 1] == [y, [1, _, x], [y, 1 | y]]])
}
pub fn case_365(vars: &Vars) -> InferredGoal<DU, DE, Goal<DU, DE>> {
    let q = vars.v[0].clone();
    let x = vars.v[1].clone();
    proto_vulcan!([onceo { onceo { conde { [q != q, true], [], (x, q) == x } } }])
}
pub fn case_366(vars: &Vars) -> InferredGoal<DU, DE, Goal<DU, DE>> {
    let x = vars.v[0].clone();
    proto_vulcan!([x == (_, 2), x == 2, closure { ["a" != x, conde { false }] }])
}
pub fn case_367(vars: &Vars) -> InferredGoal<DU, DE, Goal<DU, DE>> {
    let x = vars.v[0].clone();
    let y = vars.v[1].clone();
    proto_vulcan!([conde { [x == x, conde { [] == y }] }, onceo { false }, P3([1, y], x, 2) == y, closure { [|t| { [[x, y]] == t }, 3 == y] }])
}
pub fn case_368(vars: &Vars) -> InferredGoal<DU, DE, Goal<DU, DE>> {
    let q = vars.v[0].clone();
    let x = vars.v[1].clone();
    proto_vulcan!([conde { [x == x, x != [1, [] | 3]], [conde { x == (1, 1), [conda { [append(x, x, []), q != [1, true, 3]], [append(x, q, [1, 3]), true], [[q, x, q | q] == x, |tz| { tz == [3, 3], [2, 3, 3] != [2 | tz] }] }, append(q, x, [])] }, 3 != x], P3(1, x, []) == q }, { let c__: InferredGoal<DU, DE, Goal<DU, DE>> = proto_vulcan_closure!([|yy| { conde { [x == [yy | _], yy == 1], [x == [_, yy | _], yy == 2] } }, x != P3([], [3, []], q)]); let g__: Goal<DU, DE> = ::proto_vulcan::GoalCast::cast_into(c__); let r__: InferredGoal<DU, DE, Goal<DU, DE>> = proto_vulcan!([g__.clone(), g__]); r__ }])
}
pub fn case_369(vars: &Vars) -> InferredGoal<DU, DE, Goal<DU, DE>> {
    let q = vars.v[0].clone();
    let x = vars.v[1].clone();
    proto_vulcan!([conde { [q != x, onceo { 1 == x }], [conde { [] }, |tz| { [3 | tz] != [3, 1], tz == [1] }], _ == [[q, _], [2]] }, |y, t| { member(x, [1, 2]) }, conde { P3(q, x, q) == q, [2 == [3, q], conde { [|z, y| { q == [2, y, 1 | x], append(y, q, []), append(x, z, [2, 2]) }, |t| { false, member(q, [2]) }], [x == [[], [2], x], _ == x] }], [q == 'b', q == [2]] }])
}
pub fn case_370(vars: &Vars) -> InferredGoal<DU, DE, Goal<DU, DE>> {
    let x = vars.v[0].clone();
    let y = vars.v[1].clone();
    proto_vulcan!([3 != [x, [true, x]], conde { [[[x, [], 2], [y, [], []], [1, 1, _ | x] | x] == y, y != y], [], [onceo { conde { |tz| { tz == [2], [3 | tz] != [3, 2] }, [x == x, y == ([], 1)], ([[], []], [y, _]) == y } }, condu { [[], [_ | x] | y] == y, [y == P3(y, [y, []], 1), member(x, [])], [[[y, y, x], [1, _, 3]] == x, conda { [1] == y, x == 2, y != (y, x) }] }] }])
}
pub fn case_371(vars: &Vars) -> InferredGoal<DU, DE, Goal<DU, DE>> {
    let x = vars.v[0].clone();
    let y = vars.v[1].clone();
    proto_vulcan!([y == y, [['a', "a" | y], [y, x], [y, x, x] | []] != y, x == y])
}
pub fn case_372(vars: &Vars) -> InferredGoal<DU, DE, Goal<DU, DE>> {
    let x = vars.v[0].clone();
    let y = vars.v[1].clone();
    proto_vulcan!([conde { [], [y == x, |x| { |tz| { [1, 3 | tz] != [1, 3, 1, 2], tz == [1, 2] } }], true }, [y, y, 2 | y] != 1, |x, y| { P3(_, [[], x], 2) == [[x]], |t, x| { x == 3 }, y == x }])
}
pub fn case_373(vars: &Vars) -> InferredGoal<DU, DE, Goal<DU, DE>> {
    let q = vars.v[0].clone();
    let x = vars.v[1].clone();
    proto_vulcan!([x != []])
}
pub fn case_374(vars: &Vars) -> InferredGoal<DU, DE, Goal<DU, DE>> {
    let q = vars.v[0].clone();
    let x = vars.v[1].clone();
    proto_vulcan!([onceo { ([q], [[], 3]) == q }, closure { |tz| { [2 | tz] != [2, 2, 2], tz == [2, 2] } }])
}
pub fn case_375(vars: &Vars) -> InferredGoal<DU, DE, Goal<DU, DE>> {
    let x = vars.v[0].clone();
    let y = vars.v[1].clone();
    proto_vulcan!([member(y, [1, 1, 1]), member(x, [1, 2, 3]), |y| { conde { [], member(y, [1, 1]) }, [3, x | x] == y }])
}
pub fn case_376(vars: &Vars) -> InferredGoal<DU, DE, Goal<DU, DE>> {
    let x = vars.v[0].clone();
    let y = vars.v[1].clone();
    proto_vulcan!([|y, x| {  }, |z| { true, [[_ | y] == [x], |tz| { [1, 1] != [1 | tz], tz == [1] }, onceo { |tz| { [1, 2 | tz] != [1, 2, 2, 1], tz == [2, 1] } }], [y | y] == z }, _ == y])
}
pub fn case_377(vars: &Vars) -> InferredGoal<DU, DE, Goal<DU, DE>> {
    let x = vars.v[0].clone();
    proto_vulcan!([[[], [], 2] == x, |t, z| {  }])
}
pub fn case_378(vars: &Vars) -> InferredGoal<DU, DE, Goal<DU, DE>> {
    let x = vars.v[0].clone();
    let y = vars.v[1].clone();
    proto_vulcan!([[['a', "a"], y | y] == y, conde { |y, h| {  }, [conde { |x, y| { [3, []] == x, |tz| { tz == [2], [3, 1 | tz] != [3, 1, 2] } }, [3, 1] == y }, |z, y| { [2 | y] != z, [true, member(z, [2]), x == P3(2, [], [])], |tz| { [3 | tz] != [3, 1], tz == [1] } }] }, true, closure { [x, 2, x] != y }])
}
pub fn case_379(vars: &Vars) -> InferredGoal<DU, DE, Goal<DU, DE>> {
    let x = vars.v[0].clone();
    proto_vulcan!([|tz| { [3 | tz] != [3, 3, 2], tz == [3, 2] }])
}
pub fn case_380(vars: &Vars) -> InferredGoal<DU, DE, Goal<DU, DE>> {
    let x = vars.v[0].clone();
    let y = vars.v[1].clone();
    proto_vulcan!([[[y | x], [1] | y] != x, y == y])
}
pub fn case_381(vars: &Vars) -> InferredGoal<DU, DE, Goal<DU, DE>> {
    let x = vars.v[0].clone();
    proto_vulcan!([|z| { z == [], [x, z] == [[x, x, 3]] }, closure { |y| { x != [y, 1] } }])
}
pub fn case_382(vars: &Vars) -> InferredGoal<DU, DE, Goal<DU, DE>> {
    let x = vars.v[0].clone();
    proto_vulcan!([2 == [1, [x]], closure { |t, y| { conde { [|tz| { [2, 2 | tz] != [2, 2, 3, 2], tz == [3, 2] }, 1 == y], |tz| { tz == [2, 1], [3, 1, 2, 1] != [3, 1 | tz] } }, |tz| { tz == [2, 3], [1, 1, 2, 3] != [1, 1 | tz] }, [x, y | t] == t } }])
}
pub fn case_383(vars: &Vars) -> InferredGoal<DU, DE, Goal<DU, DE>> {
    let x = vars.v[0].clone();
    let y = vars.v[1].clone();
    proto_vulcan!([1 != [[], 1, [3, 1 | x] | []], append(x, x, [1, 1])])
}
pub fn case_384(vars: &Vars) -> InferredGoal<DU, DE, Goal<DU, DE>> {
    let x = vars.v[0].clone();
    proto_vulcan!([x == [_], conde { x == P3(_, 1, [x]), x == [[], ["a", x], x], [[[x, []] == x, [1, x, []] != x, |t| {  }]] }, [2, 1, [] | x] == x])
}
pub fn case_385(vars: &Vars) -> InferredGoal<DU, DE, Goal<DU, DE>> {
    let x = vars.v[0].clone();
    let y = vars.v[1].clone();
    proto_vulcan!([condu { |x, z| { |t| { member(y, [1, 1, 3]), member(z, [3, 3, 3]) }, conde { [[] == y, x == y], [|tz| { tz == [3, 3], [1, 3, 3] != [1 | tz] }, x == 1] } }, [2] != x }])
}
pub fn case_386(vars: &Vars) -> InferredGoal<DU, DE, Goal<DU, DE>> {
    let q = vars.v[0].clone();
    let x = vars.v[1].clone();
    proto_vulcan!([|z, x| { conde { [[2] == z, q == [1, 3, []]], [x != P3(z, x, z), |t| { q == [[_, x, []]] }], [] } }])
}
pub fn case_387(vars: &Vars) -> InferredGoal<DU, DE, Goal<DU, DE>> {
    let x = vars.v[0].clone();
    proto_vulcan!([x == false, |t, x| { x == x, condu { [[member(x, [2, 3])]], false, [x == ['a'], |tz| { [3, 1, 3] != [3 | tz], tz == [1, 3] }] }, |x| { x == ['b'], true != x } }, { let c__: InferredGoal<DU, DE, Goal<DU, DE>> = proto_vulcan_closure!([|yy| { conde { [x == [yy | _], yy == 1], [x == [_, yy | _], yy == 2] } }, |z, t| { t != (x, [z, _]), [[2], [z, [], x | t]] == t, |tz| { [3, 2, 2] != [3, 2 | tz], tz == [2] } }]); let g__: Goal<DU, DE> = ::proto_vulcan::GoalCast::cast_into(c__); let r__: InferredGoal<DU, DE, Goal<DU, DE>> = proto_vulcan!([g__.clone(), g__]); r__ }])
}
pub fn case_388(vars: &Vars) -> InferredGoal<DU, DE, Goal<DU, DE>> {
    let q = vars.v[0].clone();
    let x = vars.v[1].clone();
    proto_vulcan!([x == P3([1, []], x, []), [[_ | x], [3, x, x], 2 | q] != x, x != [q, q]])
}
pub fn case_389(vars: &Vars) -> InferredGoal<DU, DE, Goal<DU, DE>> {
    let x = vars.v[0].clone();
    proto_vulcan!([[1, x] == [[1, _] | [false, x]]])
}
pub fn case_390(vars: &Vars) -> InferredGoal<DU, DE, Goal<DU, DE>> {
    let x = vars.v[0].clone();
    let y = vars.v[1].clone();
    proto_vulcan!([[['b', 2, y], [_, x, y | x]] != x, P3([y, 2], [x, []], [y]) == x, |x, y| { |tz| { [2 | tz] != [2, 3, 2], tz == [3, 2] } }, { let c__: InferredGoal<DU, DE, Goal<DU, DE>> = proto_vulcan_closure!([|yy| { conde { [y == [yy | _], yy == 1], [y == [_, yy | _], yy == 2] } }, [true]]); let g__: Goal<DU, DE> = ::proto_vulcan::GoalCast::cast_into(c__); let r__: InferredGoal<DU, DE, Goal<DU, DE>> = proto_vulcan!([g__.clone(), g__]); r__ }])
}
pub fn case_391(vars: &Vars) -> InferredGoal<DU, DE, Goal<DU, DE>> {
    let x = vars.v[0].clone();
    proto_vulcan!([3 == x])
}
pub fn case_392(vars: &Vars) -> InferredGoal<DU, DE, Goal<DU, DE>> {
    let q = vars.v[0].clone();
    let x = vars.v[1].clone();
    proto_vulcan!([_ == x, ['a', q, 'a'] == [[1, 2, 3 | q], [x | q], [1]]])
}
pub fn case_393(vars: &Vars) -> InferredGoal<DU, DE, Goal<DU, DE>> {
    let x = vars.v[0].clone();
    let y = vars.v[1].clone();
    proto_vulcan!([condu { [y == ([], y), [2, [x | x]] != P3(3, 2, [])] }, y == x])
}
pub fn case_394(vars: &Vars) -> InferredGoal<DU, DE, Goal<DU, DE>> {
    let q = vars.v[0].clone();
    let x = vars.v[1].clone();
    proto_vulcan!([['a'] == q, closure { [x == q, ([[], x], 3) == q] }])
}
pub fn case_395(vars: &Vars) -> InferredGoal<DU, DE, Goal<DU, DE>> {
    let q = vars.v[0].clone();
    let x = vars.v[1].clone();
    proto_vulcan!([[] == q, ([3, q], []) == q, q == [1, [] | x]])
}
pub fn case_396(vars: &Vars) -> InferredGoal<DU, DE, Goal<DU, DE>> {
    let x = vars.v[0].clone();
    let y = vars.v[1].clone();
    proto_vulcan!([onceo { [[2], [1] | [x]] == ([], 3) }, onceo { conde { onceo { true }, [] } }, |y, z| { |z| { |x| { z == x, x != z, [[], 1] == y }, [true, y != [[], x], append(y, x, [1])], |x| { [y, [[], 1, x], [z, y, z | z]] == P3([x], [x], 1) } } }])
}
pub fn case_397(vars: &Vars) -> InferredGoal<DU, DE, Goal<DU, DE>> {
    let x = vars.v[0].clone();
    proto_vulcan!([[onceo { |z| { [[z, 2, 1], x, z | [z]] == [true, []], false, (x, [3]) == x } }, |t| { |x, y| { false, (2, 1) == y } }]])
}
pub fn case_398(vars: &Vars) -> InferredGoal<DU, DE, Goal<DU, DE>> {
    let x = vars.v[0].clone();
    proto_vulcan!([onceo { [2 | x] == x }, [|tz| { tz == [2, 2], [3, 2, 2] != [3 | tz] }, x != [[_, x, x], [[]] | [2, x]]]])
}
pub fn case_399(vars: &Vars) -> InferredGoal<DU, DE, Goal<DU, DE>> {
    let q = vars.v[0].clone();
    let x = vars.v[1].clone();
    proto_vulcan!([conde { [[[q, x] == x, []], condu { x != [[] | [x]], onceo { append(q, x, [2, 3]) }, conda { q != [[q], [3, 2 | q], [2, 1, q] | x] } }], conde { q == x, |x| { true, |tz| { tz == [3], [2, 3, 3] != [2, 3 | tz] }, x == [[q, q], [2 | q], [true]] } } }, conde { [], _ == x }, (1, x) == x])
}
pub fn case_400(vars: &Vars) -> InferredGoal<DU, DE, Goal<DU, DE>> {
    let x = vars.v[0].clone();
    let y = vars.v[1].clone();
    proto_vulcan!([|tz| { tz == [1, 1], [2, 3 | tz] != [2, 3, 1, 1] }])
}
pub fn case_401(vars: &Vars) -> InferredGoal<DU, DE, Goal<DU, DE>> {
    let x = vars.v[0].clone();
    proto_vulcan!([P3(x, [], x) == x, x != P3(x, [[], 1], x), [x != [1]]])
}
pub fn case_402(vars: &Vars) -> InferredGoal<DU, DE, Goal<DU, DE>> {
    let q = vars.v[0].clone();
    let x = vars.v[1].clone();
    proto_vulcan!([[append(q, x, [3]), |z| {  }, conde { [q == P3([], [3], [[]]), |x| { (_, [x, x]) == x }] }]])
}
pub fn case_403(vars: &Vars) -> InferredGoal<DU, DE, Goal<DU, DE>> {
    let q = vars.v[0].clone();
    let x = vars.v[1].clone();
    proto_vulcan!([[|t| { onceo { [] == [[1, _ | t], [2, x]] }, |y| { [[]] != q, y == [1, q] }, conde { [x == [x, 2, x], [2, 2 | x] == x], x != t, [q != q, ([t], 3) == x] } }, [q, 2, 2 | q] == x], append(x, q, [2, 2]), closure { [P3([x], [q], [_, _]) == 3, [[q, x] != [[q, [], x | x], [x, _ | q] | 2]]] }])
}
pub fn case_404(vars: &Vars) -> InferredGoal<DU, DE, Goal<DU, DE>> {
    let q = vars.v[0].clone();
    let x = vars.v[1].clone();
    proto_vulcan!([conde { q == [[2 | 2], [_ | x]], [|h, t| { P3(x, h, _) != t, t == [q, 1, "a" | t] }, x == []] }, [2, q, "a" | x] == q, closure { [|x| { q == q, q == P3([x, x], [], _), x == [2, x | x] }, member(q, [1, 1, 1])] }])
}
pub fn case_405(vars: &Vars) -> InferredGoal<DU, DE, Goal<DU, DE>> {
    let q = vars.v[0].clone();
    let x = vars.v[1].clone();
    proto_vulcan!([x == q, q == q])
}
pub fn case_406(vars: &Vars) -> InferredGoal<DU, DE, Goal<DU, DE>> {
    let x = vars.v[0].clone();
    proto_vulcan!([|z| { x == [x, z], P3(z, [], 2) == x }, append(x, x, [1, 3])])
}
pub fn case_407(vars: &Vars) -> InferredGoal<DU, DE, Goal<DU, DE>> {
    let q = vars.v[0].clone();
    let x = vars.v[1].clone();
    proto_vulcan!([x == P3(q, q, x), 1 == x, { let c__: InferredGoal<DU, DE, Goal<DU, DE>> = proto_vulcan_closure!(|yy| { conde { [q == [yy | _], yy == 1], [q == [_, yy | _], yy == 2] } }); let g__: Goal<DU, DE> = ::proto_vulcan::GoalCast::cast_into(c__); let r__: InferredGoal<DU, DE, Goal<DU, DE>> = proto_vulcan!([g__.clone(), g__]); r__ }])
}
pub fn case_408(vars: &Vars) -> InferredGoal<DU, DE, Goal<DU, DE>> {
    let x = vars.v[0].clone();
    let y = vars.v[1].clone();
    proto_vulcan!([[_ != y, y == [y, 3]], y == [_], { let c__: InferredGoal<DU, DE, Goal<DU, DE>> = proto_vulcan_closure!([|yy| { conde { [y == [yy | _], yy == 1], [y == [_, yy | _], yy == 2] } }, [[], x] != x]); let g__: Goal<DU, DE> = ::proto_vulcan::GoalCast::cast_into(c__); let r__: InferredGoal<DU, DE, Goal<DU, DE>> = proto_vulcan!([g__.clone(), g__]); r__ }])
}
pub fn case_409(vars: &Vars) -> InferredGoal<DU, DE, Goal<DU, DE>> {
    let x = vars.v[0].clone();
    let y = vars.v[1].clone();
    proto_vulcan!([append(y, x, [2]), P3(2, [x], x) != [y, 'a', _], y != P3(2, _, [[]])])
}
pub fn case_410(vars: &Vars) -> InferredGoal<DU, DE, Goal<DU, DE>> {
    let x = vars.v[0].clone();
    proto_vulcan!([onceo { member(x, [1]) }, { let c__: InferredGoal<DU, DE, Goal<DU, DE>> = proto_vulcan_closure!(|yy| { conde { [x == [yy | _], yy == 1], [x == [_, yy | _], yy == 2] } }); let g__: Goal<DU, DE> = ::proto_vulcan::GoalCast::cast_into(c__); let r__: InferredGoal<DU, DE, Goal<DU, DE>> = proto_vulcan!([g__.clone(), g__]); r__ }])
}
pub fn case_411(vars: &Vars) -> InferredGoal<DU, DE, Goal<DU, DE>> {
    let x = vars.v[0].clone();
    let y = vars.v[1].clone();
    proto_vulcan!([member(y, [])])
}
pub fn case_412(vars: &Vars) -> InferredGoal<DU, DE, Goal<DU, DE>> {
    let x = vars.v[0].clone();
    let y = vars.v[1].clone();
    proto_vulcan!([conde { [[true], [[]] == x], [x != y, [2, y, 3] == y] }, [x == P3(3, 3, 1)], x == [[]]])
}
pub fn case_413(vars: &Vars) -> InferredGoal<DU, DE, Goal<DU, DE>> {
    let x = vars.v[0].clone();
    proto_vulcan!([[onceo { conde { [[2] == x, x == [3]] } }]])
}
pub fn case_414(vars: &Vars) -> InferredGoal<DU, DE, Goal<DU, DE>> {
    let x = vars.v[0].clone();
    proto_vulcan!([x == (x, [x]), [x] == x, [x == ['a'], [2] == x, P3(3, [], _) == x]])
}
pub fn case_415(vars: &Vars) -> InferredGoal<DU, DE, Goal<DU, DE>> {
    let x = vars.v[0].clone();
    proto_vulcan!([false, |t, h| { conde { [onceo { [[], [], h] == x }, |tz| { [3, 2] != [3 | tz], tz == [2] }], x != false, [t == P3(t, [_, _], []), [true, [h, 1 | t] == P3(h, x, x), P3([], _, h) == x]] }, [[], h, 2] == x, |y| { (1, []) != 3, conde { |tz| { tz == [1, 1], [2, 2 | tz] != [2, 2, 1, 1] } }, (x, []) == x } }, [[]] != 2, { let c__: InferredGoal<DU, DE, Goal<DU, DE>> = proto_vulcan_closure!([|yy| { conde { [x == [yy | _], yy == 1], [x == [_, yy | _], yy == 2] } }, _ == x]); let g__: Goal<DU, DE> = ::proto_vulcan::GoalCast::cast_into(c__); let r__: InferredGoal<DU, DE, Goal<DU, DE>> = proto_vulcan!([g__.clone(), g__]); r__ }])
}
pub fn case_416(vars: &Vars) -> InferredGoal<DU, DE, Goal<DU, DE>> {
    let x = vars.v[0].clone();
    let y = vars.v[1].clone();
    proto_vulcan!([(1, 2) != [3 | [x]]])
}
pub fn case_417(vars: &Vars) -> InferredGoal<DU, DE, Goal<DU, DE>> {
    let q = vars.v[0].clone();
    let x = vars.v[1].clone();
    proto_vulcan!([[(1, x) != x, member(x, [3, 1]), conde { x == (_, [[]]), [|t| { q == q }, x == q] }]])
}
pub fn case_418(vars: &Vars) -> InferredGoal<DU, DE, Goal<DU, DE>> {
    let x = vars.v[0].clone();
    let y = vars.v[1].clone();
    proto_vulcan!([append(y, x, [3, 2])])
}
pub fn case_419(vars: &Vars) -> InferredGoal<DU, DE, Goal<DU, DE>> {
    let x = vars.v[0].clone();
    proto_vulcan!([|y| { [] }, true, [_] == x])
}
pub fn case_420(vars: &Vars) -> InferredGoal<DU, DE, Goal<DU, DE>> {
    let q = vars.v[0].clone();
    let x = vars.v[1].clone();
    proto_vulcan!([[[[]], [[], x | x], true | [x, _]] == q])
}
pub fn case_421(vars: &Vars) -> InferredGoal<DU, DE, Goal<DU, DE>> {
    let x = vars.v[0].clone();
    let y = vars.v[1].clone();
    proto_vulcan!([x == x, member(x, [2, 1, 2])])
}
pub fn case_422(vars: &Vars) -> InferredGoal<DU, DE, Goal<DU, DE>> {
    let x = vars.v[0].clone();
    proto_vulcan!([[[]] == x, x == [[x], [[], x], []]])
}
pub fn case_423(vars: &Vars) -> InferredGoal<DU, DE, Goal<DU, DE>> {
    let x = vars.v[0].clone();
    let y = vars.v[1].clone();
    proto_vulcan!([x == ([1, _], [y, 1]), append(y, y, [3, 1]), closure { [|z, y| { [[1], _] == [], [[] == y] }, y == y] }])
}
pub fn case_424(vars: &Vars) -> InferredGoal<DU, DE, Goal<DU, DE>> {
    let q = vars.v[0].clone();
    let x = vars.v[1].clone();
    proto_vulcan!([|tz| { [1, 3, 3] != [1, 3 | tz], tz == [3] }])
}
pub fn case_425(vars: &Vars) -> InferredGoal<DU, DE, Goal<DU, DE>> {
    let x = vars.v[0].clone();
    proto_vulcan!([[x, x, 3] == P3([2, 1], x, 1), x != [x, 3, x], closure { onceo { condu { [member(x, [3, 1]), x == (_, [2])], x == [2], [x == [[false, x, "bc" | x], [false, 1], ['b', _ | x] | x], x == x] } } }])
}
pub fn case_426(vars: &Vars) -> InferredGoal<DU, DE, Goal<DU, DE>> {
    let x = vars.v[0].clone();
    proto_vulcan!([[condu { onceo { member(x, [3]) }, x == [x, 'a', 2 | 2], [|x| { x != 1 }, P3(x, [1], [[], x]) == x] }, member(x, [2, 1, 2]), |tz| { tz == [2], [3 | tz] != [3, 2] }], x == [3, [x, x, 'b'] | 2], { let c__: InferredGoal<DU, DE, Goal<DU, DE>> = proto_vulcan_closure!([|yy| { conde { [x == [yy | _], yy == 1], [x == [_, yy | _], yy == 2] } }, false]); let g__: Goal<DU, DE> = ::proto_vulcan::GoalCast::cast_into(c__); let r__: InferredGoal<DU, DE, Goal<DU, DE>> = proto_vulcan!([g__.clone(), g__]); r__ }])
}
pub fn case_427(vars: &Vars) -> InferredGoal<DU, DE, Goal<DU, DE>> {
    let x = vars.v[0].clone();
    proto_vulcan!([|y| { ['a'] == y, onceo { y == (x, []) }, conde { [y != [1 | y], y == [y, 2 | y]], |h, y| { [_ | h] == x, [[1, 2], [h | [1, []]]] == P3([], _, _), y == [_, 3, 2 | [x, y]] } } }, |t| { 1 == [2, [t, t | []], [t]], append(t, t, []) }, closure { false }])
}
pub fn case_428(vars: &Vars) -> InferredGoal<DU, DE, Goal<DU, DE>> {
    let q = vars.v[0].clone();
    let x = vars.v[1].clone();
    proto_vulcan!([[1] != [x, 2], closure { q == x }])
}
pub fn case_429(vars: &Vars) -> InferredGoal<DU, DE, Goal<DU, DE>> {
    let x = vars.v[0].clone();
    let y = vars.v[1].clone();
    proto_vulcan!([[[1, y], [x, 2 | [x]], ['b'] | y] == [[y]], closure { [|h| { |h, x| { false, append(h, h, []), 1 == y } }, |t, h| { t == [[] | x] }] }])
}
pub fn case_430(vars: &Vars) -> InferredGoal<DU, DE, Goal<DU, DE>> {
    let x = vars.v[0].clone();
    let y = vars.v[1].clone();
    proto_vulcan!([x == ([2, 2], x)])
}
pub fn case_431(vars: &Vars) -> InferredGoal<DU, DE, Goal<DU, DE>> {
    let q = vars.v[0].clone();
    let x = vars.v[1].clone();
    proto_vulcan!([conde { q == [[_ | q]], conda { q != [1] }, [x, 1, 1] != x }, x != [1, [3, [], "bc"]], q == [_, 2]])
}
pub fn case_432(vars: &Vars) -> InferredGoal<DU, DE, Goal<DU, DE>> {
    let q = vars.v[0].clone();
    let x = vars.v[1].clone();
    proto_vulcan!([[[x, false, x | x] | q] == ['a']])
}
pub fn case_433(vars: &Vars) -> InferredGoal<DU, DE, Goal<DU, DE>> {
    let x = vars.v[0].clone();
    let y = vars.v[1].clone();
    proto_vulcan!([onceo { onceo { x == (1, x) } }, |x, t| { |z| { 2 == t } }, [conde { |z| { x == ["bc" | y] }, [2 != x, [[2, [], 3 | x], x | [y, []]] != P3(1, 3, x)] }, onceo { conde { [[_] == y, |tz| { tz == [3, 1], [2, 2 | tz] != [2, 2, 3, 1] }], [[2]] == [_, [x, y | y], 'b'], [] } }, |tz| { tz == [2], [3, 2 | tz] != [3, 2, 2] }]])
}
pub fn case_434(vars: &Vars) -> InferredGoal<DU, DE, Goal<DU, DE>> {
    let x = vars.v[0].clone();
    let y = vars.v[1].clone();
    proto_vulcan!([[x == _]])
}
pub fn case_435(vars: &Vars) -> InferredGoal<DU, DE, Goal<DU, DE>> {
    let x = vars.v[0].clone();
    proto_vulcan!([false, conda { [3] == x, 2 == x }, [condu { [[x] == x, |tz| { [1 | tz] != [1, 2], tz == [2] }] }, |y| { conde { true, (y, 1) == x } }], closure { x == [x, 1 | x] }])
}
pub fn case_436(vars: &Vars) -> InferredGoal<DU, DE, Goal<DU, DE>> {
    let x = vars.v[0].clone();
    let y = vars.v[1].clone();
    proto_vulcan!([[x] != x])
}
pub fn case_437(vars: &Vars) -> InferredGoal<DU, DE, Goal<DU, DE>> {
    let x = vars.v[0].clone();
    proto_vulcan!([[[], conda { [x == [1, 2], |x| { [x] != x, false, P3(1, x, x) == x }], [conde { [x == [false], x == [_, x, x | x]], [3, []] == x, [([], [2]) == x, x != (x, [[]])] }, [x | x] == x] }], |y, z| { [[2, y]] == x, onceo { |x, z| { [[y | z], [2, z], [3] | x] == [z, [x, 1, z] | y], [] == y } }, [] == x }, closure { |h| { |z, x| { true }, [h == [], P3(1, h, [1]) != x] } }])
}
pub fn case_438(vars: &Vars) -> InferredGoal<DU, DE, Goal<DU, DE>> {
    let q = vars.v[0].clone();
    let x = vars.v[1].clone();
    proto_vulcan!([3 == x])
}
pub fn case_439(vars: &Vars) -> InferredGoal<DU, DE, Goal<DU, DE>> {
    let x = vars.v[0].clone();
    let y = vars.v[1].clone();
    proto_vulcan!([(3, 1) == 1, P3([3], [y], y) == x, false])
}
pub fn case_440(vars: &Vars) -> InferredGoal<DU, DE, Goal<DU, DE>> {
    let q = vars.v[0].clone();
    let x = vars.v[1].clone();
    proto_vulcan!([|t, z| { 'a' != t }, x == q, closure { q == q }])
}
pub fn case_441(vars: &Vars) -> InferredGoal<DU, DE, Goal<DU, DE>> {
    let q = vars.v[0].clone();
    let x = vars.v[1].clone();
    proto_vulcan!([conde { [q != P3([], [2, []], _), q == [3, []]], |y, t| { conda { [false, t == y], [[2] != 3, [_, 1 | t] != [[_], 2]] }, y == [[x, x | t], ["a"]], _ != [2, [q, true, [] | q]] } }, { let c__: InferredGoal<DU, DE, Goal<DU, DE>> = proto_vulcan_closure!([|yy| { conde { [q == [yy | _], yy == 1], [q == [_, yy | _], yy == 2] } }, false]); let g__: Goal<DU, DE> = ::proto_vulcan::GoalCast::cast_into(c__); let r__: InferredGoal<DU, DE, Goal<DU, DE>> = proto_vulcan!([g__.clone(), g__]); r__ }])
}
pub fn case_442(vars: &Vars) -> InferredGoal<DU, DE, Goal<DU, DE>> {
    let x = vars.v[0].clone();
    proto_vulcan!([conde { [conde { [true, [x == [[1, 2, x | x], [x, _ | x], [x]], x != [[], 1 | x]]], [|h| { x == h }, |t, h| { h == 2, member(h, [1, 2, 1]), t == [[2, x, _]] }] }, [[[[3, 1], [3, 1, true]] == x, P3([2, x], [2], x) != x, x == []], |tz| { tz == [3, 1], [3, 3, 3, 1] != [3, 3 | tz] }, |t| { x == 'b', append(t, t, []) }]] }, [P3([x], x, [_, _]) == x, x == [x, x, x]], closure { true }])
}
pub fn case_443(vars: &Vars) -> InferredGoal<DU, DE, Goal<DU, DE>> {
    let q = vars.v[0].clone();
    let x = vars.v[1].clone();
    proto_vulcan!([[[[], 1 | q], [q, x] | x] != (1, []), { let c__: InferredGoal<DU, DE, Goal<DU, DE>> = proto_vulcan_closure!([|yy| { conde { [x == [yy | _], yy == 1], [x == [_, yy | _], yy == 2] } }, |tz| { tz == [1], [2, 3 | tz] != [2, 3, 1] }]); let g__: Goal<DU, DE> = ::proto_vulcan::GoalCast::cast_into(c__); let r__: InferredGoal<DU, DE, Goal<DU, DE>> = proto_vulcan!([g__.clone(), g__]); r__ }])
}
pub fn case_444(vars: &Vars) -> InferredGoal<DU, DE, Goal<DU, DE>> {
    let x = vars.v[0].clone();
    let y = vars.v[1].clone();
    proto_vulcan!([|tz| { [3, 1 | tz] != [3, 1, 2, 2], tz == [2, 2] }, closure { [onceo { append(x, x, [3]) }, y != [y, [], 1]] }])
}
pub fn case_445(vars: &Vars) -> InferredGoal<DU, DE, Goal<DU, DE>> {
    let q = vars.v[0].clone();
    let x = vars.v[1].clone();
    proto_vulcan!([|tz| { [3, 2 | tz] != [3, 2, 2, 1], tz == [2, 1] }, { let c__: InferredGoal<DU, DE, Goal<DU, DE>> = proto_vulcan_closure!(|yy| { conde { [x == [yy | _], yy == 1], [x == [_, yy | _], yy == 2] } }); let g__: Goal<DU, DE> = ::proto_vulcan::GoalCast::cast_into(c__); let r__: InferredGoal<DU, DE, Goal<DU, DE>> = proto_vulcan!([g__.clone(), g__]); r__ }])
}
pub fn case_446(vars: &Vars) -> InferredGoal<DU, DE, Goal<DU, DE>> {
    let x = vars.v[0].clone();
    let y = vars.v[1].clone();
    proto_vulcan!([([x, []], y) == y])
}
pub fn case_447(vars: &Vars) -> InferredGoal<DU, DE, Goal<DU, DE>> {
    let x = vars.v[0].clone();
    proto_vulcan!([match x { [x | _] => x == 1, }])
}
pub fn case_448(vars: &Vars) -> InferredGoal<DU, DE, Goal<DU, DE>> {
    let x = vars.v[0].clone();
    let y = vars.v[1].clone();
    proto_vulcan!([x == [1, 2], matche x { [x, y] => x == 1, }])
}
pub fn case_449(vars: &Vars) -> InferredGoal<DU, DE, Goal<DU, DE>> {
    let q = vars.v[0].clone();
    proto_vulcan!([|x| { q == [1 | x] }])
}
pub fn case_450(vars: &Vars) -> InferredGoal<DU, DE, Goal<DU, DE>> {
    let q = vars.v[0].clone();
    proto_vulcan!([|x, y| { q == [x, [2] | y], x != 1 }])
}
pub fn case_451(vars: &Vars) -> InferredGoal<DU, DE, Goal<DU, DE>> {
    let q = vars.v[0].clone();
    proto_vulcan!([append([1, 2], q, [1, 2, 0 | _])])
}
pub fn case_452(vars: &Vars) -> InferredGoal<DU, DE, Goal<DU, DE>> {
    let q = vars.v[0].clone();
    proto_vulcan!([|x| { x == 1, |x| { x == 2 }, q == x }])
}
pub fn case_453(vars: &Vars) -> InferredGoal<DU, DE, Goal<DU, DE>> {
    let q = vars.v[0].clone();
    proto_vulcan!([|x, y| { |x| { x == [y] }, y == 7, q == [x, y] }])
}
pub fn case_454(vars: &Vars) -> InferredGoal<DU, DE, Goal<DU, DE>> {
    let q = vars.v[0].clone();
    proto_vulcan!([|y| { y == [q], |q| { q == 0 }, y != [0] }])
}
pub fn case_455(vars: &Vars) -> InferredGoal<DU, DE, Goal<DU, DE>> {
    let x = vars.v[0].clone();
    proto_vulcan!([1 == x, append(x, x, []), ['a', 3, 1] != x, closure { [match [1, x, x] { z | 2 => { |h, y| { append(h, h, []), true } }, 1 => [match x { _ => member(x, [1, 2, 3]), }, x == ["bc" | x]], Named { a: 1, b: [t, h] } => { |y, t| { [[h, t, _ | x], 1, [[], _, 2 | t]] == P3(t, x, t) }, matche t { [[z, 2], [2, true], [h, "a"]] => { x == ["a" | h] }, h => , _ | _ => member(h, [1, 2, 3]), } }, }, match [_, x, x | x] { y => P3([x, x], [], 2) == x, _ => { member(x, [2, 1, 2]), x == x }, }] }])
}
pub fn case_456(vars: &Vars) -> InferredGoal<DU, DE, Goal<DU, DE>> {
    let x = vars.v[0].clone();
    proto_vulcan!([1 == x, append(x, x, []), ['a', 3, 1] != x, closure { [match [1, x, x] { z | 2 => { |fresh_name_9, y| { append(fresh_name_9, fresh_name_9, []), true } }, 1 => [match x { _ => member(x, [1, 2, 3]), }, x == ["bc" | x]], Named { a: 1, b: [t, h] } => { |y, t| { [[h, t, _ | x], 1, [[], _, 2 | t]] == P3(t, x, t) }, matche t { [[z, 2], [2, true], [h, "a"]] => { x == ["a" | h] }, h => , _ | _ => member(h, [1, 2, 3]), } }, }, match [_, x, x | x] { y => P3([x, x], [], 2) == x, _ => { member(x, [2, 1, 2]), x == x }, }] }])
}
pub fn case_457(vars: &Vars) -> InferredGoal<DU, DE, Goal<DU, DE>> {
    let x = vars.v[0].clone();
    proto_vulcan!([matche [false, x, 2] { [[y, 2 | z], h] => , P3(x, [[]], [1, _]) => , h => { [x == x, conde { x == P3([[], h], h, x) }, ([], [x, 1]) != h] }, }, |t| { [x == [[2, _ | t], 'a', x]], true, match [t | t] { _ | 3 => , } }, [[] | [false, x]] == x, { let c__: InferredGoal<DU, DE, Goal<DU, DE>> = proto_vulcan_closure!(|yy| { conde { [x == [yy | _], yy == 1], [x == [_, yy | _], yy == 2] } }); let g__: Goal<DU, DE> = ::proto_vulcan::GoalCast::cast_into(c__); let r__: InferredGoal<DU, DE, Goal<DU, DE>> = proto_vulcan!([g__.clone(), g__]); r__ }])
}
pub fn case_458(vars: &Vars) -> InferredGoal<DU, DE, Goal<DU, DE>> {
    let x = vars.v[0].clone();
    proto_vulcan!([matche [false, x, 2] { [[y, 2 | z], h] => , P3(x, [[]], [1, _]) => , h => { [x == x, conde { x == P3([[], h], h, x) }, ([], [x, 1]) != h] }, }, |fresh_name_9| { [x == [[2, _ | fresh_name_9], 'a', x]], true, match [fresh_name_9 | fresh_name_9] { _ | 3 => , } }, [[] | [false, x]] == x, { let c__: InferredGoal<DU, DE, Goal<DU, DE>> = proto_vulcan_closure!(|yy| { conde { [x == [yy | _], yy == 1], [x == [_, yy | _], yy == 2] } }); let g__: Goal<DU, DE> = ::proto_vulcan::GoalCast::cast_into(c__); let r__: InferredGoal<DU, DE, Goal<DU, DE>> = proto_vulcan!([g__.clone(), g__]); r__ }])
}
pub fn case_459(vars: &Vars) -> InferredGoal<DU, DE, Goal<DU, DE>> {
    let x = vars.v[0].clone();
    let y = vars.v[1].clone();
    proto_vulcan!([conde { [[match x { [[y]] | [["bc", _ | h], 2, [t, [], z]] => [member(x, [1, 3, 2]), P3([[]], [[], []], 2) == x], }, [] == 2, member(y, [])], matche [1, []] { Named { a: 1, b: 2 } => , }], P3(x, 2, _) == y, x == ['b'] }, |t| { [matche t { _ => { t == 7, t == 8 }, _ => { t == 7, t == 8 }, _ => { member(y, [1, 2, 3]) }, }, |h, t| { h != [true, y, 3] }, y == P3([], t, 3)], |h, y| {  } }])
}
pub fn case_460(vars: &Vars) -> InferredGoal<DU, DE, Goal<DU, DE>> {
    let x = vars.v[0].clone();
    let y = vars.v[1].clone();
    proto_vulcan!([conde { [[match x { [[y]] | [["bc", _ | h], 2, [t, [], z]] => [member(x, [1, 3, 2]), P3([[]], [[], []], 2) == x], }, [] == 2, member(y, [])], matche [1, []] { Named { a: 1, b: 2 } => , }], P3(x, 2, _) == y, x == ['b'] }, |t| { [matche t { _ => { t == 7, t == 8 }, _ => { t == 7, t == 8 }, _ => { member(y, [1, 2, 3]) }, }, |h, fresh_name_9| { h != [true, y, 3] }, y == P3([], t, 3)], |h, y| {  } }])
}
pub fn case_461(vars: &Vars) -> InferredGoal<DU, DE, Goal<DU, DE>> {
    let x = vars.v[0].clone();
    let y = vars.v[1].clone();
    proto_vulcan!([match x { [[x, 2], y, [3] | h] => { (y, _) != y }, [_, x] => [x | 3] != y, t => { matche t { P3([1], 2, [_, 3]) => , } }, }, |y, z| { match [z, _, y] { [[2] | _] | t => { [_, z | x] != 2 }, P3(2, _, 1) => [P3(1, [2, 3], 3) == x, y == [z, "a", _]], } }, 3 == y])
}
pub fn case_462(vars: &Vars) -> InferredGoal<DU, DE, Goal<DU, DE>> {
    let x = vars.v[0].clone();
    let y = vars.v[1].clone();
    proto_vulcan!([match x { [[x, 2], y, [3] | h] => { (y, _) != y }, [_, fresh_name_9] => [fresh_name_9 | 3] != y, t => { matche t { P3([1], 2, [_, 3]) => , } }, }, |y, z| { match [z, _, y] { [[2] | _] | t => { [_, z | x] != 2 }, P3(2, _, 1) => [P3(1, [2, 3], 3) == x, y == [z, "a", _]], } }, 3 == y])
}
pub fn case_463(vars: &Vars) -> InferredGoal<DU, DE, Goal<DU, DE>> {
    let x = vars.v[0].clone();
    proto_vulcan!([(_, x) == _, x != 2, |tz| { [3 | tz] != [3, 1], tz == [1] }])
}
pub fn case_464(vars: &Vars) -> InferredGoal<DU, DE, Goal<DU, DE>> {
    let x = vars.v[0].clone();
    proto_vulcan!([(_, x) == _, x != 2, |fresh_name_9| { [3 | fresh_name_9] != [3, 1], fresh_name_9 == [1] }])
}
pub fn case_465(vars: &Vars) -> InferredGoal<DU, DE, Goal<DU, DE>> {
    let q = vars.v[0].clone();
    let x = vars.v[1].clone();
    proto_vulcan!([[q != [1, 'a'], [conde { [], x == [1], [[[] | [[], q]] == ['a' | q], true] }], [matche "bc" { "bc" | t => x == [2, []], }, [[1, []] == q], [x != [2, [x, x], ["a", _, [] | 2]]]]], false, { let c__: InferredGoal<DU, DE, Goal<DU, DE>> = proto_vulcan_closure!(|yy| { conde { [x == [yy | _], yy == 1], [x == [_, yy | _], yy == 2] } }); let g__: Goal<DU, DE> = ::proto_vulcan::GoalCast::cast_into(c__); let r__: InferredGoal<DU, DE, Goal<DU, DE>> = proto_vulcan!([g__.clone(), g__]); r__ }])
}
pub fn case_466(vars: &Vars) -> InferredGoal<DU, DE, Goal<DU, DE>> {
    let q = vars.v[0].clone();
    let x = vars.v[1].clone();
    proto_vulcan!([[q != [1, 'a'], [conde { [], x == [1], [[[] | [[], q]] == ['a' | q], true] }], [matche "bc" { "bc" | t => x == [2, []], }, [[1, []] == q], [x != [2, [x, x], ["a", _, [] | 2]]]]], false, { let c__: InferredGoal<DU, DE, Goal<DU, DE>> = proto_vulcan_closure!(|fresh_name_9| { conde { [x == [fresh_name_9 | _], fresh_name_9 == 1], [x == [_, fresh_name_9 | _], fresh_name_9 == 2] } }); let g__: Goal<DU, DE> = ::proto_vulcan::GoalCast::cast_into(c__); let r__: InferredGoal<DU, DE, Goal<DU, DE>> = proto_vulcan!([g__.clone(), g__]); r__ }])
}
pub fn case_467(vars: &Vars) -> InferredGoal<DU, DE, Goal<DU, DE>> {
    let x = vars.v[0].clone();
    let y = vars.v[1].clone();
    proto_vulcan!([matche y { _ => [y == 7, y == 8], _ => [x == 7, x == 8], Named { a: _, b: [] } => [P3(1, [], 1) == y, |tz| { tz == [1], [2, 1] != [2 | tz] }], }, { let c__: InferredGoal<DU, DE, Goal<DU, DE>> = proto_vulcan_closure!(|yy| { conde { [y == [yy | _], yy == 1], [y == [_, yy | _], yy == 2] } }); let g__: Goal<DU, DE> = ::proto_vulcan::GoalCast::cast_into(c__); let r__: InferredGoal<DU, DE, Goal<DU, DE>> = proto_vulcan!([g__.clone(), g__]); r__ }])
}
pub fn case_468(vars: &Vars) -> InferredGoal<DU, DE, Goal<DU, DE>> {
    let x = vars.v[0].clone();
    let y = vars.v[1].clone();
    proto_vulcan!([matche y { _ => [y == 7, y == 8], _ => [x == 7, x == 8], Named { a: _, b: [] } => [P3(1, [], 1) == y, |fresh_name_9| { fresh_name_9 == [1], [2, 1] != [2 | fresh_name_9] }], }, { let c__: InferredGoal<DU, DE, Goal<DU, DE>> = proto_vulcan_closure!(|yy| { conde { [y == [yy | _], yy == 1], [y == [_, yy | _], yy == 2] } }); let g__: Goal<DU, DE> = ::proto_vulcan::GoalCast::cast_into(c__); let r__: InferredGoal<DU, DE, Goal<DU, DE>> = proto_vulcan!([g__.clone(), g__]); r__ }])
}
pub fn case_469(vars: &Vars) -> InferredGoal<DU, DE, Goal<DU, DE>> {
    let x = vars.v[0].clone();
    proto_vulcan!([|t, h| {  }, [[x, x, x], [x, x | x], [x | x] | x] == 1, conde { [], |y| {  }, [] }, closure { [match x { _ => member(x, [1, 2, 3]), }, ([x], [1, x]) != _] }])
}
pub fn case_470(vars: &Vars) -> InferredGoal<DU, DE, Goal<DU, DE>> {
    let x = vars.v[0].clone();
    proto_vulcan!([|t, h| {  }, [[x, x, x], [x, x | x], [x | x] | x] == 1, conde { [], |fresh_name_9| {  }, [] }, closure { [match x { _ => member(x, [1, 2, 3]), }, ([x], [1, x]) != _] }])
}
pub fn case_471(vars: &Vars) -> InferredGoal<DU, DE, Goal<DU, DE>> {
    let x = vars.v[0].clone();
    proto_vulcan!([|t| {  }, match x { _ | _ => { member(x, [1, 2, 3]) }, }, 1 == x])
}
pub fn case_472(vars: &Vars) -> InferredGoal<DU, DE, Goal<DU, DE>> {
    let x = vars.v[0].clone();
    proto_vulcan!([|fresh_name_9| {  }, match x { _ | _ => { member(x, [1, 2, 3]) }, }, 1 == x])
}
pub fn case_473(vars: &Vars) -> InferredGoal<DU, DE, Goal<DU, DE>> {
    let q = vars.v[0].clone();
    let x = vars.v[1].clone();
    proto_vulcan!([x != [1 | q], |tz| { [3 | tz] != [3, 1], tz == [1] }, false])
}
pub fn case_474(vars: &Vars) -> InferredGoal<DU, DE, Goal<DU, DE>> {
    let q = vars.v[0].clone();
    let x = vars.v[1].clone();
    proto_vulcan!([x != [1 | q], |fresh_name_9| { [3 | fresh_name_9] != [3, 1], fresh_name_9 == [1] }, false])
}
pub fn case_475(vars: &Vars) -> InferredGoal<DU, DE, Goal<DU, DE>> {
    let x = vars.v[0].clone();
    proto_vulcan!([member(x, [2, 1, 2]), closure { [append(x, x, [1]), match x { Named { a: 1, b: y } => { [[x, y] == x, false, x != ([2], _)] }, }] }])
}
pub fn case_476(vars: &Vars) -> InferredGoal<DU, DE, Goal<DU, DE>> {
    let x = vars.v[0].clone();
    proto_vulcan!([member(x, [2, 1, 2]), closure { [append(x, x, [1]), match x { Named { a: 1, b: fresh_name_9 } => { [[x, fresh_name_9] == x, false, x != ([2], _)] }, }] }])
}
pub fn case_477(vars: &Vars) -> InferredGoal<DU, DE, Goal<DU, DE>> {
    let q = vars.v[0].clone();
    let x = vars.v[1].clone();
    proto_vulcan!([[[_ | x]] == [1, q], [[conde { [[[] | x] == x, _ == q], [x == P3([], 1, [1, x]), [] == [_]], [[3] == q, x == (q, x)] }, [append(x, x, []), [false] == ([], 1)]]], |y| { true, 1 == y, match q { P3(y, [], [_]) => { x == [_, q] }, [h] | _ => { _ == y, y == [2, y | y] }, } }])
}
pub fn case_478(vars: &Vars) -> InferredGoal<DU, DE, Goal<DU, DE>> {
    let q = vars.v[0].clone();
    let x = vars.v[1].clone();
    proto_vulcan!([[[_ | x]] == [1, q], [[conde { [[[] | x] == x, _ == q], [x == P3([], 1, [1, x]), [] == [_]], [[3] == q, x == (q, x)] }, [append(x, x, []), [false] == ([], 1)]]], |fresh_name_9| { true, 1 == fresh_name_9, match q { P3(y, [], [_]) => { x == [_, q] }, [h] | _ => { _ == fresh_name_9, fresh_name_9 == [2, fresh_name_9 | fresh_name_9] }, } }])
}
pub fn case_479(vars: &Vars) -> InferredGoal<DU, DE, Goal<DU, DE>> {
    let x = vars.v[0].clone();
    proto_vulcan!([|tz| { tz == [3, 3], [2, 1, 3, 3] != [2, 1 | tz] }, |x, y| { [3 | []] != x, [], conde { [conde { x == [3, x, x], append(y, x, [2, 1]), [3, 2 | x] == x }, match y { 1 => x == 1, }], matche [] { _ => { y == 7, y == 8 }, [[h, [], t | z], 2 | _] => h == [_, h, _], } } }, closure { [conde { [P3([1, x], [], [_, []]) == x, conde { [true == x, (2, 3) != (_, 1)], [x, _, x | x] == x, [false, x == ["bc", [x, 2, x], 3 | x]] }], [|tz| { [1, 2, 1, 3] != [1, 2 | tz], tz == [1, 3] }, |z| { [[x, x, z]] == x }] }, [[x == x]]] }])
}
pub fn case_480(vars: &Vars) -> InferredGoal<DU, DE, Goal<DU, DE>> {
    let x = vars.v[0].clone();
    proto_vulcan!([|tz| { tz == [3, 3], [2, 1, 3, 3] != [2, 1 | tz] }, |fresh_name_9, y| { [3 | []] != fresh_name_9, [], conde { [conde { fresh_name_9 == [3, fresh_name_9, fresh_name_9], append(y, fresh_name_9, [2, 1]), [3, 2 | fresh_name_9] == fresh_name_9 }, match y { 1 => fresh_name_9 == 1, }], matche [] { _ => { y == 7, y == 8 }, [[h, [], t | z], 2 | _] => h == [_, h, _], } } }, closure { [conde { [P3([1, x], [], [_, []]) == x, conde { [true == x, (2, 3) != (_, 1)], [x, _, x | x] == x, [false, x == ["bc", [x, 2, x], 3 | x]] }], [|tz| { [1, 2, 1, 3] != [1, 2 | tz], tz == [1, 3] }, |z| { [[x, x, z]] == x }] }, [[x == x]]] }])
}
pub fn case_481(vars: &Vars) -> InferredGoal<DU, DE, Goal<DU, DE>> {
    let x = vars.v[0].clone();
    proto_vulcan!([[[_ | x], 3 | x] == x, matche x { t => P3(t, x, t) == x, }, { let c__: InferredGoal<DU, DE, Goal<DU, DE>> = proto_vulcan_closure!([|yy| { conde { [x == [yy | _], yy == 1], [x == [_, yy | _], yy == 2] } }, conde { |tz| { tz == [3, 2], [2, 3, 2] != [2 | tz] }, [[x, 2 | x] != (x, _), 2 != x] }]); let g__: Goal<DU, DE> = ::proto_vulcan::GoalCast::cast_into(c__); let r__: InferredGoal<DU, DE, Goal<DU, DE>> = proto_vulcan!([g__.clone(), g__]); r__ }])
}
pub fn case_482(vars: &Vars) -> InferredGoal<DU, DE, Goal<DU, DE>> {
    let x = vars.v[0].clone();
    proto_vulcan!([[[_ | x], 3 | x] == x, matche x { t => P3(t, x, t) == x, }, { let c__: InferredGoal<DU, DE, Goal<DU, DE>> = proto_vulcan_closure!([|fresh_name_9| { conde { [x == [fresh_name_9 | _], fresh_name_9 == 1], [x == [_, fresh_name_9 | _], fresh_name_9 == 2] } }, conde { |tz| { tz == [3, 2], [2, 3, 2] != [2 | tz] }, [[x, 2 | x] != (x, _), 2 != x] }]); let g__: Goal<DU, DE> = ::proto_vulcan::GoalCast::cast_into(c__); let r__: InferredGoal<DU, DE, Goal<DU, DE>> = proto_vulcan!([g__.clone(), g__]); r__ }])
}
pub fn case_483(vars: &Vars) -> InferredGoal<DU, DE, Goal<DU, DE>> {
    let q = vars.v[0].clone();
    let x = vars.v[1].clone();
    proto_vulcan!([conde { [|z| { matche z { [1, h, ['a', t, 'a' | x]] => { |tz| { tz == [1, 2], [2, 1 | tz] != [2, 1, 1, 2] }, [_, [], _] == [[[]]] }, }, ['b'] == z }, |t, h| { [[[]], [3, []] | x] == q }], |y| { y == 2, |h| { member(y, []), h != P3([y], h, [x, []]), true } }, [[], q, q] == x }, [x, 2, "a" | x] == [1, [x] | x]])
}
pub fn case_484(vars: &Vars) -> InferredGoal<DU, DE, Goal<DU, DE>> {
    let q = vars.v[0].clone();
    let x = vars.v[1].clone();
    proto_vulcan!([conde { [|z| { matche z { [1, h, ['a', t, 'a' | x]] => { |tz| { tz == [1, 2], [2, 1 | tz] != [2, 1, 1, 2] }, [_, [], _] == [[[]]] }, }, ['b'] == z }, |t, h| { [[[]], [3, []] | x] == q }], |y| { y == 2, |fresh_name_9| { member(y, []), fresh_name_9 != P3([y], fresh_name_9, [x, []]), true } }, [[], q, q] == x }, [x, 2, "a" | x] == [1, [x] | x]])
}
pub fn case_485(vars: &Vars) -> InferredGoal<DU, DE, Goal<DU, DE>> {
    let x = vars.v[0].clone();
    let y = vars.v[1].clone();
    proto_vulcan!([y == x, match [x, _, _] { [2, [y, 2, 1], [_, h, 1]] => , _ => [[|z| { true, |tz| { [3 | tz] != [3, 1, 2], tz == [1, 2] }, false }, match x { 3 => , [[x, x, y] | 1] | 1 => , }, |x, t| { t != ['a', 1], [["bc"], [x, y, y | 2] | y] == [[3]], t == x }], x == x], [[x]] => , }, |tz| { tz == [2], [3 | tz] != [3, 2] }])
}
pub fn case_486(vars: &Vars) -> InferredGoal<DU, DE, Goal<DU, DE>> {
    let x = vars.v[0].clone();
    let y = vars.v[1].clone();
    proto_vulcan!([y == x, match [x, _, _] { [2, [fresh_name_9, 2, 1], [_, h, 1]] => , _ => [[|z| { true, |tz| { [3 | tz] != [3, 1, 2], tz == [1, 2] }, false }, match x { 3 => , [[x, x, y] | 1] | 1 => , }, |x, t| { t != ['a', 1], [["bc"], [x, y, y | 2] | y] == [[3]], t == x }], x == x], [[x]] => , }, |tz| { tz == [2], [3 | tz] != [3, 2] }])
}
pub fn case_487(vars: &Vars) -> InferredGoal<DU, DE, Goal<DU, DE>> {
    let x = vars.v[0].clone();
    let y = vars.v[1].clone();
    proto_vulcan!([true, { let c__: InferredGoal<DU, DE, Goal<DU, DE>> = proto_vulcan_closure!(|yy| { conde { [y == [yy | _], yy == 1], [y == [_, yy | _], yy == 2] } }); let g__: Goal<DU, DE> = ::proto_vulcan::GoalCast::cast_into(c__); let r__: InferredGoal<DU, DE, Goal<DU, DE>> = proto_vulcan!([g__.clone(), g__]); r__ }])
}
pub fn case_488(vars: &Vars) -> InferredGoal<DU, DE, Goal<DU, DE>> {
    let x = vars.v[0].clone();
    let y = vars.v[1].clone();
    proto_vulcan!([true, { let c__: InferredGoal<DU, DE, Goal<DU, DE>> = proto_vulcan_closure!(|fresh_name_9| { conde { [y == [fresh_name_9 | _], fresh_name_9 == 1], [y == [_, fresh_name_9 | _], fresh_name_9 == 2] } }); let g__: Goal<DU, DE> = ::proto_vulcan::GoalCast::cast_into(c__); let r__: InferredGoal<DU, DE, Goal<DU, DE>> = proto_vulcan!([g__.clone(), g__]); r__ }])
}
pub fn case_489(vars: &Vars) -> InferredGoal<DU, DE, Goal<DU, DE>> {
    let x = vars.v[0].clone();
    let y = vars.v[1].clone();
    proto_vulcan!([append(y, y, [3, 1]), conde { matche 1 { [["bc"]] => { [] }, [['a', 1]] => matche x { [1] => , }, [[[], h, y], z, [t, z, [] | h]] => z == (3, []), }, [[match [3] { [1 | y] => [member(x, [3]), member(y, [2])], y => { y == ([_], [1, 2]), |tz| { [1, 1, 1, 1] != [1, 1 | tz], tz == [1, 1] } }, }, [[true] | x] == ([2], _)], [2] == _] }])
}
pub fn case_490(vars: &Vars) -> InferredGoal<DU, DE, Goal<DU, DE>> {
    let x = vars.v[0].clone();
    let y = vars.v[1].clone();
    proto_vulcan!([append(y, y, [3, 1]), conde { matche 1 { [["bc"]] => { [] }, [['a', 1]] => matche x { [1] => , }, [[[], h, y], z, [t, z, [] | h]] => z == (3, []), }, [[match [3] { [1 | fresh_name_9] => [member(x, [3]), member(fresh_name_9, [2])], y => { y == ([_], [1, 2]), |tz| { [1, 1, 1, 1] != [1, 1 | tz], tz == [1, 1] } }, }, [[true] | x] == ([2], _)], [2] == _] }])
}
pub fn case_491(vars: &Vars) -> InferredGoal<DU, DE, Goal<DU, DE>> {
    let q = vars.v[0].clone();
    let x = vars.v[1].clone();
    proto_vulcan!([|y| { 2 == q }, [matche [q, 1] { [[y, 'a'] | y] => { y == [q], (y, 1) != ["a" | q] }, }], q == []])
}
pub fn case_492(vars: &Vars) -> InferredGoal<DU, DE, Goal<DU, DE>> {
    let q = vars.v[0].clone();
    let x = vars.v[1].clone();
    proto_vulcan!([|y| { 2 == q }, [matche [q, 1] { [[fresh_name_9, 'a'] | fresh_name_9] => { fresh_name_9 == [q], (fresh_name_9, 1) != ["a" | q] }, }], q == []])
}
pub fn case_493(vars: &Vars) -> InferredGoal<DU, DE, Goal<DU, DE>> {
    let x = vars.v[0].clone();
    let y = vars.v[1].clone();
    proto_vulcan!([matche x { 2 => { match [false, y] { [] => , _ => (2, 1) == P3([[]], 3, [[], y]), _ => , }, [[]] == y }, _ => { match x { 2 => , [t | _] | y => |t| { 1 == x }, false => { [y == [true, 3, x | y], member(x, [3, 2, 1]), "a" == y] }, } }, }, x != [_, y], [matche x { [[z], z, 1] => [[append(z, y, [1, 3]), y != z, z == 1]], 'b' | _ => { match x { _ | [false] => |tz| { [1, 2 | tz] != [1, 2, 2, 1], tz == [2, 1] }, [2, z] | [[] | h] => (_, y) == x, [] | _ => , } }, }], { let c__: InferredGoal<DU, DE, Goal<DU, DE>> = proto_vulcan_closure!([|yy| { conde { [y == [yy | _], yy == 1], [y == [_, yy | _], yy == 2] } }, [1, _] == y]); let g__: Goal<DU, DE> = ::proto_vulcan::GoalCast::cast_into(c__); let r__: InferredGoal<DU, DE, Goal<DU, DE>> = proto_vulcan!([g__.clone(), g__]); r__ }])
}
pub fn case_494(vars: &Vars) -> InferredGoal<DU, DE, Goal<DU, DE>> {
    let x = vars.v[0].clone();
    let y = vars.v[1].clone();
    proto_vulcan!([matche x { 2 => { match [false, y] { [] => , _ => (2, 1) == P3([[]], 3, [[], y]), _ => , }, [[]] == y }, _ => { match x { 2 => , [t | _] | y => |t| { 1 == x }, false => { [y == [true, 3, x | y], member(x, [3, 2, 1]), "a" == y] }, } }, }, x != [_, y], [matche x { [[fresh_name_9], fresh_name_9, 1] => [[append(fresh_name_9, y, [1, 3]), y != fresh_name_9, fresh_name_9 == 1]], 'b' | _ => { match x { _ | [false] => |tz| { [1, 2 | tz] != [1, 2, 2, 1], tz == [2, 1] }, [2, z] | [[] | h] => (_, y) == x, [] | _ => , } }, }], { let c__: InferredGoal<DU, DE, Goal<DU, DE>> = proto_vulcan_closure!([|yy| { conde { [y == [yy | _], yy == 1], [y == [_, yy | _], yy == 2] } }, [1, _] == y]); let g__: Goal<DU, DE> = ::proto_vulcan::GoalCast::cast_into(c__); let r__: InferredGoal<DU, DE, Goal<DU, DE>> = proto_vulcan!([g__.clone(), g__]); r__ }])
}
pub fn case_495(vars: &Vars) -> InferredGoal<DU, DE, Goal<DU, DE>> {
    let x = vars.v[0].clone();
    let y = vars.v[1].clone();
    proto_vulcan!([|y| { conde { [], [conde { 'b' != x, ([2], _) == [[2], [[], y, y], 3] }, match x { _ => [y == 7, y == 8], }] }, matche y { [[y], z] => { |h| {  } }, Named { a: h, b: h } | "bc" => { conde { [y == (2, []), y != [false, [], y]], _ == x, member(y, []) }, |tz| { tz == [3], [1, 2, 3] != [1, 2 | tz] } }, } }, match y { [x] => { conde { x != 2, [append(y, x, [1]), x != [3, x, 3]], [x == x, [1] == x] } }, }, |tz| { [3, 3] != [3 | tz], tz == [3] }])
}
pub fn case_496(vars: &Vars) -> InferredGoal<DU, DE, Goal<DU, DE>> {
    let x = vars.v[0].clone();
    let y = vars.v[1].clone();
    proto_vulcan!([|fresh_name_9| { conde { [], [conde { 'b' != x, ([2], _) == [[2], [[], fresh_name_9, fresh_name_9], 3] }, match x { _ => [fresh_name_9 == 7, fresh_name_9 == 8], }] }, matche fresh_name_9 { [[y], z] => { |h| {  } }, Named { a: h, b: h } | "bc" => { conde { [fresh_name_9 == (2, []), fresh_name_9 != [false, [], fresh_name_9]], _ == x, member(fresh_name_9, []) }, |tz| { tz == [3], [1, 2, 3] != [1, 2 | tz] } }, } }, match y { [x] => { conde { x != 2, [append(y, x, [1]), x != [3, x, 3]], [x == x, [1] == x] } }, }, |tz| { [3, 3] != [3 | tz], tz == [3] }])
}
pub fn case_497(vars: &Vars) -> InferredGoal<DU, DE, Goal<DU, DE>> {
    let x = vars.v[0].clone();
    let y = vars.v[1].clone();
    proto_vulcan!([|h, z| { conde { z == _, [[[[2, x] | y] != z], [[]] != z] }, conde { [[] == x, |t| { z == [false, [], 2 | y] }], [member(x, []), matche h { [[z, 1, 1], [_, 3, []] | x] | _ => [(2, h) == y, [_, h, []] != y], _ | [[], false, [3 | _]] => { ['b'] == (y, 2) }, [[_], [2 | []], ['b', 3, z]] => { x == x }, }], |x, h| {  } } }, [|t| { x != [x], [x, [] | t] == y }, member(x, [3, 3]), [y, x, 1 | y] == x]])
}
pub fn case_498(vars: &Vars) -> InferredGoal<DU, DE, Goal<DU, DE>> {
    let x = vars.v[0].clone();
    let y = vars.v[1].clone();
    proto_vulcan!([|h, z| { conde { z == _, [[[[2, x] | y] != z], [[]] != z] }, conde { [[] == x, |t| { z == [false, [], 2 | y] }], [member(x, []), matche h { [[z, 1, 1], [_, 3, []] | x] | _ => [(2, h) == y, [_, h, []] != y], _ | [[], false, [3 | _]] => { ['b'] == (y, 2) }, [[_], [2 | []], ['b', 3, z]] => { x == x }, }], |x, h| {  } } }, [|fresh_name_9| { x != [x], [x, [] | fresh_name_9] == y }, member(x, [3, 3]), [y, x, 1 | y] == x]])
}
pub fn case_499(vars: &Vars) -> InferredGoal<DU, DE, Goal<DU, DE>> {
    let q = vars.v[0].clone();
    let x = vars.v[1].clone();
    proto_vulcan!([q != [q, _, x], |z| {  }, { let c__: InferredGoal<DU, DE, Goal<DU, DE>> = proto_vulcan_closure!([|yy| { conde { [q == [yy | _], yy == 1], [q == [_, yy | _], yy == 2] } }, 2 == [[x | [2, []]], q]]); let g__: Goal<DU, DE> = ::proto_vulcan::GoalCast::cast_into(c__); let r__: InferredGoal<DU, DE, Goal<DU, DE>> = proto_vulcan!([g__.clone(), g__]); r__ }])
}
pub fn case_500(vars: &Vars) -> InferredGoal<DU, DE, Goal<DU, DE>> {
    let q = vars.v[0].clone();
    let x = vars.v[1].clone();
    proto_vulcan!([q != [q, _, x], |fresh_name_9| {  }, { let c__: InferredGoal<DU, DE, Goal<DU, DE>> = proto_vulcan_closure!([|yy| { conde { [q == [yy | _], yy == 1], [q == [_, yy | _], yy == 2] } }, 2 == [[x | [2, []]], q]]); let g__: Goal<DU, DE> = ::proto_vulcan::GoalCast::cast_into(c__); let r__: InferredGoal<DU, DE, Goal<DU, DE>> = proto_vulcan!([g__.clone(), g__]); r__ }])
}
pub fn case_501(vars: &Vars) -> InferredGoal<DU, DE, Goal<DU, DE>> {
    let q = vars.v[0].clone();
    let x = vars.v[1].clone();
    proto_vulcan!([P3(1, [], [_]) != (2, []), |z| { [] }, q == q, closure { [conde { [2 != x, |z, t| { true, P3([x], 2, 2) != q, member(q, [2, 1, 3]) }], [match q { [_, y] => [] == [[1, q, 1]], [[[] | t], [h, t, y]] | [[false, 1, x], [1]] => , _ => P3([], [x, x], x) != [], }, |z, h| { q != [x, [h], [true]] }], [] }, |x| { q == 2, x != [[], 3 | x], q == [1] }] }])
}
pub fn case_502(vars: &Vars) -> InferredGoal<DU, DE, Goal<DU, DE>> {
    let q = vars.v[0].clone();
    let x = vars.v[1].clone();
    proto_vulcan!([P3(1, [], [_]) != (2, []), |z| { [] }, q == q, closure { [conde { [2 != x, |z, t| { true, P3([x], 2, 2) != q, member(q, [2, 1, 3]) }], [match q { [_, fresh_name_9] => [] == [[1, q, 1]], [[[] | t], [h, t, y]] | [[false, 1, x], [1]] => , _ => P3([], [x, x], x) != [], }, |z, h| { q != [x, [h], [true]] }], [] }, |x| { q == 2, x != [[], 3 | x], q == [1] }] }])
}
pub fn case_503(vars: &Vars) -> InferredGoal<DU, DE, Goal<DU, DE>> {
    let q = vars.v[0].clone();
    let x = vars.v[1].clone();
    proto_vulcan!([q == [[[]], [q]], |t| { matche x { P3([[]], [_, h], []) => [[true, _, x] != q, matche x { [true | false] => , _ => { x == 7, x == 8 }, }], [['a', y | y], [_, 1]] => , }, t == [[2, 3, [] | 3], t, [2, x, _]] }, match x { _ => , _ => conde { x == P3([], 1, 2), match x { _ => { q == 7, q == 8 }, [1] => { |tz| { [2, 3, 2] != [2, 3 | tz], tz == [2] }, [1] != x }, } }, }])
}
pub fn case_504(vars: &Vars) -> InferredGoal<DU, DE, Goal<DU, DE>> {
    let q = vars.v[0].clone();
    let x = vars.v[1].clone();
    proto_vulcan!([q == [[[]], [q]], |t| { matche x { P3([[]], [_, h], []) => [[true, _, x] != q, matche x { [true | false] => , _ => { x == 7, x == 8 }, }], [['a', y | y], [_, 1]] => , }, t == [[2, 3, [] | 3], t, [2, x, _]] }, match x { _ => , _ => conde { x == P3([], 1, 2), match x { _ => { q == 7, q == 8 }, [1] => { |fresh_name_9| { [2, 3, 2] != [2, 3 | fresh_name_9], fresh_name_9 == [2] }, [1] != x }, } }, }])
}
pub fn case_505(vars: &Vars) -> InferredGoal<DU, DE, Goal<DU, DE>> {
    let x = vars.v[0].clone();
    let y = vars.v[1].clone();
    proto_vulcan!([|tz| { [3 | tz] != [3, 3, 1], tz == [3, 1] }, closure { matche y { [[_, y, [] | [_, 1]], [z, 1 | [2, t]]] => [t] == z, [_, [h, 1]] | ["a", 2] => |h, y| { 1 == x }, [[z, 2 | y], h] => [member(y, []), h == 2], } }])
}
pub fn case_506(vars: &Vars) -> InferredGoal<DU, DE, Goal<DU, DE>> {
    let x = vars.v[0].clone();
    let y = vars.v[1].clone();
    proto_vulcan!([|tz| { [3 | tz] != [3, 3, 1], tz == [3, 1] }, closure { matche y { [[_, y, [] | [_, 1]], [fresh_name_9, 1 | [2, t]]] => [t] == fresh_name_9, [_, [h, 1]] | ["a", 2] => |h, y| { 1 == x }, [[z, 2 | y], h] => [member(y, []), h == 2], } }])
}
pub fn case_507(vars: &Vars) -> InferredGoal<DU, DE, Goal<DU, DE>> {
    let x = vars.v[0].clone();
    proto_vulcan!([[conde { ["bc" != x, x == _], [x | x] == x }, true], [x != x], conde { |t, x| { match [1, 2] { 2 | 'b' => , [[z] | 1] => , _ | _ => , } }, |z| { [[_, 1, 1 | x] == [1, 2, z], member(x, [])], match [2] { [[z, z, false]] => , _ | P3(x, 3, 3) => { P3(_, z, [3, 2]) == z }, Named { a: [_, 3], b: [y] } => , } } }, { let c__: InferredGoal<DU, DE, Goal<DU, DE>> = proto_vulcan_closure!([|yy| { conde { [x == [yy | _], yy == 1], [x == [_, yy | _], yy == 2] } }, |z| { |tz| { tz == [1, 1], [3 | tz] != [3, 1, 1] } }]); let g__: Goal<DU, DE> = ::proto_vulcan::GoalCast::cast_into(c__); let r__: InferredGoal<DU, DE, Goal<DU, DE>> = proto_vulcan!([g__.clone(), g__]); r__ }])
}
pub fn case_508(vars: &Vars) -> InferredGoal<DU, DE, Goal<DU, DE>> {
    let x = vars.v[0].clone();
    proto_vulcan!([[conde { ["bc" != x, x == _], [x | x] == x }, true], [x != x], conde { |t, x| { match [1, 2] { 2 | 'b' => , [[z] | 1] => , _ | _ => , } }, |z| { [[_, 1, 1 | x] == [1, 2, z], member(x, [])], match [2] { [[z, z, false]] => , _ | P3(x, 3, 3) => { P3(_, z, [3, 2]) == z }, Named { a: [_, 3], b: [y] } => , } } }, { let c__: InferredGoal<DU, DE, Goal<DU, DE>> = proto_vulcan_closure!([|yy| { conde { [x == [yy | _], yy == 1], [x == [_, yy | _], yy == 2] } }, |fresh_name_9| { |tz| { tz == [1, 1], [3 | tz] != [3, 1, 1] } }]); let g__: Goal<DU, DE> = ::proto_vulcan::GoalCast::cast_into(c__); let r__: InferredGoal<DU, DE, Goal<DU, DE>> = proto_vulcan!([g__.clone(), g__]); r__ }])
}
pub fn case_509(vars: &Vars) -> InferredGoal<DU, DE, Goal<DU, DE>> {
    let x = vars.v[0].clone();
    let y = vars.v[1].clone();
    proto_vulcan!([|x, y| { conde { |h, z| { [_] == z, |tz| { [3, 2, 1, 1] != [3, 2 | tz], tz == [1, 1] } }, conde { [], x == 'b' } } }, [matche x { P3(1, _, []) => { [y == [y | 3], append(y, x, [])] }, }, matche x { P3(_, x, []) => { matche x { [x, [t | _], y | h] => { true }, _ => [member(x, [3]), x == [_]], _ => { [y, [1, 3, 'a' | x], [[], 2]] != P3(2, 1, x), x == "bc" }, } }, }], y == [x], { let c__: InferredGoal<DU, DE, Goal<DU, DE>> = proto_vulcan_closure!([|yy| { conde { [y == [yy | _], yy == 1], [y == [_, yy | _], yy == 2] } }, [y == (y, 3), y != P3(_, [], [2, []])]]); let g__: Goal<DU, DE> = ::proto_vulcan::GoalCast::cast_into(c__); let r__: InferredGoal<DU, DE, Goal<DU, DE>> = proto_vulcan!([g__.clone(), g__]); r__ }])
}
pub fn case_510(vars: &Vars) -> InferredGoal<DU, DE, Goal<DU, DE>> {
    let x = vars.v[0].clone();
    let y = vars.v[1].clone();
    proto_vulcan!([|x, y| { conde { |h, z| { [_] == z, |tz| { [3, 2, 1, 1] != [3, 2 | tz], tz == [1, 1] } }, conde { [], x == 'b' } } }, [matche x { P3(1, _, []) => { [y == [y | 3], append(y, x, [])] }, }, matche x { P3(_, fresh_name_9, []) => { matche fresh_name_9 { [x, [t | _], y | h] => { true }, _ => [member(fresh_name_9, [3]), fresh_name_9 == [_]], _ => { [y, [1, 3, 'a' | fresh_name_9], [[], 2]] != P3(2, 1, fresh_name_9), fresh_name_9 == "bc" }, } }, }], y == [x], { let c__: InferredGoal<DU, DE, Goal<DU, DE>> = proto_vulcan_closure!([|yy| { conde { [y == [yy | _], yy == 1], [y == [_, yy | _], yy == 2] } }, [y == (y, 3), y != P3(_, [], [2, []])]]); let g__: Goal<DU, DE> = ::proto_vulcan::GoalCast::cast_into(c__); let r__: InferredGoal<DU, DE, Goal<DU, DE>> = proto_vulcan!([g__.clone(), g__]); r__ }])
}
pub fn case_511(vars: &Vars) -> InferredGoal<DU, DE, Goal<DU, DE>> {
    let x = vars.v[0].clone();
    proto_vulcan!([conde { [|tz| { tz == [1], [2 | tz] != [2, 1] }, matche [x] { [[y | _], 1] => true, P3(2, [_], 3) => , }] }, 2 == x, ([], [_]) != P3(1, [[], 3], [[]])])
}
pub fn case_512(vars: &Vars) -> InferredGoal<DU, DE, Goal<DU, DE>> {
    let x = vars.v[0].clone();
    proto_vulcan!([conde { [|tz| { tz == [1], [2 | tz] != [2, 1] }, matche [x] { [[fresh_name_9 | _], 1] => true, P3(2, [_], 3) => , }] }, 2 == x, ([], [_]) != P3(1, [[], 3], [[]])])
}
pub fn case_513(vars: &Vars) -> InferredGoal<DU, DE, Goal<DU, DE>> {
    let x = vars.v[0].clone();
    proto_vulcan!([[_, [], 3 | ["a"]] != x, closure { conde { [conde { x == [x], [member(x, [1, 1]), true], [2, 1 | x] == x }, P3([2, _], [x], x) == x], match x { [[_ | 1]] => { x == [3, 2], x != x }, P3(1, [], x) => , ['b'] => [P3([], 3, []) == x, x == [[x, x | [x, x]]]], }, x == ['b' | x] } }])
}
pub fn case_514(vars: &Vars) -> InferredGoal<DU, DE, Goal<DU, DE>> {
    let x = vars.v[0].clone();
    proto_vulcan!([[_, [], 3 | ["a"]] != x, closure { conde { [conde { x == [x], [member(x, [1, 1]), true], [2, 1 | x] == x }, P3([2, _], [x], x) == x], match x { [[_ | 1]] => { x == [3, 2], x != x }, P3(1, [], fresh_name_9) => , ['b'] => [P3([], 3, []) == x, x == [[x, x | [x, x]]]], }, x == ['b' | x] } }])
}
pub fn case_515(vars: &Vars) -> InferredGoal<DU, DE, Goal<DU, DE>> {
    let x = vars.v[0].clone();
    proto_vulcan!([P3(_, [], 2) == x, conde { [|y| { |h| { true, member(x, [3]), [x, 1, 2] == 1 } }, matche x { x => { |h| { P3(_, _, x) != x, x == [2, []], h == P3([x], 3, _) } }, }], [[match x { [h, x] => { ([3], [h, _]) == x }, }], ['a', [2, x], 1] == x] }, [x == x, [[2, x, []], [2], [3, x]] == x]])
}
pub fn case_516(vars: &Vars) -> InferredGoal<DU, DE, Goal<DU, DE>> {
    let x = vars.v[0].clone();
    proto_vulcan!([P3(_, [], 2) == x, conde { [|y| { |h| { true, member(x, [3]), [x, 1, 2] == 1 } }, matche x { x => { |h| { P3(_, _, x) != x, x == [2, []], h == P3([x], 3, _) } }, }], [[match x { [h, fresh_name_9] => { ([3], [h, _]) == fresh_name_9 }, }], ['a', [2, x], 1] == x] }, [x == x, [[2, x, []], [2], [3, x]] == x]])
}
pub fn case_517(vars: &Vars) -> InferredGoal<DU, DE, Goal<DU, DE>> {
    let x = vars.v[0].clone();
    let y = vars.v[1].clone();
    proto_vulcan!([(1, x) == ([], _), matche [1, []] { [t, t, 2 | []] => { |y| { t == 1, |x, y| { [y, 'a'] == t, false, [y, 2, 1] == t } }, |t| { y != [2 | x], |x| { x != [[1, y, []], y, []], P3(_, [], t) == P3([_, y], [2, y], 3), t == 2 } } }, [h, x, [x] | _] | [[_, y, "bc" | _]] => , }])
}
pub fn case_518(vars: &Vars) -> InferredGoal<DU, DE, Goal<DU, DE>> {
    let x = vars.v[0].clone();
    let y = vars.v[1].clone();
    proto_vulcan!([(1, x) == ([], _), matche [1, []] { [t, t, 2 | []] => { |fresh_name_9| { t == 1, |x, y| { [y, 'a'] == t, false, [y, 2, 1] == t } }, |t| { y != [2 | x], |x| { x != [[1, y, []], y, []], P3(_, [], t) == P3([_, y], [2, y], 3), t == 2 } } }, [h, x, [x] | _] | [[_, y, "bc" | _]] => , }])
}
pub fn case_519(vars: &Vars) -> InferredGoal<DU, DE, Goal<DU, DE>> {
    let q = vars.v[0].clone();
    let x = vars.v[1].clone();
    proto_vulcan!([conde { [x == [[_, x, 2], [x, _, q], [q, [] | 2] | 3], 2 == q], [[x != P3([], x, [])], [matche q { [[1 | [[], _]], [_, y, 2], h | h] | [[_, h, 2 | y], [[]] | _] => ([_, _], _) == q, x | [[x, x], y] => [[[], x | x] != x, [[2], [3, [], _], [x, true, x]] != x], }, conde { true, [], [q, q] == x }]], false }, conde { [|z, h| { |x, z| { [3] == z } }, match x { [2] => { conde { [append(q, q, [2]), false] }, matche 'a' { Named { a: 2, b: z } => [q == x, false], false => { [2, x] == q }, } }, t => { t == t }, [[z, x, _]] => , }], [match [] { [[2, _, [] | h], h, [_]] => { x == 1, conde { [h == [q | 3], x == [[]]], [[3] == h, false], false } }, Named { a: _, b: y } | true => x == [q, 3, [] | [q]], }, q == 2], [|t| { |x| { false, x == _, t == 2 }, _ == t, match t { _ => , _ => [q == 7, q == 8], _ => { t == 7, t == 8 }, } }, matche [q] { [[2], 1, [[], t | z]] | _ => , y => match x { z => { true }, t => , }, }] }, true])
}
pub fn case_520(vars: &Vars) -> InferredGoal<DU, DE, Goal<DU, DE>> {
    let q = vars.v[0].clone();
    let x = vars.v[1].clone();
    proto_vulcan!([conde { [x == [[_, x, 2], [x, _, q], [q, [] | 2] | 3], 2 == q], [[x != P3([], x, [])], [matche q { [[1 | [[], _]], [_, y, 2], h | h] | [[_, h, 2 | y], [[]] | _] => ([_, _], _) == q, x | [[x, x], y] => [[[], x | x] != x, [[2], [3, [], _], [x, true, x]] != x], }, conde { true, [], [q, q] == x }]], false }, conde { [|z, h| { |x, z| { [3] == z } }, match x { [2] => { conde { [append(q, q, [2]), false] }, matche 'a' { Named { a: 2, b: z } => [q == x, false], false => { [2, x] == q }, } }, t => { t == t }, [[z, fresh_name_9, _]] => , }], [match [] { [[2, _, [] | h], h, [_]] => { x == 1, conde { [h == [q | 3], x == [[]]], [[3] == h, false], false } }, Named { a: _, b: y } | true => x == [q, 3, [] | [q]], }, q == 2], [|t| { |x| { false, x == _, t == 2 }, _ == t, match t { _ => , _ => [q == 7, q == 8], _ => { t == 7, t == 8 }, } }, matche [q] { [[2], 1, [[], t | z]] | _ => , y => match x { z => { true }, t => , }, }] }, true])
}
pub fn case_521(vars: &Vars) -> InferredGoal<DU, DE, Goal<DU, DE>> {
    let q = vars.v[0].clone();
    let x = vars.v[1].clone();
    proto_vulcan!([_ == ['a', _], false, { let c__: InferredGoal<DU, DE, Goal<DU, DE>> = proto_vulcan_closure!(|yy| { conde { [x == [yy | _], yy == 1], [x == [_, yy | _], yy == 2] } }); let g__: Goal<DU, DE> = ::proto_vulcan::GoalCast::cast_into(c__); let r__: InferredGoal<DU, DE, Goal<DU, DE>> = proto_vulcan!([g__.clone(), g__]); r__ }])
}
pub fn case_522(vars: &Vars) -> InferredGoal<DU, DE, Goal<DU, DE>> {
    let q = vars.v[0].clone();
    let x = vars.v[1].clone();
    proto_vulcan!([_ == ['a', _], false, { let c__: InferredGoal<DU, DE, Goal<DU, DE>> = proto_vulcan_closure!(|fresh_name_9| { conde { [x == [fresh_name_9 | _], fresh_name_9 == 1], [x == [_, fresh_name_9 | _], fresh_name_9 == 2] } }); let g__: Goal<DU, DE> = ::proto_vulcan::GoalCast::cast_into(c__); let r__: InferredGoal<DU, DE, Goal<DU, DE>> = proto_vulcan!([g__.clone(), g__]); r__ }])
}
pub fn case_523(vars: &Vars) -> InferredGoal<DU, DE, Goal<DU, DE>> {
    let q = vars.v[0].clone();
    let x = vars.v[1].clone();
    proto_vulcan!([match q { _ => { member(x, [1, 2, 3]) }, h | [2] => conde { [|z, x| { false, false }, [q, q, q | _] == q], [|t, y| { true, false, [] == y }, x == x], |tz| { [3 | tz] != [3, 2], tz == [2] } }, Named { a: z, b: [] } => , }, conde { [x == x, x == ([1, _], q)], [append(q, x, []), ["bc" | q] == q], [|t| { |x, y| { true }, conde { [(x, [2]) != q, |tz| { [2, 1 | tz] != [2, 1, 3], tz == [3] }], [false, x == q] }, true }, x == P3([1, []], _, 2)] }, append(q, x, []), { let c__: InferredGoal<DU, DE, Goal<DU, DE>> = proto_vulcan_closure!(|yy| { conde { [q == [yy | _], yy == 1], [q == [_, yy | _], yy == 2] } }); let g__: Goal<DU, DE> = ::proto_vulcan::GoalCast::cast_into(c__); let r__: InferredGoal<DU, DE, Goal<DU, DE>> = proto_vulcan!([g__.clone(), g__]); r__ }])
}
pub fn case_524(vars: &Vars) -> InferredGoal<DU, DE, Goal<DU, DE>> {
    let q = vars.v[0].clone();
    let x = vars.v[1].clone();
    proto_vulcan!([match q { _ => { member(x, [1, 2, 3]) }, h | [2] => conde { [|z, x| { false, false }, [q, q, q | _] == q], [|t, y| { true, false, [] == y }, x == x], |tz| { [3 | tz] != [3, 2], tz == [2] } }, Named { a: z, b: [] } => , }, conde { [x == x, x == ([1, _], q)], [append(q, x, []), ["bc" | q] == q], [|fresh_name_9| { |x, y| { true }, conde { [(x, [2]) != q, |tz| { [2, 1 | tz] != [2, 1, 3], tz == [3] }], [false, x == q] }, true }, x == P3([1, []], _, 2)] }, append(q, x, []), { let c__: InferredGoal<DU, DE, Goal<DU, DE>> = proto_vulcan_closure!(|yy| { conde { [q == [yy | _], yy == 1], [q == [_, yy | _], yy == 2] } }); let g__: Goal<DU, DE> = ::proto_vulcan::GoalCast::cast_into(c__); let r__: InferredGoal<DU, DE, Goal<DU, DE>> = proto_vulcan!([g__.clone(), g__]); r__ }])
}
pub fn case_525(vars: &Vars) -> InferredGoal<DU, DE, Goal<DU, DE>> {
    let x = vars.v[0].clone();
    let y = vars.v[1].clone();
    proto_vulcan!([match y { _ => , Named { a: [1], b: [x, _] } => { |y| { [member(x, [2, 3, 1])], P3([x], [3, x], []) != y, [member(x, []), y == [x, false, y], append(x, x, [3, 3])] } }, }, { let c__: InferredGoal<DU, DE, Goal<DU, DE>> = proto_vulcan_closure!(|yy| { conde { [y == [yy | _], yy == 1], [y == [_, yy | _], yy == 2] } }); let g__: Goal<DU, DE> = ::proto_vulcan::GoalCast::cast_into(c__); let r__: InferredGoal<DU, DE, Goal<DU, DE>> = proto_vulcan!([g__.clone(), g__]); r__ }])
}
pub fn case_526(vars: &Vars) -> InferredGoal<DU, DE, Goal<DU, DE>> {
    let x = vars.v[0].clone();
    let y = vars.v[1].clone();
    proto_vulcan!([match y { _ => , Named { a: [1], b: [x, _] } => { |y| { [member(x, [2, 3, 1])], P3([x], [3, x], []) != y, [member(x, []), y == [x, false, y], append(x, x, [3, 3])] } }, }, { let c__: InferredGoal<DU, DE, Goal<DU, DE>> = proto_vulcan_closure!(|fresh_name_9| { conde { [y == [fresh_name_9 | _], fresh_name_9 == 1], [y == [_, fresh_name_9 | _], fresh_name_9 == 2] } }); let g__: Goal<DU, DE> = ::proto_vulcan::GoalCast::cast_into(c__); let r__: InferredGoal<DU, DE, Goal<DU, DE>> = proto_vulcan!([g__.clone(), g__]); r__ }])
}
pub fn case_527(vars: &Vars) -> InferredGoal<DU, DE, Goal<DU, DE>> {
    let x = vars.v[0].clone();
    proto_vulcan!(['a' != x, |t| {  }, |t| { [x, []] == P3(_, [1, []], 3) }])
}
pub fn case_528(vars: &Vars) -> InferredGoal<DU, DE, Goal<DU, DE>> {
    let x = vars.v[0].clone();
    proto_vulcan!(['a' != x, |t| {  }, |fresh_name_9| { [x, []] == P3(_, [1, []], 3) }])
}
pub fn case_529(vars: &Vars) -> InferredGoal<DU, DE, Goal<DU, DE>> {
    let x = vars.v[0].clone();
    let y = vars.v[1].clone();
    proto_vulcan!([|tz| { tz == [1, 2], [1, 1, 2] != [1 | tz] }, |t, y| { conde { false, [conde { false, 1 == y }, matche x { [[2, true, 1], [x, t], 1] | _ => [y != 3, y == [[], _]], [y, [t]] => , _ => { x == 1, |tz| { tz == [2, 2], [2 | tz] != [2, 2, 2] } }, }] } }])
}
pub fn case_530(vars: &Vars) -> InferredGoal<DU, DE, Goal<DU, DE>> {
    let x = vars.v[0].clone();
    let y = vars.v[1].clone();
    proto_vulcan!([|fresh_name_9| { fresh_name_9 == [1, 2], [1, 1, 2] != [1 | fresh_name_9] }, |t, y| { conde { false, [conde { false, 1 == y }, matche x { [[2, true, 1], [x, t], 1] | _ => [y != 3, y == [[], _]], [y, [t]] => , _ => { x == 1, |tz| { tz == [2, 2], [2 | tz] != [2, 2, 2] } }, }] } }])
}
pub fn case_531(vars: &Vars) -> InferredGoal<DU, DE, Goal<DU, DE>> {
    let x = vars.v[0].clone();
    proto_vulcan!([match x { P3([h], [[]], y) | Named { a: y, b: 2 } => , [["bc" | [_]]] | _ => { P3([[], x], [3, 2], x) == x }, }, conde { [[|x| { append(x, x, [3]), x == (1, [3]), x == x }, [_, x, 1] == x, match [x, _, x] { true | _ => |tz| { tz == [1, 3], [3, 1 | tz] != [3, 1, 1, 3] }, [t, [y, 1]] | _ => , }], |h| { match h { 1 => [|tz| { tz == [1, 1], [3, 3 | tz] != [3, 3, 1, 1] }, P3([_], 1, x) == h], }, |tz| { tz == [3], [2, 2 | tz] != [2, 2, 3] } }], 2 == x, [2, 2] == x }, [x, []] == x])
}
pub fn case_532(vars: &Vars) -> InferredGoal<DU, DE, Goal<DU, DE>> {
    let x = vars.v[0].clone();
    proto_vulcan!([match x { P3([h], [[]], y) | Named { a: y, b: 2 } => , [["bc" | [_]]] | _ => { P3([[], x], [3, 2], x) == x }, }, conde { [[|x| { append(x, x, [3]), x == (1, [3]), x == x }, [_, x, 1] == x, match [x, _, x] { true | _ => |tz| { tz == [1, 3], [3, 1 | tz] != [3, 1, 1, 3] }, [t, [y, 1]] | _ => , }], |h| { match h { 1 => [|tz| { tz == [1, 1], [3, 3 | tz] != [3, 3, 1, 1] }, P3([_], 1, x) == h], }, |fresh_name_9| { fresh_name_9 == [3], [2, 2 | fresh_name_9] != [2, 2, 3] } }], 2 == x, [2, 2] == x }, [x, []] == x])
}
pub fn case_533(vars: &Vars) -> InferredGoal<DU, DE, Goal<DU, DE>> {
    let x = vars.v[0].clone();
    let y = vars.v[1].clone();
    proto_vulcan!([match x { [[_]] | _ => [[y == [[], [_, [] | y], x]]], }, match x { Named { a: 1, b: _ } | [1, _, h] => [|h| {  }, true != []], 3 => [y == [x, x, y], 1 == y], Named { a: 1, b: 3 } | [[false] | h] => , }, []])
}
pub fn case_534(vars: &Vars) -> InferredGoal<DU, DE, Goal<DU, DE>> {
    let x = vars.v[0].clone();
    let y = vars.v[1].clone();
    proto_vulcan!([match x { [[_]] | _ => [[y == [[], [_, [] | y], x]]], }, match x { Named { a: 1, b: _ } | [1, _, h] => [|fresh_name_9| {  }, true != []], 3 => [y == [x, x, y], 1 == y], Named { a: 1, b: 3 } | [[false] | h] => , }, []])
}
pub fn case_535(vars: &Vars) -> InferredGoal<DU, DE, Goal<DU, DE>> {
    let x = vars.v[0].clone();
    proto_vulcan!([2 == x, [], [x | x] == x, { let c__: InferredGoal<DU, DE, Goal<DU, DE>> = proto_vulcan_closure!(|yy| { conde { [x == [yy | _], yy == 1], [x == [_, yy | _], yy == 2] } }); let g__: Goal<DU, DE> = ::proto_vulcan::GoalCast::cast_into(c__); let r__: InferredGoal<DU, DE, Goal<DU, DE>> = proto_vulcan!([g__.clone(), g__]); r__ }])
}
pub fn case_536(vars: &Vars) -> InferredGoal<DU, DE, Goal<DU, DE>> {
    let x = vars.v[0].clone();
    proto_vulcan!([2 == x, [], [x | x] == x, { let c__: InferredGoal<DU, DE, Goal<DU, DE>> = proto_vulcan_closure!(|fresh_name_9| { conde { [x == [fresh_name_9 | _], fresh_name_9 == 1], [x == [_, fresh_name_9 | _], fresh_name_9 == 2] } }); let g__: Goal<DU, DE> = ::proto_vulcan::GoalCast::cast_into(c__); let r__: InferredGoal<DU, DE, Goal<DU, DE>> = proto_vulcan!([g__.clone(), g__]); r__ }])
}
pub fn case_537(vars: &Vars) -> InferredGoal<DU, DE, Goal<DU, DE>> {
    let x = vars.v[0].clone();
    proto_vulcan!([([], 3) == x, |z| {  }, closure { conde { [|y| { x == [y, _, []], true }, conde { [1, false, 1 | x] == x, [x == x, true] }], [x == [x, 1 | 3], |tz| { tz == [2, 1], [1 | tz] != [1, 2, 1] }], false } }])
}
pub fn case_538(vars: &Vars) -> InferredGoal<DU, DE, Goal<DU, DE>> {
    let x = vars.v[0].clone();
    proto_vulcan!([([], 3) == x, |z| {  }, closure { conde { [|fresh_name_9| { x == [fresh_name_9, _, []], true }, conde { [1, false, 1 | x] == x, [x == x, true] }], [x == [x, 1 | 3], |tz| { tz == [2, 1], [1 | tz] != [1, 2, 1] }], false } }])
}
pub fn case_539(vars: &Vars) -> InferredGoal<DU, DE, Goal<DU, DE>> {
    let x = vars.v[0].clone();
    let y = vars.v[1].clone();
    proto_vulcan!([y != [3, [y]], |h, z| { [y, 'a', "a"] == y }, match y { [[[], 3], 'a', _] => { y == [3, y, y] }, }, closure { x != P3(1, x, x) }])
}
pub fn case_540(vars: &Vars) -> InferredGoal<DU, DE, Goal<DU, DE>> {
    let x = vars.v[0].clone();
    let y = vars.v[1].clone();
    proto_vulcan!([y != [3, [y]], |h, fresh_name_9| { [y, 'a', "a"] == y }, match y { [[[], 3], 'a', _] => { y == [3, y, y] }, }, closure { x != P3(1, x, x) }])
}
pub fn case_541(vars: &Vars) -> InferredGoal<DU, DE, Goal<DU, DE>> {
    let q = vars.v[0].clone();
    let x = vars.v[1].clone();
    proto_vulcan!([match x { [[], [x, y], []] => conde { y == [3 | q], [y == [x, _, y], conde { [member(x, []), append(y, x, [2])] }] }, }, |h| { conde { [h == h, |t| { q == [[t, []], [t, 1, 3], [[] | h]], append(t, h, []), q == (1, [h, 3]) }], conde { [], [[2 | _] == h, [_, 3] != q] } }, q != 2 }, |tz| { [3, 2, 3, 2] != [3, 2 | tz], tz == [3, 2] }])
}
pub fn case_542(vars: &Vars) -> InferredGoal<DU, DE, Goal<DU, DE>> {
    let q = vars.v[0].clone();
    let x = vars.v[1].clone();
    proto_vulcan!([match x { [[], [x, y], []] => conde { y == [3 | q], [y == [x, _, y], conde { [member(x, []), append(y, x, [2])] }] }, }, |fresh_name_9| { conde { [fresh_name_9 == fresh_name_9, |t| { q == [[t, []], [t, 1, 3], [[] | fresh_name_9]], append(t, fresh_name_9, []), q == (1, [fresh_name_9, 3]) }], conde { [], [[2 | _] == fresh_name_9, [_, 3] != q] } }, q != 2 }, |tz| { [3, 2, 3, 2] != [3, 2 | tz], tz == [3, 2] }])
}
pub fn case_543(vars: &Vars) -> InferredGoal<DU, DE, Goal<DU, DE>> {
    let q = vars.v[0].clone();
    let x = vars.v[1].clone();
    proto_vulcan!([conde { [member(x, [1, 3, 1]), 2 == x], q == q }, match true { 2 | false => { x != [x, 2 | q], |x, t| { P3(x, 1, [3, x]) == 2, conde { member(t, [2]) } } }, }])
}
pub fn case_544(vars: &Vars) -> InferredGoal<DU, DE, Goal<DU, DE>> {
    let q = vars.v[0].clone();
    let x = vars.v[1].clone();
    proto_vulcan!([conde { [member(x, [1, 3, 1]), 2 == x], q == q }, match true { 2 | false => { x != [x, 2 | q], |fresh_name_9, t| { P3(fresh_name_9, 1, [3, fresh_name_9]) == 2, conde { member(t, [2]) } } }, }])
}
pub fn case_545(vars: &Vars) -> InferredGoal<DU, DE, Goal<DU, DE>> {
    let x = vars.v[0].clone();
    proto_vulcan!([conde { x != [1, x, x | x] }, { let c__: InferredGoal<DU, DE, Goal<DU, DE>> = proto_vulcan_closure!([|yy| { conde { [x == [yy | _], yy == 1], [x == [_, yy | _], yy == 2] } }, [x == x]]); let g__: Goal<DU, DE> = ::proto_vulcan::GoalCast::cast_into(c__); let r__: InferredGoal<DU, DE, Goal<DU, DE>> = proto_vulcan!([g__.clone(), g__]); r__ }])
}
pub fn case_546(vars: &Vars) -> InferredGoal<DU, DE, Goal<DU, DE>> {
    let x = vars.v[0].clone();
    proto_vulcan!([conde { x != [1, x, x | x] }, { let c__: InferredGoal<DU, DE, Goal<DU, DE>> = proto_vulcan_closure!([|fresh_name_9| { conde { [x == [fresh_name_9 | _], fresh_name_9 == 1], [x == [_, fresh_name_9 | _], fresh_name_9 == 2] } }, [x == x]]); let g__: Goal<DU, DE> = ::proto_vulcan::GoalCast::cast_into(c__); let r__: InferredGoal<DU, DE, Goal<DU, DE>> = proto_vulcan!([g__.clone(), g__]); r__ }])
}
pub fn case_547(vars: &Vars) -> InferredGoal<DU, DE, Goal<DU, DE>> {
    let x = vars.v[0].clone();
    let y = vars.v[1].clone();
    proto_vulcan!([conde { true, [conde { [], [|t| { false != x }, P3(2, [y], x) == y] }, 3 == x] }, { let c__: InferredGoal<DU, DE, Goal<DU, DE>> = proto_vulcan_closure!([|yy| { conde { [x == [yy | _], yy == 1], [x == [_, yy | _], yy == 2] } }, x == [1, [], y]]); let g__: Goal<DU, DE> = ::proto_vulcan::GoalCast::cast_into(c__); let r__: InferredGoal<DU, DE, Goal<DU, DE>> = proto_vulcan!([g__.clone(), g__]); r__ }])
}
pub fn case_548(vars: &Vars) -> InferredGoal<DU, DE, Goal<DU, DE>> {
    let x = vars.v[0].clone();
    let y = vars.v[1].clone();
    proto_vulcan!([conde { true, [conde { [], [|t| { false != x }, P3(2, [y], x) == y] }, 3 == x] }, { let c__: InferredGoal<DU, DE, Goal<DU, DE>> = proto_vulcan_closure!([|fresh_name_9| { conde { [x == [fresh_name_9 | _], fresh_name_9 == 1], [x == [_, fresh_name_9 | _], fresh_name_9 == 2] } }, x == [1, [], y]]); let g__: Goal<DU, DE> = ::proto_vulcan::GoalCast::cast_into(c__); let r__: InferredGoal<DU, DE, Goal<DU, DE>> = proto_vulcan!([g__.clone(), g__]); r__ }])
}
pub fn case_549(vars: &Vars) -> InferredGoal<DU, DE, Goal<DU, DE>> {
    let q = vars.v[0].clone();
    let x = vars.v[1].clone();
    proto_vulcan!([match q { [[_, 2]] => { [matche q { 3 => [q == [[x, 3] | x], [x, x, 'b'] != q], [[y, _], y, [2, h] | y] => y != 1, [[z, h], 1 | _] => h == [], }, [member(q, [3, 3, 1])], [true, _] == q], [member(q, [2, 3])] }, }, { let c__: InferredGoal<DU, DE, Goal<DU, DE>> = proto_vulcan_closure!(|yy| { conde { [q == [yy | _], yy == 1], [q == [_, yy | _], yy == 2] } }); let g__: Goal<DU, DE> = ::proto_vulcan::GoalCast::cast_into(c__); let r__: InferredGoal<DU, DE, Goal<DU, DE>> = proto_vulcan!([g__.clone(), g__]); r__ }])
}
pub fn case_550(vars: &Vars) -> InferredGoal<DU, DE, Goal<DU, DE>> {
    let q = vars.v[0].clone();
    let x = vars.v[1].clone();
    proto_vulcan!([match q { [[_, 2]] => { [matche q { 3 => [q == [[x, 3] | x], [x, x, 'b'] != q], [[y, _], y, [2, h] | y] => y != 1, [[fresh_name_9, h], 1 | _] => h == [], }, [member(q, [3, 3, 1])], [true, _] == q], [member(q, [2, 3])] }, }, { let c__: InferredGoal<DU, DE, Goal<DU, DE>> = proto_vulcan_closure!(|yy| { conde { [q == [yy | _], yy == 1], [q == [_, yy | _], yy == 2] } }); let g__: Goal<DU, DE> = ::proto_vulcan::GoalCast::cast_into(c__); let r__: InferredGoal<DU, DE, Goal<DU, DE>> = proto_vulcan!([g__.clone(), g__]); r__ }])
}
pub fn case_551(vars: &Vars) -> InferredGoal<DU, DE, Goal<DU, DE>> {
    let x = vars.v[0].clone();
    proto_vulcan!([x != (x, [2, 3]), matche x { P3([[]], 3, y) | P3(z, 3, x) => , t => [t != [[2, x], [[], _, t], x], t == [1]], z => , }, conde { [matche [x] { 1 => { [x, 2] == x }, [[2, _ | y]] => , }, match x { [[z], [h, t], [y, 2 | 1]] | [true | z] => [z] == z, [[3]] => [conde { [false, x == P3([], _, [_])], [x != (3, [x, _]), ([], x) == x], [1 == x, x == P3(_, x, 1)] }, x == (3, 2)], }], [conde { conde { [[2, x] == x, [[]] == x], [x == [x, [] | x], member(x, [1, 3, 1])] }, 2 == ([[], _], _) }, [x, 3] == x] }, closure { [x == (x, x), conde { [1 != x, conde { x == 1, [[x, [x] | x] == x, |tz| { tz == [3], [2, 3] != [2 | tz] }] }], |h| { x != [x, h, h | x], [x] == h, false }, conde { true, [x == [1], (x, _) == x] } }] }])
}
pub fn case_552(vars: &Vars) -> InferredGoal<DU, DE, Goal<DU, DE>> {
    let x = vars.v[0].clone();
    proto_vulcan!([x != (x, [2, 3]), matche x { P3([[]], 3, y) | P3(z, 3, x) => , t => [t != [[2, x], [[], _, t], x], t == [1]], z => , }, conde { [matche [x] { 1 => { [x, 2] == x }, [[2, _ | fresh_name_9]] => , }, match x { [[z], [h, t], [y, 2 | 1]] | [true | z] => [z] == z, [[3]] => [conde { [false, x == P3([], _, [_])], [x != (3, [x, _]), ([], x) == x], [1 == x, x == P3(_, x, 1)] }, x == (3, 2)], }], [conde { conde { [[2, x] == x, [[]] == x], [x == [x, [] | x], member(x, [1, 3, 1])] }, 2 == ([[], _], _) }, [x, 3] == x] }, closure { [x == (x, x), conde { [1 != x, conde { x == 1, [[x, [x] | x] == x, |tz| { tz == [3], [2, 3] != [2 | tz] }] }], |h| { x != [x, h, h | x], [x] == h, false }, conde { true, [x == [1], (x, _) == x] } }] }])
}
pub fn case_553(vars: &Vars) -> InferredGoal<DU, DE, Goal<DU, DE>> {
    let q = vars.v[0].clone();
    let x = vars.v[1].clone();
    proto_vulcan!([[|h| {  }], { let c__: InferredGoal<DU, DE, Goal<DU, DE>> = proto_vulcan_closure!([|yy| { conde { [x == [yy | _], yy == 1], [x == [_, yy | _], yy == 2] } }, member(x, [3, 1, 3])]); let g__: Goal<DU, DE> = ::proto_vulcan::GoalCast::cast_into(c__); let r__: InferredGoal<DU, DE, Goal<DU, DE>> = proto_vulcan!([g__.clone(), g__]); r__ }])
}
pub fn case_554(vars: &Vars) -> InferredGoal<DU, DE, Goal<DU, DE>> {
    let q = vars.v[0].clone();
    let x = vars.v[1].clone();
    proto_vulcan!([[|h| {  }], { let c__: InferredGoal<DU, DE, Goal<DU, DE>> = proto_vulcan_closure!([|fresh_name_9| { conde { [x == [fresh_name_9 | _], fresh_name_9 == 1], [x == [_, fresh_name_9 | _], fresh_name_9 == 2] } }, member(x, [3, 1, 3])]); let g__: Goal<DU, DE> = ::proto_vulcan::GoalCast::cast_into(c__); let r__: InferredGoal<DU, DE, Goal<DU, DE>> = proto_vulcan!([g__.clone(), g__]); r__ }])
}
pub fn case_555(vars: &Vars) -> InferredGoal<DU, DE, Goal<DU, DE>> {
    let x = vars.v[0].clone();
    proto_vulcan!([|tz| { tz == [1], [1 | tz] != [1, 1] }, closure { [|x| { |tz| { [2, 3, 3] != [2 | tz], tz == [3, 3] }, member(x, []), conde { [member(x, [3]), [[x | x], [true, x, x], [x] | x] == x], [x == [2, []], |tz| { tz == [3, 3], [2, 3, 3, 3] != [2, 3 | tz] }], [x == [x, 3, x], [x] == x] } }, match 2 { Named { a: [3, y], b: [] } => { ([y], [x]) == y, |z, x| { [1 | [y]] != z, [[1, _, _]] == P3(y, [[], _], 2), (_, _) == y } }, [t, _, "a"] | _ => { match x { [[h, z | y], 1, [2]] | Named { a: [1], b: 3 } => , } }, }] }])
}
pub fn case_556(vars: &Vars) -> InferredGoal<DU, DE, Goal<DU, DE>> {
    let x = vars.v[0].clone();
    proto_vulcan!([|tz| { tz == [1], [1 | tz] != [1, 1] }, closure { [|x| { |fresh_name_9| { [2, 3, 3] != [2 | fresh_name_9], fresh_name_9 == [3, 3] }, member(x, []), conde { [member(x, [3]), [[x | x], [true, x, x], [x] | x] == x], [x == [2, []], |tz| { tz == [3, 3], [2, 3, 3, 3] != [2, 3 | tz] }], [x == [x, 3, x], [x] == x] } }, match 2 { Named { a: [3, y], b: [] } => { ([y], [x]) == y, |z, x| { [1 | [y]] != z, [[1, _, _]] == P3(y, [[], _], 2), (_, _) == y } }, [t, _, "a"] | _ => { match x { [[h, z | y], 1, [2]] | Named { a: [1], b: 3 } => , } }, }] }])
}
pub fn case_557(vars: &Vars) -> InferredGoal<DU, DE, Goal<DU, DE>> {
    let q = vars.v[0].clone();
    let x = vars.v[1].clone();
    proto_vulcan!([conde { q == ([[], 2], _), [[conde { q == 2, [[]] == q, [[q] == x, q == [3, [] | x]] }, match x { _ => { x == 7, x == 8 }, _ | y => , x | [[y]] => [q == q, [q] == q], }]] }, closure { [|t| { [t, 2 | 1] == x }, conde { [x] != q, [1] == x, [_ == q, x == [2, [_, q, 2 | q], [q, x]]] }] }])
}
pub fn case_558(vars: &Vars) -> InferredGoal<DU, DE, Goal<DU, DE>> {
    let q = vars.v[0].clone();
    let x = vars.v[1].clone();
    proto_vulcan!([conde { q == ([[], 2], _), [[conde { q == 2, [[]] == q, [[q] == x, q == [3, [] | x]] }, match x { _ => { x == 7, x == 8 }, _ | y => , x | [[y]] => [q == q, [q] == q], }]] }, closure { [|fresh_name_9| { [fresh_name_9, 2 | 1] == x }, conde { [x] != q, [1] == x, [_ == q, x == [2, [_, q, 2 | q], [q, x]]] }] }])
}
pub fn case_559(vars: &Vars) -> InferredGoal<DU, DE, Goal<DU, DE>> {
    let x = vars.v[0].clone();
    let y = vars.v[1].clone();
    proto_vulcan!([[matche x { "bc" | false => { append(x, y, [1, 1]), |x, y| { x == [3 | y], [y, [3, 1, y], [[], 1]] == (1, y) } }, }], conde { [[[[], y, y | [[], "bc"]] == y], x == x], y == ["a", 'a', 2], [(_, x) == x, [[], [_, []]] == y] }, closure { [[|y| {  }, (3, 2) != y]] }])
}
pub fn case_560(vars: &Vars) -> InferredGoal<DU, DE, Goal<DU, DE>> {
    let x = vars.v[0].clone();
    let y = vars.v[1].clone();
    proto_vulcan!([[matche x { "bc" | false => { append(x, y, [1, 1]), |x, fresh_name_9| { x == [3 | fresh_name_9], [fresh_name_9, [3, 1, fresh_name_9], [[], 1]] == (1, fresh_name_9) } }, }], conde { [[[[], y, y | [[], "bc"]] == y], x == x], y == ["a", 'a', 2], [(_, x) == x, [[], [_, []]] == y] }, closure { [[|y| {  }, (3, 2) != y]] }])
}
pub fn case_561(vars: &Vars) -> InferredGoal<DU, DE, Goal<DU, DE>> {
    let x = vars.v[0].clone();
    proto_vulcan!([[3 | 2] != x, |tz| { tz == [3], [3, 2, 3] != [3, 2 | tz] }, P3([x], 1, 3) == x])
}
pub fn case_562(vars: &Vars) -> InferredGoal<DU, DE, Goal<DU, DE>> {
    let x = vars.v[0].clone();
    proto_vulcan!([[3 | 2] != x, |fresh_name_9| { fresh_name_9 == [3], [3, 2, 3] != [3, 2 | fresh_name_9] }, P3([x], 1, 3) == x])
}
pub fn case_563(vars: &Vars) -> InferredGoal<DU, DE, Goal<DU, DE>> {
    let x = vars.v[0].clone();
    let y = vars.v[1].clone();
    proto_vulcan!([|t| { y == y, |z, y| { |y| { y != [2, _] }, |h| { |tz| { tz == [3, 2], [3 | tz] != [3, 3, 2] }, y == [z, h | _], P3([], y, [3, _]) == x }, y == y }, ([x, []], [[]]) == y }, { let c__: InferredGoal<DU, DE, Goal<DU, DE>> = proto_vulcan_closure!(|yy| { conde { [y == [yy | _], yy == 1], [y == [_, yy | _], yy == 2] } }); let g__: Goal<DU, DE> = ::proto_vulcan::GoalCast::cast_into(c__); let r__: InferredGoal<DU, DE, Goal<DU, DE>> = proto_vulcan!([g__.clone(), g__]); r__ }])
}
pub fn case_564(vars: &Vars) -> InferredGoal<DU, DE, Goal<DU, DE>> {
    let x = vars.v[0].clone();
    let y = vars.v[1].clone();
    proto_vulcan!([|t| { y == y, |fresh_name_9, y| { |y| { y != [2, _] }, |h| { |tz| { tz == [3, 2], [3 | tz] != [3, 3, 2] }, y == [fresh_name_9, h | _], P3([], y, [3, _]) == x }, y == y }, ([x, []], [[]]) == y }, { let c__: InferredGoal<DU, DE, Goal<DU, DE>> = proto_vulcan_closure!(|yy| { conde { [y == [yy | _], yy == 1], [y == [_, yy | _], yy == 2] } }); let g__: Goal<DU, DE> = ::proto_vulcan::GoalCast::cast_into(c__); let r__: InferredGoal<DU, DE, Goal<DU, DE>> = proto_vulcan!([g__.clone(), g__]); r__ }])
}
pub fn case_565(vars: &Vars) -> InferredGoal<DU, DE, Goal<DU, DE>> {
    let x = vars.v[0].clone();
    proto_vulcan!([x == x, x == (x, _), x == x, closure { [conde { [append(x, x, [1, 2]), _ != ['b', _ | x]], [[2] != ([_], x), member(x, [1, 3, 1])], [[], match 1 { _ | [['a', [], 3] | 1] => , }] }, matche x { _ => { x == false, matche [] { [[_, 3], [1, t, 2], [y, x, h]] => { h == ([t, _], 2) }, } }, }] }])
}
pub fn case_566(vars: &Vars) -> InferredGoal<DU, DE, Goal<DU, DE>> {
    let x = vars.v[0].clone();
    proto_vulcan!([x == x, x == (x, _), x == x, closure { [conde { [append(x, x, [1, 2]), _ != ['b', _ | x]], [[2] != ([_], x), member(x, [1, 3, 1])], [[], match 1 { _ | [['a', [], 3] | 1] => , }] }, matche x { _ => { x == false, matche [] { [[_, 3], [1, t, 2], [fresh_name_9, x, h]] => { h == ([t, _], 2) }, } }, }] }])
}
pub fn case_567(vars: &Vars) -> InferredGoal<DU, DE, Goal<DU, DE>> {
    let x = vars.v[0].clone();
    let y = vars.v[1].clone();
    proto_vulcan!([x == x, |z| { [[z, _], [2], []] == y }, |h, t| { y == [h | y], [[[]], _, [x, _] | t] == [[[], true, 2 | y], [h | y]] }])
}
pub fn case_568(vars: &Vars) -> InferredGoal<DU, DE, Goal<DU, DE>> {
    let x = vars.v[0].clone();
    let y = vars.v[1].clone();
    proto_vulcan!([x == x, |z| { [[z, _], [2], []] == y }, |h, fresh_name_9| { y == [h | y], [[[]], _, [x, _] | fresh_name_9] == [[[], true, 2 | y], [h | y]] }])
}
pub fn case_569(vars: &Vars) -> InferredGoal<DU, DE, Goal<DU, DE>> {
    let q = vars.v[0].clone();
    let x = vars.v[1].clone();
    proto_vulcan!([q == x, |tz| { [3 | tz] != [3, 2], tz == [2] }, { let c__: InferredGoal<DU, DE, Goal<DU, DE>> = proto_vulcan_closure!(|yy| { conde { [x == [yy | _], yy == 1], [x == [_, yy | _], yy == 2] } }); let g__: Goal<DU, DE> = ::proto_vulcan::GoalCast::cast_into(c__); let r__: InferredGoal<DU, DE, Goal<DU, DE>> = proto_vulcan!([g__.clone(), g__]); r__ }])
}
pub fn case_570(vars: &Vars) -> InferredGoal<DU, DE, Goal<DU, DE>> {
    let q = vars.v[0].clone();
    let x = vars.v[1].clone();
    proto_vulcan!([q == x, |tz| { [3 | tz] != [3, 2], tz == [2] }, { let c__: InferredGoal<DU, DE, Goal<DU, DE>> = proto_vulcan_closure!(|fresh_name_9| { conde { [x == [fresh_name_9 | _], fresh_name_9 == 1], [x == [_, fresh_name_9 | _], fresh_name_9 == 2] } }); let g__: Goal<DU, DE> = ::proto_vulcan::GoalCast::cast_into(c__); let r__: InferredGoal<DU, DE, Goal<DU, DE>> = proto_vulcan!([g__.clone(), g__]); r__ }])
}
pub fn case_571(vars: &Vars) -> InferredGoal<DU, DE, Goal<DU, DE>> {
    let q = vars.v[0].clone();
    let x = vars.v[1].clone();
    proto_vulcan!([x == "bc", |tz| { tz == [3], [2, 1, 3] != [2, 1 | tz] }, closure { [match x { t => [q == (q, []), [|tz| { [1, 2, 1] != [1, 2 | tz], tz == [1] }, t == [_]]], _ => [match x { [[x, 1 | h], 3, y | y] => append(y, x, [3, 3]), [] => [append(q, x, []), append(q, x, [3])], }, |h, x| { q == [[_]], [[] | x] == x }], Named { a: [], b: z } | [z, [false, h | false], [] | _] => , }, x == "a"] }])
}
pub fn case_572(vars: &Vars) -> InferredGoal<DU, DE, Goal<DU, DE>> {
    let q = vars.v[0].clone();
    let x = vars.v[1].clone();
    proto_vulcan!([x == "bc", |fresh_name_9| { fresh_name_9 == [3], [2, 1, 3] != [2, 1 | fresh_name_9] }, closure { [match x { t => [q == (q, []), [|tz| { [1, 2, 1] != [1, 2 | tz], tz == [1] }, t == [_]]], _ => [match x { [[x, 1 | h], 3, y | y] => append(y, x, [3, 3]), [] => [append(q, x, []), append(q, x, [3])], }, |h, x| { q == [[_]], [[] | x] == x }], Named { a: [], b: z } | [z, [false, h | false], [] | _] => , }, x == "a"] }])
}
pub fn case_573(vars: &Vars) -> InferredGoal<DU, DE, Goal<DU, DE>> {
    let x = vars.v[0].clone();
    proto_vulcan!([false, closure { [match x { "a" => { |t| { x != [3, 1], t == [_, 2, t | x] }, conde { [], member(x, [3, 2]) } }, [[], _ | _] => , y => { conde { [member(x, [3]), [2, 2] == y], [[x, true | y] == y, x == P3([], x, 1)] }, P3([], [3, y], y) != x }, }, match x { [[y, [], x], [3, h, [] | [2]] | []] | y => [|z| { |tz| { tz == [3, 3], [2 | tz] != [2, 3, 3] }, z == P3(y, [], [1]), z == P3(3, z, [3, 3]) }, |tz| { tz == [2], [1, 2 | tz] != [1, 2, 2] }], [["a", 2]] => , }] }])
}
pub fn case_574(vars: &Vars) -> InferredGoal<DU, DE, Goal<DU, DE>> {
    let x = vars.v[0].clone();
    proto_vulcan!([false, closure { [match x { "a" => { |t| { x != [3, 1], t == [_, 2, t | x] }, conde { [], member(x, [3, 2]) } }, [[], _ | _] => , fresh_name_9 => { conde { [member(x, [3]), [2, 2] == fresh_name_9], [[x, true | fresh_name_9] == fresh_name_9, x == P3([], x, 1)] }, P3([], [3, fresh_name_9], fresh_name_9) != x }, }, match x { [[y, [], x], [3, h, [] | [2]] | []] | y => [|z| { |tz| { tz == [3, 3], [2 | tz] != [2, 3, 3] }, z == P3(y, [], [1]), z == P3(3, z, [3, 3]) }, |tz| { tz == [2], [1, 2 | tz] != [1, 2, 2] }], [["a", 2]] => , }] }])
}
pub fn case_575(vars: &Vars) -> InferredGoal<DU, DE, Goal<DU, DE>> {
    let q = vars.v[0].clone();
    let x = vars.v[1].clone();
    proto_vulcan!([append(x, x, []), |tz| { tz == [2, 1], [2, 3 | tz] != [2, 3, 2, 1] }])
}
pub fn case_576(vars: &Vars) -> InferredGoal<DU, DE, Goal<DU, DE>> {
    let q = vars.v[0].clone();
    let x = vars.v[1].clone();
    proto_vulcan!([append(x, x, []), |fresh_name_9| { fresh_name_9 == [2, 1], [2, 3 | fresh_name_9] != [2, 3, 2, 1] }])
}
pub fn case_577(vars: &Vars) -> InferredGoal<DU, DE, Goal<DU, DE>> {
    let x = vars.v[0].clone();
    let y = vars.v[1].clone();
    proto_vulcan!([x == [y], |t| { conde { [[x, t] == t, |h, t| { t != [x, x | []], member(t, []) }] } }])
}
pub fn case_578(vars: &Vars) -> InferredGoal<DU, DE, Goal<DU, DE>> {
    let x = vars.v[0].clone();
    let y = vars.v[1].clone();
    proto_vulcan!([x == [y], |t| { conde { [[x, t] == t, |fresh_name_9, t| { t != [x, x | []], member(t, []) }] } }])
}
pub fn case_579(vars: &Vars) -> InferredGoal<DU, DE, Goal<DU, DE>> {
    let x = vars.v[0].clone();
    let y = vars.v[1].clone();
    proto_vulcan!([matche x { t => { match y { _ | _ => { member(x, [1, 2, 3]) }, y => { y == ['a' | 2] }, [[], [] | _] => { t != [[] | y] }, } }, _ => { x == 7, x == 8 }, [[y, 3]] => [append(y, y, []), append(y, y, [])], }])
}
pub fn case_580(vars: &Vars) -> InferredGoal<DU, DE, Goal<DU, DE>> {
    let x = vars.v[0].clone();
    let y = vars.v[1].clone();
    proto_vulcan!([matche x { fresh_name_9 => { match y { _ | _ => { member(x, [1, 2, 3]) }, y => { y == ['a' | 2] }, [[], [] | _] => { fresh_name_9 != [[] | y] }, } }, _ => { x == 7, x == 8 }, [[y, 3]] => [append(y, y, []), append(y, y, [])], }])
}
pub fn case_581(vars: &Vars) -> InferredGoal<DU, DE, Goal<DU, DE>> {
    let x = vars.v[0].clone();
    proto_vulcan!([[1 != x, match x { [2] => , }], |y, h| { member(x, []) }, 1 != x, { let c__: InferredGoal<DU, DE, Goal<DU, DE>> = proto_vulcan_closure!([|yy| { conde { [x == [yy | _], yy == 1], [x == [_, yy | _], yy == 2] } }, |t| { P3([1, 3], [3], []) != t, x == x, |tz| { tz == [2], [1 | tz] != [1, 2] } }]); let g__: Goal<DU, DE> = ::proto_vulcan::GoalCast::cast_into(c__); let r__: InferredGoal<DU, DE, Goal<DU, DE>> = proto_vulcan!([g__.clone(), g__]); r__ }])
}
pub fn case_582(vars: &Vars) -> InferredGoal<DU, DE, Goal<DU, DE>> {
    let x = vars.v[0].clone();
    proto_vulcan!([[1 != x, match x { [2] => , }], |y, fresh_name_9| { member(x, []) }, 1 != x, { let c__: InferredGoal<DU, DE, Goal<DU, DE>> = proto_vulcan_closure!([|yy| { conde { [x == [yy | _], yy == 1], [x == [_, yy | _], yy == 2] } }, |t| { P3([1, 3], [3], []) != t, x == x, |tz| { tz == [2], [1 | tz] != [1, 2] } }]); let g__: Goal<DU, DE> = ::proto_vulcan::GoalCast::cast_into(c__); let r__: InferredGoal<DU, DE, Goal<DU, DE>> = proto_vulcan!([g__.clone(), g__]); r__ }])
}
pub fn case_583(vars: &Vars) -> InferredGoal<DU, DE, Goal<DU, DE>> {
    let x = vars.v[0].clone();
    let y = vars.v[1].clone();
    proto_vulcan!([match y { z | _ => { _ != [[2, 1], [2, 1 | y], [y, _, 3 | x]], matche x { ['b'] => ([1, x], 2) == x, [[x, 3], [y, 'b', _]] => { append(y, x, [2]) }, P3(_, [[], 1], _) => { false, matche 2 { _ => , [[1, h, 2], [], [1, true]] => [[_] != y, h != [h, y, [1, _ | y] | h]], } }, } }, P3(3, 1, y) => [[y == [y, 2, [x, false, _]], |x, z| { x == x, false, [[1 | y]] == (x, _) }], |h, x| { [1, 2] == y, (2, 2) != x, conde { y == x, ['a', h] != y, [h != (1, []), [3, h, []] == h] } }], }, { let c__: InferredGoal<DU, DE, Goal<DU, DE>> = proto_vulcan_closure!([|yy| { conde { [x == [yy | _], yy == 1], [x == [_, yy | _], yy == 2] } }, y != true]); let g__: Goal<DU, DE> = ::proto_vulcan::GoalCast::cast_into(c__); let r__: InferredGoal<DU, DE, Goal<DU, DE>> = proto_vulcan!([g__.clone(), g__]); r__ }])
}
pub fn case_584(vars: &Vars) -> InferredGoal<DU, DE, Goal<DU, DE>> {
    let x = vars.v[0].clone();
    let y = vars.v[1].clone();
    proto_vulcan!([match y { z | _ => { _ != [[2, 1], [2, 1 | y], [y, _, 3 | x]], matche x { ['b'] => ([1, x], 2) == x, [[x, 3], [fresh_name_9, 'b', _]] => { append(fresh_name_9, x, [2]) }, P3(_, [[], 1], _) => { false, matche 2 { _ => , [[1, h, 2], [], [1, true]] => [[_] != y, h != [h, y, [1, _ | y] | h]], } }, } }, P3(3, 1, y) => [[y == [y, 2, [x, false, _]], |x, z| { x == x, false, [[1 | y]] == (x, _) }], |h, x| { [1, 2] == y, (2, 2) != x, conde { y == x, ['a', h] != y, [h != (1, []), [3, h, []] == h] } }], }, { let c__: InferredGoal<DU, DE, Goal<DU, DE>> = proto_vulcan_closure!([|yy| { conde { [x == [yy | _], yy == 1], [x == [_, yy | _], yy == 2] } }, y != true]); let g__: Goal<DU, DE> = ::proto_vulcan::GoalCast::cast_into(c__); let r__: InferredGoal<DU, DE, Goal<DU, DE>> = proto_vulcan!([g__.clone(), g__]); r__ }])
}
pub fn case_585(vars: &Vars) -> InferredGoal<DU, DE, Goal<DU, DE>> {
    let x = vars.v[0].clone();
    proto_vulcan!([[[matche x { _ => { x != false, x == [[x, x | x], [x | x], _ | x] }, [[2, x, 2], [2, 2, 2]] => , }]], [x == (3, 1), x != [1], conde { conde { [|tz| { [1, 3] != [1 | tz], tz == [3] }, false] }, [[x != x], [x == (x, 2), true, x != x]] }]])
}
pub fn case_586(vars: &Vars) -> InferredGoal<DU, DE, Goal<DU, DE>> {
    let x = vars.v[0].clone();
    proto_vulcan!([[[matche x { _ => { x != false, x == [[x, x | x], [x | x], _ | x] }, [[2, fresh_name_9, 2], [2, 2, 2]] => , }]], [x == (3, 1), x != [1], conde { conde { [|tz| { [1, 3] != [1 | tz], tz == [3] }, false] }, [[x != x], [x == (x, 2), true, x != x]] }]])
}
pub fn case_587(vars: &Vars) -> InferredGoal<DU, DE, Goal<DU, DE>> {
    let q = vars.v[0].clone();
    let x = vars.v[1].clone();
    proto_vulcan!([x == [x, 2 | x], x == [q, false | q], member(q, [2, 2, 3]), { let c__: InferredGoal<DU, DE, Goal<DU, DE>> = proto_vulcan_closure!([|yy| { conde { [x == [yy | _], yy == 1], [x == [_, yy | _], yy == 2] } }, q != x]); let g__: Goal<DU, DE> = ::proto_vulcan::GoalCast::cast_into(c__); let r__: InferredGoal<DU, DE, Goal<DU, DE>> = proto_vulcan!([g__.clone(), g__]); r__ }])
}
pub fn case_588(vars: &Vars) -> InferredGoal<DU, DE, Goal<DU, DE>> {
    let q = vars.v[0].clone();
    let x = vars.v[1].clone();
    proto_vulcan!([x == [x, 2 | x], x == [q, false | q], member(q, [2, 2, 3]), { let c__: InferredGoal<DU, DE, Goal<DU, DE>> = proto_vulcan_closure!([|fresh_name_9| { conde { [x == [fresh_name_9 | _], fresh_name_9 == 1], [x == [_, fresh_name_9 | _], fresh_name_9 == 2] } }, q != x]); let g__: Goal<DU, DE> = ::proto_vulcan::GoalCast::cast_into(c__); let r__: InferredGoal<DU, DE, Goal<DU, DE>> = proto_vulcan!([g__.clone(), g__]); r__ }])
}
pub fn case_589(vars: &Vars) -> InferredGoal<DU, DE, Goal<DU, DE>> {
    let x = vars.v[0].clone();
    let y = vars.v[1].clone();
    proto_vulcan!([matche x { _ => [x == 7, x == 8], [1, [x]] | _ => [|x, y| { matche false { _ => { y == 7, y == 8 }, }, y == [1, x, 1 | [3]] }, true], [2 | h] => , }])
}
pub fn case_590(vars: &Vars) -> InferredGoal<DU, DE, Goal<DU, DE>> {
    let x = vars.v[0].clone();
    let y = vars.v[1].clone();
    proto_vulcan!([matche x { _ => [x == 7, x == 8], [1, [x]] | _ => [|x, y| { matche false { _ => { y == 7, y == 8 }, }, y == [1, x, 1 | [3]] }, true], [2 | fresh_name_9] => , }])
}
pub fn case_591(vars: &Vars) -> InferredGoal<DU, DE, Goal<DU, DE>> {
    let x = vars.v[0].clone();
    proto_vulcan!([match x { x => , [y, [h], _] => , }, conde { [x != [[1, _, x], [x], [[] | x] | x], x != (x, x)], [x == [], conde { [], [[], _, x] != x, |x| { P3(x, [2], [3]) == x, [x, x] == [[_, 1, _], [x, false], [x]], [x, [_, 1, x | 3]] == [x, false, 3] } }], [] }, closure { x == [[x, x, 1], [1, _ | x] | x] }])
}
pub fn case_592(vars: &Vars) -> InferredGoal<DU, DE, Goal<DU, DE>> {
    let x = vars.v[0].clone();
    proto_vulcan!([match x { x => , [fresh_name_9, [h], _] => , }, conde { [x != [[1, _, x], [x], [[] | x] | x], x != (x, x)], [x == [], conde { [], [[], _, x] != x, |x| { P3(x, [2], [3]) == x, [x, x] == [[_, 1, _], [x, false], [x]], [x, [_, 1, x | 3]] == [x, false, 3] } }], [] }, closure { x == [[x, x, 1], [1, _ | x] | x] }])
}
pub fn case_593(vars: &Vars) -> InferredGoal<DU, DE, Goal<DU, DE>> {
    let q = vars.v[0].clone();
    let x = vars.v[1].clone();
    proto_vulcan!([[append(q, q, [2]), q == [2 | x], |y, z| { |tz| { [1, 2, 1] != [1, 2 | tz], tz == [1] }, matche [2] { [[2], [2 | z], [x, []] | []] => { [_, [x, z | y], [_, y]] == [z, [] | q] }, _ => , }, y == (z, y) }]])
}
pub fn case_594(vars: &Vars) -> InferredGoal<DU, DE, Goal<DU, DE>> {
    let q = vars.v[0].clone();
    let x = vars.v[1].clone();
    proto_vulcan!([[append(q, q, [2]), q == [2 | x], |y, z| { |tz| { [1, 2, 1] != [1, 2 | tz], tz == [1] }, matche [2] { [[2], [2 | fresh_name_9], [x, []] | []] => { [_, [x, fresh_name_9 | y], [_, y]] == [fresh_name_9, [] | q] }, _ => , }, y == (z, y) }]])
}
pub fn case_595(vars: &Vars) -> InferredGoal<DU, DE, Goal<DU, DE>> {
    let x = vars.v[0].clone();
    proto_vulcan!([[conde { [[2, x, _ | [x]] != x, conde { 1 == x, [] }], match x { _ | x => , } }, [[x, "a"] != x, 1 == x], |y, h| { |h, t| { true, h != h }, true == y, [[_, x | y] | y] == ['b'] }], |y| { matche x { Named { a: [h, []], b: 2 } => { x == [] }, [_] => _ == x, _ | [['a', 2 | [3, false]]] => , } }, |h, x| { [|x, h| {  }] }, closure { matche x { 2 => |h| { [_, h, 2] == x }, [[_], [z], false] => |h| {  }, h | [[2, x]] => , } }])
}
pub fn case_596(vars: &Vars) -> InferredGoal<DU, DE, Goal<DU, DE>> {
    let x = vars.v[0].clone();
    proto_vulcan!([[conde { [[2, x, _ | [x]] != x, conde { 1 == x, [] }], match x { _ | x => , } }, [[x, "a"] != x, 1 == x], |y, h| { |h, t| { true, h != h }, true == y, [[_, x | y] | y] == ['b'] }], |y| { matche x { Named { a: [h, []], b: 2 } => { x == [] }, [_] => _ == x, _ | [['a', 2 | [3, false]]] => , } }, |h, x| { [|x, h| {  }] }, closure { matche x { 2 => |h| { [_, h, 2] == x }, [[_], [fresh_name_9], false] => |h| {  }, h | [[2, x]] => , } }])
}
pub fn case_597(vars: &Vars) -> InferredGoal<DU, DE, Goal<DU, DE>> {
    let x = vars.v[0].clone();
    proto_vulcan!([|y| { conde { conde { y == [y, 2], [] }, [member(x, [1]), y == [2 | y]] } }, closure { x == 3 }])
}
pub fn case_598(vars: &Vars) -> InferredGoal<DU, DE, Goal<DU, DE>> {
    let x = vars.v[0].clone();
    proto_vulcan!([|fresh_name_9| { conde { conde { fresh_name_9 == [fresh_name_9, 2], [] }, [member(x, [1]), fresh_name_9 == [2 | fresh_name_9]] } }, closure { x == 3 }])
}
pub fn case_599(vars: &Vars) -> InferredGoal<DU, DE, Goal<DU, DE>> {
    let q = vars.v[0].clone();
    let x = vars.v[1].clone();
    proto_vulcan!([2 == [['a'] | [_]], conde { q == [[], q, []], [[["a", []] != q, match [1, q, true] { _ => , Named { a: [[], 1], b: x } | [[1, t, z | _]] => { q == [2, 1, 2], |tz| { tz == [2, 2], [1 | tz] != [1, 2, 2] } }, }]], x == [q] }, conde { [[conde { (2, 1) != [3, 'b' | x], [x != _, q == q], [[] == P3([], [], [q]), x == [q, [1, true | q] | x]] }, match x { 'b' => , [[2] | z] => , y => , }], |tz| { tz == [2], [1, 2, 2] != [1, 2 | tz] }], [x != [2, 1], (_, 3) != 2] }])
}
pub fn case_600(vars: &Vars) -> InferredGoal<DU, DE, Goal<DU, DE>> {
    let q = vars.v[0].clone();
    let x = vars.v[1].clone();
    proto_vulcan!([2 == [['a'] | [_]], conde { q == [[], q, []], [[["a", []] != q, match [1, q, true] { _ => , Named { a: [[], 1], b: x } | [[1, t, z | _]] => { q == [2, 1, 2], |fresh_name_9| { fresh_name_9 == [2, 2], [1 | fresh_name_9] != [1, 2, 2] } }, }]], x == [q] }, conde { [[conde { (2, 1) != [3, 'b' | x], [x != _, q == q], [[] == P3([], [], [q]), x == [q, [1, true | q] | x]] }, match x { 'b' => , [[2] | z] => , y => , }], |tz| { tz == [2], [1, 2, 2] != [1, 2 | tz] }], [x != [2, 1], (_, 3) != 2] }])
}
pub fn case_601(vars: &Vars) -> InferredGoal<DU, DE, Goal<DU, DE>> {
    let q = vars.v[0].clone();
    let x = vars.v[1].clone();
    proto_vulcan!([match x { _ => { member(q, [1, 2, 3]) }, Named { a: _, b: z } => match x { _ => { |y, t| { x == P3([2], [t], 1) } }, Named { a: [[]], b: 3 } | _ => , }, [[h | []], z] => , }])
}
pub fn case_602(vars: &Vars) -> InferredGoal<DU, DE, Goal<DU, DE>> {
    let q = vars.v[0].clone();
    let x = vars.v[1].clone();
    proto_vulcan!([match x { _ => { member(q, [1, 2, 3]) }, Named { a: _, b: fresh_name_9 } => match x { _ => { |y, t| { x == P3([2], [t], 1) } }, Named { a: [[]], b: 3 } | _ => , }, [[h | []], z] => , }])
}
pub fn case_603(vars: &Vars) -> InferredGoal<DU, DE, Goal<DU, DE>> {
    let q = vars.v[0].clone();
    let x = vars.v[1].clone();
    proto_vulcan!([[matche ['b'] { [1, [[], t | []]] | [[], [1, x, y], "a" | h] => , _ | _ => { [false, q | q] != x }, }, [|y| { _ == y, q == y }, [x, q] != q], x == [2, x]]])
}
pub fn case_604(vars: &Vars) -> InferredGoal<DU, DE, Goal<DU, DE>> {
    let q = vars.v[0].clone();
    let x = vars.v[1].clone();
    proto_vulcan!([[matche ['b'] { [1, [[], t | []]] | [[], [1, x, y], "a" | h] => , _ | _ => { [false, q | q] != x }, }, [|fresh_name_9| { _ == fresh_name_9, q == fresh_name_9 }, [x, q] != q], x == [2, x]]])
}
pub fn case_605(vars: &Vars) -> InferredGoal<DU, DE, Goal<DU, DE>> {
    let x = vars.v[0].clone();
    proto_vulcan!([[[conde { [x == x, x == ([_], _)], member(x, []) }, conde { [false, [1] == [[x, 3, _] | x]], [false, x == []], [_ == x, x == 2] }, [P3([2], 3, 2) == (1, [])]], match x { Named { a: z, b: t } => { conde { z == P3([2, 2], 3, []) } }, [[[], 1], 'b', _] => , h | Named { a: [x, []], b: 3 } => , }, P3([], 1, 2) == x]])
}
pub fn case_606(vars: &Vars) -> InferredGoal<DU, DE, Goal<DU, DE>> {
    let x = vars.v[0].clone();
    proto_vulcan!([[[conde { [x == x, x == ([_], _)], member(x, []) }, conde { [false, [1] == [[x, 3, _] | x]], [false, x == []], [_ == x, x == 2] }, [P3([2], 3, 2) == (1, [])]], match x { Named { a: z, b: fresh_name_9 } => { conde { z == P3([2, 2], 3, []) } }, [[[], 1], 'b', _] => , h | Named { a: [x, []], b: 3 } => , }, P3([], 1, 2) == x]])
}
pub fn case_607(vars: &Vars) -> InferredGoal<DU, DE, Goal<DU, DE>> {
    let x = vars.v[0].clone();
    proto_vulcan!([matche x { _ => [x == x, x == x], [x] => { match 1 { _ | [h, 2] => [x != 'b', member(x, [3])], _ => [x == 7, x == 8], [[_, _, 1 | x], [_], []] | _ => , } }, _ => [x == 7, x == 8], }, x == x, [_, 3] != x, { let c__: InferredGoal<DU, DE, Goal<DU, DE>> = proto_vulcan_closure!(|yy| { conde { [x == [yy | _], yy == 1], [x == [_, yy | _], yy == 2] } }); let g__: Goal<DU, DE> = ::proto_vulcan::GoalCast::cast_into(c__); let r__: InferredGoal<DU, DE, Goal<DU, DE>> = proto_vulcan!([g__.clone(), g__]); r__ }])
}
pub fn case_608(vars: &Vars) -> InferredGoal<DU, DE, Goal<DU, DE>> {
    let x = vars.v[0].clone();
    proto_vulcan!([matche x { _ => [x == x, x == x], [x] => { match 1 { _ | [h, 2] => [x != 'b', member(x, [3])], _ => [x == 7, x == 8], [[_, _, 1 | x], [_], []] | _ => , } }, _ => [x == 7, x == 8], }, x == x, [_, 3] != x, { let c__: InferredGoal<DU, DE, Goal<DU, DE>> = proto_vulcan_closure!(|fresh_name_9| { conde { [x == [fresh_name_9 | _], fresh_name_9 == 1], [x == [_, fresh_name_9 | _], fresh_name_9 == 2] } }); let g__: Goal<DU, DE> = ::proto_vulcan::GoalCast::cast_into(c__); let r__: InferredGoal<DU, DE, Goal<DU, DE>> = proto_vulcan!([g__.clone(), g__]); r__ }])
}
pub fn case_609(vars: &Vars) -> InferredGoal<DU, DE, Goal<DU, DE>> {
    let x = vars.v[0].clone();
    proto_vulcan!([match 2 { t => { conde { [_ == t, [[x, t, x], 2, 1] == _], [|x, z| { [1, x] == t }, |tz| { tz == [3, 3], [2, 1, 3, 3] != [2, 1 | tz] }], x == P3(x, t, x) } }, }, conde { [|y| { [[x], 1 | []] == [_, 2, 1] }, conde { [], [conde { [x == [1, x, [3, x]], [[], x, [2, x, 2]] == x] }, append(x, x, [])], [] }], [x == [[], [x, x, x]], x != P3([2, 3], _, x)] }, { let c__: InferredGoal<DU, DE, Goal<DU, DE>> = proto_vulcan_closure!(|yy| { conde { [x == [yy | _], yy == 1], [x == [_, yy | _], yy == 2] } }); let g__: Goal<DU, DE> = ::proto_vulcan::GoalCast::cast_into(c__); let r__: InferredGoal<DU, DE, Goal<DU, DE>> = proto_vulcan!([g__.clone(), g__]); r__ }])
}
pub fn case_610(vars: &Vars) -> InferredGoal<DU, DE, Goal<DU, DE>> {
    let x = vars.v[0].clone();
    proto_vulcan!([match 2 { t => { conde { [_ == t, [[x, t, x], 2, 1] == _], [|x, z| { [1, x] == t }, |tz| { tz == [3, 3], [2, 1, 3, 3] != [2, 1 | tz] }], x == P3(x, t, x) } }, }, conde { [|y| { [[x], 1 | []] == [_, 2, 1] }, conde { [], [conde { [x == [1, x, [3, x]], [[], x, [2, x, 2]] == x] }, append(x, x, [])], [] }], [x == [[], [x, x, x]], x != P3([2, 3], _, x)] }, { let c__: InferredGoal<DU, DE, Goal<DU, DE>> = proto_vulcan_closure!(|fresh_name_9| { conde { [x == [fresh_name_9 | _], fresh_name_9 == 1], [x == [_, fresh_name_9 | _], fresh_name_9 == 2] } }); let g__: Goal<DU, DE> = ::proto_vulcan::GoalCast::cast_into(c__); let r__: InferredGoal<DU, DE, Goal<DU, DE>> = proto_vulcan!([g__.clone(), g__]); r__ }])
}
pub fn case_611(vars: &Vars) -> InferredGoal<DU, DE, Goal<DU, DE>> {
    let x = vars.v[0].clone();
    let y = vars.v[1].clone();
    proto_vulcan!([|h| { true, member(h, [1, 2]) }, |z| { |tz| { tz == [3, 1], [3 | tz] != [3, 3, 1] }, |t| { z != [1, t], y == ([], 3), matche t { 1 => false, [[_], [h, t, h], []] | [[_ | _], [2, [] | _] | x] => { y == z }, [[y], [[]], h | z] => [t, 2] == t, } }, y == [[true], 2, [x, 2, x]] }, |y, h| { x == [[], y, y], |tz| { tz == [1, 2], [2, 1, 2] != [2 | tz] } }, { let c__: InferredGoal<DU, DE, Goal<DU, DE>> = proto_vulcan_closure!(|yy| { conde { [x == [yy | _], yy == 1], [x == [_, yy | _], yy == 2] } }); let g__: Goal<DU, DE> = ::proto_vulcan::GoalCast::cast_into(c__); let r__: InferredGoal<DU, DE, Goal<DU, DE>> = proto_vulcan!([g__.clone(), g__]); r__ }])
}
pub fn case_612(vars: &Vars) -> InferredGoal<DU, DE, Goal<DU, DE>> {
    let x = vars.v[0].clone();
    let y = vars.v[1].clone();
    proto_vulcan!([|h| { true, member(h, [1, 2]) }, |z| { |tz| { tz == [3, 1], [3 | tz] != [3, 3, 1] }, |t| { z != [1, t], y == ([], 3), matche t { 1 => false, [[_], [h, t, h], []] | [[_ | _], [2, [] | _] | x] => { y == z }, [[y], [[]], h | z] => [t, 2] == t, } }, y == [[true], 2, [x, 2, x]] }, |y, h| { x == [[], y, y], |fresh_name_9| { fresh_name_9 == [1, 2], [2, 1, 2] != [2 | fresh_name_9] } }, { let c__: InferredGoal<DU, DE, Goal<DU, DE>> = proto_vulcan_closure!(|yy| { conde { [x == [yy | _], yy == 1], [x == [_, yy | _], yy == 2] } }); let g__: Goal<DU, DE> = ::proto_vulcan::GoalCast::cast_into(c__); let r__: InferredGoal<DU, DE, Goal<DU, DE>> = proto_vulcan!([g__.clone(), g__]); r__ }])
}
pub fn case_613(vars: &Vars) -> InferredGoal<DU, DE, Goal<DU, DE>> {
    let q = vars.v[0].clone();
    let x = vars.v[1].clone();
    proto_vulcan!([conde { x == [1, q], [match q { [2 | []] => conde { [_ == x, x != q], append(x, q, [3, 2]) }, z => , [] | _ => , }, x == [x, q, 1]] }, conde { [q == 2, [[], [q, 2, x], [q | x] | x] == x] }, closure { [true, append(x, q, [1])] }])
}
pub fn case_614(vars: &Vars) -> InferredGoal<DU, DE, Goal<DU, DE>> {
    let q = vars.v[0].clone();
    let x = vars.v[1].clone();
    proto_vulcan!([conde { x == [1, q], [match q { [2 | []] => conde { [_ == x, x != q], append(x, q, [3, 2]) }, fresh_name_9 => , [] | _ => , }, x == [x, q, 1]] }, conde { [q == 2, [[], [q, 2, x], [q | x] | x] == x] }, closure { [true, append(x, q, [1])] }])
}
pub fn case_615(vars: &Vars) -> InferredGoal<DU, DE, Goal<DU, DE>> {
    let x = vars.v[0].clone();
    proto_vulcan!([x == ['b', x], [[x] | x] == x, |t| { match t { 1 => , } }])
}
pub fn case_616(vars: &Vars) -> InferredGoal<DU, DE, Goal<DU, DE>> {
    let x = vars.v[0].clone();
    proto_vulcan!([x == ['b', x], [[x] | x] == x, |fresh_name_9| { match fresh_name_9 { 1 => , } }])
}
pub fn case_617(vars: &Vars) -> InferredGoal<DU, DE, Goal<DU, DE>> {
    let x = vars.v[0].clone();
    let y = vars.v[1].clone();
    proto_vulcan!([x == 'b', |h, z| { |tz| { tz == [3], [2, 2, 3] != [2, 2 | tz] } }, { let c__: InferredGoal<DU, DE, Goal<DU, DE>> = proto_vulcan_closure!(|yy| { conde { [y == [yy | _], yy == 1], [y == [_, yy | _], yy == 2] } }); let g__: Goal<DU, DE> = ::proto_vulcan::GoalCast::cast_into(c__); let r__: InferredGoal<DU, DE, Goal<DU, DE>> = proto_vulcan!([g__.clone(), g__]); r__ }])
}
pub fn case_618(vars: &Vars) -> InferredGoal<DU, DE, Goal<DU, DE>> {
    let x = vars.v[0].clone();
    let y = vars.v[1].clone();
    proto_vulcan!([x == 'b', |h, fresh_name_9| { |tz| { tz == [3], [2, 2, 3] != [2, 2 | tz] } }, { let c__: InferredGoal<DU, DE, Goal<DU, DE>> = proto_vulcan_closure!(|yy| { conde { [y == [yy | _], yy == 1], [y == [_, yy | _], yy == 2] } }); let g__: Goal<DU, DE> = ::proto_vulcan::GoalCast::cast_into(c__); let r__: InferredGoal<DU, DE, Goal<DU, DE>> = proto_vulcan!([g__.clone(), g__]); r__ }])
}
pub fn case_619(vars: &Vars) -> InferredGoal<DU, DE, Goal<DU, DE>> {
    let x = vars.v[0].clone();
    let y = vars.v[1].clone();
    proto_vulcan!([P3(3, x, 1) == x, |t| { match t { _ => { member(y, [1, 2, 3]) }, }, append(y, t, [3, 3]), |x| { match y { [h] => x == ([], t), [[y, "bc" | []], [2, 1, y], [3]] => { y == (x, [[]]) }, }, match t { y => , }, x == y } }])
}
pub fn case_620(vars: &Vars) -> InferredGoal<DU, DE, Goal<DU, DE>> {
    let x = vars.v[0].clone();
    let y = vars.v[1].clone();
    proto_vulcan!([P3(3, x, 1) == x, |t| { match t { _ => { member(y, [1, 2, 3]) }, }, append(y, t, [3, 3]), |x| { match y { [fresh_name_9] => x == ([], t), [[y, "bc" | []], [2, 1, y], [3]] => { y == (x, [[]]) }, }, match t { y => , }, x == y } }])
}
pub fn case_621(vars: &Vars) -> InferredGoal<DU, DE, Goal<DU, DE>> {
    let x = vars.v[0].clone();
    proto_vulcan!([matche x { [[2, x], _] | [[3, x, t], 1 | y] => { [[]] != x }, P3(1, [], h) => , [1, [2, _ | _], t] | [[3, h, [] | z], [_], [t]] => , }, matche x { _ | false => , }])
}
pub fn case_622(vars: &Vars) -> InferredGoal<DU, DE, Goal<DU, DE>> {
    let x = vars.v[0].clone();
    proto_vulcan!([matche x { [[2, x], _] | [[3, x, t], 1 | y] => { [[]] != x }, P3(1, [], fresh_name_9) => , [1, [2, _ | _], t] | [[3, h, [] | z], [_], [t]] => , }, matche x { _ | false => , }])
}
pub fn case_623(vars: &Vars) -> InferredGoal<DU, DE, Goal<DU, DE>> {
    let x = vars.v[0].clone();
    let y = vars.v[1].clone();
    proto_vulcan!([matche y { _ => [y == 7, y == 8], }, |y, h| { x == P3([x, x], 2, []), y == P3(_, 1, 3) }])
}
pub fn case_624(vars: &Vars) -> InferredGoal<DU, DE, Goal<DU, DE>> {
    let x = vars.v[0].clone();
    let y = vars.v[1].clone();
    proto_vulcan!([matche y { _ => [y == 7, y == 8], }, |y, fresh_name_9| { x == P3([x, x], 2, []), y == P3(_, 1, 3) }])
}
pub fn case_625(vars: &Vars) -> InferredGoal<DU, DE, Goal<DU, DE>> {
    let q = vars.v[0].clone();
    let x = vars.v[1].clone();
    proto_vulcan!([conde { [q | x] != ["bc", [x, [], 1]], [|y, h| {  }, []], [conde { ['b' != x, _ == q], [[q] != [[q, _, _], [[], 1, 2]], |h, y| {  }], [[false, [3, q | 3] != q, [_ | x] != "bc"], conde { q != [[]], [|tz| { [2, 2, 1] != [2, 2 | tz], tz == [1] }, member(q, [1, 2, 1])] }] }, match q { 1 | 1 => [[[q], 2] == [_], q == [2, q, x]], _ => { x == x, |tz| { tz == [3], [1, 2 | tz] != [1, 2, 3] } }, }] }, { let c__: InferredGoal<DU, DE, Goal<DU, DE>> = proto_vulcan_closure!(|yy| { conde { [x == [yy | _], yy == 1], [x == [_, yy | _], yy == 2] } }); let g__: Goal<DU, DE> = ::proto_vulcan::GoalCast::cast_into(c__); let r__: InferredGoal<DU, DE, Goal<DU, DE>> = proto_vulcan!([g__.clone(), g__]); r__ }])
}
pub fn case_626(vars: &Vars) -> InferredGoal<DU, DE, Goal<DU, DE>> {
    let q = vars.v[0].clone();
    let x = vars.v[1].clone();
    proto_vulcan!([conde { [q | x] != ["bc", [x, [], 1]], [|y, h| {  }, []], [conde { ['b' != x, _ == q], [[q] != [[q, _, _], [[], 1, 2]], |h, fresh_name_9| {  }], [[false, [3, q | 3] != q, [_ | x] != "bc"], conde { q != [[]], [|tz| { [2, 2, 1] != [2, 2 | tz], tz == [1] }, member(q, [1, 2, 1])] }] }, match q { 1 | 1 => [[[q], 2] == [_], q == [2, q, x]], _ => { x == x, |tz| { tz == [3], [1, 2 | tz] != [1, 2, 3] } }, }] }, { let c__: InferredGoal<DU, DE, Goal<DU, DE>> = proto_vulcan_closure!(|yy| { conde { [x == [yy | _], yy == 1], [x == [_, yy | _], yy == 2] } }); let g__: Goal<DU, DE> = ::proto_vulcan::GoalCast::cast_into(c__); let r__: InferredGoal<DU, DE, Goal<DU, DE>> = proto_vulcan!([g__.clone(), g__]); r__ }])
}
pub fn case_627(vars: &Vars) -> InferredGoal<DU, DE, Goal<DU, DE>> {
    let q = vars.v[0].clone();
    let x = vars.v[1].clone();
    proto_vulcan!([q == [x, 1, false], x != x, [1 == q, matche x { _ => member(q, [1, 2, 3]), Named { a: [], b: t } => { [append(t, q, [])], q != false }, y => , }, |tz| { tz == [3, 3], [3, 3, 3] != [3 | tz] }]])
}
pub fn case_628(vars: &Vars) -> InferredGoal<DU, DE, Goal<DU, DE>> {
    let q = vars.v[0].clone();
    let x = vars.v[1].clone();
    proto_vulcan!([q == [x, 1, false], x != x, [1 == q, matche x { _ => member(q, [1, 2, 3]), Named { a: [], b: t } => { [append(t, q, [])], q != false }, y => , }, |fresh_name_9| { fresh_name_9 == [3, 3], [3, 3, 3] != [3 | fresh_name_9] }]])
}
pub fn case_629(vars: &Vars) -> InferredGoal<DU, DE, Goal<DU, DE>> {
    let x = vars.v[0].clone();
    proto_vulcan!([[conde { [[], match x { [[2, []], ["a"], 3] | _ => { x != [[], x, x | x] }, [z, [y]] => , }], [match x { [[_, []]] => append(x, x, [3]), y => , }, [|tz| { tz == [1], [1, 2, 1] != [1, 2 | tz] }, (x, [x]) != x]] }, (3, x) == x], |y| { x != y, conde { y != ([], _), [[], [[y, []], x] == [x, _, []]] } }, x == x, closure { [|z, h| { |tz| { tz == [1], [1 | tz] != [1, 1] }, [append(x, z, []), (_, 2) == (_, 3)], [[_, [], 2], [x, [] | h]] != z }, conde { [([[]], x) != x, matche 1 { _ => { [[x, x, x] | [1, _]] == x }, _ => , }], [matche x { x => [[x, 'b', x] == x, P3(x, 3, 2) != x], }, matche [_] { [["bc" | _], [x, _], y] | Named { a: [[]], b: 2 } => , }] }] }])
}
pub fn case_630(vars: &Vars) -> InferredGoal<DU, DE, Goal<DU, DE>> {
    let x = vars.v[0].clone();
    proto_vulcan!([[conde { [[], match x { [[2, []], ["a"], 3] | _ => { x != [[], x, x | x] }, [z, [fresh_name_9]] => , }], [match x { [[_, []]] => append(x, x, [3]), y => , }, [|tz| { tz == [1], [1, 2, 1] != [1, 2 | tz] }, (x, [x]) != x]] }, (3, x) == x], |y| { x != y, conde { y != ([], _), [[], [[y, []], x] == [x, _, []]] } }, x == x, closure { [|z, h| { |tz| { tz == [1], [1 | tz] != [1, 1] }, [append(x, z, []), (_, 2) == (_, 3)], [[_, [], 2], [x, [] | h]] != z }, conde { [([[]], x) != x, matche 1 { _ => { [[x, x, x] | [1, _]] == x }, _ => , }], [matche x { x => [[x, 'b', x] == x, P3(x, 3, 2) != x], }, matche [_] { [["bc" | _], [x, _], y] | Named { a: [[]], b: 2 } => , }] }] }])
}
pub fn case_631(vars: &Vars) -> InferredGoal<DU, DE, Goal<DU, DE>> {
    let x = vars.v[0].clone();
    let y = vars.v[1].clone();
    proto_vulcan!([y == x, |z| { matche y { x => [[x] == (1, [[], _]), append(y, x, [])], P3(x, [x], [x, _]) => , _ => { [member(x, [1, 3])], [y] == y }, }, [[3], [_] | z] != (x, _) }, closure { ['b' == y, match y { Named { a: 1, b: 3 } => [["bc", 3 | y] == [y], matche x { _ => , [[2, h, true], _, ['b', z] | _] | [] => { append(x, x, [2]), x == x }, }], [2, [z]] => { ["bc", 2, true] == x }, }] }])
}
pub fn case_632(vars: &Vars) -> InferredGoal<DU, DE, Goal<DU, DE>> {
    let x = vars.v[0].clone();
    let y = vars.v[1].clone();
    proto_vulcan!([y == x, |z| { matche y { x => [[x] == (1, [[], _]), append(y, x, [])], P3(fresh_name_9, [fresh_name_9], [fresh_name_9, _]) => , _ => { [member(x, [1, 3])], [y] == y }, }, [[3], [_] | z] != (x, _) }, closure { ['b' == y, match y { Named { a: 1, b: 3 } => [["bc", 3 | y] == [y], matche x { _ => , [[2, h, true], _, ['b', z] | _] | [] => { append(x, x, [2]), x == x }, }], [2, [z]] => { ["bc", 2, true] == x }, }] }])
}
pub fn case_633(vars: &Vars) -> InferredGoal<DU, DE, Goal<DU, DE>> {
    let x = vars.v[0].clone();
    proto_vulcan!([conde { [[matche [1] { Named { a: [3, []], b: 1 } | [3 | _] => , }, matche [2, []] { P3(3, [], 1) => [x != P3(1, 1, x), false], [[3, z] | h] => , }, ["a" | [3, _]] == [[], [[], x, 2 | x], []]]], [[conde { [P3(2, x, x) == x, |tz| { [1 | tz] != [1, 1, 1], tz == [1, 1] }], [x == [_, x], true], [] }, |x, h| { append(x, h, []), append(x, x, [2, 2]) }, [x != (x, [3])]], conde { conde { [1, 3, x | x] != x, [], x == ['b' | [x]] }, [[], [x, [] | x] != [["bc", true, 'b' | x] | [true, x]]], [] }] }, x == [false, [x, 2 | x]], conde { [[_ != _]], [] }])
}
pub fn case_634(vars: &Vars) -> InferredGoal<DU, DE, Goal<DU, DE>> {
    let x = vars.v[0].clone();
    proto_vulcan!([conde { [[matche [1] { Named { a: [3, []], b: 1 } | [3 | _] => , }, matche [2, []] { P3(3, [], 1) => [x != P3(1, 1, x), false], [[3, z] | h] => , }, ["a" | [3, _]] == [[], [[], x, 2 | x], []]]], [[conde { [P3(2, x, x) == x, |fresh_name_9| { [1 | fresh_name_9] != [1, 1, 1], fresh_name_9 == [1, 1] }], [x == [_, x], true], [] }, |x, h| { append(x, h, []), append(x, x, [2, 2]) }, [x != (x, [3])]], conde { conde { [1, 3, x | x] != x, [], x == ['b' | [x]] }, [[], [x, [] | x] != [["bc", true, 'b' | x] | [true, x]]], [] }] }, x == [false, [x, 2 | x]], conde { [[_ != _]], [] }])
}
pub fn case_635(vars: &Vars) -> InferredGoal<DU, DE, Goal<DU, DE>> {
    let q = vars.v[0].clone();
    let x = vars.v[1].clone();
    proto_vulcan!([|tz| { tz == [3, 1], [1, 3 | tz] != [1, 3, 3, 1] }, q == x, |y, x| { [x == [[], x | "bc"], conde { append(x, x, [1, 2]) }] }])
}
pub fn case_636(vars: &Vars) -> InferredGoal<DU, DE, Goal<DU, DE>> {
    let q = vars.v[0].clone();
    let x = vars.v[1].clone();
    proto_vulcan!([|tz| { tz == [3, 1], [1, 3 | tz] != [1, 3, 3, 1] }, q == x, |y, fresh_name_9| { [fresh_name_9 == [[], fresh_name_9 | "bc"], conde { append(fresh_name_9, fresh_name_9, [1, 2]) }] }])
}
pub fn case_637(vars: &Vars) -> InferredGoal<DU, DE, Goal<DU, DE>> {
    let x = vars.v[0].clone();
    let y = vars.v[1].clone();
    proto_vulcan!([|tz| { [2, 1, 1, 1] != [2, 1 | tz], tz == [1, 1] }, [[x, y] == P3([], _, _), matche x { P3([_, 3], _, _) => { match x { 1 | _ => [member(x, [2, 1, 2]), 3 == x], _ => { |tz| { [1 | tz] != [1, 2], tz == [2] }, x != [x, x | [1, 3]] }, _ => , } }, _ => { |h, y| { |tz| { [3, 2, 1] != [3 | tz], tz == [2, 1] }, _ != [] } }, }, |z, y| { 3 != z, [y, y] == y }]])
}
pub fn case_638(vars: &Vars) -> InferredGoal<DU, DE, Goal<DU, DE>> {
    let x = vars.v[0].clone();
    let y = vars.v[1].clone();
    proto_vulcan!([|tz| { [2, 1, 1, 1] != [2, 1 | tz], tz == [1, 1] }, [[x, y] == P3([], _, _), matche x { P3([_, 3], _, _) => { match x { 1 | _ => [member(x, [2, 1, 2]), 3 == x], _ => { |tz| { [1 | tz] != [1, 2], tz == [2] }, x != [x, x | [1, 3]] }, _ => , } }, _ => { |h, y| { |tz| { [3, 2, 1] != [3 | tz], tz == [2, 1] }, _ != [] } }, }, |z, fresh_name_9| { 3 != z, [fresh_name_9, fresh_name_9] == fresh_name_9 }]])
}
pub fn case_639(vars: &Vars) -> InferredGoal<DU, DE, Goal<DU, DE>> {
    let x = vars.v[0].clone();
    let y = vars.v[1].clone();
    proto_vulcan!([[[1, 'a', 2], 1, [3, y] | y] != y, conde { y == 3, |h| { true, matche y { [[[], 2, true | [2, z]], [2, t, 2] | _] => { x != ['a' | x], [y | h] == h }, }, [[_, h, x], 1, [2]] == 2 } }, member(x, [3, 2]), { let c__: InferredGoal<DU, DE, Goal<DU, DE>> = proto_vulcan_closure!(|yy| { conde { [y == [yy | _], yy == 1], [y == [_, yy | _], yy == 2] } }); let g__: Goal<DU, DE> = ::proto_vulcan::GoalCast::cast_into(c__); let r__: InferredGoal<DU, DE, Goal<DU, DE>> = proto_vulcan!([g__.clone(), g__]); r__ }])
}
pub fn case_640(vars: &Vars) -> InferredGoal<DU, DE, Goal<DU, DE>> {
    let x = vars.v[0].clone();
    let y = vars.v[1].clone();
    proto_vulcan!([[[1, 'a', 2], 1, [3, y] | y] != y, conde { y == 3, |h| { true, matche y { [[[], 2, true | [2, fresh_name_9]], [2, t, 2] | _] => { x != ['a' | x], [y | h] == h }, }, [[_, h, x], 1, [2]] == 2 } }, member(x, [3, 2]), { let c__: InferredGoal<DU, DE, Goal<DU, DE>> = proto_vulcan_closure!(|yy| { conde { [y == [yy | _], yy == 1], [y == [_, yy | _], yy == 2] } }); let g__: Goal<DU, DE> = ::proto_vulcan::GoalCast::cast_into(c__); let r__: InferredGoal<DU, DE, Goal<DU, DE>> = proto_vulcan!([g__.clone(), g__]); r__ }])
}
pub const NCASES: usize = 641;
pub fn case(i: usize, vars: &Vars) -> Goal<DU, DE> {
    match i {
        0 => case_0(vars).goal,
        1 => case_1(vars).goal,
        2 => case_2(vars).goal,
        3 => case_3(vars).goal,
        4 => case_4(vars).goal,
        5 => case_5(vars).goal,
        6 => case_6(vars).goal,
        7 => case_7(vars).goal,
        8 => case_8(vars).goal,
        9 => case_9(vars).goal,
        10 => case_10(vars).goal,
        11 => case_11(vars).goal,
        12 => case_12(vars).goal,
        13 => case_13(vars).goal,
        14 => case_14(vars).goal,
        15 => case_15(vars).goal,
        16 => case_16(vars).goal,
        17 => case_17(vars).goal,
        18 => case_18(vars).goal,
        19 => case_19(vars).goal,
        20 => case_20(vars).goal,
        21 => case_21(vars).goal,
        22 => case_22(vars).goal,
        23 => case_23(vars).goal,
        24 => case_24(vars).goal,
        25 => case_25(vars).goal,
        26 => case_26(vars).goal,
        27 => case_27(vars).goal,
        28 => case_28(vars).goal,
        29 => case_29(vars).goal,
        30 => case_30(vars).goal,
        31 => case_31(vars).goal,
        32 => case_32(vars).goal,
        33 => case_33(vars).goal,
        34 => case_34(vars).goal,
        35 => case_35(vars).goal,
        36 => case_36(vars).goal,
        37 => case_37(vars).goal,
        38 => case_38(vars).goal,
        39 => case_39(vars).goal,
        40 => case_40(vars).goal,
        41 => case_41(vars).goal,
        42 => case_42(vars).goal,
        43 => case_43(vars).goal,
        44 => case_44(vars).goal,
        45 => case_45(vars).goal,
        46 => case_46(vars).goal,
        47 => case_47(vars).goal,
        48 => case_48(vars).goal,
        49 => case_49(vars).goal,
        50 => case_50(vars).goal,
        51 => case_51(vars).goal,
        52 => case_52(vars).goal,
        53 => case_53(vars).goal,
        54 => case_54(vars).goal,
        55 => case_55(vars).goal,
        56 => case_56(vars).goal,
        57 => case_57(vars).goal,
        58 => case_58(vars).goal,
        59 => case_59(vars).goal,
        60 => case_60(vars).goal,
        61 => case_61(vars).goal,
        62 => case_62(vars).goal,
        63 => case_63(vars).goal,
        64 => case_64(vars).goal,
        65 => case_65(vars).goal,
        66 => case_66(vars).goal,
        67 => case_67(vars).goal,
        68 => case_68(vars).goal,
        69 => case_69(vars).goal,
        70 => case_70(vars).goal,
        71 => case_71(vars).goal,
        72 => case_72(vars).goal,
        73 => case_73(vars).goal,
        74 => case_74(vars).goal,
        75 => case_75(vars).goal,
        76 => case_76(vars).goal,
        77 => case_77(vars).goal,
        78 => case_78(vars).goal,
        79 => case_79(vars).goal,
        80 => case_80(vars).goal,
        81 => case_81(vars).goal,
        82 => case_82(vars).goal,
        83 => case_83(vars).goal,
        84 => case_84(vars).goal,
        85 => case_85(vars).goal,
        86 => case_86(vars).goal,
        87 => case_87(vars).goal,
        88 => case_88(vars).goal,
        89 => case_89(vars).goal,
        90 => case_90(vars).goal,
        91 => case_91(vars).goal,
        92 => case_92(vars).goal,
        93 => case_93(vars).goal,
        94 => case_94(vars).goal,
        95 => case_95(vars).goal,
        96 => case_96(vars).goal,
        97 => case_97(vars).goal,
        98 => case_98(vars).goal,
        99 => case_99(vars).goal,
        100 => case_100(vars).goal,
        101 => case_101(vars).goal,
        102 => case_102(vars).goal,
        103 => case_103(vars).goal,
        104 => case_104(vars).goal,
        105 => case_105(vars).goal,
        106 => case_106(vars).goal,
        107 => case_107(vars).goal,
        108 => case_108(vars).goal,
        109 => case_109(vars).goal,
        110 => case_110(vars).goal,
        111 => case_111(vars).goal,
        112 => case_112(vars).goal,
        113 => case_113(vars).goal,
        114 => case_114(vars).goal,
        115 => case_115(vars).goal,
        116 => case_116(vars).goal,
        117 => case_117(vars).goal,
        118 => case_118(vars).goal,
        119 => case_119(vars).goal,
        120 => case_120(vars).goal,
        121 => case_121(vars).goal,
        122 => case_122(vars).goal,
        123 => case_123(vars).goal,
        124 => case_124(vars).goal,
        125 => case_125(vars).goal,
        126 => case_126(vars).goal,
        127 => case_127(vars).goal,
        128 => case_128(vars).goal,
        129 => case_129(vars).goal,
        130 => case_130(vars).goal,
        131 => case_131(vars).goal,
        132 => case_132(vars).goal,
        133 => case_133(vars).goal,
        134 => case_134(vars).goal,
        135 => case_135(vars).goal,
        136 => case_136(vars).goal,
        137 => case_137(vars).goal,
        138 => case_138(vars).goal,
        139 => case_139(vars).goal,
        140 => case_140(vars).goal,
        141 => case_141(vars).goal,
        142 => case_142(vars).goal,
        143 => case_143(vars).goal,
        144 => case_144(vars).goal,
        145 => case_145(vars).goal,
        146 => case_146(vars).goal,
        147 => case_147(vars).goal,
        148 => case_148(vars).goal,
        149 => case_149(vars).goal,
        150 => case_150(vars).goal,
        151 => case_151(vars).goal,
        152 => case_152(vars).goal,
        153 => case_153(vars).goal,
        154 => case_154(vars).goal,
        155 => case_155(vars).goal,
        156 => case_156(vars).goal,
        157 => case_157(vars).goal,
        158 => case_158(vars).goal,
        159 => case_159(vars).goal,
        160 => case_160(vars).goal,
        161 => case_161(vars).goal,
        162 => case_162(vars).goal,
        163 => case_163(vars).goal,
        164 => case_164(vars).goal,
        165 => case_165(vars).goal,
        166 => case_166(vars).goal,
        167 => case_167(vars).goal,
        168 => case_168(vars).goal,
        169 => case_169(vars).goal,
        170 => case_170(vars).goal,
        171 => case_171(vars).goal,
        172 => case_172(vars).goal,
        173 => case_173(vars).goal,
        174 => case_174(vars).goal,
        175 => case_175(vars).goal,
        176 => case_176(vars).goal,
        177 => case_177(vars).goal,
        178 => case_178(vars).goal,
        179 => case_179(vars).goal,
        180 => case_180(vars).goal,
        181 => case_181(vars).goal,
        182 => case_182(vars).goal,
        183 => case_183(vars).goal,
        184 => case_184(vars).goal,
        185 => case_185(vars).goal,
        186 => case_186(vars).goal,
        187 => case_187(vars).goal,
        188 => case_188(vars).goal,
        189 => case_189(vars).goal,
        190 => case_190(vars).goal,
        191 => case_191(vars).goal,
        192 => case_192(vars).goal,
        193 => case_193(vars).goal,
        194 => case_194(vars).goal,
        195 => case_195(vars).goal,
        196 => case_196(vars).goal,
        197 => case_197(vars).goal,
        198 => case_198(vars).goal,
        199 => case_199(vars).goal,
        200 => case_200(vars).goal,
        201 => case_201(vars).goal,
        202 => case_202(vars).goal,
        203 => case_203(vars).goal,
        204 => case_204(vars).goal,
        205 => case_205(vars).goal,
        206 => case_206(vars).goal,
        207 => case_207(vars).goal,
        208 => case_208(vars).goal,
        209 => case_209(vars).goal,
        210 => case_210(vars).goal,
        211 => case_211(vars).goal,
        212 => case_212(vars).goal,
        213 => case_213(vars).goal,
        214 => case_214(vars).goal,
        215 => case_215(vars).goal,
        216 => case_216(vars).goal,
        217 => case_217(vars).goal,
        218 => case_218(vars).goal,
        219 => case_219(vars).goal,
        220 => case_220(vars).goal,
        221 => case_221(vars).goal,
        222 => case_222(vars).goal,
        223 => case_223(vars).goal,
        224 => case_224(vars).goal,
        225 => case_225(vars).goal,
        226 => case_226(vars).goal,
        227 => case_227(vars).goal,
        228 => case_228(vars).goal,
        229 => case_229(vars).goal,
        230 => case_230(vars).goal,
        231 => case_231(vars).goal,
        232 => case_232(vars).goal,
        233 => case_233(vars).goal,
        234 => case_234(vars).goal,
        235 => case_235(vars).goal,
        236 => case_236(vars).goal,
        237 => case_237(vars).goal,
        238 => case_238(vars).goal,
        239 => case_239(vars).goal,
        240 => case_240(vars).goal,
        241 => case_241(vars).goal,
        242 => case_242(vars).goal,
        243 => case_243(vars).goal,
        244 => case_244(vars).goal,
        245 => case_245(vars).goal,
        246 => case_246(vars).goal,
        247 => case_247(vars).goal,
        248 => case_248(vars).goal,
        249 => case_249(vars).goal,
        250 => case_250(vars).goal,
        251 => case_251(vars).goal,
        252 => case_252(vars).goal,
        253 => case_253(vars).goal,
        254 => case_254(vars).goal,
        255 => case_255(vars).goal,
        256 => case_256(vars).goal,
        257 => case_257(vars).goal,
        258 => case_258(vars).goal,
        259 => case_259(vars).goal,
        260 => case_260(vars).goal,
        261 => case_261(vars).goal,
        262 => case_262(vars).goal,
        263 => case_263(vars).goal,
        264 => case_264(vars).goal,
        265 => case_265(vars).goal,
        266 => case_266(vars).goal,
        267 => case_267(vars).goal,
        268 => case_268(vars).goal,
        269 => case_269(vars).goal,
        270 => case_270(vars).goal,
        271 => case_271(vars).goal,
        272 => case_272(vars).goal,
        273 => case_273(vars).goal,
        274 => case_274(vars).goal,
        275 => case_275(vars).goal,
        276 => case_276(vars).goal,
        277 => case_277(vars).goal,
        278 => case_278(vars).goal,
        279 => case_279(vars).goal,
        280 => case_280(vars).goal,
        281 => case_281(vars).goal,
        282 => case_282(vars).goal,
        283 => case_283(vars).goal,
        284 => case_284(vars).goal,
        285 => case_285(vars).goal,
        286 => case_286(vars).goal,
        287 => case_287(vars).goal,
        288 => case_288(vars).goal,
        289 => case_289(vars).goal,
        290 => case_290(vars).goal,
        291 => case_291(vars).goal,
        292 => case_292(vars).goal,
        293 => case_293(vars).goal,
        294 => case_294(vars).goal,
        295 => case_295(vars).goal,
        296 => case_296(vars).goal,
        297 => case_297(vars).goal,
        298 => case_298(vars).goal,
        299 => case_299(vars).goal,
        300 => case_300(vars).goal,
        301 => case_301(vars).goal,
        302 => case_302(vars).goal,
        303 => case_303(vars).goal,
        304 => case_304(vars).goal,
        305 => case_305(vars).goal,
        306 => case_306(vars).goal,
        307 => case_307(vars).goal,
        308 => case_308(vars).goal,
        309 => case_309(vars).goal,
        310 => case_310(vars).goal,
        311 => case_311(vars).goal,
        312 => case_312(vars).goal,
        313 => case_313(vars).goal,
        314 => case_314(vars).goal,
        315 => case_315(vars).goal,
        316 => case_316(vars).goal,
        317 => case_317(vars).goal,
        318 => case_318(vars).goal,
        319 => case_319(vars).goal,
        320 => case_320(vars).goal,
        321 => case_321(vars).goal,
        322 => case_322(vars).goal,
        323 => case_323(vars).goal,
        324 => case_324(vars).goal,
        325 => case_325(vars).goal,
        326 => case_326(vars).goal,
        327 => case_327(vars).goal,
        328 => case_328(vars).goal,
        329 => case_329(vars).goal,
        330 => case_330(vars).goal,
        331 => case_331(vars).goal,
        332 => case_332(vars).goal,
        333 => case_333(vars).goal,
        334 => case_334(vars).goal,
        335 => case_335(vars).goal,
        336 => case_336(vars).goal,
        337 => case_337(vars).goal,
        338 => case_338(vars).goal,
        339 => case_339(vars).goal,
        340 => case_340(vars).goal,
        341 => case_341(vars).goal,
        342 => case_342(vars).goal,
        343 => case_343(vars).goal,
        344 => case_344(vars).goal,
        345 => case_345(vars).goal,
        346 => case_346(vars).goal,
        347 => case_347(vars).goal,
        348 => case_348(vars).goal,
        349 => case_349(vars).goal,
        350 => case_350(vars).goal,
        351 => case_351(vars).goal,
        352 => case_352(vars).goal,
        353 => case_353(vars).goal,
        354 => case_354(vars).goal,
        355 => case_355(vars).goal,
        356 => case_356(vars).goal,
        357 => case_357(vars).goal,
        358 => case_358(vars).goal,
        359 => case_359(vars).goal,
        360 => case_360(vars).goal,
        361 => case_361(vars).goal,
        362 => case_362(vars).goal,
        363 => case_363(vars).goal,
        364 => case_364(vars).goal,
        365 => case_365(vars).goal,
        366 => case_366(vars).goal,
        367 => case_367(vars).goal,
        368 => case_368(vars).goal,
        369 => case_369(vars).goal,
        370 => case_370(vars).goal,
        371 => case_371(vars).goal,
        372 => case_372(vars).goal,
        373 => case_373(vars).goal,
        374 => case_374(vars).goal,
        375 => case_375(vars).goal,
        376 => case_376(vars).goal,
        377 => case_377(vars).goal,
        378 => case_378(vars).goal,
        379 => case_379(vars).goal,
        380 => case_380(vars).goal,
        381 => case_381(vars).goal,
        382 => case_382(vars).goal,
        383 => case_383(vars).goal,
        384 => case_384(vars).goal,
        385 => case_385(vars).goal,
        386 => case_386(vars).goal,
        387 => case_387(vars).goal,
        388 => case_388(vars).goal,
        389 => case_389(vars).goal,
        390 => case_390(vars).goal,
        391 => case_391(vars).goal,
        392 => case_392(vars).goal,
        393 => case_393(vars).goal,
        394 => case_394(vars).goal,
        395 => case_395(vars).goal,
        396 => case_396(vars).goal,
        397 => case_397(vars).goal,
        398 => case_398(vars).goal,
        399 => case_399(vars).goal,
        400 => case_400(vars).goal,
        401 => case_401(vars).goal,
        402 => case_402(vars).goal,
        403 => case_403(vars).goal,
        404 => case_404(vars).goal,
        405 => case_405(vars).goal,
        406 => case_406(vars).goal,
        407 => case_407(vars).goal,
        408 => case_408(vars).goal,
        409 => case_409(vars).goal,
        410 => case_410(vars).goal,
        411 => case_411(vars).goal,
        412 => case_412(vars).goal,
        413 => case_413(vars).goal,
        414 => case_414(vars).goal,
        415 => case_415(vars).goal,
        416 => case_416(vars).goal,
        417 => case_417(vars).goal,
        418 => case_418(vars).goal,
        419 => case_419(vars).goal,
        420 => case_420(vars).goal,
        421 => case_421(vars).goal,
        422 => case_422(vars).goal,
        423 => case_423(vars).goal,
        424 => case_424(vars).goal,
        425 => case_425(vars).goal,
        426 => case_426(vars).goal,
        427 => case_427(vars).goal,
        428 => case_428(vars).goal,
        429 => case_429(vars).goal,
        430 => case_430(vars).goal,
        431 => case_431(vars).goal,
        432 => case_432(vars).goal,
        433 => case_433(vars).goal,
        434 => case_434(vars).goal,
        435 => case_435(vars).goal,
        436 => case_436(vars).goal,
        437 => case_437(vars).goal,
        438 => case_438(vars).goal,
        439 => case_439(vars).goal,
        440 => case_440(vars).goal,
        441 => case_441(vars).goal,
        442 => case_442(vars).goal,
        443 => case_443(vars).goal,
        444 => case_444(vars).goal,
        445 => case_445(vars).goal,
        446 => case_446(vars).goal,
        447 => case_447(vars).goal,
        448 => case_448(vars).goal,
        449 => case_449(vars).goal,
        450 => case_450(vars).goal,
        451 => case_451(vars).goal,
        452 => case_452(vars).goal,
        453 => case_453(vars).goal,
        454 => case_454(vars).goal,
        455 => case_455(vars).goal,
        456 => case_456(vars).goal,
        457 => case_457(vars).goal,
        458 => case_458(vars).goal,
        459 => case_459(vars).goal,
        460 => case_460(vars).goal,
        461 => case_461(vars).goal,
        462 => case_462(vars).goal,
        463 => case_463(vars).goal,
        464 => case_464(vars).goal,
        465 => case_465(vars).goal,
        466 => case_466(vars).goal,
        467 => case_467(vars).goal,
        468 => case_468(vars).goal,
        469 => case_469(vars).goal,
        470 => case_470(vars).goal,
        471 => case_471(vars).goal,
        472 => case_472(vars).goal,
        473 => case_473(vars).goal,
        474 => case_474(vars).goal,
        475 => case_475(vars).goal,
        476 => case_476(vars).goal,
        477 => case_477(vars).goal,
        478 => case_478(vars).goal,
        479 => case_479(vars).goal,
        480 => case_480(vars).goal,
        481 => case_481(vars).goal,
        482 => case_482(vars).goal,
        483 => case_483(vars).goal,
        484 => case_484(vars).goal,
        485 => case_485(vars).goal,
        486 => case_486(vars).goal,
        487 => case_487(vars).goal,
        488 => case_488(vars).goal,
        489 => case_489(vars).goal,
        490 => case_490(vars).goal,
        491 => case_491(vars).goal,
        492 => case_492(vars).goal,
        493 => case_493(vars).goal,
        494 => case_494(vars).goal,
        495 => case_495(vars).goal,
        496 => case_496(vars).goal,
        497 => case_497(vars).goal,
        498 => case_498(vars).goal,
        499 => case_499(vars).goal,
        500 => case_500(vars).goal,
        501 => case_501(vars).goal,
        502 => case_502(vars).goal,
        503 => case_503(vars).goal,
        504 => case_504(vars).goal,
        505 => case_505(vars).goal,
        506 => case_506(vars).goal,
        507 => case_507(vars).goal,
        508 => case_508(vars).goal,
        509 => case_509(vars).goal,
        510 => case_510(vars).goal,
        511 => case_511(vars).goal,
        512 => case_512(vars).goal,
        513 => case_513(vars).goal,
        514 => case_514(vars).goal,
        515 => case_515(vars).goal,
        516 => case_516(vars).goal,
        517 => case_517(vars).goal,
        518 => case_518(vars).goal,
        519 => case_519(vars).goal,
        520 => case_520(vars).goal,
        521 => case_521(vars).goal,
        522 => case_522(vars).goal,
        523 => case_523(vars).goal,
        524 => case_524(vars).goal,
        525 => case_525(vars).goal,
        526 => case_526(vars).goal,
        527 => case_527(vars).goal,
        528 => case_528(vars).goal,
        529 => case_529(vars).goal,
        530 => case_530(vars).goal,
        531 => case_531(vars).goal,
        532 => case_532(vars).goal,
        533 => case_533(vars).goal,
        534 => case_534(vars).goal,
        535 => case_535(vars).goal,
        536 => case_536(vars).goal,
        537 => case_537(vars).goal,
        538 => case_538(vars).goal,
        539 => case_539(vars).goal,
        540 => case_540(vars).goal,
        541 => case_541(vars).goal,
        542 => case_542(vars).goal,
        543 => case_543(vars).goal,
        544 => case_544(vars).goal,
        545 => case_545(vars).goal,
        546 => case_546(vars).goal,
        547 => case_547(vars).goal,
        548 => case_548(vars).goal,
        549 => case_549(vars).goal,
        550 => case_550(vars).goal,
        551 => case_551(vars).goal,
        552 => case_552(vars).goal,
        553 => case_553(vars).goal,
        554 => case_554(vars).goal,
        555 => case_555(vars).goal,
        556 => case_556(vars).goal,
        557 => case_557(vars).goal,
        558 => case_558(vars).goal,
        559 => case_559(vars).goal,
        560 => case_560(vars).goal,
        561 => case_561(vars).goal,
        562 => case_562(vars).goal,
        563 => case_563(vars).goal,
        564 => case_564(vars).goal,
        565 => case_565(vars).goal,
        566 => case_566(vars).goal,
        567 => case_567(vars).goal,
        568 => case_568(vars).goal,
        569 => case_569(vars).goal,
        570 => case_570(vars).goal,
        571 => case_571(vars).goal,
        572 => case_572(vars).goal,
        573 => case_573(vars).goal,
        574 => case_574(vars).goal,
        575 => case_575(vars).goal,
        576 => case_576(vars).goal,
        577 => case_577(vars).goal,
        578 => case_578(vars).goal,
        579 => case_579(vars).goal,
        580 => case_580(vars).goal,
        581 => case_581(vars).goal,
        582 => case_582(vars).goal,
        583 => case_583(vars).goal,
        584 => case_584(vars).goal,
        585 => case_585(vars).goal,
        586 => case_586(vars).goal,
        587 => case_587(vars).goal,
        588 => case_588(vars).goal,
        589 => case_589(vars).goal,
        590 => case_590(vars).goal,
        591 => case_591(vars).goal,
        592 => case_592(vars).goal,
        593 => case_593(vars).goal,
        594 => case_594(vars).goal,
        595 => case_595(vars).goal,
        596 => case_596(vars).goal,
        597 => case_597(vars).goal,
        598 => case_598(vars).goal,
        599 => case_599(vars).goal,
        600 => case_600(vars).goal,
        601 => case_601(vars).goal,
        602 => case_602(vars).goal,
        603 => case_603(vars).goal,
        604 => case_604(vars).goal,
        605 => case_605(vars).goal,
        606 => case_606(vars).goal,
        607 => case_607(vars).goal,
        608 => case_608(vars).goal,
        609 => case_609(vars).goal,
        610 => case_610(vars).goal,
        611 => case_611(vars).goal,
        612 => case_612(vars).goal,
        613 => case_613(vars).goal,
        614 => case_614(vars).goal,
        615 => case_615(vars).goal,
        616 => case_616(vars).goal,
        617 => case_617(vars).goal,
        618 => case_618(vars).goal,
        619 => case_619(vars).goal,
        620 => case_620(vars).goal,
        621 => case_621(vars).goal,
        622 => case_622(vars).goal,
        623 => case_623(vars).goal,
        624 => case_624(vars).goal,
        625 => case_625(vars).goal,
        626 => case_626(vars).goal,
        627 => case_627(vars).goal,
        628 => case_628(vars).goal,
        629 => case_629(vars).goal,
        630 => case_630(vars).goal,
        631 => case_631(vars).goal,
        632 => case_632(vars).goal,
        633 => case_633(vars).goal,
        634 => case_634(vars).goal,
        635 => case_635(vars).goal,
        636 => case_636(vars).goal,
        637 => case_637(vars).goal,
        638 => case_638(vars).goal,
        639 => case_639(vars).goal,
        640 => case_640(vars).goal,
        _ => unreachable!(),
    }
}
