pub fn case_0(vars: &Vars) -> InferredGoal<DU, DE, Goal<DU, DE>> {
    let qa = vars.v[0].clone();
    let qb = vars.v[1].clone();
    let coll0: LT = LT::from_vec(vec![lterm!(2), lterm!([2]), lterm!([1])]);
    proto_vulcan!([for e in &coll0 { |x| { 2 == qb, qb == [[], qb], [true, _] != qb } }])
}
pub fn case_1(vars: &Vars) -> InferredGoal<DU, DE, Goal<DU, DE>> {
    let qa = vars.v[0].clone();
    let qb = vars.v[1].clone();
    let coll0: Vec<LT> = vec![lterm!([2]), lterm!(2)];
    proto_vulcan!([|t| { true, [t, []] == qb, qb == _ }, for e in &coll0 { append(qb, qa, [3, 3]) }])
}
pub fn case_2(vars: &Vars) -> InferredGoal<DU, DE, Goal<DU, DE>> {
    let qa = vars.v[0].clone();
    let qb = vars.v[1].clone();
    let coll0: Vec<LT> = vec![lterm!(3), lterm!(2)];
    proto_vulcan!([[[], qa, 1] == qb, for e in &coll0 { member(qa, [1]), |h| { [1] == qa, |tz| { tz == [3, 3], [1 | tz] != [1, 3, 3] }, qa == [[], 2, 2] } }])
}
pub fn case_3(vars: &Vars) -> InferredGoal<DU, DE, Goal<DU, DE>> {
    let qa = vars.v[0].clone();
    let qb = vars.v[1].clone();
    let coll0: LT = LT::from_vec(vec![lterm!(1)]);
    proto_vulcan!([for e in &coll0 { 3 != [[1], 1, [[], [], 3 | e] | _] }])
}
pub fn case_4(vars: &Vars) -> InferredGoal<DU, DE, Goal<DU, DE>> {
    let qa = vars.v[0].clone();
    let qb = vars.v[1].clone();
    let coll0: Vec<LT> = vec![];
    proto_vulcan!([for e in &coll0 { |z| { |tz| { tz == [2, 1], [2, 2, 1] != [2 | tz] }, qa == [[qb, z, false], [], [1, 1, 1]], false } }])
}
pub fn case_5(vars: &Vars) -> InferredGoal<DU, DE, Goal<DU, DE>> {
    let qa = vars.v[0].clone();
    let qb = vars.v[1].clone();
    let coll0: LT = LT::from_vec(vec![lterm!(3)]);
    proto_vulcan!([qa != [1, qb], for e in &coll0 { |z, x| { ["a", 1, _] == x, 3 == x }, e == [e, e] }])
}
pub fn case_6(vars: &Vars) -> InferredGoal<DU, DE, Goal<DU, DE>> {
    let qa = vars.v[0].clone();
    let qb = vars.v[1].clone();
    let coll0: Vec<LT> = vec![];
    proto_vulcan!([|tz| { [2, 2, 2] != [2, 2 | tz], tz == [2] }, for e in &coll0 { qb == [1, 3], _ == [[qb, _, qb], qb, e] }])
}
pub fn case_7(vars: &Vars) -> InferredGoal<DU, DE, Goal<DU, DE>> {
    let qa = vars.v[0].clone();
    let qb = vars.v[1].clone();
    let coll0: LT = LT::from_vec(vec![lterm!(3)]);
    proto_vulcan!([for e in &coll0 { ["a", e | qa] == [2, [e, [], []]] }])
}
pub fn case_8(vars: &Vars) -> InferredGoal<DU, DE, Goal<DU, DE>> {
    let qa = vars.v[0].clone();
    let qb = vars.v[1].clone();
    let coll0: LT = LT::from_vec(vec![lterm!(3), lterm!(3), qa.clone()]);
    proto_vulcan!([for e in &coll0 { member(qa, [3, 1, 1]), [3, false | _] == e }])
}
pub fn case_9(vars: &Vars) -> InferredGoal<DU, DE, Goal<DU, DE>> {
    let qa = vars.v[0].clone();
    let qb = vars.v[1].clone();
    let coll0: LT = LT::from_vec(vec![qb.clone(), lterm!(3), lterm!(1)]);
    proto_vulcan!([[false, member(qa, [1, 1])], for e in &coll0 { 'b' == [["bc" | _], [e, e] | qb], |t| { [[2, false]] == "bc", e != [_, [], []] } }])
}
pub fn case_10(vars: &Vars) -> InferredGoal<DU, DE, Goal<DU, DE>> {
    let qa = vars.v[0].clone();
    let qb = vars.v[1].clone();
    let coll0: Vec<LT> = vec![lterm!(3), lterm!(3)];
    proto_vulcan!([conde { qb == qa, [qb == 1, append(qb, qb, [1])], [false, qa != [2, [qb, 2, 3]]] }, for e in &coll0 { conde { [[2, _, []], [3]] == e, [qa != qb, qb == [1]], qb == [[[], qb] | qa] } }])
}
pub fn case_11(vars: &Vars) -> InferredGoal<DU, DE, Goal<DU, DE>> {
    let qa = vars.v[0].clone();
    let qb = vars.v[1].clone();
    let coll0: LT = LT::from_vec(vec![lterm!(2)]);
    proto_vulcan!([for e in &coll0 { e == [2, 1, [] | 1] }])
}
pub fn case_12(vars: &Vars) -> InferredGoal<DU, DE, Goal<DU, DE>> {
    let qa = vars.v[0].clone();
    let qb = vars.v[1].clone();
    let coll0: Vec<LT> = vec![lterm!([1]), qb.clone()];
    proto_vulcan!([for e in &coll0 { |t| { e == [[t, []], [qa, 1, 2], [e, 1, 3] | e] } }])
}
pub fn case_13(vars: &Vars) -> InferredGoal<DU, DE, Goal<DU, DE>> {
    let qa = vars.v[0].clone();
    let qb = vars.v[1].clone();
    let coll0: Vec<LT> = vec![lterm!(2), lterm!(1)];
    proto_vulcan!([|y| { qa == 1, y != 2, y == 1 }, for e in &coll0 { qb == qb }])
}
pub fn case_14(vars: &Vars) -> InferredGoal<DU, DE, Goal<DU, DE>> {
    let qa = vars.v[0].clone();
    let qb = vars.v[1].clone();
    let coll0: Vec<LT> = vec![];
    proto_vulcan!([[true], for e in &coll0 { qa == qa }])
}
pub fn case_15(vars: &Vars) -> InferredGoal<DU, DE, Goal<DU, DE>> {
    let qa = vars.v[0].clone();
    let qb = vars.v[1].clone();
    let coll0: Vec<LT> = vec![lterm!(2), qa.clone()];
    proto_vulcan!([for e in &coll0 { |y| { 2 == qa, _ == [2] } }])
}
pub fn case_16(vars: &Vars) -> InferredGoal<DU, DE, Goal<DU, DE>> {
    let qa = vars.v[0].clone();
    let qb = vars.v[1].clone();
    let coll0: Vec<LT> = vec![];
    proto_vulcan!([true, for e in &coll0 { |x, t| { true, e == [3, t], [[2], [] | x] != t } }])
}
pub fn case_17(vars: &Vars) -> InferredGoal<DU, DE, Goal<DU, DE>> {
    let qa = vars.v[0].clone();
    let qb = vars.v[1].clone();
    let coll0: LT = LT::from_vec(vec![qa.clone()]);
    proto_vulcan!([for e in &coll0 { |z| { qa == z } }])
}
pub fn case_18(vars: &Vars) -> InferredGoal<DU, DE, Goal<DU, DE>> {
    let qa = vars.v[0].clone();
    let qb = vars.v[1].clone();
    let coll0: Vec<LT> = vec![qa.clone(), qb.clone()];
    proto_vulcan!([for e in &coll0 { qb == [[qa, 2 | qb]] }])
}
pub fn case_19(vars: &Vars) -> InferredGoal<DU, DE, Goal<DU, DE>> {
    let qa = vars.v[0].clone();
    let qb = vars.v[1].clone();
    let coll0: Vec<LT> = vec![lterm!(2), lterm!(3)];
    proto_vulcan!([for e in &coll0 { [e == 3] }])
}
pub fn case_20(vars: &Vars) -> InferredGoal<DU, DE, Goal<DU, DE>> {
    let qa = vars.v[0].clone();
    let qb = vars.v[1].clone();
    let coll0: Vec<LT> = vec![];
    proto_vulcan!([|t, z| { member(qb, [1, 3]), z == [z, [], z] }, for e in &coll0 { conde { false, [qb | e] != qb, [[[], qa] == qb, append(qa, e, [])] } }])
}
pub fn case_21(vars: &Vars) -> InferredGoal<DU, DE, Goal<DU, DE>> {
    let qa = vars.v[0].clone();
    let qb = vars.v[1].clone();
    let coll0: Vec<LT> = vec![lterm!([2]), qa.clone()];
    proto_vulcan!([for e in &coll0 { qa == [[], e, qa], _ == e }])
}
pub fn case_22(vars: &Vars) -> InferredGoal<DU, DE, Goal<DU, DE>> {
    let qa = vars.v[0].clone();
    let qb = vars.v[1].clone();
    let coll0: Vec<LT> = vec![];
    proto_vulcan!([for e in &coll0 { [_] == qa }])
}
pub fn case_23(vars: &Vars) -> InferredGoal<DU, DE, Goal<DU, DE>> {
    let qa = vars.v[0].clone();
    let qb = vars.v[1].clone();
    let coll0: Vec<LT> = vec![lterm!(3), lterm!(1)];
    proto_vulcan!([|x| { x != [qa, [[], qb, []], [qb, 2 | qa]], qb != [] }, for e in &coll0 { |y| { false == e } }])
}
pub fn case_24(vars: &Vars) -> InferredGoal<DU, DE, Goal<DU, DE>> {
    let qa = vars.v[0].clone();
    let qb = vars.v[1].clone();
    let coll0: LT = LT::from_vec(vec![lterm!(3)]);
    proto_vulcan!([for e in &coll0 { qa == 2 }])
}
pub fn case_25(vars: &Vars) -> InferredGoal<DU, DE, Goal<DU, DE>> {
    let qa = vars.v[0].clone();
    let qb = vars.v[1].clone();
    let coll0: Vec<LT> = vec![lterm!(1), qa.clone()];
    proto_vulcan!([for e in &coll0 { |h, t| { t == ['b'] }, |y, t| { ['a', y] == qa, qa == [[2], ['a', [], "bc"], _ | qb] } }])
}
pub fn case_26(vars: &Vars) -> InferredGoal<DU, DE, Goal<DU, DE>> {
    let qa = vars.v[0].clone();
    let qb = vars.v[1].clone();
    let coll0: Vec<LT> = vec![lterm!(3), qa.clone()];
    proto_vulcan!([qa == [qb, _, 1], for e in &coll0 { ["bc" | qa] == qb }])
}
pub fn case_27(vars: &Vars) -> InferredGoal<DU, DE, Goal<DU, DE>> {
    let qa = vars.v[0].clone();
    let qb = vars.v[1].clone();
    let coll0: LT = LT::from_vec(vec![lterm!([2]), lterm!([1]), lterm!(2)]);
    proto_vulcan!([for e in &coll0 { qa != [qa, [2, qa, e] | 3], conde { true, [true, qb == e] } }])
}
pub fn case_28(vars: &Vars) -> InferredGoal<DU, DE, Goal<DU, DE>> {
    let qa = vars.v[0].clone();
    let qb = vars.v[1].clone();
    let coll0: LT = LT::from_vec(vec![qa.clone(), qa.clone(), qb.clone()]);
    proto_vulcan!([for e in &coll0 { 1 != e }])
}
pub fn case_29(vars: &Vars) -> InferredGoal<DU, DE, Goal<DU, DE>> {
    let qa = vars.v[0].clone();
    let qb = vars.v[1].clone();
    let coll0: Vec<LT> = vec![lterm!([1]), lterm!(2)];
    proto_vulcan!([for e in &coll0 { qa == [[2], 3] }])
}
pub fn case_30(vars: &Vars) -> InferredGoal<DU, DE, Goal<DU, DE>> {
    let qa = vars.v[0].clone();
    let qb = vars.v[1].clone();
    let coll0: LT = LT::from_vec(vec![lterm!(1), qb.clone(), lterm!(3)]);
    proto_vulcan!([[2, qb, qa | qb] == [qa, _, ['a' | qa]], for e in &coll0 { qb != ['b', 2, 1], qb == [[qb]] }])
}
pub fn case_31(vars: &Vars) -> InferredGoal<DU, DE, Goal<DU, DE>> {
    let qa = vars.v[0].clone();
    let qb = vars.v[1].clone();
    let coll0: LT = LT::from_vec(vec![lterm!([1])]);
    proto_vulcan!([conde { [true, qa != qa], [[[false, 1, qb | qa], [3, [], 3], [qb, false, 2 | qb] | false] == [1, qa | qb], qa == qb], [2 != qa, qb == qa] }, for e in &coll0 { conde { [e != qb, false], [1, 3, 2] == qb, [member(e, [3]), true] }, e == e }])
}
pub fn case_32(vars: &Vars) -> InferredGoal<DU, DE, Goal<DU, DE>> {
    let qa = vars.v[0].clone();
    let qb = vars.v[1].clone();
    let coll0: LT = LT::from_vec(vec![qb.clone(), qb.clone(), lterm!(1)]);
    proto_vulcan!([for e in &coll0 { conde { [qb == e, [[], 1] != qb], [|tz| { [2, 2, 2] != [2 | tz], tz == [2, 2] }, [false, qa | qb] == e], [[[]], [1, 'a'], [_]] != [_, 2] } }])
}
pub fn case_33(vars: &Vars) -> InferredGoal<DU, DE, Goal<DU, DE>> {
    let qa = vars.v[0].clone();
    let qb = vars.v[1].clone();
    let coll0: LT = LT::from_vec(vec![lterm!(3), lterm!([2]), qa.clone()]);
    proto_vulcan!([['b', [qa, 3 | qa], [1, 2 | qa]] == qa, for e in &coll0 { qb == _, false }])
}
pub fn case_34(vars: &Vars) -> InferredGoal<DU, DE, Goal<DU, DE>> {
    let qa = vars.v[0].clone();
    let qb = vars.v[1].clone();
    let coll0: LT = LT::from_vec(vec![qb.clone()]);
    proto_vulcan!([for e in &coll0 { qa == [[qb, qa, qa], _], conde { qa == [[qb, qb, qb], [false, e, 'a'], [2, _] | e], true, 1 == e } }])
}
pub fn case_35(vars: &Vars) -> InferredGoal<DU, DE, Goal<DU, DE>> {
    let qa = vars.v[0].clone();
    let qb = vars.v[1].clone();
    let coll0: Vec<LT> = vec![];
    proto_vulcan!([[qb, 1] != qb, for e in &coll0 { conde { [qa == [[qa, 3 | qa], [_, qa, qa | e], qb], qb == [qb, qb, e]], [3 == e, [qa] != qb] }, 1 == qa }])
}
pub fn case_36(vars: &Vars) -> InferredGoal<DU, DE, Goal<DU, DE>> {
    let qa = vars.v[0].clone();
    let qb = vars.v[1].clone();
    let coll0: LT = LT::from_vec(vec![qa.clone(), qb.clone(), lterm!([2])]);
    proto_vulcan!([qa == qb, for e in &coll0 { 2 == e, [[_, qa] == qa, true] }])
}
pub fn case_37(vars: &Vars) -> InferredGoal<DU, DE, Goal<DU, DE>> {
    let qa = vars.v[0].clone();
    let qb = vars.v[1].clone();
    let coll0: LT = LT::from_vec(vec![lterm!([1])]);
    proto_vulcan!([conde { [member(qb, []), |tz| { [3, 1 | tz] != [3, 1, 3, 2], tz == [3, 2] }], ["a", [[], 2, 2]] == [2, true, qa], [member(qb, [2, 1, 2]), qa == [qa, [qb, []] | qb]] }, for e in &coll0 { "a" == qb }])
}
pub fn case_38(vars: &Vars) -> InferredGoal<DU, DE, Goal<DU, DE>> {
    let qa = vars.v[0].clone();
    let qb = vars.v[1].clone();
    let coll0: Vec<LT> = vec![qb.clone(), lterm!([2])];
    proto_vulcan!([for e in &coll0 { |y, x| { [_, 'a', []] != e, false, [qa, e, 3 | y] == y } }])
}
pub fn case_39(vars: &Vars) -> InferredGoal<DU, DE, Goal<DU, DE>> {
    let qa = vars.v[0].clone();
    let qb = vars.v[1].clone();
    let coll0: LT = LT::from_vec(vec![lterm!([2])]);
    proto_vulcan!([for e in &coll0 { qb != [e, 1, e], qa == 1 }])
}
pub fn case_40(vars: &Vars) -> InferredGoal<DU, DE, Goal<DU, DE>> {
    let qa = vars.v[0].clone();
    let qb = vars.v[1].clone();
    let coll0: Vec<LT> = vec![];
    proto_vulcan!([[2, 2] == [[1, 2]], for e in &coll0 { 2 == e, qa != e }])
}
pub fn case_41(vars: &Vars) -> InferredGoal<DU, DE, Goal<DU, DE>> {
    let qa = vars.v[0].clone();
    let qb = vars.v[1].clone();
    let coll0: LT = LT::from_vec(vec![qa.clone(), lterm!(3), lterm!([2])]);
    proto_vulcan!([[[false, qb, qb], _ | qa] == qb, for e in &coll0 { qb == _, [qa, qa | qb] == qb }])
}
pub fn case_42(vars: &Vars) -> InferredGoal<DU, DE, Goal<DU, DE>> {
    let qa = vars.v[0].clone();
    let qb = vars.v[1].clone();
    let coll0: LT = LT::from_vec(vec![lterm!([2])]);
    proto_vulcan!([qb == [2], for e in &coll0 { e == [e, _, 3 | 2], |x| { x != 3 } }])
}
pub fn case_43(vars: &Vars) -> InferredGoal<DU, DE, Goal<DU, DE>> {
    let qa = vars.v[0].clone();
    let qb = vars.v[1].clone();
    let coll0: Vec<LT> = vec![];
    proto_vulcan!([for e in &coll0 { 2 == e }])
}
pub fn case_44(vars: &Vars) -> InferredGoal<DU, DE, Goal<DU, DE>> {
    let qa = vars.v[0].clone();
    let qb = vars.v[1].clone();
    let coll0: Vec<LT> = vec![lterm!(1), lterm!(2)];
    proto_vulcan!([for e in &coll0 { append(qb, qa, [1]) }])
}
pub fn case_45(vars: &Vars) -> InferredGoal<DU, DE, Goal<DU, DE>> {
    let qa = vars.v[0].clone();
    let qb = vars.v[1].clone();
    let coll0: LT = LT::from_vec(vec![lterm!(3), lterm!(3), lterm!(3)]);
    proto_vulcan!([for e in &coll0 { [e == [qa, _, 3], qb == e] }])
}
pub fn case_46(vars: &Vars) -> InferredGoal<DU, DE, Goal<DU, DE>> {
    let qa = vars.v[0].clone();
    let qb = vars.v[1].clone();
    let coll0: Vec<LT> = vec![];
    proto_vulcan!([|tz| { [1, 1 | tz] != [1, 1, 2, 3], tz == [2, 3] }, for e in &coll0 { conde { qa == [e], [[qa, 1, 'b'] != [1, 1, "a"], qb != [[], [qb, 1, qb | e], [3, e]]] }, [[qa, 2 | 3] | e] == 1 }])
}
pub fn case_47(vars: &Vars) -> InferredGoal<DU, DE, Goal<DU, DE>> {
    let qa = vars.v[0].clone();
    let qb = vars.v[1].clone();
    let coll0: LT = LT::from_vec(vec![lterm!(2)]);
    proto_vulcan!([for e in &coll0 { qa == [[1, e | qa], [qb, qb | e] | 1] }])
}
pub fn case_48(vars: &Vars) -> InferredGoal<DU, DE, Goal<DU, DE>> {
    let qa = vars.v[0].clone();
    let qb = vars.v[1].clone();
    let coll0: Vec<LT> = vec![qa.clone(), qa.clone()];
    proto_vulcan!([for e in &coll0 { "a" == [_, [[], 'b']], e == [[2, e, 1], 1, e] }])
}
pub fn case_49(vars: &Vars) -> InferredGoal<DU, DE, Goal<DU, DE>> {
    let qa = vars.v[0].clone();
    let qb = vars.v[1].clone();
    let coll0: LT = LT::from_vec(vec![lterm!(3), qa.clone(), qb.clone()]);
    proto_vulcan!([for e in &coll0 { member(qa, []) }])
}
pub fn case_50(vars: &Vars) -> InferredGoal<DU, DE, Goal<DU, DE>> {
    let qa = vars.v[0].clone();
    let qb = vars.v[1].clone();
    let coll0: LT = LT::from_vec(vec![lterm!(2)]);
    proto_vulcan!([1 == [[qa], [qa, [], _], [2, 2, 'a' | qa]], for e in &coll0 { [3, [], [[], qa] | e] == 'b', |x, t| { qb == qb } }])
}
pub fn case_51(vars: &Vars) -> InferredGoal<DU, DE, Goal<DU, DE>> {
    let qa = vars.v[0].clone();
    let qb = vars.v[1].clone();
    let coll0: Vec<LT> = vec![];
    proto_vulcan!([for e in &coll0 { [[], 3, 3] != e }])
}
pub fn case_52(vars: &Vars) -> InferredGoal<DU, DE, Goal<DU, DE>> {
    let qa = vars.v[0].clone();
    let qb = vars.v[1].clone();
    let coll0: Vec<LT> = vec![];
    proto_vulcan!([for e in &coll0 { e == [_, 1] }])
}
pub fn case_53(vars: &Vars) -> InferredGoal<DU, DE, Goal<DU, DE>> {
    let qa = vars.v[0].clone();
    let qb = vars.v[1].clone();
    let coll0: Vec<LT> = vec![qa.clone(), qa.clone()];
    proto_vulcan!([[_, _, qa] != qb, for e in &coll0 { [[false, []]] != [[_, "bc" | qb], [_, qb], [_] | e], [true] }])
}
pub fn case_54(vars: &Vars) -> InferredGoal<DU, DE, Goal<DU, DE>> {
    let qa = vars.v[0].clone();
    let qb = vars.v[1].clone();
    let coll0: Vec<LT> = vec![];
    proto_vulcan!([for e in &coll0 { |t, h| { "a" == t }, |tz| { [1, 2, 1] != [1 | tz], tz == [2, 1] } }])
}
pub fn case_55(vars: &Vars) -> InferredGoal<DU, DE, Goal<DU, DE>> {
    let qa = vars.v[0].clone();
    let qb = vars.v[1].clone();
    let coll0: Vec<LT> = vec![];
    proto_vulcan!([for e in &coll0 { 'a' == [qa] }])
}
pub fn case_56(vars: &Vars) -> InferredGoal<DU, DE, Goal<DU, DE>> {
    let qa = vars.v[0].clone();
    let qb = vars.v[1].clone();
    let coll0: Vec<LT> = vec![lterm!([2]), lterm!([1])];
    proto_vulcan!([[[] | qb] == qb, for e in &coll0 { [1, _] == e, [[1], [qa] | qa] != [1] }])
}
pub fn case_57(vars: &Vars) -> InferredGoal<DU, DE, Goal<DU, DE>> {
    let qa = vars.v[0].clone();
    let qb = vars.v[1].clone();
    let coll0: Vec<LT> = vec![lterm!(2), qb.clone()];
    proto_vulcan!([for e in &coll0 { conde { [qb == [[], "bc", qb], 1 == qa], [|tz| { [2, 2, 1] != [2, 2 | tz], tz == [1] }, |tz| { [2, 3 | tz] != [2, 3, 2], tz == [2] }], true } }])
}
pub fn case_58(vars: &Vars) -> InferredGoal<DU, DE, Goal<DU, DE>> {
    let qa = vars.v[0].clone();
    let qb = vars.v[1].clone();
    let coll0: Vec<LT> = vec![lterm!([1]), qa.clone()];
    proto_vulcan!([for e in &coll0 { [qa, qb] == e }])
}
pub fn case_59(vars: &Vars) -> InferredGoal<DU, DE, Goal<DU, DE>> {
    let qa = vars.v[0].clone();
    let qb = vars.v[1].clone();
    let coll0: Vec<LT> = vec![];
    proto_vulcan!([|z| { true, _ != qa, z == z }, for e in &coll0 { 3 != e }])
}
pub fn case_60(vars: &Vars) -> InferredGoal<DU, DE, Goal<DU, DE>> {
    let qa = vars.v[0].clone();
    let qb = vars.v[1].clone();
    let coll0: LT = LT::from_vec(vec![lterm!([2]), lterm!(1), lterm!(2)]);
    proto_vulcan!([for e in &coll0 { qb == [[]], [[], 'b', 1] == e }])
}
pub fn case_61(vars: &Vars) -> InferredGoal<DU, DE, Goal<DU, DE>> {
    let qa = vars.v[0].clone();
    let qb = vars.v[1].clone();
    let coll0: LT = LT::from_vec(vec![qa.clone(), qa.clone(), lterm!(2)]);
    proto_vulcan!([false, for e in &coll0 { conde { [[[qb], [qb, e | qb], 'b'] == [[2], [e, e], [qa, qa, 2]], [qa, ['b'] | qb] == e], [false, append(e, qb, [2, 2])] } }])
}
pub fn case_62(vars: &Vars) -> InferredGoal<DU, DE, Goal<DU, DE>> {
    let qa = vars.v[0].clone();
    let qb = vars.v[1].clone();
    let coll0: LT = LT::from_vec(vec![lterm!(1), lterm!(3), lterm!([1])]);
    proto_vulcan!([|t| { 3 == qa, 2 == qa, qa == [qb] }, for e in &coll0 { [true, qb != ["bc"], qa == qa], e == [['a', 2, qa], [], [true | qb]] }])
}
pub fn case_63(vars: &Vars) -> InferredGoal<DU, DE, Goal<DU, DE>> {
    let qa = vars.v[0].clone();
    let qb = vars.v[1].clone();
    let coll0: LT = LT::from_vec(vec![lterm!([2])]);
    proto_vulcan!([for e in &coll0 { [e, 1] == qb, [[e | _], 3] == e }])
}
pub fn case_64(vars: &Vars) -> InferredGoal<DU, DE, Goal<DU, DE>> {
    let qa = vars.v[0].clone();
    let qb = vars.v[1].clone();
    let coll0: LT = LT::from_vec(vec![lterm!([2])]);
    proto_vulcan!([for e in &coll0 { qa == [e | qa] }])
}
pub fn case_65(vars: &Vars) -> InferredGoal<DU, DE, Goal<DU, DE>> {
    let qa = vars.v[0].clone();
    let qb = vars.v[1].clone();
    let coll0: LT = LT::from_vec(vec![qb.clone()]);
    proto_vulcan!([for e in &coll0 { [qa == [_, [], qb | qb], false] }])
}
pub fn case_66(vars: &Vars) -> InferredGoal<DU, DE, Goal<DU, DE>> {
    let qa = vars.v[0].clone();
    let qb = vars.v[1].clone();
    let coll0: Vec<LT> = vec![lterm!(1), qb.clone()];
    proto_vulcan!([for e in &coll0 { e == [qa, 2] }])
}
pub fn case_67(vars: &Vars) -> InferredGoal<DU, DE, Goal<DU, DE>> {
    let qa = vars.v[0].clone();
    let qb = vars.v[1].clone();
    let coll0: LT = LT::from_vec(vec![qa.clone()]);
    proto_vulcan!([for e in &coll0 { |z, t| { z == [true, t, "bc"] } }])
}
pub fn case_68(vars: &Vars) -> InferredGoal<DU, DE, Goal<DU, DE>> {
    let qa = vars.v[0].clone();
    let qb = vars.v[1].clone();
    let coll0: Vec<LT> = vec![qb.clone(), qb.clone()];
    proto_vulcan!([for e in &coll0 { |h| { qb == [qa, 2] } }])
}
pub fn case_69(vars: &Vars) -> InferredGoal<DU, DE, Goal<DU, DE>> {
    let qa = vars.v[0].clone();
    let qb = vars.v[1].clone();
    let coll0: Vec<LT> = vec![lterm!(1), lterm!([1])];
    proto_vulcan!([for e in &coll0 { [qa == e] }])
}
pub fn case_70(vars: &Vars) -> InferredGoal<DU, DE, Goal<DU, DE>> {
    let qa = vars.v[0].clone();
    let qb = vars.v[1].clone();
    let coll0: LT = LT::from_vec(vec![lterm!([2])]);
    proto_vulcan!([[qb != [], append(qa, qb, [2, 2])], for e in &coll0 { qa == [false, [1, "bc"], []] }])
}
pub fn case_71(vars: &Vars) -> InferredGoal<DU, DE, Goal<DU, DE>> {
    let qa = vars.v[0].clone();
    let qb = vars.v[1].clone();
    let coll0: Vec<LT> = vec![qb.clone(), lterm!(3)];
    proto_vulcan!([for e in &coll0 { [_] == e }])
}
pub fn case_72(vars: &Vars) -> InferredGoal<DU, DE, Goal<DU, DE>> {
    let qa = vars.v[0].clone();
    let qb = vars.v[1].clone();
    let coll0: LT = LT::from_vec(vec![qb.clone()]);
    proto_vulcan!([for e in &coll0 { |y, h| { [e | h] == e, [_, [], y] == qb, false }, qb == [_] }])
}
pub fn case_73(vars: &Vars) -> InferredGoal<DU, DE, Goal<DU, DE>> {
    let qa = vars.v[0].clone();
    let qb = vars.v[1].clone();
    let coll0: Vec<LT> = vec![];
    proto_vulcan!([qb == [qb, qa, 1], for e in &coll0 { conde { [qa != e, true], [qa == qa, [e, true] == e] } }])
}
pub fn case_74(vars: &Vars) -> InferredGoal<DU, DE, Goal<DU, DE>> {
    let qa = vars.v[0].clone();
    let qb = vars.v[1].clone();
    let coll0: LT = LT::from_vec(vec![lterm!([2])]);
    proto_vulcan!([for e in &coll0 { qb == [qa, [qb | qa], [e, qb | _]], [true, member(qb, [])] }])
}
pub fn case_75(vars: &Vars) -> InferredGoal<DU, DE, Goal<DU, DE>> {
    let qa = vars.v[0].clone();
    let qb = vars.v[1].clone();
    let coll0: Vec<LT> = vec![];
    proto_vulcan!([for e in &coll0 { conde { |tz| { [1 | tz] != [1, 1, 1], tz == [1, 1] }, [e == [2, true, e | qb], qb == [[e | _] | e]], member(qb, [1]) }, [e, qb | e] == qa }])
}
pub fn case_76(vars: &Vars) -> InferredGoal<DU, DE, Goal<DU, DE>> {
    let qa = vars.v[0].clone();
    let qb = vars.v[1].clone();
    let coll0: Vec<LT> = vec![lterm!(3), lterm!(2)];
    proto_vulcan!([for e in &coll0 { e != _ }])
}
pub fn case_77(vars: &Vars) -> InferredGoal<DU, DE, Goal<DU, DE>> {
    let qa = vars.v[0].clone();
    let qb = vars.v[1].clone();
    let coll0: Vec<LT> = vec![];
    proto_vulcan!([|tz| { [1, 3 | tz] != [1, 3, 2], tz == [2] }, for e in &coll0 { [e, 3] != [_, qb, false | qb], 2 == [qb, e] }])
}
pub fn case_78(vars: &Vars) -> InferredGoal<DU, DE, Goal<DU, DE>> {
    let qa = vars.v[0].clone();
    let qb = vars.v[1].clone();
    let coll0: Vec<LT> = vec![lterm!(1), lterm!(3)];
    proto_vulcan!([for e in &coll0 { conde { qb == [qa], [true, 2 == [[2, 2, qa], qa]], [qb != [true], qb != [qa, 1]] } }])
}
pub fn case_79(vars: &Vars) -> InferredGoal<DU, DE, Goal<DU, DE>> {
    let qa = vars.v[0].clone();
    let qb = vars.v[1].clone();
    let coll0: LT = LT::from_vec(vec![lterm!(3)]);
    proto_vulcan!([for e in &coll0 { [e, "bc" | e] == qb, qa != [e, e, qa] }])
}
pub fn case_80(vars: &Vars) -> InferredGoal<DU, DE, Goal<DU, DE>> {
    let qa = vars.v[0].clone();
    let qb = vars.v[1].clone();
    let coll0: Vec<LT> = vec![];
    proto_vulcan!([|x, z| { [z] == 3 }, for e in &coll0 { [e == qa, e == [qa, _ | e]], conde { [qa == qb, 2 != qa], qb != [qb] } }])
}
pub fn case_81(vars: &Vars) -> InferredGoal<DU, DE, Goal<DU, DE>> {
    let qa = vars.v[0].clone();
    let qb = vars.v[1].clone();
    let coll0: Vec<LT> = vec![];
    proto_vulcan!([qa == [_, _, _ | _], for e in &coll0 { conde { member(qa, []), qb != [], [true, 1 == qb] } }])
}
pub fn case_82(vars: &Vars) -> InferredGoal<DU, DE, Goal<DU, DE>> {
    let qa = vars.v[0].clone();
    let qb = vars.v[1].clone();
    let coll0: Vec<LT> = vec![];
    proto_vulcan!([for e in &coll0 { [qa | qa] == qa, conde { false, [member(e, [1, 3, 3]), 1 != e] } }])
}
pub fn case_83(vars: &Vars) -> InferredGoal<DU, DE, Goal<DU, DE>> {
    let qa = vars.v[0].clone();
    let qb = vars.v[1].clone();
    let coll0: LT = LT::from_vec(vec![qa.clone()]);
    proto_vulcan!([[true, [3, 3, 'a'] == qa], for e in &coll0 { |t| { [2, e] == qb }, [e] == [2] }])
}
pub fn case_84(vars: &Vars) -> InferredGoal<DU, DE, Goal<DU, DE>> {
    let qa = vars.v[0].clone();
    let qb = vars.v[1].clone();
    let coll0: LT = LT::from_vec(vec![lterm!(2), lterm!([1]), qa.clone()]);
    proto_vulcan!([[2, 2, qa] != qa, for e in &coll0 { [[], e] == qa }])
}
pub fn case_85(vars: &Vars) -> InferredGoal<DU, DE, Goal<DU, DE>> {
    let qa = vars.v[0].clone();
    let qb = vars.v[1].clone();
    let coll0: Vec<LT> = vec![];
    proto_vulcan!([for e in &coll0 { [[qb], 3] == true }])
}
pub fn case_86(vars: &Vars) -> InferredGoal<DU, DE, Goal<DU, DE>> {
    let qa = vars.v[0].clone();
    let qb = vars.v[1].clone();
    let coll0: Vec<LT> = vec![lterm!(3), lterm!([2])];
    proto_vulcan!([for e in &coll0 { [[] | qa] == qa }])
}
pub fn case_87(vars: &Vars) -> InferredGoal<DU, DE, Goal<DU, DE>> {
    let qa = vars.v[0].clone();
    let qb = vars.v[1].clone();
    let coll0: LT = LT::from_vec(vec![lterm!(1)]);
    proto_vulcan!([for e in &coll0 { conde { [|tz| { [2, 1 | tz] != [2, 1, 2, 1], tz == [2, 1] }, append(qa, qa, [2, 3])], [qa == [_, 3], false], [|tz| { [2, 3, 2, 1] != [2, 3 | tz], tz == [2, 1] }, 1 != qa] }, [qb == e, qa != 3] }])
}
pub fn case_88(vars: &Vars) -> InferredGoal<DU, DE, Goal<DU, DE>> {
    let qa = vars.v[0].clone();
    let qb = vars.v[1].clone();
    let coll0: LT = LT::from_vec(vec![lterm!(3)]);
    proto_vulcan!([qa == [[], qb | qb], for e in &coll0 { |x| { |tz| { tz == [2], [2, 2] != [2 | tz] }, [1, _, 1] == x, [1, 2, [] | x] != e } }])
}
pub fn case_89(vars: &Vars) -> InferredGoal<DU, DE, Goal<DU, DE>> {
    let qa = vars.v[0].clone();
    let qb = vars.v[1].clone();
    let coll0: LT = LT::from_vec(vec![qa.clone()]);
    proto_vulcan!([[2] == qa, for e in &coll0 { conde { [[qa, qb, 1 | qb] == qa, |tz| { [2, 2 | tz] != [2, 2, 3], tz == [3] }], [qb, qa, _ | e] == e }, |h| { qa != e, [e, _ | 2] == e } }])
}
pub fn case_90(vars: &Vars) -> InferredGoal<DU, DE, Goal<DU, DE>> {
    let qa = vars.v[0].clone();
    let qb = vars.v[1].clone();
    let coll0: LT = LT::from_vec(vec![qa.clone(), lterm!(1), lterm!([2])]);
    proto_vulcan!([for e in &coll0 { qb != 2, [qa == e, qb == qb, [qb] == ["a", ["a"], e]] }])
}
pub fn case_91(vars: &Vars) -> InferredGoal<DU, DE, Goal<DU, DE>> {
    let qa = vars.v[0].clone();
    let qb = vars.v[1].clone();
    let coll0: Vec<LT> = vec![];
    proto_vulcan!([for e in &coll0 { qb != [e, 3 | e] }])
}
pub fn case_92(vars: &Vars) -> InferredGoal<DU, DE, Goal<DU, DE>> {
    let qa = vars.v[0].clone();
    let qb = vars.v[1].clone();
    let coll0: LT = LT::from_vec(vec![lterm!([2])]);
    proto_vulcan!([qb == [qa | qa], for e in &coll0 { [2] != qb, qa != qa }])
}
pub fn case_93(vars: &Vars) -> InferredGoal<DU, DE, Goal<DU, DE>> {
    let qa = vars.v[0].clone();
    let qb = vars.v[1].clone();
    let coll0: Vec<LT> = vec![];
    proto_vulcan!([for e in &coll0 { true, qb == [qb, 'a' | e] }])
}
pub fn case_94(vars: &Vars) -> InferredGoal<DU, DE, Goal<DU, DE>> {
    let qa = vars.v[0].clone();
    let qb = vars.v[1].clone();
    let coll0: Vec<LT> = vec![];
    proto_vulcan!([|x, y| { x == y }, for e in &coll0 { false, ["a" | qb] == [[_, _]] }])
}
pub fn case_95(vars: &Vars) -> InferredGoal<DU, DE, Goal<DU, DE>> {
    let qa = vars.v[0].clone();
    let qb = vars.v[1].clone();
    let coll0: Vec<LT> = vec![];
    proto_vulcan!([for e in &coll0 { [qa == [1, []], true] }])
}
pub fn case_96(vars: &Vars) -> InferredGoal<DU, DE, Goal<DU, DE>> {
    let qa = vars.v[0].clone();
    let qb = vars.v[1].clone();
    let coll0: Vec<LT> = vec![];
    proto_vulcan!([qa != [2, [1]], for e in &coll0 { qb != [[3, 1, 1] | qb], [append(qb, e, [1]), [[3, e], [[]]] == [e, 'b' | 3]] }])
}
pub fn case_97(vars: &Vars) -> InferredGoal<DU, DE, Goal<DU, DE>> {
    let qa = vars.v[0].clone();
    let qb = vars.v[1].clone();
    let coll0: LT = LT::from_vec(vec![lterm!(2), qb.clone(), lterm!(1)]);
    proto_vulcan!([qb == [qa, qa, 1], for e in &coll0 { |tz| { [3 | tz] != [3, 1], tz == [1] }, [[2, 2, 2 | "a"]] != e }])
}
pub fn case_98(vars: &Vars) -> InferredGoal<DU, DE, Goal<DU, DE>> {
    let qa = vars.v[0].clone();
    let qb = vars.v[1].clone();
    let coll0: LT = LT::from_vec(vec![lterm!(2)]);
    proto_vulcan!([for e in &coll0 { [['b'] != qb, [qb] == [["bc", "bc", qa], [1, 1, e], [[], []]]] }])
}
pub fn case_99(vars: &Vars) -> InferredGoal<DU, DE, Goal<DU, DE>> {
    let qa = vars.v[0].clone();
    let qb = vars.v[1].clone();
    let coll0: Vec<LT> = vec![];
    proto_vulcan!([[[1, _, []] == qb, qb != 3], for e in &coll0 { conde { [qb == [[] | qa], qa == [qa, _ | e]], [[qa, qa, e] == qb, member(e, [3, 3, 3])], qa == [1] } }])
}
pub fn case_100(vars: &Vars) -> InferredGoal<DU, DE, Goal<DU, DE>> {
    let qa = vars.v[0].clone();
    let qb = vars.v[1].clone();
    let coll0: LT = LT::from_vec(vec![lterm!(1)]);
    proto_vulcan!([for e in &coll0 { [[[[], 1]] != qb, true, 2 == qa] }])
}
pub fn case_101(vars: &Vars) -> InferredGoal<DU, DE, Goal<DU, DE>> {
    let qa = vars.v[0].clone();
    let qb = vars.v[1].clone();
    let coll0: LT = LT::from_vec(vec![lterm!([1]), lterm!(2), lterm!(3)]);
    proto_vulcan!([[] == qa, for e in &coll0 { e == [], [2, 3, e] == e }])
}
pub fn case_102(vars: &Vars) -> InferredGoal<DU, DE, Goal<DU, DE>> {
    let qa = vars.v[0].clone();
    let qb = vars.v[1].clone();
    let coll0: Vec<LT> = vec![];
    proto_vulcan!([for e in &coll0 { |x| { _ != x } }])
}
pub fn case_103(vars: &Vars) -> InferredGoal<DU, DE, Goal<DU, DE>> {
    let qa = vars.v[0].clone();
    let qb = vars.v[1].clone();
    let coll0: LT = LT::from_vec(vec![qb.clone(), lterm!(1), qb.clone()]);
    proto_vulcan!([for e in &coll0 { 3 == qa }])
}
pub fn case_104(vars: &Vars) -> InferredGoal<DU, DE, Goal<DU, DE>> {
    let qa = vars.v[0].clone();
    let qb = vars.v[1].clone();
    let coll0: Vec<LT> = vec![lterm!([1]), lterm!(2)];
    proto_vulcan!([qa == [], for e in &coll0 { |z| { e != [2] }, qb == [] }])
}
pub fn case_105(vars: &Vars) -> InferredGoal<DU, DE, Goal<DU, DE>> {
    let qa = vars.v[0].clone();
    let qb = vars.v[1].clone();
    let coll0: LT = LT::from_vec(vec![lterm!(2), lterm!(3), qb.clone()]);
    proto_vulcan!([for e in &coll0 { qb != qa, |h| { |tz| { [2, 2, 1] != [2 | tz], tz == [2, 1] } } }])
}
pub fn case_106(vars: &Vars) -> InferredGoal<DU, DE, Goal<DU, DE>> {
    let qa = vars.v[0].clone();
    let qb = vars.v[1].clone();
    let coll0: LT = LT::from_vec(vec![lterm!(3), lterm!(1), lterm!([2])]);
    proto_vulcan!([qa == [qb, qa], for e in &coll0 { qa == [[3], [1 | e] | e], [qb] == qa }])
}
pub fn case_107(vars: &Vars) -> InferredGoal<DU, DE, Goal<DU, DE>> {
    let qa = vars.v[0].clone();
    let qb = vars.v[1].clone();
    let coll0: LT = LT::from_vec(vec![lterm!(2)]);
    proto_vulcan!([[1, 1, "a"] == qa, for e in &coll0 { member(qa, [1]), [] != e }])
}
pub fn case_108(vars: &Vars) -> InferredGoal<DU, DE, Goal<DU, DE>> {
    let qa = vars.v[0].clone();
    let qb = vars.v[1].clone();
    let coll0: Vec<LT> = vec![];
    proto_vulcan!([for e in &coll0 { false }])
}
pub fn case_109(vars: &Vars) -> InferredGoal<DU, DE, Goal<DU, DE>> {
    let qa = vars.v[0].clone();
    let qb = vars.v[1].clone();
    let coll0: Vec<LT> = vec![];
    proto_vulcan!([|y, t| { t == 3, [y, qb] != qb, qa == 3 }, for e in &coll0 { qb == [3, [[]], [[], [], 3 | qa]] }])
}
pub fn case_110(vars: &Vars) -> InferredGoal<DU, DE, Goal<DU, DE>> {
    let qa = vars.v[0].clone();
    let qb = vars.v[1].clone();
    let coll0: Vec<LT> = vec![];
    proto_vulcan!([for e in &coll0 { qb != e }])
}
pub fn case_111(vars: &Vars) -> InferredGoal<DU, DE, Goal<DU, DE>> {
    let qa = vars.v[0].clone();
    let qb = vars.v[1].clone();
    let coll0: Vec<LT> = vec![lterm!(3), lterm!(2)];
    proto_vulcan!([for e in &coll0 { [2, _, [e]] != 3, qb == e }])
}
pub fn case_112(vars: &Vars) -> InferredGoal<DU, DE, Goal<DU, DE>> {
    let qa = vars.v[0].clone();
    let qb = vars.v[1].clone();
    let coll0: Vec<LT> = vec![lterm!(1), lterm!(2)];
    proto_vulcan!([for e in &coll0 { [2, qb, qb] == qb }])
}
pub fn case_113(vars: &Vars) -> InferredGoal<DU, DE, Goal<DU, DE>> {
    let qa = vars.v[0].clone();
    let qb = vars.v[1].clone();
    let coll0: LT = LT::from_vec(vec![qa.clone()]);
    proto_vulcan!([for e in &coll0 { [2, 2 | qb] == e }])
}
pub fn case_114(vars: &Vars) -> InferredGoal<DU, DE, Goal<DU, DE>> {
    let qa = vars.v[0].clone();
    let qb = vars.v[1].clone();
    let coll0: LT = LT::from_vec(vec![lterm!([1])]);
    proto_vulcan!([for e in &coll0 { [[e] | e] == e }])
}
pub fn case_115(vars: &Vars) -> InferredGoal<DU, DE, Goal<DU, DE>> {
    let qa = vars.v[0].clone();
    let qb = vars.v[1].clone();
    let coll0: LT = LT::from_vec(vec![lterm!(3)]);
    proto_vulcan!([false, for e in &coll0 { [qa, "a"] == e }])
}
pub fn case_116(vars: &Vars) -> InferredGoal<DU, DE, Goal<DU, DE>> {
    let qa = vars.v[0].clone();
    let qb = vars.v[1].clone();
    let coll0: Vec<LT> = vec![];
    proto_vulcan!([[1 == [qb, [[], []]], member(qb, [1, 2]), [1] == [qb, [false, qb] | qa]], for e in &coll0 { |z, x| { qa == _, qb == qa }, e == [] }])
}
pub fn case_117(vars: &Vars) -> InferredGoal<DU, DE, Goal<DU, DE>> {
    let qa = vars.v[0].clone();
    let qb = vars.v[1].clone();
    let coll0: Vec<LT> = vec![];
    proto_vulcan!([for e in &coll0 { conde { [qb == [1], append(qa, qb, [1])], [[[], [e], 1] == qa, qa != [2, 2 | qb]], 1 == 1 }, qa == ["bc", qb | qa] }])
}
pub fn case_118(vars: &Vars) -> InferredGoal<DU, DE, Goal<DU, DE>> {
    let qa = vars.v[0].clone();
    let qb = vars.v[1].clone();
    let coll0: Vec<LT> = vec![];
    proto_vulcan!([conde { [[qa, 2] == qa, true], append(qb, qb, [1, 3]), [1] != qb }, for e in &coll0 { e == [], conde { [[[true, _ | qb], [2, _, 3 | e] | 1] == qa, qa != qb], |tz| { tz == [1], [2, 2, 1] != [2, 2 | tz] } } }])
}
pub fn case_119(vars: &Vars) -> InferredGoal<DU, DE, Goal<DU, DE>> {
    let qa = vars.v[0].clone();
    let qb = vars.v[1].clone();
    let coll0: LT = LT::from_vec(vec![lterm!([1])]);
    proto_vulcan!([for e in &coll0 { qb == [[]] }])
}
pub fn case_120(vars: &Vars) -> InferredGoal<DU, DE, Goal<DU, DE>> {
    let qa = vars.v[0].clone();
    let qb = vars.v[1].clone();
    let coll0: LT = LT::from_vec(vec![lterm!(3)]);
    proto_vulcan!([for e in &coll0 { [] == qb, 2 == e }])
}
pub fn case_121(vars: &Vars) -> InferredGoal<DU, DE, Goal<DU, DE>> {
    let qa = vars.v[0].clone();
    let qb = vars.v[1].clone();
    let coll0: LT = LT::from_vec(vec![lterm!(3)]);
    proto_vulcan!([for e in &coll0 { _ == [[qa, true | true], [[], 2], []] }])
}
pub fn case_122(vars: &Vars) -> InferredGoal<DU, DE, Goal<DU, DE>> {
    let qa = vars.v[0].clone();
    let qb = vars.v[1].clone();
    let coll0: LT = LT::from_vec(vec![lterm!(2)]);
    proto_vulcan!([for e in &coll0 { append(qb, qa, []), [[[], _], qb, [qa, 1, []]] != _ }])
}
pub fn case_123(vars: &Vars) -> InferredGoal<DU, DE, Goal<DU, DE>> {
    let qa = vars.v[0].clone();
    let qb = vars.v[1].clone();
    let coll0: LT = LT::from_vec(vec![lterm!([1])]);
    proto_vulcan!([qb != ["bc", 1, 3 | qb], for e in &coll0 { false == [qb, 1] }])
}
pub fn case_124(vars: &Vars) -> InferredGoal<DU, DE, Goal<DU, DE>> {
    let qa = vars.v[0].clone();
    let qb = vars.v[1].clone();
    let coll0: Vec<LT> = vec![lterm!(1), lterm!([2])];
    proto_vulcan!([for e in &coll0 { member(e, []), [qb == qa, qb != [qb, _]] }])
}
pub fn case_125(vars: &Vars) -> InferredGoal<DU, DE, Goal<DU, DE>> {
    let qa = vars.v[0].clone();
    let qb = vars.v[1].clone();
    let coll0: Vec<LT> = vec![qa.clone(), qb.clone()];
    proto_vulcan!([for e in &coll0 { [2, 3, qb] == qb }])
}
pub fn case_126(vars: &Vars) -> InferredGoal<DU, DE, Goal<DU, DE>> {
    let qa = vars.v[0].clone();
    let qb = vars.v[1].clone();
    let coll0: LT = LT::from_vec(vec![lterm!(2)]);
    proto_vulcan!([[2] != qb, for e in &coll0 { true, qa == [1, e] }])
}
pub fn case_127(vars: &Vars) -> InferredGoal<DU, DE, Goal<DU, DE>> {
    let qa = vars.v[0].clone();
    let qb = vars.v[1].clone();
    let coll0: LT = LT::from_vec(vec![lterm!(3), qb.clone(), qb.clone()]);
    proto_vulcan!([qb != _, for e in &coll0 { conde { ["bc" != _, true], e != 1 } }])
}
pub fn case_128(vars: &Vars) -> InferredGoal<DU, DE, Goal<DU, DE>> {
    let qa = vars.v[0].clone();
    let qb = vars.v[1].clone();
    let coll0: Vec<LT> = vec![];
    proto_vulcan!([for e in &coll0 { qb == [], conde { qa == [1, [], 'b' | qb], [[1, e, [] | e] != qb, qb == [e | qa]], [[e] == qb, [1, [], e] != 'a'] } }])
}
pub fn case_129(vars: &Vars) -> InferredGoal<DU, DE, Goal<DU, DE>> {
    let qa = vars.v[0].clone();
    let qb = vars.v[1].clone();
    let coll0: Vec<LT> = vec![];
    proto_vulcan!([qb == qa, for e in &coll0 { |h, z| { append(qb, qa, [3, 3]), z != [2 | z] }, qb == 3 }])
}
pub fn case_130(vars: &Vars) -> InferredGoal<DU, DE, Goal<DU, DE>> {
    let qa = vars.v[0].clone();
    let qb = vars.v[1].clone();
    let coll0: LT = LT::from_vec(vec![lterm!(3), lterm!([2]), qa.clone()]);
    proto_vulcan!([for e in &coll0 { [e == qa, false, 3 == qb], false }])
}
pub fn case_131(vars: &Vars) -> InferredGoal<DU, DE, Goal<DU, DE>> {
    let qa = vars.v[0].clone();
    let qb = vars.v[1].clone();
    let coll0: LT = LT::from_vec(vec![lterm!(3), qb.clone(), lterm!(3)]);
    proto_vulcan!([for e in &coll0 { conde { [[] | e] == qa, 2 == qb }, [[1 | e], [[], e], [_, _]] == qb }])
}
pub fn case_132(vars: &Vars) -> InferredGoal<DU, DE, Goal<DU, DE>> {
    let qa = vars.v[0].clone();
    let qb = vars.v[1].clone();
    let coll0: Vec<LT> = vec![];
    proto_vulcan!([qa != [3, qa, 3 | qb], for e in &coll0 { |tz| { tz == [1, 1], [1 | tz] != [1, 1, 1] } }])
}
pub fn case_133(vars: &Vars) -> InferredGoal<DU, DE, Goal<DU, DE>> {
    let qa = vars.v[0].clone();
    let qb = vars.v[1].clone();
    let coll0: LT = LT::from_vec(vec![lterm!(3), lterm!(3), lterm!(3)]);
    proto_vulcan!([for e in &coll0 { [[qb, 'b', [qa, 3, false | 2]] == [2], [e, 2] != qa], |h| { [1, 3, h] == qb, qb == [h] } }])
}
pub fn case_134(vars: &Vars) -> InferredGoal<DU, DE, Goal<DU, DE>> {
    let qa = vars.v[0].clone();
    let qb = vars.v[1].clone();
    let coll0: Vec<LT> = vec![];
    proto_vulcan!([for e in &coll0 { append(qb, qa, []), qb == e }])
}
pub fn case_135(vars: &Vars) -> InferredGoal<DU, DE, Goal<DU, DE>> {
    let qa = vars.v[0].clone();
    let qb = vars.v[1].clone();
    let coll0: LT = LT::from_vec(vec![lterm!(2)]);
    proto_vulcan!([for e in &coll0 { [|tz| { tz == [2], [3, 3, 2] != [3, 3 | tz] }, append(e, qb, [2]), [[], qb, 1 | 'b'] == qa] }])
}
pub fn case_136(vars: &Vars) -> InferredGoal<DU, DE, Goal<DU, DE>> {
    let qa = vars.v[0].clone();
    let qb = vars.v[1].clone();
    let coll0: LT = LT::from_vec(vec![qa.clone(), lterm!(1), lterm!(3)]);
    proto_vulcan!([[true, append(qa, qb, [])], for e in &coll0 { qa != "bc" }])
}
pub fn case_137(vars: &Vars) -> InferredGoal<DU, DE, Goal<DU, DE>> {
    let qa = vars.v[0].clone();
    let qb = vars.v[1].clone();
    let coll0: LT = LT::from_vec(vec![lterm!([1]), lterm!(1), lterm!([1])]);
    proto_vulcan!([for e in &coll0 { 'a' == [2], [qa == [qa, qa | e], qa == [qb | qa]] }])
}
pub fn case_138(vars: &Vars) -> InferredGoal<DU, DE, Goal<DU, DE>> {
    let qa = vars.v[0].clone();
    let qb = vars.v[1].clone();
    let coll0: LT = LT::from_vec(vec![lterm!([1])]);
    proto_vulcan!([qb == [[qb | qb], [qb, 3, qa], [3, qb, qb]], for e in &coll0 { conde { |tz| { [3, 3] != [3 | tz], tz == [3] }, [e, [] | qb] == e, qa == [qb, 2, e] } }])
}
pub fn case_139(vars: &Vars) -> InferredGoal<DU, DE, Goal<DU, DE>> {
    let qa = vars.v[0].clone();
    let qb = vars.v[1].clone();
    let coll0: LT = LT::from_vec(vec![lterm!([2])]);
    proto_vulcan!([for e in &coll0 { |z, y| { [[], [y, 1, z | y], e] == y, _ != [[2, qa]], |tz| { [1 | tz] != [1, 1], tz == [1] } }, qb == _ }])
}
pub fn case_140(vars: &Vars) -> InferredGoal<DU, DE, Goal<DU, DE>> {
    let x = vars.v[0].clone();
    proto_vulcan!([match x { [x | _] => x == 1, }])
}
pub fn case_141(vars: &Vars) -> InferredGoal<DU, DE, Goal<DU, DE>> {
    let x = vars.v[0].clone();
    let y = vars.v[1].clone();
    proto_vulcan!([match x { [h, h] => h == y, }])
}
pub fn case_142(vars: &Vars) -> InferredGoal<DU, DE, Goal<DU, DE>> {
    let x = vars.v[0].clone();
    proto_vulcan!([match x { [] | [_] => , [_, _ | t] => t == [], }])
}
pub fn case_143(vars: &Vars) -> InferredGoal<DU, DE, Goal<DU, DE>> {
    let x = vars.v[0].clone();
    let y = vars.v[1].clone();
    proto_vulcan!([member(x, [1, 2]), matcha x { 1 => y == 10, _ => y == 20, }])
}
pub fn case_144(vars: &Vars) -> InferredGoal<DU, DE, Goal<DU, DE>> {
    let x = vars.v[0].clone();
    let y = vars.v[1].clone();
    proto_vulcan!([matchu [x, y] { [h, _] => member(h, [1, 2]), _ => , }])
}
pub fn case_145(vars: &Vars) -> InferredGoal<DU, DE, Goal<DU, DE>> {
    let x = vars.v[0].clone();
    proto_vulcan!([matche x { 1 | z => { [member(x, [3, 3, 2])], x == [x, x] }, }])
}
pub fn case_146(vars: &Vars) -> InferredGoal<DU, DE, Goal<DU, DE>> {
    let q = vars.v[0].clone();
    let x = vars.v[1].clone();
    proto_vulcan!([[false], matcha [q, q] { [[[]]] | [[t, x]] => , _ => , }])
}
pub fn case_147(vars: &Vars) -> InferredGoal<DU, DE, Goal<DU, DE>> {
    let x = vars.v[0].clone();
    let y = vars.v[1].clone();
    proto_vulcan!([matchu x { 1 | [[_, 3, _], [[] | t], [1, t | _] | h] => , [[2, [] | y], [], 'a' | _] => , }])
}
pub fn case_148(vars: &Vars) -> InferredGoal<DU, DE, Goal<DU, DE>> {
    let x = vars.v[0].clone();
    proto_vulcan!([matcha x { [[x | t], x, 1 | _] => [|y| { append(x, x, [2, 3]) }, match t { ["bc"] => { x != [[_, 'b', "bc"]] }, t | [[1, t, t | _], [3, 1] | 1] => , }], 1 => , }])
}
pub fn case_149(vars: &Vars) -> InferredGoal<DU, DE, Goal<DU, DE>> {
    let x = vars.v[0].clone();
    let y = vars.v[1].clone();
    proto_vulcan!([[x == x, [[x], 1 | y] == [[], []], x == [y, 'b' | x]], matche x { [[true], [[] | h]] => { [y == 2, append(h, x, [])], h != [2] }, }])
}
pub fn case_150(vars: &Vars) -> InferredGoal<DU, DE, Goal<DU, DE>> {
    let q = vars.v[0].clone();
    let x = vars.v[1].clone();
    proto_vulcan!([match 3 { y => , }])
}
pub fn case_151(vars: &Vars) -> InferredGoal<DU, DE, Goal<DU, DE>> {
    let x = vars.v[0].clone();
    proto_vulcan!([match x { [2] | [[x | t], 1] => , 2 => x != [3, [x, [] | x]], false => |x, z| { x == z }, }])
}
pub fn case_152(vars: &Vars) -> InferredGoal<DU, DE, Goal<DU, DE>> {
    let x = vars.v[0].clone();
    let y = vars.v[1].clone();
    proto_vulcan!([|t, h| { t != [y, _] }, matchu y { z => [conde { x == x, [member(y, [3, 3]), x == _] }, |tz| { [2, 3 | tz] != [2, 3, 1, 1], tz == [1, 1] }], }])
}
pub fn case_153(vars: &Vars) -> InferredGoal<DU, DE, Goal<DU, DE>> {
    let x = vars.v[0].clone();
    let y = vars.v[1].clone();
    proto_vulcan!([y == [], match x { [[h, []] | z] => { false, matcha h { [[h], [y, x]] => { [2, []] == _ }, 1 => , } }, t | [[y, 2, x], z, [h, 'a']] => , }])
}
pub fn case_154(vars: &Vars) -> InferredGoal<DU, DE, Goal<DU, DE>> {
    let x = vars.v[0].clone();
    let y = vars.v[1].clone();
    proto_vulcan!([matcha y { z => { matcha y { [[[], x], [h | x], ['a', z] | 3] | z => z == 2, 2 => , }, conde { append(x, x, []), [[y, x, "a"] == y, x == 2], [false, z == [1, z, 1]] } }, [1, x, 1] | [[[]], false | x] => { match x { [1 | t] | 1 => , [] => , }, |t, y| { true, x == [_ | t] } }, }])
}
pub fn case_155(vars: &Vars) -> InferredGoal<DU, DE, Goal<DU, DE>> {
    let x = vars.v[0].clone();
    proto_vulcan!([|tz| { tz == [3], [1 | tz] != [1, 3] }, matcha [2, _, x] { [_ | 1] | [3, h, [_, 1] | t] => , 1 | x => , }])
}
pub fn case_156(vars: &Vars) -> InferredGoal<DU, DE, Goal<DU, DE>> {
    let x = vars.v[0].clone();
    proto_vulcan!([condu { [[x, x, 3 | x] == x, x == 1], member(x, []), member(x, [3, 2, 2]) }, matche x { [[], 3] | [] => , }])
}
pub fn case_157(vars: &Vars) -> InferredGoal<DU, DE, Goal<DU, DE>> {
    let x = vars.v[0].clone();
    proto_vulcan!([matchu x { [h] => { match x { t => [_ == h, 2 == t], }, append(x, x, []) }, [2, _] => , }])
}
pub fn case_158(vars: &Vars) -> InferredGoal<DU, DE, Goal<DU, DE>> {
    let q = vars.v[0].clone();
    let x = vars.v[1].clone();
    proto_vulcan!([|t| { [[q], x, _] == x, true, x == q }, matchu q { [[1, 3, 3 | _] | 2] => [|h, t| { append(h, h, [3, 1]), [x, 2 | q] != h }, |h, z| { member(q, [1]), "bc" == h, append(q, h, []) }], }])
}
pub fn case_159(vars: &Vars) -> InferredGoal<DU, DE, Goal<DU, DE>> {
    let x = vars.v[0].clone();
    proto_vulcan!([match x { [[_, 3], _, 'b'] => , [x, _] | _ => , [t, []] | [_, [3, t, x] | y] => , }])
}
pub fn case_160(vars: &Vars) -> InferredGoal<DU, DE, Goal<DU, DE>> {
    let q = vars.v[0].clone();
    let x = vars.v[1].clone();
    proto_vulcan!([matcha q { 'b' => , [[_], [_, _, h], _] | [[1], _, [h, h]] => { matcha q { [] | 'a' => , } }, }])
}
pub fn case_161(vars: &Vars) -> InferredGoal<DU, DE, Goal<DU, DE>> {
    let x = vars.v[0].clone();
    let y = vars.v[1].clone();
    proto_vulcan!([matcha x { 1 => { x == [[y, x, x] | x] }, z => match y { 2 | "bc" => [x == x, [false, _, x] == z], y => { x != [y, 2, x | x], |tz| { [1, 1, 3] != [1, 1 | tz], tz == [3] } }, [y, [[], 1, t], [2, 1, y] | z] => , }, }])
}
pub fn case_162(vars: &Vars) -> InferredGoal<DU, DE, Goal<DU, DE>> {
    let q = vars.v[0].clone();
    let x = vars.v[1].clone();
    proto_vulcan!([matcha q { 2 => { |x, y| { [[]] == q }, x == [[q, 2, []], []] }, [z | x] => , [1] | [y, y, [z]] => , }])
}
pub fn case_163(vars: &Vars) -> InferredGoal<DU, DE, Goal<DU, DE>> {
    let x = vars.v[0].clone();
    let y = vars.v[1].clone();
    proto_vulcan!([conde { 1 == y, [x == [x, 'a', y], |tz| { tz == [3], [3, 3 | tz] != [3, 3, 3] }] }, matchu y { h => [[false, append(x, h, [3]), 2 == y], conde { [member(x, [2, 3]), x == y], member(y, []) }], y => , t => , }])
}
pub fn case_164(vars: &Vars) -> InferredGoal<DU, DE, Goal<DU, DE>> {
    let q = vars.v[0].clone();
    let x = vars.v[1].clone();
    proto_vulcan!([match [q, 3] { true | [x | _] => [[true] == q, 1 == q, 1 == q], 1 => , [['a', _ | y]] => , }])
}
pub fn case_165(vars: &Vars) -> InferredGoal<DU, DE, Goal<DU, DE>> {
    let q = vars.v[0].clone();
    let x = vars.v[1].clone();
    proto_vulcan!([[|tz| { [2, 3 | tz] != [2, 3, 2, 1], tz == [2, 1] }, x == [x, _ | q], x == q], matchu q { [2, [2 | z], [3, [] | _] | _] => , [1] => { matchu q { [x | _] => { append(x, x, [2]) }, [[_], [3, y | z], z] => { [1, y | x] == 1, append(y, z, []) }, } }, [[_, 'b']] => , }])
}
pub fn case_166(vars: &Vars) -> InferredGoal<DU, DE, Goal<DU, DE>> {
    let q = vars.v[0].clone();
    let x = vars.v[1].clone();
    proto_vulcan!([matche x { [[x | x], [1], t] => { t == [q, ["a"], _ | x] }, [_, [], [[], []]] => , [z | x] | z => , }])
}
pub fn case_167(vars: &Vars) -> InferredGoal<DU, DE, Goal<DU, DE>> {
    let x = vars.v[0].clone();
    proto_vulcan!([[x | x] != x, matchu x { ['b', [], [t, t]] => , "bc" => conde { false, [false, 3 == x], x == [[3, x | x], [1, _ | _] | x] }, ['b'] => { match x { [[[], 2, 2], [t], [false]] => [[x, x] == t, [2] == x], [1, [[] | y], 3 | y] => { [x, y | x] != x }, [_, 1] => , }, conde { [x == [1, x], _ == [x, [x, 1] | x]], append(x, x, []), [true, [_, [] | x] == x] } }, }])
}
pub fn case_168(vars: &Vars) -> InferredGoal<DU, DE, Goal<DU, DE>> {
    let q = vars.v[0].clone();
    let x = vars.v[1].clone();
    proto_vulcan!([matchu x { [2, [1], 2 | _] | [[h], [y, y, y]] => { false, append(x, q, []) }, [[[], 1, 1 | 2], [[], false, z | _] | z] => { |t, y| { false, [3, 1, t | x] != y }, [["bc"] == [[], q, 1], true] }, }])
}
pub fn case_169(vars: &Vars) -> InferredGoal<DU, DE, Goal<DU, DE>> {
    let x = vars.v[0].clone();
    let y = vars.v[1].clone();
    proto_vulcan!([matche x { [["bc", _ | x], 2] => { |tz| { tz == [2], [1 | tz] != [1, 2] } }, [[[], 1, x | x], [1, [], t], []] => [x == [1, 2, t], [] == y, |tz| { [3 | tz] != [3, 2, 3], tz == [2, 3] }], }])
}
pub fn case_170(vars: &Vars) -> InferredGoal<DU, DE, Goal<DU, DE>> {
    let x = vars.v[0].clone();
    let y = vars.v[1].clone();
    proto_vulcan!([conde { member(x, [3, 2, 2]), x == [[], y, y] }, matche x { _ => { [1] == x, |x| { [_, "bc" | x] == x, false } }, y => , 'a' | [[h, 'b'], [2, h, h | y]] => [|z, t| { false, append(z, t, [1]) }, [] == x], }])
}
pub fn case_171(vars: &Vars) -> InferredGoal<DU, DE, Goal<DU, DE>> {
    let x = vars.v[0].clone();
    proto_vulcan!([onceo { x == [x] }, matcha x { [["a" | y], [[], t | y], 2] => { conde { [[[] | t] == t, true], 1 == x, append(t, y, [3]) } }, 'a' => { match x { [[[], t, 2], [x, h], [false, 2, 2 | 1]] => append(x, x, [3, 3]), } }, }])
}
pub fn case_172(vars: &Vars) -> InferredGoal<DU, DE, Goal<DU, DE>> {
    let x = vars.v[0].clone();
    let y = vars.v[1].clone();
    proto_vulcan!([matchu [2] { [[1, [], x], 2] => , }])
}
pub fn case_173(vars: &Vars) -> InferredGoal<DU, DE, Goal<DU, DE>> {
    let q = vars.v[0].clone();
    let x = vars.v[1].clone();
    proto_vulcan!([matcha q { 1 => , }])
}
pub fn case_174(vars: &Vars) -> InferredGoal<DU, DE, Goal<DU, DE>> {
    let x = vars.v[0].clone();
    proto_vulcan!([conde { append(x, x, []), [x == [1, x | x], 3 != x] }, matche _ { 1 | 2 => |t| { member(x, []), t != [x, t | x] }, }])
}
pub fn case_175(vars: &Vars) -> InferredGoal<DU, DE, Goal<DU, DE>> {
    let q = vars.v[0].clone();
    let x = vars.v[1].clone();
    proto_vulcan!([match q { [[h | 2], [x, false, _], h] => , _ => , }])
}
pub fn case_176(vars: &Vars) -> InferredGoal<DU, DE, Goal<DU, DE>> {
    let q = vars.v[0].clone();
    let x = vars.v[1].clone();
    proto_vulcan!([|z| { true, q == z, _ == [q] }, matche x { [[]] => , [[3], [t, z | t] | 3] => [z == t], [2 | z] => , }])
}
pub fn case_177(vars: &Vars) -> InferredGoal<DU, DE, Goal<DU, DE>> {
    let q = vars.v[0].clone();
    let x = vars.v[1].clone();
    proto_vulcan!([[q, 2, [] | q] == q, matchu x { t | [_, []] => , 1 => , }])
}
pub fn case_178(vars: &Vars) -> InferredGoal<DU, DE, Goal<DU, DE>> {
    let q = vars.v[0].clone();
    let x = vars.v[1].clone();
    proto_vulcan!([matcha q { [[1, y, []] | x] => { match x { [[2, 'b', x] | h] | [[[]]] => { q == [y, q | y], [q, q] != q }, [2, [t | h], 1 | 1] => [3] != [true, 1 | x], } }, }])
}
pub fn case_179(vars: &Vars) -> InferredGoal<DU, DE, Goal<DU, DE>> {
    let x = vars.v[0].clone();
    let y = vars.v[1].clone();
    proto_vulcan!([matchu [2, []] { 2 => , [_, 1, [1, t] | x] | [3] => y == _, }])
}
pub fn case_180(vars: &Vars) -> InferredGoal<DU, DE, Goal<DU, DE>> {
    let x = vars.v[0].clone();
    let y = vars.v[1].clone();
    proto_vulcan!([[append(y, y, [3, 1])], matche y { ['b', [x, _, [] | x], 1 | t] => [[y, 2, 3], [3, x], y] != false, }])
}
pub fn case_181(vars: &Vars) -> InferredGoal<DU, DE, Goal<DU, DE>> {
    let x = vars.v[0].clone();
    let y = vars.v[1].clone();
    proto_vulcan!([matche x { [z, [_, 2 | h]] => , t | [[z]] => { y != [y, y, 'a'], conde { false, [[] == [x, 1], member(x, [])] } }, y => , }])
}
pub fn case_182(vars: &Vars) -> InferredGoal<DU, DE, Goal<DU, DE>> {
    let q = vars.v[0].clone();
    let x = vars.v[1].clone();
    proto_vulcan!([q == q, match [3, 2] { t => , h | [[_], _, [h, [] | y] | _] => { |x| { q == [3, q, _], x == ['a' | q], append(x, x, [1]) } }, }])
}
pub fn case_183(vars: &Vars) -> InferredGoal<DU, DE, Goal<DU, DE>> {
    let x = vars.v[0].clone();
    proto_vulcan!([x == x, matcha ["a", x] { [1, [1, t]] => [x == 1, conde { [x == [t, x, t], 3 == x], [x == [true, x], [] == t] }], [y, "a"] => , [[z], [_], h | 3] => { [[_ | z], [1, 1]] == 'a' }, }])
}
pub fn case_184(vars: &Vars) -> InferredGoal<DU, DE, Goal<DU, DE>> {
    let x = vars.v[0].clone();
    let y = vars.v[1].clone();
    proto_vulcan!([matcha y { h => , }])
}
pub fn case_185(vars: &Vars) -> InferredGoal<DU, DE, Goal<DU, DE>> {
    let x = vars.v[0].clone();
    let y = vars.v[1].clone();
    proto_vulcan!([matche x { [[h], ["a" | t]] => { onceo { x != x }, matche t { h | 2 => { [[x | y], [[], 'a'], [1, t]] != y }, } }, y => , }])
}
pub fn case_186(vars: &Vars) -> InferredGoal<DU, DE, Goal<DU, DE>> {
    let x = vars.v[0].clone();
    let y = vars.v[1].clone();
    proto_vulcan!([match y { "bc" => , }])
}
pub fn case_187(vars: &Vars) -> InferredGoal<DU, DE, Goal<DU, DE>> {
    let x = vars.v[0].clone();
    let y = vars.v[1].clone();
    proto_vulcan!([condu { [["bc"] == y, x == [[], 'b', y]] }, match x { [false] => { |h| { x != [_, x], [h, [_] | y] == x }, true }, [[y | x], [3]] => { x == [x, y, y], matchu [x] { [_, [1 | t], [[], [], t]] => { x == 3 }, 3 => { false }, 1 => , } }, }])
}
pub fn case_188(vars: &Vars) -> InferredGoal<DU, DE, Goal<DU, DE>> {
    let x = vars.v[0].clone();
    proto_vulcan!([[x == [_], [x | x] != x, |tz| { tz == [3, 3], [1, 1, 3, 3] != [1, 1 | tz] }], matcha x { "a" => , x => , }])
}
pub fn case_189(vars: &Vars) -> InferredGoal<DU, DE, Goal<DU, DE>> {
    let x = vars.v[0].clone();
    proto_vulcan!([|h| { _ != [2, x] }, matcha x { [[h, false | _], [true, 1] | _] | [z] => { conde { [[x] == x, ['a' | x] == x], [x == x, [x | x] == x], [true, true] }, match x { t => [member(t, []), x == 2], x => , } }, [_ | y] | [x, [[], _ | y], [x, 2, 1] | z] => , [1, [_, y, x], x] => , }])
}
pub fn case_190(vars: &Vars) -> InferredGoal<DU, DE, Goal<DU, DE>> {
    let x = vars.v[0].clone();
    let y = vars.v[1].clone();
    proto_vulcan!([matchu y { [] => { onceo { member(x, [1, 3, 2]) } }, [] | x => [append(y, y, [3, 2])], [3 | y] | [[z, _, x], [1, z] | y] => [[y | y] == y, [y] != [[y, _], [1 | y], [[], "bc"] | y], [y, y, y] != y], }])
}
pub fn case_191(vars: &Vars) -> InferredGoal<DU, DE, Goal<DU, DE>> {
    let x = vars.v[0].clone();
    let y = vars.v[1].clone();
    proto_vulcan!([matchu y { [2] => , z => [[[3 | x]] == x, |tz| { tz == [3], [2, 3] != [2 | tz] }], [h, y] => [|y| { |tz| { [2, 3, 2] != [2, 3 | tz], tz == [2] } }, [x == [[], h], x == [h, 2]]], }])
}
pub fn case_192(vars: &Vars) -> InferredGoal<DU, DE, Goal<DU, DE>> {
    let x = vars.v[0].clone();
    proto_vulcan!([matche [x] { [z, [3] | _] => [conde { [append(x, x, [1, 3]), z == [z, []]], z != [[1, x], [x, []]] }, |t, y| { z == [1, z] }], [[y, 3]] | [[2, x, []], [2, y, 2] | 2] => , _ => { [[], x | x] != x, conde { [[[x, 2, x]] == x, [x] == x], [append(x, x, [3]), x == [true]], [[1, 2 | x] == x, x == [[], x]] } }, }])
}
pub fn case_193(vars: &Vars) -> InferredGoal<DU, DE, Goal<DU, DE>> {
    let x = vars.v[0].clone();
    proto_vulcan!([onceo { |tz| { [3, 3 | tz] != [3, 3, 1], tz == [1] } }, match [[]] { [2] => { |z| { z != z, x == [x, z, x] } }, }])
}
pub fn case_194(vars: &Vars) -> InferredGoal<DU, DE, Goal<DU, DE>> {
    let q = vars.v[0].clone();
    let x = vars.v[1].clone();
    proto_vulcan!([matcha x { false => [_ == x, 3 == x], }])
}
pub fn case_195(vars: &Vars) -> InferredGoal<DU, DE, Goal<DU, DE>> {
    let x = vars.v[0].clone();
    proto_vulcan!([match x { [] | 2 => x == x, [[x | _], 2, 2] | [z, [h, 3 | 2], _ | _] => , }])
}
pub fn case_196(vars: &Vars) -> InferredGoal<DU, DE, Goal<DU, DE>> {
    let x = vars.v[0].clone();
    proto_vulcan!([matche x { [[z], [[]] | _] => { |z| { z == z, 1 == z, [3] == z } }, }])
}
pub fn case_197(vars: &Vars) -> InferredGoal<DU, DE, Goal<DU, DE>> {
    let q = vars.v[0].clone();
    let x = vars.v[1].clone();
    proto_vulcan!([|x, t| { false, append(x, t, [2, 1]) }, match [x, [] | x] { 3 => , [[t, 3], [1], [[], 3, 1]] => x == x, t => { conde { [|tz| { [1, 3 | tz] != [1, 3, 1], tz == [1] }, [[1, t]] == t], q == [3] }, |t| { |tz| { [3, 2] != [3 | tz], tz == [2] } } }, }])
}
pub fn case_198(vars: &Vars) -> InferredGoal<DU, DE, Goal<DU, DE>> {
    let x = vars.v[0].clone();
    let y = vars.v[1].clone();
    proto_vulcan!([y == y, match y { [[2, y, h]] => { true }, x => match [_, y] { [[_], []] => { x == [[]], false }, }, }])
}
pub fn case_199(vars: &Vars) -> InferredGoal<DU, DE, Goal<DU, DE>> {
    let q = vars.v[0].clone();
    let x = vars.v[1].clone();
    proto_vulcan!([matchu q { [false] | x => { [3, q | q] == q }, [[1 | z], [x, 2], [false, x | 2] | 2] | [[3 | _], x, [2] | _] => { |z, t| { false, t == [2, [] | t], 2 == [t] } }, }])
}
pub fn case_200(vars: &Vars) -> InferredGoal<DU, DE, Goal<DU, DE>> {
    let q = vars.v[0].clone();
    let x = vars.v[1].clone();
    proto_vulcan!([q == [1, q | q], matche q { 1 => , }])
}
pub fn case_201(vars: &Vars) -> InferredGoal<DU, DE, Goal<DU, DE>> {
    let x = vars.v[0].clone();
    proto_vulcan!([matchu x { [[1], x, [true, 1, 1] | _] => , }])
}
pub fn case_202(vars: &Vars) -> InferredGoal<DU, DE, Goal<DU, DE>> {
    let x = vars.v[0].clone();
    let y = vars.v[1].clone();
    proto_vulcan!([[2, []] == x, matcha y { x | x => , }])
}
pub fn case_203(vars: &Vars) -> InferredGoal<DU, DE, Goal<DU, DE>> {
    let x = vars.v[0].clone();
    let y = vars.v[1].clone();
    proto_vulcan!([matchu x { [[true, 3, _]] | [[z], [z, [], false | x] | t] => |t| { [y, [y, y], [y, t]] != false }, [[t, []]] => , y | [[h, _, t], [_, []]] => { append(x, x, []), member(x, [3, 1, 2]) }, }])
}
pub fn case_204(vars: &Vars) -> InferredGoal<DU, DE, Goal<DU, DE>> {
    let q = vars.v[0].clone();
    let x = vars.v[1].clone();
    proto_vulcan!([|h| { append(x, x, [3]), true, 3 == [[q, 3], [[]], [x, h, x | h] | x] }, match [1, 1, _] { [[[] | h], ['a'], 2 | _] => { |tz| { tz == [2, 2], [1, 1, 2, 2] != [1, 1 | tz] }, |x, h| { [x, x | h] != x } }, 'a' => , }])
}
pub fn case_205(vars: &Vars) -> InferredGoal<DU, DE, Goal<DU, DE>> {
    let q = vars.v[0].clone();
    let x = vars.v[1].clone();
    proto_vulcan!([matchu [true, 'b' | q] { [[2 | 2] | t] => , [_ | 3] => , [[1, x] | z] => , }])
}
pub fn case_206(vars: &Vars) -> InferredGoal<DU, DE, Goal<DU, DE>> {
    let x = vars.v[0].clone();
    proto_vulcan!([onceo { x == x }, matcha x { [[[] | z]] | [[y | t]] => { x != 1, |z| { [[2, []]] == z, member(z, []), z != [z, 'b'] } }, }])
}
pub fn case_207(vars: &Vars) -> InferredGoal<DU, DE, Goal<DU, DE>> {
    let q = vars.v[0].clone();
    let x = vars.v[1].clone();
    proto_vulcan!([matchu q { [x, [1, x], [h, y]] => [condu { append(x, y, [1]), q == [2, [], [x, false]], [[3, 'b'], [x, 1 | y]] != [_, "a", y] }, matche h { 3 => , [[3], 2, 1] => { ['b', 1, [x, 1]] == h, member(h, [1, 1]) }, [2, [x], [t]] => , }], [[y], x, z] => |y, z| { z == [y, 1 | q], [[y] | x] == _, x == y }, }])
}
pub fn case_208(vars: &Vars) -> InferredGoal<DU, DE, Goal<DU, DE>> {
    let x = vars.v[0].clone();
    proto_vulcan!([false, matchu x { [[x, h, x], [t, h]] => , [[3] | y] | [[1, 3, t | x], h] => , }])
}
pub fn case_209(vars: &Vars) -> InferredGoal<DU, DE, Goal<DU, DE>> {
    let q = vars.v[0].clone();
    let x = vars.v[1].clone();
    proto_vulcan!([|y, t| { [q] == x, [q] == x }, matchu x { [3, [2, 2 | t]] => , [[t, [], 1], [false | t], z] => { match t { [[h], h] | 2 => [t == [[t], [[]]], x == [z, q]], } }, }])
}
pub fn case_210(vars: &Vars) -> InferredGoal<DU, DE, Goal<DU, DE>> {
    let q = vars.v[0].clone();
    let x = vars.v[1].clone();
    proto_vulcan!([|y| { true, q == [y | y] }, match q { 2 => , }])
}
pub fn case_211(vars: &Vars) -> InferredGoal<DU, DE, Goal<DU, DE>> {
    let q = vars.v[0].clone();
    let x = vars.v[1].clone();
    proto_vulcan!([[1 != [[[], x, x | q], [q, 1, []], [x] | false], true, append(x, q, [3])], matcha x { [[1, h, [] | z], [[], _, y | h], [z | 1]] | [[y, 3], x, h] => , }])
}
pub fn case_212(vars: &Vars) -> InferredGoal<DU, DE, Goal<DU, DE>> {
    let x = vars.v[0].clone();
    let y = vars.v[1].clone();
    proto_vulcan!([x != [2, y], matchu y { [z, z, "bc"] => |h, y| { _ == x, member(z, [2, 2, 3]) }, }])
}
pub fn case_213(vars: &Vars) -> InferredGoal<DU, DE, Goal<DU, DE>> {
    let x = vars.v[0].clone();
    let y = vars.v[1].clone();
    proto_vulcan!([[[[x, 2, y | x], [_, 1], [x, 2]] == [[2, 1], ["bc", 1]]], matchu y { [] => [[x != [3, [], x | y], [y] == [2, [2 | _]]], |x, t| { t == [[_, t], [t, 2], [2]] }], [[1, [], h | h]] => , }])
}
pub fn case_214(vars: &Vars) -> InferredGoal<DU, DE, Goal<DU, DE>> {
    let x = vars.v[0].clone();
    proto_vulcan!([matcha x { [[1 | "bc"]] => { [[[], 2, [x, x, x] | x] != x, true, [] != x] }, [1, [[], 2, 1] | y] => , }])
}
pub fn case_215(vars: &Vars) -> InferredGoal<DU, DE, Goal<DU, DE>> {
    let q = vars.v[0].clone();
    let x = vars.v[1].clone();
    proto_vulcan!([matche x { [[z, 2], 3, [3, z, 2] | x] => { [2] == x, [q] == x }, }])
}
pub fn case_216(vars: &Vars) -> InferredGoal<DU, DE, Goal<DU, DE>> {
    let x = vars.v[0].clone();
    proto_vulcan!([matche x { h => [x == h, [[2, x, [] | h], [[], x, x]] == x], 1 => , [_, [[], z, 3 | x]] => { |t| { z == [z, 'b'], append(x, x, [1]) }, [] == z }, }])
}
pub fn case_217(vars: &Vars) -> InferredGoal<DU, DE, Goal<DU, DE>> {
    let x = vars.v[0].clone();
    let y = vars.v[1].clone();
    proto_vulcan!([matcha y { [[3, [], []], [1]] | [] => , }])
}
pub fn case_218(vars: &Vars) -> InferredGoal<DU, DE, Goal<DU, DE>> {
    let q = vars.v[0].clone();
    let x = vars.v[1].clone();
    proto_vulcan!([true, match x { 2 => , [y, 1 | t] | [3, [_, x]] => { |z, x| { z == x, [q, ["a"]] != x } }, 3 => { condu { [x == q, x == []] } }, }])
}
pub fn case_219(vars: &Vars) -> InferredGoal<DU, DE, Goal<DU, DE>> {
    let q = vars.v[0].clone();
    let x = vars.v[1].clone();
    proto_vulcan!([matche x { [z | _] => [|z| { member(q, [1]), [_] == x }, [1, 1, x | z] == x], [[z, 1], 1 | _] | 1 => { [[[1, _], x | x] == [q], ["bc"] != x, q == q], x == q }, 1 => |y| { x == [x, 1] }, }])
}
pub fn case_220(vars: &Vars) -> InferredGoal<DU, DE, Goal<DU, DE>> {
    let x = vars.v[0].clone();
    let y = vars.v[1].clone();
    proto_vulcan!([matche x { [2, [_, t]] | [["a"], y | 2] => [false, onceo { [[1], [x, x | x] | x] != _ }], }])
}
pub fn case_221(vars: &Vars) -> InferredGoal<DU, DE, Goal<DU, DE>> {
    let q = vars.v[0].clone();
    let x = vars.v[1].clone();
    proto_vulcan!([x != "bc", matcha [_, "bc"] { 2 | [[z, 2 | _] | y] => { matche q { h | 3 => , [[1, 3, []] | 1] => { 2 == x }, [[x, "a"], [z, [], _]] => [[[1, true], [], [[], [], 2] | q] == x, |tz| { tz == [3], [2, 2 | tz] != [2, 2, 3] }], } }, [[1, h | h]] => [[[] | q], [[], _, q] | h] == q, }])
}
pub fn case_222(vars: &Vars) -> InferredGoal<DU, DE, Goal<DU, DE>> {
    let q = vars.v[0].clone();
    let x = vars.v[1].clone();
    proto_vulcan!([x == q, matcha [3 | x] { 2 | [_, [x, h]] => |t| { t == [_, []] }, y | x => { conde { [[2 | q] == q, member(q, [1, 2, 1])], [q == [2, q, []], q != [q | q]], [q != q, q == []] } }, }])
}
pub fn case_223(vars: &Vars) -> InferredGoal<DU, DE, Goal<DU, DE>> {
    let x = vars.v[0].clone();
    proto_vulcan!([matchu x { [2, [[], [], t], h] => { |h, y| { t != [x, 'a'], member(x, [3, 1]), [[2, [], _]] == h } }, }])
}
pub fn case_224(vars: &Vars) -> InferredGoal<DU, DE, Goal<DU, DE>> {
    let q = vars.v[0].clone();
    let x = vars.v[1].clone();
    proto_vulcan!([|y, z| { true }, matche [x, q, x] { [[], y] => { true }, t => { match x { [[y], 3, y] | [[]] => , } }, [[false | _], 3, z | t] => , }])
}
pub fn case_225(vars: &Vars) -> InferredGoal<DU, DE, Goal<DU, DE>> {
    let x = vars.v[0].clone();
    proto_vulcan!([matche [2, 'a', _ | x] { [[h, 1, z] | x] | [[false, 1 | t], [t, x, 1] | 2] => { onceo { x == [2, x, x] } }, }])
}
pub fn case_226(vars: &Vars) -> InferredGoal<DU, DE, Goal<DU, DE>> {
    let x = vars.v[0].clone();
    proto_vulcan!([[2, 2, x] == x, matche x { [_, [2, z, t], t] | [[_, _], x, [_ | x]] => , [] => conde { [] != [[x, x, 1], 2, [x, 3] | x], [x != [x], member(x, [2])] }, [[3, 2, [] | "bc"], [y, 2], [_]] => { match y { 2 => { [[2, false, y | y], [x, 3, 3 | x]] == 1 }, [[z], [1], 1] | 1 => [y != [['b', 2], _ | y], x == [2]], 3 => y == [1, [], y], }, [false, y == [x, _, []]] }, }])
}
pub fn case_227(vars: &Vars) -> InferredGoal<DU, DE, Goal<DU, DE>> {
    let x = vars.v[0].clone();
    proto_vulcan!([|x| { append(x, x, []), [x, 1, x] == x, member(x, [3, 1]) }, matche x { t => , 2 => , 1 | [[1, y, true], [1, t | 'a']] => [[x, 1] == x, [x != [true, _], |tz| { [1, 1 | tz] != [1, 1, 2], tz == [2] }]], }])
}
pub fn case_228(vars: &Vars) -> InferredGoal<DU, DE, Goal<DU, DE>> {
    let x = vars.v[0].clone();
    proto_vulcan!([match x { [[2], 1] | [["bc"], [2 | _], [[], [], []]] => [|tz| { [3, 2, 3, 3] != [3, 2 | tz], tz == [3, 3] }, |y| { 2 == x, 2 == y }], [_, true, [h, 1 | 1]] | 'b' => false, [[x, 2], y, [2, _]] => , }])
}
pub fn case_229(vars: &Vars) -> InferredGoal<DU, DE, Goal<DU, DE>> {
    let x = vars.v[0].clone();
    let y = vars.v[1].clone();
    proto_vulcan!([[x != [1], false], matcha x { [[_, _]] => , [[_, y], [x, h, 1] | _] => , }])
}
pub fn case_230(vars: &Vars) -> InferredGoal<DU, DE, Goal<DU, DE>> {
    let q = vars.v[0].clone();
    let x = vars.v[1].clone();
    proto_vulcan!([|x| { append(x, x, [3, 1]), append(q, q, []) }, matche q { 2 | [[t | _], h, y | z] => , [[1, "bc", h | 3]] => { |tz| { [2, 1] != [2 | tz], tz == [1] } }, }])
}
pub fn case_231(vars: &Vars) -> InferredGoal<DU, DE, Goal<DU, DE>> {
    let x = vars.v[0].clone();
    let y = vars.v[1].clone();
    proto_vulcan!([append(y, x, []), matche 2 { 1 => [x == x, |h, t| { |tz| { tz == [2, 3], [2 | tz] != [2, 2, 3] } }], [] | [t] => [[_, [], x | y] == y, [x == 3, true, y == [3, 3]]], }])
}
pub fn case_232(vars: &Vars) -> InferredGoal<DU, DE, Goal<DU, DE>> {
    let x = vars.v[0].clone();
    let y = vars.v[1].clone();
    proto_vulcan!([matche x { 2 => { [_, [y, [] | _], [2, []]] == y }, [[], [_], 1 | _] => [y == x, match y { [[_ | h], [t | 1] | _] => { y == [[], _], [[], 3 | x] == y }, }], }])
}
pub fn case_233(vars: &Vars) -> InferredGoal<DU, DE, Goal<DU, DE>> {
    let x = vars.v[0].clone();
    let y = vars.v[1].clone();
    proto_vulcan!([matchu x { [[h, 3, z], 2, [3, z, h | x]] => matcha x { [[t, 2]] | _ => { member(z, [2]), [y, [], x | x] != _ }, h | [] => { [_] == [false, 1 | x], z == z }, [[h, t, false], [2, _ | _], 3] => { member(t, []), append(x, y, []) }, }, }])
}
pub fn case_234(vars: &Vars) -> InferredGoal<DU, DE, Goal<DU, DE>> {
    let x = vars.v[0].clone();
    proto_vulcan!([[x, x, 2 | x] == x, match x { [[[]], [true | "bc"] | 1] => [[append(x, x, [2]), [x] == x, [] == 2], [2, x, "bc" | x] == x], 1 => [condu { [[x, _, 2] == x, [_, []] == x], [2 | x] == x }, condu { [x == [x, _], member(x, [])], [['a'] == [[2, 2], [2, 3, 3] | x], x != ["bc", [_, 2]]], ['a' | x] != x }], [[] | z] => , }])
}
pub fn case_235(vars: &Vars) -> InferredGoal<DU, DE, Goal<DU, DE>> {
    let x = vars.v[0].clone();
    let y = vars.v[1].clone();
    proto_vulcan!([[x | x] == y, match [2 | y] { [t] => |x, z| { false, false }, [['b', 3], t, 3 | h] => , }])
}
pub fn case_236(vars: &Vars) -> InferredGoal<DU, DE, Goal<DU, DE>> {
    let x = vars.v[0].clone();
    let y = vars.v[1].clone();
    proto_vulcan!([matchu [y] { [[3, 1, x]] | y => , [[1, _, false], ['a' | z], _] => , 2 | ["bc", _ | _] => [|t, h| { [x, 2, 1 | t] == x, |tz| { [2, 1 | tz] != [2, 1, 3, 3], tz == [3, 3] } }, conde { [y == true, y == x], [x != [1], x != [y | y]], x == [x] }], }])
}
pub fn case_237(vars: &Vars) -> InferredGoal<DU, DE, Goal<DU, DE>> {
    let x = vars.v[0].clone();
    let y = vars.v[1].clone();
    proto_vulcan!([matchu x { [[_, t, _], [z, "bc"], 1] => { conda { [true, x != [z]], [z == z, t == z], member(x, []) } }, [[]] => { condu { [[[x | x], [_], [x, x]] == y, y == 3], true, [|tz| { [1 | tz] != [1, 2], tz == [2] }, [true, y, []] != y] }, [[x | x] != y, false, x == [1, 3, "a"]] }, [[h, 1, h], [2, x] | x] => , }])
}
pub fn case_238(vars: &Vars) -> InferredGoal<DU, DE, Goal<DU, DE>> {
    let x = vars.v[0].clone();
    proto_vulcan!([member(x, [3, 2, 3]), match x { z | [[1, []], [[]]] => [onceo { x == [x, x, _ | x] }, x != [[], 'a', x | x]], [h, 2, x] => , [[2, [], y], [1, _ | x], [1, 1] | _] | x => , }])
}
pub fn case_239(vars: &Vars) -> InferredGoal<DU, DE, Goal<DU, DE>> {
    let q = vars.v[0].clone();
    let x = vars.v[1].clone();
    proto_vulcan!([match x { h | "bc" => , 1 | _ => { x == x }, [3, y, [2, []] | _] | [[3, x, x], [t, [], x], x | 2] => { |t, h| { true, 1 == q, [2, h | t] == h }, [[1] != q, false, [1] == q] }, }])
}
pub fn case_240(vars: &Vars) -> InferredGoal<DU, DE, Goal<DU, DE>> {
    let q = vars.v[0].clone();
    let x = vars.v[1].clone();
    proto_vulcan!([matchu x { z | 3 => , [[3]] => { x == "bc" }, [[2], [y], [_, 3]] => { matchu q { [[] | z] => , [1, [2, _ | _] | h] => true, }, onceo { y == [2, y, x] } }, }])
}
pub fn case_241(vars: &Vars) -> InferredGoal<DU, DE, Goal<DU, DE>> {
    let q = vars.v[0].clone();
    let x = vars.v[1].clone();
    proto_vulcan!([matcha x { 2 => , [[1]] => , [[1], [] | 2] | [[h, x, 3]] => |y| { [[1, q, [] | q]] == y }, }])
}
pub fn case_242(vars: &Vars) -> InferredGoal<DU, DE, Goal<DU, DE>> {
    let x = vars.v[0].clone();
    let y = vars.v[1].clone();
    proto_vulcan!([y == [2, x | 'a'], match x { [[y, z, z | y] | _] | x => , }])
}
pub fn case_243(vars: &Vars) -> InferredGoal<DU, DE, Goal<DU, DE>> {
    let x = vars.v[0].clone();
    let y = vars.v[1].clone();
    proto_vulcan!([|z| { y == [2], false }, match y { [[false] | x] => , [y, x] => { matcha x { 2 => , [[t, 2] | "bc"] => , }, member(y, []) }, [2 | y] => { conde { [] != [[1, 3, y | y] | y], [append(y, y, [2, 1]), [] == x] } }, }])
}
pub fn case_244(vars: &Vars) -> InferredGoal<DU, DE, Goal<DU, DE>> {
    let q = vars.v[0].clone();
    let x = vars.v[1].clone();
    proto_vulcan!([matchu x { [[x]] | 3 => [onceo { false != q }, conda { append(q, q, []) }], }])
}
pub fn case_245(vars: &Vars) -> InferredGoal<DU, DE, Goal<DU, DE>> {
    let x = vars.v[0].clone();
    let y = vars.v[1].clone();
    proto_vulcan!([matcha x { [[2, 3], [y, 1 | z], z] => z == 2, x => , }])
}
pub fn case_246(vars: &Vars) -> InferredGoal<DU, DE, Goal<DU, DE>> {
    let x = vars.v[0].clone();
    let y = vars.v[1].clone();
    proto_vulcan!([x == [x, x], match x { [[h, 2, _ | y]] => false, [t, [x], 2] => , 1 => [matchu x { 2 => , }, false], }])
}
pub fn case_247(vars: &Vars) -> InferredGoal<DU, DE, Goal<DU, DE>> {
    let x = vars.v[0].clone();
    let y = vars.v[1].clone();
    proto_vulcan!([matche y { ['a', [2, _]] => , _ => [|t, h| { [[x, y], [y, h, 2]] != h }, matchu x { [[[]], 2 | 1] | [[3], [x, false] | _] => { member(y, []) }, [y, [_, 2, 2 | _]] => [false == y, |tz| { tz == [2, 1], [2 | tz] != [2, 2, 1] }], [2, [[], y, y], [t, 'a' | _]] => { [[y, [], 3 | y], [1, 3] | t] == t }, }], [[[]], ["bc", "bc" | t], [z]] | 3 => [conde { [append(x, x, [2]), true], [true, x == [_ | y]] }, matcha x { z => |tz| { tz == [1, 1], [1, 1, 1, 1] != [1, 1 | tz] }, [h, z, [_, y | y]] => [h == [h, "a", _], h == [x]], 1 => [y != [_, 2], y == ["a", y, y | y]], }], }])
}
pub fn case_248(vars: &Vars) -> InferredGoal<DU, DE, Goal<DU, DE>> {
    let x = vars.v[0].clone();
    let y = vars.v[1].clone();
    proto_vulcan!([matcha x { [t] => { matchu [3, _] { [[t]] => , } }, }])
}
pub fn case_249(vars: &Vars) -> InferredGoal<DU, DE, Goal<DU, DE>> {
    let x = vars.v[0].clone();
    let y = vars.v[1].clone();
    proto_vulcan!([match [x] { [[h], [z, _ | _]] => { |t, y| { [1] == y, append(t, x, [2, 2]), false }, condu { [[1] != z, [[]] == h], [member(x, [2, 2]), x != [[x, 3] | h]], [['a', [[], "bc"], y] == h, ["bc", h | h] == [[[]]]] } }, [[z, y | z], [h] | _] => { 'a' == h }, }])
}
pub fn case_250(vars: &Vars) -> InferredGoal<DU, DE, Goal<DU, DE>> {
    let x = vars.v[0].clone();
    proto_vulcan!([matcha x { [[[], z | 2], true, 1 | 1] | [[h, t, h]] => , }])
}
pub fn case_251(vars: &Vars) -> InferredGoal<DU, DE, Goal<DU, DE>> {
    let x = vars.v[0].clone();
    proto_vulcan!([x == [x], match x { y => { conde { x == y, [x == 1, x == [[1]]], [y == [[[]], [1, [], 'b' | y], false], x != [x, []]] }, conde { [x != 'a', x != [y | x]], [y == x, [y | y] != y] } }, [1] => , [[3, 1 | z]] => [conde { [_, x, "a"] != z, [true, member(z, [1, 1, 3])] }, [true, ["bc", _] == x, append(x, x, [3])]], }])
}
pub fn case_252(vars: &Vars) -> InferredGoal<DU, DE, Goal<DU, DE>> {
    let x = vars.v[0].clone();
    let y = vars.v[1].clone();
    proto_vulcan!([conde { [x == 1, y == [y]], |tz| { tz == [1, 2], [3 | tz] != [3, 1, 2] } }, matcha y { [[[], y | y], _ | 3] | x => , }])
}
pub fn case_253(vars: &Vars) -> InferredGoal<DU, DE, Goal<DU, DE>> {
    let x = vars.v[0].clone();
    proto_vulcan!([matcha x { [[3, [], 2], [3, y, x | z], [3, y, z]] | [] => , h => [|h, x| { h != [h, h, 2] }, conde { [1, 'a', _ | x] == x, true, h == h }], h => , }])
}
pub fn case_254(vars: &Vars) -> InferredGoal<DU, DE, Goal<DU, DE>> {
    let q = vars.v[0].clone();
    let x = vars.v[1].clone();
    proto_vulcan!([conde { [1, x, 1] == x, [_ == x, [[2 | x]] == _] }, matcha x { t | [[h, 1 | _] | x] => { |z| { [2 | z] == 'a' } }, [x] => , }])
}
pub fn case_255(vars: &Vars) -> InferredGoal<DU, DE, Goal<DU, DE>> {
    let x = vars.v[0].clone();
    proto_vulcan!([matcha _ { 1 => { onceo { member(x, [1]) }, match x { [[2, _], [2 | h] | h] => , [["a", 1, y]] => { x != y }, z => { z == [], |tz| { [3, 1 | tz] != [3, 1, 3, 1], tz == [3, 1] } }, } }, }])
}
pub fn case_256(vars: &Vars) -> InferredGoal<DU, DE, Goal<DU, DE>> {
    let x = vars.v[0].clone();
    let y = vars.v[1].clone();
    proto_vulcan!([match x { 2 => ['a' == x, true], }])
}
pub fn case_257(vars: &Vars) -> InferredGoal<DU, DE, Goal<DU, DE>> {
    let x = vars.v[0].clone();
    proto_vulcan!([[3 == x], matcha x { x => { [1] == x, [member(x, [2, 3]), [x, false] == x, x == [x]] }, }])
}
pub fn case_258(vars: &Vars) -> InferredGoal<DU, DE, Goal<DU, DE>> {
    let x = vars.v[0].clone();
    let y = vars.v[1].clone();
    proto_vulcan!([|tz| { tz == [3, 2], [2, 1, 3, 2] != [2, 1 | tz] }, matche y { [[y], _] => , }])
}
pub fn case_259(vars: &Vars) -> InferredGoal<DU, DE, Goal<DU, DE>> {
    let q = vars.v[0].clone();
    let x = vars.v[1].clone();
    proto_vulcan!([matchu x { [[x], []] => , }])
}
pub fn case_260(vars: &Vars) -> InferredGoal<DU, DE, Goal<DU, DE>> {
    let q = vars.v[0].clone();
    let x = vars.v[1].clone();
    proto_vulcan!([matche x { [[2, z, z], [y, 'b']] => , [[x], [y, z]] => [condu { append(y, x, [3]) }, [[y]] == q], [x, []] | 1 => { [q, "bc"] != q }, }])
}
pub fn case_261(vars: &Vars) -> InferredGoal<DU, DE, Goal<DU, DE>> {
    let x = vars.v[0].clone();
    let y = vars.v[1].clone();
    proto_vulcan!([x == x, matchu y { [3] => [[true, y != [true, y]], [_ | x] == [1 | x]], }])
}
pub fn case_262(vars: &Vars) -> InferredGoal<DU, DE, Goal<DU, DE>> {
    let x = vars.v[0].clone();
    let y = vars.v[1].clone();
    proto_vulcan!([matche y { z => |tz| { tz == [2], [2, 3, 2] != [2, 3 | tz] }, [[3, 1, h] | h] => [conde { false, [x != y, y == h], [1 == [[2, [], y]], |tz| { tz == [3], [1, 2 | tz] != [1, 2, 3] }] }, y == [h]], _ => , }])
}
pub fn case_263(vars: &Vars) -> InferredGoal<DU, DE, Goal<DU, DE>> {
    let q = vars.v[0].clone();
    let x = vars.v[1].clone();
    proto_vulcan!([|x, z| { x != ["a", 1, false | x] }, matchu [1, "a" | q] { [[h, _], [x] | x] | [1, [z, 1, y], [y, 1, z | y] | _] => { match [1, q, q] { [] => { q == [[], 1] }, }, [[q, _, true], [3], [_, true]] == q }, t | [] => |z| { [[], x] == z, [[]] != q }, [[3, []]] => { q == 1, x == q }, }])
}
pub fn case_264(vars: &Vars) -> InferredGoal<DU, DE, Goal<DU, DE>> {
    let q = vars.v[0].clone();
    let x = vars.v[1].clone();
    proto_vulcan!([[x] != q, matchu q { t => [[x] == _, |tz| { [1, 1, 2] != [1 | tz], tz == [1, 2] }], }])
}
pub fn case_265(vars: &Vars) -> InferredGoal<DU, DE, Goal<DU, DE>> {
    let x = vars.v[0].clone();
    proto_vulcan!([matcha x { 1 => { |z| { x == ["a", 'b'], [3, x | 'b'] == x, z == x }, conde { [[], x] == x, 2 == x } }, }])
}
pub fn case_266(vars: &Vars) -> InferredGoal<DU, DE, Goal<DU, DE>> {
    let x = vars.v[0].clone();
    proto_vulcan!([true, matcha x { [[_], [h | z]] => x == [['b', 1], x, []], _ => , 2 => { [] == x }, }])
}
pub fn case_267(vars: &Vars) -> InferredGoal<DU, DE, Goal<DU, DE>> {
    let q = vars.v[0].clone();
    let x = vars.v[1].clone();
    proto_vulcan!([q == x, matchu q { [[3, z | z], [2, x]] => , [[h, _, false], [1, _, 2 | 2], [2, 'a' | x]] => [|h| { h == q }, onceo { h == [[], _, 1 | x] }], }])
}
pub fn case_268(vars: &Vars) -> InferredGoal<DU, DE, Goal<DU, DE>> {
    let x = vars.v[0].clone();
    let y = vars.v[1].clone();
    proto_vulcan!([|tz| { tz == [3, 2], [2, 3, 2] != [2 | tz] }, match y { [[x, _ | x], [h] | h] | [[2, z], [t, 2]] => { conde { true != y, true, [true, y == [y, 3, []]] } }, [[], ["a", x, 1] | x] => , 2 | [_ | 'a'] => conda { 'a' == y }, }])
}
pub fn case_269(vars: &Vars) -> InferredGoal<DU, DE, Goal<DU, DE>> {
    let x = vars.v[0].clone();
    proto_vulcan!([matchu x { [2] => { [[[x, _, 1], [x, 1, x], x | 'b'] == 2], [[] | x] != _ }, }])
}
pub fn case_270(vars: &Vars) -> InferredGoal<DU, DE, Goal<DU, DE>> {
    let x = vars.v[0].clone();
    let y = vars.v[1].clone();
    proto_vulcan!([match x { [t, [h, h, 2], ['b', 3, 'a']] => |x, t| { [1, 2 | t] != y, [true] != 1 }, }])
}
pub fn case_271(vars: &Vars) -> InferredGoal<DU, DE, Goal<DU, DE>> {
    let q = vars.v[0].clone();
    let x = vars.v[1].clone();
    proto_vulcan!([matchu x { [[x, h], 1, [_, _, 2]] | [[y, []], [3] | _] => , [[t | t], ['b' | z], z] => , }])
}
pub fn case_272(vars: &Vars) -> InferredGoal<DU, DE, Goal<DU, DE>> {
    let x = vars.v[0].clone();
    let y = vars.v[1].clone();
    proto_vulcan!([matche x { [2, x, 2] | [[[], [], _], [x, _, 3 | x], z] => [|tz| { [1, 1] != [1 | tz], tz == [1] }, [3] == true], [[1, 1, 3] | _] => matche [x] { h => append(x, h, [3, 3]), 3 => , }, _ => , }])
}
pub fn case_273(vars: &Vars) -> InferredGoal<DU, DE, Goal<DU, DE>> {
    let x = vars.v[0].clone();
    proto_vulcan!([|t, z| { append(z, t, []) }, matchu x { [[[]], [y | t]] => , }])
}
pub fn case_274(vars: &Vars) -> InferredGoal<DU, DE, Goal<DU, DE>> {
    let x = vars.v[0].clone();
    proto_vulcan!([x != [_, x], match 2 { [[2, _], ["bc", 1, 1]] | [["bc"]] => , [x, [x | h]] => [x, 3] == h, }])
}
pub fn case_275(vars: &Vars) -> InferredGoal<DU, DE, Goal<DU, DE>> {
    let x = vars.v[0].clone();
    let y = vars.v[1].clone();
    proto_vulcan!([|t| { t != t }, match y { 1 => { condu { [x != [y, 1, [] | x], member(x, [1, 1, 1])], x == [x] } }, }])
}
pub fn case_276(vars: &Vars) -> InferredGoal<DU, DE, Goal<DU, DE>> {
    let q = vars.v[0].clone();
    let x = vars.v[1].clone();
    proto_vulcan!([q == x, matcha [2, 1] { [t] => matche q { [3, 2] => { [3, _ | _] == t }, z => [true == q, append(q, x, [3])], }, x => , }])
}
pub fn case_277(vars: &Vars) -> InferredGoal<DU, DE, Goal<DU, DE>> {
    let x = vars.v[0].clone();
    proto_vulcan!([x != _, match x { [[3, [], _]] => , [[_]] | [[y, 2, y], [_, [], x | z], t] => , z => , }])
}
pub fn case_278(vars: &Vars) -> InferredGoal<DU, DE, Goal<DU, DE>> {
    let q = vars.v[0].clone();
    let x = vars.v[1].clone();
    proto_vulcan!([match 1 { [h, _] => { [x] == h, true }, [[]] | [] => { member(x, [3, 2]) }, }])
}
pub fn case_279(vars: &Vars) -> InferredGoal<DU, DE, Goal<DU, DE>> {
    let x = vars.v[0].clone();
    proto_vulcan!([matche x { [[2, _, true], [_, _, _ | x], t | 3] => { |y, t| { y == y, false, t == "bc" } }, }])
}
pub fn case_280(vars: &Vars) -> InferredGoal<DU, DE, Goal<DU, DE>> {
    let q = vars.v[0].clone();
    let x = vars.v[1].clone();
    proto_vulcan!([false, match [2, 1, 2] { [_, [2, t, 1], [_, false, 1 | h]] | [z, 3] => , }])
}
pub fn case_281(vars: &Vars) -> InferredGoal<DU, DE, Goal<DU, DE>> {
    let x = vars.v[0].clone();
    proto_vulcan!([|tz| { [1, 2, 2] != [1 | tz], tz == [2, 2] }, matchu [x, 2, 2] { [[[], z, _], 2] | t => , 1 => , z => { member(z, []) }, }])
}
pub fn case_282(vars: &Vars) -> InferredGoal<DU, DE, Goal<DU, DE>> {
    let x = vars.v[0].clone();
    proto_vulcan!([x == x, matcha x { x => |tz| { tz == [1], [2, 1] != [2 | tz] }, }])
}
pub fn case_283(vars: &Vars) -> InferredGoal<DU, DE, Goal<DU, DE>> {
    let x = vars.v[0].clone();
    proto_vulcan!([true, match x { [[[]]] => [false], }])
}
pub fn case_284(vars: &Vars) -> InferredGoal<DU, DE, Goal<DU, DE>> {
    let x = vars.v[0].clone();
    proto_vulcan!([x != _, matche [1 | x] { [['a', [] | 3], [], [t, _] | x] => , [["bc", 3 | _]] => , }])
}
pub fn case_285(vars: &Vars) -> InferredGoal<DU, DE, Goal<DU, DE>> {
    let x = vars.v[0].clone();
    let y = vars.v[1].clone();
    proto_vulcan!([x == [1, [2, _] | y], y != []])
}
pub fn case_286(vars: &Vars) -> InferredGoal<DU, DE, Goal<DU, DE>> {
    let x = vars.v[0].clone();
    proto_vulcan!([conde { x == 'a', [x == "bc", true], false }])
}
pub fn case_287(vars: &Vars) -> InferredGoal<DU, DE, Goal<DU, DE>> {
    let q = vars.v[0].clone();
    let x = vars.v[1].clone();
    proto_vulcan!([|x| { x == 1, q == [x, true] }])
}
pub fn case_288(vars: &Vars) -> InferredGoal<DU, DE, Goal<DU, DE>> {
    let x = vars.v[0].clone();
    proto_vulcan!([closure { [x == 1, conde { true, true }] }])
}
pub fn case_289(vars: &Vars) -> InferredGoal<DU, DE, Goal<DU, DE>> {
    let x = vars.v[0].clone();
    let y = vars.v[1].clone();
    proto_vulcan!([[] == x, y == [[]]])
}
pub fn case_290(vars: &Vars) -> InferredGoal<DU, DE, Goal<DU, DE>> {
    let q = vars.v[0].clone();
    let x = vars.v[1].clone();
    proto_vulcan!([member(x, []), [x != [2 | q]]])
}
pub fn case_291(vars: &Vars) -> InferredGoal<DU, DE, Goal<DU, DE>> {
    let q = vars.v[0].clone();
    let x = vars.v[1].clone();
    proto_vulcan!([|y| { q == [2, [2], [2, "bc", 3]] }, x == x])
}
pub fn case_292(vars: &Vars) -> InferredGoal<DU, DE, Goal<DU, DE>> {
    let q = vars.v[0].clone();
    let x = vars.v[1].clone();
    proto_vulcan!([conde { x != [q, [], []], condu { [q == [3, q, x], [x, x] == x] }, [q == [1, x, q], ['a', q | x] != x] }, [q, 1] == x, [[3, 3, q], [3, x] | 3] != 1])
}
pub fn case_293(vars: &Vars) -> InferredGoal<DU, DE, Goal<DU, DE>> {
    let x = vars.v[0].clone();
    let y = vars.v[1].clone();
    proto_vulcan!([conda { [1 == 1, |z, x| { conde { [z == x, y == _], [true, [2] == x] } }], [conde { _ == y, [true, onceo { [] == y }] }, true] }, closure { [2, _ | y] == x }])
}
pub fn case_294(vars: &Vars) -> InferredGoal<DU, DE, Goal<DU, DE>> {
    let x = vars.v[0].clone();
    let y = vars.v[1].clone();
    proto_vulcan!([condu { [[x, y, x | y], x] == [y, x] }, condu { y == _ }, [[|x| { member(y, [1, 1]), |tz| { [2 | tz] != [2, 3, 1], tz == [3, 1] }, [x, x, 2] == x }, |tz| { tz == [2], [1, 3 | tz] != [1, 3, 2] }, y == 1], 3 == y, onceo { [[1, y], 1, [y] | y] == [x, y, false | y] }]])
}
pub fn case_295(vars: &Vars) -> InferredGoal<DU, DE, Goal<DU, DE>> {
    let x = vars.v[0].clone();
    let y = vars.v[1].clone();
    proto_vulcan!([[_, x, [_ | y]] == [[] | x], conde { [true, ['b', _] == x], [[2, 2 | y] == y, condu { 1 == y, [onceo { [[], 2 | y] == x }, |y| { y == _, x == "bc", [3, ["a", []]] == y }], member(y, [1, 2, 3]) }] }])
}
pub fn case_296(vars: &Vars) -> InferredGoal<DU, DE, Goal<DU, DE>> {
    let q = vars.v[0].clone();
    let x = vars.v[1].clone();
    proto_vulcan!([[1 | q] == [_, 2, q]])
}
pub fn case_297(vars: &Vars) -> InferredGoal<DU, DE, Goal<DU, DE>> {
    let x = vars.v[0].clone();
    let y = vars.v[1].clone();
    proto_vulcan!([|y| { [_, _, y] == y, condu { conde { y == y, [true] == y, [y != y, y == x] } } }])
}
pub fn case_298(vars: &Vars) -> InferredGoal<DU, DE, Goal<DU, DE>> {
    let x = vars.v[0].clone();
    proto_vulcan!([conda { [append(x, x, [1]), [condu { [1 == [x], [2, 'a'] != [x, x]], member(x, [1, 2]) }, condu { [2, []] != x, [[3, x] != x, x == [x, 3]] }, |t, h| { |tz| { [2, 1, 1] != [2 | tz], tz == [1, 1] } }]], [x, [true, 3, []], 1 | x] == [x, 2], x == 3 }, [[x, x, x] | _] == x, closure { x != 2 }])
}
pub fn case_299(vars: &Vars) -> InferredGoal<DU, DE, Goal<DU, DE>> {
    let x = vars.v[0].clone();
    proto_vulcan!([x != x, onceo { [1, 1] == x }, conda { |x, h| { h == x, [member(x, [])], [true] == x } }, closure { false }])
}
pub fn case_300(vars: &Vars) -> InferredGoal<DU, DE, Goal<DU, DE>> {
    let q = vars.v[0].clone();
    let x = vars.v[1].clone();
    proto_vulcan!([[x, _, [[], true]] == x, [[_, 'a'] == q], |y, x| { |h| { |y, h| { 1 == [[3], ['a'], [[]]], y == [x], x == [y, h, "a"] }, onceo { [[], q] != x }, [member(x, [2])] } }, closure { [conde { [_ != x, [true, [x, x, 3 | x] == q]], false }, |x| { [q != x, x != [x, x, x], |tz| { [1, 3, 3] != [1, 3 | tz], tz == [3] }], |tz| { [2, 2] != [2 | tz], tz == [2] } }] }])
}
pub fn case_301(vars: &Vars) -> InferredGoal<DU, DE, Goal<DU, DE>> {
    let x = vars.v[0].clone();
    proto_vulcan!([|y| { x == x }, x == []])
}
pub fn case_302(vars: &Vars) -> InferredGoal<DU, DE, Goal<DU, DE>> {
    let x = vars.v[0].clone();
    let y = vars.v[1].clone();
    proto_vulcan!([[[1, _], [x, x, x]] != [['a', [], false]], [x == x], |x| { conda { |t, y| { y == 3, [y, true | 3] == y }, [x == _, |tz| { tz == [2], [1 | tz] != [1, 2] }] }, x == x }])
}
pub fn case_303(vars: &Vars) -> InferredGoal<DU, DE, Goal<DU, DE>> {
    let x = vars.v[0].clone();
    let y = vars.v[1].clone();
    proto_vulcan!([x != 'b', y != [y, [x, _]]])
}
pub fn case_304(vars: &Vars) -> InferredGoal<DU, DE, Goal<DU, DE>> {
    let x = vars.v[0].clone();
    let y = vars.v[1].clone();
    proto_vulcan!([x == x, y != y])
}
pub fn case_305(vars: &Vars) -> InferredGoal<DU, DE, Goal<DU, DE>> {
    let x = vars.v[0].clone();
    let y = vars.v[1].clone();
    proto_vulcan!([[x] == y, conde { [[[x], 1] == x, conde { [y == x, [y, x, _ | y] == x], [y == [x, 1], x != y] }], [x != [[_, 1 | y], [1, x, x | y], [[], _, 2]], y == 1] }, closure { |y, h| { false, [append(y, y, [2, 2]), y != h, [[], 1, 1] == y] } }])
}
pub fn case_306(vars: &Vars) -> InferredGoal<DU, DE, Goal<DU, DE>> {
    let q = vars.v[0].clone();
    let x = vars.v[1].clone();
    proto_vulcan!([conda { x != [2, x, _ | 3] }, condu { |y| { |h| { q == [[h, false | x], 3, [[], x | 1] | 2] } } }, member(q, [])])
}
pub fn case_307(vars: &Vars) -> InferredGoal<DU, DE, Goal<DU, DE>> {
    let x = vars.v[0].clone();
    proto_vulcan!([true, |y, t| { t == [] }, onceo { 2 == 3 }, closure { [[x == x, x == [2, x], [x == false, append(x, x, [3, 2]), member(x, [1, 2, 1])]], condu { [true, [x, _, x | x] == x], [true, x == [x, x]] }] }])
}
pub fn case_308(vars: &Vars) -> InferredGoal<DU, DE, Goal<DU, DE>> {
    let x = vars.v[0].clone();
    let y = vars.v[1].clone();
    proto_vulcan!([|tz| { tz == [3, 1], [3 | tz] != [3, 3, 1] }, [x, [2 | y]] == y, closure { |h| { h == [3 | x], |t| { x == y, h != x, 2 == h }, h == [_ | 1] } }])
}
pub fn case_309(vars: &Vars) -> InferredGoal<DU, DE, Goal<DU, DE>> {
    let x = vars.v[0].clone();
    proto_vulcan!([2 == x, closure { [|t, h| { [[], _, h] != h }, |h| { [x, 2, h | h] == h, conde { member(h, [1]), [[[], [], h] != [1, [x, true], [2]], member(h, [])] }, conde { [[h, h] == x, false], [[_, h, [] | 1]] == [_, 1 | false], [h == [h, 2, 1], [['a', x], h, x] == [[]]] } }] }])
}
pub fn case_310(vars: &Vars) -> InferredGoal<DU, DE, Goal<DU, DE>> {
    let q = vars.v[0].clone();
    let x = vars.v[1].clone();
    proto_vulcan!([[|x| { conda { [append(x, x, [1]), x == [[x, x | q]]], [[[x, 3 | _], x, [x, x]] == q, q == x], member(x, [2, 3, 1]) }, |y| { y == [_] }, |h| { [2, x] == x, |tz| { [2, 2, 2, 2] != [2, 2 | tz], tz == [2, 2] }, [[]] == x } }, [[]] == x], |t, y| { conde { [q == [t, 2], [[3], [t, 1], [q, 1] | q] == [q, x, 1 | t]], [_, q] == x } }, true])
}
pub fn case_311(vars: &Vars) -> InferredGoal<DU, DE, Goal<DU, DE>> {
    let x = vars.v[0].clone();
    let y = vars.v[1].clone();
    proto_vulcan!([true == 2])
}
pub fn case_312(vars: &Vars) -> InferredGoal<DU, DE, Goal<DU, DE>> {
    let q = vars.v[0].clone();
    let x = vars.v[1].clone();
    proto_vulcan!([conde { [x == q, x == [x, _]], append(x, x, []) }, x != [_]])
}
pub fn case_313(vars: &Vars) -> InferredGoal<DU, DE, Goal<DU, DE>> {
    let q = vars.v[0].clone();
    let x = vars.v[1].clone();
    proto_vulcan!([true, conde { [|h, y| { |t, h| { q == [[q, y | 2], 1] }, conda { [[y, [[], "bc", y], [2] | 2] == [y | y], h == h] }, [[1, q | h], h] == x }, [[q, _]] == q], [|x, t| { [q == q, member(t, [3, 1])], |x| { t == _ } }, q == [2 | q]], conde { [conde { [true, [[x | x], [q], [3, [], q | x] | x] == x], |tz| { tz == [3], [3, 3] != [3 | tz] } }, 2 == "a"], onceo { q == [q, x] }, [q != [[q], x, [x]], [x == x, false, 1 == q]] } }, closure { [conde { conde { |tz| { [3, 1, 3, 3] != [3, 1 | tz], tz == [3, 3] }, append(q, q, [3]) }, [false != q, |h, y| { q == [] }], [true, 1 != q] }, q == [2, false | x]] }])
}
pub fn case_314(vars: &Vars) -> InferredGoal<DU, DE, Goal<DU, DE>> {
    let q = vars.v[0].clone();
    let x = vars.v[1].clone();
    proto_vulcan!([conde { [onceo { [false, x != q] }, [q | q] == q], [conde { x == [[q, x, _ | x]], |y, z| { y == [[], q], append(q, x, [3, 3]), [] == [[2, 2, y | _]] }, [|t| { 2 == _, [x | t] == [1, 1 | x] }, true] }, x == [[x]]], |x| { conde { [member(q, [1, 1]), append(q, x, [2, 2])], [false, q == [q | x]] } } }, |tz| { [2, 1 | tz] != [2, 1, 2], tz == [2] }])
}
pub fn case_315(vars: &Vars) -> InferredGoal<DU, DE, Goal<DU, DE>> {
    let x = vars.v[0].clone();
    let y = vars.v[1].clone();
    proto_vulcan!([append(x, y, [2]), |z| { conde { [x != [1, _ | 2], |y, z| { z == [1, _, "bc" | z] }], [append(z, z, []), conde { y == _, 1 != x }], [append(z, y, [2]), conde { [|tz| { tz == [1], [2, 1] != [2 | tz] }, false], [y == y, [y, 3] == y], z == [3, false, 2 | x] }] }, [[3, x, y], [false, 2, 'a' | x] | true] == [3 | z], _ == z }, |tz| { tz == [3, 1], [3, 2, 3, 1] != [3, 2 | tz] }])
}
pub fn case_316(vars: &Vars) -> InferredGoal<DU, DE, Goal<DU, DE>> {
    let q = vars.v[0].clone();
    let x = vars.v[1].clone();
    proto_vulcan!([|x| { |tz| { tz == [1], [3, 3, 1] != [3, 3 | tz] } }, |t| { x == x, 3 == [[q, 2, _], [1, 2, _], [1, []] | q], [condu { [x, x, x | x] == x, [2 == _, [[x, x]] == x], [1, 'a', 1] == x }, [x, 3, [1] | q] != x, [[x, x, q | x] == q, ["bc"] == t]] }, closure { [|x, y| { x == [3, 2 | 'a'], x == [2, true], append(q, q, []) }] }])
}
pub fn case_317(vars: &Vars) -> InferredGoal<DU, DE, Goal<DU, DE>> {
    let x = vars.v[0].clone();
    proto_vulcan!([|h| { |t, x| { x == [_, x, [t | x] | t], conde { [1 != [[], 1], [[[], 2 | 2], [_, 1, "bc"], _] != 1], true } }, 2 == [x, [], [h, [], x]], [[]] == x }, closure { [|z| { [3, 1 | false] == z }, conde { |t, z| { [t] == x, t == t, [1, [true, z, 2] | x] == [[_ | z], [z], [[] | t] | x] }, [x != true, conde { [true, |tz| { tz == [2], [3 | tz] != [3, 2] }], [x == [x | x], false] }], ['b', [false], [x | x]] != x }] }])
}
pub fn case_318(vars: &Vars) -> InferredGoal<DU, DE, Goal<DU, DE>> {
    let x = vars.v[0].clone();
    let y = vars.v[1].clone();
    proto_vulcan!([|tz| { [1, 1, 3] != [1 | tz], tz == [1, 3] }])
}
pub fn case_319(vars: &Vars) -> InferredGoal<DU, DE, Goal<DU, DE>> {
    let q = vars.v[0].clone();
    let x = vars.v[1].clone();
    proto_vulcan!([conde { [1, 2, 3] != x, [member(q, []), conde { true, [|x| { [[q, [], _], x] == [x] }, member(q, [1])], [2 == q, _ == [[q, [], q]]] }] }, x == x, [1] == x, closure { q == [_] }])
}
pub fn case_320(vars: &Vars) -> InferredGoal<DU, DE, Goal<DU, DE>> {
    let x = vars.v[0].clone();
    let y = vars.v[1].clone();
    proto_vulcan!([x == true, y == y, [['a'], [x, 1, 2], 1] == y])
}
pub fn case_321(vars: &Vars) -> InferredGoal<DU, DE, Goal<DU, DE>> {
    let x = vars.v[0].clone();
    let y = vars.v[1].clone();
    proto_vulcan!([true, conde { conde { [y == [[y] | x], 1 != y], [conde { [[2] == x, [1, 1, "bc"] == y], [x == [["a", []], 3], y != x] }, onceo { |tz| { tz == [2, 1], [3, 2, 1] != [3 | tz] } }] }, |t| { y != y, true }, [conde { [x != [x, []], [[_, false], [y] | y] == x], y == x }, |h| { [|tz| { tz == [3, 2], [2 | tz] != [2, 3, 2] }, x == true, h == [x, 'a', h | x]], x == [2, _ | h] }] }, [x, []] != [[3], [1, y], y | true]])
}
pub fn case_322(vars: &Vars) -> InferredGoal<DU, DE, Goal<DU, DE>> {
    let q = vars.v[0].clone();
    let x = vars.v[1].clone();
    proto_vulcan!([conde { member(x, [3, 1, 2]), [|y| { y == [1, 2], x == [x, false | 1], y == [[], q, q] }, |tz| { [1, 3, 3] != [1, 3 | tz], tz == [3] }], q == [_, 1, _ | x] }])
}
pub fn case_323(vars: &Vars) -> InferredGoal<DU, DE, Goal<DU, DE>> {
    let x = vars.v[0].clone();
    let y = vars.v[1].clone();
    proto_vulcan!([[[_] == y, y == [[x], ['a', 1, 1], [_ | x]]], false == y, closure { x == y }])
}
pub fn case_324(vars: &Vars) -> InferredGoal<DU, DE, Goal<DU, DE>> {
    let x = vars.v[0].clone();
    proto_vulcan!([conde { [condu { [conda { false }, onceo { 'a' == x }], |t| { ['b'] != t, t != ["a", []] }, [append(x, x, [1]), [[[], x, 3], ["a", x]] == x] }, [x, x] == x], [[] == x, conde { [[2] != x, [x | x] == x], x == [x, 3, 3 | x] }] }, |h| { [conda { [h == [x], 3 != x] }, [] != [1]], conda { [[x, [2, h, x | h] | x] == [[h, x, _], [[] | x]], h == [[1, x], [h, 3, x], [x, [] | 2]]], h != [2 | h], |tz| { tz == [3, 1], [1, 3, 3, 1] != [1, 3 | tz] } }, |z| { z == [[h]], conde { [[[[], []], ['b', z, "a" | 3]] == _, append(h, h, [])], x == _, [z == z, [[x, h]] == h] }, z != z } }])
}
pub fn case_325(vars: &Vars) -> InferredGoal<DU, DE, Goal<DU, DE>> {
    let q = vars.v[0].clone();
    let x = vars.v[1].clone();
    proto_vulcan!([q == q, [condu { [q == 2], q == [x | x], onceo { [3, x] != q } }, conde { [x == [false, 1, _ | x], [x == [_, _]]], [x == x, append(x, x, [2])], q == "a" }, [x == [2, 2, x], [[x] == q, member(x, [1, 1]), x == 2]]]])
}
pub fn case_326(vars: &Vars) -> InferredGoal<DU, DE, Goal<DU, DE>> {
    let x = vars.v[0].clone();
    proto_vulcan!([[_, [2, 1 | x], x] == ["bc", x, [[]]], |h, t| { [|h, y| { h == [2, _] }, x == 'b'] }, [2 | x] == x, closure { [x != [_], x == x] }])
}
pub fn case_327(vars: &Vars) -> InferredGoal<DU, DE, Goal<DU, DE>> {
    let x = vars.v[0].clone();
    let y = vars.v[1].clone();
    proto_vulcan!([|h| { [x | x] == h, |x| { conde { [x == x, [[_]] == x], append(x, x, []), [[h, h | x] == h, member(y, [3, 2, 1])] }, x == [_], [[_, [], h], 3, y | x] == [_, 1] } }, onceo { y == [x | x] }, closure { [append(y, x, []), x == [_]] }])
}
pub fn case_328(vars: &Vars) -> InferredGoal<DU, DE, Goal<DU, DE>> {
    let x = vars.v[0].clone();
    proto_vulcan!([x != [3, [], x], [[x]] == [2, x | x], |z, h| { conde { [[_, [], h | 3] == [[1], 2], [[3, "bc"], [h, h, h | x], 1] == 1], [conda { member(z, [1, 3, 2]), [[], _, _ | x] == h }, [3] == z], [[false, _] == x, conda { [h == [2, _, 2 | z], x != [1]], z == [1, _, h], h == x }] } }])
}
pub fn case_329(vars: &Vars) -> InferredGoal<DU, DE, Goal<DU, DE>> {
    let q = vars.v[0].clone();
    let x = vars.v[1].clone();
    proto_vulcan!([[|y| { [append(q, q, [3, 1]), [[2 | q], 'b'] != q], 1 != y }], [[q == q]], |x, z| { [q != [z], condu { [[_, _] == x, x == [q, _]] }, onceo { [] != x }], [[|tz| { tz == [2], [2, 3 | tz] != [2, 3, 2] }, x == [z, x], true]] }])
}
pub fn case_330(vars: &Vars) -> InferredGoal<DU, DE, Goal<DU, DE>> {
    let x = vars.v[0].clone();
    proto_vulcan!([[x] == x])
}
pub fn case_331(vars: &Vars) -> InferredGoal<DU, DE, Goal<DU, DE>> {
    let q = vars.v[0].clone();
    let x = vars.v[1].clone();
    proto_vulcan!([conda { |tz| { tz == [1], [3, 3 | tz] != [3, 3, 1] }, [[|h| { append(h, q, [2]), [2, h] != x }, |tz| { tz == [3], [2, 2 | tz] != [2, 2, 3] }], conde { q != [[q, []], [1, q, 2]], [conda { q == 3 }, false], |z, t| { false, false, append(z, t, [3]) } }] }, [[x, 2], [_, q | 'b'], 3 | x] == [[_, q, 1], 2 | q], [x] == [['b', 2], [_], _ | q]])
}
pub fn case_332(vars: &Vars) -> InferredGoal<DU, DE, Goal<DU, DE>> {
    let q = vars.v[0].clone();
    let x = vars.v[1].clone();
    proto_vulcan!([|h| { |x| { x == [1 | 2], [member(q, [2]), 3 == 3], |tz| { [3, 3, 3] != [3 | tz], tz == [3, 3] } } }, closure { [conde { x != [2], [x, 1] == x }, q == [q, 1]] }])
}
pub fn case_333(vars: &Vars) -> InferredGoal<DU, DE, Goal<DU, DE>> {
    let x = vars.v[0].clone();
    proto_vulcan!([conde { [1 == [x], |x, t| { [x == x, x == ["a", 'a', _], [x] == x] }], [|y| { |h| { x == [1, []] }, conda { [|tz| { [1, 1, 2, 3] != [1, 1 | tz], tz == [2, 3] }, [] == y], |tz| { [1, 3] != [1 | tz], tz == [3] } }, x != [2, y, 3 | x] }, |tz| { [2, 3, 2, 3] != [2, 3 | tz], tz == [2, 3] }] }, member(x, [2, 2, 2]), x == x])
}
pub fn case_334(vars: &Vars) -> InferredGoal<DU, DE, Goal<DU, DE>> {
    let x = vars.v[0].clone();
    let y = vars.v[1].clone();
    proto_vulcan!([conde { [append(x, x, [2]), false], [y != y, conde { member(y, []), [member(y, [2]), conde { y == [[]], y != [y, [x]] }], y == [[], y, "a"] }] }])
}
pub fn case_335(vars: &Vars) -> InferredGoal<DU, DE, Goal<DU, DE>> {
    let q = vars.v[0].clone();
    let x = vars.v[1].clone();
    proto_vulcan!([|tz| { tz == [3, 3], [3, 1 | tz] != [3, 1, 3, 3] }, conde { conda { [|y| { member(x, [3, 3]), y == [q], member(y, [3, 3, 1]) }, |tz| { [1, 3] != [1 | tz], tz == [3] }] }, conde { member(x, [1]), condu { x == [[_, _, q], x, [] | 3], [x == [[q] | x], true], [[_, 1, x], 3, ['b']] == [1, 3] } }, [q != q, |t| { [t == [1, x, q], false, [2] != [2]] }] }, |tz| { tz == [3], [3, 3] != [3 | tz] }])
}
pub fn case_336(vars: &Vars) -> InferredGoal<DU, DE, Goal<DU, DE>> {
    let x = vars.v[0].clone();
    let y = vars.v[1].clone();
    proto_vulcan!([|h, t| { onceo { t == "a" } }])
}
pub fn case_337(vars: &Vars) -> InferredGoal<DU, DE, Goal<DU, DE>> {
    let q = vars.v[0].clone();
    let x = vars.v[1].clone();
    proto_vulcan!([[1, 1, 2] != x, onceo { [1, 1 | x] != q }])
}
pub fn case_338(vars: &Vars) -> InferredGoal<DU, DE, Goal<DU, DE>> {
    let x = vars.v[0].clone();
    proto_vulcan!([|z| { x == [[], 1 | x] }, closure { |t, z| { conda { [false, [[], 1] == z] }, [3, 1] == [[t, [], 2], 2], [[], t, 1 | z] != t } }])
}
pub fn case_339(vars: &Vars) -> InferredGoal<DU, DE, Goal<DU, DE>> {
    let x = vars.v[0].clone();
    let y = vars.v[1].clone();
    proto_vulcan!([|y| { |h| { conde { [x, 1, y] == h, true, |tz| { [1, 2 | tz] != [1, 2, 2], tz == [2] } } }, [y, x | x] == y, y == 3 }, y == [[], [[]], 1], x == _])
}
pub fn case_340(vars: &Vars) -> InferredGoal<DU, DE, Goal<DU, DE>> {
    let q = vars.v[0].clone();
    let x = vars.v[1].clone();
    proto_vulcan!([|tz| { tz == [2], [3, 2, 2] != [3, 2 | tz] }])
}
pub fn case_341(vars: &Vars) -> InferredGoal<DU, DE, Goal<DU, DE>> {
    let q = vars.v[0].clone();
    let x = vars.v[1].clone();
    proto_vulcan!([q != x])
}
pub fn case_342(vars: &Vars) -> InferredGoal<DU, DE, Goal<DU, DE>> {
    let q = vars.v[0].clone();
    let x = vars.v[1].clone();
    proto_vulcan!([x == [], q != [2], onceo { onceo { x == [q] } }, closure { q == [false, 2, 3] }])
}
pub fn case_343(vars: &Vars) -> InferredGoal<DU, DE, Goal<DU, DE>> {
    let x = vars.v[0].clone();
    let y = vars.v[1].clone();
    proto_vulcan!([[y, [x, 1, 3] | x] == y, append(x, x, []), onceo { [y == 1] }])
}
pub fn case_344(vars: &Vars) -> InferredGoal<DU, DE, Goal<DU, DE>> {
    let x = vars.v[0].clone();
    let y = vars.v[1].clone();
    proto_vulcan!([y == _, x != x, x == [x, 1], closure { [y == 2, conda { [y | x] != [[x, y, 1 | y] | y], [['b'] == y, [x, x] == [2, 1, false]], [|h| { x == ["bc" | y] }, onceo { |tz| { tz == [3], [1 | tz] != [1, 3] } }] }] }])
}
pub fn case_345(vars: &Vars) -> InferredGoal<DU, DE, Goal<DU, DE>> {
    let x = vars.v[0].clone();
    proto_vulcan!([true])
}
pub fn case_346(vars: &Vars) -> InferredGoal<DU, DE, Goal<DU, DE>> {
    let x = vars.v[0].clone();
    proto_vulcan!([[[], 1, 2] == x])
}
pub fn case_347(vars: &Vars) -> InferredGoal<DU, DE, Goal<DU, DE>> {
    let x = vars.v[0].clone();
    let y = vars.v[1].clone();
    proto_vulcan!([1 == y, |tz| { tz == [2], [3, 2] != [3 | tz] }])
}
pub fn case_348(vars: &Vars) -> InferredGoal<DU, DE, Goal<DU, DE>> {
    let q = vars.v[0].clone();
    let x = vars.v[1].clone();
    proto_vulcan!([|x, z| { condu { [x == [[3 | x], [3, x | q]], |tz| { [2 | tz] != [2, 2], tz == [2] }] } }, |x| { [onceo { |tz| { [1, 1 | tz] != [1, 1, 3, 1], tz == [3, 1] } }] }])
}
pub fn case_349(vars: &Vars) -> InferredGoal<DU, DE, Goal<DU, DE>> {
    let q = vars.v[0].clone();
    let x = vars.v[1].clone();
    proto_vulcan!([x != [2], q == 1])
}
pub fn case_350(vars: &Vars) -> InferredGoal<DU, DE, Goal<DU, DE>> {
    let x = vars.v[0].clone();
    proto_vulcan!([x != x, [x, [x, x, x]] == [1]])
}
pub fn case_351(vars: &Vars) -> InferredGoal<DU, DE, Goal<DU, DE>> {
    let x = vars.v[0].clone();
    proto_vulcan!(['a' == x, x == [_], |z| { x != [x, 2, z], [[x != [_]]], conde { [["a", x, _] != x, |x| { [[[], []], [_]] == [[1], [[]], [2]], [] == z, [x] == [['a', [], x | z], [2] | x] }], append(z, z, [3, 1]) } }])
}
pub fn case_352(vars: &Vars) -> InferredGoal<DU, DE, Goal<DU, DE>> {
    let q = vars.v[0].clone();
    let x = vars.v[1].clone();
    proto_vulcan!([|tz| { [3 | tz] != [3, 1, 1], tz == [1, 1] }, x == [3 | x]])
}
pub fn case_353(vars: &Vars) -> InferredGoal<DU, DE, Goal<DU, DE>> {
    let x = vars.v[0].clone();
    proto_vulcan!([|x| { |h| { [[h, _, 2] == [[2, h, h | h], 1], 1 == x, false == [[], 'b', h | 'b']] }, x != x, x == ["a", x, 2 | x] }, [[true, false, x | 1], [1, x], [x, x]] == x, |x, z| { 1 != x, [_, x] == x, true }])
}
pub fn case_354(vars: &Vars) -> InferredGoal<DU, DE, Goal<DU, DE>> {
    let x = vars.v[0].clone();
    proto_vulcan!([x == [[1, x]], conde { condu { [[x != [[], 3, 1], false], conde { true, [[], 1, []] != x }] }, x == x, onceo { 3 == x } }])
}
pub fn case_355(vars: &Vars) -> InferredGoal<DU, DE, Goal<DU, DE>> {
    let x = vars.v[0].clone();
    proto_vulcan!([x == x, _ == 1, closure { ["bc" == x, conde { [x == x, |z| { |tz| { tz == [2], [3, 2, 2] != [3, 2 | tz] } }], |tz| { [2, 3 | tz] != [2, 3, 3], tz == [3] } }] }])
}
pub fn case_356(vars: &Vars) -> InferredGoal<DU, DE, Goal<DU, DE>> {
    let x = vars.v[0].clone();
    let y = vars.v[1].clone();
    proto_vulcan!([[[], false, 1] == y, [] == x, y == 1, closure { onceo { [["a", x, y | x] != y, false] } }])
}
pub fn case_357(vars: &Vars) -> InferredGoal<DU, DE, Goal<DU, DE>> {
    let x = vars.v[0].clone();
    proto_vulcan!([conde { [|y| { x == [] }, condu { [2 != "bc", [_ == x, _ == x, [x, ["a", x, 3 | x], x] != _]] }], |h, y| { x == [_, _], [member(h, [3])] } }, 1 == [x]])
}
pub fn case_358(vars: &Vars) -> InferredGoal<DU, DE, Goal<DU, DE>> {
    let x = vars.v[0].clone();
    let y = vars.v[1].clone();
    proto_vulcan!([y == [2, 'b', "a" | x], member(y, [2]), [onceo { [x] == y }, 3 != y]])
}
pub fn case_359(vars: &Vars) -> InferredGoal<DU, DE, Goal<DU, DE>> {
    let x = vars.v[0].clone();
    proto_vulcan!([x == [3 | x], |x, t| { t == [], condu { [|y, x| { x != [1, 2, x | x], x == [y, [], y], [1 | x] == x }, x == ["a"]], [x, [x, "bc"], [true] | 2] == [2] }, x == 'a' }])
}
pub fn case_360(vars: &Vars) -> InferredGoal<DU, DE, Goal<DU, DE>> {
    let x = vars.v[0].clone();
    proto_vulcan!([1 == x])
}
pub fn case_361(vars: &Vars) -> InferredGoal<DU, DE, Goal<DU, DE>> {
    let x = vars.v[0].clone();
    proto_vulcan!([|tz| { tz == [3], [1, 3, 3] != [1, 3 | tz] }, [|t, h| { h == [[_], [2 | 2]] }]])
}
pub fn case_362(vars: &Vars) -> InferredGoal<DU, DE, Goal<DU, DE>> {
    let x = vars.v[0].clone();
    let y = vars.v[1].clone();
    proto_vulcan!([|t| { conde { conde { x != y, [[t, 2, 3] == t, append(y, y, [])], member(t, [1]) }, t == [_, x, 2 | _] }, _ == 3 }, closure { [conde { conde { [y == 3, member(y, [1, 3, 3])], [x == [2], x == y], [x, y | x] == _ }, x == ["a", "bc"] }, [x, x, x] == x] }])
}
pub fn case_363(vars: &Vars) -> InferredGoal<DU, DE, Goal<DU, DE>> {
    let q = vars.v[0].clone();
    let x = vars.v[1].clone();
    proto_vulcan!([|h| { [q, h, []] == h, x != q, member(h, [3]) }, conde { |h| { |tz| { tz == [1, 2], [1 | tz] != [1, 1, 2] } }, [[[], _, x] == x, q == q] }, |x| { conde { [q == [[x, q], 1, [_, 2, _]], |h| { false }], conde { true, [member(x, [1]), x == []] }, [onceo { q == 2 }, [q] == q] }, 3 != q, [2] == x }, closure { x != 1 }])
}
pub fn case_364(vars: &Vars) -> InferredGoal<DU, DE, Goal<DU, DE>> {
    let q = vars.v[0].clone();
    let x = vars.v[1].clone();
    proto_vulcan!([|t| { |t, z| { [t, 3] == t }, |t| { q == [q | q], [[1, _ | x] == t, t == [_, _, t | x]] } }, x == [1, q, x], conde { [conde { [q, 2, q] == q, [2 == q, q == "a"], [true, true] }], q != x }])
}
pub fn case_365(vars: &Vars) -> InferredGoal<DU, DE, Goal<DU, DE>> {
    let q = vars.v[0].clone();
    let x = vars.v[1].clone();
    proto_vulcan!([conde { [[x] == x, 1 == x], [[[q, []] | x] != q, [x, 3] != x] }])
}
pub fn case_366(vars: &Vars) -> InferredGoal<DU, DE, Goal<DU, DE>> {
    let x = vars.v[0].clone();
    let y = vars.v[1].clone();
    proto_vulcan!([[[1, 1, 1 | y], 1, [1, _, 1] | y] == x, |tz| { tz == [2, 1], [3, 2, 1] != [3 | tz] }])
}
pub fn case_367(vars: &Vars) -> InferredGoal<DU, DE, Goal<DU, DE>> {
    let q = vars.v[0].clone();
    let x = vars.v[1].clone();
    proto_vulcan!([[[_ | x] == q, q != 3, [[q == [[]], [x] == x, q == [q, q]]]], conde { [[x != [2, [] | x]], |x| { 3 != x, onceo { [[x], [x, 3, []]] == x }, |z| { [] == [], append(x, z, []) } }], conde { [q == [x, 2, 3], q == q], true }, [q != [x, 'b', 2 | q], conda { x == q, [x == q, false] }] }])
}
pub fn case_368(vars: &Vars) -> InferredGoal<DU, DE, Goal<DU, DE>> {
    let x = vars.v[0].clone();
    proto_vulcan!([[] == x, [[x, [], 2], [x, 3, 2] | x] == [[], [], _ | x], x == [_ | _]])
}
pub fn case_369(vars: &Vars) -> InferredGoal<DU, DE, Goal<DU, DE>> {
    let x = vars.v[0].clone();
    proto_vulcan!([x != true, closure { onceo { conde { [[[], [], x] != x, member(x, [])], [|tz| { [1, 2, 3] != [1 | tz], tz == [2, 3] }, [x, 2] == x] } } }])
}
pub fn case_370(vars: &Vars) -> InferredGoal<DU, DE, Goal<DU, DE>> {
    let x = vars.v[0].clone();
    proto_vulcan!([false, [[3, _, x] == x, x == x, 2 == x]])
}
pub fn case_371(vars: &Vars) -> InferredGoal<DU, DE, Goal<DU, DE>> {
    let q = vars.v[0].clone();
    let x = vars.v[1].clone();
    proto_vulcan!([[x == [x], conde { x == [[], x], [|y| { false, y != [q | q] }, q == [2, q | q]] }, [[x, x | x] != x]]])
}
pub fn case_372(vars: &Vars) -> InferredGoal<DU, DE, Goal<DU, DE>> {
    let x = vars.v[0].clone();
    let y = vars.v[1].clone();
    proto_vulcan!([[|z, y| { |tz| { tz == [1], [3 | tz] != [3, 1] } }]])
}
pub fn case_373(vars: &Vars) -> InferredGoal<DU, DE, Goal<DU, DE>> {
    let x = vars.v[0].clone();
    let y = vars.v[1].clone();
    proto_vulcan!([x == x, [["a", 2, [] | y], [2, [], x], [y, [], 2]] != x, |tz| { tz == [3], [2 | tz] != [2, 3] }])
}
pub fn case_374(vars: &Vars) -> InferredGoal<DU, DE, Goal<DU, DE>> {
    let q = vars.v[0].clone();
    let x = vars.v[1].clone();
    proto_vulcan!([conda { append(x, x, [2]), [[1, _, x] == q, 1 == q], |z| { 1 == [q | q], [q, x, z] == q, |x, y| { z == [1, 1], false } } }, conda { [[x == 1, |tz| { tz == [2, 3], [2, 1, 2, 3] != [2, 1 | tz] }], [[q, x | 2], [q, x, q] | true] != q] }, conde { 2 == q, x == [1] }])
}
pub fn case_375(vars: &Vars) -> InferredGoal<DU, DE, Goal<DU, DE>> {
    let q = vars.v[0].clone();
    let x = vars.v[1].clone();
    proto_vulcan!([true, |h, x| { [1 == q, h == [x, 2], [[], 2] != x], [x] == h }, x == [1, 2]])
}
pub fn case_376(vars: &Vars) -> InferredGoal<DU, DE, Goal<DU, DE>> {
    let x = vars.v[0].clone();
    let y = vars.v[1].clone();
    proto_vulcan!([1 != y])
}
pub fn case_377(vars: &Vars) -> InferredGoal<DU, DE, Goal<DU, DE>> {
    let x = vars.v[0].clone();
    proto_vulcan!([[conde { [[[x] | x] != x, false], [[] != x, x == [2, x, _ | x]], [|y| { [y, 1] == y }, condu { true, [append(x, x, [1, 2]), x != [[]]], [[false, 3, x] == x, [x | 2] == x] }] }, [3, [2], 2 | x] == [x, "a"], [x, x | x] == [[x, x, 1 | x]]], false])
}
pub fn case_378(vars: &Vars) -> InferredGoal<DU, DE, Goal<DU, DE>> {
    let q = vars.v[0].clone();
    let x = vars.v[1].clone();
    proto_vulcan!([['b' | q] == x, [q, 'a' | 1] != q, x == q])
}
pub fn case_379(vars: &Vars) -> InferredGoal<DU, DE, Goal<DU, DE>> {
    let x = vars.v[0].clone();
    let y = vars.v[1].clone();
    proto_vulcan!([onceo { append(x, y, [3, 3]) }, [conde { y != 2, [onceo { [_, y, [] | x] == y }, x == x] }]])
}
pub fn case_380(vars: &Vars) -> InferredGoal<DU, DE, Goal<DU, DE>> {
    let x = vars.v[0].clone();
    proto_vulcan!([|h, y| { |tz| { tz == [1, 2], [3, 3 | tz] != [3, 3, 1, 2] }, [1, "bc", _] == h }, onceo { [x | x] == x }])
}
pub fn case_381(vars: &Vars) -> InferredGoal<DU, DE, Goal<DU, DE>> {
    let x = vars.v[0].clone();
    proto_vulcan!([x != x, x == x])
}
pub fn case_382(vars: &Vars) -> InferredGoal<DU, DE, Goal<DU, DE>> {
    let x = vars.v[0].clone();
    let y = vars.v[1].clone();
    proto_vulcan!([append(y, x, [2, 3]), [y, y, _] == x, [[[y, y]] == 3, |tz| { [1 | tz] != [1, 3], tz == [3] }]])
}
pub fn case_383(vars: &Vars) -> InferredGoal<DU, DE, Goal<DU, DE>> {
    let x = vars.v[0].clone();
    let y = vars.v[1].clone();
    proto_vulcan!([false, |t, z| { ['a', y, false] != y, conde { x == [[z, []], z, [t, t]], t == [z | z], |y, h| { y == [_, 2, _], z == [[]] } } }, 3 != x])
}
pub fn case_384(vars: &Vars) -> InferredGoal<DU, DE, Goal<DU, DE>> {
    let x = vars.v[0].clone();
    proto_vulcan!([x != x])
}
pub fn case_385(vars: &Vars) -> InferredGoal<DU, DE, Goal<DU, DE>> {
    let x = vars.v[0].clone();
    proto_vulcan!([conda { [x == [[x, x, x] | 1], onceo { conde { x == 2, [2 == x, x == 1], [2, _] == _ } }], [x != [x, x, 2 | x], [x == [x, [], 2 | "bc"]]] }])
}
pub fn case_386(vars: &Vars) -> InferredGoal<DU, DE, Goal<DU, DE>> {
    let q = vars.v[0].clone();
    let x = vars.v[1].clone();
    proto_vulcan!([x == [[x], [] | q], conde { [|tz| { [2, 1, 1, 1] != [2, 1 | tz], tz == [1, 1] }], append(q, q, []), [[1 | q] != q, [x == q, onceo { x == [true, q, x] }]] }, member(x, [3, 3, 3]), closure { append(x, q, [2]) }])
}
pub fn case_387(vars: &Vars) -> InferredGoal<DU, DE, Goal<DU, DE>> {
    let x = vars.v[0].clone();
    proto_vulcan!([member(x, [3, 1]), |tz| { [1, 2 | tz] != [1, 2, 3, 2], tz == [3, 2] }, onceo { conde { |z| { false, z == z, [[z, x, 2], [z, z, z], [_]] != z }, [x, false, []] == x, x == [[1, 2, x], ['a', 2] | x] } }])
}
pub fn case_388(vars: &Vars) -> InferredGoal<DU, DE, Goal<DU, DE>> {
    let q = vars.v[0].clone();
    let x = vars.v[1].clone();
    proto_vulcan!([q == [2, 3], |h, t| { conda { [|h, x| { true, q == [x, 1], false }, [1, [] | 1] == x] }, |tz| { [3 | tz] != [3, 1, 1], tz == [1, 1] }, q == [[_, _, h]] }, [[2, 3, _ | x]] == q])
}
pub fn case_389(vars: &Vars) -> InferredGoal<DU, DE, Goal<DU, DE>> {
    let q = vars.v[0].clone();
    let x = vars.v[1].clone();
    proto_vulcan!([[[1, true, x]] == [], conde { [[x, q | q] != x, 2 != x], conde { |z| { member(x, []), 1 == x, z != z }, [[x, x, q | q] == q], [append(x, x, []), true, [1, 'b'] == q] } }, x == q])
}
pub fn case_390(vars: &Vars) -> InferredGoal<DU, DE, Goal<DU, DE>> {
    let q = vars.v[0].clone();
    let x = vars.v[1].clone();
    proto_vulcan!([[_ | q] == x, [q, [[], x, 1 | q], x | q] == ["a" | q], condu { [x != q, 1 == x], [onceo { append(q, q, [3, 2]) }, conde { |t| { true }, [_ != x, |tz| { tz == [3, 2], [2, 1, 3, 2] != [2, 1 | tz] }], false }], [condu { [|y, x| { false }, [[x, 1, x] == x]], [[1] == [x, 1, q | q], onceo { x != ["a", [[], x | x], [x | x] | 2] }], [false == q, 'b' == q] }, append(q, x, [])] }])
}
pub fn case_391(vars: &Vars) -> InferredGoal<DU, DE, Goal<DU, DE>> {
    let x = vars.v[0].clone();
    proto_vulcan!([x != x, x != x, x == [[x, "a"], 3 | x], closure { [[[[], true], [x], [[]] | 1] == x, onceo { 3 == x }] }])
}
pub fn case_392(vars: &Vars) -> InferredGoal<DU, DE, Goal<DU, DE>> {
    let x = vars.v[0].clone();
    proto_vulcan!([|y| { [y, 3, x | x] == x }, conde { [|y, t| { |h| { _ == t, y != [y, _], y == [t | 1] }, member(t, [1, 3, 3]) }, x == 2], [[1 | x] == x, [[]] == [3, x]] }, x == _])
}
pub fn case_393(vars: &Vars) -> InferredGoal<DU, DE, Goal<DU, DE>> {
    let q = vars.v[0].clone();
    let x = vars.v[1].clone();
    proto_vulcan!([false, closure { x == [q, [], x] }])
}
pub fn case_394(vars: &Vars) -> InferredGoal<DU, DE, Goal<DU, DE>> {
    let q = vars.v[0].clone();
    let x = vars.v[1].clone();
    proto_vulcan!([append(x, x, [2]), closure { |h| { append(x, x, [1, 2]), x == [] } }])
}
pub fn case_395(vars: &Vars) -> InferredGoal<DU, DE, Goal<DU, DE>> {
    let x = vars.v[0].clone();
    let y = vars.v[1].clone();
    proto_vulcan!([|tz| { [2, 2, 1] != [2, 2 | tz], tz == [1] }, closure { [x == x, false] }])
}
pub fn case_396(vars: &Vars) -> InferredGoal<DU, DE, Goal<DU, DE>> {
    let q = vars.v[0].clone();
    let x = vars.v[1].clone();
    proto_vulcan!([conde { [x == [_, [], x | _], |x, h| { [_ == h, [['b', [], x], 1] == false], onceo { [q, _, q | h] == x }, |tz| { [3, 2, 1] != [3, 2 | tz], tz == [1] } }], [[] == q, condu { [[q | 2] != x, |t| { q == true }] }], [x, q | _] == x }, x != _, closure { [q == q, onceo { |h, x| { ['b'] == h, 1 == q } }] }])
}
pub fn case_397(vars: &Vars) -> InferredGoal<DU, DE, Goal<DU, DE>> {
    let x = vars.v[0].clone();
    proto_vulcan!([[] != x, [x, [3]] == x])
}
pub fn case_398(vars: &Vars) -> InferredGoal<DU, DE, Goal<DU, DE>> {
    let x = vars.v[0].clone();
    let y = vars.v[1].clone();
    proto_vulcan!([y == 1, y == [y], ["a"] != x, closure { conde { onceo { member(x, [1, 2]) }, [x == y, [3, y, 2] != [[1, "bc"], 1]], [y == [x], x == [1, 1]] } }])
}
pub fn case_399(vars: &Vars) -> InferredGoal<DU, DE, Goal<DU, DE>> {
    let q = vars.v[0].clone();
    let x = vars.v[1].clone();
    proto_vulcan!([[x] == q, |y| { [] == [q, []] }, x == [3, x]])
}
pub fn case_400(vars: &Vars) -> InferredGoal<DU, DE, Goal<DU, DE>> {
    let x = vars.v[0].clone();
    let y = vars.v[1].clone();
    proto_vulcan!([x == [[3 | y], [_], 3], conde { [[y, x, _ | x], [y]] != [x, [1], [[], 2 | x]], [y == [[], x | x], x == x], x == [y | y] }])
}
pub fn case_401(vars: &Vars) -> InferredGoal<DU, DE, Goal<DU, DE>> {
    let x = vars.v[0].clone();
    proto_vulcan!([[1, x, 3] == [x, [_, 'a', 2]]])
}
pub fn case_402(vars: &Vars) -> InferredGoal<DU, DE, Goal<DU, DE>> {
    let q = vars.v[0].clone();
    let x = vars.v[1].clone();
    proto_vulcan!([[[q | x], [[], [] | _], [x, q, [] | x]] != [_, x], q == x, x != 1])
}
pub fn case_403(vars: &Vars) -> InferredGoal<DU, DE, Goal<DU, DE>> {
    let x = vars.v[0].clone();
    proto_vulcan!([_ == x, [append(x, x, [2, 2]), [1, x, x] != x], [x] != [[x, x, 2], x, [false | x] | x]])
}
pub fn case_404(vars: &Vars) -> InferredGoal<DU, DE, Goal<DU, DE>> {
    let x = vars.v[0].clone();
    proto_vulcan!([x != [[x, x, 3], _ | x], x == 2, [[], _] == x])
}
pub fn case_405(vars: &Vars) -> InferredGoal<DU, DE, Goal<DU, DE>> {
    let x = vars.v[0].clone();
    let y = vars.v[1].clone();
    proto_vulcan!([x == _, |x, y| { x == [false | true], member(y, [1]) }])
}
pub fn case_406(vars: &Vars) -> InferredGoal<DU, DE, Goal<DU, DE>> {
    let x = vars.v[0].clone();
    proto_vulcan!([conde { [1 == x, |tz| { [3 | tz] != [3, 1], tz == [1] }], true, onceo { 3 != x } }, x != [[], _], x == [x, x, x]])
}
pub fn case_407(vars: &Vars) -> InferredGoal<DU, DE, Goal<DU, DE>> {
    let q = vars.v[0].clone();
    let x = vars.v[1].clone();
    proto_vulcan!([conde { [x, 1 | _] == x, [q == [[]], conde { [|tz| { tz == [1], [2, 1, 1] != [2, 1 | tz] }, conde { [2, "bc"] != x, [q != x, |tz| { tz == [3, 1], [2, 2, 3, 1] != [2, 2 | tz] }], x == x }], [|tz| { tz == [1, 3], [2, 2 | tz] != [2, 2, 1, 3] }, x == x], q == [3, q, x] }] }, q != 3, q == [[x, 2], [3, false] | 2], closure { x != q }])
}
pub fn case_408(vars: &Vars) -> InferredGoal<DU, DE, Goal<DU, DE>> {
    let x = vars.v[0].clone();
    let y = vars.v[1].clone();
    proto_vulcan!([[x, 3, 1 | y] != y])
}
pub fn case_409(vars: &Vars) -> InferredGoal<DU, DE, Goal<DU, DE>> {
    let x = vars.v[0].clone();
    proto_vulcan!([[["bc", 1, _], _, [x | x] | x] == x, conda { [conde { [onceo { x != [1, x] }, [[x, 2, false] == x]], [condu { append(x, x, []), [[3, x], [1, []], [x, 3, _] | 'a'] != x }, [x == [], x == [x | x]]], [[[false, _, []], x, [2, _, 3]] == x, [x, 1] != x] }, |x, t| { x == x, [[], 1 | x] == [1], [[t, false | x], x | x] == x }], |x, y| { member(x, []), x == 2 }, |y, t| { |z| { false, x == [[], [z]], [] == x } } }, x == x])
}
pub fn case_410(vars: &Vars) -> InferredGoal<DU, DE, Goal<DU, DE>> {
    let q = vars.v[0].clone();
    let x = vars.v[1].clone();
    proto_vulcan!([[[x == q, conde { [2, 1 | _] != [[_, q], [x, 2, 2], [_, 1, 'a'] | q], q == q }, q == q]], [[3, _, x | x] | q] == x, closure { [[x] == q, conde { [|tz| { tz == [2, 2], [2, 1, 2, 2] != [2, 1 | tz] }, |tz| { [2, 3] != [2 | tz], tz == [3] }], onceo { false } }] }])
}
pub fn case_411(vars: &Vars) -> InferredGoal<DU, DE, Goal<DU, DE>> {
    let q = vars.v[0].clone();
    let x = vars.v[1].clone();
    proto_vulcan!([member(q, [])])
}
pub fn case_412(vars: &Vars) -> InferredGoal<DU, DE, Goal<DU, DE>> {
    let x = vars.v[0].clone();
    proto_vulcan!([x == x, [x, x, x] != x, x != [x], closure { 1 == [['a', [], x], 2] }])
}
pub fn case_413(vars: &Vars) -> InferredGoal<DU, DE, Goal<DU, DE>> {
    let x = vars.v[0].clone();
    let y = vars.v[1].clone();
    proto_vulcan!([conde { conde { [[[] | x] != x, [false]], |tz| { tz == [2], [2, 2] != [2 | tz] }, [|h| { true }, 1 != [x, [1, [] | x], _]] }, conde { true, [|x, t| { 2 == y }, [1] == y], [x] == y }, member(y, [1, 3]) }, |x, t| { [[_, t] == [1 | t], x == y, |tz| { [3, 2 | tz] != [3, 2, 1], tz == [1] }], [[x, 1, x | y] == t, conda { _ == [x], [member(y, []), member(x, [2, 2, 3])], [_, t] == x }, |tz| { [1, 2, 2] != [1 | tz], tz == [2, 2] }], conda { 3 == y, [[[y] | y] == [['b'], [_, t, t]], [1 | _] == y], [onceo { t == x }, [[2, _], [y, []]] == 1] } }])
}
pub fn case_414(vars: &Vars) -> InferredGoal<DU, DE, Goal<DU, DE>> {
    let x = vars.v[0].clone();
    proto_vulcan!([conde { conda { [conde { [[[x, x, 2]] != 3, x == _], [[] != x, x == [[x], [x, x]]], true }, [1, 2, x | 'b'] == x], onceo { false } }, [x | x] != x }])
}
pub fn case_415(vars: &Vars) -> InferredGoal<DU, DE, Goal<DU, DE>> {
    let x = vars.v[0].clone();
    let y = vars.v[1].clone();
    proto_vulcan!([false, x == x, closure { [conde { x == [1], [2, x] != y, [[x, x] == y, member(x, [1, 2, 1])] }, |x, y| { y == [y, 1, 1 | y], [[], y, x] != y, 1 == x }] }])
}
pub fn case_416(vars: &Vars) -> InferredGoal<DU, DE, Goal<DU, DE>> {
    let x = vars.v[0].clone();
    proto_vulcan!([[[], x, _ | 'b'] == ["a", [x | x]], [x, false, 1 | x] == x])
}
pub fn case_417(vars: &Vars) -> InferredGoal<DU, DE, Goal<DU, DE>> {
    let q = vars.v[0].clone();
    let x = vars.v[1].clone();
    proto_vulcan!([|tz| { [1, 3 | tz] != [1, 3, 1], tz == [1] }, onceo { true }, conda { [|h, t| { [2] == x, [h, h, x | x] != x, onceo { |tz| { [2, 2, 2, 1] != [2, 2 | tz], tz == [2, 1] } } }, q != q], [[|x, z| { [[q, 2, x], [z, q | z], 1] != x, append(x, x, []) }, x != true, [[]] == q], false], [|x, y| { [2] == x, onceo { [3, x, 2 | y] == x }, y != [_] }, onceo { [true, _ == q] }] }, closure { [onceo { x == 3 }, [1] == x] }])
}
pub fn case_418(vars: &Vars) -> InferredGoal<DU, DE, Goal<DU, DE>> {
    let x = vars.v[0].clone();
    let y = vars.v[1].clone();
    proto_vulcan!([|h, x| { [_, [y], [x]] == [1, 3 | x] }, closure { y == [[], y] }])
}
pub fn case_419(vars: &Vars) -> InferredGoal<DU, DE, Goal<DU, DE>> {
    let x = vars.v[0].clone();
    proto_vulcan!([|tz| { tz == [1], [2, 3, 1] != [2, 3 | tz] }, [conde { |y, t| { member(y, [1]), false, true }, append(x, x, [2, 2]), [x == _, 2 != x] }, conde { |x, y| { true }, [false, x == [1]], conde { [append(x, x, [1, 3]), [_, [x], [_, x | x]] == []], |tz| { tz == [3], [3, 2, 3] != [3, 2 | tz] } } }, onceo { conda { [x == x, x == [[], x | x]], [[1]] == [[], [], x | x], [[x] == x, member(x, [1, 1, 1])] } }]])
}
pub fn case_420(vars: &Vars) -> InferredGoal<DU, DE, Goal<DU, DE>> {
    let x = vars.v[0].clone();
    let y = vars.v[1].clone();
    proto_vulcan!([[3, x] == [[y, _ | y]], false, |x, y| { |tz| { tz == [1], [2 | tz] != [2, 1] }, |y, x| { [[], ['b', [], x | y], [x, 1, x | y]] == x } }])
}
pub fn case_421(vars: &Vars) -> InferredGoal<DU, DE, Goal<DU, DE>> {
    let x = vars.v[0].clone();
    let y = vars.v[1].clone();
    proto_vulcan!([conde { y == [], true, x != [[], y, x | 2] }, closure { y == [] }])
}
pub fn case_422(vars: &Vars) -> InferredGoal<DU, DE, Goal<DU, DE>> {
    let x = vars.v[0].clone();
    proto_vulcan!([|y| { x == [y, x], [[|tz| { tz == [1, 1], [1, 1, 1] != [1 | tz] }, member(x, [1])]] }, [[x == [[1, "a" | x], x | x], [x != [2, [3]]], x == [2]]]])
}
pub fn case_423(vars: &Vars) -> InferredGoal<DU, DE, Goal<DU, DE>> {
    let x = vars.v[0].clone();
    proto_vulcan!([[x != [x], false]])
}
pub fn case_424(vars: &Vars) -> InferredGoal<DU, DE, Goal<DU, DE>> {
    let x = vars.v[0].clone();
    let y = vars.v[1].clone();
    proto_vulcan!([true, x == [[y, []]], x == [2, y | 2], closure { [conde { [condu { [true, true], [_, y] == x }, conde { [true, x == [2, [], x | x]], [3, y | 3] == x }], [y != x], [conda { [x == [], y == ['a', y, x]] }, [append(y, y, []), [2, x | y] != y]] }, conda { [x == [_, ['a', y, 'a'], [_]], [2] == x], [onceo { append(y, x, [1, 1]) }, [x, [[], x, x]] == x] }] }])
}
pub fn case_425(vars: &Vars) -> InferredGoal<DU, DE, Goal<DU, DE>> {
    let q = vars.v[0].clone();
    let x = vars.v[1].clone();
    proto_vulcan!([conde { |tz| { tz == [1, 1], [2, 1, 1] != [2 | tz] }, [|tz| { tz == [2], [2, 2 | tz] != [2, 2, 2] }, |x, t| { |h| { append(q, t, []) }, x == x }] }, |t| { [conde { member(x, [3]), q != [[t, t, [] | x]], [false, q == 2] }, condu { [[q, t] == true, q == [t, 1]] }, |x, t| { x != t, [1] == x, x != x }], [x] != x }, onceo { |x| { false, _ == x } }])
}
pub fn case_426(vars: &Vars) -> InferredGoal<DU, DE, Goal<DU, DE>> {
    let q = vars.v[0].clone();
    let x = vars.v[1].clone();
    proto_vulcan!([conde { conda { [|y, z| { [[2, y, [] | x]] == y }, [q, 2] == q] }, [q != [[q], [3, q, q | x]], conde { [conda { [true, [x] == x] }, _ != q], [|x, z| { append(x, x, [3, 2]) }, x == x], [|tz| { [3 | tz] != [3, 1], tz == [1] }, condu { q == [x, 2], [[3 | x], x] != q }] }] }, |t, x| { t != [2] }])
}
pub fn case_427(vars: &Vars) -> InferredGoal<DU, DE, Goal<DU, DE>> {
    let x = vars.v[0].clone();
    let y = vars.v[1].clone();
    proto_vulcan!([|z| { z == y, true, [[y == [1, _, z], [1, x, y | x] == y], [1, y, "a"] == z, z == []] }, [x == []], x == [1 | 2], closure { |z| { |tz| { [1, 3, 2] != [1, 3 | tz], tz == [2] }, [y, [y, z, _ | 2]] == z } }])
}
pub fn case_428(vars: &Vars) -> InferredGoal<DU, DE, Goal<DU, DE>> {
    let q = vars.v[0].clone();
    let x = vars.v[1].clone();
    proto_vulcan!([|x| { |z| { false, [] == x, |t| { x == [1, 2, z], x == z, [t, 3, 3 | x] != t } }, [q, "bc", x] == x, conda { [_ != q, x == "bc"], [2 | x] == x, [|t| { [] == q, [x] == q, x == _ }, [|tz| { [2, 2, 3] != [2 | tz], tz == [2, 3] }, 'b' == q]] } }, [q, [[], _]] != q, |t| { [|t| { 1 == x }], |h, t| { true, append(x, x, [3]), x != t } }])
}
pub fn case_429(vars: &Vars) -> InferredGoal<DU, DE, Goal<DU, DE>> {
    let x = vars.v[0].clone();
    let y = vars.v[1].clone();
    proto_vulcan!([conda { [[[y, x | y], "a"] == [], condu { member(y, []), conda { [true, y == [3]] } }], [|y| { x != [y], onceo { [['a', y, y], [[], y, 1]] == x }, [member(y, [2, 1, 3]), true] }, y == [x, y | x]] }, true])
}
pub fn case_430(vars: &Vars) -> InferredGoal<DU, DE, Goal<DU, DE>> {
    let x = vars.v[0].clone();
    let y = vars.v[1].clone();
    proto_vulcan!([true, [[[], 2], 'a'] != y, matche y { [[[]], [false | _] | h] => [h == 2, [[[], 3]] != [[_, 2]]], true => , 3 | [[z, y, true], x, []] => , }])
}
pub fn case_431(vars: &Vars) -> InferredGoal<DU, DE, Goal<DU, DE>> {
    let x = vars.v[0].clone();
    let y = vars.v[1].clone();
    proto_vulcan!([true, [[[], 2], 'a'] != y, matche y { [[[]], [false | _] | fresh_name_9] => [fresh_name_9 == 2, [[[], 3]] != [[_, 2]]], true => , 3 | [[z, y, true], x, []] => , }])
}
pub fn case_432(vars: &Vars) -> InferredGoal<DU, DE, Goal<DU, DE>> {
    let x = vars.v[0].clone();
    let y = vars.v[1].clone();
    proto_vulcan!([matche [3, "a" | y] { [[z], [y, 3, 1 | _], 1 | _] | h => [match x { 1 => { match x { ["a", 3, [t, x]] => , [[1, h, t | y], [[], _], [z]] => , [h, 2] | [[1 | x], [1 | _], [t, 1, h | 3] | h] => { h == [1, [], h], "a" != h }, }, ['a', 3] != x }, [[y, z, []], ["a", 2 | _]] | [["bc", h | _], 1] => [[[[x, 2, 1], 1] != x, x == [x, 2, 1], false], [x == [3, x | true]]], }, [conde { [true, true], [|tz| { [2, 1 | tz] != [2, 1, 1], tz == [1] }, true] }]], 3 => , y => append(x, y, []), }, match y { z => , }, 'b' != y, closure { [y != [x, x], |h, y| { |y| { |tz| { [2, 1, 1] != [2, 1 | tz], tz == [1] }, |tz| { [2, 3 | tz] != [2, 3, 2], tz == [2] }, y != [[]] } }] }])
}
pub fn case_433(vars: &Vars) -> InferredGoal<DU, DE, Goal<DU, DE>> {
    let x = vars.v[0].clone();
    let y = vars.v[1].clone();
    proto_vulcan!([matche [3, "a" | y] { [[z], [y, 3, 1 | _], 1 | _] | h => [match x { 1 => { match x { ["a", 3, [t, x]] => , [[1, h, t | y], [[], _], [z]] => , [h, 2] | [[1 | x], [1 | _], [t, 1, h | 3] | h] => { h == [1, [], h], "a" != h }, }, ['a', 3] != x }, [[y, z, []], ["a", 2 | _]] | [["bc", h | _], 1] => [[[[x, 2, 1], 1] != x, x == [x, 2, 1], false], [x == [3, x | true]]], }, [conde { [true, true], [|tz| { [2, 1 | tz] != [2, 1, 1], tz == [1] }, true] }]], 3 => , y => append(x, y, []), }, match y { fresh_name_9 => , }, 'b' != y, closure { [y != [x, x], |h, y| { |y| { |tz| { [2, 1, 1] != [2, 1 | tz], tz == [1] }, |tz| { [2, 3 | tz] != [2, 3, 2], tz == [2] }, y != [[]] } }] }])
}
pub fn case_434(vars: &Vars) -> InferredGoal<DU, DE, Goal<DU, DE>> {
    let x = vars.v[0].clone();
    proto_vulcan!([match x { [[2, true, 1 | 2]] => [matche x { [] => , [[h, 1, "bc"]] => { [2, x, 2 | h] == h }, z => [[[z] == z], z == z], }, conde { [1] == x, x == 1, [x != [[3 | x], [1, true], [3 | x]], conde { [x != 2, x != x], [true, [["bc", 2, 'a']] != x] }] }], [[x | z], [[]]] => match 1 { [[2, _ | h], 1, [t, h, 3]] => { |tz| { tz == [1], [2, 1 | tz] != [2, 1, 1] }, |tz| { [2, 1 | tz] != [2, 1, 3], tz == [3] } }, }, }, [[2, x, []], [], x] != [[3, x]]])
}
pub fn case_435(vars: &Vars) -> InferredGoal<DU, DE, Goal<DU, DE>> {
    let x = vars.v[0].clone();
    proto_vulcan!([match x { [[2, true, 1 | 2]] => [matche x { [] => , [[h, 1, "bc"]] => { [2, x, 2 | h] == h }, z => [[[z] == z], z == z], }, conde { [1] == x, x == 1, [x != [[3 | x], [1, true], [3 | x]], conde { [x != 2, x != x], [true, [["bc", 2, 'a']] != x] }] }], [[x | z], [[]]] => match 1 { [[2, _ | h], 1, [t, h, 3]] => { |tz| { tz == [1], [2, 1 | tz] != [2, 1, 1] }, |fresh_name_9| { [2, 1 | fresh_name_9] != [2, 1, 3], fresh_name_9 == [3] } }, }, }, [[2, x, []], [], x] != [[3, x]]])
}
pub fn case_436(vars: &Vars) -> InferredGoal<DU, DE, Goal<DU, DE>> {
    let q = vars.v[0].clone();
    let x = vars.v[1].clone();
    proto_vulcan!([1 == q, |t, y| { |z, t| { "a" == q, matche t { _ | ["a", [x, true]] => , } }, 3 == x, matche q { [_, [z]] | [true | h] => [q == [2, []], 2 == y], } }, [[x] | _] != q])
}
pub fn case_437(vars: &Vars) -> InferredGoal<DU, DE, Goal<DU, DE>> {
    let q = vars.v[0].clone();
    let x = vars.v[1].clone();
    proto_vulcan!([1 == q, |t, y| { |z, fresh_name_9| { "a" == q, matche fresh_name_9 { _ | ["a", [x, true]] => , } }, 3 == x, matche q { [_, [z]] | [true | h] => [q == [2, []], 2 == y], } }, [[x] | _] != q])
}
pub fn case_438(vars: &Vars) -> InferredGoal<DU, DE, Goal<DU, DE>> {
    let x = vars.v[0].clone();
    proto_vulcan!([|h| { h == [], ["bc", x] == x }, |h, x| { _ == h }])
}
pub fn case_439(vars: &Vars) -> InferredGoal<DU, DE, Goal<DU, DE>> {
    let x = vars.v[0].clone();
    proto_vulcan!([|h| { h == [], ["bc", x] == x }, |h, fresh_name_9| { _ == h }])
}
pub fn case_440(vars: &Vars) -> InferredGoal<DU, DE, Goal<DU, DE>> {
    let x = vars.v[0].clone();
    let y = vars.v[1].clone();
    proto_vulcan!([match x { t => { match y { ["bc", 2] => , y => , } }, }, |t| { [append(x, y, [3]), conde { [[3], [2 | t] | t] == 1, [[y, 2 | x] == t, [[1, 3, x], t, 2 | y] == [_, [3, y]]] }, false], [[2, t] == x, matche x { h => { [3, x | x] == t }, }] }, closure { [[_, y] == y, match x { [[[]], [x, _, []] | 'a'] => , }] }])
}
pub fn case_441(vars: &Vars) -> InferredGoal<DU, DE, Goal<DU, DE>> {
    let x = vars.v[0].clone();
    let y = vars.v[1].clone();
    proto_vulcan!([match x { t => { match y { ["bc", 2] => , y => , } }, }, |t| { [append(x, y, [3]), conde { [[3], [2 | t] | t] == 1, [[y, 2 | x] == t, [[1, 3, x], t, 2 | y] == [_, [3, y]]] }, false], [[2, t] == x, matche x { h => { [3, x | x] == t }, }] }, closure { [[_, y] == y, match x { [[[]], [fresh_name_9, _, []] | 'a'] => , }] }])
}
pub fn case_442(vars: &Vars) -> InferredGoal<DU, DE, Goal<DU, DE>> {
    let q = vars.v[0].clone();
    let x = vars.v[1].clone();
    proto_vulcan!([match x { [3, [3], z | _] => [match z { [[1], t] => { [q == q], |y, t| { t == x } }, 1 => , x | [] => [[member(q, [3, 1]), z == [z, 1, []], 2 == z], [q | z] == q], }, x == 1], }, closure { matche x { [[_ | _]] | _ => |z, h| { true, true == x }, [3, [h, y, []], 2] => , } }])
}
pub fn case_443(vars: &Vars) -> InferredGoal<DU, DE, Goal<DU, DE>> {
    let q = vars.v[0].clone();
    let x = vars.v[1].clone();
    proto_vulcan!([match x { [3, [3], z | _] => [match z { [[1], t] => { [q == q], |y, t| { t == x } }, 1 => , x | [] => [[member(q, [3, 1]), z == [z, 1, []], 2 == z], [q | z] == q], }, x == 1], }, closure { matche x { [[_ | _]] | _ => |z, fresh_name_9| { true, true == x }, [3, [h, y, []], 2] => , } }])
}
pub fn case_444(vars: &Vars) -> InferredGoal<DU, DE, Goal<DU, DE>> {
    let q = vars.v[0].clone();
    let x = vars.v[1].clone();
    proto_vulcan!([conde { [q == [[[]] | q], [x, x | q] != [["a", [], [] | x], [2, _, q | q], _], x == [q | 1]], [[2, 3, _ | q] == x, x == []] }, [x, q, q | x] != q, closure { conde { [q, 1] == q, |z| { q == [x | 3], z == ["a"] }, |tz| { [2, 2, 1] != [2, 2 | tz], tz == [1] } } }])
}
pub fn case_445(vars: &Vars) -> InferredGoal<DU, DE, Goal<DU, DE>> {
    let q = vars.v[0].clone();
    let x = vars.v[1].clone();
    proto_vulcan!([conde { [q == [[[]] | q], [x, x | q] != [["a", [], [] | x], [2, _, q | q], _], x == [q | 1]], [[2, 3, _ | q] == x, x == []] }, [x, q, q | x] != q, closure { conde { [q, 1] == q, |z| { q == [x | 3], z == ["a"] }, |fresh_name_9| { [2, 2, 1] != [2, 2 | fresh_name_9], fresh_name_9 == [1] } } }])
}
pub fn case_446(vars: &Vars) -> InferredGoal<DU, DE, Goal<DU, DE>> {
    let q = vars.v[0].clone();
    let x = vars.v[1].clone();
    proto_vulcan!([1 != [[x, x], ["a", _, q]], q == q, [matche [2, 1, _] { [1] => , [[1, 1 | h], [2]] => { matche h { 3 => , [x, [h]] => [[false, 1] == x, [[q | x], 1, [h] | x] != q], 2 | [[_, 1, x]] => { q == [1, h] }, } }, }, [conde { [x == [1, "bc"], [1, 1] == x], [[2, ["a", q | q]] == q, x == x], [false, append(q, x, [2, 2])] }, q == [[_, [], 2 | q]], match q { z => , [[y]] => { |tz| { tz == [3, 2], [3, 1 | tz] != [3, 1, 3, 2] }, [q, y, q] != q }, [z, z | h] => |tz| { tz == [2], [1, 1 | tz] != [1, 1, 2] }, }], |z, t| { z == [z, t, _], x == [["bc" | q] | t], [[2]] == [_] }]])
}
pub fn case_447(vars: &Vars) -> InferredGoal<DU, DE, Goal<DU, DE>> {
    let q = vars.v[0].clone();
    let x = vars.v[1].clone();
    proto_vulcan!([1 != [[x, x], ["a", _, q]], q == q, [matche [2, 1, _] { [1] => , [[1, 1 | h], [2]] => { matche h { 3 => , [x, [h]] => [[false, 1] == x, [[q | x], 1, [h] | x] != q], 2 | [[_, 1, x]] => { q == [1, h] }, } }, }, [conde { [x == [1, "bc"], [1, 1] == x], [[2, ["a", q | q]] == q, x == x], [false, append(q, x, [2, 2])] }, q == [[_, [], 2 | q]], match q { z => , [[y]] => { |fresh_name_9| { fresh_name_9 == [3, 2], [3, 1 | fresh_name_9] != [3, 1, 3, 2] }, [q, y, q] != q }, [z, z | h] => |tz| { tz == [2], [1, 1 | tz] != [1, 1, 2] }, }], |z, t| { z == [z, t, _], x == [["bc" | q] | t], [[2]] == [_] }]])
}
pub fn case_448(vars: &Vars) -> InferredGoal<DU, DE, Goal<DU, DE>> {
    let x = vars.v[0].clone();
    let y = vars.v[1].clone();
    proto_vulcan!([[append(x, y, [1]), x == [x]], [] != 1, [|tz| { tz == [2], [1 | tz] != [1, 2] }, conde { conde { [member(x, [3, 3, 1]), false], member(y, [3, 1, 3]), [|tz| { [3, 1, 2] != [3, 1 | tz], tz == [2] }, false] }, [[], x] != y, [|y| { _ == y, false }, 2 == x] }, y == []]])
}
pub fn case_449(vars: &Vars) -> InferredGoal<DU, DE, Goal<DU, DE>> {
    let x = vars.v[0].clone();
    let y = vars.v[1].clone();
    proto_vulcan!([[append(x, y, [1]), x == [x]], [] != 1, [|tz| { tz == [2], [1 | tz] != [1, 2] }, conde { conde { [member(x, [3, 3, 1]), false], member(y, [3, 1, 3]), [|tz| { [3, 1, 2] != [3, 1 | tz], tz == [2] }, false] }, [[], x] != y, [|fresh_name_9| { _ == fresh_name_9, false }, 2 == x] }, y == []]])
}
pub fn case_450(vars: &Vars) -> InferredGoal<DU, DE, Goal<DU, DE>> {
    let q = vars.v[0].clone();
    let x = vars.v[1].clone();
    proto_vulcan!([matche q { t => , h | [y, [1 | _]] => { q == [q, 3, x | q], true }, }, |z| { conde { [[] == _, |tz| { [2, 1, 2, 2] != [2, 1 | tz], tz == [2, 2] }], [conde { [[false, _] != z, ['a', q, [] | z] == z], |tz| { [3, 3, 3, 1] != [3, 3 | tz], tz == [3, 1] } }, matche q { [[z, "bc", _], [y, 2 | 1] | 1] => { member(z, [1]) }, [[h, z], 1, 1] => , }], 'a' == z }, x == [x | q] }])
}
pub fn case_451(vars: &Vars) -> InferredGoal<DU, DE, Goal<DU, DE>> {
    let q = vars.v[0].clone();
    let x = vars.v[1].clone();
    proto_vulcan!([matche q { t => , h | [y, [1 | _]] => { q == [q, 3, x | q], true }, }, |fresh_name_9| { conde { [[] == _, |tz| { [2, 1, 2, 2] != [2, 1 | tz], tz == [2, 2] }], [conde { [[false, _] != fresh_name_9, ['a', q, [] | fresh_name_9] == fresh_name_9], |tz| { [3, 3, 3, 1] != [3, 3 | tz], tz == [3, 1] } }, matche q { [[z, "bc", _], [y, 2 | 1] | 1] => { member(z, [1]) }, [[h, z], 1, 1] => , }], 'a' == fresh_name_9 }, x == [x | q] }])
}
pub fn case_452(vars: &Vars) -> InferredGoal<DU, DE, Goal<DU, DE>> {
    let x = vars.v[0].clone();
    proto_vulcan!([match [[], 2] { [[false, z, 1], t] => [[z != z, x == t, match t { h => , }], |t| { false, false, [false] }], [[x], 2, [y, _, 3 | x] | _] => , }])
}
pub fn case_453(vars: &Vars) -> InferredGoal<DU, DE, Goal<DU, DE>> {
    let x = vars.v[0].clone();
    proto_vulcan!([match [[], 2] { [[false, z, 1], t] => [[z != z, x == t, match t { fresh_name_9 => , }], |t| { false, false, [false] }], [[x], 2, [y, _, 3 | x] | _] => , }])
}
pub fn case_454(vars: &Vars) -> InferredGoal<DU, DE, Goal<DU, DE>> {
    let q = vars.v[0].clone();
    let x = vars.v[1].clone();
    proto_vulcan!([x == [[_, q]], _ == q, conde { [[matche 3 { [x, [z, 1, h]] => [z | 2] != x, [[z, x], [1, y]] => { z == [[x], [2 | y], ["a" | q]] }, }, [x, "bc", [2]] == x], [match x { [[y, 1, "a"], [1, 1, true], ["bc" | false]] => { [[x], 'b'] == [[3, 3], [] | y] }, }, |tz| { [2, 3, 3] != [2, 3 | tz], tz == [3] }]], [2 == q, matche x { _ => [match q { _ => [q == [2, q, 1], [3, [] | x] == q], }, |x| { [2, false | x] == x }], }], [matche x { [[2], [1, 2, 2 | _]] | _ => , [[1, t, x], "a"] => [3] == [x], }, [[3, 2 | x] != x]] }, closure { conde { [x == [1], match x { x => 2 != x, h => [x, q] == x, [z | y] => { append(y, x, []), q == [_, x] }, }], |x, z| { [["a", 1], [false], []] == [3, x, 2], z == x, "bc" == x }, [match x { false => , [2] => [|tz| { tz == [2, 2], [3, 2, 2] != [3 | tz] }, q == ['b', false, 2 | q]], }, |h| { q == x }] } }])
}
pub fn case_455(vars: &Vars) -> InferredGoal<DU, DE, Goal<DU, DE>> {
    let q = vars.v[0].clone();
    let x = vars.v[1].clone();
    proto_vulcan!([x == [[_, q]], _ == q, conde { [[matche 3 { [x, [z, 1, h]] => [z | 2] != x, [[z, x], [1, y]] => { z == [[x], [2 | y], ["a" | q]] }, }, [x, "bc", [2]] == x], [match x { [[y, 1, "a"], [1, 1, true], ["bc" | false]] => { [[x], 'b'] == [[3, 3], [] | y] }, }, |tz| { [2, 3, 3] != [2, 3 | tz], tz == [3] }]], [2 == q, matche x { _ => [match q { _ => [q == [2, q, 1], [3, [] | x] == q], }, |x| { [2, false | x] == x }], }], [matche x { [[2], [1, 2, 2 | _]] | _ => , [[1, t, x], "a"] => [3] == [x], }, [[3, 2 | x] != x]] }, closure { conde { [x == [1], match x { x => 2 != x, h => [x, q] == x, [z | y] => { append(y, x, []), q == [_, x] }, }], |x, z| { [["a", 1], [false], []] == [3, x, 2], z == x, "bc" == x }, [match x { false => , [2] => [|tz| { tz == [2, 2], [3, 2, 2] != [3 | tz] }, q == ['b', false, 2 | q]], }, |fresh_name_9| { q == x }] } }])
}
pub fn case_456(vars: &Vars) -> InferredGoal<DU, DE, Goal<DU, DE>> {
    let q = vars.v[0].clone();
    let x = vars.v[1].clone();
    proto_vulcan!([member(x, [2, 1, 2]), |t, z| { |t| { [[true, t], 2] == t, conde { [true, [1, t | t]] == z, x == [[_, 1]] }, |tz| { [1 | tz] != [1, 3, 1], tz == [3, 1] } } }])
}
pub fn case_457(vars: &Vars) -> InferredGoal<DU, DE, Goal<DU, DE>> {
    let q = vars.v[0].clone();
    let x = vars.v[1].clone();
    proto_vulcan!([member(x, [2, 1, 2]), |t, z| { |fresh_name_9| { [[true, fresh_name_9], 2] == fresh_name_9, conde { [true, [1, fresh_name_9 | fresh_name_9]] == z, x == [[_, 1]] }, |tz| { [1 | tz] != [1, 3, 1], tz == [3, 1] } } }])
}
pub fn case_458(vars: &Vars) -> InferredGoal<DU, DE, Goal<DU, DE>> {
    let x = vars.v[0].clone();
    proto_vulcan!([conde { [] == x, [x != [], [|h, t| { x != [2, x | h], append(h, h, [3, 2]) }, [member(x, [2]), x == [x, "bc", 3]]]], x == [x] }, x == [x]])
}
pub fn case_459(vars: &Vars) -> InferredGoal<DU, DE, Goal<DU, DE>> {
    let x = vars.v[0].clone();
    proto_vulcan!([conde { [] == x, [x != [], [|h, fresh_name_9| { x != [2, x | h], append(h, h, [3, 2]) }, [member(x, [2]), x == [x, "bc", 3]]]], x == [x] }, x == [x]])
}
pub fn case_460(vars: &Vars) -> InferredGoal<DU, DE, Goal<DU, DE>> {
    let q = vars.v[0].clone();
    let x = vars.v[1].clone();
    proto_vulcan!([|t| { [x == [_, t, 1], conde { [x != x, [x, [q, [], q | t]] == t], [[t, q] != t, t == q] }], x == x, matche t { x => { conde { [true, q == x], [[t, _ | false] == x, x != t] } }, ['b', ["a"], h | z] => , } }, 2 == false, match x { _ | [y, [t, 2, false], [_ | y]] => { x == [2], false }, [[1] | z] => match 2 { t => { match 2 { [[z, z], [t, t, 1 | t]] => [z == [z, _, z], t == [z]], [[_, t | x], [_, _ | y], "bc" | _] => { x == _, x == [[1], [1], [1, [] | z]] }, } }, }, }, closure { [match _ { 2 => , [[h, y, _], [_], [[]]] => { [[]] == y }, [['b'], ["a", 1 | x]] => { [|tz| { [3, 1, 3, 1] != [3, 1 | tz], tz == [3, 1] }], [member(x, []), q == 1, append(x, q, [2, 1])] }, }, x != [1, q | q]] }])
}
pub fn case_461(vars: &Vars) -> InferredGoal<DU, DE, Goal<DU, DE>> {
    let q = vars.v[0].clone();
    let x = vars.v[1].clone();
    proto_vulcan!([|t| { [x == [_, t, 1], conde { [x != x, [x, [q, [], q | t]] == t], [[t, q] != t, t == q] }], x == x, matche t { x => { conde { [true, q == x], [[t, _ | false] == x, x != t] } }, ['b', ["a"], h | z] => , } }, 2 == false, match x { _ | [y, [t, 2, false], [_ | y]] => { x == [2], false }, [[1] | z] => match 2 { t => { match 2 { [[z, z], [fresh_name_9, fresh_name_9, 1 | fresh_name_9]] => [z == [z, _, z], fresh_name_9 == [z]], [[_, t | x], [_, _ | y], "bc" | _] => { x == _, x == [[1], [1], [1, [] | z]] }, } }, }, }, closure { [match _ { 2 => , [[h, y, _], [_], [[]]] => { [[]] == y }, [['b'], ["a", 1 | x]] => { [|tz| { [3, 1, 3, 1] != [3, 1 | tz], tz == [3, 1] }], [member(x, []), q == 1, append(x, q, [2, 1])] }, }, x != [1, q | q]] }])
}
pub fn case_462(vars: &Vars) -> InferredGoal<DU, DE, Goal<DU, DE>> {
    let x = vars.v[0].clone();
    proto_vulcan!([x == [_], |tz| { [1 | tz] != [1, 3], tz == [3] }, closure { match x { 3 | false => { [[]] == 2, [false, 2 != x, false] }, [[t]] => { |h| { [x, x | 1] == h, h == [3], 1 == [[t, x, 3 | h], [t, x, _], [t]] } }, 3 => , } }])
}
pub fn case_463(vars: &Vars) -> InferredGoal<DU, DE, Goal<DU, DE>> {
    let x = vars.v[0].clone();
    proto_vulcan!([x == [_], |fresh_name_9| { [1 | fresh_name_9] != [1, 3], fresh_name_9 == [3] }, closure { match x { 3 | false => { [[]] == 2, [false, 2 != x, false] }, [[t]] => { |h| { [x, x | 1] == h, h == [3], 1 == [[t, x, 3 | h], [t, x, _], [t]] } }, 3 => , } }])
}
pub fn case_464(vars: &Vars) -> InferredGoal<DU, DE, Goal<DU, DE>> {
    let q = vars.v[0].clone();
    let x = vars.v[1].clone();
    proto_vulcan!([|t, y| { [matche y { [[z, y]] => { [y, z] == q }, x => , }, member(t, [2, 2])], true }, [_, ["a", "a", q]] == x, match x { [h, t] => , 2 | 2 => { conde { [conde { [q != 1, |tz| { tz == [3, 3], [3 | tz] != [3, 3, 3] }], [true, append(q, x, [])], q == [3] }, |h| { append(q, h, [1, 1]), [[[], h], [1, 1], [x, h]] != x, |tz| { tz == [3], [1, 3] != [1 | tz] } }], [[|tz| { tz == [3], [3, 1, 3] != [3, 1 | tz] }], [x, q, x] == q], match x { [[], t, [1]] => { [q, 1, 2] == t, |tz| { [3, 2 | tz] != [3, 2, 3], tz == [3] } }, } }, matche q { h | [t] => , } }, [[true, 3 | h], [], [_]] => { [|z, x| { member(h, []), true }, [2] == x, [h] == [[x]]] }, }])
}
pub fn case_465(vars: &Vars) -> InferredGoal<DU, DE, Goal<DU, DE>> {
    let q = vars.v[0].clone();
    let x = vars.v[1].clone();
    proto_vulcan!([|t, y| { [matche y { [[z, y]] => { [y, z] == q }, x => , }, member(t, [2, 2])], true }, [_, ["a", "a", q]] == x, match x { [h, t] => , 2 | 2 => { conde { [conde { [q != 1, |tz| { tz == [3, 3], [3 | tz] != [3, 3, 3] }], [true, append(q, x, [])], q == [3] }, |h| { append(q, h, [1, 1]), [[[], h], [1, 1], [x, h]] != x, |fresh_name_9| { fresh_name_9 == [3], [1, 3] != [1 | fresh_name_9] } }], [[|tz| { tz == [3], [3, 1, 3] != [3, 1 | tz] }], [x, q, x] == q], match x { [[], t, [1]] => { [q, 1, 2] == t, |tz| { [3, 2 | tz] != [3, 2, 3], tz == [3] } }, } }, matche q { h | [t] => , } }, [[true, 3 | h], [], [_]] => { [|z, x| { member(h, []), true }, [2] == x, [h] == [[x]]] }, }])
}
pub fn case_466(vars: &Vars) -> InferredGoal<DU, DE, Goal<DU, DE>> {
    let q = vars.v[0].clone();
    let x = vars.v[1].clone();
    proto_vulcan!([q != x, matche x { [[1, z | _]] => |y| { [append(x, y, []), x == [z, x, 2], x != q], [member(q, [3, 2]), [1] != y] }, }, match x { [2, [2, 1, t] | _] | y => [q == [1, 3 | q], match 1 { [[_, [] | z], x, [_]] | 1 => { ['b', q, [] | q] == q }, [[t, 'b' | _]] => , }], }, closure { [|z| { x != [x, "bc", z], x == z }, |z, t| { conde { [false, _ == z], q == 2, [t != [x, [], 2], member(q, [2, 1, 1])] }, false }] }])
}
pub fn case_467(vars: &Vars) -> InferredGoal<DU, DE, Goal<DU, DE>> {
    let q = vars.v[0].clone();
    let x = vars.v[1].clone();
    proto_vulcan!([q != x, matche x { [[1, z | _]] => |fresh_name_9| { [append(x, fresh_name_9, []), x == [z, x, 2], x != q], [member(q, [3, 2]), [1] != fresh_name_9] }, }, match x { [2, [2, 1, t] | _] | y => [q == [1, 3 | q], match 1 { [[_, [] | z], x, [_]] | 1 => { ['b', q, [] | q] == q }, [[t, 'b' | _]] => , }], }, closure { [|z| { x != [x, "bc", z], x == z }, |z, t| { conde { [false, _ == z], q == 2, [t != [x, [], 2], member(q, [2, 1, 1])] }, false }] }])
}
pub fn case_468(vars: &Vars) -> InferredGoal<DU, DE, Goal<DU, DE>> {
    let x = vars.v[0].clone();
    let y = vars.v[1].clone();
    proto_vulcan!([_ == y, |y| { |y| { y == y }, conde { conde { false, [[x, []]] == 3, [y == [y, x, x], ['a', x] != y] }, [matche y { [[_], [t, 1 | 2]] | [[], [3 | y], []] => { [x, 3] == [_, []], [x | x] == x }, [["a", 1, []], ['b'], [t | h]] | 1 => member(y, [2, 1, 3]), }, |y| { 'b' == y }] } }, y == [3, x, _], closure { 1 != x }])
}
pub fn case_469(vars: &Vars) -> InferredGoal<DU, DE, Goal<DU, DE>> {
    let x = vars.v[0].clone();
    let y = vars.v[1].clone();
    proto_vulcan!([_ == y, |fresh_name_9| { |y| { y == y }, conde { conde { false, [[x, []]] == 3, [fresh_name_9 == [fresh_name_9, x, x], ['a', x] != fresh_name_9] }, [matche fresh_name_9 { [[_], [t, 1 | 2]] | [[], [3 | y], []] => { [x, 3] == [_, []], [x | x] == x }, [["a", 1, []], ['b'], [t | h]] | 1 => member(fresh_name_9, [2, 1, 3]), }, |y| { 'b' == y }] } }, y == [3, x, _], closure { 1 != x }])
}
pub fn case_470(vars: &Vars) -> InferredGoal<DU, DE, Goal<DU, DE>> {
    let x = vars.v[0].clone();
    proto_vulcan!([[[2], [_, x, 2], [2]] == [x, 3, []], append(x, x, [2, 1]), |tz| { [2, 3 | tz] != [2, 3, 3, 3], tz == [3, 3] }, closure { true }])
}
pub fn case_471(vars: &Vars) -> InferredGoal<DU, DE, Goal<DU, DE>> {
    let x = vars.v[0].clone();
    proto_vulcan!([[[2], [_, x, 2], [2]] == [x, 3, []], append(x, x, [2, 1]), |fresh_name_9| { [2, 3 | fresh_name_9] != [2, 3, 3, 3], fresh_name_9 == [3, 3] }, closure { true }])
}
pub fn case_472(vars: &Vars) -> InferredGoal<DU, DE, Goal<DU, DE>> {
    let x = vars.v[0].clone();
    proto_vulcan!([match [x, 2] { h | _ => , [y] | ["a", [h, _]] => { x != "bc", |x| { x == x, [member(x, [])], x == [x] } }, [[t, 1, _], 2, "bc" | h] => , }, x != x])
}
pub fn case_473(vars: &Vars) -> InferredGoal<DU, DE, Goal<DU, DE>> {
    let x = vars.v[0].clone();
    proto_vulcan!([match [x, 2] { h | _ => , [y] | ["a", [h, _]] => { x != "bc", |fresh_name_9| { fresh_name_9 == fresh_name_9, [member(fresh_name_9, [])], fresh_name_9 == [fresh_name_9] } }, [[t, 1, _], 2, "bc" | h] => , }, x != x])
}
pub fn case_474(vars: &Vars) -> InferredGoal<DU, DE, Goal<DU, DE>> {
    let q = vars.v[0].clone();
    let x = vars.v[1].clone();
    proto_vulcan!([conde { false, matche x { [x, z] => , [z, [], [] | h] => [|tz| { tz == [2, 1], [2, 1, 2, 1] != [2, 1 | tz] }], [[2], [1 | 2], ['a']] => , } }])
}
pub fn case_475(vars: &Vars) -> InferredGoal<DU, DE, Goal<DU, DE>> {
    let q = vars.v[0].clone();
    let x = vars.v[1].clone();
    proto_vulcan!([conde { false, matche x { [x, z] => , [z, [], [] | fresh_name_9] => [|tz| { tz == [2, 1], [2, 1, 2, 1] != [2, 1 | tz] }], [[2], [1 | 2], ['a']] => , } }])
}
pub fn case_476(vars: &Vars) -> InferredGoal<DU, DE, Goal<DU, DE>> {
    let q = vars.v[0].clone();
    let x = vars.v[1].clone();
    proto_vulcan!([conde { member(x, []), match x { [[_, t], [1 | h], [h]] => { [[t]] == x, false }, [x, [x, [], x], _] => [member(x, []), _ == [2, x, "bc" | x]], [h, z, x] => _ == x, }, [x == [x, []], [3, q, x] == q] }, closure { [3 == x, x != q] }])
}
pub fn case_477(vars: &Vars) -> InferredGoal<DU, DE, Goal<DU, DE>> {
    let q = vars.v[0].clone();
    let x = vars.v[1].clone();
    proto_vulcan!([conde { member(x, []), match x { [[_, t], [1 | h], [h]] => { [[t]] == x, false }, [x, [x, [], x], _] => [member(x, []), _ == [2, x, "bc" | x]], [fresh_name_9, z, x] => _ == x, }, [x == [x, []], [3, q, x] == q] }, closure { [3 == x, x != q] }])
}
pub fn case_478(vars: &Vars) -> InferredGoal<DU, DE, Goal<DU, DE>> {
    let q = vars.v[0].clone();
    let x = vars.v[1].clone();
    proto_vulcan!([1 == q, append(q, q, [2]), closure { |x| { |y| { [_ | x] == y, [q] == x, append(x, y, [3, 3]) } } }])
}
pub fn case_479(vars: &Vars) -> InferredGoal<DU, DE, Goal<DU, DE>> {
    let q = vars.v[0].clone();
    let x = vars.v[1].clone();
    proto_vulcan!([1 == q, append(q, q, [2]), closure { |fresh_name_9| { |y| { [_ | fresh_name_9] == y, [q] == fresh_name_9, append(fresh_name_9, y, [3, 3]) } } }])
}
pub fn case_480(vars: &Vars) -> InferredGoal<DU, DE, Goal<DU, DE>> {
    let q = vars.v[0].clone();
    let x = vars.v[1].clone();
    proto_vulcan!([|x, z| { |y, x| { [2, [] | y] == x, [[1], ['a' | x], []] == x }, match z { [["bc", 2]] | [_, ["bc", y], [[], y, 1 | x]] => , [[true, h], [x, 'b' | h], [y, z, _]] | y => match [y, _] { [[2, false], [_], [2, x]] | [[z, z, 1], [3, z, []]] => { q != 2 }, }, }, [[[q, q | x] | x] != [x, x, []]] }, |tz| { tz == [3], [2, 2, 3] != [2, 2 | tz] }, [x, q | q] != q, closure { [|h| { h == 'b', [3] == x, true }, x == q] }])
}
pub fn case_481(vars: &Vars) -> InferredGoal<DU, DE, Goal<DU, DE>> {
    let q = vars.v[0].clone();
    let x = vars.v[1].clone();
    proto_vulcan!([|x, z| { |y, x| { [2, [] | y] == x, [[1], ['a' | x], []] == x }, match z { [["bc", 2]] | [_, ["bc", y], [[], y, 1 | x]] => , [[true, h], [x, 'b' | h], [y, z, _]] | y => match [y, _] { [[2, false], [_], [2, x]] | [[z, z, 1], [3, z, []]] => { q != 2 }, }, }, [[[q, q | x] | x] != [x, x, []]] }, |tz| { tz == [3], [2, 2, 3] != [2, 2 | tz] }, [x, q | q] != q, closure { [|fresh_name_9| { fresh_name_9 == 'b', [3] == x, true }, x == q] }])
}
pub fn case_482(vars: &Vars) -> InferredGoal<DU, DE, Goal<DU, DE>> {
    let q = vars.v[0].clone();
    let x = vars.v[1].clone();
    proto_vulcan!([[conde { [[q, q] == x, |t, h| { [] == x }], [false, conde { x == 'a', [append(q, x, [2]), member(x, [1, 1])] }], q == q }], matche x { "bc" => [] == x, 'a' => { conde { [conde { false, true, [x == [[], [x | q], x], member(x, [3, 2, 2])] }, q == 2], [["bc", x, x | x] == q, |t| { 2 == t, append(q, x, [3]), |tz| { [2, 2, 2] != [2, 2 | tz], tz == [2] } }] }, x == [[], [[], 2], 2] }, ["bc" | t] => { |tz| { [3, 3] != [3 | tz], tz == [3] } }, }, closure { [|x| { [q == 3, [x] == [[]]], x == 1 }, q == x] }])
}
pub fn case_483(vars: &Vars) -> InferredGoal<DU, DE, Goal<DU, DE>> {
    let q = vars.v[0].clone();
    let x = vars.v[1].clone();
    proto_vulcan!([[conde { [[q, q] == x, |t, h| { [] == x }], [false, conde { x == 'a', [append(q, x, [2]), member(x, [1, 1])] }], q == q }], matche x { "bc" => [] == x, 'a' => { conde { [conde { false, true, [x == [[], [x | q], x], member(x, [3, 2, 2])] }, q == 2], [["bc", x, x | x] == q, |t| { 2 == t, append(q, x, [3]), |tz| { [2, 2, 2] != [2, 2 | tz], tz == [2] } }] }, x == [[], [[], 2], 2] }, ["bc" | fresh_name_9] => { |tz| { [3, 3] != [3 | tz], tz == [3] } }, }, closure { [|x| { [q == 3, [x] == [[]]], x == 1 }, q == x] }])
}
pub fn case_484(vars: &Vars) -> InferredGoal<DU, DE, Goal<DU, DE>> {
    let x = vars.v[0].clone();
    proto_vulcan!([x == [_, x, x], |z, x| { conde { [matche x { [h, [true, "bc", 2]] | 3 => { [x, []] != x }, t => { false, [_, x] == t }, [[_], 1] => , }, conde { append(x, x, [2]), 1 == x }], [matche [x, false] { _ => _ == x, }, match z { [1, [x, [], 2], _] => [x, [], z | _] != x, z => { [[1], [z, z, z]] == [[1, x, x | z], [z, x, 2]] }, }], 1 == x }, member(z, [2, 3]) }, [x] != x])
}
pub fn case_485(vars: &Vars) -> InferredGoal<DU, DE, Goal<DU, DE>> {
    let x = vars.v[0].clone();
    proto_vulcan!([x == [_, x, x], |z, x| { conde { [matche x { [h, [true, "bc", 2]] | 3 => { [x, []] != x }, t => { false, [_, x] == t }, [[_], 1] => , }, conde { append(x, x, [2]), 1 == x }], [matche [x, false] { _ => _ == x, }, match z { [1, [x, [], 2], _] => [x, [], z | _] != x, fresh_name_9 => { [[1], [fresh_name_9, fresh_name_9, fresh_name_9]] == [[1, x, x | fresh_name_9], [fresh_name_9, x, 2]] }, }], 1 == x }, member(z, [2, 3]) }, [x] != x])
}
pub fn case_486(vars: &Vars) -> InferredGoal<DU, DE, Goal<DU, DE>> {
    let x = vars.v[0].clone();
    proto_vulcan!([x != [], [[[append(x, x, []), [x, x | x] == x, |tz| { tz == [3, 1], [2, 3 | tz] != [2, 3, 3, 1] }], matche [_, 2] { [x] => , }, |t| { |tz| { tz == [3], [3 | tz] != [3, 3] }, t == [[_, x], [[]], [x, 2, 1] | t] }], conde { [x == [[], x], x == x], [conde { [x != [x, x], x == [x, 3, x]], [x == 1, [x, x | x] == x], x == x }, conde { [true, x == true], [2 != "a", x != [2, 2, 2]], [[2, 1, _] == [['a', x, x], [_], [_ | x]], [x, _, 1 | _] != x] }], true }], closure { [|h| { h == [[x, x | 3], h], |tz| { [2, 1, 1] != [2, 1 | tz], tz == [1] } }, x == [2, 2]] }])
}
pub fn case_487(vars: &Vars) -> InferredGoal<DU, DE, Goal<DU, DE>> {
    let x = vars.v[0].clone();
    proto_vulcan!([x != [], [[[append(x, x, []), [x, x | x] == x, |fresh_name_9| { fresh_name_9 == [3, 1], [2, 3 | fresh_name_9] != [2, 3, 3, 1] }], matche [_, 2] { [x] => , }, |t| { |tz| { tz == [3], [3 | tz] != [3, 3] }, t == [[_, x], [[]], [x, 2, 1] | t] }], conde { [x == [[], x], x == x], [conde { [x != [x, x], x == [x, 3, x]], [x == 1, [x, x | x] == x], x == x }, conde { [true, x == true], [2 != "a", x != [2, 2, 2]], [[2, 1, _] == [['a', x, x], [_], [_ | x]], [x, _, 1 | _] != x] }], true }], closure { [|h| { h == [[x, x | 3], h], |tz| { [2, 1, 1] != [2, 1 | tz], tz == [1] } }, x == [2, 2]] }])
}
pub fn case_488(vars: &Vars) -> InferredGoal<DU, DE, Goal<DU, DE>> {
    let x = vars.v[0].clone();
    let y = vars.v[1].clone();
    proto_vulcan!([conde { [|tz| { tz == [2, 3], [3, 1 | tz] != [3, 1, 2, 3] }, |tz| { tz == [1], [1, 2, 1] != [1, 2 | tz] }], x == 2 }, member(y, [1]), [y == [_, _, x | x], |t, z| { [t == [y, 2, x], 3 == t], z == y }, [x == [x, true | x], |h| { y == 1 }, x == [2, x, 1]]], closure { conde { ['a' == y, [true]], y == [y | x] } }])
}
pub fn case_489(vars: &Vars) -> InferredGoal<DU, DE, Goal<DU, DE>> {
    let x = vars.v[0].clone();
    let y = vars.v[1].clone();
    proto_vulcan!([conde { [|tz| { tz == [2, 3], [3, 1 | tz] != [3, 1, 2, 3] }, |fresh_name_9| { fresh_name_9 == [1], [1, 2, 1] != [1, 2 | fresh_name_9] }], x == 2 }, member(y, [1]), [y == [_, _, x | x], |t, z| { [t == [y, 2, x], 3 == t], z == y }, [x == [x, true | x], |h| { y == 1 }, x == [2, x, 1]]], closure { conde { ['a' == y, [true]], y == [y | x] } }])
}
pub fn case_490(vars: &Vars) -> InferredGoal<DU, DE, Goal<DU, DE>> {
    let q = vars.v[0].clone();
    let x = vars.v[1].clone();
    proto_vulcan!([x != 1, x == q, closure { conde { |x, z| { x == [], |tz| { [1, 2, 3] != [1, 2 | tz], tz == [3] }, z == [[], [x, x | x], [_, z, x | q]] }, conde { false, [q == x, |tz| { tz == [3, 3], [3 | tz] != [3, 3, 3] }] }, [append(q, x, []), conde { [false, true], [false, [2] != [_, q]] }] } }])
}
pub fn case_491(vars: &Vars) -> InferredGoal<DU, DE, Goal<DU, DE>> {
    let q = vars.v[0].clone();
    let x = vars.v[1].clone();
    proto_vulcan!([x != 1, x == q, closure { conde { |x, fresh_name_9| { x == [], |tz| { [1, 2, 3] != [1, 2 | tz], tz == [3] }, fresh_name_9 == [[], [x, x | x], [_, fresh_name_9, x | q]] }, conde { false, [q == x, |tz| { tz == [3, 3], [3 | tz] != [3, 3, 3] }] }, [append(q, x, []), conde { [false, true], [false, [2] != [_, q]] }] } }])
}
pub fn case_492(vars: &Vars) -> InferredGoal<DU, DE, Goal<DU, DE>> {
    let x = vars.v[0].clone();
    proto_vulcan!([member(x, []), match x { z => [x == [2], 2 == [[], x]], [[2, _, "a"], [t, _, h]] => [t == "bc", [|x, h| { true, x == x, append(x, h, [3]) }]], }, closure { [match x { [z, [2, t, true | x], [3, _, 3]] => [|x| { |tz| { [1, 1, 3, 1] != [1, 1 | tz], tz == [3, 1] }, x != [3, ['b' | x] | z] }, t == z], }, conde { [x != [[x, 1, x] | x], [] != x], match x { x => , [1, [t, 2]] => false, } }] }])
}
pub fn case_493(vars: &Vars) -> InferredGoal<DU, DE, Goal<DU, DE>> {
    let x = vars.v[0].clone();
    proto_vulcan!([member(x, []), match x { z => [x == [2], 2 == [[], x]], [[2, _, "a"], [t, _, h]] => [t == "bc", [|x, fresh_name_9| { true, x == x, append(x, fresh_name_9, [3]) }]], }, closure { [match x { [z, [2, t, true | x], [3, _, 3]] => [|x| { |tz| { [1, 1, 3, 1] != [1, 1 | tz], tz == [3, 1] }, x != [3, ['b' | x] | z] }, t == z], }, conde { [x != [[x, 1, x] | x], [] != x], match x { x => , [1, [t, 2]] => false, } }] }])
}
pub fn case_494(vars: &Vars) -> InferredGoal<DU, DE, Goal<DU, DE>> {
    let x = vars.v[0].clone();
    proto_vulcan!([x == x, matche x { [[], 2, [z]] => [z == [x, z, [true | x] | z], conde { z == 3, [z == z, |tz| { [1, 2, 2, 2] != [1, 2 | tz], tz == [2, 2] }], z != [[_, 'a', [] | z]] }], [[3, 2, y], [_, _ | _]] | z => { match 2 { 3 | [[true | _], [h]] => , } }, [y, [_, t | h], []] | [[h, t], [1, 2 | y], 1 | y] => match x { [[z]] => matche y { [z, [x], t | t] | [[h | t], [z, 'a' | false], [t, _, t] | _] => { append(z, z, [1]) }, [1, [], [z, t, t | z] | z] => { [y] == x }, 1 => , }, }, }])
}
pub fn case_495(vars: &Vars) -> InferredGoal<DU, DE, Goal<DU, DE>> {
    let x = vars.v[0].clone();
    proto_vulcan!([x == x, matche x { [[], 2, [fresh_name_9]] => [fresh_name_9 == [x, fresh_name_9, [true | x] | fresh_name_9], conde { fresh_name_9 == 3, [fresh_name_9 == fresh_name_9, |tz| { [1, 2, 2, 2] != [1, 2 | tz], tz == [2, 2] }], fresh_name_9 != [[_, 'a', [] | fresh_name_9]] }], [[3, 2, y], [_, _ | _]] | z => { match 2 { 3 | [[true | _], [h]] => , } }, [y, [_, t | h], []] | [[h, t], [1, 2 | y], 1 | y] => match x { [[z]] => matche y { [z, [x], t | t] | [[h | t], [z, 'a' | false], [t, _, t] | _] => { append(z, z, [1]) }, [1, [], [z, t, t | z] | z] => { [y] == x }, 1 => , }, }, }])
}
pub fn case_496(vars: &Vars) -> InferredGoal<DU, DE, Goal<DU, DE>> {
    let x = vars.v[0].clone();
    let y = vars.v[1].clone();
    proto_vulcan!([[[[], y | x]] == [1, 'a'], matche y { [[false, 2, t | h], [t, 1]] => { [|t| { y != [1, h, 3 | t], 'a' == h }, |x| { |tz| { [1 | tz] != [1, 2, 3], tz == [2, 3] } }, [false, append(h, x, []), false]] }, [1] => matche y { 'a' | 2 => { [[], [[], 1, 2]] == y }, [['a', _], [x, z], 3] => |y| { append(y, x, [1]), true, z != [z, 2, 2 | "a"] }, }, [[_ | x], [x, y]] => , }, |z| { |tz| { [2, 1 | tz] != [2, 1, 3, 3], tz == [3, 3] }, x != [x, z, y], |x| { matche x { _ => { |tz| { tz == [1], [1 | tz] != [1, 1] }, [[2, 3, "a"], x | x] == y }, [h, z, [1]] => { x != _ }, [t, [2, z], []] => { true }, }, conde { [y == x, append(x, x, [])], z == y, [member(z, [3, 3]), y != [[]]] } } }])
}
pub fn case_497(vars: &Vars) -> InferredGoal<DU, DE, Goal<DU, DE>> {
    let x = vars.v[0].clone();
    let y = vars.v[1].clone();
    proto_vulcan!([[[[], y | x]] == [1, 'a'], matche y { [[false, 2, t | h], [t, 1]] => { [|t| { y != [1, h, 3 | t], 'a' == h }, |x| { |tz| { [1 | tz] != [1, 2, 3], tz == [2, 3] } }, [false, append(h, x, []), false]] }, [1] => matche y { 'a' | 2 => { [[], [[], 1, 2]] == y }, [['a', _], [x, z], 3] => |y| { append(y, x, [1]), true, z != [z, 2, 2 | "a"] }, }, [[_ | x], [x, fresh_name_9]] => , }, |z| { |tz| { [2, 1 | tz] != [2, 1, 3, 3], tz == [3, 3] }, x != [x, z, y], |x| { matche x { _ => { |tz| { tz == [1], [1 | tz] != [1, 1] }, [[2, 3, "a"], x | x] == y }, [h, z, [1]] => { x != _ }, [t, [2, z], []] => { true }, }, conde { [y == x, append(x, x, [])], z == y, [member(z, [3, 3]), y != [[]]] } } }])
}
pub fn case_498(vars: &Vars) -> InferredGoal<DU, DE, Goal<DU, DE>> {
    let q = vars.v[0].clone();
    let x = vars.v[1].clone();
    proto_vulcan!([matche q { y => , [[]] | [2, [[], _]] => , }])
}
pub fn case_499(vars: &Vars) -> InferredGoal<DU, DE, Goal<DU, DE>> {
    let q = vars.v[0].clone();
    let x = vars.v[1].clone();
    proto_vulcan!([matche q { fresh_name_9 => , [[]] | [2, [[], _]] => , }])
}
pub fn case_500(vars: &Vars) -> InferredGoal<DU, DE, Goal<DU, DE>> {
    let x = vars.v[0].clone();
    let y = vars.v[1].clone();
    proto_vulcan!([|h, t| { t == [1 | x], [x, h, 1] == x }, true, y == [x, 2]])
}
pub fn case_501(vars: &Vars) -> InferredGoal<DU, DE, Goal<DU, DE>> {
    let x = vars.v[0].clone();
    let y = vars.v[1].clone();
    proto_vulcan!([|fresh_name_9, t| { t == [1 | x], [x, fresh_name_9, 1] == x }, true, y == [x, 2]])
}
pub fn case_502(vars: &Vars) -> InferredGoal<DU, DE, Goal<DU, DE>> {
    let x = vars.v[0].clone();
    let y = vars.v[1].clone();
    proto_vulcan!([|tz| { tz == [1], [2, 3, 1] != [2, 3 | tz] }, conde { matche y { [[h, 3, 2], 2, [1]] => { |tz| { tz == [1, 2], [1, 1, 2] != [1 | tz] }, matche [y] { [y, 3, [[], h]] => { [h | h] == [[], [[], h, 3]] }, 3 => { [h, y | 2] == y }, } }, }, [|y, t| { [[["a", false] | 3] == t] }, 1 == [1, false | x]] }, match x { 'b' | [y, [3, h | h], 'b'] => , [[y, 1], [z, 1, 3], [t] | _] | [[_, 2], [t | h], [] | _] => , }, closure { |y| { [y, _, x] != y, [[3, y | x] | 1] == 3, [false] } }])
}
pub fn case_503(vars: &Vars) -> InferredGoal<DU, DE, Goal<DU, DE>> {
    let x = vars.v[0].clone();
    let y = vars.v[1].clone();
    proto_vulcan!([|tz| { tz == [1], [2, 3, 1] != [2, 3 | tz] }, conde { matche y { [[fresh_name_9, 3, 2], 2, [1]] => { |tz| { tz == [1, 2], [1, 1, 2] != [1 | tz] }, matche [y] { [y, 3, [[], h]] => { [h | h] == [[], [[], h, 3]] }, 3 => { [fresh_name_9, y | 2] == y }, } }, }, [|y, t| { [[["a", false] | 3] == t] }, 1 == [1, false | x]] }, match x { 'b' | [y, [3, h | h], 'b'] => , [[y, 1], [z, 1, 3], [t] | _] | [[_, 2], [t | h], [] | _] => , }, closure { |y| { [y, _, x] != y, [[3, y | x] | 1] == 3, [false] } }])
}
pub fn case_504(vars: &Vars) -> InferredGoal<DU, DE, Goal<DU, DE>> {
    let q = vars.v[0].clone();
    let x = vars.v[1].clone();
    proto_vulcan!([[_, _] != q, matche q { _ => { q == q }, [false, [_] | t] => , }, false])
}
pub fn case_505(vars: &Vars) -> InferredGoal<DU, DE, Goal<DU, DE>> {
    let q = vars.v[0].clone();
    let x = vars.v[1].clone();
    proto_vulcan!([[_, _] != q, matche q { _ => { q == q }, [false, [_] | fresh_name_9] => , }, false])
}
pub fn case_506(vars: &Vars) -> InferredGoal<DU, DE, Goal<DU, DE>> {
    let x = vars.v[0].clone();
    let y = vars.v[1].clone();
    proto_vulcan!([[true, x | y] == y, conde { [y] == y, [|t| { member(t, [2]) }, y != [y]] }, x == ["bc", x | 2], closure { conde { [y == [3], [[[1, 2]] == [[x, x, y]], true, [x, _ | 3] == x]], [1 == x, x != [x | y]] } }])
}
pub fn case_507(vars: &Vars) -> InferredGoal<DU, DE, Goal<DU, DE>> {
    let x = vars.v[0].clone();
    let y = vars.v[1].clone();
    proto_vulcan!([[true, x | y] == y, conde { [y] == y, [|fresh_name_9| { member(fresh_name_9, [2]) }, y != [y]] }, x == ["bc", x | 2], closure { conde { [y == [3], [[[1, 2]] == [[x, x, y]], true, [x, _ | 3] == x]], [1 == x, x != [x | y]] } }])
}
pub fn case_508(vars: &Vars) -> InferredGoal<DU, DE, Goal<DU, DE>> {
    let q = vars.v[0].clone();
    let x = vars.v[1].clone();
    proto_vulcan!([matche q { y => { [2, y] != q }, [_, t, h] => , [t, z] => [matche z { [[2, 1, 2], 1 | _] | [[2] | y] => , [t | _] | [[]] => q != 'b', }, |z, t| { conde { x == 2, [t == [t, [z | z] | z], 3 == z] }, matche t { false => , t | _ => { z == [_], [q] == q }, } }], }])
}
pub fn case_509(vars: &Vars) -> InferredGoal<DU, DE, Goal<DU, DE>> {
    let q = vars.v[0].clone();
    let x = vars.v[1].clone();
    proto_vulcan!([matche q { y => { [2, y] != q }, [_, fresh_name_9, h] => , [t, z] => [matche z { [[2, 1, 2], 1 | _] | [[2] | y] => , [t | _] | [[]] => q != 'b', }, |z, t| { conde { x == 2, [t == [t, [z | z] | z], 3 == z] }, matche t { false => , t | _ => { z == [_], [q] == q }, } }], }])
}
pub fn case_510(vars: &Vars) -> InferredGoal<DU, DE, Goal<DU, DE>> {
    let x = vars.v[0].clone();
    let y = vars.v[1].clone();
    proto_vulcan!([x == y, |z| { x == z, match [z, y] { 'a' => ["bc" == x, z != _], } }, [|tz| { tz == [1], [3, 1, 1] != [3, 1 | tz] }, [matche y { false | [[], [t, z], z | z] => { [true, 2] == x, x == y }, }, append(x, y, [3, 3])], 1 == y], closure { [2 | x] == y }])
}
pub fn case_511(vars: &Vars) -> InferredGoal<DU, DE, Goal<DU, DE>> {
    let x = vars.v[0].clone();
    let y = vars.v[1].clone();
    proto_vulcan!([x == y, |z| { x == z, match [z, y] { 'a' => ["bc" == x, z != _], } }, [|fresh_name_9| { fresh_name_9 == [1], [3, 1, 1] != [3, 1 | fresh_name_9] }, [matche y { false | [[], [t, z], z | z] => { [true, 2] == x, x == y }, }, append(x, y, [3, 3])], 1 == y], closure { [2 | x] == y }])
}
pub fn case_512(vars: &Vars) -> InferredGoal<DU, DE, Goal<DU, DE>> {
    let q = vars.v[0].clone();
    let x = vars.v[1].clone();
    proto_vulcan!([conde { [match [q, q] { _ | [_, _] => [x == [_], false], [] => { [[[2]] != q, true] }, [[2, 2], 3, [y]] => , }, x == [['b'], _]], [[q, q | 'b'] == q, x == [x | x]] }, matche q { 2 => { [|x| { |tz| { tz == [1], [1 | tz] != [1, 1] } }, match x { 'b' => , }] }, [t, [x, []]] => matche q { 1 => |x, h| { x == h, t == x }, 'b' => , }, [1, [[], _, z] | true] => , }, member(x, [1, 2]), closure { [q == [q], |tz| { tz == [3, 1], [3, 3, 1] != [3 | tz] }] }])
}
pub fn case_513(vars: &Vars) -> InferredGoal<DU, DE, Goal<DU, DE>> {
    let q = vars.v[0].clone();
    let x = vars.v[1].clone();
    proto_vulcan!([conde { [match [q, q] { _ | [_, _] => [x == [_], false], [] => { [[[2]] != q, true] }, [[2, 2], 3, [y]] => , }, x == [['b'], _]], [[q, q | 'b'] == q, x == [x | x]] }, matche q { 2 => { [|x| { |tz| { tz == [1], [1 | tz] != [1, 1] } }, match x { 'b' => , }] }, [t, [fresh_name_9, []]] => matche q { 1 => |x, h| { x == h, t == x }, 'b' => , }, [1, [[], _, z] | true] => , }, member(x, [1, 2]), closure { [q == [q], |tz| { tz == [3, 1], [3, 3, 1] != [3 | tz] }] }])
}
pub fn case_514(vars: &Vars) -> InferredGoal<DU, DE, Goal<DU, DE>> {
    let x = vars.v[0].clone();
    proto_vulcan!([|tz| { tz == [3, 3], [3 | tz] != [3, 3, 3] }, [[], 1] != x])
}
pub fn case_515(vars: &Vars) -> InferredGoal<DU, DE, Goal<DU, DE>> {
    let x = vars.v[0].clone();
    proto_vulcan!([|fresh_name_9| { fresh_name_9 == [3, 3], [3 | fresh_name_9] != [3, 3, 3] }, [[], 1] != x])
}
pub fn case_516(vars: &Vars) -> InferredGoal<DU, DE, Goal<DU, DE>> {
    let x = vars.v[0].clone();
    proto_vulcan!([x == [[x, x, []], x, x | x], x == [x, _], x == [x], closure { [[1 == [x, 3], ["bc" == x, x != x], |h, t| { append(x, h, [2, 2]), [h, 3] != h, h != [h, 'b'] }], 1 == x] }])
}
pub fn case_517(vars: &Vars) -> InferredGoal<DU, DE, Goal<DU, DE>> {
    let x = vars.v[0].clone();
    proto_vulcan!([x == [[x, x, []], x, x | x], x == [x, _], x == [x], closure { [[1 == [x, 3], ["bc" == x, x != x], |fresh_name_9, t| { append(x, fresh_name_9, [2, 2]), [fresh_name_9, 3] != fresh_name_9, fresh_name_9 != [fresh_name_9, 'b'] }], 1 == x] }])
}
pub fn case_518(vars: &Vars) -> InferredGoal<DU, DE, Goal<DU, DE>> {
    let x = vars.v[0].clone();
    let y = vars.v[1].clone();
    proto_vulcan!([match [[], "bc" | x] { y => , [[_, [], 2], [x | false]] | 1 => { [1, 'b', "a"] == y, |t| { |z, x| { [y, 3, y] != x, member(y, []), [y, y] == y }, t == 'a' } }, [t | _] => { matche t { [[3, 1], 1, [x, 1] | h] => [conde { [[y, h | x] == [1], "a" == 1], 2 == t }, x == [3, t]], [] => , }, false }, }, x == [2, "bc"], |z, t| { x == t, [x, 3, [2, 2, 'b' | z]] == 1 }])
}
pub fn case_519(vars: &Vars) -> InferredGoal<DU, DE, Goal<DU, DE>> {
    let x = vars.v[0].clone();
    let y = vars.v[1].clone();
    proto_vulcan!([match [[], "bc" | x] { fresh_name_9 => , [[_, [], 2], [x | false]] | 1 => { [1, 'b', "a"] == y, |t| { |z, x| { [y, 3, y] != x, member(y, []), [y, y] == y }, t == 'a' } }, [t | _] => { matche t { [[3, 1], 1, [x, 1] | h] => [conde { [[y, h | x] == [1], "a" == 1], 2 == t }, x == [3, t]], [] => , }, false }, }, x == [2, "bc"], |z, t| { x == t, [x, 3, [2, 2, 'b' | z]] == 1 }])
}
pub fn case_520(vars: &Vars) -> InferredGoal<DU, DE, Goal<DU, DE>> {
    let q = vars.v[0].clone();
    let x = vars.v[1].clone();
    proto_vulcan!([[[2, _, 3 | x], 'b', [3, x]] == 3, [[|t| { [[x], [t, _, t], q | x] == 1, q == x, t == 'b' }, x == q], |tz| { tz == [1, 2], [3, 1, 2] != [3 | tz] }, matche [_, _, q] { [[x, z], 3] => [conde { |tz| { [1, 2] != [1 | tz], tz == [2] }, [x == z, member(z, [2])], false }, z == [3, q, 2]], }]])
}
pub fn case_521(vars: &Vars) -> InferredGoal<DU, DE, Goal<DU, DE>> {
    let q = vars.v[0].clone();
    let x = vars.v[1].clone();
    proto_vulcan!([[[2, _, 3 | x], 'b', [3, x]] == 3, [[|t| { [[x], [t, _, t], q | x] == 1, q == x, t == 'b' }, x == q], |tz| { tz == [1, 2], [3, 1, 2] != [3 | tz] }, matche [_, _, q] { [[x, fresh_name_9], 3] => [conde { |tz| { [1, 2] != [1 | tz], tz == [2] }, [x == fresh_name_9, member(fresh_name_9, [2])], false }, fresh_name_9 == [3, q, 2]], }]])
}
pub fn case_522(vars: &Vars) -> InferredGoal<DU, DE, Goal<DU, DE>> {
    let q = vars.v[0].clone();
    let x = vars.v[1].clone();
    proto_vulcan!([[[q | 2], true | x] == [x, 2, 2], member(x, [1, 3]), conde { q != _, [true, q != []], [conde { [[false], false], match q { [[2]] => , h => , [[], [1]] => { q != _, false }, }, false }, conde { match [q, q, 2] { [] => , [2 | _] => 1 == x, }, [|z| { [_, 3, q] == x }, [[_, []] == [[2, 2, _], [false, 2, 3 | _], 2], |tz| { [1 | tz] != [1, 1], tz == [1] }, q == [[] | x]]], [match x { [[h, 1], 3] => { |tz| { tz == [2], [1, 2] != [1 | tz] } }, }, q == x] }] }])
}
pub fn case_523(vars: &Vars) -> InferredGoal<DU, DE, Goal<DU, DE>> {
    let q = vars.v[0].clone();
    let x = vars.v[1].clone();
    proto_vulcan!([[[q | 2], true | x] == [x, 2, 2], member(x, [1, 3]), conde { q != _, [true, q != []], [conde { [[false], false], match q { [[2]] => , h => , [[], [1]] => { q != _, false }, }, false }, conde { match [q, q, 2] { [] => , [2 | _] => 1 == x, }, [|fresh_name_9| { [_, 3, q] == x }, [[_, []] == [[2, 2, _], [false, 2, 3 | _], 2], |tz| { [1 | tz] != [1, 1], tz == [1] }, q == [[] | x]]], [match x { [[h, 1], 3] => { |tz| { tz == [2], [1, 2] != [1 | tz] } }, }, q == x] }] }])
}
pub fn case_524(vars: &Vars) -> InferredGoal<DU, DE, Goal<DU, DE>> {
    let q = vars.v[0].clone();
    let x = vars.v[1].clone();
    proto_vulcan!([conde { |z| { [q != _, false, member(q, [3, 1])] }, [x != [x], matche x { [[h, _, 1], [t, z, _], x] => { false, |tz| { tz == [1, 1], [2, 1, 1, 1] != [2, 1 | tz] } }, }], append(x, x, [1]) }, match x { [[[], [] | y], [t] | _] => { [x, q, 2 | q] == t, match t { z | h => [x == x, matche x { [_] | [[y, x | 3], [1, 3, 2], [2]] => , x => , [[x, 1 | _], [2, _], [x, y, y]] => , }], [[[]] | t] => { |z, x| { x == ['a', _ | x], 3 == q } }, } }, }])
}
pub fn case_525(vars: &Vars) -> InferredGoal<DU, DE, Goal<DU, DE>> {
    let q = vars.v[0].clone();
    let x = vars.v[1].clone();
    proto_vulcan!([conde { |z| { [q != _, false, member(q, [3, 1])] }, [x != [x], matche x { [[h, _, 1], [t, z, _], x] => { false, |tz| { tz == [1, 1], [2, 1, 1, 1] != [2, 1 | tz] } }, }], append(x, x, [1]) }, match x { [[[], [] | y], [t] | _] => { [x, q, 2 | q] == t, match t { z | h => [x == x, matche x { [_] | [[y, x | 3], [1, 3, 2], [2]] => , x => , [[x, 1 | _], [2, _], [x, y, y]] => , }], [[[]] | fresh_name_9] => { |z, x| { x == ['a', _ | x], 3 == q } }, } }, }])
}
pub fn case_526(vars: &Vars) -> InferredGoal<DU, DE, Goal<DU, DE>> {
    let q = vars.v[0].clone();
    let x = vars.v[1].clone();
    proto_vulcan!([|tz| { tz == [2, 2], [2, 3, 2, 2] != [2, 3 | tz] }, [|x| { matche x { 1 => , x => { x != 3, 3 == x }, [2, [t, x | _]] => , }, x == q }, [[[], x, x], [] | x] == q, [x | 2] == x]])
}
pub fn case_527(vars: &Vars) -> InferredGoal<DU, DE, Goal<DU, DE>> {
    let q = vars.v[0].clone();
    let x = vars.v[1].clone();
    proto_vulcan!([|fresh_name_9| { fresh_name_9 == [2, 2], [2, 3, 2, 2] != [2, 3 | fresh_name_9] }, [|x| { matche x { 1 => , x => { x != 3, 3 == x }, [2, [t, x | _]] => , }, x == q }, [[[], x, x], [] | x] == q, [x | 2] == x]])
}
pub fn case_528(vars: &Vars) -> InferredGoal<DU, DE, Goal<DU, DE>> {
    let x = vars.v[0].clone();
    let y = vars.v[1].clone();
    proto_vulcan!([|z| { [2, y, "bc"] == z, [] != x }])
}
pub fn case_529(vars: &Vars) -> InferredGoal<DU, DE, Goal<DU, DE>> {
    let x = vars.v[0].clone();
    let y = vars.v[1].clone();
    proto_vulcan!([|fresh_name_9| { [2, y, "bc"] == fresh_name_9, [] != x }])
}
pub fn case_530(vars: &Vars) -> InferredGoal<DU, DE, Goal<DU, DE>> {
    let x = vars.v[0].clone();
    proto_vulcan!([conde { [[x == x, [false], match x { h => member(h, [1]), }], [1, 2, 'a'] == x], match x { [[2, 2, h], y, [x | h] | h] => { matche y { [[t], 'b', z | true] => , h | [] => { [2] == x, y == x }, [1] | [[_], x] => { [h, h] != y }, } }, }, [[false, 1] != [x, [x, x | x], [x, 1, 3] | 2]] }, closure { ["a"] != x }])
}
pub fn case_531(vars: &Vars) -> InferredGoal<DU, DE, Goal<DU, DE>> {
    let x = vars.v[0].clone();
    proto_vulcan!([conde { [[x == x, [false], match x { h => member(h, [1]), }], [1, 2, 'a'] == x], match x { [[2, 2, h], y, [fresh_name_9 | h] | h] => { matche y { [[t], 'b', z | true] => , h | [] => { [2] == fresh_name_9, y == fresh_name_9 }, [1] | [[_], x] => { [h, h] != y }, } }, }, [[false, 1] != [x, [x, x | x], [x, 1, 3] | 2]] }, closure { ["a"] != x }])
}
pub fn case_532(vars: &Vars) -> InferredGoal<DU, DE, Goal<DU, DE>> {
    let q = vars.v[0].clone();
    let x = vars.v[1].clone();
    proto_vulcan!([|x| { [x] == [[1, 3, q], ['a', x], q] }, conde { [|t| { append(x, t, [3, 3]) }, [[x, 2, 2 | q] == x]], true }, closure { [conde { 1 == x, |h| { append(x, q, [2]) } }, [[], [1]] == x] }])
}
pub fn case_533(vars: &Vars) -> InferredGoal<DU, DE, Goal<DU, DE>> {
    let q = vars.v[0].clone();
    let x = vars.v[1].clone();
    proto_vulcan!([|x| { [x] == [[1, 3, q], ['a', x], q] }, conde { [|t| { append(x, t, [3, 3]) }, [[x, 2, 2 | q] == x]], true }, closure { [conde { 1 == x, |fresh_name_9| { append(x, q, [2]) } }, [[], [1]] == x] }])
}
pub fn case_534(vars: &Vars) -> InferredGoal<DU, DE, Goal<DU, DE>> {
    let x = vars.v[0].clone();
    proto_vulcan!([[x, [], _] == x, |t, h| { conde { [[] != t, [1 | h] == x], [false, h == 2] }, t == x, |tz| { [3, 3, 1] != [3 | tz], tz == [3, 1] } }, ['b'] != x])
}
pub fn case_535(vars: &Vars) -> InferredGoal<DU, DE, Goal<DU, DE>> {
    let x = vars.v[0].clone();
    proto_vulcan!([[x, [], _] == x, |t, h| { conde { [[] != t, [1 | h] == x], [false, h == 2] }, t == x, |fresh_name_9| { [3, 3, 1] != [3 | fresh_name_9], fresh_name_9 == [3, 1] } }, ['b'] != x])
}
pub fn case_536(vars: &Vars) -> InferredGoal<DU, DE, Goal<DU, DE>> {
    let x = vars.v[0].clone();
    let y = vars.v[1].clone();
    proto_vulcan!([y != [_, _], conde { [y == [[y], [1] | y], append(x, y, [1, 1])], [match x { [[y, []]] => { [[x, true | x] == x, 2 == x] }, }, match x { [t, true] => , 1 => , }] }])
}
pub fn case_537(vars: &Vars) -> InferredGoal<DU, DE, Goal<DU, DE>> {
    let x = vars.v[0].clone();
    let y = vars.v[1].clone();
    proto_vulcan!([y != [_, _], conde { [y == [[y], [1] | y], append(x, y, [1, 1])], [match x { [[y, []]] => { [[x, true | x] == x, 2 == x] }, }, match x { [fresh_name_9, true] => , 1 => , }] }])
}
pub fn case_538(vars: &Vars) -> InferredGoal<DU, DE, Goal<DU, DE>> {
    let x = vars.v[0].clone();
    proto_vulcan!([[1] != [[1, x], [_, 1] | x], match x { [[x, [], y | _], ["bc"], 2 | _] => , _ => , h => { x != h }, }, closure { [matche x { [_] | z => , [] => , [] => , }, conde { [[[], x] == [[x, x, 3], [x, x, 2]], append(x, x, [2, 3])], [matche [x, x, 'b' | x] { [[2, t, _]] => true, 2 => false, }, member(x, [1, 2, 2])], |y| { [y] != x, y == [2, []] } }] }])
}
pub fn case_539(vars: &Vars) -> InferredGoal<DU, DE, Goal<DU, DE>> {
    let x = vars.v[0].clone();
    proto_vulcan!([[1] != [[1, x], [_, 1] | x], match x { [[x, [], y | _], ["bc"], 2 | _] => , _ => , h => { x != h }, }, closure { [matche x { [_] | z => , [] => , [] => , }, conde { [[[], x] == [[x, x, 3], [x, x, 2]], append(x, x, [2, 3])], [matche [x, x, 'b' | x] { [[2, t, _]] => true, 2 => false, }, member(x, [1, 2, 2])], |fresh_name_9| { [fresh_name_9] != x, fresh_name_9 == [2, []] } }] }])
}
pub fn case_540(vars: &Vars) -> InferredGoal<DU, DE, Goal<DU, DE>> {
    let q = vars.v[0].clone();
    let x = vars.v[1].clone();
    proto_vulcan!([conde { [|y, z| { [x] != x, z == 1, [1] != z }, |y| { 3 == [_ | x] }], q == _, q != 1 }])
}
pub fn case_541(vars: &Vars) -> InferredGoal<DU, DE, Goal<DU, DE>> {
    let q = vars.v[0].clone();
    let x = vars.v[1].clone();
    proto_vulcan!([conde { [|fresh_name_9, z| { [x] != x, z == 1, [1] != z }, |y| { 3 == [_ | x] }], q == _, q != 1 }])
}
pub fn case_542(vars: &Vars) -> InferredGoal<DU, DE, Goal<DU, DE>> {
    let x = vars.v[0].clone();
    let y = vars.v[1].clone();
    proto_vulcan!([false, matche y { [[1, h, _], [1, t, z | _]] | x => { match y { 'b' => , [2, [t, 1], [2, h, 2] | _] => { [h | t] == h, match [[], 'b'] { [_, [y, [] | t]] => [[y] == 2, h == [3, [], y]], [[1, z, _]] => { t != 'b', [z, 3, 2] != h }, "bc" => , } }, }, y != [2 | y] }, y => [[x == [_, 3, y], x != _, [x | 3] == x], |x, y| { [_, _, []] != y }], [['b', z, 1], [3]] => { match z { 1 => { conde { |tz| { [3, 1, 1, 3] != [3, 1 | tz], tz == [1, 3] }, y != [3, _] } }, }, |y| { match y { "bc" => { append(x, x, [2, 2]), member(x, [3, 3]) }, [[t, t, 2], _] | [[y, true, 2], z] => { true }, }, [z == []] } }, }, closure { [x != [x], y == [x]] }])
}
pub fn case_543(vars: &Vars) -> InferredGoal<DU, DE, Goal<DU, DE>> {
    let x = vars.v[0].clone();
    let y = vars.v[1].clone();
    proto_vulcan!([false, matche y { [[1, h, _], [1, t, z | _]] | x => { match y { 'b' => , [2, [t, 1], [2, h, 2] | _] => { [h | t] == h, match [[], 'b'] { [_, [y, [] | t]] => [[y] == 2, h == [3, [], y]], [[1, z, _]] => { t != 'b', [z, 3, 2] != h }, "bc" => , } }, }, y != [2 | y] }, y => [[x == [_, 3, y], x != _, [x | 3] == x], |x, fresh_name_9| { [_, _, []] != fresh_name_9 }], [['b', z, 1], [3]] => { match z { 1 => { conde { |tz| { [3, 1, 1, 3] != [3, 1 | tz], tz == [1, 3] }, y != [3, _] } }, }, |y| { match y { "bc" => { append(x, x, [2, 2]), member(x, [3, 3]) }, [[t, t, 2], _] | [[y, true, 2], z] => { true }, }, [z == []] } }, }, closure { [x != [x], y == [x]] }])
}
pub fn case_544(vars: &Vars) -> InferredGoal<DU, DE, Goal<DU, DE>> {
    let q = vars.v[0].clone();
    let x = vars.v[1].clone();
    proto_vulcan!([|y| { |h, y| { [['b']] == [[], [y, 1], [x, 1 | x] | 1], [[]] == x }, conde { [x != q, conde { [true, [_] == y], _ == x, member(q, [2, 1]) }], q == x, [|t, x| { [[x, q, _], [x, t | t]] == x, t == [1, [], t] }, q == [1, x | q]] } }, [x] != x, match q { x => , h => , [[2, y]] => , }])
}
pub fn case_545(vars: &Vars) -> InferredGoal<DU, DE, Goal<DU, DE>> {
    let q = vars.v[0].clone();
    let x = vars.v[1].clone();
    proto_vulcan!([|y| { |h, y| { [['b']] == [[], [y, 1], [x, 1 | x] | 1], [[]] == x }, conde { [x != q, conde { [true, [_] == y], _ == x, member(q, [2, 1]) }], q == x, [|t, x| { [[x, q, _], [x, t | t]] == x, t == [1, [], t] }, q == [1, x | q]] } }, [x] != x, match q { x => , fresh_name_9 => , [[2, y]] => , }])
}
pub fn case_546(vars: &Vars) -> InferredGoal<DU, DE, Goal<DU, DE>> {
    let x = vars.v[0].clone();
    proto_vulcan!([|y| { [[y, _ | 'b'] | 3] != [2, [] | y], [|t| { true }], [conde { [false, append(x, y, [])], x == 'b' }] }, match x { [[t, 2], [t, t]] => [3 == t, false], [[_], [1, 1, 'b']] => |h, x| { x != h }, }, |h| { [1, _, x] == h }, closure { [[true], [[x, 2, x | x], [_, x | x]] == x] }])
}
pub fn case_547(vars: &Vars) -> InferredGoal<DU, DE, Goal<DU, DE>> {
    let x = vars.v[0].clone();
    proto_vulcan!([|y| { [[y, _ | 'b'] | 3] != [2, [] | y], [|t| { true }], [conde { [false, append(x, y, [])], x == 'b' }] }, match x { [[t, 2], [t, t]] => [3 == t, false], [[_], [1, 1, 'b']] => |h, fresh_name_9| { fresh_name_9 != h }, }, |h| { [1, _, x] == h }, closure { [[true], [[x, 2, x | x], [_, x | x]] == x] }])
}
pub fn case_548(vars: &Vars) -> InferredGoal<DU, DE, Goal<DU, DE>> {
    let q = vars.v[0].clone();
    let x = vars.v[1].clone();
    proto_vulcan!([q != 1, |x| { |h| { x == 3 }, x == [q, 1] }, x == 1, closure { [[2 == q, member(x, []), [x] == q]] }])
}
pub fn case_549(vars: &Vars) -> InferredGoal<DU, DE, Goal<DU, DE>> {
    let q = vars.v[0].clone();
    let x = vars.v[1].clone();
    proto_vulcan!([q != 1, |fresh_name_9| { |h| { fresh_name_9 == 3 }, fresh_name_9 == [q, 1] }, x == 1, closure { [[2 == q, member(x, []), [x] == q]] }])
}
pub fn case_550(vars: &Vars) -> InferredGoal<DU, DE, Goal<DU, DE>> {
    let x = vars.v[0].clone();
    proto_vulcan!([x == x, closure { [[2] == x, |t| { [] != t }] }])
}
pub fn case_551(vars: &Vars) -> InferredGoal<DU, DE, Goal<DU, DE>> {
    let x = vars.v[0].clone();
    proto_vulcan!([x == x, closure { [[2] == x, |fresh_name_9| { [] != fresh_name_9 }] }])
}
pub fn case_552(vars: &Vars) -> InferredGoal<DU, DE, Goal<DU, DE>> {
    let x = vars.v[0].clone();
    let y = vars.v[1].clone();
    proto_vulcan!([match y { [["bc", 1, 2]] | [[z, _, 1 | y]] => , }, matche y { _ => { [[true | y] == y] }, [y, [2], y] => { [3] == y, |t| { x == [t, false, 1], match y { y => , [[[], 1, _]] => { t == [['b', 2 | 1]] }, }, 2 != y } }, }])
}
pub fn case_553(vars: &Vars) -> InferredGoal<DU, DE, Goal<DU, DE>> {
    let x = vars.v[0].clone();
    let y = vars.v[1].clone();
    proto_vulcan!([match y { [["bc", 1, 2]] | [[z, _, 1 | y]] => , }, matche y { _ => { [[true | y] == y] }, [fresh_name_9, [2], fresh_name_9] => { [3] == fresh_name_9, |t| { x == [t, false, 1], match fresh_name_9 { y => , [[[], 1, _]] => { t == [['b', 2 | 1]] }, }, 2 != fresh_name_9 } }, }])
}
pub fn case_554(vars: &Vars) -> InferredGoal<DU, DE, Goal<DU, DE>> {
    let q = vars.v[0].clone();
    let x = vars.v[1].clone();
    proto_vulcan!([|z| { [match x { [[t], [2, _, _], [2, t, h] | 2] => , [_, _, [2, 1, "a" | h] | _] => , }], true }, conde { [q == [[q, q], [3 | q], [[], q, x | "a"]], match q { [h, _] => { |t, y| { [h, y, 1] != t, t == h } }, }], true, [1 == 2, x == 2] }, x == [false, q, x], closure { |y| { matche y { _ => |tz| { [2, 2, 3, 2] != [2, 2 | tz], tz == [3, 2] }, [[x, t]] => , [t, [2 | x]] => { |tz| { [3, 1, 3] != [3 | tz], tz == [1, 3] }, 2 == q }, }, [[[2, q], [q, 3, y | y]] != q, |tz| { tz == [3], [3, 3 | tz] != [3, 3, 3] }], x == x } }])
}
pub fn case_555(vars: &Vars) -> InferredGoal<DU, DE, Goal<DU, DE>> {
    let q = vars.v[0].clone();
    let x = vars.v[1].clone();
    proto_vulcan!([|fresh_name_9| { [match x { [[t], [2, _, _], [2, t, h] | 2] => , [_, _, [2, 1, "a" | h] | _] => , }], true }, conde { [q == [[q, q], [3 | q], [[], q, x | "a"]], match q { [h, _] => { |t, y| { [h, y, 1] != t, t == h } }, }], true, [1 == 2, x == 2] }, x == [false, q, x], closure { |y| { matche y { _ => |tz| { [2, 2, 3, 2] != [2, 2 | tz], tz == [3, 2] }, [[x, t]] => , [t, [2 | x]] => { |tz| { [3, 1, 3] != [3 | tz], tz == [1, 3] }, 2 == q }, }, [[[2, q], [q, 3, y | y]] != q, |tz| { tz == [3], [3, 3 | tz] != [3, 3, 3] }], x == x } }])
}
pub fn case_556(vars: &Vars) -> InferredGoal<DU, DE, Goal<DU, DE>> {
    let x = vars.v[0].clone();
    let y = vars.v[1].clone();
    proto_vulcan!([[1, 1] != x, matche x { [[z, false, 1 | t], [y, h, 1]] => { |t, y| { |x, h| { [["bc", 2, []], [3], [1, y]] == t, h == [2, h, 2], _ == [x | y] }, append(x, x, [1]) } }, }])
}
pub fn case_557(vars: &Vars) -> InferredGoal<DU, DE, Goal<DU, DE>> {
    let x = vars.v[0].clone();
    let y = vars.v[1].clone();
    proto_vulcan!([[1, 1] != x, matche x { [[z, false, 1 | t], [y, h, 1]] => { |t, fresh_name_9| { |x, h| { [["bc", 2, []], [3], [1, fresh_name_9]] == t, h == [2, h, 2], _ == [x | fresh_name_9] }, append(x, x, [1]) } }, }])
}
pub fn case_558(vars: &Vars) -> InferredGoal<DU, DE, Goal<DU, DE>> {
    let x = vars.v[0].clone();
    proto_vulcan!([matche x { [t] | [] => { 3 == [[], x], true }, [[z], [t, h]] => { t != x }, }, [match x { y | [1] => , true | true => { x == ['b', x, x | x] }, }, [[]] != x], match x { [[1, z | h], [_ | t], y | _] => , }])
}
pub fn case_559(vars: &Vars) -> InferredGoal<DU, DE, Goal<DU, DE>> {
    let x = vars.v[0].clone();
    proto_vulcan!([matche x { [t] | [] => { 3 == [[], x], true }, [[z], [t, h]] => { t != x }, }, [match x { y | [1] => , true | true => { x == ['b', x, x | x] }, }, [[]] != x], match x { [[1, z | h], [_ | fresh_name_9], y | _] => , }])
}
pub fn case_560(vars: &Vars) -> InferredGoal<DU, DE, Goal<DU, DE>> {
    let x = vars.v[0].clone();
    proto_vulcan!([|h| { [false, 2, 3] != [x, false, [h, 2, []] | x], [h, 2 | x] == h }, [conde { [[2, [true, x, x]] != [x, x, 3 | 3], [_, x, true | x] != x], x == [[], x, 3] }], x == ['b']])
}
pub fn case_561(vars: &Vars) -> InferredGoal<DU, DE, Goal<DU, DE>> {
    let x = vars.v[0].clone();
    proto_vulcan!([|fresh_name_9| { [false, 2, 3] != [x, false, [fresh_name_9, 2, []] | x], [fresh_name_9, 2 | x] == fresh_name_9 }, [conde { [[2, [true, x, x]] != [x, x, 3 | 3], [_, x, true | x] != x], x == [[], x, 3] }], x == ['b']])
}
pub fn case_562(vars: &Vars) -> InferredGoal<DU, DE, Goal<DU, DE>> {
    let x = vars.v[0].clone();
    proto_vulcan!([conde { [[x, 1] == [x, [[], _, x]], x == [x, 1]], |tz| { [1, 3, 1] != [1, 3 | tz], tz == [1] }, [|x| { 'a' != x, x == [[x | x]] }, true] }, match ['b', x, true] { [y] => [match y { "a" => , [h, [h | 2] | y] => { 1 == [x] }, }, |t| { matche ["bc", t, t] { [[y, 2], 1 | h] => , [1, 1] => { x == t }, 2 | [[], z] => , }, [t == [[3, [], 2], [x, t | y]], [x, t, y | x] != y], member(t, []) }], [[3, t, _], [h, 3 | _]] | 1 => [3 != x, |tz| { tz == [3], [1, 3] != [1 | tz] }], y => , }, closure { x != 2 }])
}
pub fn case_563(vars: &Vars) -> InferredGoal<DU, DE, Goal<DU, DE>> {
    let x = vars.v[0].clone();
    proto_vulcan!([conde { [[x, 1] == [x, [[], _, x]], x == [x, 1]], |tz| { [1, 3, 1] != [1, 3 | tz], tz == [1] }, [|x| { 'a' != x, x == [[x | x]] }, true] }, match ['b', x, true] { [y] => [match y { "a" => , [h, [h | 2] | y] => { 1 == [x] }, }, |t| { matche ["bc", t, t] { [[y, 2], 1 | fresh_name_9] => , [1, 1] => { x == t }, 2 | [[], z] => , }, [t == [[3, [], 2], [x, t | y]], [x, t, y | x] != y], member(t, []) }], [[3, t, _], [h, 3 | _]] | 1 => [3 != x, |tz| { tz == [3], [1, 3] != [1 | tz] }], y => , }, closure { x != 2 }])
}
pub fn case_564(vars: &Vars) -> InferredGoal<DU, DE, Goal<DU, DE>> {
    let q = vars.v[0].clone();
    let x = vars.v[1].clone();
    proto_vulcan!([match x { [[3, _ | y], x | z] => [conde { q == [y | y], [[x, false] == q, [x != [y, x, z | y], |tz| { tz == [1], [1 | tz] != [1, 1] }, [3] != x]], |z| { append(x, x, []), false } }, [q, [], x] == q], [[t], true | h] => [[] == x, _ == q], [[y | y], 3] => [[match x { [[[], t], 1 | t] => , }, conde { x != x, [|tz| { tz == [1, 3], [1 | tz] != [1, 1, 3] }, x != x] }], y != 'a'], }, matche [_] { [[t, t | _]] => [x == 3, [[x, 1, 2 | 2] == t]], [t, 1, 2] | [[3], [_ | z] | 1] => , }, q == [[q], _, q | q]])
}
pub fn case_565(vars: &Vars) -> InferredGoal<DU, DE, Goal<DU, DE>> {
    let q = vars.v[0].clone();
    let x = vars.v[1].clone();
    proto_vulcan!([match x { [[3, _ | y], fresh_name_9 | z] => [conde { q == [y | y], [[fresh_name_9, false] == q, [fresh_name_9 != [y, fresh_name_9, z | y], |tz| { tz == [1], [1 | tz] != [1, 1] }, [3] != fresh_name_9]], |z| { append(fresh_name_9, fresh_name_9, []), false } }, [q, [], fresh_name_9] == q], [[t], true | h] => [[] == x, _ == q], [[y | y], 3] => [[match x { [[[], t], 1 | t] => , }, conde { x != x, [|tz| { tz == [1, 3], [1 | tz] != [1, 1, 3] }, x != x] }], y != 'a'], }, matche [_] { [[t, t | _]] => [x == 3, [[x, 1, 2 | 2] == t]], [t, 1, 2] | [[3], [_ | z] | 1] => , }, q == [[q], _, q | q]])
}
pub fn case_566(vars: &Vars) -> InferredGoal<DU, DE, Goal<DU, DE>> {
    let x = vars.v[0].clone();
    let y = vars.v[1].clone();
    proto_vulcan!([match y { [[1]] | h => { conde { false, |t| { x == _, t == [1, _ | x] }, [[[[_ | 2], [[]], [[], _]] != [1, 3, y], [3] == y, [1, x] != x], false] }, 1 != y }, "bc" => , }])
}
pub fn case_567(vars: &Vars) -> InferredGoal<DU, DE, Goal<DU, DE>> {
    let x = vars.v[0].clone();
    let y = vars.v[1].clone();
    proto_vulcan!([match y { [[1]] | h => { conde { false, |fresh_name_9| { x == _, fresh_name_9 == [1, _ | x] }, [[[[_ | 2], [[]], [[], _]] != [1, 3, y], [3] == y, [1, x] != x], false] }, 1 != y }, "bc" => , }])
}
pub fn case_568(vars: &Vars) -> InferredGoal<DU, DE, Goal<DU, DE>> {
    let x = vars.v[0].clone();
    let y = vars.v[1].clone();
    proto_vulcan!([x != [y, y], closure { [y == [y, x, _], match y { z | [[h | h], [y, [], t | _], 2 | _] => matche x { _ => x == [x, x, x | x], [t, [3, []], ['a']] => { [1, [t, 3, _] | t] == t }, [[2, x], 2] | [t | x] => , }, 1 | h => , [['a' | _], t, [x, 'a', t]] => [y != [1, 2, 'a'], |z| { x != [3 | x] }], }] }])
}
pub fn case_569(vars: &Vars) -> InferredGoal<DU, DE, Goal<DU, DE>> {
    let x = vars.v[0].clone();
    let y = vars.v[1].clone();
    proto_vulcan!([x != [y, y], closure { [y == [y, x, _], match y { z | [[h | h], [y, [], t | _], 2 | _] => matche x { _ => x == [x, x, x | x], [t, [3, []], ['a']] => { [1, [t, 3, _] | t] == t }, [[2, x], 2] | [t | x] => , }, 1 | h => , [['a' | _], t, [x, 'a', t]] => [y != [1, 2, 'a'], |fresh_name_9| { x != [3 | x] }], }] }])
}
pub fn case_570(vars: &Vars) -> InferredGoal<DU, DE, Goal<DU, DE>> {
    let x = vars.v[0].clone();
    let y = vars.v[1].clone();
    proto_vulcan!([conde { x == x, |h| { h == [[y, y, h | h], [x, _, "a"], _], [h == 'b', member(h, [1, 3]), [_, "bc", [] | x] == y], |z| { true, |tz| { [1, 2 | tz] != [1, 2, 1, 3], tz == [1, 3] }, x != [1] } }, [conde { [y == 'a', matche y { [h] => { x == [h, 2 | y], [y] == x }, h => , }], [_ == x, append(x, x, [])] }, 2 == [x, x, false]] }, [y] != x, conde { match y { [z, [2], 1] => { [y == x, [[]] == 3, append(y, x, [2, 1])], conde { [y == y, [2, y, z] == z], y == _ } }, ['b', h, z] => { [2] == [[_, 1], [y, 3]] }, }, [[y, x] == y, |tz| { [1, 1, 2] != [1, 1 | tz], tz == [2] }] }])
}
pub fn case_571(vars: &Vars) -> InferredGoal<DU, DE, Goal<DU, DE>> {
    let x = vars.v[0].clone();
    let y = vars.v[1].clone();
    proto_vulcan!([conde { x == x, |h| { h == [[y, y, h | h], [x, _, "a"], _], [h == 'b', member(h, [1, 3]), [_, "bc", [] | x] == y], |z| { true, |tz| { [1, 2 | tz] != [1, 2, 1, 3], tz == [1, 3] }, x != [1] } }, [conde { [y == 'a', matche y { [h] => { x == [h, 2 | y], [y] == x }, h => , }], [_ == x, append(x, x, [])] }, 2 == [x, x, false]] }, [y] != x, conde { match y { [z, [2], 1] => { [y == x, [[]] == 3, append(y, x, [2, 1])], conde { [y == y, [2, y, z] == z], y == _ } }, ['b', h, z] => { [2] == [[_, 1], [y, 3]] }, }, [[y, x] == y, |fresh_name_9| { [1, 1, 2] != [1, 1 | fresh_name_9], fresh_name_9 == [2] }] }])
}
pub fn case_572(vars: &Vars) -> InferredGoal<DU, DE, Goal<DU, DE>> {
    let x = vars.v[0].clone();
    let y = vars.v[1].clone();
    proto_vulcan!([[conde { match x { _ => [[y | y], [y], [2, 1, y]] == [x, _, "a" | y], }, [y == y, y != x], [match 2 { [] => , }, |h, x| { 3 == [] }] }, |t| { [[[y, y, x], [t, t], [t]] != [y, [2, 1, t], [[]]], [t] == [[[]], [1] | t]], 'a' != 1, |tz| { [2, 1, 3] != [2, 1 | tz], tz == [3] } }, [false, conde { [y != y, [3, 3, 2] == x], [[y, 1] == x, y == [1, y]], y == x }, match [[] | x] { [[[], [], _], [2 | 1], 1 | _] => { append(x, y, []) }, }]], y != [x, x], y == 1, closure { append(y, x, []) }])
}
pub fn case_573(vars: &Vars) -> InferredGoal<DU, DE, Goal<DU, DE>> {
    let x = vars.v[0].clone();
    let y = vars.v[1].clone();
    proto_vulcan!([[conde { match x { _ => [[y | y], [y], [2, 1, y]] == [x, _, "a" | y], }, [y == y, y != x], [match 2 { [] => , }, |h, fresh_name_9| { 3 == [] }] }, |t| { [[[y, y, x], [t, t], [t]] != [y, [2, 1, t], [[]]], [t] == [[[]], [1] | t]], 'a' != 1, |tz| { [2, 1, 3] != [2, 1 | tz], tz == [3] } }, [false, conde { [y != y, [3, 3, 2] == x], [[y, 1] == x, y == [1, y]], y == x }, match [[] | x] { [[[], [], _], [2 | 1], 1 | _] => { append(x, y, []) }, }]], y != [x, x], y == 1, closure { append(y, x, []) }])
}
pub fn case_574(vars: &Vars) -> InferredGoal<DU, DE, Goal<DU, DE>> {
    let x = vars.v[0].clone();
    let y = vars.v[1].clone();
    proto_vulcan!([y == x, [_, x | y] == y, |tz| { [2, 2, 3] != [2, 2 | tz], tz == [3] }])
}
pub fn case_575(vars: &Vars) -> InferredGoal<DU, DE, Goal<DU, DE>> {
    let x = vars.v[0].clone();
    let y = vars.v[1].clone();
    proto_vulcan!([y == x, [_, x | y] == y, |fresh_name_9| { [2, 2, 3] != [2, 2 | fresh_name_9], fresh_name_9 == [3] }])
}
pub fn case_576(vars: &Vars) -> InferredGoal<DU, DE, Goal<DU, DE>> {
    let q = vars.v[0].clone();
    let x = vars.v[1].clone();
    proto_vulcan!([["bc"] == q, match q { [[1 | _], [2, 3]] | [[h, 2], x] => { q != 1, conde { q == 1, [|x, z| { ['b', x | q] != z, x == [z, "bc", 'b' | x], true }, member(q, [])] } }, [1, 2] => { |h, y| { conde { [append(x, h, [3]), true], [[[], h, 2] != 1, y == h], q != h }, match q { [] | [[t], [x, y], _] => q == [2, 3, _ | q], true => , } } }, }, [x, x, q | q] == [1], closure { [q == [2, x, []], |x| { x == q }] }])
}
pub fn case_577(vars: &Vars) -> InferredGoal<DU, DE, Goal<DU, DE>> {
    let q = vars.v[0].clone();
    let x = vars.v[1].clone();
    proto_vulcan!([["bc"] == q, match q { [[1 | _], [2, 3]] | [[h, 2], x] => { q != 1, conde { q == 1, [|x, z| { ['b', x | q] != z, x == [z, "bc", 'b' | x], true }, member(q, [])] } }, [1, 2] => { |h, y| { conde { [append(x, h, [3]), true], [[[], h, 2] != 1, y == h], q != h }, match q { [] | [[t], [x, y], _] => q == [2, 3, _ | q], true => , } } }, }, [x, x, q | q] == [1], closure { [q == [2, x, []], |fresh_name_9| { fresh_name_9 == q }] }])
}
pub fn case_578(vars: &Vars) -> InferredGoal<DU, DE, Goal<DU, DE>> {
    let x = vars.v[0].clone();
    let y = vars.v[1].clone();
    proto_vulcan!([conde { [|y| { |y| { member(y, [1, 3, 1]), [y, y, y] == y }, matche y { [2, [], [1] | x] => , } }, |tz| { [2 | tz] != [2, 3], tz == [3] }], [match [] { [_] => [matche y { [] | [3] => y == [x, x, y], }, conde { [x == x, x == [y]], [1 != y, [x, y, 2] == y], |tz| { [1, 1] != [1 | tz], tz == [1] } }], 3 => , [[t], 2, 1 | t] | [[3], 1, 1] => [matche [x, 2, x | 1] { [3, [2, 2, 2], [t, t, t]] => , }, [1, 1] != [1 | x]], }, x == [3 | x]] }, [y, [3, _, x] | y] == y, member(x, [3])])
}
pub fn case_579(vars: &Vars) -> InferredGoal<DU, DE, Goal<DU, DE>> {
    let x = vars.v[0].clone();
    let y = vars.v[1].clone();
    proto_vulcan!([conde { [|y| { |y| { member(y, [1, 3, 1]), [y, y, y] == y }, matche y { [2, [], [1] | x] => , } }, |tz| { [2 | tz] != [2, 3], tz == [3] }], [match [] { [_] => [matche y { [] | [3] => y == [x, x, y], }, conde { [x == x, x == [y]], [1 != y, [x, y, 2] == y], |tz| { [1, 1] != [1 | tz], tz == [1] } }], 3 => , [[t], 2, 1 | t] | [[3], 1, 1] => [matche [x, 2, x | 1] { [3, [2, 2, 2], [fresh_name_9, fresh_name_9, fresh_name_9]] => , }, [1, 1] != [1 | x]], }, x == [3 | x]] }, [y, [3, _, x] | y] == y, member(x, [3])])
}
pub fn case_580(vars: &Vars) -> InferredGoal<DU, DE, Goal<DU, DE>> {
    let q = vars.v[0].clone();
    let x = vars.v[1].clone();
    proto_vulcan!([[|x| { |x| { q == 2 } }, false], closure { [matche q { [[1, x, 2], _, t] => [t == [2, [t, _, false], [x, "bc", t | t]], match x { [[z, 1, y], _, 'a'] => { z == x }, }], [2, 1 | _] => [matche q { [[3, z, 1], [y, y, []], [1, z] | t] => , [3, y, [false, _, h]] => , }, false], }, true] }])
}
pub fn case_581(vars: &Vars) -> InferredGoal<DU, DE, Goal<DU, DE>> {
    let q = vars.v[0].clone();
    let x = vars.v[1].clone();
    proto_vulcan!([[|x| { |x| { q == 2 } }, false], closure { [matche q { [[1, x, 2], _, t] => [t == [2, [t, _, false], [x, "bc", t | t]], match x { [[z, 1, y], _, 'a'] => { z == x }, }], [2, 1 | _] => [matche q { [[3, z, 1], [y, y, []], [1, z] | fresh_name_9] => , [3, y, [false, _, h]] => , }, false], }, true] }])
}
pub fn case_582(vars: &Vars) -> InferredGoal<DU, DE, Goal<DU, DE>> {
    let q = vars.v[0].clone();
    let x = vars.v[1].clone();
    proto_vulcan!([match x { 3 => , }, closure { [|z, y| { 2 == y, [x, q] == y }, [q, [2, false, _], [_, q, x | q]] != [q, [], q | x]] }])
}
pub fn case_583(vars: &Vars) -> InferredGoal<DU, DE, Goal<DU, DE>> {
    let q = vars.v[0].clone();
    let x = vars.v[1].clone();
    proto_vulcan!([match x { 3 => , }, closure { [|fresh_name_9, y| { 2 == y, [x, q] == y }, [q, [2, false, _], [_, q, x | q]] != [q, [], q | x]] }])
}
pub fn case_584(vars: &Vars) -> InferredGoal<DU, DE, Goal<DU, DE>> {
    let x = vars.v[0].clone();
    let y = vars.v[1].clone();
    proto_vulcan!([conde { y == y, x == y, [x != y, matche x { [[t | _], 2, _] => { member(t, [3]), y == [] }, h | _ => [conde { x == [[y], []], [y, y] != x, [x == y, x == 1] }, [1, [], 2] != _], }] }, closure { [y == x, ['a', y] == y] }])
}
pub fn case_585(vars: &Vars) -> InferredGoal<DU, DE, Goal<DU, DE>> {
    let x = vars.v[0].clone();
    let y = vars.v[1].clone();
    proto_vulcan!([conde { y == y, x == y, [x != y, matche x { [[fresh_name_9 | _], 2, _] => { member(fresh_name_9, [3]), y == [] }, h | _ => [conde { x == [[y], []], [y, y] != x, [x == y, x == 1] }, [1, [], 2] != _], }] }, closure { [y == x, ['a', y] == y] }])
}
pub fn case_586(vars: &Vars) -> InferredGoal<DU, DE, Goal<DU, DE>> {
    let x = vars.v[0].clone();
    proto_vulcan!([|t| { matche t { y | 2 => |h| { [] != h }, }, x == [_, t | x], matche t { 3 => { conde { t == t, [x, x, 3] == t }, x == [x, 1] }, 3 => { |z| { true, true }, |h| { h == [[h, h], ['b'] | t] } }, [[[], 1, false], [y | z], [_ | _]] => , } }, x != x, closure { x == x }])
}
pub fn case_587(vars: &Vars) -> InferredGoal<DU, DE, Goal<DU, DE>> {
    let x = vars.v[0].clone();
    proto_vulcan!([|t| { matche t { y | 2 => |h| { [] != h }, }, x == [_, t | x], matche t { 3 => { conde { t == t, [x, x, 3] == t }, x == [x, 1] }, 3 => { |z| { true, true }, |h| { h == [[h, h], ['b'] | t] } }, [[[], 1, false], [fresh_name_9 | z], [_ | _]] => , } }, x != x, closure { x == x }])
}
pub fn case_588(vars: &Vars) -> InferredGoal<DU, DE, Goal<DU, DE>> {
    let q = vars.v[0].clone();
    let x = vars.v[1].clone();
    proto_vulcan!([|z| { true, match q { [] => , 1 => [[2, 2 | q] == x, true], [3, [], [2]] => { q != [[[], 'a', _], z, [2]] }, }, match q { [[2 | z], [x, _] | y] | [[], [y, 'a'] | 2] => [conde { [_ == [], y == [y | q]], [q == [q], q != q] }, conde { [y, 'b'] == y, y == [["a", y] | q] }], } }, q == q, true])
}
pub fn case_589(vars: &Vars) -> InferredGoal<DU, DE, Goal<DU, DE>> {
    let q = vars.v[0].clone();
    let x = vars.v[1].clone();
    proto_vulcan!([|fresh_name_9| { true, match q { [] => , 1 => [[2, 2 | q] == x, true], [3, [], [2]] => { q != [[[], 'a', _], fresh_name_9, [2]] }, }, match q { [[2 | z], [x, _] | y] | [[], [y, 'a'] | 2] => [conde { [_ == [], y == [y | q]], [q == [q], q != q] }, conde { [y, 'b'] == y, y == [["a", y] | q] }], } }, q == q, true])
}
pub fn case_590(vars: &Vars) -> InferredGoal<DU, DE, Goal<DU, DE>> {
    let x = vars.v[0].clone();
    let y = vars.v[1].clone();
    proto_vulcan!([matche [2 | x] { [[x, 2 | y], [1]] => , 3 | [1, [t | y], [_, _]] => { matche x { y => [|x, y| { 2 == x, x == 1, false }, match y { [[_, 3]] => { [y, y] != x }, }], [[3, []] | x] | [z | 3] => , } }, [[y], [y, true, 1]] => [[match x { [] => { y == y }, }], match y { [[x, 2], [_, []], 1] => { false }, false => { y == [1, ["bc"]], |y| { y != [x, []], y != [_, 2, 3], [_, [], y | x] == y } }, [[x, _ | x], t] => { [y == 2] }, }], }, x == [y | 3], matche x { [[true | y]] => , 2 | 1 => , h => { |t, y| { |z| { y == [[], [y, y, t | x], _], [[x | x]] == 1, true }, [true, 1 == t, member(x, [])] }, [[y, [3] | h] == _, x != [[], x]] }, }])
}
pub fn case_591(vars: &Vars) -> InferredGoal<DU, DE, Goal<DU, DE>> {
    let x = vars.v[0].clone();
    let y = vars.v[1].clone();
    proto_vulcan!([matche [2 | x] { [[x, 2 | y], [1]] => , 3 | [1, [t | y], [_, _]] => { matche x { y => [|x, y| { 2 == x, x == 1, false }, match y { [[_, 3]] => { [y, y] != x }, }], [[3, []] | x] | [z | 3] => , } }, [[y], [y, true, 1]] => [[match x { [] => { y == y }, }], match y { [[x, 2], [_, []], 1] => { false }, false => { y == [1, ["bc"]], |y| { y != [x, []], y != [_, 2, 3], [_, [], y | x] == y } }, [[x, _ | x], t] => { [y == 2] }, }], }, x == [y | 3], matche x { [[true | y]] => , 2 | 1 => , fresh_name_9 => { |t, y| { |z| { y == [[], [y, y, t | x], _], [[x | x]] == 1, true }, [true, 1 == t, member(x, [])] }, [[y, [3] | fresh_name_9] == _, x != [[], x]] }, }])
}
pub fn case_592(vars: &Vars) -> InferredGoal<DU, DE, Goal<DU, DE>> {
    let x = vars.v[0].clone();
    proto_vulcan!([false, conde { [conde { [match x { [['a'], ['a', _]] => , }, [[_, x, 2] | x] == x], [x == x, conde { 2 == [[2], false, 2 | true], [x == x, 2 == 2], member(x, [2]) }] }, match x { 2 => , }], [append(x, x, [1]), conde { |z| { append(x, x, []), true }, [match x { x => , [[false]] => { 3 == x, _ == [x, "a", []] }, [[z, z]] => , }, true] }] }, closure { [|z| { z == 3, x == [_, 2, z], matche z { [[2, _, y]] | [[2, 1, t], ["bc"], []] => [|tz| { tz == [2], [2, 1, 2] != [2, 1 | tz] }, 2 == z], } }, append(x, x, [1])] }])
}
pub fn case_593(vars: &Vars) -> InferredGoal<DU, DE, Goal<DU, DE>> {
    let x = vars.v[0].clone();
    proto_vulcan!([false, conde { [conde { [match x { [['a'], ['a', _]] => , }, [[_, x, 2] | x] == x], [x == x, conde { 2 == [[2], false, 2 | true], [x == x, 2 == 2], member(x, [2]) }] }, match x { 2 => , }], [append(x, x, [1]), conde { |z| { append(x, x, []), true }, [match x { fresh_name_9 => , [[false]] => { 3 == x, _ == [x, "a", []] }, [[z, z]] => , }, true] }] }, closure { [|z| { z == 3, x == [_, 2, z], matche z { [[2, _, y]] | [[2, 1, t], ["bc"], []] => [|tz| { tz == [2], [2, 1, 2] != [2, 1 | tz] }, 2 == z], } }, append(x, x, [1])] }])
}
pub fn case_594(vars: &Vars) -> InferredGoal<DU, DE, Goal<DU, DE>> {
    let q = vars.v[0].clone();
    let x = vars.v[1].clone();
    proto_vulcan!([|h| { [[h] == q], q == [true | h], conde { h != [3, q], matche x { [[1], [t, false], [y] | _] | [y, y, [1]] => , } } }, true])
}
pub fn case_595(vars: &Vars) -> InferredGoal<DU, DE, Goal<DU, DE>> {
    let q = vars.v[0].clone();
    let x = vars.v[1].clone();
    proto_vulcan!([|fresh_name_9| { [[fresh_name_9] == q], q == [true | fresh_name_9], conde { fresh_name_9 != [3, q], matche x { [[1], [t, false], [y] | _] | [y, y, [1]] => , } } }, true])
}
pub fn case_596(vars: &Vars) -> InferredGoal<DU, DE, Goal<DU, DE>> {
    let x = vars.v[0].clone();
    proto_vulcan!([match x { [[1]] => [|t, x| { x == [x, t], [_ == x, [x] != x, [[], _, 1 | t] == [[x], [3], [x, x]]] }, |t, x| { conde { true, x != x, [[x, _] == [[t, []] | t], [1, 1] == x] }, conde { x != x, _ == x } }], [[[], z] | x] => [[x == [z, z, _ | x], |t, y| { x == [], t == [[y] | x], x == [x] }, [[] != x, true, append(z, x, [])]], match x { [[_ | _], [x | z], [_, _ | t]] => [x == [], conde { append(t, z, [1, 3]), |tz| { [1 | tz] != [1, 1], tz == [1] }, t == x }], h => 1 == h, [] | [y] => [x != x, [2, 2] != x], }], y => [false, y == [x, 1, 1]], }, x == x])
}
pub fn case_597(vars: &Vars) -> InferredGoal<DU, DE, Goal<DU, DE>> {
    let x = vars.v[0].clone();
    proto_vulcan!([match x { [[1]] => [|t, x| { x == [x, t], [_ == x, [x] != x, [[], _, 1 | t] == [[x], [3], [x, x]]] }, |t, x| { conde { true, x != x, [[x, _] == [[t, []] | t], [1, 1] == x] }, conde { x != x, _ == x } }], [[[], z] | x] => [[x == [z, z, _ | x], |t, y| { x == [], t == [[y] | x], x == [x] }, [[] != x, true, append(z, x, [])]], match x { [[_ | _], [x | fresh_name_9], [_, _ | t]] => [x == [], conde { append(t, fresh_name_9, [1, 3]), |tz| { [1 | tz] != [1, 1], tz == [1] }, t == x }], h => 1 == h, [] | [y] => [x != x, [2, 2] != x], }], y => [false, y == [x, 1, 1]], }, x == x])
}
pub fn case_598(vars: &Vars) -> InferredGoal<DU, DE, Goal<DU, DE>> {
    let x = vars.v[0].clone();
    proto_vulcan!([x != [x, x, 'a'], |h, x| { |h, t| { h == x } }, closure { conde { member(x, [1]), [[[x | x] == x, [x, 2] == x], member(x, [3, 1])] } }])
}
pub fn case_599(vars: &Vars) -> InferredGoal<DU, DE, Goal<DU, DE>> {
    let x = vars.v[0].clone();
    proto_vulcan!([x != [x, x, 'a'], |h, x| { |fresh_name_9, t| { fresh_name_9 == x } }, closure { conde { member(x, [1]), [[[x | x] == x, [x, 2] == x], member(x, [3, 1])] } }])
}
pub fn case_600(vars: &Vars) -> InferredGoal<DU, DE, Goal<DU, DE>> {
    let x = vars.v[0].clone();
    proto_vulcan!(['a' != x, |y| { |t, h| { [[x, _, x]] == x, conde { x == h, x != [2 | 3], [t == y, false] } }, |x, t| { |tz| { [2 | tz] != [2, 1, 1], tz == [1, 1] }, conde { [x == [t], true], x == 1 }, member(x, [2]) } }])
}
pub fn case_601(vars: &Vars) -> InferredGoal<DU, DE, Goal<DU, DE>> {
    let x = vars.v[0].clone();
    proto_vulcan!(['a' != x, |y| { |t, h| { [[x, _, x]] == x, conde { x == h, x != [2 | 3], [t == y, false] } }, |x, t| { |fresh_name_9| { [2 | fresh_name_9] != [2, 1, 1], fresh_name_9 == [1, 1] }, conde { [x == [t], true], x == 1 }, member(x, [2]) } }])
}
pub fn case_602(vars: &Vars) -> InferredGoal<DU, DE, Goal<DU, DE>> {
    let q = vars.v[0].clone();
    let x = vars.v[1].clone();
    proto_vulcan!([|x, y| { matche y { [[_] | z] => { |x, t| { z == 1 } }, [[_, 1, 1]] | [h | _] => , }, |t| { append(x, t, [1, 3]), |x, t| { x == x, [_, [x, 3], [t, x]] == x } }, y != q }, x == [[], x | "a"], closure { [1, true, []] != q }])
}
pub fn case_603(vars: &Vars) -> InferredGoal<DU, DE, Goal<DU, DE>> {
    let q = vars.v[0].clone();
    let x = vars.v[1].clone();
    proto_vulcan!([|x, y| { matche y { [[_] | z] => { |x, t| { z == 1 } }, [[_, 1, 1]] | [h | _] => , }, |t| { append(x, t, [1, 3]), |x, fresh_name_9| { x == x, [_, [x, 3], [fresh_name_9, x]] == x } }, y != q }, x == [[], x | "a"], closure { [1, true, []] != q }])
}
pub fn case_604(vars: &Vars) -> InferredGoal<DU, DE, Goal<DU, DE>> {
    let x = vars.v[0].clone();
    proto_vulcan!([matche x { x => , [[1, []], t, [2, 'b']] | [3, [_ | _]] => x == x, h => [|h, z| { h == 1, [[], 1, x | _] == z, h != h }, ['b', x] == x], }, closure { [[[] | x] == x, conde { x == [x | x], [x == [[x, 2 | 2], 3], x == [2]], [true, |tz| { tz == [2], [3, 1, 2] != [3, 1 | tz] }, true] }] }])
}
pub fn case_605(vars: &Vars) -> InferredGoal<DU, DE, Goal<DU, DE>> {
    let x = vars.v[0].clone();
    proto_vulcan!([matche x { fresh_name_9 => , [[1, []], t, [2, 'b']] | [3, [_ | _]] => x == x, h => [|h, z| { h == 1, [[], 1, x | _] == z, h != h }, ['b', x] == x], }, closure { [[[] | x] == x, conde { x == [x | x], [x == [[x, 2 | 2], 3], x == [2]], [true, |tz| { tz == [2], [3, 1, 2] != [3, 1 | tz] }, true] }] }])
}
pub fn case_606(vars: &Vars) -> InferredGoal<DU, DE, Goal<DU, DE>> {
    let x = vars.v[0].clone();
    proto_vulcan!([x != [1, x, x], x == [x, x, x], |tz| { [3, 1, 3] != [3 | tz], tz == [1, 3] }])
}
pub fn case_607(vars: &Vars) -> InferredGoal<DU, DE, Goal<DU, DE>> {
    let x = vars.v[0].clone();
    proto_vulcan!([x != [1, x, x], x == [x, x, x], |fresh_name_9| { [3, 1, 3] != [3 | fresh_name_9], fresh_name_9 == [1, 3] }])
}
pub fn case_608(vars: &Vars) -> InferredGoal<DU, DE, Goal<DU, DE>> {
    let x = vars.v[0].clone();
    proto_vulcan!([|h, y| { x == [2], matche x { [[3 | h], t | y] => , }, [2 != x, x == 1] }, conde { append(x, x, []), true != x }, closure { [x, 1, _] == x }])
}
pub fn case_609(vars: &Vars) -> InferredGoal<DU, DE, Goal<DU, DE>> {
    let x = vars.v[0].clone();
    proto_vulcan!([|h, fresh_name_9| { x == [2], matche x { [[3 | h], t | y] => , }, [2 != x, x == 1] }, conde { append(x, x, []), true != x }, closure { [x, 1, _] == x }])
}
pub fn case_610(vars: &Vars) -> InferredGoal<DU, DE, Goal<DU, DE>> {
    let x = vars.v[0].clone();
    let y = vars.v[1].clone();
    proto_vulcan!([|h| { matche [h] { [[_ | x], []] => [matche x { [[t, 'b'], [z, [], z], [_, x]] => [1 == ['b', ["bc", _, 3]], false], [false, x, [z] | _] => [x == _, true], [3, [[], []]] => , }, conde { [[x, 1, 'b' | 'b'] == y, h != y], [] != y }], [[t], [2, _ | t]] | [[h, [], []], [x, 1, "a" | h]] => { _ == y, append(y, y, [1]) }, }, |y| { [false, h == [2, 1, 2 | y]], match y { [[2, h, x], [1, z, y], h] => , }, [[x, 1 | h] == h] } }, [x == y], append(x, y, [3, 1]), closure { [x != x, |h| { [1, [y, 2 | h], x] == [[2, y], [y], h] }] }])
}
pub fn case_611(vars: &Vars) -> InferredGoal<DU, DE, Goal<DU, DE>> {
    let x = vars.v[0].clone();
    let y = vars.v[1].clone();
    proto_vulcan!([|h| { matche [h] { [[_ | x], []] => [matche x { [[t, 'b'], [z, [], z], [_, x]] => [1 == ['b', ["bc", _, 3]], false], [false, x, [z] | _] => [x == _, true], [3, [[], []]] => , }, conde { [[x, 1, 'b' | 'b'] == y, h != y], [] != y }], [[t], [2, _ | t]] | [[h, [], []], [x, 1, "a" | h]] => { _ == y, append(y, y, [1]) }, }, |y| { [false, h == [2, 1, 2 | y]], match y { [[2, h, x], [1, z, y], h] => , }, [[x, 1 | h] == h] } }, [x == y], append(x, y, [3, 1]), closure { [x != x, |fresh_name_9| { [1, [y, 2 | fresh_name_9], x] == [[2, y], [y], fresh_name_9] }] }])
}
pub fn case_612(vars: &Vars) -> InferredGoal<DU, DE, Goal<DU, DE>> {
    let q = vars.v[0].clone();
    let x = vars.v[1].clone();
    proto_vulcan!([|t, z| { t != [[], q, 1], member(t, [3]), true }, q == [3, q]])
}
pub fn case_613(vars: &Vars) -> InferredGoal<DU, DE, Goal<DU, DE>> {
    let q = vars.v[0].clone();
    let x = vars.v[1].clone();
    proto_vulcan!([|t, fresh_name_9| { t != [[], q, 1], member(t, [3]), true }, q == [3, q]])
}
pub fn case_614(vars: &Vars) -> InferredGoal<DU, DE, Goal<DU, DE>> {
    let q = vars.v[0].clone();
    let x = vars.v[1].clone();
    proto_vulcan!([true, closure { [[[false, q == [[], x]]], conde { match [[], 3, q] { y => { ["bc", _, x] == [x, [3]], x == [_, "a"] }, [] => { x == x }, }, [|x| { |tz| { tz == [2, 1], [1, 3, 2, 1] != [1, 3 | tz] } }, [] == q], [[1, q] == [[1, 1, 2]], member(x, [3, 1, 2])] }] }])
}
pub fn case_615(vars: &Vars) -> InferredGoal<DU, DE, Goal<DU, DE>> {
    let q = vars.v[0].clone();
    let x = vars.v[1].clone();
    proto_vulcan!([true, closure { [[[false, q == [[], x]]], conde { match [[], 3, q] { y => { ["bc", _, x] == [x, [3]], x == [_, "a"] }, [] => { x == x }, }, [|fresh_name_9| { |tz| { tz == [2, 1], [1, 3, 2, 1] != [1, 3 | tz] } }, [] == q], [[1, q] == [[1, 1, 2]], member(x, [3, 1, 2])] }] }])
}
pub fn case_616(vars: &Vars) -> InferredGoal<DU, DE, Goal<DU, DE>> {
    let x = vars.v[0].clone();
    proto_vulcan!([|t| { [[3], t | x] == ["a", [], 'b'] }, [[3, _, _ | 'b'] == 'a']])
}
pub fn case_617(vars: &Vars) -> InferredGoal<DU, DE, Goal<DU, DE>> {
    let x = vars.v[0].clone();
    proto_vulcan!([|fresh_name_9| { [[3], fresh_name_9 | x] == ["a", [], 'b'] }, [[3, _, _ | 'b'] == 'a']])
}
pub fn case_618(vars: &Vars) -> InferredGoal<DU, DE, Goal<DU, DE>> {
    let x = vars.v[0].clone();
    let y = vars.v[1].clone();
    proto_vulcan!([|x| { true, [[x], [_, 3], [y | y]] == x }, true, [[] | x] == x, closure { y == x }])
}
pub fn case_619(vars: &Vars) -> InferredGoal<DU, DE, Goal<DU, DE>> {
    let x = vars.v[0].clone();
    let y = vars.v[1].clone();
    proto_vulcan!([|fresh_name_9| { true, [[fresh_name_9], [_, 3], [y | y]] == fresh_name_9 }, true, [[] | x] == x, closure { y == x }])
}
pub fn case_620(vars: &Vars) -> InferredGoal<DU, DE, Goal<DU, DE>> {
    let x = vars.v[0].clone();
    let y = vars.v[1].clone();
    proto_vulcan!([|y| { x == [x], conde { [|y| { append(y, x, [1]), |tz| { tz == [1], [1, 1] != [1 | tz] }, true }, [y] == x], [y, [], y | x] == y }, _ == x }, matche y { 1 | [[y, [], h], [[], [], y]] => , [[y, h, 1 | h]] | [[t, x, "a" | t], [t, z] | _] => , y | t => , }])
}
pub fn case_621(vars: &Vars) -> InferredGoal<DU, DE, Goal<DU, DE>> {
    let x = vars.v[0].clone();
    let y = vars.v[1].clone();
    proto_vulcan!([|y| { x == [x], conde { [|fresh_name_9| { append(fresh_name_9, x, [1]), |tz| { tz == [1], [1, 1] != [1 | tz] }, true }, [y] == x], [y, [], y | x] == y }, _ == x }, matche y { 1 | [[y, [], h], [[], [], y]] => , [[y, h, 1 | h]] | [[t, x, "a" | t], [t, z] | _] => , y | t => , }])
}
pub fn case_622(vars: &Vars) -> InferredGoal<DU, DE, Goal<DU, DE>> {
    let x = vars.v[0].clone();
    proto_vulcan!([[] == x, |y| { member(x, [2, 1]), member(x, [1, 1]), matche y { t | [[1, x], 1, [2, _ | true]] => , 3 => { 1 != y }, } }])
}
pub fn case_623(vars: &Vars) -> InferredGoal<DU, DE, Goal<DU, DE>> {
    let x = vars.v[0].clone();
    proto_vulcan!([[] == x, |fresh_name_9| { member(x, [2, 1]), member(x, [1, 1]), matche fresh_name_9 { t | [[1, x], 1, [2, _ | true]] => , 3 => { 1 != fresh_name_9 }, } }])
}
pub fn case_624(vars: &Vars) -> InferredGoal<DU, DE, Goal<DU, DE>> {
    let x = vars.v[0].clone();
    let y = vars.v[1].clone();
    proto_vulcan!([conde { [true, conde { [y == [y], x != _], y == [[1, _, x], [x | y]] }], matche y { [[t], [y, h, _]] => [match y { [2] => { |tz| { tz == [3, 1], [2, 3 | tz] != [2, 3, 3, 1] }, x == y }, t | [] => { [y] == y }, 3 => [y == [x], true], }, _ == t], z => , [h, x, 1 | _] => matche x { 2 | [[[], x, _], [y], [h, y, y | y]] => , 1 | [t] => [1, y] == x, 3 => 2 == y, }, }, false }])
}
pub fn case_625(vars: &Vars) -> InferredGoal<DU, DE, Goal<DU, DE>> {
    let x = vars.v[0].clone();
    let y = vars.v[1].clone();
    proto_vulcan!([conde { [true, conde { [y == [y], x != _], y == [[1, _, x], [x | y]] }], matche y { [[t], [y, h, _]] => [match y { [2] => { |tz| { tz == [3, 1], [2, 3 | tz] != [2, 3, 3, 1] }, x == y }, t | [] => { [y] == y }, 3 => [y == [x], true], }, _ == t], z => , [fresh_name_9, x, 1 | _] => matche x { 2 | [[[], x, _], [y], [h, y, y | y]] => , 1 | [t] => [1, y] == x, 3 => 2 == y, }, }, false }])
}
pub const NCASES: usize = 626;
pub fn case(i: usize, vars: &Vars) -> Goal<DU, DE> {
    match i {
        0 => case_0(vars).goal,
        1 => case_1(vars).goal,
        2 => case_2(vars).goal,
        3 => case_3(vars).goal,
        4 => case_4(vars).goal,
        5 => case_5(vars).goal,
        6 => case_6(vars).goal,
        7 => case_7(vars).goal,
        8 => case_8(vars).goal,
        9 => case_9(vars).goal,
        10 => case_10(vars).goal,
        11 => case_11(vars).goal,
        12 => case_12(vars).goal,
        13 => case_13(vars).goal,
        14 => case_14(vars).goal,
        15 => case_15(vars).goal,
        16 => case_16(vars).goal,
        17 => case_17(vars).goal,
        18 => case_18(vars).goal,
        19 => case_19(vars).goal,
        20 => case_20(vars).goal,
        21 => case_21(vars).goal,
        22 => case_22(vars).goal,
        23 => case_23(vars).goal,
        24 => case_24(vars).goal,
        25 => case_25(vars).goal,
        26 => case_26(vars).goal,
        27 => case_27(vars).goal,
        28 => case_28(vars).goal,
        29 => case_29(vars).goal,
        30 => case_30(vars).goal,
        31 => case_31(vars).goal,
        32 => case_32(vars).goal,
        33 => case_33(vars).goal,
        34 => case_34(vars).goal,
        35 => case_35(vars).goal,
        36 => case_36(vars).goal,
        37 => case_37(vars).goal,
        38 => case_38(vars).goal,
        39 => case_39(vars).goal,
        40 => case_40(vars).goal,
        41 => case_41(vars).goal,
        42 => case_42(vars).goal,
        43 => case_43(vars).goal,
        44 => case_44(vars).goal,
        45 => case_45(vars).goal,
        46 => case_46(vars).goal,
        47 => case_47(vars).goal,
        48 => case_48(vars).goal,
        49 => case_49(vars).goal,
        50 => case_50(vars).goal,
        51 => case_51(vars).goal,
        52 => case_52(vars).goal,
        53 => case_53(vars).goal,
        54 => case_54(vars).goal,
        55 => case_55(vars).goal,
        56 => case_56(vars).goal,
        57 => case_57(vars).goal,
        58 => case_58(vars).goal,
        59 => case_59(vars).goal,
        60 => case_60(vars).goal,
        61 => case_61(vars).goal,
        62 => case_62(vars).goal,
        63 => case_63(vars).goal,
        64 => case_64(vars).goal,
        65 => case_65(vars).goal,
        66 => case_66(vars).goal,
        67 => case_67(vars).goal,
        68 => case_68(vars).goal,
        69 => case_69(vars).goal,
        70 => case_70(vars).goal,
        71 => case_71(vars).goal,
        72 => case_72(vars).goal,
        73 => case_73(vars).goal,
        74 => case_74(vars).goal,
        75 => case_75(vars).goal,
        76 => case_76(vars).goal,
        77 => case_77(vars).goal,
        78 => case_78(vars).goal,
        79 => case_79(vars).goal,
        80 => case_80(vars).goal,
        81 => case_81(vars).goal,
        82 => case_82(vars).goal,
        83 => case_83(vars).goal,
        84 => case_84(vars).goal,
        85 => case_85(vars).goal,
        86 => case_86(vars).goal,
        87 => case_87(vars).goal,
        88 => case_88(vars).goal,
        89 => case_89(vars).goal,
        90 => case_90(vars).goal,
        91 => case_91(vars).goal,
        92 => case_92(vars).goal,
        93 => case_93(vars).goal,
        94 => case_94(vars).goal,
        95 => case_95(vars).goal,
        96 => case_96(vars).goal,
        97 => case_97(vars).goal,
        98 => case_98(vars).goal,
        99 => case_99(vars).goal,
        100 => case_100(vars).goal,
        101 => case_101(vars).goal,
        102 => case_102(vars).goal,
        103 => case_103(vars).goal,
        104 => case_104(vars).goal,
        105 => case_105(vars).goal,
        106 => case_106(vars).goal,
        107 => case_107(vars).goal,
        108 => case_108(vars).goal,
        109 => case_109(vars).goal,
        110 => case_110(vars).goal,
        111 => case_111(vars).goal,
        112 => case_112(vars).goal,
        113 => case_113(vars).goal,
        114 => case_114(vars).goal,
        115 => case_115(vars).goal,
        116 => case_116(vars).goal,
        117 => case_117(vars).goal,
        118 => case_118(vars).goal,
        119 => case_119(vars).goal,
        120 => case_120(vars).goal,
        121 => case_121(vars).goal,
        122 => case_122(vars).goal,
        123 => case_123(vars).goal,
        124 => case_124(vars).goal,
        125 => case_125(vars).goal,
        126 => case_126(vars).goal,
        127 => case_127(vars).goal,
        128 => case_128(vars).goal,
        129 => case_129(vars).goal,
        130 => case_130(vars).goal,
        131 => case_131(vars).goal,
        132 => case_132(vars).goal,
        133 => case_133(vars).goal,
        134 => case_134(vars).goal,
        135 => case_135(vars).goal,
        136 => case_136(vars).goal,
        137 => case_137(vars).goal,
        138 => case_138(vars).goal,
        139 => case_139(vars).goal,
        140 => case_140(vars).goal,
        141 => case_141(vars).goal,
        142 => case_142(vars).goal,
        143 => case_143(vars).goal,
        144 => case_144(vars).goal,
        145 => case_145(vars).goal,
        146 => case_146(vars).goal,
        147 => case_147(vars).goal,
        148 => case_148(vars).goal,
        149 => case_149(vars).goal,
        150 => case_150(vars).goal,
        151 => case_151(vars).goal,
        152 => case_152(vars).goal,
        153 => case_153(vars).goal,
        154 => case_154(vars).goal,
        155 => case_155(vars).goal,
        156 => case_156(vars).goal,
        157 => case_157(vars).goal,
        158 => case_158(vars).goal,
        159 => case_159(vars).goal,
        160 => case_160(vars).goal,
        161 => case_161(vars).goal,
        162 => case_162(vars).goal,
        163 => case_163(vars).goal,
        164 => case_164(vars).goal,
        165 => case_165(vars).goal,
        166 => case_166(vars).goal,
        167 => case_167(vars).goal,
        168 => case_168(vars).goal,
        169 => case_169(vars).goal,
        170 => case_170(vars).goal,
        171 => case_171(vars).goal,
        172 => case_172(vars).goal,
        173 => case_173(vars).goal,
        174 => case_174(vars).goal,
        175 => case_175(vars).goal,
        176 => case_176(vars).goal,
        177 => case_177(vars).goal,
        178 => case_178(vars).goal,
        179 => case_179(vars).goal,
        180 => case_180(vars).goal,
        181 => case_181(vars).goal,
        182 => case_182(vars).goal,
        183 => case_183(vars).goal,
        184 => case_184(vars).goal,
        185 => case_185(vars).goal,
        186 => case_186(vars).goal,
        187 => case_187(vars).goal,
        188 => case_188(vars).goal,
        189 => case_189(vars).goal,
        190 => case_190(vars).goal,
        191 => case_191(vars).goal,
        192 => case_192(vars).goal,
        193 => case_193(vars).goal,
        194 => case_194(vars).goal,
        195 => case_195(vars).goal,
        196 => case_196(vars).goal,
        197 => case_197(vars).goal,
        198 => case_198(vars).goal,
        199 => case_199(vars).goal,
        200 => case_200(vars).goal,
        201 => case_201(vars).goal,
        202 => case_202(vars).goal,
        203 => case_203(vars).goal,
        204 => case_204(vars).goal,
        205 => case_205(vars).goal,
        206 => case_206(vars).goal,
        207 => case_207(vars).goal,
        208 => case_208(vars).goal,
        209 => case_209(vars).goal,
        210 => case_210(vars).goal,
        211 => case_211(vars).goal,
        212 => case_212(vars).goal,
        213 => case_213(vars).goal,
        214 => case_214(vars).goal,
        215 => case_215(vars).goal,
        216 => case_216(vars).goal,
        217 => case_217(vars).goal,
        218 => case_218(vars).goal,
        219 => case_219(vars).goal,
        220 => case_220(vars).goal,
        221 => case_221(vars).goal,
        222 => case_222(vars).goal,
        223 => case_223(vars).goal,
        224 => case_224(vars).goal,
        225 => case_225(vars).goal,
        226 => case_226(vars).goal,
        227 => case_227(vars).goal,
        228 => case_228(vars).goal,
        229 => case_229(vars).goal,
        230 => case_230(vars).goal,
        231 => case_231(vars).goal,
        232 => case_232(vars).goal,
        233 => case_233(vars).goal,
        234 => case_234(vars).goal,
        235 => case_235(vars).goal,
        236 => case_236(vars).goal,
        237 => case_237(vars).goal,
        238 => case_238(vars).goal,
        239 => case_239(vars).goal,
        240 => case_240(vars).goal,
        241 => case_241(vars).goal,
        242 => case_242(vars).goal,
        243 => case_243(vars).goal,
        244 => case_244(vars).goal,
        245 => case_245(vars).goal,
        246 => case_246(vars).goal,
        247 => case_247(vars).goal,
        248 => case_248(vars).goal,
        249 => case_249(vars).goal,
        250 => case_250(vars).goal,
        251 => case_251(vars).goal,
        252 => case_252(vars).goal,
        253 => case_253(vars).goal,
        254 => case_254(vars).goal,
        255 => case_255(vars).goal,
        256 => case_256(vars).goal,
        257 => case_257(vars).goal,
        258 => case_258(vars).goal,
        259 => case_259(vars).goal,
        260 => case_260(vars).goal,
        261 => case_261(vars).goal,
        262 => case_262(vars).goal,
        263 => case_263(vars).goal,
        264 => case_264(vars).goal,
        265 => case_265(vars).goal,
        266 => case_266(vars).goal,
        267 => case_267(vars).goal,
        268 => case_268(vars).goal,
        269 => case_269(vars).goal,
        270 => case_270(vars).goal,
        271 => case_271(vars).goal,
        272 => case_272(vars).goal,
        273 => case_273(vars).goal,
        274 => case_274(vars).goal,
        275 => case_275(vars).goal,
        276 => case_276(vars).goal,
        277 => case_277(vars).goal,
        278 => case_278(vars).goal,
        279 => case_279(vars).goal,
        280 => case_280(vars).goal,
        281 => case_281(vars).goal,
        282 => case_282(vars).goal,
        283 => case_283(vars).goal,
        284 => case_284(vars).goal,
        285 => case_285(vars).goal,
        286 => case_286(vars).goal,
        287 => case_287(vars).goal,
        288 => case_288(vars).goal,
        289 => case_289(vars).goal,
        290 => case_290(vars).goal,
        291 => case_291(vars).goal,
        292 => case_292(vars).goal,
        293 => case_293(vars).goal,
        294 => case_294(vars).goal,
        295 => case_295(vars).goal,
        296 => case_296(vars).goal,
        297 => case_297(vars).goal,
        298 => case_298(vars).goal,
        299 => case_299(vars).goal,
        300 => case_300(vars).goal,
        301 => case_301(vars).goal,
        302 => case_302(vars).goal,
        303 => case_303(vars).goal,
        304 => case_304(vars).goal,
        305 => case_305(vars).goal,
        306 => case_306(vars).goal,
        307 => case_307(vars).goal,
        308 => case_308(vars).goal,
        309 => case_309(vars).goal,
        310 => case_310(vars).goal,
        311 => case_311(vars).goal,
        312 => case_312(vars).goal,
        313 => case_313(vars).goal,
        314 => case_314(vars).goal,
        315 => case_315(vars).goal,
        316 => case_316(vars).goal,
        317 => case_317(vars).goal,
        318 => case_318(vars).goal,
        319 => case_319(vars).goal,
        320 => case_320(vars).goal,
        321 => case_321(vars).goal,
        322 => case_322(vars).goal,
        323 => case_323(vars).goal,
        324 => case_324(vars).goal,
        325 => case_325(vars).goal,
        326 => case_326(vars).goal,
        327 => case_327(vars).goal,
        328 => case_328(vars).goal,
        329 => case_329(vars).goal,
        330 => case_330(vars).goal,
        331 => case_331(vars).goal,
        332 => case_332(vars).goal,
        333 => case_333(vars).goal,
        334 => case_334(vars).goal,
        335 => case_335(vars).goal,
        336 => case_336(vars).goal,
        337 => case_337(vars).goal,
        338 => case_338(vars).goal,
        339 => case_339(vars).goal,
        340 => case_340(vars).goal,
        341 => case_341(vars).goal,
        342 => case_342(vars).goal,
        343 => case_343(vars).goal,
        344 => case_344(vars).goal,
        345 => case_345(vars).goal,
        346 => case_346(vars).goal,
        347 => case_347(vars).goal,
        348 => case_348(vars).goal,
        349 => case_349(vars).goal,
        350 => case_350(vars).goal,
        351 => case_351(vars).goal,
        352 => case_352(vars).goal,
        353 => case_353(vars).goal,
        354 => case_354(vars).goal,
        355 => case_355(vars).goal,
        356 => case_356(vars).goal,
        357 => case_357(vars).goal,
        358 => case_358(vars).goal,
        359 => case_359(vars).goal,
        360 => case_360(vars).goal,
        361 => case_361(vars).goal,
        362 => case_362(vars).goal,
        363 => case_363(vars).goal,
        364 => case_364(vars).goal,
        365 => case_365(vars).goal,
        366 => case_366(vars).goal,
        367 => case_367(vars).goal,
        368 => case_368(vars).goal,
        369 => case_369(vars).goal,
        370 => case_370(vars).goal,
        371 => case_371(vars).goal,
        372 => case_372(vars).goal,
        373 => case_373(vars).goal,
        374 => case_374(vars).goal,
        375 => case_375(vars).goal,
        376 => case_376(vars).goal,
        377 => case_377(vars).goal,
        378 => case_378(vars).goal,
        379 => case_379(vars).goal,
        380 => case_380(vars).goal,
        381 => case_381(vars).goal,
        382 => case_382(vars).goal,
        383 => case_383(vars).goal,
        384 => case_384(vars).goal,
        385 => case_385(vars).goal,
        386 => case_386(vars).goal,
        387 => case_387(vars).goal,
        388 => case_388(vars).goal,
        389 => case_389(vars).goal,
        390 => case_390(vars).goal,
        391 => case_391(vars).goal,
        392 => case_392(vars).goal,
        393 => case_393(vars).goal,
        394 => case_394(vars).goal,
        395 => case_395(vars).goal,
        396 => case_396(vars).goal,
        397 => case_397(vars).goal,
        398 => case_398(vars).goal,
        399 => case_399(vars).goal,
        400 => case_400(vars).goal,
        401 => case_401(vars).goal,
        402 => case_402(vars).goal,
        403 => case_403(vars).goal,
        404 => case_404(vars).goal,
        405 => case_405(vars).goal,
        406 => case_406(vars).goal,
        407 => case_407(vars).goal,
        408 => case_408(vars).goal,
        409 => case_409(vars).goal,
        410 => case_410(vars).goal,
        411 => case_411(vars).goal,
        412 => case_412(vars).goal,
        413 => case_413(vars).goal,
        414 => case_414(vars).goal,
        415 => case_415(vars).goal,
        416 => case_416(vars).goal,
        417 => case_417(vars).goal,
        418 => case_418(vars).goal,
        419 => case_419(vars).goal,
        420 => case_420(vars).goal,
        421 => case_421(vars).goal,
        422 => case_422(vars).goal,
        423 => case_423(vars).goal,
        424 => case_424(vars).goal,
        425 => case_425(vars).goal,
        426 => case_426(vars).goal,
        427 => case_427(vars).goal,
        428 => case_428(vars).goal,
        429 => case_429(vars).goal,
        430 => case_430(vars).goal,
        431 => case_431(vars).goal,
        432 => case_432(vars).goal,
        433 => case_433(vars).goal,
        434 => case_434(vars).goal,
        435 => case_435(vars).goal,
        436 => case_436(vars).goal,
        437 => case_437(vars).goal,
        438 => case_438(vars).goal,
        439 => case_439(vars).goal,
        440 => case_440(vars).goal,
        441 => case_441(vars).goal,
        442 => case_442(vars).goal,
        443 => case_443(vars).goal,
        444 => case_444(vars).goal,
        445 => case_445(vars).goal,
        446 => case_446(vars).goal,
        447 => case_447(vars).goal,
        448 => case_448(vars).goal,
        449 => case_449(vars).goal,
        450 => case_450(vars).goal,
        451 => case_451(vars).goal,
        452 => case_452(vars).goal,
        453 => case_453(vars).goal,
        454 => case_454(vars).goal,
        455 => case_455(vars).goal,
        456 => case_456(vars).goal,
        457 => case_457(vars).goal,
        458 => case_458(vars).goal,
        459 => case_459(vars).goal,
        460 => case_460(vars).goal,
        461 => case_461(vars).goal,
        462 => case_462(vars).goal,
        463 => case_463(vars).goal,
        464 => case_464(vars).goal,
        465 => case_465(vars).goal,
        466 => case_466(vars).goal,
        467 => case_467(vars).goal,
        468 => case_468(vars).goal,
        469 => case_469(vars).goal,
        470 => case_470(vars).goal,
        471 => case_471(vars).goal,
        472 => case_472(vars).goal,
        473 => case_473(vars).goal,
        474 => case_474(vars).goal,
        475 => case_475(vars).goal,
        476 => case_476(vars).goal,
        477 => case_477(vars).goal,
        478 => case_478(vars).goal,
        479 => case_479(vars).goal,
        480 => case_480(vars).goal,
        481 => case_481(vars).goal,
        482 => case_482(vars).goal,
        483 => case_483(vars).goal,
        484 => case_484(vars).goal,
        485 => case_485(vars).goal,
        486 => case_486(vars).goal,
        487 => case_487(vars).goal,
        488 => case_488(vars).goal,
        489 => case_489(vars).goal,
        490 => case_490(vars).goal,
        491 => case_491(vars).goal,
        492 => case_492(vars).goal,
        493 => case_493(vars).goal,
        494 => case_494(vars).goal,
        495 => case_495(vars).goal,
        496 => case_496(vars).goal,
        497 => case_497(vars).goal,
        498 => case_498(vars).goal,
        499 => case_499(vars).goal,
        500 => case_500(vars).goal,
        501 => case_501(vars).goal,
        502 => case_502(vars).goal,
        503 => case_503(vars).goal,
        504 => case_504(vars).goal,
        505 => case_505(vars).goal,
        506 => case_506(vars).goal,
        507 => case_507(vars).goal,
        508 => case_508(vars).goal,
        509 => case_509(vars).goal,
        510 => case_510(vars).goal,
        511 => case_511(vars).goal,
        512 => case_512(vars).goal,
        513 => case_513(vars).goal,
        514 => case_514(vars).goal,
        515 => case_515(vars).goal,
        516 => case_516(vars).goal,
        517 => case_517(vars).goal,
        518 => case_518(vars).goal,
        519 => case_519(vars).goal,
        520 => case_520(vars).goal,
        521 => case_521(vars).goal,
        522 => case_522(vars).goal,
        523 => case_523(vars).goal,
        524 => case_524(vars).goal,
        525 => case_525(vars).goal,
        526 => case_526(vars).goal,
        527 => case_527(vars).goal,
        528 => case_528(vars).goal,
        529 => case_529(vars).goal,
        530 => case_530(vars).goal,
        531 => case_531(vars).goal,
        532 => case_532(vars).goal,
        533 => case_533(vars).goal,
        534 => case_534(vars).goal,
        535 => case_535(vars).goal,
        536 => case_536(vars).goal,
        537 => case_537(vars).goal,
        538 => case_538(vars).goal,
        539 => case_539(vars).goal,
        540 => case_540(vars).goal,
        541 => case_541(vars).goal,
        542 => case_542(vars).goal,
        543 => case_543(vars).goal,
        544 => case_544(vars).goal,
        545 => case_545(vars).goal,
        546 => case_546(vars).goal,
        547 => case_547(vars).goal,
        548 => case_548(vars).goal,
        549 => case_549(vars).goal,
        550 => case_550(vars).goal,
        551 => case_551(vars).goal,
        552 => case_552(vars).goal,
        553 => case_553(vars).goal,
        554 => case_554(vars).goal,
        555 => case_555(vars).goal,
        556 => case_556(vars).goal,
        557 => case_557(vars).goal,
        558 => case_558(vars).goal,
        559 => case_559(vars).goal,
        560 => case_560(vars).goal,
        561 => case_561(vars).goal,
        562 => case_562(vars).goal,
        563 => case_563(vars).goal,
        564 => case_564(vars).goal,
        565 => case_565(vars).goal,
        566 => case_566(vars).goal,
        567 => case_567(vars).goal,
        568 => case_568(vars).goal,
        569 => case_569(vars).goal,
        570 => case_570(vars).goal,
        571 => case_571(vars).goal,
        572 => case_572(vars).goal,
        573 => case_573(vars).goal,
        574 => case_574(vars).goal,
        575 => case_575(vars).goal,
        576 => case_576(vars).goal,
        577 => case_577(vars).goal,
        578 => case_578(vars).goal,
        579 => case_579(vars).goal,
        580 => case_580(vars).goal,
        581 => case_581(vars).goal,
        582 => case_582(vars).goal,
        583 => case_583(vars).goal,
        584 => case_584(vars).goal,
        585 => case_585(vars).goal,
        586 => case_586(vars).goal,
        587 => case_587(vars).goal,
        588 => case_588(vars).goal,
        589 => case_589(vars).goal,
        590 => case_590(vars).goal,
        591 => case_591(vars).goal,
        592 => case_592(vars).goal,
        593 => case_593(vars).goal,
        594 => case_594(vars).goal,
        595 => case_595(vars).goal,
        596 => case_596(vars).goal,
        597 => case_597(vars).goal,
        598 => case_598(vars).goal,
        599 => case_599(vars).goal,
        600 => case_600(vars).goal,
        601 => case_601(vars).goal,
        602 => case_602(vars).goal,
        603 => case_603(vars).goal,
        604 => case_604(vars).goal,
        605 => case_605(vars).goal,
        606 => case_606(vars).goal,
        607 => case_607(vars).goal,
        608 => case_608(vars).goal,
        609 => case_609(vars).goal,
        610 => case_610(vars).goal,
        611 => case_611(vars).goal,
        612 => case_612(vars).goal,
        613 => case_613(vars).goal,
        614 => case_614(vars).goal,
        615 => case_615(vars).goal,
        616 => case_616(vars).goal,
        617 => case_617(vars).goal,
        618 => case_618(vars).goal,
        619 => case_619(vars).goal,
        620 => case_620(vars).goal,
        621 => case_621(vars).goal,
        622 => case_622(vars).goal,
        623 => case_623(vars).goal,
        624 => case_624(vars).goal,
        625 => case_625(vars).goal,
        _ => unreachable!(),
    }
}
