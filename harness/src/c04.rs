//! C04 — reordering conjuncts or disjuncts preserves the answer multiset.
//!
//! Terminating programs over ==, !=, FD constraints, fresh, conj, conde/disj; each is run as written and
//! under random permutations of EVERY conjunction and EVERY clause list (all permutations of the top-level
//! conjunction when it has <= 3 goals).  Answers are compared as sets of ground instances: canonical
//! terms + truth table of the reported constraints over the finite universe (tree), integer tuples (FD).
//! Oracle: the multiset is the same for every order, and equals the brute-force reference.
use crate::c16::gen_prog;
use crate::fdgen::{fd_solutions, window};
use crate::out::Out;
use crate::prog::*;
use crate::rng::Rng;
use crate::tree::*;

fn multiset_of(out: &RunOut) -> Result<Vec<String>, String> {
    match out {
        RunOut::Answers(a, _) => {
            let mut v: Vec<String> = a
                .iter()
                .map(|x| {
                    // terms + semantic content of the constraints (their syntactic form may depend on the order)
                    let s = x.show("");
                    let mut parts = s.split(" @ ");
                    format!("{} @ {}", parts.next().unwrap_or(""), parts.next().unwrap_or(""))
                })
                .collect();
            v.sort();
            Ok(v)
        }
        RunOut::Budget(_) => Err("BUDGET".into()),
        RunOut::Panic(s) => Err(format!("PANIC {}", s)),
    }
}

struct Group {
    base: Prog,
    fd: bool,
}

fn run_group(g: &Group, r: &mut Rng, out: &mut Out) {
    let p = &g.base;
    let first = run_prog_b(p, 3_000_000);
    let fuel = model_fuel(&first);
    let line = show_run(&first, false);
    let want = multiset_of(&first);
    let mut fail = None;
    // brute-force reference for the written order
    if let Ok(w) = &want {
        let structured = p.body.iter().any(|x| matches!(x, PG::Eq(_, t) if matches!(t, crate::term::T::Cons(..) | crate::term::T::Comp(..))));
        if g.fd && !structured {
            let (lo, hi) = window(&p.body);
            if !crate::fdgen::fd_well_formed(p) {
                // a case line that lost a domain is outside the property: not judged
            } else if let Some(sols) = fd_solutions(p.nvars, p.nq, &p.body, lo, hi) {
                if sols.len() != w.len() {
                    fail = Some(format!("{} answers, brute force finds {} solutions (with multiplicity per path)", w.len(), sols.len()));
                }
            }
        }
    } else if let Err(e) = &want {
        if e != "BUDGET" || !g.fd {
            fail = Some(format!("program as written ended with {}", e));
        }
    }
    out.push(p.line_f(fuel), line, fail, want.as_ref().map(|w| w.len() > 1).unwrap_or(false));
    let want = match want {
        Ok(w) => w,
        Err(_) => return,
    };
    // permutations
    let mut variants: Vec<Vec<PG>> = vec![];
    if p.body.len() <= 3 {
        for perm in perms(p.body.len(), 6, r) {
            variants.push(perm.iter().map(|i| p.body[*i].clone()).collect());
        }
    }
    for _ in 0..4 {
        if let PG::Conj(b) = permute_goal(&PG::Conj(p.body.clone()), r, true) {
            variants.push(b);
        }
    }
    variants.sort_by_key(|b| format!("{:?}", b));
    variants.dedup();
    for body in variants {
        if body == p.body {
            continue;
        }
        let q = Prog { body, ..p.clone() };
        let o = run_prog_b(&q, 3_000_000);
        let fuel = model_fuel(&o);
        let line = show_run(&o, false);
        let got = multiset_of(&o);
        let fail = match &got {
            Ok(gm) if *gm == want => None,
            Ok(gm) => Some(format!(
                "reordering changed the answer multiset: as written {} answers [{}], reordered {} [{}]; original program: {}",
                want.len(), want.join(" | "), gm.len(), gm.join(" | "), p.line()
            )),
            Err(e) => Some(format!("reordered program ended with {} (as written: {} answers); original program: {}", e, want.len(), p.line())),
        };
        out.stat("reordered_runs");
        out.push(q.line_f(fuel), line, fail, want.len() > 1);
    }
}

pub fn replay(line: &str, out: &mut Out) {
    // a replayed line is one ordering; it is re-run together with fresh permutations of itself
    let p = Prog::parse(line);
    let fd = line.contains("fd ");
    let mut r = Rng::new(1, 4, 0);
    run_group(&Group { base: p, fd }, &mut r, out);
}

fn corpus() -> Vec<&'static str> {
    vec![
        "prog 2 2 0 - neq v0 i1 neq cons v0 cons v1 nil cons i1 cons i2 nil eq v0 i1 eq v1 i3",
        "prog 2 2 0 - conde 2 1 eq v0 i1 1 eq v0 i2 conde 2 1 eq v1 i3 1 neq v1 v0",
        "prog 2 2 0 - infd v0 I 0 3 infd v1 I 0 3 ltfd v0 v1 plusfd v0 v1 i3",
        "prog 3 2 0 - infd v0 I -2 2 infd v1 I -2 2 infd v2 I -2 2 timesfd v0 v1 v2 conde 2 1 eq v2 i-2 1 diseqfd v0 v1",
        "prog 2 1 0 - fresh conj 2 neq v0 v1 eq v1 i2 conde 2 1 eq v0 i1 1 eq v0 i2",
        // a constraint posted on names that are aliased afterwards, the aliases narrowed to one value by propagation (C04-k)
        "prog 4 2 0 - infd cons v0 cons v1 cons v2 cons v3 nil V 3 1 2 3 ltefd v0 v1 eq v0 v2 eq v1 v3 ltefd i3 v2 conde 2 1 eq v3 i3 1 ltefd v3 i1",
        // two SPARSE domains on one variable, the second inside the bounds of the first and holding a value from one of its holes (C04-f)
        "prog 1 1 0 - infd v0 V 3 1 3 5 infd v0 V 3 2 3 4",
        "prog 2 2 0 - infd v0 V 3 1 3 5 infd v1 V 3 2 3 4 eq v0 v1",
        "prog 2 1 0 - infd v0 V 4 0 2 4 6 infd v1 V 3 1 2 3 diseqfd v1 i2 eq v1 v0",
    ]
}

pub fn run(seed: u64, thorough: bool, out: &mut Out) {
    for l in corpus() {
        out.stat("corpus");
        replay(l, out);
    }
    let n = if thorough { 6000 } else { 800 };
    for i in 0..n {
        let mut r = Rng::new(seed, 4, i);
        let fd = r.chance(1, 2);
        let base = if fd {
            out.stat("fd_programs");
            gen_prog(&mut r)
        } else {
            out.stat("tree_programs");
            let g = TreeGen { nq: 1 + r.below(2), nh: r.below(3), compounds: r.chance(1, 3), max_atoms: 5, conde: true };
            g.prog(&mut r)
        };
        run_group(&Group { base, fd }, &mut r, out);
    }
}
