//! C09 — query iteration is lazy, fused and deterministic.
//!
//! Every kind of generated program (tree constraints, search with infinite producers, FD) is run
//!   (a) twice in this process                                → identical canonical answer sequences;
//!   (b) under the forced iteration orders 1..=3 of the permutation hook (reversed / rotated iteration of
//!       the constraint store in `run_constraints`)            → identical sequences;
//!   (c) to exhaustion (finite programs), then `next()` three more times → `None` every time (fused);
//!   (d) with `take(n)` and `take(n + 4)` on infinite producers → both return within the step budget and
//!       the first is a prefix of the second (lazy: nothing beyond the n-th answer is needed).
//! The check script additionally runs this whole harness in several FRESH PROCESSES (fresh `RandomState`
//! hash seeds) and requires byte-identical output; the model is compared with (a).
use crate::c16;
use crate::out::Out;
use crate::prog::*;
use crate::rng::Rng;
use crate::search::SearchGen;
use crate::term::*;
use crate::tree::TreeGen;
use proto_vulcan::goal::{Goal, GoalCast};
use proto_vulcan::operator::conj::InferredConj;
use proto_vulcan::operator::fresh::Fresh;
use proto_vulcan::query::Query;
use proto_vulcan::relation as rel;

/// runs the query to exhaustion and calls `next()` three more times
fn fused_ok(p: &Prog) -> Result<bool, String> {
    let mut vars = Vars::new(p.nvars);
    let goals: Vec<Goal<DU, DE>> = p.body.iter().map(|g| build::<Goal<DU, DE>>(g, &mut vars)).collect();
    let qvars: Vec<LT> = vars.v[..p.nq].to_vec();
    let query_var = LT::var("__query__");
    let goal: Goal<DU, DE> = Fresh::new(
        vec![query_var.clone()],
        GoalCast::cast_into(InferredConj::from_array(&[
            GoalCast::cast_into(rel::eq::eq(query_var.clone(), LT::from_array(&qvars))),
            proto_vulcan::operator::conj::Conj::from_array(&goals),
            proto_vulcan::state::reify(query_var.clone()),
        ])),
    )
    .cast_into();
    let query: Query<QR, DU, DE> = Query::new(qvars.clone(), goal);
    proto_vulcan::verif::set_budget(3_000_000);
    let r = crate::catch(|| {
        let mut iter = query.run_with_user(DU::default(), ());
        while iter.next().is_some() {}
        let mut ok = true;
        for _ in 0..3 {
            if iter.next().is_some() {
                ok = false;
            }
        }
        ok
    });
    proto_vulcan::verif::set_budget(u64::MAX);
    r
}

/// does the program combine finite-domain / CLP(Z) propagation with a disjunction?  (Known finding D21: how far
/// a domain is pruned before labelling depends on the hash-iteration order of the constraint store, the number of
/// labelling alternatives with it, and so the ORDER in which the clauses' answers interleave.)
pub fn fd_with_disjunction(p: &Prog) -> bool {
    let l = p.line();
    let toks: Vec<&str> = l.split_whitespace().collect();
    let fd = ["infd", "plusfd", "minusfd", "timesfd", "ltefd", "ltfd", "diseqfd", "distinctfd"];
    if !toks.iter().any(|t| fd.contains(t)) {
        return false;
    }
    // the choice point is an explicit disjunction, or the labelling itself as soon as two propagators can run in
    // either order (witness without a disjunction: found by the thorough tier of C16, see the corpus)
    let propagators: usize = toks.iter().map(|t| if *t == "ltfd" { 2 } else if fd.contains(t) && *t != "infd" { 1 } else { 0 }).sum();
    let dj = ["conde", "disj", "conda", "condu", "anyo"].iter().any(|k| toks.contains(k));
    dj || propagators >= 2
}

fn same_multiset(a: &str, b: &str) -> bool {
    let (mut x, mut y): (Vec<&str>, Vec<&str>) = (a.split(" || ").collect(), b.split(" || ").collect());
    x.sort();
    y.sort();
    x == y
}

/// tag of the last evaluated case ("-" or the known-finding class it falls in)
thread_local! { pub static LAST_TAG: std::cell::RefCell<String> = std::cell::RefCell::new("-".into()); }

pub fn eval(p: &Prog, finite: bool) -> (String, Option<String>, bool, u64) {
    LAST_TAG.with(|t| *t.borrow_mut() = "-".into());
    let unstable_order = |other: &str, line: &str| -> bool {
        // the same answers in another order, on a program of the known class
        let k = fd_with_disjunction(p) && same_multiset(other, line);
        if k {
            LAST_TAG.with(|t| *t.borrow_mut() = "KF:C09-fd-disj-order".into());
        }
        k
    };
    proto_vulcan::verif::set_permutation(0);
    let big = 3_000_000;
    let out = run_prog_b(p, if finite { big } else { BUDGET });
    let fuel = model_fuel(&out);
    let line = show_run(&out, false);
    let mut fail = None;
    if let RunOut::Panic(_) = &out {
        return (line, None, false, fuel);
    }
    // (a) again in this process
    let again = show_run(&run_prog_b(p, if finite { big } else { BUDGET }), false);
    if again != line {
        let _ = unstable_order(&again, &line);
        fail = Some(format!("a second run of the same query in the same process gave a different answer sequence: {}", again));
    }
    // (b) forced iteration orders
    for perm in 1..=3u64 {
        if fail.is_some() {
            break;
        }
        proto_vulcan::verif::set_permutation(perm);
        let l = show_run(&run_prog_b(p, if finite { big } else { BUDGET }), false);
        proto_vulcan::verif::set_permutation(0);
        if l != line {
            let _ = unstable_order(&l, &line);
            fail = Some(format!("iteration order {} of the constraint store changed the answer sequence: {}", perm, l));
        }
    }
    // (c) fused
    if fail.is_none() && finite && !line.contains("BUDGET") {
        match fused_ok(p) {
            Ok(true) => {}
            Ok(false) => fail = Some("the iterator returned Some(..) after it had returned None".into()),
            Err(e) => fail = Some(format!("running the iterator to exhaustion ended with {}", e)),
        }
    }
    // (d) lazy
    if fail.is_none() && p.take > 0 {
        let more = Prog { take: p.take + 4, ..p.clone() };
        let l2 = show_run(&run_prog(&more), false);
        let a: Vec<&str> = line.split(" || ").collect();
        let b: Vec<&str> = l2.split(" || ").collect();
        let a_cut = a.last() == Some(&"BUDGET");
        let n = if a_cut { a.len() - 1 } else { a.len() };
        if !(line == "none") && (b.len() < n || a[..n] != b[..n]) {
            fail = Some(format!("take({}) is not a prefix of take({}): {} vs {}", p.take, p.take + 4, line, l2));
        }
    }
    let nt = line.contains(" || ");
    (line, fail, nt, fuel)
}

fn record(p: &Prog, finite: bool, out: &mut Out) {
    let (line, fail, nt, fuel) = eval(p, finite);
    let tag = LAST_TAG.with(|t| t.borrow().clone());
    if tag != "-" && fail.is_some() {
        out.push_tagged(&tag, p.line_f(fuel), line, fail, nt);
    } else {
        out.push(p.line_f(fuel), line, fail, nt);
    }
}

pub fn replay(line: &str, out: &mut Out) {
    let p = Prog::parse(line);
    let finite = p.take == 0;
    record(&p, finite, out);
}

fn corpus() -> Vec<&'static str> {
    vec![
        // D13: three different answer sets over 40 processes before the FD repairs
        "prog 5 3 0 - eq v0 v0 infd v0 I 0 6 infd v1 I 0 6 infd v2 I 0 6 infd v3 I 0 6 infd v4 I 0 6 plusfd v0 v1 v3 plusfd v1 v2 v4 ltefd v3 v4 diseqfd v0 v2 ltefd v2 v3 plusfd v0 v4 i7 distinctfd cons v0 cons v1 cons v2 nil",
        "prog 3 3 0 - neq v0 v1 neq v1 v2 neq v0 v2 neq cons v0 cons v1 nil cons i1 cons i2 nil",
        "prog 1 1 6 - loop 1 1 conde 3 1 eq i1 v0 1 eq i2 v0 1 eq i3 v0",
        // C09-m: a `loop` whose body diverges without an answer, next to a clause with an answer
        "prog 1 1 1 - conde 2 1 loop 1 3 always eq v0 i2 eq v0 i3 1 eq v0 i1",
        "prog 3 3 5 - call append 3 v0 v1 v2",
        "prog 2 2 0 - infd v0 I 0 3 infd v1 I 0 3 ltfd v0 v1",
        // D21 (known finding): finite-domain propagation under a disjunction — the answers come in a hash-order
        // dependent ORDER (found by the thorough tier of C04 as a model/implementation sequence difference)
        "prog 3 3 0 - infd v2 V 5 0 -4 -1 0 3 plusfd v2 v1 v0 infd v0 I -3 2 infd v1 I 0 3 conde 2 2 plusfd v0 v0 v2 ltefd v1 v1 1 timesfd v1 v1 v1",
        // D21 without an explicit disjunction: two answer orders over 12 fresh processes (6/6); the labelling of v0 and v1 is
        // the choice point (found by the thorough tier of C16 as a model/implementation sequence difference)
        "prog 4 2 0 - infd v3 V 5 1 -4 4 -1 -1 infd v2 I -4 4 infd v0 I -3 1 distinctfd cons v2 cons v0 cons v1 cons i2 nil infd v1 I -1 4 plusfd v0 v1 v2 distinctfd cons v3 cons i-1 nil",
        // one unification binding two domain variables: the result must not depend on which binding the hash order puts first (C09-k)
        "prog 3 3 0 - infd v0 I 0 5 infd v1 V 3 1 2 3 infd v2 V 3 2 3 4 eq cons v1 cons v2 nil cons v0 cons v0 nil",
        "prog 3 1 0 - infd v1 V 3 1 2 3 infd v2 V 3 1 2 3 eq cons v1 cons v2 nil cons i5 cons i2 nil eq v0 cons v1 cons v2 nil",
        // labelling through a compound query term, domains only: the order is the field order (C09-e)
        "prog 3 1 0 - eq v0 comp0 cons v1 cons v2 nil infd v1 I 0 1 infd v2 I 0 1",
        "prog 4 1 0 - eq v0 comp1 cons v1 cons v2 cons v3 nil infd v1 I 0 2 infd v2 I 5 6 infd v3 I -1 0",
        // a simplified disequality subsumes a stored one in the middle of a pass; a third one is violated (C09-b)
        "prog 6 6 0 - neq cons v0 cons v1 nil cons i7 cons i2 nil neq cons v1 cons v2 nil cons i2 cons i3 nil neq v3 v4 eq cons v3 cons v0 nil cons v4 cons i7 nil",
    ]
}

pub fn run(seed: u64, thorough: bool, out: &mut Out) {
    for l in corpus() {
        out.stat("corpus");
        replay(l, out);
    }
    // (e) PRODUCTIVE NEXT TO A FRUITLESS INFINITE SIBLING (both tiers): `conde { STARVER, ANSWERS }` (either clause order), where
    // STARVER searches forever without an answer — a `loop`/anyo whose body is an infinite generator followed by a test nothing
    // passes, or `never`, or `always` followed by a failing test — and ANSWERS has `k` known answers.  `take(k)` must return
    // them within the step budget: the search yields `k` answers after finitely many steps.  (Seeded change C09-m: `Anyo::solve`
    // probed its body with a blocking `peek`, so a body that diverges without an answer starved its siblings.)
    {
        let mut r = Rng::new(seed, 909, 0);
        for _ in 0..(if thorough { 200 } else { 24 }) {
            let k = 1 + r.below(3);
            let answers: Vec<Vec<PG>> = (0..k).map(|i| vec![PG::Eq(T::Var(0), T::Num(10 + i as isize))]).collect();
            let contradiction = |r: &mut Rng| -> Vec<PG> {
                match r.below(3) {
                    0 => vec![PG::Eq(T::Var(0), T::Num(2)), PG::Eq(T::Var(0), T::Num(3))],
                    1 => vec![PG::Eq(T::Var(1), T::Num(1)), PG::Neq(T::Var(1), T::Num(1))],
                    _ => vec![PG::Fail],
                }
            };
            let starver = match r.below(4) {
                0 => {
                    let mut b = vec![PG::Always];
                    b.extend(contradiction(&mut r));
                    PG::Loop(vec![b])
                }
                1 => {
                    let mut b = vec![PG::Always];
                    b.extend(contradiction(&mut r));
                    PG::Conj(b)
                }
                2 => PG::Loop(vec![vec![PG::Call("append".into(), vec![T::Var(1), T::Var(2), T::Var(3)]), PG::Eq(T::Var(3), T::Num(7))]]),
                _ => PG::Never,
            };
            let mut clauses: Vec<Vec<PG>> = vec![vec![PG::Conde(answers)]];
            let pos = r.below(2);
            clauses.insert(pos, vec![starver]);
            let p = Prog { nvars: 4, nq: 1, take: k, body: vec![PG::Conde(clauses)], raw: false };
            out.stat("fruitless_sibling_scenarios");
            let (line, mut fail, nt, fuel) = eval(&p, false);
            if fail.is_none() && (line.contains("BUDGET") || line.split(" || ").count() != k) {
                fail = Some(format!("take({}) next to a fruitless infinite sibling did not return the {} answers within the step budget: {}", k, k, line));
            }
            out.push(p.line_f(fuel), line, fail, nt);
        }
    }
    let n = if thorough { 3000 } else { 300 };
    for i in 0..n {
        let mut r = Rng::new(seed, 9, i);
        match r.below(4) {
            3 => {
                // one run_constraints pass over several disequalities, one multi-binding unification, nothing after
                out.stat("tree_store_pass");
                record(&TreeGen::store_pass(&mut r), true, out);
            }
            0 => {
                // tree programs with several disequalities (store iteration order matters most here)
                let g = TreeGen { nq: 1 + r.below(2), nh: r.below(3), compounds: r.chance(1, 3), max_atoms: 6, conde: r.chance(1, 2) };
                out.stat("tree");
                record(&g.prog(&mut r), true, out);
            }
            1 => {
                let g = SearchGen { nq: 1 + r.below(2), nh: r.below(2), dfs_safe: true, committed: false, calls: true };
                let mut body: Vec<PG> = (0..1 + r.below(2)).map(|_| g.goal(&mut r, 2)).collect();
                let mut take = 0;
                if r.chance(1, 2) {
                    take = 2 + r.below(8);
                    let inf = match r.below(3) {
                        0 => PG::Loop(vec![vec![g.goal(&mut r, 1)]]),
                        1 => PG::Call("append".into(), vec![T::Var(0), T::Var(r.below(g.nq + g.nh)), T::Var(r.below(g.nq + g.nh))]),
                        _ => PG::Conde(vec![vec![PG::Always, g.goal(&mut r, 1)], vec![g.goal(&mut r, 1)]]),
                    };
                    let pos = r.below(body.len() + 1);
                    body.insert(pos, inf);
                    out.stat("search_infinite");
                } else {
                    out.stat("search_finite");
                }
                record(&Prog { nvars: g.nq + g.nh, nq: g.nq, take, body, raw: false }, take == 0, out);
            }
            _ => {
                if r.chance(1, 4) {
                    // labelling alone (domains, at most one propagator) through a structured query term: the answer order is
                    // a function of the program here (seeded change C09-e: compound fields collected into a HashSet)
                    out.stat("fd_labelling_structured");
                    let nv = 2 + r.below(3);
                    let vs: Vec<T> = (1..=nv).map(T::Var).collect();
                    let s = match r.below(4) {
                        // the pair type has two fields, P3 three
                        0 => T::Comp(0, vec![vs[0].clone(), if nv == 2 { vs[1].clone() } else { T::list(vs[1..].to_vec()) }]),
                        1 => T::Comp(0, vec![T::list(vs[1..].to_vec()), vs[0].clone()]),
                        2 if nv >= 3 => T::Comp(1, vec![vs[0].clone(), vs[1].clone(), if nv == 3 { vs[2].clone() } else { T::list(vs[2..].to_vec()) }]),
                        2 => T::list(vec![T::Comp(0, vs[..2].to_vec())]),
                        _ => T::list(vec![T::Comp(0, vs[..2].to_vec()), T::list(vs[2..].to_vec())]),
                    };
                    let mut body = vec![PG::Eq(T::Var(0), s)];
                    let g = crate::fdgen::FdGen { nv, lo: -2, hi: 3, signs: true };
                    for v in &vs {
                        body.push(PG::InFd(v.clone(), g.domain(&mut r)));
                    }
                    if r.chance(1, 2) {
                        let a = vs[r.below(nv)].clone();
                        let b = vs[r.below(nv)].clone();
                        body.push(if r.chance(1, 2) { PG::LteFd(a, b) } else { PG::DiseqFd(a, b) });
                    }
                    record(&Prog { nvars: nv + 1, nq: 1, take: 0, body, raw: false }, true, out);
                } else {
                    out.stat("fd");
                    record(&c16::gen_prog(&mut r), true, out);
                }
            }
        }
    }
}
