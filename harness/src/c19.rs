//! C19 — CLP(Z) plusz/timesz constrain integers exactly.
//!
//! Programs: 1-3 constraints over <= 4 variables and small integers (zero, negative, non-divisible
//! products), operand aliasing, chains, and equalities that ground the operands, in EVERY posting order
//! of one random multiset of goals (all permutations when <= 4 goals).
//! Oracle: integer arithmetic.  When every variable ends up bound the answers must be exactly the integer
//! solutions; a program that leaves variables unbound must not have failed if a solution exists, and its
//! bound part must be consistent.
use crate::fdgen::{fd_sat, window};
use crate::out::Out;
use crate::prog::*;
use crate::rng::Rng;
use crate::term::T;
use crate::tree::perms;

/// all integer assignments over a window wide enough to contain every forced value
fn solutions(p: &Prog) -> Option<Vec<Vec<isize>>> {
    let (lo, hi) = window(&p.body);
    let m = lo.abs().max(hi.abs()).max(1);
    let (lo, hi) = (-(m * m + m), m * m + m);
    let width = (hi - lo + 1) as usize;
    let total = width.pow(p.nvars as u32);
    if total > 3_000_000 {
        return None; // too wide to enumerate: only the per-constraint checks apply
    }
    let mut res = vec![];
    for code in 0..total {
        let mut k = code;
        let a: Vec<isize> = (0..p.nvars)
            .map(|_| {
                let v = lo + (k % width) as isize;
                k /= width;
                v
            })
            .collect();
        if p.body.iter().all(|g| fd_sat(&a, g) == Some(true)) {
            res.push(a);
        }
    }
    Some(res)
}

fn a_ref(a: &Ans) -> &Ans {
    a
}
fn a_show(a: &Ans) -> String {
    a.show("")
}

pub fn eval(p: &Prog, sols: &Option<Vec<Vec<isize>>>) -> (String, Option<String>, bool, u64) {
    let out = run_prog(p);
    let fuel = model_fuel(&out);
    let line = show_run(&out, false);
    let answers = match &out {
        RunOut::Answers(a, _) => a,
        RunOut::Budget(_) => return (line, Some("CLP(Z) program exhausted the step budget".into()), true, fuel),
        RunOut::Panic(s) => return (line, Some(format!("the goal panicked at {}", s)), true, fuel),
    };
    let empty = vec![];
    let known = sols.is_some();
    let sols = sols.as_ref().unwrap_or(&empty);
    let mut fail = None;
    if answers.len() > 1 {
        fail = Some(format!("{} answers from a conjunction of deterministic constraints", answers.len()));
    } else if let Some(a) = answers.first() {
        // every bound query variable must agree with some integer solution that extends the bound part
        let bound: Vec<Option<isize>> = a.terms.iter().map(|t| if let T::Num(n) = t { Some(*n) } else { None }).collect();
        if a.terms.iter().any(|t| !matches!(t, T::Num(_) | T::Any(_) | T::Var(_))) {
            fail = Some(format!("answer `{}` binds an operand to a non-integer", a.show("")));
        } else {
            // per constraint, under the answer's bindings: three ground operands must satisfy the equation;
            // exactly two ground operands are impossible (the third must have been bound) unless every
            // integer works (`0 * r = 0`); fewer than two: nothing is claimed
            let val = |t: &T| -> Option<isize> {
                match t {
                    T::Num(n) => Some(*n),
                    T::Var(k) => bound[*k],
                    _ => None,
                }
            };
            for g in &p.body {
                let (plus, u, v, w) = match g {
                    PG::PlusZ(u, v, w) => (true, u, v, w),
                    PG::TimesZ(u, v, w) => (false, u, v, w),
                    PG::Eq(l, r) => {
                        // an equality holds in the answer: both sides are the same term under the answer's bindings
                        // (aliased operands: a value given to one of them is the value of the other)
                        let inst = |t: &T| t.subst(&|x| match x {
                            T::Var(k) => Some(a.terms[*k].clone()),
                            _ => None,
                        });
                        if inst(l) != inst(r) {
                            fail = Some(format!("the answer `{}` does not satisfy the equality {:?}", a.show(""), g));
                            break;
                        }
                        continue;
                    }
                    _ => continue,
                };
                let (a, b, c) = (val(u), val(v), val(w));
                match (a, b, c) {
                    (Some(a), Some(b), Some(c)) => {
                        if (plus && a + b != c) || (!plus && a * b != c) {
                            fail = Some(format!("the answer `{}` violates {:?}", a_show(a_ref(&answers[0])), g));
                        }
                    }
                    (Some(x), None, Some(c)) | (None, Some(x), Some(c)) => {
                        if plus || !(x == 0 && c == 0) {
                            fail = Some(format!("{:?} has two ground operands in the answer but its third operand is unbound", g));
                        }
                    }
                    (Some(_), Some(_), None) => {
                        fail = Some(format!("{:?} has two ground operands in the answer but its result is unbound", g));
                    }
                    _ => {}
                }
                if fail.is_some() {
                    break;
                }
            }
        }
    } else if known && !sols.is_empty() {
        fail = Some(format!("the goal failed although the equations have an integer solution, e.g. {:?}", sols[0]));
    }
    (line, fail, !sols.is_empty() || answers.is_empty(), fuel)
}

fn record(p: &Prog, sols: &Option<Vec<Vec<isize>>>, out: &mut Out) {
    let (line, fail, nt, fuel) = eval(p, sols);
    if line == "none" {
        out.stat("no_answer");
    } else if line.contains('a') {
        out.stat("answer_with_unbound_operands");
    } else {
        out.stat("ground_answer");
    }
    out.push(p.line_f(fuel), line, fail, nt);
    // STATE-LEVEL correspondence (see c16.rs): substitution, domain store and constraint store of every state the
    // body goal delivers, against the model's state
    let d = Prog { nq: p.nvars, raw: true, take: 0, ..p.clone() };
    let dump = run_raw_dump(&d, 3_000_000);
    let t = last_ticks();
    let fuel = if dump.ends_with("BUDGET") { 1500 } else { 4 * t + 200 };
    out.stat("state_dumps");
    if dump.contains("C[") && !dump.contains("C[]") {
        out.stat("state_dumps_with_pending_constraints");
    }
    out.push(d.line_f(fuel).replacen(" raw", " rst", 1), dump, None, true);
}

pub fn replay(line: &str, out: &mut Out) {
    let p = Prog::parse(line);
    if line.split_whitespace().nth(4).map(|f| f.starts_with("rst")).unwrap_or(false) {
        let dump = run_raw_dump(&p, 3_000_000);
        let t = last_ticks();
        let fuel = if dump.ends_with("BUDGET") { 1500 } else { 4 * t + 200 };
        out.push(p.line_f(fuel).replacen(" raw", " rst", 1), dump, None, true);
        return;
    }
    let sols = solutions(&p);
    record(&p, &sols, out);
}

fn corpus() -> Vec<&'static str> {
    vec![
        "prog 1 1 0 - plusz i1 i2 i3",                                   // D4
        "prog 3 3 0 - plusz v0 v1 v2",                                   // D5
        "prog 3 3 0 - timesz v0 v1 v2 eq v0 i2 eq v1 i3",                // D5 + delayed check
        "prog 1 1 0 - timesz i2 v0 i5",                                  // D6: no integer solution
        "prog 1 1 0 - timesz i0 v0 i0",                                  // D6: every integer works
        "prog 1 1 0 - timesz i0 v0 i3",
        "prog 1 1 0 - timesz i2 v0 i-7",
        "prog 1 1 0 - timesz v0 i-2 i6",
        "prog 2 2 0 - plusz v0 v0 v1 eq v1 i6",
        "prog 2 2 0 - plusz v0 v0 v1 eq v0 i3",
        "prog 4 4 0 - plusz v0 v1 v3 plusz v3 v2 i9 eq v0 i1 eq v1 i2",
        "prog 3 3 0 - eq v2 i7 eq v0 i2 eq v1 i3 timesz v0 v1 v2",
        // the result operand is aliased to another unbound variable when the constraint fires (seeded change C19-b)
        "prog 2 2 0 - eq v0 v1 plusz i1 i2 v0",
        "prog 3 3 0 - plusz v0 i2 v1 eq v1 v2 eq v0 i1",
        "prog 2 2 0 - eq v1 v0 timesz i2 v0 i6",
    ]
}

/// every single `plusz` / `timesz` whose operands are a variable, 0, a positive or a negative number (the sign
/// and zero cases of the quotient arms: `timesz(q, 0, 5)`, `timesz(0, q, 5)`, …): run on EVERY quick run, here and in C23
pub fn edge_singles() -> Vec<Prog> {
    let mut v = vec![];
    for kind in 0..2 {
        for a in 0..4 {
            for b in 0..4 {
                for c in 0..4 {
                    let t = |x: usize, i: usize| match x {
                        0 => T::Var(i),
                        1 => T::Num(0),
                        2 => T::Num(5),
                        _ => T::Num(-3),
                    };
                    let g = if kind == 0 { PG::PlusZ(t(a, 0), t(b, 1), t(c, 2)) } else { PG::TimesZ(t(a, 0), t(b, 1), t(c, 2)) };
                    v.push(Prog { nvars: 3, nq: 3, take: 0, body: vec![g], raw: false });
                    // the same with the operands bound AFTER the constraint is posted
                    if a != 0 || b != 0 || c != 0 {
                        let g2 = if kind == 0 { PG::PlusZ(T::Var(0), T::Var(1), T::Var(2)) } else { PG::TimesZ(T::Var(0), T::Var(1), T::Var(2)) };
                        let mut body = vec![g2];
                        for (i, x) in [a, b, c].iter().enumerate() {
                            if *x != 0 {
                                body.push(PG::Eq(T::Var(i), t(*x, i)));
                            }
                        }
                        v.push(Prog { nvars: 3, nq: 3, take: 0, body, raw: false });
                    }
                }
            }
        }
    }
    v
}

fn all_orders(p: &Prog, r: &mut Rng, out: &mut Out) {
    let sols = solutions(p); // the same for every posting order
    for perm in perms(p.body.len(), 6, r) {
        let body: Vec<PG> = perm.iter().map(|i| p.body[*i].clone()).collect();
        out.stat("orders_run");
        record(&Prog { body, ..p.clone() }, &sols, out);
    }
}

pub fn run(seed: u64, thorough: bool, out: &mut Out) {
    for l in corpus() {
        out.stat("corpus");
        let p = Prog::parse(l);
        let mut r = Rng::new(seed, 19, 999_999);
        all_orders(&p, &mut r, out);
    }
    for p1 in edge_singles() {
        out.stat("edge_single");
        let sols = solutions(&p1);
        record(&p1, &sols, out);
    }
    let n = if thorough { 12000 } else { 500 };
    for i in 0..n {
        let mut r = Rng::new(seed, 19, i);
        let nv = 1 + r.below(3);
        let var = |r: &mut Rng| T::Var(r.below(nv));
        let num = |r: &mut Rng| T::Num(r.range(-5, 5) as isize);
        let op = |r: &mut Rng| if r.chance(2, 5) { num(r) } else { var(r) };
        let k = 1 + r.below(3);
        let mut body: Vec<PG> = (0..k)
            .map(|_| if r.chance(1, 2) { PG::PlusZ(op(&mut r), op(&mut r), op(&mut r)) } else { PG::TimesZ(op(&mut r), op(&mut r), op(&mut r)) })
            .collect();
        for _ in 0..r.below(4) {
            body.push(PG::Eq(var(&mut r), num(&mut r)));
        }
        // operands aliased to each other by unification (in either direction, before or after the constraints fire)
        if nv > 1 && r.chance(1, 3) {
            for _ in 0..1 + r.below(2) {
                body.push(PG::Eq(var(&mut r), var(&mut r)));
                out.stat("aliasing_equalities");
            }
        }
        let p = Prog { nvars: nv, nq: nv, take: 0, body, raw: false };
        out.stat("programs");
        all_orders(&p, &mut r, out);
    }
    if thorough {
        // exhaustive: single constraints over -3..=3 with every groundness pattern
        for kind in 0..2 {
            for a in -3isize..=4 {
                for b in -3isize..=4 {
                    for c in -3isize..=4 {
                        // 4 encodes "a variable" (distinct variables per position)
                        let t = |x: isize, i: usize| if x == 4 { T::Var(i) } else { T::Num(x) };
                        let g = if kind == 0 { PG::PlusZ(t(a, 0), t(b, 1), t(c, 2)) } else { PG::TimesZ(t(a, 0), t(b, 1), t(c, 2)) };
                        out.stat("exhaustive_single");
                        let p1 = Prog { nvars: 3, nq: 3, take: 0, body: vec![g], raw: false };
                        let sols = solutions(&p1);
                        record(&p1, &sols, out);
                    }
                }
            }
        }
        out.exhaustive = true;
        out.notes.push("thorough: every single plusz/timesz with each operand in -3..=3 or a variable".into());
    }
}
