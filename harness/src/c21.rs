//! C21 — LTerm equality, hashing and list operations are consistent.  Direct calls of the public API.
//! Oracle: `Vec`-based definitions and a structural equality written here, independent of the model.
use crate::out::Out;
use crate::rng::Rng;
use crate::term::*;
use std::collections::hash_map::DefaultHasher;
use std::hash::{Hash, Hasher};

fn hash_of(t: &LT) -> u64 {
    let mut h = DefaultHasher::new();
    t.hash(&mut h);
    h.finish()
}

fn b01(b: bool) -> &'static str {
    if b {
        "1"
    } else {
        "0"
    }
}

/// the items `iter()` must yield according to the element sequence of the AST
fn items(t: &T) -> Vec<T> {
    match t {
        T::Nil => vec![],
        T::Cons(_, _) => {
            let (mut es, tl) = t.elems();
            if tl != T::Nil {
                es.push(tl);
            }
            es
        }
        other => vec![other.clone()],
    }
}

/// reference Display for values, variables named `x`, lists
fn disp(t: &T) -> String {
    match t {
        T::Num(n) => n.to_string(),
        T::Bool(b) => b.to_string(),
        T::Chr(c) => format!("'{}'", std::char::from_u32(*c).unwrap()),
        T::Var(_) => "x".into(),
        T::Nil => "[]".into(),
        T::Cons(_, _) => {
            let (es, tl) = t.elems();
            let body: Vec<String> = es.iter().map(disp).collect();
            if tl == T::Nil {
                format!("[{}]", body.join(", "))
            } else {
                format!("[{} | {}]", body.join(", "), disp(&tl))
            }
        }
        _ => "?".into(),
    }
}

/// one operation: returns (case line, implementation observable, oracle failure)
fn run_op(op: &str, ts: &[T], idx: usize, vars: &mut Vars) -> (String, String, Option<String>) {
    let toks = |v: &[T]| v.iter().map(|t| t.text()).collect::<Vec<_>>().join(" ");
    let rd = |vars: &Vars, t: &LT| Reader::new(vars).read(t);
    match op {
        "eq" => {
            let (a, b) = (vars.build(&ts[0]), vars.build(&ts[1]));
            let r = crate::catch(|| (a == b, b == a, a == a, hash_of(&a) == hash_of(&b)));
            let line = format!("lt eq {}", toks(&ts[..2]));
            match r {
                Ok((e, e2, refl, he)) => {
                    let mut fail = None;
                    if e != (ts[0] == ts[1]) {
                        fail = Some(format!("== is {} but the terms are structurally {}", e, if ts[0] == ts[1] { "equal" } else { "different" }));
                    } else if e != e2 {
                        fail = Some("== is not symmetric".into());
                    } else if !refl {
                        fail = Some("== is not reflexive".into());
                    } else if e && !he {
                        fail = Some("equal terms hash differently".into());
                    }
                    (line, format!("{} {}", b01(e), b01(he)), fail)
                }
                Err(s) => (line, format!("PANIC {}", s), Some("comparison panicked".into())),
            }
        }
        "fromvec" => {
            let v: Vec<LT> = ts.iter().map(|t| vars.build(t)).collect();
            let a = LT::from_vec(v.clone());
            let b = LT::from_array(&v);
            let c: LT = v.iter().cloned().collect();
            let got = rd(vars, &a);
            let mut fail = None;
            if got != T::list(ts.to_vec()) {
                fail = Some("from_vec does not build the list of its elements".into());
            } else if a != b || a != c {
                fail = Some("from_vec, from_array and collect disagree".into());
            }
            (format!("lt fromvec {} {}", ts.len(), toks(ts)), got.text(), fail)
        }
        "improper" => {
            let v: Vec<LT> = ts.iter().map(|t| vars.build(t)).collect();
            let line = format!("lt improper {} {}", ts.len(), toks(ts));
            match crate::catch(|| (LT::improper_from_vec(v.clone()), LT::improper_from_array(&v))) {
                Ok((a, b)) => {
                    let got = rd(vars, &a);
                    let want = T::improper(ts[..ts.len() - 1].to_vec(), ts[ts.len() - 1].clone());
                    let fail = if got != want {
                        Some("improper_from_vec does not build the elements followed by the tail".into())
                    } else if a != b {
                        Some("improper_from_vec and improper_from_array disagree".into())
                    } else {
                        None
                    };
                    (line, got.text(), fail)
                }
                Err(_) => (line, "PANIC".into(), if ts.is_empty() { None } else { Some("panicked on a non-empty vector".into()) }),
            }
        }
        "iter" => {
            let a = vars.build(&ts[0]);
            let got: Vec<T> = a.iter().map(|x| rd(vars, x)).collect();
            let want = items(&ts[0]);
            let fail = if got != want { Some(format!("iter yields {} items, the element sequence has {}", got.len(), want.len())) } else { None };
            let n2 = a.iter().count();
            let fail = fail.or(if n2 != got.len() { Some("iter().count() differs between two traversals".into()) } else { None });
            (format!("lt iter {}", toks(&ts[..1])), format!("{} : {}", got.len(), got.iter().map(|t| t.text()).collect::<Vec<_>>().join(" ; ")), fail)
        }
        "itermut" => {
            let mut a = vars.build(&ts[0]);
            let keep = a.clone();
            for (i, x) in a.iter_mut().enumerate() {
                *x = LT::from(100 + i as isize);
            }
            let got = rd(vars, &a);
            // reference: positional update of the item sequence
            let n = items(&ts[0]).len();
            let want = match &ts[0] {
                T::Nil => T::Nil,
                T::Cons(_, _) => {
                    let (es, tl) = ts[0].elems();
                    let new: Vec<T> = (0..es.len()).map(|i| T::Num(100 + i as isize)).collect();
                    if tl == T::Nil {
                        T::list(new)
                    } else {
                        T::improper(new, T::Num(100 + es.len() as isize))
                    }
                }
                _ => T::Num(100),
            };
            let mut fail = if got != want { Some(format!("iter_mut over {} items did not update them positionally", n)) } else { None };
            if rd(vars, &keep) != ts[0] {
                fail = Some("iter_mut modified a clone of the term (clone-on-write broken)".into());
            }
            (format!("lt itermut {}", toks(&ts[..1])), got.text(), fail)
        }
        "extend" => {
            let mut a = vars.build(&ts[0]);
            let ext: Vec<LT> = ts[1..].iter().map(|t| vars.build(t)).collect();
            let line = format!("lt extend {} {} {}", ts[0].text(), ts.len() - 1, toks(&ts[1..]));
            let (es, tl) = ts[0].elems();
            let proper = matches!(ts[0], T::Nil | T::Cons(_, _)) && tl == T::Nil;
            match crate::catch(move || {
                a.extend(ext);
                a
            }) {
                Ok(a) => {
                    let got = rd(vars, &a);
                    let mut all = es.clone();
                    all.extend(ts[1..].iter().cloned());
                    let fail = if !proper {
                        Some("extend of a term that is not a proper list did not panic".into())
                    } else if got != T::list(all) {
                        Some("extend does not append the elements".into())
                    } else {
                        None
                    };
                    (line, got.text(), fail)
                }
                Err(_) => (line, "PANIC".into(), if proper { Some("extend of a proper list panicked".into()) } else { None }),
            }
        }
        "index" => {
            let a = vars.build(&ts[0]);
            let line = format!("lt index {} {}", ts[0].text(), idx);
            let want = items(&ts[0]).get(idx).cloned();
            match crate::catch(|| a[idx].clone()) {
                Ok(x) => {
                    let got = rd(vars, &x);
                    let fail = if Some(&got) != want.as_ref() { Some("indexing returned the wrong element".into()) } else { None };
                    (line, got.text(), fail)
                }
                Err(_) => (line, "PANIC".into(), if want.is_some() { Some("indexing an existing position panicked".into()) } else { None }),
            }
        }
        "info" => {
            let a = vars.build(&ts[0]);
            let o = |x: Option<&LT>| x.map(|u| rd(vars, u).text()).unwrap_or("-".into());
            let (es, tl) = ts[0].elems();
            let is_list = matches!(ts[0], T::Nil | T::Cons(_, _));
            let improper = is_list && tl != T::Nil;
            let mut fail = None;
            if a.is_list() != is_list || a.is_empty() != (ts[0] == T::Nil) || a.is_improper() != improper {
                fail = Some("is_list / is_empty / is_improper disagree with the spine of the term".into());
            }
            if let T::Cons(h, t) = &ts[0] {
                if a.head().map(|u| rd(vars, u)) != Some((**h).clone()) || a.tail().map(|u| rd(vars, u)) != Some((**t).clone()) {
                    fail = Some("head/tail are not the first element / the rest".into());
                }
            } else if a.head().is_some() || a.tail().is_some() {
                fail = Some("head/tail of a non-cons term".into());
            }
            let _ = es;
            (
                format!("lt info {}", ts[0].text()),
                format!("{} | {} | {} {} {}", o(a.head()), o(a.tail()), b01(a.is_list()), b01(a.is_empty()), b01(a.is_improper())),
                fail,
            )
        }
        "contains" => {
            let (a, x) = (vars.build(&ts[0]), vars.build(&ts[1]));
            let got = a.contains(&x);
            let want = items(&ts[0]).contains(&ts[1]);
            (format!("lt contains {}", toks(&ts[..2])), b01(got).into(), if got != want { Some("contains disagrees with membership in the element sequence".into()) } else { None })
        }
        _ => {
            let a = vars.build(&ts[0]);
            let got = format!("{}", a);
            let want = disp(&ts[0]);
            (format!("lt display {}", ts[0].text()), got.clone(), if got != want { Some(format!("Display gives `{}`, the element sequence reads `{}`", got, want)) } else { None })
        }
    }
}

fn record(op: &str, ts: &[T], idx: usize, out: &mut Out) {
    let mut vars = Vars::new(4);
    let pre = format!("lt {} {}", op, ts.iter().map(|t| t.text()).collect::<Vec<_>>().join(" "));
    crate::mark(&pre);
    let (line, imp, fail) = run_op(op, ts, idx, &mut vars);
    out.stat(&format!("op_{}", op));
    let nt = ts.iter().any(|t| t.depth() > 1);
    out.push(line, imp, fail, nt);
}

pub fn replay(line: &str, out: &mut Out) {
    let toks: Vec<&str> = line.split_whitespace().collect();
    let op = toks[1];
    let mut it = toks[2..].iter();
    let mut ts = vec![];
    let mut idx = 0;
    match op {
        "fromvec" | "improper" => {
            let n: usize = it.next().unwrap().parse().unwrap();
            for _ in 0..n {
                ts.push(T::parse(&mut it));
            }
        }
        "extend" => {
            ts.push(T::parse(&mut it));
            let n: usize = it.next().unwrap().parse().unwrap();
            for _ in 0..n {
                ts.push(T::parse(&mut it));
            }
        }
        "index" => {
            ts.push(T::parse(&mut it));
            idx = it.next().unwrap().parse().unwrap();
        }
        _ => {
            while it.len() > 0 {
                ts.push(T::parse(&mut it));
            }
        }
    }
    record(op, &ts, idx, out);
}

fn display_term(r: &mut Rng, depth: usize) -> T {
    // Display is specified for values, variables and lists (compounds print their Debug form)
    if depth == 0 || r.chance(1, 3) {
        return match r.below(6) {
            0 => T::Var(r.below(3)),
            1 => T::Bool(r.chance(1, 2)),
            2 => T::Chr(97 + r.below(3) as u32),
            3 => T::Nil,
            _ => T::Num(r.range(-3, 9) as isize),
        };
    }
    let n = 1 + r.below(3);
    let es: Vec<T> = (0..n).map(|_| display_term(r, depth - 1)).collect();
    if r.chance(1, 3) {
        let tl = match r.below(3) {
            0 => T::Var(r.below(3)),
            1 => T::Num(r.range(0, 5) as isize),
            _ => T::Bool(true),
        };
        T::improper(es, tl)
    } else {
        T::list(es)
    }
}

pub fn run(seed: u64, thorough: bool, out: &mut Out) {
    let corpus = [
        "lt eq cons v0 cons i1 nil cons v0 cons i1 nil",
        "lt eq cons i1 cons i2 nil cons i1 i2",
        "lt eq comp0 cons i1 cons i2 nil comp2 cons i1 cons i2 nil",
        "lt eq i1 b1",
        "lt iter cons i1 cons cons i2 nil v0",
        "lt iter i5",
        "lt extend cons i1 v0 1 i2",
        "lt extend nil 2 i1 cons i2 nil",
        "lt index cons i1 cons i2 i3 2",
        "lt index cons i1 nil 1",
        "lt info cons i1 cons i2 v1",
        "lt display cons i1 cons cons i2 cons b1 nil v0",
        "lt itermut cons i1 cons i2 v0",
        "lt improper 1 i1",
        "lt contains cons i1 cons cons i2 nil i3 i3",
    ];
    for l in corpus.iter() {
        out.stat("corpus");
        replay(l, out);
    }
    let n = if thorough { 60000 } else { 6000 };
    let g = TermGen { nvars: 4, max_depth: 4, compounds: true, all_literals: true };
    for i in 0..n {
        let mut r = Rng::new(seed, 21, i);
        let depth = 1 + r.below(4);
        let t = g.term(&mut r, depth);
        match r.below(10) {
            0 | 1 | 2 => {
                // pairs: half of them structurally equal copies / near variants
                let u = if r.chance(1, 2) { t.clone() } else { g.variant(&mut r, &t, depth) };
                record("eq", &[t, u], 0, out);
            }
            3 => {
                let k = r.below(5);
                let v: Vec<T> = (0..k).map(|_| g.term(&mut r, 2)).collect();
                record(if r.chance(1, 2) { "fromvec" } else { "improper" }, &v, 0, out);
            }
            4 => record("iter", &[t], 0, out),
            5 => record("itermut", &[t], 0, out),
            6 => {
                let k = r.below(3);
                let mut v = vec![t];
                for _ in 0..k {
                    v.push(g.term(&mut r, 1));
                }
                record("extend", &v, 0, out);
            }
            7 => {
                let i = r.below(5);
                record("index", &[t], i, out);
            }
            8 => {
                if r.chance(1, 2) {
                    record("info", &[t], 0, out);
                } else {
                    let its = items(&t);
                    let x = if !its.is_empty() && r.chance(1, 2) { r.pick(&its).clone() } else { g.term(&mut r, 1) };
                    record("contains", &[t, x], 0, out);
                }
            }
            _ => {
                let d = display_term(&mut r, 3);
                record("display", &[d], 0, out);
            }
        }
    }
    if thorough {
        // exhaustive: all pairs of terms of depth <= 2 over a 6-symbol alphabet for == / hash
        let atoms = vec![T::Var(0), T::Var(1), T::Num(1), T::Bool(true), T::Nil, T::Chr(97)];
        let mut level1 = atoms.clone();
        for a in &atoms {
            for b in &atoms {
                level1.push(T::cons(a.clone(), b.clone()));
            }
            level1.push(T::Comp(0, vec![a.clone(), T::Num(1)]));
            level1.push(T::Comp(2, vec![a.clone(), T::Num(1)]));
        }
        for a in &level1 {
            for b in &level1 {
                record("eq", &[a.clone(), b.clone()], 0, out);
            }
        }
        out.exhaustive = true;
        out.notes.push("thorough: all ordered pairs of 54 terms of depth <= 1 over {x0, x1, 1, true, [], 'a'} incl. two compound types for == / hash".into());
    }
}
