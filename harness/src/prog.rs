//! Program AST shared by all search/constraint generators: token syntax (`prog …` lines), building
//! the REAL goals through the public runtime API the macros expand to, running queries and
//! canonicalising the answers exactly as the Lean driver prints them.
use crate::term::*;
use proto_vulcan::goal::{AnyGoal, DFSGoal, Goal, GoalCast};
use proto_vulcan::lresult::LResult;
use proto_vulcan::lterm::LTermInner;
use proto_vulcan::operator::conde::Conde;
use proto_vulcan::operator::conj::InferredConj;
use proto_vulcan::operator::disj::{DFSDisj, Disj};
use proto_vulcan::operator::fresh::Fresh;
use proto_vulcan::operator::OperatorParam;
use proto_vulcan::prelude::*;
use proto_vulcan::query::{Query, QueryResult};
use proto_vulcan::relation as rel;
use proto_vulcan::relation::diseq::DisequalityConstraint;
use proto_vulcan::state::FiniteDomain;

/// `fn spin() { proto_vulcan_closure!(spin()) }`
pub fn spin_goal() -> Goal<DU, DE> {
    proto_vulcan_closure!(spin_goal())
}

/// the same with the recursion under a fresh variable
pub fn spin_fresh_goal() -> Goal<DU, DE> {
    proto_vulcan_closure!(|x| { spin_fresh_goal() })
}



#[derive(Clone, Debug, PartialEq)]
pub enum D {
    I(isize, isize),
    V(Vec<isize>),
}
impl D {
    pub fn text(&self) -> String {
        match self {
            D::I(a, b) => format!("I {} {}", a, b),
            D::V(v) => format!("V {} {}", v.len(), v.iter().map(|x| x.to_string()).collect::<Vec<_>>().join(" ")),
        }
    }
    pub fn values(&self) -> Vec<isize> {
        match self {
            D::I(a, b) => (*a..=*b).collect(),
            D::V(v) => {
                let mut v = v.clone();
                v.sort();
                v.dedup();
                v
            }
        }
    }
}

#[derive(Clone, Debug, PartialEq)]
pub enum PG {
    Eq(T, T),
    Neq(T, T),
    Succ,
    Fail,
    Conj(Vec<PG>),
    Conde(Vec<Vec<PG>>),
    Disj(Vec<PG>),
    Fresh(Box<PG>),
    Conda(Vec<Vec<PG>>),
    Condu(Vec<Vec<PG>>),
    Onceo(Vec<PG>),
    /// `onceo { c1, c2, .. }` with several comma-separated entries: `Conj::from_conjunctions` over the clauses
    OnceoC(Vec<Vec<PG>>),
    Dfs(Vec<PG>),
    /// `dfs { c1, c2, .. }`: several comma-separated top-level clauses (`DFSConj::from_conjunctions`)
    DfsC(Vec<Vec<PG>>),
    Anyo(Box<PG>),
    /// `loop { c1, c2, ... }`: the clauses (each a conjunction) are conjoined and tried unboundedly often
    Loop(Vec<Vec<PG>>),
    Always,
    Never,
    Call(String, Vec<T>),
    ConsR(T, T, T),
    EmptyR(T),
    /// `first(list, first)` / `rest(list, rest)`
    FirstR(T, T),
    RestR(T, T),
    InFd(T, D),
    PlusFd(T, T, T),
    MinusFd(T, T, T),
    TimesFd(T, T, T),
    LteFd(T, T),
    LtFd(T, T),
    DiseqFd(T, T),
    DistinctFd(T),
    PlusZ(T, T, T),
    TimesZ(T, T, T),
    /// `project |x..| { body }`: inside the body `T::Var(900 + i)` stands for the i-th projected variable
    Project(Vec<usize>, Vec<PG>),
    /// non-relational test used inside project bodies: succeeds iff the term IS a number right now (no walk)
    IsNum(T),
    /// … succeeds iff the term contains no variable right now (syntactically, no walk)
    IsGround(T),
    /// `closure { g, .. }`: the body is built when the goal is solved
    Closure(Vec<PG>),
    /// a goal that succeeds once and records the user state / constraint store it sees (C22)
    Probe,
}

/// SHRINKING: strictly smaller variants of a goal list — one goal dropped, a compound goal replaced by one of its
/// parts, or the same done one level down.  (The check keeps a variant iff the property still fails on it.)
pub fn shrink_goals(gs: &[PG]) -> Vec<Vec<PG>> {
    let mut out: Vec<Vec<PG>> = vec![];
    for i in 0..gs.len() {
        // drop goal i
        let mut v = gs.to_vec();
        v.remove(i);
        out.push(v);
    }
    for i in 0..gs.len() {
        // replace goal i by a smaller goal
        for g in shrink_goal(&gs[i]) {
            let mut v = gs.to_vec();
            v.splice(i..=i, g);
            out.push(v);
        }
    }
    out
}

/// smaller replacements of one goal (each a list of goals that takes its place)
fn shrink_goal(g: &PG) -> Vec<Vec<PG>> {
    let clauses = |cs: &Vec<Vec<PG>>, mk: &dyn Fn(Vec<Vec<PG>>) -> PG| -> Vec<Vec<PG>> {
        let mut out: Vec<Vec<PG>> = vec![];
        // one clause alone, inlined
        for c in cs {
            out.push(c.clone());
        }
        // one clause dropped
        if cs.len() > 1 {
            for i in 0..cs.len() {
                let mut v = cs.clone();
                v.remove(i);
                out.push(vec![mk(v)]);
            }
        }
        // one clause shrunk
        for i in 0..cs.len() {
            for c2 in shrink_goals(&cs[i]) {
                let mut v = cs.clone();
                v[i] = c2;
                out.push(vec![mk(v)]);
            }
        }
        out
    };
    let list = |gs: &Vec<PG>, mk: &dyn Fn(Vec<PG>) -> PG| -> Vec<Vec<PG>> {
        let mut out: Vec<Vec<PG>> = vec![gs.clone()];
        for g2 in shrink_goals(gs) {
            out.push(vec![mk(g2)]);
        }
        out
    };
    match g {
        PG::Conj(gs) => list(gs, &|v| PG::Conj(v)),
        PG::Disj(gs) => list(gs, &|v| PG::Disj(v)),
        PG::Dfs(gs) => list(gs, &|v| PG::Dfs(v)),
        PG::Onceo(gs) => list(gs, &|v| PG::Onceo(v)),
        PG::OnceoC(cs) => clauses(cs, &|v| PG::OnceoC(v)),
        PG::Closure(gs) => list(gs, &|v| PG::Closure(v)),
        PG::Project(xs, gs) => {
            let xs = xs.clone();
            shrink_goals(gs).into_iter().map(|v| vec![PG::Project(xs.clone(), v)]).collect()
        }
        PG::Fresh(b) => {
            let mut out = vec![vec![(**b).clone()]];
            for g2 in shrink_goal(b) {
                out.push(vec![PG::Fresh(Box::new(PG::Conj(g2)))]);
            }
            out
        }
        PG::Anyo(b) => vec![vec![(**b).clone()]],
        PG::Conde(cs) => clauses(cs, &|v| PG::Conde(v)),
        PG::Conda(cs) => clauses(cs, &|v| PG::Conda(v)),
        PG::Condu(cs) => clauses(cs, &|v| PG::Condu(v)),
        PG::Loop(cs) => clauses(cs, &|v| PG::Loop(v)),
        PG::DfsC(cs) => clauses(cs, &|v| PG::DfsC(v)),
        _ => vec![],
    }
}

fn toks_goals(gs: &[PG], out: &mut String) {
    out.push_str(&format!("{} ", gs.len()));
    for g in gs {
        g.toks(out);
    }
}
fn toks_clauses(cs: &[Vec<PG>], out: &mut String) {
    out.push_str(&format!("{} ", cs.len()));
    for c in cs {
        toks_goals(c, out);
    }
}

impl PG {
    pub fn toks(&self, out: &mut String) {
        let t3 = |name: &str, a: &T, b: &T, c: &T, out: &mut String| {
            out.push_str(name);
            out.push(' ');
            a.toks(out);
            b.toks(out);
            c.toks(out);
        };
        let t2 = |name: &str, a: &T, b: &T, out: &mut String| {
            out.push_str(name);
            out.push(' ');
            a.toks(out);
            b.toks(out);
        };
        match self {
            PG::Eq(a, b) => t2("eq", a, b, out),
            PG::Neq(a, b) => t2("neq", a, b, out),
            PG::Succ => out.push_str("succ "),
            PG::Fail => out.push_str("fail "),
            PG::Conj(gs) => {
                out.push_str("conj ");
                toks_goals(gs, out)
            }
            PG::Disj(gs) => {
                out.push_str("disj ");
                toks_goals(gs, out)
            }
            PG::Conde(cs) => {
                out.push_str("conde ");
                toks_clauses(cs, out)
            }
            PG::Conda(cs) => {
                out.push_str("conda ");
                toks_clauses(cs, out)
            }
            PG::Condu(cs) => {
                out.push_str("condu ");
                toks_clauses(cs, out)
            }
            PG::Onceo(gs) => {
                out.push_str("onceo ");
                toks_goals(gs, out)
            }
            PG::OnceoC(cs) => {
                out.push_str("onceoc ");
                toks_clauses(cs, out)
            }
            PG::Dfs(gs) => {
                out.push_str("dfs ");
                toks_goals(gs, out)
            }
            PG::Fresh(g) => {
                out.push_str("fresh ");
                g.toks(out)
            }
            PG::Anyo(g) => {
                out.push_str("anyo ");
                g.toks(out)
            }
            PG::Loop(cs) => {
                out.push_str("loop ");
                toks_clauses(cs, out)
            }
            PG::DfsC(cs) => {
                out.push_str("dfsc ");
                toks_clauses(cs, out)
            }
            PG::Always => out.push_str("always "),
            PG::Never => out.push_str("never "),
            PG::Call(r, args) => {
                out.push_str(&format!("call {} {} ", r, args.len()));
                for a in args {
                    a.toks(out);
                }
            }
            PG::ConsR(a, b, c) => t3("consr", a, b, c, out),
            PG::EmptyR(a) => {
                out.push_str("emptyr ");
                a.toks(out)
            }
            PG::FirstR(a, b) => t2("firstr", a, b, out),
            PG::RestR(a, b) => t2("restr", a, b, out),
            PG::InFd(x, d) => {
                out.push_str("infd ");
                x.toks(out);
                out.push_str(&d.text());
                out.push(' ');
            }
            PG::PlusFd(a, b, c) => t3("plusfd", a, b, c, out),
            PG::MinusFd(a, b, c) => t3("minusfd", a, b, c, out),
            PG::TimesFd(a, b, c) => t3("timesfd", a, b, c, out),
            PG::LteFd(a, b) => t2("ltefd", a, b, out),
            PG::LtFd(a, b) => t2("ltfd", a, b, out),
            PG::DiseqFd(a, b) => t2("diseqfd", a, b, out),
            PG::DistinctFd(a) => {
                out.push_str("distinctfd ");
                a.toks(out)
            }
            PG::PlusZ(a, b, c) => t3("plusz", a, b, c, out),
            PG::Probe => out.push_str("probe "),
            PG::Project(vs, gs) => {
                out.push_str(&format!("project {} ", vs.len()));
                for v in vs {
                    out.push_str(&format!("{} ", v));
                }
                toks_goals(gs, out)
            }
            PG::IsNum(a) => {
                out.push_str("isnum ");
                a.toks(out)
            }
            PG::IsGround(a) => {
                out.push_str("isground ");
                a.toks(out)
            }
            PG::Closure(gs) => {
                out.push_str("closure ");
                toks_goals(gs, out)
            }
            PG::TimesZ(a, b, c) => t3("timesz", a, b, c, out),
        }
    }

    pub fn parse(t: &mut std::slice::Iter<&str>) -> PG {
        fn goals(t: &mut std::slice::Iter<&str>) -> Vec<PG> {
            let n: usize = t.next().unwrap().parse().unwrap();
            (0..n).map(|_| PG::parse(t)).collect()
        }
        fn clauses(t: &mut std::slice::Iter<&str>) -> Vec<Vec<PG>> {
            let n: usize = t.next().unwrap().parse().unwrap();
            (0..n).map(|_| goals(t)).collect()
        }
        fn dom(t: &mut std::slice::Iter<&str>) -> D {
            match *t.next().unwrap() {
                "I" => {
                    let a = t.next().unwrap().parse().unwrap();
                    let b = t.next().unwrap().parse().unwrap();
                    D::I(a, b)
                }
                _ => {
                    let n: usize = t.next().unwrap().parse().unwrap();
                    D::V((0..n).map(|_| t.next().unwrap().parse().unwrap()).collect())
                }
            }
        }
        let k = *t.next().expect("goal token");
        match k {
            "eq" => PG::Eq(T::parse(t), T::parse(t)),
            "neq" => PG::Neq(T::parse(t), T::parse(t)),
            "succ" => PG::Succ,
            "fail" => PG::Fail,
            "conj" => PG::Conj(goals(t)),
            "disj" => PG::Disj(goals(t)),
            "conde" => PG::Conde(clauses(t)),
            "conda" => PG::Conda(clauses(t)),
            "condu" => PG::Condu(clauses(t)),
            "onceo" => PG::Onceo(goals(t)),
            "onceoc" => PG::OnceoC(clauses(t)),
            "dfs" => PG::Dfs(goals(t)),
            "fresh" => PG::Fresh(Box::new(PG::parse(t))),
            "anyo" => PG::Anyo(Box::new(PG::parse(t))),
            "loop" => PG::Loop(clauses(t)),
            "dfsc" => PG::DfsC(clauses(t)),
            "always" => PG::Always,
            "never" => PG::Never,
            "call" => {
                let r = t.next().unwrap().to_string();
                let n: usize = t.next().unwrap().parse().unwrap();
                PG::Call(r, (0..n).map(|_| T::parse(t)).collect())
            }
            "consr" => PG::ConsR(T::parse(t), T::parse(t), T::parse(t)),
            "emptyr" => PG::EmptyR(T::parse(t)),
            "firstr" => PG::FirstR(T::parse(t), T::parse(t)),
            "restr" => PG::RestR(T::parse(t), T::parse(t)),
            "infd" => {
                let x = T::parse(t);
                PG::InFd(x, dom(t))
            }
            "plusfd" => PG::PlusFd(T::parse(t), T::parse(t), T::parse(t)),
            "minusfd" => PG::MinusFd(T::parse(t), T::parse(t), T::parse(t)),
            "timesfd" => PG::TimesFd(T::parse(t), T::parse(t), T::parse(t)),
            "ltefd" => PG::LteFd(T::parse(t), T::parse(t)),
            "ltfd" => PG::LtFd(T::parse(t), T::parse(t)),
            "diseqfd" => PG::DiseqFd(T::parse(t), T::parse(t)),
            "distinctfd" => PG::DistinctFd(T::parse(t)),
            "plusz" => PG::PlusZ(T::parse(t), T::parse(t), T::parse(t)),
            "probe" => PG::Probe,
            "project" => {
                let k: usize = t.next().unwrap().parse().unwrap();
                let vs: Vec<usize> = (0..k).map(|_| t.next().unwrap().parse().unwrap()).collect();
                PG::Project(vs, goals(t))
            }
            "isnum" => PG::IsNum(T::parse(t)),
            "isground" => PG::IsGround(T::parse(t)),
            "closure" => PG::Closure(goals(t)),
            "timesz" => PG::TimesZ(T::parse(t), T::parse(t), T::parse(t)),
            other => panic!("bad goal token {}", other),
        }
    }
}

/// the two goal kinds; BFS-only operators exist for `Goal` only
pub trait Kind: AnyGoal<DU, DE> + 'static {
    fn from_bfs(g: Goal<DU, DE>) -> Self;
    fn disj(gs: &[Self]) -> Self;
}
impl Kind for Goal<DU, DE> {
    fn from_bfs(g: Goal<DU, DE>) -> Self {
        g
    }
    fn disj(gs: &[Self]) -> Self {
        Disj::from_array(gs)
    }
}
impl Kind for DFSGoal<DU, DE> {
    fn from_bfs(_g: Goal<DU, DE>) -> Self {
        panic!("BFS-only operator inside dfs")
    }
    fn disj(gs: &[Self]) -> Self {
        DFSDisj::from_array(gs)
    }
}

fn fd(d: &D) -> Vec<isize> {
    match d {
        D::I(a, b) => (*a..=*b).collect(),
        D::V(v) => v.clone(),
    }
}

pub fn build<K: Kind>(g: &PG, vars: &mut Vars) -> K {
    macro_rules! t {
        ($x:expr) => {
            vars.build($x)
        };
    }
    match g {
        PG::Eq(a, b) => {
            let e: K = rel::eq::<DU, DE, K>(t!(a), t!(b)).cast_into();
            if CNT_MODE.with(|c| c.get()) == 2 {
                // counter mode: a tick goal behind every `==` counts the unifications that succeeded on this path
                use proto_vulcan::operator::fngoal::FnGoal;
                use proto_vulcan::stream::Stream;
                let tick: K = FnGoal::new::<K>(Box::new(move |_solver, mut state| {
                    state.user_state.eq_goals += 1;
                    Stream::unit(Box::new(state))
                }))
                .cast_into();
                InferredConj::<DU, DE, K>::from_array(&[e, tick]).cast_into()
            } else {
                e
            }
        }
        PG::Neq(a, b) => rel::diseq::diseq::<DU, DE, K>(t!(a), t!(b)).cast_into(),
        PG::Succ => K::succeed(),
        PG::Fail => K::fail(),
        PG::Conj(gs) => {
            let v: Vec<K> = gs.iter().map(|x| build::<K>(x, vars)).collect();
            InferredConj::<DU, DE, K>::from_array(&v).cast_into()
        }
        PG::Disj(gs) => {
            let v: Vec<K> = gs.iter().map(|x| build::<K>(x, vars)).collect();
            K::disj(&v)
        }
        PG::Conde(cs) => {
            let v: Vec<Vec<K>> = cs.iter().map(|c| c.iter().map(|x| build::<K>(x, vars)).collect()).collect();
            let r: Vec<&[K]> = v.iter().map(|c| &c[..]).collect();
            Conde::<DU, DE, K>::from_conjunctions(&r).cast_into()
        }
        PG::Fresh(b) => Fresh::<DU, DE, K>::new(vec![], build::<K>(b, vars)).cast_into(),
        PG::Conda(cs) => {
            let v: Vec<Vec<Goal<DU, DE>>> = cs.iter().map(|c| c.iter().map(|x| build::<Goal<DU, DE>>(x, vars)).collect()).collect();
            let r: Vec<&[Goal<DU, DE>]> = v.iter().map(|c| &c[..]).collect();
            K::from_bfs(proto_vulcan::operator::conda(OperatorParam::new(&r)))
        }
        PG::Condu(cs) => {
            let v: Vec<Vec<Goal<DU, DE>>> = cs.iter().map(|c| c.iter().map(|x| build::<Goal<DU, DE>>(x, vars)).collect()).collect();
            let r: Vec<&[Goal<DU, DE>]> = v.iter().map(|c| &c[..]).collect();
            K::from_bfs(proto_vulcan::operator::condu(OperatorParam::new(&r)))
        }
        PG::Onceo(gs) => {
            let v: Vec<Goal<DU, DE>> = gs.iter().map(|x| build::<Goal<DU, DE>>(x, vars)).collect();
            K::from_bfs(proto_vulcan::operator::onceo(OperatorParam::new(&[&v[..]])))
        }
        PG::OnceoC(cs) => {
            let v: Vec<Vec<Goal<DU, DE>>> = cs.iter().map(|c| c.iter().map(|x| build::<Goal<DU, DE>>(x, vars)).collect()).collect();
            let r: Vec<&[Goal<DU, DE>]> = v.iter().map(|c| &c[..]).collect();
            K::from_bfs(proto_vulcan::operator::onceo(OperatorParam::new(&r)))
        }
        PG::Dfs(gs) => {
            let v: Vec<DFSGoal<DU, DE>> = gs.iter().map(|x| build::<DFSGoal<DU, DE>>(x, vars)).collect();
            proto_vulcan::operator::dfs::<DU, DE, K>(OperatorParam::new(&[&v[..]])).cast_into()
        }
        PG::DfsC(cs) => {
            let v: Vec<Vec<DFSGoal<DU, DE>>> = cs.iter().map(|c| c.iter().map(|x| build::<DFSGoal<DU, DE>>(x, vars)).collect()).collect();
            let r: Vec<&[DFSGoal<DU, DE>]> = v.iter().map(|c| &c[..]).collect();
            proto_vulcan::operator::dfs::<DU, DE, K>(OperatorParam::new(&r)).cast_into()
        }
        PG::Anyo(b) => {
            let g = build::<Goal<DU, DE>>(b, vars);
            K::from_bfs(proto_vulcan::operator::anyo(OperatorParam::new(&[&[g]])))
        }
        PG::Loop(cs) => {
            let v: Vec<Vec<Goal<DU, DE>>> = cs.iter().map(|c| c.iter().map(|x| build::<Goal<DU, DE>>(x, vars)).collect()).collect();
            let r: Vec<&[Goal<DU, DE>]> = v.iter().map(|c| &c[..]).collect();
            K::from_bfs(proto_vulcan::operator::anyo(OperatorParam::new(&r)))
        }
        PG::Always => K::from_bfs(rel::always()),
        PG::Never => K::from_bfs(rel::never()),
        PG::Call(r, a) => {
            let a: Vec<LT> = a.iter().map(|x| vars.build(x)).collect();
            match r.as_str() {
                "member" => rel::member::<DU, DE, K>(a[0].clone(), a[1].clone()).cast_into(),
                "member1" => rel::member1::<DU, DE, K>(a[0].clone(), a[1].clone()).cast_into(),
                "append" => rel::append::<DU, DE, K>(a[0].clone(), a[1].clone(), a[2].clone()).cast_into(),
                "rember" => rel::rember::<DU, DE, K>(a[0].clone(), a[1].clone(), a[2].clone()).cast_into(),
                "permute" => rel::permute::<DU, DE, K>(a[0].clone(), a[1].clone()).cast_into(),
                "distinct" => rel::distinct::<DU, DE, K>(a[0].clone()).cast_into(),
                // a USER relation: a closure whose body is nothing but the recursive call (directly, or under a fresh
                // variable when called with one argument) — a silent diverger made of paused closures only
                "spin" => K::from_bfs(if a.is_empty() { spin_goal() } else { spin_fresh_goal() }),
                other => panic!("unknown relation {}", other),
            }
        }
        PG::ConsR(a, b, c) => rel::cons::<DU, DE, K>(t!(a), t!(b), t!(c)).cast_into(),
        PG::EmptyR(a) => rel::empty::<DU, DE, K>(t!(a)).cast_into(),
        PG::FirstR(a, b) => rel::first::<DU, DE, K>(t!(a), t!(b)).cast_into(),
        PG::RestR(a, b) => rel::rest::<DU, DE, K>(t!(a), t!(b)).cast_into(),
        PG::InFd(x, d) => match d {
            D::I(a, b) => rel::infdrange::<DU, DE, K>(t!(x), &(*a..=*b)).cast_into(),
            D::V(_) => rel::infd::<DU, DE, K>(t!(x), &fd(d)).cast_into(),
        },
        PG::PlusFd(a, b, c) => rel::plusfd::<DU, DE, K>(t!(a), t!(b), t!(c)).cast_into(),
        PG::MinusFd(a, b, c) => rel::minusfd::<DU, DE, K>(t!(a), t!(b), t!(c)).cast_into(),
        PG::TimesFd(a, b, c) => rel::timesfd::<DU, DE, K>(t!(a), t!(b), t!(c)).cast_into(),
        PG::LteFd(a, b) => rel::ltefd::<DU, DE, K>(t!(a), t!(b)).cast_into(),
        PG::LtFd(a, b) => rel::ltfd::<DU, DE, K>(t!(a), t!(b)).cast_into(),
        PG::DiseqFd(a, b) => rel::diseqfd::<DU, DE, K>(t!(a), t!(b)).cast_into(),
        PG::DistinctFd(a) => rel::distinctfd::<DU, DE, K>(t!(a)).cast_into(),
        PG::PlusZ(a, b, c) => rel::plusz::<DU, DE, K>(t!(a), t!(b), t!(c)).cast_into(),
        PG::Probe => probe_goal::<K>(false, vec![]),
        PG::Project(vs, gs) => {
            // the projection cells, as `project |x| { }` creates them, stand at indices 900.. of the table
            vars.ensure(900 + vs.len());
            let cells: Vec<LT> = vs.iter().map(|i| LT::projection(vars.v[*i].clone())).collect();
            let saved: Vec<LT> = (0..vs.len()).map(|i| vars.v[900 + i].clone()).collect();
            for (i, c) in cells.iter().enumerate() {
                vars.v[900 + i] = c.clone();
            }
            let body: Vec<K> = gs.iter().map(|x| build::<K>(x, vars)).collect();
            for (i, c) in saved.into_iter().enumerate() {
                vars.v[900 + i] = c;
            }
            proto_vulcan::operator::project::Project::new(cells, InferredConj::<DU, DE, K>::from_array(&body).cast_into()).cast_into()
        }
        PG::IsGround(a) => {
            let term = t!(a);
            fn ground(t: &LT) -> bool {
                match t.as_ref() {
                    LTermInner::Var(_, _) => false,
                    LTermInner::Cons(h, tl) => ground(h) && ground(tl),
                    LTermInner::Compound(c) => c.children().all(|k| k.as_term().map(|x| ground(x)).unwrap_or(true)),
                    _ => true,
                }
            }
            proto_vulcan::operator::fngoal::FnGoal::new::<K>(Box::new(move |_solver, state| {
                if ground(&term) {
                    proto_vulcan::stream::Stream::unit(Box::new(state))
                } else {
                    proto_vulcan::stream::Stream::empty()
                }
            }))
            .cast_into()
        }
        PG::IsNum(a) => {
            let term = t!(a);
            proto_vulcan::operator::fngoal::FnGoal::new::<K>(Box::new(move |_solver, state| {
                if term.is_number() {
                    proto_vulcan::stream::Stream::unit(Box::new(state))
                } else {
                    proto_vulcan::stream::Stream::empty()
                }
            }))
            .cast_into()
        }
        PG::Closure(gs) => {
            // as the macro does: the body is BUILT when the closure is solved, anew for every state that reaches it (so a
            // `project` inside gets fresh projection cells each time)
            let _ = gs.iter().map(|x| build::<K>(x, vars)).count(); // allocate the variables the body mentions
            let (gs, vc) = (gs.clone(), vars.clone());
            proto_vulcan::operator::closure::Closure::new(proto_vulcan::operator::ClosureOperatorParam::new(Box::new(move || {
                let mut vs = vc.clone();
                let v: Vec<K> = gs.iter().map(|x| build::<K>(x, &mut vs)).collect();
                InferredConj::<DU, DE, K>::from_array(&v).cast_into()
            })))
            .cast_into()
        }
        PG::TimesZ(a, b, c) => rel::timesz::<DU, DE, K>(t!(a), t!(b), t!(c)).cast_into(),
    }
}

/// what a probe goal saw
pub struct ProbeRec {
    pub last: bool,
    pub withs: usize,
    pub takes: usize,
    pub stored: usize,
    pub ext_calls: usize,
    pub ext_total: usize,
    pub eq_goals: usize,
    pub smap_len: usize,
    pub terms: Vec<LT>,
}

thread_local! {
    pub static PROBES: std::cell::RefCell<Vec<ProbeRec>> = std::cell::RefCell::new(vec![]);
}

/// a goal that succeeds exactly once (`Stream::unit(state)`) and records what it sees
pub fn probe_goal<K: Kind>(last: bool, qvars: Vec<LT>) -> K {
    use proto_vulcan::operator::fngoal::FnGoal;
    use proto_vulcan::stream::Stream;
    FnGoal::new::<K>(Box::new(move |_solver, state| {
        let rec = ProbeRec {
            last,
            withs: state.user_state.withs,
            takes: state.user_state.takes,
            stored: state.cstore_ref().iter().count(),
            ext_calls: state.user_state.ext_calls,
            ext_total: state.user_state.ext_total,
            eq_goals: state.user_state.eq_goals,
            smap_len: state.smap_ref().iter().count(),
            terms: qvars.iter().map(|q| state.smap_ref().walk_star(q)).collect(),
        };
        PROBES.with(|p| p.borrow_mut().push(rec));
        Stream::unit(Box::new(state))
    }))
    .cast_into()
}

pub struct QR(pub Vec<LResult<DU, DE>>);
impl QueryResult<DU, DE> for QR {
    fn from_vec(v: Vec<LResult<DU, DE>>) -> QR {
        QR(v)
    }
}

#[derive(Clone, Debug)]
pub struct Prog {
    pub nvars: usize,
    pub nq: usize,
    pub take: usize,
    pub body: Vec<PG>,
    /// observe the states the body goal produces (Solver::next on the goal itself, walk* of the
    /// query variables), without the query wrapper and its reification conjunction
    pub raw: bool,
}

thread_local! {
    /// counter mode (C22): the query gets a final probe after `reify`; the observable is the sorted list of
    /// (answer terms, with_constraint calls, take_constraint calls, stored constraints) the final probes saw
    pub static CNT_MODE: std::cell::Cell<u8> = std::cell::Cell::new(0);
}

impl Prog {
    pub fn line(&self) -> String {
        self.line_f(0)
    }
    /// the case line with the model's step fuel (0 = the driver's default)
    pub fn line_f(&self, fuel: u64) -> String {
        let flags = if self.raw { "raw" } else { match CNT_MODE.with(|c| c.get()) { 1 => "cnt", 2 => "cnd", _ => "-" } };
        let flags = if fuel > 0 { format!("{}:{}", flags, fuel) } else { flags.to_string() };
        let mut s = format!("prog {} {} {} {} ", self.nvars, self.nq, self.take, flags);
        for g in &self.body {
            g.toks(&mut s);
        }
        s.trim_end().to_string()
    }
    pub fn parse(line: &str) -> Prog {
        let toks: Vec<&str> = line.split_whitespace().collect();
        let nvars = toks[1].parse().unwrap();
        let nq = toks[2].parse().unwrap();
        let take = toks[3].parse().unwrap();
        let mut it = toks[5..].iter();
        let mut body = vec![];
        while it.len() > 0 {
            body.push(PG::parse(&mut it));
        }
        Prog { nvars, nq, take, body, raw: matches!(toks[4].split(':').next(), Some("raw") | Some("rst")) }
    }
}

/// One reported answer, in the AST: terms per query variable, reported constraints as lists of
/// (var, term) pairs, and per query variable the indices of the constraints `constraints()` returns.
#[derive(Clone, Debug)]
pub struct Ans {
    pub terms: Vec<T>,
    pub constraints: Vec<Vec<(T, T)>>,
    pub relevant: Vec<Vec<usize>>,
    pub constrained: Vec<bool>,
    /// counter mode: (with_constraint calls, take_constraint calls, stored constraints) at the answer
    pub counters: Option<(usize, usize, usize)>,
}

pub fn universe8() -> Vec<T> {
    vec![
        T::Num(1),
        T::Num(2),
        T::Num(3),
        T::Num(8),
        T::Bool(true),
        T::Nil,
        T::list(vec![T::Num(1)]),
        T::Comp(0, vec![T::Num(1), T::Num(2)]),
    ]
}

/// canonical order of the answer's variables: first occurrence in the terms tuple
pub fn ans_vars(terms: &[T]) -> Vec<T> {
    let mut seen: Vec<T> = vec![];
    fn go(t: &T, seen: &mut Vec<T>) {
        match t {
            T::Var(_) | T::Any(_) => {
                if !seen.contains(t) {
                    seen.push(t.clone())
                }
            }
            T::Cons(h, tl) => {
                go(h, seen);
                go(tl, seen)
            }
            T::Comp(_, a) => a.iter().for_each(|x| go(x, seen)),
            _ => {}
        }
    }
    terms.iter().for_each(|t| go(t, &mut seen));
    seen
}

pub fn ginst(val: &[(T, T)], t: &T) -> T {
    t.subst(&|x| match x {
        T::Var(_) | T::Any(_) => Some(val.iter().find(|p| &p.0 == x).map(|p| p.1.clone()).unwrap_or(T::Num(8))),
        _ => None,
    })
}

pub fn valuations(vars: &[T]) -> Vec<Vec<(T, T)>> {
    let u = universe8();
    let mut res: Vec<Vec<(T, T)>> = vec![vec![]];
    for x in vars.iter().take(3) {
        let mut next = vec![];
        for partial in &res {
            for v in &u {
                let mut p = partial.clone();
                p.push((x.clone(), v.clone()));
                next.push(p);
            }
        }
        res = next;
    }
    res
}

pub fn satisfied(val: &[(T, T)], cs: &[Vec<(T, T)>]) -> bool {
    cs.iter().all(|c| c.iter().any(|(x, t)| ginst(val, x) != ginst(val, t)))
}

pub fn truth_table(vars: &[T], cs: &[Vec<(T, T)>]) -> String {
    if cs.is_empty() {
        return "-".to_string();
    }
    let bits: Vec<bool> = valuations(vars).iter().map(|v| satisfied(v, cs)).collect();
    let mut s = String::new();
    for chunk in bits.chunks(4) {
        let mut v = 0;
        for b in chunk {
            v = v * 2 + if *b { 1 } else { 0 };
        }
        v <<= 4 - chunk.len();
        s.push(std::char::from_digit(v as u32, 16).unwrap());
    }
    s
}

impl Ans {
    pub fn show(&self, _counters: &str) -> String {
        let order = ans_vars(&self.terms);
        let can = canon(&self.terms);
        let tt = truth_table(&order, &self.constraints);
        let rel: Vec<String> = self
            .relevant
            .iter()
            .map(|idx| {
                let cs: Vec<Vec<(T, T)>> = idx.iter().map(|i| self.constraints[*i].clone()).collect();
                truth_table(&order, &cs)
            })
            .collect();
        match self.counters {
            Some((w, t, st)) => format!("{} @ {} @ {} @ {} {} {}", show_tuple(&can), tt, rel.join(" "), w, t, st),
            None => format!("{} @ {} @ {}", show_tuple(&can), tt, rel.join(" ")),
        }
    }
}

pub enum RunOut {
    Answers(Vec<Ans>, bool /* more answers were available */),
    Budget(Vec<Ans>),
    Panic(String),
}

pub const BUDGET: u64 = 20_000;

thread_local! {
    /// engine ticks used by the last `run_prog`/`run_raw` on this thread
    pub static LAST_TICKS: std::cell::Cell<u64> = std::cell::Cell::new(0);
}

/// The step fuel the model gets for the case just run: a model step costs the implementation at least
/// one tick, so a finished run needs no more model steps than ticks (generous slack); a run that
/// exhausted the budget is compared on a bounded prefix only.
pub fn model_fuel(out: &RunOut) -> u64 {
    let t = LAST_TICKS.with(|c| c.get());
    match out {
        RunOut::Budget(_) => 1500,
        _ => 4 * t + 200,
    }
}

/// Runs the body goal directly on a `Solver` and reports the states it produces, in order.
pub fn run_raw(p: &Prog) -> RunOut {
    run_raw_b(p, BUDGET)
}

pub fn run_raw_b(p: &Prog, budget: u64) -> RunOut {
    use proto_vulcan::solver::Solver;
    use proto_vulcan::state::State;
    let mut vars = Vars::new(p.nvars);
    let goals: Vec<Goal<DU, DE>> = p.body.iter().map(|g| build::<Goal<DU, DE>>(g, &mut vars)).collect();
    let goal: Goal<DU, DE> = proto_vulcan::operator::conj::Conj::from_array(&goals);
    let qvars: Vec<LT> = vars.v[..p.nq].to_vec();
    let mut answers: Vec<Ans> = vec![];
    let take = p.take;
    proto_vulcan::verif::set_budget(budget);
    let r = crate::catch(|| {
        let mut solver: Solver<DU, DE> = Solver::new((), false);
        let mut stream = solver.start(&goal, State::new(DU::default()));
        let mut more = false;
        loop {
            if take > 0 && answers.len() == take {
                more = true;
                break;
            }
            match solver.next(&mut stream) {
                None => break,
                Some(state) => {
                    let mut rd = Reader::new(&vars);
                    let terms: Vec<T> = qvars.iter().map(|q| rd.read(&state.smap_ref().walk_star(q))).collect();
                    let n = terms.len();
                    answers.push(Ans { terms, constraints: vec![], relevant: vec![vec![]; n], constrained: vec![false; n], counters: None });
                }
            }
        }
        more
    });
    LAST_TICKS.with(|c| c.set(proto_vulcan::verif::steps()));
    proto_vulcan::verif::set_budget(u64::MAX);
    match r {
        Ok(more) => RunOut::Answers(answers, more),
        Err(site) if site == "BUDGET" => RunOut::Budget(answers),
        Err(site) => RunOut::Panic(site),
    }
}

/// STATE DUMP of the real solver state: the finite-domain store (variable -> values) and the constraint store
/// (kind + walk*ed operands), canonical (sorted).  Variables are the program's (`v<i>`); anything else is `h<k>`.
pub fn dump_state(state: &proto_vulcan::state::State<DU, DE>, vars: &Vars) -> String {
    let mut rd = Reader::new(vars);
    let mut show = |t: &LT| -> String {
        let w = state.smap_ref().walk_star(t);
        let x = rd.read(&w);
        x.subst(&|y| match y {
            T::Var(k) if *k >= 1000 => Some(T::Str(90 + (*k - 1000))),
            _ => None,
        })
        .text()
    };
    let mut doms: Vec<String> = state
        .dstore_ref()
        .iter()
        .map(|(x, d)| {
            let vals: Vec<String> = d.iter().map(|v| v.to_string()).collect();
            format!("{}={{{}}}", show(x), vals.join(","))
        })
        .collect();
    doms.sort();
    let mut cs: Vec<String> = state
        .cstore_ref()
        .iter()
        .map(|c| {
            let dbg = format!("{:?}", c);
            let kind: String = dbg.chars().take_while(|ch| ch.is_alphanumeric()).collect();
            let ops: Vec<String> = c.operands().iter().map(|o| show(o)).collect();
            let name = match kind.as_str() {
                "DisequalityConstraint" => "diseq",
                "PlusFdConstraint" => "plusfd",
                "MinusFdConstraint" => "minusfd",
                "TimesFdConstraint" => "timesfd",
                "LessThanOrEqualFdConstraint" => "ltefd",
                "DiseqFdConstraint" => "diseqfd",
                "DistinctFdConstraint" => "distinctfd",
                "DistinctFd2Constraint" => "distinctfd2",
                "PlusZConstraint" => "plusz",
                "TimesZConstraint" => "timesz",
                other => other,
            }
            .to_string();
            if name == "diseq" {
                // the pairs of the disequality (its own substitution map), walk*ed in the state, sorted
                let mut pairs: Vec<String> = match c.as_any().downcast_ref::<proto_vulcan::relation::diseq::DisequalityConstraint<DU, DE>>() {
                    // canonical form: each pair's term resolved in the constraint's OWN (triangular) map first
                    Some(d) => d.smap_ref().iter().map(|(k, v)| format!("{}!={}", show(k), show(&d.smap_ref().walk_star(v)))).collect(),
                    None => vec!["?".into()],
                };
                pairs.sort();
                format!("diseq {}", pairs.join(" & "))
            } else {
                format!("{} {}", name, ops.join(" , "))
            }
        })
        .collect();
    cs.sort();
    format!("D[{}] C[{}]", doms.join(" ; "), cs.join(" ; "))
}

/// raw run (the states the body goal produces) with a dump of every delivered state
pub fn run_raw_dump(p: &Prog, budget: u64) -> String {
    use proto_vulcan::solver::Solver;
    use proto_vulcan::state::State;
    crate::mark(&p.line());
    let mut vars = Vars::new(p.nvars);
    let goals: Vec<Goal<DU, DE>> = p.body.iter().map(|g| build::<Goal<DU, DE>>(g, &mut vars)).collect();
    let goal: Goal<DU, DE> = proto_vulcan::operator::conj::Conj::from_array(&goals);
    let qvars: Vec<LT> = vars.v[..p.nvars].to_vec();
    let mut lines: Vec<String> = vec![];
    proto_vulcan::verif::set_budget(budget);
    let r = crate::catch(|| {
        let mut solver: Solver<DU, DE> = Solver::new((), false);
        let mut stream = solver.start(&goal, State::new(DU::default()));
        while let Some(state) = solver.next(&mut stream) {
            let mut rd = Reader::new(&vars);
            let terms: Vec<String> = qvars.iter().map(|q| rd.read(&state.smap_ref().walk_star(q)).text()).collect();
            lines.push(format!("{} # {}", terms.join(" ; "), dump_state(&state, &vars)));
        }
    });
    LAST_TICKS.with(|c| c.set(proto_vulcan::verif::steps()));
    proto_vulcan::verif::set_budget(u64::MAX);
    match r {
        Ok(()) => {
            if lines.is_empty() {
                "none".into()
            } else {
                lines.join(" || ")
            }
        }
        Err(site) if site == "BUDGET" => {
            lines.push("BUDGET".into());
            lines.join(" || ")
        }
        Err(site) => format!("PANIC {}", site),
    }
}

/// Runs the query on the real engine.
pub fn run_prog(p: &Prog) -> RunOut {
    run_prog_b(p, BUDGET)
}

/// ticks used by the last run on this thread
pub fn last_ticks() -> u64 {
    LAST_TICKS.with(|c| c.get())
}

pub fn run_prog_b(p: &Prog, budget: u64) -> RunOut {
    crate::mark(&p.line());
    if p.raw {
        return run_raw_b(p, budget);
    }
    let mut vars = Vars::new(p.nvars);
    let goals: Vec<Goal<DU, DE>> = p.body.iter().map(|g| build::<Goal<DU, DE>>(g, &mut vars)).collect();
    let qvars: Vec<LT> = vars.v[..p.nq].to_vec();
    run_goal(&vars, &qvars, proto_vulcan::operator::conj::Conj::from_array(&goals), p.take, budget)
}

/// Runs a body goal as a query: the goal exactly as `proto_vulcan_query!` builds it
/// (`fresh(__query__) [__query__ == [vars], body, reify(__query__)]`), iterated through `Query`.
pub fn run_goal(vars: &Vars, qvars: &[LT], body: Goal<DU, DE>, take: usize, budget: u64) -> RunOut {
    let qvars: Vec<LT> = qvars.to_vec();
    let query_var = LT::var("__query__");
    let cntm = CNT_MODE.with(|c| c.get());
    let cnt = cntm != 0;
    let mut parts: Vec<Goal<DU, DE>> = vec![
        GoalCast::cast_into(rel::eq::eq(query_var.clone(), LT::from_array(&qvars))),
        body,
        proto_vulcan::state::reify(query_var.clone()),
    ];
    if cnt {
        // counter mode: a final probe after `reify`
        parts.push(probe_goal::<Goal<DU, DE>>(true, qvars.clone()));
    }
    let goal: Goal<DU, DE> = Fresh::new(vec![query_var.clone()], GoalCast::cast_into(InferredConj::from_array(&parts))).cast_into();
    PROBES.with(|p| p.borrow_mut().clear());
    let query: Query<QR, DU, DE> = Query::new(qvars.clone(), goal);
    let mut answers: Vec<Ans> = vec![];
    proto_vulcan::verif::set_budget(budget);
    let r = crate::catch(|| {
        let mut iter = query.run_with_user(DU::default(), ());
        let mut more = false;
        loop {
            if take > 0 && answers.len() == take {
                more = true;
                break;
            }
            match iter.next() {
                None => break,
                Some(QR(results)) => answers.push(read_answer(vars, &results)),
            }
        }
        more
    });
    LAST_TICKS.with(|c| c.set(proto_vulcan::verif::steps()));
    proto_vulcan::verif::set_budget(u64::MAX);
    if cnt {
        // counter mode: one record per FINAL probe (answer terms as the probe saw them + counters), sorted
        let mut recs: Vec<Ans> = PROBES.with(|p| {
            p.borrow()
                .iter()
                .filter(|r| r.last)
                .map(|r| {
                    let mut rd = Reader::new(vars);
                    let terms: Vec<T> = r.terms.iter().map(|t| rd.read(t)).collect();
                    let n = terms.len();
                    Ans { terms, constraints: vec![], relevant: vec![vec![]; n], constrained: vec![false; n], counters: Some(if cntm == 1 { (r.withs, r.takes, r.stored) } else { (r.withs.saturating_sub(r.takes), 0, r.stored) }) }
                })
                .collect()
        });
        recs.sort_by_key(|a| a.show(""));
        answers = recs;
    }
    match r {
        Ok(more) => RunOut::Answers(answers, more),
        Err(site) if site == "BUDGET" => RunOut::Budget(answers),
        Err(site) => RunOut::Panic(site),
    }
}

pub fn read_answer(vars: &Vars, results: &[LResult<DU, DE>]) -> Ans {
    let mut rd = Reader::new(vars);
    let terms: Vec<T> = results.iter().map(|r| rd.read(&r.0)).collect();
    // all reported constraints (the store is shared by the results of one answer)
    let mut constraints: Vec<Vec<(T, T)>> = vec![];
    let mut ptrs: Vec<*const u8> = vec![];
    if let Some(r0) = results.first() {
        for c in r0.1.iter() {
            if let Some(d) = c.downcast_ref::<DisequalityConstraint<DU, DE>>() {
                let mut pairs: Vec<(T, T)> = d.smap_ref().iter().map(|(k, v)| (rd.read(k), rd.read(v))).collect();
                pairs.sort();
                constraints.push(pairs);
                ptrs.push(std::rc::Rc::as_ptr(c) as *const u8);
            }
        }
    }
    let mut relevant = vec![];
    let mut constrained = vec![];
    for r in results {
        let mut idx = vec![];
        for c in r.constraints() {
            let p = std::rc::Rc::as_ptr(c) as *const u8;
            if let Some(i) = ptrs.iter().position(|q| *q == p) {
                idx.push(i);
            }
        }
        idx.sort();
        relevant.push(idx);
        constrained.push(r.is_constrained());
    }
    Ans { terms, constraints, relevant, constrained, counters: None }
}

/// the observable line of a run, in the driver's format (counters are 0 for DefaultUser)
pub fn show_run(out: &RunOut, with_counters: bool) -> String {
    let _ = with_counters;
    let show = |a: &Vec<Ans>| a.iter().map(|x| x.show("")).collect::<Vec<_>>();
    match out {
        RunOut::Answers(a, _) => {
            if a.is_empty() {
                "none".to_string()
            } else {
                show(a).join(" || ")
            }
        }
        RunOut::Budget(a) => {
            let mut v = show(a);
            v.push("BUDGET".to_string());
            v.join(" || ")
        }
        RunOut::Panic(site) => format!("PANIC {}", site),
    }
}

pub fn is_var_term(t: &LT) -> bool {
    matches!(t.as_ref(), LTermInner::Var(_, _))
}

#[allow(dead_code)]
pub fn fd_of(d: &D) -> FiniteDomain {
    match d {
        D::I(a, b) => FiniteDomain::from(*a..=*b),
        D::V(v) => FiniteDomain::from(v.clone()),
    }
}
