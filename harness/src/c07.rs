//! C07 — interleaving disjunction is fair and productive.
//!
//! Disjunctions (conde / nested conde / disj / loop) whose branches mix infinite producers, silent
//! divergers and finite goals, optionally under a conjunction with a finite goal.
//! Observable (model vs implementation): the first answers of the combined program, in order.
//! Oracle: every branch is run ALONE on the real engine; each of its first K answers must be delivered
//! by the combined program within a step budget proportional to what the branch needed alone.
use crate::out::Out;
use crate::prog::*;
use crate::rng::Rng;
use crate::search::SearchGen;
use crate::term::T;

const K: usize = 2;

#[derive(Clone, Debug)]
struct Case {
    nvars: usize,
    nq: usize,
    pre: Vec<PG>,
    /// the disjunction, and the list of its leaf branches (each with the path of clause prefixes leading to it)
    disj: PG,
    branches: Vec<Vec<PG>>,
}

fn answers_of(out: &RunOut) -> (Vec<String>, bool) {
    match out {
        RunOut::Answers(a, _) => (a.iter().map(|x| x.show("")).collect(), false),
        RunOut::Budget(a) => (a.iter().map(|x| x.show("")).collect(), true),
        RunOut::Panic(_) => (vec![], false),
    }
}

thread_local! {
    /// leaves whose fairness run was cut by wall-clock time (see `run_sliced`)
    static SLOW_LEAVES: std::cell::Cell<u64> = std::cell::Cell::new(0);
}

/// Runs `comb` with a step budget that GROWS (x4 from 20 000 up to `budget`) until `done` accepts the answers, the search ends,
/// or the full budget has been used.  The answers within a smaller budget are a prefix of those within a larger one, so an
/// early acceptance is the verdict of the full run.  A diverging branch whose terms grow makes every engine step slower than
/// the one before (each binding clones the substitution map): when a slice that still has not delivered the wanted answers
/// took more than 3 s of wall-clock time the remaining budget would take minutes to hours — the leaf is then INCONCLUSIVE
/// (third component), not starved: the engine is stepping, only slowly.
fn run_sliced(comb: &Prog, budget: u64, done: &dyn Fn(&[String]) -> bool) -> (Vec<String>, bool, bool) {
    let mut b = std::cmp::min(budget, 20_000);
    loop {
        let t0 = std::time::Instant::now();
        let co = run_prog_b(comb, b);
        let (got, cut) = answers_of(&co);
        if !cut || b >= budget || done(&got) {
            return (got, cut, false);
        }
        if t0.elapsed().as_millis() > 3000 {
            return (got, cut, true);
        }
        b = std::cmp::min(budget, b.saturating_mul(4));
    }
}

/// (impl line, oracle failure, nontrivial, model fuel)
fn eval_case(c: &Case, take: usize) -> (Prog, String, Option<String>, bool, u64) {
    let mut body = c.pre.clone();
    body.push(c.disj.clone());
    let p = Prog { nvars: c.nvars, nq: c.nq, take, body, raw: false };
    let out = run_prog(&p);
    let fuel = model_fuel(&out);
    let line = show_run(&out, false);
    if let RunOut::Panic(s) = &out {
        return (p, line, Some(format!("panic at {}", s)), true, fuel);
    }
    let mut fail = None;
    let mut nontrivial = false;
    for (i, b) in c.branches.iter().enumerate() {
        let mut body = c.pre.clone();
        body.extend(b.iter().cloned());
        let alone = Prog { nvars: c.nvars, nq: c.nq, take: K, body, raw: false };
        let ao = run_prog_b(&alone, 3000);
        let t = last_ticks();
        let (want, _) = answers_of(&ao);
        if want.is_empty() {
            continue;
        }
        nontrivial = true;
        // budget proportional to what the branch needed alone (the model's fairness rank justifies a
        // factor exponential only in the nesting depth of the disjunction, which is at most 5 here)
        // A leaf reached through the i-th clauses of nested disjunctions gets a 2^-(i+1) share of the steps per level; with
        // up to 4 clauses on two levels the deepest leaf has 1/256 (the thorough tier met a leaf that needed 36 000 steps
        // for an answer it delivers alone in 70: not starved, slow) — so the budget also grows with the leaf's position.
        let share = 1u64 << std::cmp::min(i as u64 + 2, 9);
        let budget = std::cmp::max(400 * t + 5000, (25 * t + 300) * share);
        let comb = Prog { take: if share > 64 { 600 } else { 150 }, ..p.clone() };
        let (got, cut, slow) = run_sliced(&comb, budget, &|got: &[String]| want.iter().all(|w| got.contains(w)));
        if slow {
            SLOW_LEAVES.with(|c| c.set(c.get() + 1));
            continue;
        }
        for w in &want {
            if !got.contains(w) {
                fail = Some(format!(
                    "answer `{}` of branch {} (delivered by the branch alone within {} steps) is not delivered by the disjunction within {} answers / {} steps{}",
                    w, i, t, got.len(), budget, if cut { " (budget exhausted: starved)" } else { "" }
                ));
                break;
            }
        }
        if fail.is_some() {
            break;
        }
    }
    // `loop { g }` / `anyo`: every unfolding of the loop is a branch of its own — an answer the body delivers only ONCE
    // among its first answers must come again (from the second unfolding) although the first unfolding's stream never
    // ends (seeded change C07-h: the next unfolding started only when the current one was exhausted)
    if fail.is_none() {
        let body: Option<Vec<PG>> = match &c.disj {
            PG::Loop(cs) if cs.len() == 1 => Some(cs[0].clone()),
            PG::Anyo(b) => Some(vec![(**b).clone()]),
            _ => None,
        };
        if let Some(b) = body {
            let mut bb = c.pre.clone();
            bb.extend(b.iter().cloned());
            let alone = Prog { nvars: c.nvars, nq: c.nq, take: 30, body: bb, raw: false };
            let ao = run_prog_b(&alone, 20_000);
            let t = last_ticks();
            let (a, _) = answers_of(&ao);
            if let Some(rare) = a.iter().find(|x| a.iter().filter(|y| y == x).count() == 1) {
                let comb = Prog { take: 150, ..p.clone() };
                let (got, _, slow) = run_sliced(&comb, 400 * t + 20_000, &|got: &[String]| got.iter().filter(|y| *y == rare).count() >= 2);
                let n = got.iter().filter(|y| *y == rare).count();
                nontrivial = true;
                if slow {
                    SLOW_LEAVES.with(|c| c.set(c.get() + 1));
                } else if n < 2 {
                    fail = Some(format!(
                        "the loop body delivers `{}` once among its first {} answers; 150 answers of the loop contain it {} time(s): the later unfoldings of the loop are starved",
                        rare, a.len(), n
                    ));
                }
            }
        }
    }
    (p, line, fail, nontrivial, fuel)
}

fn record(c: &Case, out: &mut Out) {
    let (p, line, fail, nt, fuel) = eval_case(c, 12);
    let slow = SLOW_LEAVES.with(|c| c.replace(0));
    for _ in 0..slow {
        out.stat("leaves_inconclusive_engine_steps_too_slow");
    }
    if line.contains("BUDGET") {
        out.stat("combined_prefix_ends_in_budget");
    }
    out.push(p.line_f(fuel), line, fail, nt);
}

/// replay of a plain case line: the branches of a top-level conde/disj are re-derived from the line
pub fn replay(line: &str, out: &mut Out) {
    let p = Prog::parse(line);
    let (pre, last) = p.body.split_at(p.body.len() - 1);
    let c = Case { nvars: p.nvars, nq: p.nq, pre: pre.to_vec(), disj: last[0].clone(), branches: leaves(&last[0]) };
    let (p2, l, fail, nt, fuel) = eval_case(&c, if p.take == 0 { 12 } else { p.take });
    out.push(p2.line_f(fuel), l, fail, nt);
}

/// the leaf branches of a (nested) disjunction, each as the goal list that runs it alone
fn leaves(g: &PG) -> Vec<Vec<PG>> {
    match g {
        PG::Conde(cs) => cs
            .iter()
            .flat_map(|c| {
                // a clause whose last goal is itself a disjunction: descend, keeping the clause prefix
                if let Some(last) = c.last() {
                    if matches!(last, PG::Conde(_) | PG::Disj(_)) {
                        let pre = &c[..c.len() - 1];
                        return leaves(last)
                            .into_iter()
                            .map(|mut l| {
                                let mut v = pre.to_vec();
                                v.append(&mut l);
                                v
                            })
                            .collect::<Vec<_>>();
                    }
                }
                vec![c.clone()]
            })
            .collect(),
        PG::Disj(gs) => gs.iter().flat_map(|x| leaves(x)).collect(),
        other => vec![vec![other.clone()]],
    }
}

struct Gen {
    nq: usize,
    nh: usize,
}

impl Gen {
    fn var(&self, r: &mut Rng) -> T {
        T::Var(r.below(self.nq + self.nh))
    }
    fn q(&self, r: &mut Rng) -> T {
        T::Var(r.below(self.nq))
    }
    /// one branch: a clause (list of goals)
    fn branch(&self, r: &mut Rng, tag: isize) -> Vec<PG> {
        let sg = SearchGen { nq: self.nq, nh: self.nh, dfs_safe: true, committed: false, calls: true };
        match r.below(14) {
            // a clause that fails statically (a literal `false`, alone or after a goal: `Conj::new` folds it to `fail`):
            // the disjunction must keep its other clauses (seeded change C07-d)
            12 => vec![PG::Fail],
            13 => vec![PG::Eq(self.q(r), T::Num(tag)), PG::Fail],
            // infinite producers, tagged so that their answers are recognisable
            0 | 1 => vec![PG::Always, PG::Eq(self.q(r), T::Num(tag))],
            2 => vec![PG::Anyo(Box::new(PG::Conde(vec![vec![PG::Eq(self.q(r), T::Num(tag))], vec![PG::Eq(self.q(r), T::Num(tag + 10))]])))],
            3 => vec![PG::Call("member".into(), vec![T::Num(tag), self.q(r)])],
            4 => vec![PG::Call("append".into(), vec![self.q(r), T::list(vec![T::Num(tag)]), self.var(r)])],
            // silent divergers
            5 => vec![PG::Never],
            // … through plain recursion of a user closure (directly / under a fresh variable): paused closures only
            6 => vec![PG::Call("spin".into(), if r.chance(1, 2) { vec![] } else { vec![T::Var(0)] })],
            7 => vec![PG::Never, PG::Eq(self.q(r), T::Num(tag))],
            // finite goals
            8 => vec![PG::Eq(self.q(r), T::Num(tag))],
            // a clause that succeeds statically (`true`): its stream is mature at once
            9 | 10 => vec![PG::Succ],
            _ => vec![sg.goal(r, 1)],
        }
    }
    fn disj(&self, r: &mut Rng, depth: usize, tag: &mut isize) -> PG {
        let k = 2 + r.below(3);
        let mut cs: Vec<Vec<PG>> = vec![];
        for _ in 0..k {
            *tag += 1;
            if depth > 0 && r.chance(1, 4) {
                let mut c = if r.chance(1, 2) { vec![PG::Eq(self.var(r), T::Num(*tag))] } else { vec![] };
                c.push(self.disj(r, depth - 1, tag));
                cs.push(c);
            } else {
                cs.push(self.branch(r, *tag));
            }
        }
        if r.chance(1, 5) && cs.iter().all(|c| c.len() == 1) {
            PG::Disj(cs.into_iter().map(|mut c| c.remove(0)).collect())
        } else {
            PG::Conde(cs)
        }
    }
    fn case(&self, r: &mut Rng) -> Case {
        let mut tag = 0;
        let disj = if r.chance(1, 6) {
            // a loop whose body has a stream that never ends: an infinite producer, or a silent diverger, beside an answer
            let q = self.q(r);
            let inf = match r.below(3) {
                0 => vec![PG::Always, PG::Eq(q.clone(), T::Num(2))],
                1 => vec![PG::Never],
                _ => vec![PG::Call("member".into(), vec![T::Num(2), q.clone()])],
            };
            let fin = vec![PG::Eq(q, T::Num(1))];
            let cs = if r.chance(1, 2) { vec![fin, inf] } else { vec![inf, fin] };
            PG::Loop(vec![vec![PG::Conde(cs)]])
        } else {
            self.disj(r, 1, &mut tag)
        };
        let pre = if r.chance(1, 3) {
            let sg = SearchGen { nq: self.nq, nh: self.nh, dfs_safe: true, committed: false, calls: true };
            vec![sg.goal(r, 1)]
        } else {
            vec![]
        };
        Case { nvars: self.nq + self.nh, nq: self.nq, pre, branches: leaves(&disj), disj }
    }
}

fn corpus() -> Vec<&'static str> {
    vec![
        // the property's own examples
        "prog 1 1 3 - conde 2 1 never 1 eq v0 i1",
        "prog 1 1 3 - conde 2 1 call spin 0 1 eq v0 i1",
        "prog 1 1 3 - conde 3 1 call spin 1 v0 1 eq v0 i1 2 always eq v0 i2",
        "prog 1 1 12 - conde 2 2 always eq v0 i1 2 always eq v0 i2",
        "prog 1 1 6 - conde 3 1 never 2 always eq v0 i1 1 eq v0 i2",
        "prog 1 1 6 - conde 2 1 never 1 conde 2 1 never 1 eq v0 i3",
        "prog 2 1 6 - conde 2 1 call member 2 i1 v0 1 call member 2 i2 v0",
        "prog 1 1 8 - loop 1 1 conde 3 1 eq i1 v0 1 eq i2 v0 1 eq i3 v0",
        "prog 1 1 12 - loop 1 1 conde 2 1 eq v0 i1 2 always eq v0 i2",
        // a statically failing clause in third / fourth position (C07-d)
        "prog 1 1 6 - conde 3 1 eq v0 i1 1 eq v0 i2 1 fail",
        "prog 1 1 8 - conde 4 2 always eq v0 i1 1 eq v0 i2 1 conde 3 1 eq v0 i3 1 eq v0 i4 2 eq v0 i5 fail 2 eq v0 i6 fail",
    ]
}

pub fn run(seed: u64, thorough: bool, out: &mut Out) {
    for l in corpus() {
        out.stat("corpus");
        replay(l, out);
    }
    let n = if thorough { 8000 } else { 400 };
    for i in 0..n {
        let mut r = Rng::new(seed, 7, i);
        let g = Gen { nq: 1 + r.below(2), nh: r.below(2) };
        let c = g.case(&mut r);
        out.stat(&format!("branches_{}", c.branches.len()));
        if c.branches.iter().any(|b| b.contains(&PG::Never)) {
            out.stat("has_silent_diverger");
        }
        if c.branches.iter().any(|b| b.contains(&PG::Always) || b.iter().any(|g| matches!(g, PG::Anyo(_)))) {
            out.stat("has_infinite_producer");
        }
        record(&c, out);
    }
    if thorough {
        // every arrangement of {never, always-tagged, finite} in <= 3 branches x 2 nesting shapes
        let kinds = |tag: isize| -> Vec<Vec<PG>> {
            vec![vec![PG::Never], vec![PG::Always, PG::Eq(T::Var(0), T::Num(tag))], vec![PG::Eq(T::Var(0), T::Num(tag))]]
        };
        for a in kinds(1) {
            for b in kinds(2) {
                for c3 in kinds(3) {
                    for shape in 0..2 {
                        let disj = if shape == 0 {
                            PG::Conde(vec![a.clone(), b.clone(), c3.clone()])
                        } else {
                            PG::Conde(vec![a.clone(), vec![PG::Conde(vec![b.clone(), c3.clone()])]])
                        };
                        let c = Case { nvars: 1, nq: 1, pre: vec![], branches: leaves(&disj), disj };
                        out.stat("exhaustive_arrangements");
                        record(&c, out);
                    }
                }
            }
        }
        out.exhaustive = true;
        out.notes.push("thorough: every arrangement of {never, always-tagged, finite} in 3 branches x 2 nesting shapes".into());
    }
}
