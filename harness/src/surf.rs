//! Surface syntax (the input language of `proto_vulcan!`): an AST, its printer to Rust macro source, and
//! the REFERENCE ELABORATION into the runtime-API program AST (`PG`) by the documented meaning:
//! `==` eq, `!=` diseq, `[..]` conjunction, `conde {..}` disjunction of conjunctions, `|x| {..}` fresh,
//! `true`/`false`, `closure {..}`, `loop {..}`, relation calls, `match`/`matche`/`matcha`/`matchu`
//! (one clause per arm alternative: fresh pattern variables, `term == pattern`, body), `for x in coll {..}`.
//! Names are resolved lexically; every binder allocates new variable indices.
use crate::prog::PG;
use crate::rng::Rng;
use crate::term::T;

#[derive(Clone, Debug, PartialEq)]
pub enum ST {
    Var(String),
    Any,
    Num(isize),
    Bool(bool),
    Chr(char),
    Str(usize),
    List(Vec<ST>),
    Improper(Vec<ST>, Box<ST>),
    /// a compound term / pattern: tag 0 = tuple `(a, b)`, 1 = `P3(a, b, c)`, 2 = `Named { a: x, b: y }`
    Comp(usize, Vec<ST>),
}

#[derive(Clone, Debug, PartialEq)]
pub enum SG {
    Eq(ST, ST),
    Neq(ST, ST),
    True,
    False,
    Conj(Vec<SG>),
    /// operator with clause lists: conde / conda / condu / onceo / loop
    Op(&'static str, Vec<Vec<SG>>),
    Fresh(Vec<String>, Vec<SG>),
    Closure(Vec<SG>),
    /// ONE closure goal value used twice in a row: `{ let g = proto_vulcan_closure!(..); proto_vulcan!([g.clone(), g]) }` —
    /// documented meaning: the conjunction of two invocations, each with its own fresh variables (seeded change C15-g)
    Twice(Vec<SG>),
    Call(&'static str, Vec<ST>),
    /// match / matche / matcha / matchu: arms of (alternative patterns, body, body written in braces `=> { a, b }`
    /// — a list of clauses — rather than as one clause `=> g` / `=> [a, b]`)
    Match(&'static str, ST, Vec<(Vec<ST>, Vec<SG>, bool)>),
    /// `for x in &collN { body }` over a Rust `Vec<LTerm>` defined in the case's prelude
    For(String, usize, Vec<SG>),
}

impl ST {
    pub fn print(&self) -> String {
        match self {
            ST::Var(n) => n.clone(),
            ST::Any => "_".into(),
            ST::Num(n) => format!("{}", n),
            ST::Bool(b) => format!("{}", b),
            ST::Chr(c) => format!("'{}'", c),
            ST::Str(i) => format!("\"{}\"", crate::term::STRINGS[*i]),
            ST::List(v) => format!("[{}]", v.iter().map(|x| x.print()).collect::<Vec<_>>().join(", ")),
            ST::Improper(v, t) => format!("[{} | {}]", v.iter().map(|x| x.print()).collect::<Vec<_>>().join(", "), t.print()),
            ST::Comp(0, a) => format!("({})", a.iter().map(|x| x.print()).collect::<Vec<_>>().join(", ")),
            ST::Comp(1, a) => format!("P3({})", a.iter().map(|x| x.print()).collect::<Vec<_>>().join(", ")),
            ST::Comp(_, a) => format!("Named {{ a: {}, b: {} }}", a[0].print(), a[1].print()),
        }
    }
    /// variable names in order of first occurrence (patterns: the set the macro collects)
    pub fn names(&self, out: &mut Vec<String>) {
        match self {
            ST::Var(n) => {
                if !out.contains(n) {
                    out.push(n.clone())
                }
            }
            ST::List(v) => v.iter().for_each(|x| x.names(out)),
            ST::Improper(v, t) => {
                v.iter().for_each(|x| x.names(out));
                t.names(out)
            }
            ST::Comp(_, a) => a.iter().for_each(|x| x.names(out)),
            _ => {}
        }
    }
    pub fn rename(&self, from: &str, to: &str) -> ST {
        match self {
            ST::Var(n) if n == from => ST::Var(to.to_string()),
            ST::List(v) => ST::List(v.iter().map(|x| x.rename(from, to)).collect()),
            ST::Improper(v, t) => ST::Improper(v.iter().map(|x| x.rename(from, to)).collect(), Box::new(t.rename(from, to))),
            ST::Comp(g, a) => ST::Comp(*g, a.iter().map(|x| x.rename(from, to)).collect()),
            o => o.clone(),
        }
    }
}

fn clause(gs: &[SG]) -> String {
    // a clause inside an operator / match arm: a single goal, or a bracketed conjunction
    // (a clause holding ONE goal that is itself a bracketed conjunction keeps its own brackets — `[[a, b]]`, `[[]]` —
    // or the macro would read the conjunction's goals as the goals of the clause: for conda/condu the head of the clause
    // would change, and an empty conjunction would become an empty clause)
    if gs.len() == 1 && !matches!(gs[0], SG::Conj(_)) {
        gs[0].print()
    } else {
        format!("[{}]", gs.iter().map(|g| g.print()).collect::<Vec<_>>().join(", "))
    }
}

impl SG {
    pub fn print(&self) -> String {
        match self {
            SG::Eq(a, b) => format!("{} == {}", a.print(), b.print()),
            SG::Neq(a, b) => format!("{} != {}", a.print(), b.print()),
            SG::True => "true".into(),
            SG::False => "false".into(),
            SG::Conj(gs) => format!("[{}]", gs.iter().map(|g| g.print()).collect::<Vec<_>>().join(", ")),
            SG::Op(name, cs) => format!("{} {{ {} }}", name, cs.iter().map(|c| clause(c)).collect::<Vec<_>>().join(", ")),
            SG::Fresh(ns, gs) => format!("|{}| {{ {} }}", ns.join(", "), gs.iter().map(|g| g.print()).collect::<Vec<_>>().join(", ")),
            // (the macro parses ONE clause inside `closure { }`: several goals are written as a conjunction)
            SG::Closure(gs) => format!("closure {{ {} }}", clause(gs)),
            SG::Twice(gs) => format!(
                "{{ let c__: InferredGoal<DU, DE, Goal<DU, DE>> = proto_vulcan_closure!({}); let g__: Goal<DU, DE> = ::proto_vulcan::GoalCast::cast_into(c__); let r__: InferredGoal<DU, DE, Goal<DU, DE>> = proto_vulcan!([g__.clone(), g__]); r__ }}",
                clause(gs)
            ),
            SG::Call(r, a) => format!("{}({})", r, a.iter().map(|x| x.print()).collect::<Vec<_>>().join(", ")),
            SG::Match(kind, t, arms) => {
                let arms: Vec<String> = arms
                    .iter()
                    .map(|(ps, body, braced)| {
                        let pats = ps.iter().map(|p| p.print()).collect::<Vec<_>>().join(" | ");
                        if body.is_empty() {
                            format!("{} => ", pats)
                        } else if *braced {
                            format!("{} => {{ {} }}", pats, body.iter().map(|g| g.print()).collect::<Vec<_>>().join(", "))
                        } else {
                            format!("{} => {}", pats, clause(body))
                        }
                    })
                    .collect();
                format!("{} {} {{ {}, }}", kind, t.print(), arms.join(", "))
            }
            SG::For(x, c, body) => format!("for {} in &coll{} {{ {} }}", x, c, body.iter().map(|g| g.print()).collect::<Vec<_>>().join(", ")),
        }
    }

    /// consistent renaming of the variable bound by the `k`-th binder (pre-order) — capture is avoided by
    /// choosing a name that occurs nowhere in the program
    pub fn alpha(&self, counter: &mut usize, target: usize, fresh: &str) -> SG {
        fn ren_goals(gs: &[SG], from: &str, to: &str) -> Vec<SG> {
            gs.iter().map(|g| g.rename_free(from, to)).collect()
        }
        match self {
            SG::Fresh(ns, gs) => {
                let mut ns2 = ns.clone();
                let mut gs2: Vec<SG> = gs.clone();
                for (i, n) in ns.iter().enumerate() {
                    if *counter == target {
                        ns2[i] = fresh.to_string();
                        gs2 = ren_goals(&gs2, n, fresh);
                    }
                    *counter += 1;
                }
                SG::Fresh(ns2, gs2.iter().map(|g| g.alpha(counter, target, fresh)).collect())
            }
            SG::Match(kind, t, arms) => {
                let arms2 = arms
                    .iter()
                    .map(|(ps, body, braced)| {
                        // rename a pattern variable of a single-alternative arm
                        let mut ps2 = ps.clone();
                        let mut body2 = body.clone();
                        if ps.len() == 1 {
                            let mut names = vec![];
                            ps[0].names(&mut names);
                            for n in names {
                                if *counter == target {
                                    ps2[0] = ps2[0].rename(&n, fresh);
                                    body2 = ren_goals(&body2, &n, fresh);
                                }
                                *counter += 1;
                            }
                        }
                        (ps2, body2.iter().map(|g| g.alpha(counter, target, fresh)).collect(), *braced)
                    })
                    .collect();
                SG::Match(kind, t.clone(), arms2)
            }
            SG::Conj(gs) => SG::Conj(gs.iter().map(|g| g.alpha(counter, target, fresh)).collect()),
            SG::Op(n, cs) => SG::Op(n, cs.iter().map(|c| c.iter().map(|g| g.alpha(counter, target, fresh)).collect()).collect()),
            SG::Closure(gs) => SG::Closure(gs.iter().map(|g| g.alpha(counter, target, fresh)).collect()),
            SG::Twice(gs) => SG::Twice(gs.iter().map(|g| g.alpha(counter, target, fresh)).collect()),
            SG::For(x, c, body) => {
                let (mut x2, mut b2) = (x.clone(), body.clone());
                if *counter == target {
                    x2 = fresh.to_string();
                    b2 = ren_goals(&b2, x, fresh);
                }
                *counter += 1;
                SG::For(x2, *c, b2.iter().map(|g| g.alpha(counter, target, fresh)).collect())
            }
            o => o.clone(),
        }
    }

    /// rename the FREE occurrences of `from` (stops at binders that rebind it)
    pub fn rename_free(&self, from: &str, to: &str) -> SG {
        let rg = |gs: &[SG]| gs.iter().map(|g| g.rename_free(from, to)).collect::<Vec<_>>();
        match self {
            SG::Eq(a, b) => SG::Eq(a.rename(from, to), b.rename(from, to)),
            SG::Neq(a, b) => SG::Neq(a.rename(from, to), b.rename(from, to)),
            SG::Conj(gs) => SG::Conj(rg(gs)),
            SG::Op(n, cs) => SG::Op(n, cs.iter().map(|c| rg(c)).collect()),
            SG::Fresh(ns, gs) => {
                if ns.iter().any(|n| n == from) {
                    self.clone()
                } else {
                    SG::Fresh(ns.clone(), rg(gs))
                }
            }
            SG::Closure(gs) => SG::Closure(rg(gs)),
            SG::Twice(gs) => SG::Twice(rg(gs)),
            SG::Call(r, a) => SG::Call(r, a.iter().map(|x| x.rename(from, to)).collect()),
            SG::Match(kind, t, arms) => SG::Match(
                kind,
                t.rename(from, to),
                arms.iter()
                    .map(|(ps, body, braced)| {
                        let mut bound = vec![];
                        ps.iter().for_each(|p| p.names(&mut bound));
                        if bound.iter().any(|n| n == from) {
                            (ps.clone(), body.clone(), *braced)
                        } else {
                            (ps.clone(), rg(body), *braced)
                        }
                    })
                    .collect(),
            ),
            SG::For(x, c, body) => {
                if x == from {
                    self.clone()
                } else {
                    SG::For(x.clone(), *c, rg(body))
                }
            }
            o => o.clone(),
        }
    }

    pub fn binders(&self) -> usize {
        let mut c = 0;
        let _ = self.alpha(&mut c, usize::MAX, "");
        c
    }
}

/// elaboration environment: lexical scopes and the variable counter
pub struct Elab {
    pub env: Vec<(String, usize)>,
    pub next: usize,
    /// the collections of the case's prelude, as terms over the outermost scope
    pub colls: Vec<Vec<ST>>,
}

impl Elab {
    fn lookup(&self, n: &str) -> usize {
        self.env.iter().rev().find(|p| p.0 == n).map(|p| p.1).unwrap_or_else(|| panic!("unbound surface variable {}", n))
    }
    fn fresh(&mut self) -> usize {
        self.next += 1;
        self.next - 1
    }
    pub fn term(&mut self, t: &ST) -> T {
        match t {
            ST::Var(n) => T::Var(self.lookup(n)),
            ST::Any => T::Var(self.fresh()), // `_`: a distinct variable nobody else mentions
            ST::Num(n) => T::Num(*n),
            ST::Bool(b) => T::Bool(*b),
            ST::Chr(c) => T::Chr(*c as u32),
            ST::Str(i) => T::Str(*i),
            ST::List(v) => T::list(v.iter().map(|x| self.term(x)).collect()),
            ST::Improper(v, tl) => {
                let es: Vec<T> = v.iter().map(|x| self.term(x)).collect();
                let tl = self.term(tl);
                T::improper(es, tl)
            }
            ST::Comp(g, a) => T::Comp(*g, a.iter().map(|x| self.term(x)).collect()),
        }
    }
    fn goals(&mut self, gs: &[SG]) -> Vec<PG> {
        gs.iter().map(|g| self.goal(g)).collect()
    }
    pub fn goal(&mut self, g: &SG) -> PG {
        match g {
            SG::Eq(a, b) => {
                let a = self.term(a);
                PG::Eq(a, self.term(b))
            }
            SG::Neq(a, b) => {
                let a = self.term(a);
                PG::Neq(a, self.term(b))
            }
            SG::True => PG::Succ,
            SG::False => PG::Fail,
            SG::Conj(gs) => PG::Conj(self.goals(gs)),
            SG::Op(name, cs) => {
                let cs: Vec<Vec<PG>> = cs.iter().map(|c| self.goals(c)).collect();
                match *name {
                    "conde" => PG::Conde(cs),
                    "conda" => PG::Conda(cs),
                    "condu" => PG::Condu(cs),
                    // `onceo { a, b }`: the entries are conjoined by `Conj::from_conjunctions` (clause by clause)
                    "onceo" => if cs.len() == 1 { PG::Onceo(cs.into_iter().flatten().collect()) } else { PG::OnceoC(cs) },
                    "loop" => PG::Loop(cs),
                    other => panic!("unknown operator {}", other),
                }
            }
            SG::Fresh(ns, gs) => {
                let depth = self.env.len();
                for n in ns {
                    let i = self.fresh();
                    self.env.push((n.clone(), i));
                }
                let body = self.goals(gs);
                self.env.truncate(depth);
                PG::Fresh(Box::new(PG::Conj(body)))
            }
            SG::Closure(gs) => {
                let b = self.goals(gs);
                if b.len() == 1 {
                    PG::Closure(b)
                } else {
                    PG::Closure(vec![PG::Conj(b)])
                }
            }
            SG::Twice(gs) => {
                // two invocations: the body is elaborated twice, so its binders get different variables
                let one = |e: &mut Self| {
                    let b = e.goals(gs);
                    if b.len() == 1 {
                        PG::Closure(b)
                    } else {
                        PG::Closure(vec![PG::Conj(b)])
                    }
                };
                let a = one(self);
                let b = one(self);
                PG::Conj(vec![a, b])
            }
            SG::Call(r, a) => {
                let a: Vec<T> = a.iter().map(|x| self.term(x)).collect();
                match *r {
                    "cons" => PG::ConsR(a[0].clone(), a[1].clone(), a[2].clone()),
                    "first" => PG::FirstR(a[0].clone(), a[1].clone()),
                    "rest" => PG::RestR(a[0].clone(), a[1].clone()),
                    "empty" => PG::EmptyR(a[0].clone()),
                    r => PG::Call(r.to_string(), a),
                }
            }
            SG::Match(kind, t, arms) => {
                let mut clauses = vec![];
                for (ps, body, braced) in arms {
                    for p in ps {
                        // the matched term is evaluated in the OUTER scope (`__term__` alias) …
                        let tt = self.term(t);
                        // … then every distinct name of the pattern is a fresh variable local to the arm
                        let depth = self.env.len();
                        let mut names = vec![];
                        p.names(&mut names);
                        for n in names {
                            let i = self.fresh();
                            self.env.push((n, i));
                        }
                        let pt = self.term(p);
                        let mut c = vec![PG::Eq(tt, pt)];
                        let b = self.goals(body);
                        if *braced || b.len() <= 1 {
                            // `=> { a, b }`: the clauses join the arm's conjunction; `=> g`: one clause
                            c.extend(b);
                        } else {
                            // `=> [a, b]`: ONE clause, itself a conjunction
                            c.push(PG::Conj(b));
                        }
                        self.env.truncate(depth);
                        clauses.push(c);
                    }
                }
                match *kind {
                    "match" | "matche" => PG::Conde(clauses),
                    "matcha" => PG::Conda(clauses),
                    "matchu" => PG::Condu(clauses),
                    other => panic!("unknown match kind {}", other),
                }
            }
            SG::For(x, c, body) => {
                // conjunction of the body over the collection; `Everyg` folds the goals left, so the
                // conjunction is built in reverse collection order
                let coll = self.colls[*c].clone();
                let mut out = vec![];
                for e in coll.iter().rev() {
                    out.push(PG::Conj(self.goals_subst(body, x, e)));
                }
                PG::Conj(out)
            }
        }
    }
    /// the body with the loop variable standing for the element term
    fn goals_subst(&mut self, body: &[SG], x: &str, e: &ST) -> Vec<PG> {
        // elements are closed terms or outer variables: substitute syntactically on the surface AST
        // the macro builds the body with `InferredConj::from_conjunctions(&[clause, …])`: every clause of the
        // body is itself a conjunction (a bracketed `[a, b]` contributes its goals, anything else is a
        // one-goal conjunction)
        let b: Vec<SG> = body.iter().map(|g| subst_goal(g, x, e)).collect();
        b.iter()
            .map(|c| match c {
                SG::Conj(gs) => PG::Conj(self.goals(gs)),
                other => PG::Conj(vec![self.goal(other)]),
            })
            .collect()
    }
}

fn subst_term(t: &ST, x: &str, e: &ST) -> ST {
    match t {
        ST::Var(n) if n == x => e.clone(),
        ST::List(v) => ST::List(v.iter().map(|y| subst_term(y, x, e)).collect()),
        ST::Improper(v, tl) => ST::Improper(v.iter().map(|y| subst_term(y, x, e)).collect(), Box::new(subst_term(tl, x, e))),
        ST::Comp(g, a) => ST::Comp(*g, a.iter().map(|y| subst_term(y, x, e)).collect()),
        o => o.clone(),
    }
}

fn subst_goal(g: &SG, x: &str, e: &ST) -> SG {
    let sg = |gs: &[SG]| gs.iter().map(|h| subst_goal(h, x, e)).collect::<Vec<_>>();
    match g {
        SG::Eq(a, b) => SG::Eq(subst_term(a, x, e), subst_term(b, x, e)),
        SG::Neq(a, b) => SG::Neq(subst_term(a, x, e), subst_term(b, x, e)),
        SG::Conj(gs) => SG::Conj(sg(gs)),
        SG::Op(n, cs) => SG::Op(n, cs.iter().map(|c| sg(c)).collect()),
        SG::Fresh(ns, gs) => {
            if ns.iter().any(|n| n == x) {
                g.clone()
            } else {
                SG::Fresh(ns.clone(), sg(gs))
            }
        }
        SG::Closure(gs) => SG::Closure(sg(gs)),
        SG::Twice(gs) => SG::Twice(sg(gs)),
        SG::Call(r, a) => SG::Call(r, a.iter().map(|y| subst_term(y, x, e)).collect()),
        SG::Match(k, t, arms) => SG::Match(
            k,
            subst_term(t, x, e),
            arms.iter()
                .map(|(ps, body, braced)| {
                    let mut bound = vec![];
                    ps.iter().for_each(|p| p.names(&mut bound));
                    if bound.iter().any(|n| n == x) {
                        (ps.clone(), body.clone(), *braced)
                    } else {
                        (ps.clone(), sg(body), *braced)
                    }
                })
                .collect(),
        ),
        SG::For(y, c, body) => {
            if y == x {
                g.clone()
            } else {
                SG::For(y.clone(), *c, sg(body))
            }
        }
        o => o.clone(),
    }
}

// ------------------------------------------------------------------------------------------------
// tie to the Lean model of the translation (Model/Surface.lean): the same AST goes through `elabG` in
// the Lean driver and through `Elab` here; both print the elaborated goal in one flat format

/// name table: query names first, then every other name in order of appearance
struct Names(Vec<String>);
impl Names {
    fn id(&mut self, n: &str) -> usize {
        if let Some(i) = self.0.iter().position(|x| x == n) {
            i
        } else {
            self.0.push(n.to_string());
            self.0.len() - 1
        }
    }
}

fn lean_term(t: &ST, ns: &mut Names, out: &mut String) -> bool {
    match t {
        ST::Var(n) => out.push_str(&format!("v{} ", ns.id(n))),
        ST::Any => out.push_str("any "),
        ST::Num(n) => out.push_str(&format!("i{} ", n)),
        ST::Bool(b) => out.push_str(if *b { "b1 " } else { "b0 " }),
        ST::Chr(c) => out.push_str(&format!("ch{} ", *c as u32)),
        ST::Str(i) => out.push_str(&format!("s{} ", i)),
        ST::List(v) => {
            for x in v {
                out.push_str("cons ");
                if !lean_term(x, ns, out) {
                    return false;
                }
            }
            out.push_str("nil ");
        }
        // a compound constructor / pattern: `comp<tag>` and the arguments as a cons-list (as `Term.comp` in the model)
        ST::Comp(g, a) => {
            out.push_str(&format!("comp{} ", g));
            for x in a {
                out.push_str("cons ");
                if !lean_term(x, ns, out) {
                    return false;
                }
            }
            out.push_str("nil ");
        }
        ST::Improper(v, tl) => {
            for x in v {
                out.push_str("cons ");
                if !lean_term(x, ns, out) {
                    return false;
                }
            }
            return lean_term(tl, ns, out);
        }
    }
    true
}

fn lean_seq(gs: &[SG], op: &str, unit: &str, ns: &mut Names, out: &mut String) -> bool {
    // right-nested binary chain g1 op (g2 op (… op unit))
    match gs {
        [] => {
            out.push_str(unit);
            out.push(' ');
            true
        }
        [g, rest @ ..] => {
            out.push_str(op);
            out.push(' ');
            lean_goal(g, ns, out) && lean_seq(rest, op, unit, ns, out)
        }
    }
}

/// the Lean `SGoal` token form of a surface goal (None: uses a construct outside the Lean model)
fn lean_goal(g: &SG, ns: &mut Names, out: &mut String) -> bool {
    match g {
        SG::Eq(a, b) => {
            out.push_str("eq ");
            lean_term(a, ns, out) && lean_term(b, ns, out)
        }
        SG::Neq(a, b) => {
            out.push_str("neq ");
            lean_term(a, ns, out) && lean_term(b, ns, out)
        }
        SG::True => {
            out.push_str("tt ");
            true
        }
        SG::False => {
            out.push_str("ff ");
            true
        }
        SG::Conj(gs) => lean_seq(gs, "conj", "tt", ns, out),
        SG::Op("conde", cs) => {
            // disjunction of conjunctions
            fn clauses(cs: &[Vec<SG>], ns: &mut Names, out: &mut String) -> bool {
                match cs {
                    [] => {
                        out.push_str("ff ");
                        true
                    }
                    [c, rest @ ..] => {
                        out.push_str("disj ");
                        lean_seq(c, "conj", "tt", ns, out) && clauses(rest, ns, out)
                    }
                }
            }
            clauses(cs, ns, out)
        }
        SG::Fresh(names, gs) => {
            for n in names {
                out.push_str(&format!("fresh {} ", ns.id(n)));
            }
            lean_seq(gs, "conj", "tt", ns, out)
        }
        SG::Match(kind, t, arms) if *kind == "match" || *kind == "matche" => {
            // one `mtch` per arm alternative (the macro expands the body once per alternative)
            for (ps, body, _) in arms {
                for p in ps {
                    out.push_str("mtch ");
                    if !(lean_term(t, ns, out) && lean_term(p, ns, out) && lean_seq(body, "conj", "tt", ns, out)) {
                        return false;
                    }
                }
            }
            out.push_str("ff ");
            true
        }
        _ => false,
    }
}

fn flat_term(t: &T) -> String {
    t.text()
}

/// the elaborated reference program in the flat format the Lean driver prints for `EGoal`:
/// `(& …)` conjunction, `(| …)` disjunction, `F(…)` fresh scope, `succ`, `fail`, `eq T T`, `neq T T`;
/// nested conjunctions / disjunctions are flattened, `succ` inside `&` and `fail` inside `|` dropped
pub fn flat_pg(g: &PG) -> String {
    fn conj(g: &PG, out: &mut Vec<String>) {
        match g {
            PG::Conj(gs) => gs.iter().for_each(|x| conj(x, out)),
            PG::Succ => {}
            PG::Fresh(b) => conj(b, out), // scoping carries no ids: a fresh body joins the enclosing conjunction
            other => out.push(flat_pg(other)),
        }
    }
    match g {
        PG::Eq(a, b) => format!("eq {} {}", flat_term(a), flat_term(b)),
        PG::Neq(a, b) => format!("neq {} {}", flat_term(a), flat_term(b)),
        PG::Succ => "succ".into(),
        PG::Fail => "fail".into(),
        PG::Conj(_) => {
            let mut v = vec![];
            conj(g, &mut v);
            format!("(& {})", v.join(" ; "))
        }
        PG::Conde(cs) => {
            let v: Vec<String> = cs.iter().map(|c| flat_pg(&PG::Conj(c.clone()))).collect();
            format!("(| {})", v.join(" ; "))
        }
        PG::Fresh(b) => flat_pg(b),
        other => format!("?{:?}", other),
    }
}

impl Case {
    /// (`surf …` case line for the Lean driver, the reference elaboration in the flat format), if the case
    /// stays inside the fragment the Lean `Surface` model covers
    pub fn lean_line(&self) -> Option<(String, String)> {
        if !self.colls.is_empty() {
            return None;
        }
        let mut ns = Names(self.qnames.clone());
        let mut toks = String::new();
        let body = match &self.body {
            SG::Conj(_) => self.body.clone(),
            other => SG::Conj(vec![other.clone()]),
        };
        if !lean_goal(&body, &mut ns, &mut toks) {
            return None;
        }
        let (_, _, pg) = self.elaborate();
        Some((format!("surf {} {}", self.qnames.len(), toks.trim_end()), flat_pg(&pg[0])))
    }
}

/// One generated case: query variable names, prelude collections, body, number of answers to take
#[derive(Clone, Debug)]
pub struct Case {
    pub qnames: Vec<String>,
    pub colls: Vec<Vec<ST>>,
    pub body: SG,
    pub take: usize,
}

impl Case {
    /// the reference program: (nvars, nq, body)
    pub fn elaborate(&self) -> (usize, usize, Vec<PG>) {
        let mut e = Elab { env: vec![], next: 0, colls: self.colls.clone() };
        for n in &self.qnames {
            let i = e.fresh();
            e.env.push((n.clone(), i));
        }
        let g = match &self.body {
            SG::Conj(_) => e.goal(&self.body),
            other => PG::Conj(vec![e.goal(other)]),
        };
        (e.next, self.qnames.len(), vec![g])
    }
    /// Rust source of the case function
    pub fn source(&self, idx: usize) -> String {
        let mut s = format!("pub fn case_{}(vars: &Vars) -> InferredGoal<DU, DE, Goal<DU, DE>> {{\n", idx);
        for (i, n) in self.qnames.iter().enumerate() {
            s.push_str(&format!("    let {} = vars.v[{}].clone();\n", n, i));
        }
        for (i, c) in self.colls.iter().enumerate() {
            let els: Vec<String> = c
                .iter()
                .map(|t| match t {
                    ST::Var(n) => format!("{}.clone()", n),
                    other => format!("lterm!({})", other.print()),
                })
                .collect();
            // the collection is a Rust Vec or — for collections of odd length — a proto-vulcan LIST TERM iterated through
            // `IntoIterator for &LTerm` (as in examples/sudoku.rs; its iterator has no exact size hint: seeded change C12-d)
            if c.len() % 2 == 1 {
                s.push_str(&format!("    let coll{}: LT = LT::from_vec(vec![{}]);\n", i, els.join(", ")));
            } else {
                s.push_str(&format!("    let coll{}: Vec<LT> = vec![{}];\n", i, els.join(", ")));
            }
        }
        // a top-level conjunction (an operator alone yields a plain `Goal`, a conjunction an `InferredGoal`)
        let body = match &self.body {
            SG::Conj(_) => self.body.print(),
            other => format!("[{}]", other.print()),
        };
        s.push_str(&format!("    proto_vulcan!({})\n}}\n", body));
        s
    }
}

// ------------------------------------------------------------------------------------------------
// generators

pub struct SurfGen {
    pub names: Vec<&'static str>,
}

impl SurfGen {
    fn name(&self, r: &mut Rng) -> String {
        r.pick(&self.names).to_string()
    }
    /// an operand of `==` / `!=` / `match`, or a whole pattern: a term, or — one time in five — a COMPOUND: a tuple `(a, b)`
    /// (terms only), the tuple-like struct `P3(a, b, c)`, the struct with named fields `Named { a: x, b: y }` (patterns
    /// only: the macro's operand grammar needs a path prefix for a braced constructor).  The macro accepts compounds as
    /// operands, as patterns and as arguments of compounds, not inside list literals.
    pub fn operand(&self, r: &mut Rng, scope: &[String], depth: usize, pattern: bool) -> ST {
        if depth > 0 && r.chance(1, 5) {
            let tag = if pattern { 1 + r.below(2) } else { r.below(2) };
            let ar = if tag == 1 { 3 } else { 2 };
            // arguments: variables, `_`, literals and proper lists of those (what the macro's compound-argument grammar takes
            // in every position: no nested compound, no `|` tail)
            let arg = |r: &mut Rng| -> ST {
                let leaf = |r: &mut Rng| -> ST {
                    match r.below(6) {
                        0 | 1 => {
                            if pattern {
                                ST::Var(self.name(r))
                            } else if scope.is_empty() {
                                ST::Num(1)
                            } else {
                                ST::Var(r.pick(scope).clone())
                            }
                        }
                        2 => ST::Any,
                        3 => ST::List(vec![]),
                        _ => ST::Num(r.range(1, 3) as isize),
                    }
                };
                if r.chance(1, 4) {
                    ST::List((0..1 + r.below(2)).map(|_| leaf(r)).collect())
                } else {
                    leaf(r)
                }
            };
            return ST::Comp(tag, (0..ar).map(|_| arg(r)).collect());
        }
        self.term(r, scope, depth, pattern)
    }
    pub fn term(&self, r: &mut Rng, scope: &[String], depth: usize, pattern: bool) -> ST {
        let leaf = |r: &mut Rng| -> ST {
            match r.below(10) {
                0..=3 => {
                    if pattern {
                        ST::Var(self.name(r))
                    } else if scope.is_empty() {
                        ST::Num(1)
                    } else {
                        ST::Var(r.pick(scope).clone())
                    }
                }
                4 | 5 => ST::Num(r.range(1, 3) as isize),
                6 => ST::Any,
                7 => ST::List(vec![]),
                8 => match r.below(3) {
                    0 => ST::Bool(r.chance(1, 2)),
                    1 => ST::Chr(if r.chance(1, 2) { 'a' } else { 'b' }),
                    _ => ST::Str(r.below(2)),
                },
                _ => ST::Num(r.range(1, 2) as isize),
            }
        };
        if depth == 0 || r.chance(2, 5) {
            return leaf(r);
        }
        let n = 1 + r.below(3);
        let es: Vec<ST> = (0..n).map(|_| self.term(r, scope, depth - 1, pattern)).collect();
        if r.chance(1, 3) {
            let tl = if r.chance(2, 3) {
                if pattern {
                    if r.chance(1, 3) { ST::Any } else { ST::Var(self.name(r)) }
                } else if scope.is_empty() {
                    ST::Any
                } else {
                    ST::Var(r.pick(scope).clone())
                }
            } else if r.chance(1, 2) {
                // a non-empty list written in tail position: its elements are leaves (in patterns: pattern variables, which may
                // re-use a name of the enclosing scope — seeded change C13-m: names in such a tail got no binding of their own)
                ST::List((0..1 + r.below(2)).map(|_| leaf(r)).collect())
            } else {
                leaf(r)
            };
            // a tail that is itself a list literal (`[a, b | []]`, `[a | [b, c]]`) is accepted by the macro and denotes the
            // longer list: written as such half of the time (seeded change C14-k: a literal `[]` tail became an element)
            match tl {
                ST::List(items) if r.chance(1, 2) => ST::Improper(es, Box::new(ST::List(items))),
                ST::List(_) | ST::Improper(..) => {
                    if r.chance(1, 3) { ST::Improper(es, Box::new(ST::List(vec![]))) } else { ST::List(es) }
                }
                tl => ST::Improper(es, Box::new(tl)),
            }
        } else {
            ST::List(es)
        }
    }

    /// a goal over the variables in scope; `kinds` selects which constructs may appear
    pub fn goal(&self, r: &mut Rng, scope: &mut Vec<String>, depth: usize, kinds: &Kinds) -> SG {
        let atom = |r: &mut Rng, scope: &Vec<String>| -> SG {
            // `[a | t] != [b, c, d]` — list terms of different written length, one with an open tail — together with the
            // `==` that makes them coincide: `!=` must translate to the disequality GOAL, whatever the shape of its operands
            // (seeded change C14-d: a construction-time shortcut on the written lengths)
            if r.chance(1, 12) {
                // the tail is a LOCAL fresh variable (existential for the brute-force oracle, which ranges over the query
                // variables only), bound to the rest of the longer list: the conjunction has no solution
                let t = ST::Var("tz".to_string());
                let n = 1 + r.below(2);
                let heads: Vec<ST> = (0..n).map(|_| ST::Num(r.range(1, 3) as isize)).collect();
                let m = n + 1 + r.below(2);
                let mut other: Vec<ST> = heads.clone();
                while other.len() < m {
                    other.push(ST::Num(r.range(1, 3) as isize));
                }
                let (a, b) = (ST::Improper(heads, Box::new(t.clone())), ST::List(other.clone()));
                let ne = if r.chance(1, 2) { SG::Neq(a, b) } else { SG::Neq(b, a) };
                let bind = SG::Eq(t, ST::List(other[n..].to_vec()));
                let gs = if r.chance(1, 2) { vec![ne, bind] } else { vec![bind, ne] };
                return SG::Fresh(vec!["tz".to_string()], gs);
            }
            // mostly `variable == small term` (satisfiable), sometimes two arbitrary terms
            let a = if r.chance(5, 6) && !scope.is_empty() { ST::Var(r.pick(scope).clone()) } else { self.operand(r, scope, 2, false) };
            let b = if r.chance(3, 4) { self.operand(r, scope, 1, false) } else { self.operand(r, scope, 2, false) };
            let (a, b) = if r.chance(1, 2) { (a, b) } else { (b, a) };
            if r.chance(3, 4) {
                SG::Eq(a, b)
            } else {
                SG::Neq(a, b)
            }
        };
        if depth == 0 || r.chance(1, 3) {
            return match r.below(16) {
                0 => SG::True,
                1 => SG::False,
                2 if kinds.calls => SG::Call("member", vec![ST::Var(r.pick(scope).clone()), ST::List((0..r.below(4)).map(|_| ST::Num(r.range(1, 3) as isize)).collect())]),
                3 if kinds.calls => SG::Call("append", vec![ST::Var(r.pick(scope).clone()), ST::Var(r.pick(scope).clone()), ST::List((0..r.below(3)).map(|_| ST::Num(r.range(1, 3) as isize)).collect())]),
                _ => atom(r, scope),
            };
        }
        match r.below(14) {
            // degenerate sizes are part of the surface syntax: `[]` (succeeds once), a conde with ONE clause, an empty
            // clause `[]`, an empty fresh body (seeded changes C14-f, C05-f)
            0 | 1 => SG::Conj((0..if r.chance(1, 8) { 0 } else { 1 + r.below(3) }).map(|_| self.goal(r, scope, depth - 1, kinds)).collect()),
            2 | 3 => SG::Op(
                "conde",
                (0..if r.chance(1, 6) { 1 } else { 2 + r.below(2) })
                    .map(|_| (0..if r.chance(1, 10) { 0 } else { 1 + r.below(2) }).map(|_| self.goal(r, scope, depth - 1, kinds)).collect())
                    .collect(),
            ),
            4 | 5 | 6 if kinds.fresh => {
                // fresh variables, often shadowing a name already in scope
                let k = 1 + r.below(2);
                let mut ns: Vec<String> = vec![];
                for _ in 0..k {
                    let n = self.name(r);
                    if !ns.contains(&n) {
                        ns.push(n);
                    }
                }
                let depth0 = scope.len();
                scope.extend(ns.iter().cloned());
                let body: Vec<SG> = (0..if r.chance(1, 10) { 0 } else { 1 + r.below(3) }).map(|_| self.goal(r, scope, depth - 1, kinds)).collect();
                scope.truncate(depth0);
                SG::Fresh(ns, body)
            }
            8 | 9 | 10 if kinds.matches => self.match_goal(r, scope, depth, kinds),
            11 if kinds.committed => {
                let name = *r.pick(&["conda", "condu"]);
                SG::Op(name, (0..1 + r.below(3)).map(|_| (0..1 + r.below(2)).map(|_| self.goal(r, scope, depth - 1, kinds)).collect()).collect())
            }
            12 if kinds.committed => SG::Op("onceo", vec![vec![self.goal(r, scope, depth - 1, kinds)]]),
            _ => atom(r, scope),
        }
    }

    pub fn match_goal(&self, r: &mut Rng, scope: &mut Vec<String>, depth: usize, kinds: &Kinds) -> SG {
        let kind = if kinds.committed { *r.pick(&["match", "matche", "matcha", "matchu"]) } else { *r.pick(&["match", "matche"]) };
        // (the matched term is a tree term: the macro takes no compound constructor there)
        let t = if r.chance(3, 4) { ST::Var(r.pick(scope).clone()) } else { self.term(r, scope, 1, false) };
        let narms = 1 + r.below(3);
        let mut arms = vec![];
        for _ in 0..narms {
            let nalts = if r.chance(1, 4) { 2 } else { 1 };
            let mut ps: Vec<ST> = vec![];
            for _ in 0..nalts {
                // an arm whose WHOLE pattern is `_` (it matches anything: in matcha/matchu the match itself is the
                // committed-choice test of the arm, whatever its body does — seeded change C13-f)
                ps.push(if r.chance(1, 5) { ST::Any } else { self.operand(r, scope, 2, true) });
            }
            // with alternatives every pattern must bind the names the body uses: bodies of multi-alternative
            // arms mention only the names common to all alternatives (the macro expands the body per alternative)
            let mut common: Vec<String> = vec![];
            ps[0].names(&mut common);
            for p in &ps[1..] {
                let mut n = vec![];
                p.names(&mut n);
                common.retain(|x| n.contains(x));
            }
            // names bound by only SOME alternatives would mean different variables in the different
            // expansions of the one body text: keep them out of the body's scope
            let mut union: Vec<String> = vec![];
            ps.iter().for_each(|p| p.names(&mut union));
            let partial: Vec<String> = union.iter().filter(|n| !common.contains(n)).cloned().collect();
            let mut body_scope: Vec<String> = scope.iter().filter(|n| !partial.contains(n)).cloned().collect();
            body_scope.extend(common.iter().cloned());
            let whole_any = ps.iter().all(|p| matches!(p, ST::Any));
            let body: Vec<SG> = if body_scope.is_empty() {
                vec![]
            } else if whole_any && kinds.calls && r.chance(1, 2) {
                // a body whose FIRST goal has several answers, or fails: the commitment must not depend on it
                let x = ST::Var(r.pick(&body_scope).clone());
                if r.chance(1, 2) {
                    vec![SG::Call("member", vec![x, ST::List(vec![ST::Num(1), ST::Num(2), ST::Num(3)])])]
                } else {
                    vec![SG::Eq(x.clone(), ST::Num(7)), SG::Eq(x, ST::Num(8))]
                }
            } else {
                (0..r.below(3)).map(|_| self.goal(r, &mut body_scope, depth.saturating_sub(1), kinds)).collect()
            };
            arms.push((ps, body, r.chance(1, 2)));
        }
        SG::Match(kind, t, arms)
    }
}

#[derive(Clone, Copy)]
pub struct Kinds {
    pub fresh: bool,
    pub closure: bool,
    pub matches: bool,
    pub committed: bool,
    pub calls: bool,
}
