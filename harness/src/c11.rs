//! C11 — `project` sees the current value of projected variables in every branch.
//!
//! Programs: a prefix that determines how many states reach the project goal (deterministic goals,
//! `member`, `conde`), then `project |x..| { body }` whose body tests the projected value non-relationally
//! (`isnum`) and relationally (`q == x`), then optionally more goals.
//! Oracle (real engine only): the prefix alone is run in raw mode to count the states that reach the project
//! goal and to read the walked value of every projected variable in each of them; the expected answers are
//! those of the program in which the project goal is replaced, per reaching state, by its body with the
//! projected variables standing for those values.
//! KNOWN FINDING D16: when MORE THAN ONE state reaches a project goal the implementation panics at
//! src/lterm.rs:143 ("Cannot project non-Projection LTerm": the projection cell is overwritten in place by
//! the first state). Those cases are tagged and matched by call site; any other behaviour is a new violation.
use crate::out::Out;
use crate::prog::*;
use crate::rng::Rng;
use crate::search::SearchGen;
use crate::term::T;

fn multiset(v: &[String]) -> Vec<String> {
    let mut v = v.to_vec();
    v.sort();
    v
}

fn subst_cells(g: &PG, vals: &[T]) -> PG {
    let st = |t: &T| t.subst(&|x| match x {
        T::Var(k) if *k >= 900 && *k < 900 + vals.len() => Some(vals[*k - 900].clone()),
        _ => None,
    });
    match g {
        PG::IsNum(t) => {
            if matches!(st(t), T::Num(_)) {
                PG::Succ
            } else {
                PG::Fail
            }
        }
        PG::IsGround(t) => {
            if st(t).is_ground() {
                PG::Succ
            } else {
                PG::Fail
            }
        }
        PG::Eq(a, b) => PG::Eq(st(a), st(b)),
        PG::Neq(a, b) => PG::Neq(st(a), st(b)),
        PG::Conj(gs) => PG::Conj(gs.iter().map(|x| subst_cells(x, vals)).collect()),
        PG::Conde(cs) => PG::Conde(cs.iter().map(|c| c.iter().map(|x| subst_cells(x, vals)).collect()).collect()),
        other => other.clone(),
    }
}

pub fn eval(p: &Prog) -> (String, Option<String>, bool, u64, bool) {
    let out = run_prog(p);
    let fuel = model_fuel(&out);
    let line = show_run(&out, false);
    // locate the project goal (top level of the body, bare or wrapped in `closure { }`)
    let is_proj = |g: &PG| match g {
        PG::Project(..) => true,
        PG::Closure(c) => c.len() == 1 && matches!(c[0], PG::Project(..)),
        _ => false,
    };
    let pos = match p.body.iter().position(|g| is_proj(g)) {
        Some(i) => i,
        None => return (line, None, false, fuel, false),
    };
    // a project inside `closure { }` is built anew for every state that reaches it: the property holds in full there,
    // for any number of reaching states (outside the known finding D16)
    let wrapped = matches!(&p.body[pos], PG::Closure(_));
    let (vs, body) = match &p.body[pos] {
        PG::Project(vs, b) => (vs.clone(), b.clone()),
        PG::Closure(c) => match &c[0] {
            PG::Project(vs, b) => (vs.clone(), b.clone()),
            _ => unreachable!(),
        },
        _ => unreachable!(),
    };
    // the states that reach the project goal
    let pre = Prog { nvars: p.nvars, nq: p.nvars, take: 0, body: p.body[..pos].to_vec(), raw: true };
    let states: Vec<Vec<T>> = match run_prog(&pre) {
        RunOut::Answers(a, _) => a.into_iter().map(|x| x.terms).collect(),
        _ => return (line, None, false, fuel, false),
    };
    let n = states.len();
    if n >= 2 && !wrapped {
        // known finding region: the recorded behaviour is the panic at the recorded call site
        let known = line.starts_with("PANIC") && line.contains("lterm.rs:143");
        let fail = Some(if known {
            format!("{} states reach the project goal: the implementation panics (Cannot project non-Projection LTerm)", n)
        } else {
            format!("{} states reach the project goal and the implementation neither answers correctly nor panics at the recorded site: {}", n, line)
        });
        if !known {
            // not the recorded finding: check it against the reference like any other case
            return finish(p, pos, &vs, &body, &states, line, fuel, false);
        }
        return (line, fail, true, fuel, true);
    }
    finish(p, pos, &vs, &body, &states, line, fuel, false)
}

fn finish(p: &Prog, pos: usize, vs: &[usize], body: &[PG], states: &[Vec<T>], line: String, fuel: u64, kf: bool) -> (String, Option<String>, bool, u64, bool) {
    if line.starts_with("PANIC") {
        return (line.clone(), Some(format!("reaching the project goal panicked: {}", line)), true, fuel, kf);
    }
    // reference: per reaching state, the body with the projected variables standing for their walked values
    let mut want: Vec<String> = vec![];
    let mut indep: Vec<Prog> = vec![];
    for s in states {
        // re-create the state: every program variable unified with its walked value (fresh variables of the
        // prefix become new hidden variables), then the substituted body, then the rest of the program
        let nv = p.nvars;
        let (rs, nextra) = crate::term::rename_hidden(s, nv);
        let vals: Vec<T> = vs.iter().map(|i| rs[*i].clone()).collect();
        // the prefix itself is kept (its disequalities are part of the state), then narrowed to this state
        let mut b: Vec<PG> = p.body[..pos].to_vec();
        b.push(PG::Eq(T::list((0..nv).map(T::Var).collect()), T::list(rs.clone())));
        b.extend(body.iter().map(|g| subst_cells(g, &vals)));
        b.extend(p.body[pos + 1..].iter().cloned());
        let q = Prog { nvars: nv + nextra, nq: p.nq, take: 0, body: b, raw: false };
        match run_prog(&q) {
            RunOut::Answers(a, _) => want.extend(a.iter().map(|x| x.show(""))),
            _ => return (line, None, false, fuel, kf),
        }
        // the reference program is run by the same engine, so a defect in machinery that project SHARES with everything
        // else (walk*, reification) shows on both sides; when the program lies in the fragment of the independent
        // interpreter (no type test left after substitution; disequalities are checked there as pending pairs) its answers are compared with that one too
        indep.push(q);
    }
    let mut indep_want: Option<Vec<String>> = Some(vec![]);
    for q in &indep {
        fn pure(g: &PG) -> bool {
            match g {
                PG::Eq(..) | PG::Neq(..) | PG::Succ | PG::Fail => true,
                PG::Conj(gs) => gs.iter().all(pure),
                PG::Conde(cs) => cs.iter().all(|c| c.iter().all(pure)),
                PG::Fresh(b) => pure(b),
                PG::Call(r, _) => r == "member" || r == "append",
                _ => false,
            }
        }
        if !q.body.iter().all(pure) {
            indep_want = None;
            break;
        }
        match crate::search::ref_answers(q, 12) {
            Some(a) => indep_want.as_mut().unwrap().extend(a),
            None => {
                indep_want = None;
                break;
            }
        }
    }
    let got: Vec<String> = if line == "none" { vec![] } else { line.split(" || ").map(|x| x.to_string()).collect() };
    let mut fail = if multiset(&want) != multiset(&got) {
        Some(format!("project did not see the current value of the projected variables: expected [{}], got [{}]", multiset(&want).join(" | "), multiset(&got).join(" | ")))
    } else {
        None
    };
    if fail.is_none() {
        if let Some(w) = indep_want {
            // answers of the independent interpreter carry no constraint fields: compare the term part
            let strip = |l: &String| l.split(" @ ").next().unwrap_or("").to_string();
            let (a, b) = (multiset(&w.iter().map(strip).collect::<Vec<_>>()), multiset(&got.iter().map(strip).collect::<Vec<_>>()));
            if a != b {
                fail = Some(format!("the answers differ from those of the independent interpreter run on the program with the project goal replaced by its body: expected [{}], got [{}]", a.join(" | "), b.join(" | ")));
            }
        }
    }
    (line, fail, !got.is_empty(), fuel, kf)
}

fn record(p: &Prog, out: &mut Out) {
    let (line, fail, nt, fuel, kf) = eval(p);
    if kf {
        out.stat("reached_twice_known_finding");
        // the model has the intended (value) semantics and no shared cell: not sent to the model
        out.push_tagged("KF:C11-project-twice", String::new(), line, fail, nt);
    } else {
        out.stat("reached_at_most_once");
        out.push(p.line_f(fuel), line, fail, nt);
    }
}

pub fn replay(line: &str, out: &mut Out) {
    record(&Prog::parse(line), out);
}

fn corpus() -> Vec<&'static str> {
    vec![
        "prog 2 1 0 - eq v1 i5 project 1 1 2 isnum v900 eq v0 v900",
        "prog 2 1 0 - project 1 1 2 isnum v900 eq v0 v900 eq v1 i5",
        "prog 2 1 0 - eq v1 cons i1 cons v0 nil project 1 1 1 eq v0 cons v900 nil",
        "prog 3 2 0 - eq v2 i3 eq v1 v2 project 2 1 2 2 isnum v900 eq v0 cons v900 cons v901 nil",
        // D16: reached by two states
        "prog 2 1 0 - call member 2 v1 cons i1 cons i2 nil project 1 1 1 eq v0 v900",
        // … the same inside `closure { }`: every state builds its own project goal and sees its own value
        "prog 2 1 0 - call member 2 v1 cons i1 cons i2 cons i3 nil closure 1 project 1 1 1 eq v0 v900",
        // the projected value is FULLY walked: elements bound after the list was built are seen
        "prog 4 1 0 - eq v1 cons v2 cons v3 nil eq v2 i2 eq v3 i3 project 1 1 2 isground v900 eq v0 v900",
        "prog 4 1 0 - eq v1 cons v2 cons v3 nil eq v2 i2 project 1 1 2 isground v900 eq v0 v900",
    ]
}

pub fn run(seed: u64, thorough: bool, out: &mut Out) {
    for l in corpus() {
        out.stat("corpus");
        replay(l, out);
    }
    let n = if thorough { 8000 } else { 500 };
    for i in 0..n {
        let mut r = Rng::new(seed, 11, i);
        let nq = 1 + r.below(2);
        let nv = nq + 1 + r.below(2);
        let g = SearchGen { nq, nh: nv - nq, dfs_safe: true, committed: false, calls: true };
        let var = |r: &mut Rng| T::Var(r.below(nv));
        // prefix: mostly deterministic bindings (one reaching state); 1 in 5 a multi-answer goal (known finding region)
        let mut body: Vec<PG> = vec![];
        for _ in 0..r.below(4) {
            body.push(match r.below(6) {
                0 | 1 => PG::Eq(var(&mut r), T::Num(r.range(1, 5) as isize)),
                2 => PG::Eq(var(&mut r), var(&mut r)),
                3 => PG::Eq(var(&mut r), T::list(vec![var(&mut r), var(&mut r)])),
                4 => PG::Neq(var(&mut r), T::Num(r.range(1, 3) as isize)),
                _ => PG::Fresh(Box::new(PG::Eq(var(&mut r), T::Num(2)))),
            });
        }
        if r.chance(1, 5) {
            body.push(PG::Call("member".into(), vec![var(&mut r), T::list(vec![T::Num(1), T::Num(2)])]));
        } else if r.chance(1, 6) {
            body.push(PG::Conde(vec![vec![PG::Eq(var(&mut r), T::Num(1))], vec![PG::Fail]]));
        }
        let k = 1 + r.below(2);
        let vs: Vec<usize> = (0..k).map(|_| r.below(nv)).collect();
        let cell = |r: &mut Rng| T::Var(900 + r.below(k));
        let mut pb: Vec<PG> = vec![];
        for _ in 0..1 + r.below(3) {
            pb.push(match r.below(7) {
                0 | 1 => PG::IsNum(cell(&mut r)),
                5 | 6 => PG::IsGround(cell(&mut r)),
                2 => PG::Eq(T::Var(r.below(nq)), cell(&mut r)),
                3 => PG::Eq(T::Var(r.below(nq)), T::list(vec![cell(&mut r), T::Num(0)])),
                _ => PG::Conde(vec![vec![PG::IsNum(cell(&mut r))], vec![PG::Eq(T::Var(r.below(nq)), T::Num(9))]]),
            });
        }
        // 1 in 3: wrapped in `closure { }` (then several reaching states are fine: each builds its own project goal)
        if r.chance(1, 3) {
            out.stat("project_inside_closure");
            if r.chance(1, 2) && !body.iter().any(|g| matches!(g, PG::Call(..) | PG::Conde(..))) {
                body.push(PG::Call("member".into(), vec![var(&mut r), T::list(vec![T::Num(1), T::Num(2), T::Num(3)])]));
            }
            body.push(PG::Closure(vec![PG::Project(vs, pb)]));
        } else {
            body.push(PG::Project(vs, pb));
        }
        // goals after the project goal: bindings made later must not be seen by the projection
        for _ in 0..r.below(3) {
            body.push(if r.chance(1, 2) { PG::Eq(var(&mut r), T::Num(r.range(1, 5) as isize)) } else { g.goal(&mut r, 1) });
        }
        record(&Prog { nvars: nv, nq, take: 0, body, raw: false }, out);
    }
}
