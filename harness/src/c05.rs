//! C05 — depth-first search yields answers in Prolog order.
use crate::out::Out;
use crate::prog::*;
use crate::rng::Rng;
use crate::search::*;

pub fn eval(p: &Prog) -> (String, Option<String>, bool, u64) {
    let out = run_prog(p);
    let fuel = model_fuel(&out);
    let line = show_run(&out, false);
    // the property speaks about goals INSIDE `dfs { }`: a program whose body is not one depth-first block (a replayed or
    // shrunk case line that lost its `dfs`) is outside it — the interleaving order is not the Prolog order and need not be
    if !(p.body.len() == 1 && matches!(p.body[0], PG::Dfs(_) | PG::DfsC(_))) {
        let fail = match &out {
            RunOut::Panic(s) => Some(format!("panic at {}", s)),
            _ => None,
        };
        return (line, fail, false, fuel);
    }
    let answers = match &out {
        RunOut::Answers(a, _) => a,
        RunOut::Budget(a) => {
            // the step budget ran out: a program with MANY answers is not wrong for that (false alarm of the thorough tier
            // once empty clauses multiplied the answers) — the delivered prefix must still be the reference's prefix, and
            // the engine must not keep running after it has delivered every reference answer
            let got: Vec<String> = a.iter().map(|x| x.show("")).collect();
            let fail = match ref_answers(p, 12) {
                Some(want) => {
                    if got.len() < want.len() && want[..got.len()] == got[..] {
                        None
                    } else if got.len() >= want.len() && want[..] == got[..want.len()] {
                        Some(format!("terminating dfs program exhausted the step budget after delivering all {} reference answers", want.len()))
                    } else {
                        let pos = want.iter().zip(got.iter()).position(|(a, b)| a != b).unwrap_or(0);
                        Some(format!("answer sequence differs from the reference depth-first order at position {} (run cut by the step budget)", pos))
                    }
                }
                None => None,
            };
            return (line, fail, true, fuel);
        }
        RunOut::Panic(s) => return (line, Some(format!("panic at {}", s)), true, fuel),
    };
    let got: Vec<String> = answers.iter().map(|a| a.show("")).collect();
    let mut fail = None;
    match ref_answers(p, 12) {
        Some(want) => {
            if want != got {
                let pos = want.iter().zip(got.iter()).position(|(a, b)| a != b).unwrap_or(want.len().min(got.len()));
                fail = Some(format!(
                    "answer sequence differs from the reference depth-first order at position {}: reference has {} answers [{}], engine has {} [{}]",
                    pos, want.len(), want.get(pos).cloned().unwrap_or_default(), got.len(), got.get(pos).cloned().unwrap_or_default()
                ));
            }
        }
        None => {}
    }
    (line, fail, got.len() > 1, fuel)
}

fn corpus() -> Vec<&'static str> {
    vec![
        "prog 1 1 0 - dfs 1 call member 2 v0 cons i1 cons i2 cons i3 nil",
        "prog 2 2 0 - dfs 1 call append 3 v0 v1 cons i1 cons i2 nil",
        "prog 1 1 0 - dfs 1 conde 2 1 conde 2 1 eq v0 i1 1 eq v0 i2 1 eq v0 i3",
        "prog 2 2 0 - dfs 2 conde 2 1 eq v0 i1 1 eq v0 i2 conde 2 1 eq v1 i1 1 eq v1 i2",
        "prog 2 2 0 - dfs 1 disj 3 eq v0 i1 conj 2 eq v0 i2 eq v1 i3 eq v1 i1",
        "prog 2 1 0 - dfs 2 call member 2 v1 cons i1 cons i2 nil call member 2 v0 cons v1 cons i3 nil",
    ]
}

fn record(p: &Prog, out: &mut Out) {
    let (line, fail, nt, fuel) = eval(p);
    out.push(p.line_f(fuel), line, fail, nt);
}

pub fn replay(line: &str, out: &mut Out) {
    record(&Prog::parse(line), out);
}

pub fn run(seed: u64, thorough: bool, out: &mut Out) {
    for l in corpus() {
        out.stat("corpus");
        replay(l, out);
    }
    // known finding D18 (query level): the interleaving conjunction with `reify` lets a later answer
    // of a dfs block overtake an earlier one that needs more reification steps
    {
        let p = Prog::parse("prog 1 1 0 - dfs 1 conde 2 1 eq v0 cons i1 cons cons i2 nil nil 1 eq v0 cons i2 nil");
        let (line, fail, nt, fuel) = eval(&p);
        out.push_tagged("KF:C05-reify-order", p.line_f(fuel), line, fail, nt);
    }
    let n = if thorough { 30000 } else { 1000 };
    for i in 0..n {
        let mut r = Rng::new(seed, 5, i);
        let g = SearchGen { nq: 1 + r.below(2), nh: r.below(2), dfs_safe: true, committed: false, calls: true };
        let k = 1 + r.below(2);
        let depth = 1 + r.below(3);
        let k = if r.chance(1, 3) { k + 1 } else { k };
        let body: Vec<PG> = (0..k).map(|_| g.goal(&mut r, depth)).collect();
        // `dfs { [g1, g2] }` (one clause) or `dfs { g1, g2 }` (comma-separated top-level clauses, each possibly a
        // bracketed conjunction itself): the clauses are conjoined in the order written (seeded change C05-d)
        let top = if body.len() >= 2 && r.chance(1, 2) {
            out.stat("dfs_with_several_top_level_clauses");
            let mut cs: Vec<Vec<PG>> = vec![];
            for g1 in body {
                if !cs.is_empty() && r.chance(1, 4) {
                    cs.last_mut().unwrap().push(g1);
                } else {
                    cs.push(vec![g1]);
                }
            }
            PG::DfsC(cs)
        } else {
            PG::Dfs(body)
        };
        let p = Prog { nvars: g.nq + g.nh, nq: g.nq, take: 0, body: vec![top], raw: true };
        out.stat("generated");
        record(&p, out);
    }
    if thorough {
        // exhaustive: all trees with <= 2 levels of {conj2, conde2, disj2} over 3 distinguishable leaves
        let leaves = vec![
            PG::Eq(crate::term::T::Var(0), crate::term::T::Num(1)),
            PG::Eq(crate::term::T::Var(0), crate::term::T::Num(2)),
            PG::Call("member".into(), vec![crate::term::T::Var(0), crate::term::T::list(vec![crate::term::T::Num(1), crate::term::T::Num(3)])]),
        ];
        fn level(prev: &[PG]) -> Vec<PG> {
            let mut v = prev.to_vec();
            for a in prev {
                for b in prev {
                    v.push(PG::Conj(vec![a.clone(), b.clone()]));
                    v.push(PG::Conde(vec![vec![a.clone()], vec![b.clone()]]));
                    v.push(PG::Disj(vec![a.clone(), b.clone()]));
                }
            }
            v
        }
        let l1 = level(&leaves);
        let l2 = level(&l1);
        for g in &l2 {
            let p = Prog { nvars: 1, nq: 1, take: 0, body: vec![PG::Dfs(vec![g.clone()])], raw: true };
            out.stat("exhaustive_trees");
            record(&p, out);
        }
        out.exhaustive = true;
        out.notes.push("thorough: all goal trees of nesting depth <= 2 over {conj, conde, disj} and 3 leaves, inside dfs".into());
    }
}
