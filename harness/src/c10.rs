//! C10 — search branches are isolated from each other.
//!
//! A shared prefix (domains, constraints, bindings, disequalities) followed by `conde { A, B }`; the same
//! prefix followed by A alone and by B alone.  Oracle: multiset(combined) = multiset(A) ⊎ multiset(B).
//! The branches post bindings, disequalities, domains, FD constraints (incl. `distinctfd`, whose
//! `DistinctFd2Constraint` object is shared through an `Rc` and replaced per branch) and CLP(Z)
//! constraints, and may themselves produce several interleaved answers.
use crate::fdgen::FdGen;
use crate::out::Out;
use crate::prog::*;
use crate::rng::Rng;
use crate::term::T;

fn multiset(v: &[String]) -> Vec<String> {
    let mut v = v.to_vec();
    v.sort();
    v
}

fn answers(p: &Prog) -> Result<Vec<String>, String> {
    match run_prog_b(p, 3_000_000) {
        RunOut::Answers(a, _) => Ok(a.iter().map(|x| x.show("")).collect()),
        RunOut::Budget(_) => Err("BUDGET".into()),
        RunOut::Panic(s) => Err(format!("PANIC {}", s)),
    }
}

pub fn eval(p: &Prog) -> (String, Option<String>, bool, u64) {
    // terminating programs: a generous budget, so that only genuine divergence is cut short
    let out = run_prog_b(p, 3_000_000);
    let fuel = model_fuel(&out);
    let line = show_run(&out, false);
    let got: Vec<String> = match &out {
        RunOut::Answers(a, _) => a.iter().map(|x| x.show("")).collect(),
        RunOut::Budget(_) => return (line, Some("terminating program exhausted the step budget".into()), true, fuel),
        RunOut::Panic(_) => return (line, None, false, fuel), // panics are C23's; nothing to compare
    };
    let (prefix, last) = p.body.split_at(p.body.len() - 1);
    let clauses = match &last[0] {
        PG::Conde(cs) => cs.clone(),
        _ => return (line, None, false, fuel),
    };
    let mut want: Vec<String> = vec![];
    for c in &clauses {
        let mut body = prefix.to_vec();
        body.extend(c.iter().cloned());
        match answers(&Prog { body, ..p.clone() }) {
            Ok(mut a) => want.append(&mut a),
            Err(_) => return (line, None, false, fuel),
        }
    }
    let fail = if multiset(&want) != multiset(&got) {
        Some(format!(
            "answers of conde {{ A, B }} are not the union of A alone and B alone from the same state: separately {} answers [{}], combined {} [{}]",
            want.len(), multiset(&want).join(" | "), got.len(), multiset(&got).join(" | ")
        ))
    } else {
        None
    };
    (line, fail, want.len() > 1, fuel)
}

fn record(p: &Prog, out: &mut Out) {
    let (line, fail, nt, fuel) = eval(p);
    out.push(p.line_f(fuel), line, fail, nt);
}

pub fn replay(line: &str, out: &mut Out) {
    record(&Prog::parse(line), out);
}

fn corpus() -> Vec<&'static str> {
    vec![
        // a shared distinctfd constraint object updated differently in the two branches
        "prog 3 3 0 - infd v0 I 1 3 infd v1 I 1 3 infd v2 I 1 3 distinctfd cons v0 cons v1 cons v2 nil conde 2 1 eq v0 i1 1 eq v1 i1",
        // … and resolved in ONE unification per branch, so that a single run of the constraint sees all its variables bound (C10-a)
        "prog 3 1 0 - distinctfd cons v1 cons v2 nil eq v0 cons v1 cons v2 nil conde 2 1 eq cons v1 cons v2 nil cons i1 cons i3 nil 1 eq cons v1 cons v2 nil cons i3 cons i3 nil",
        "prog 3 1 0 - distinctfd cons v1 cons v2 nil eq v0 cons v1 cons v2 nil conde 2 1 eq cons v1 cons v2 nil cons i3 cons i3 nil 1 eq cons v1 cons v2 nil cons i1 cons i3 nil",
        "prog 2 2 0 - neq v0 v1 conde 2 1 eq v0 i1 2 eq v1 i1 neq v0 i2",
        "prog 2 2 0 - infd v0 I 0 3 infd v1 I 0 3 ltefd v0 v1 conde 2 1 eq v0 i2 1 eq v1 i1",
        "prog 2 2 0 - plusz v0 i1 v1 conde 2 1 eq v0 i1 1 eq v1 i1",
        // C10-m: a CLP(Z) constraint object shared by sibling branches that ground the same operand differently
        "prog 2 2 0 - timesz v0 i3 v1 conde 2 1 eq v0 i2 1 eq v0 i5",
        "prog 3 3 0 - timesz v0 v1 v2 conde 2 2 eq v0 i2 eq v1 i3 2 eq v0 i5 eq v1 i3",
        "prog 2 2 0 - conde 2 1 call member 2 v0 cons i1 cons i2 nil 1 call member 2 v0 cons i3 cons i4 nil",
    ]
}

pub fn run(seed: u64, thorough: bool, out: &mut Out) {
    for l in corpus() {
        out.stat("corpus");
        replay(l, out);
    }
    let n = if thorough { 20000 } else { 900 };
    for i in 0..n {
        let mut r = Rng::new(seed, 10, i);
        let nv = 2 + r.below(2);
        let fd = r.chance(3, 5);
        let g = FdGen { nv, lo: -3, hi: 3, signs: r.chance(1, 2) };
        let var = |r: &mut Rng| T::Var(r.below(nv));
        let mut atom = |r: &mut Rng, fd: bool| -> PG {
            if fd {
                match r.below(8) {
                    0 => PG::InFd(var(r), g.domain(r)),
                    1 => PG::Eq(var(r), g.num(r)),
                    _ => g.constraint(r),
                }
            } else {
                match r.below(9) {
                    0 | 1 => PG::Eq(var(r), T::Num(r.range(1, 3) as isize)),
                    2 => PG::Eq(var(r), var(r)),
                    3 | 4 => PG::Neq(var(r), if r.chance(1, 2) { var(r) } else { T::Num(r.range(1, 3) as isize) }),
                    5 => PG::Neq(T::list(vec![var(r), var(r)]), T::list(vec![T::Num(1), var(r)])),
                    6 => PG::PlusZ(var(r), if r.chance(1, 2) { var(r) } else { T::Num(r.range(0, 2) as isize) }, var(r)),
                    7 => PG::Call("member".into(), vec![var(r), T::list((0..1 + r.below(3)).map(|_| T::Num(r.range(1, 3) as isize)).collect())]),
                    _ => PG::Conde(vec![vec![PG::Eq(var(r), T::Num(1))], vec![PG::Eq(var(r), T::Num(2))]]),
                }
            }
        };
        if r.chance(1, 6) {
            // ONE constraint object of EVERY kind posted in the shared prefix while its operands are unbound; every branch then
            // grounds the operands to its own numbers (one unification, or one `==` per operand in a random order).  The object
            // is `Rc`-shared by the sibling branches: whatever one branch learns about an operand must not reach the others.
            // (Seeded change C10-m: `timesz` memoised the number an operand walked to in a `OnceCell` of the shared object.)
            out.stat("shared_constraint_scenarios");
            let vs: Vec<T> = (0..3).map(T::Var).collect();
            let kind = r.below(9);
            let mut body: Vec<PG> = vec![];
            let fdk = kind >= 2 && kind <= 7;
            if fdk {
                // (always: an FD operand without a domain is outside the well-formed programs — `verify_all_bound` panics)
                for v in &vs {
                    body.push(PG::InFd(v.clone(), g.domain(&mut r)));
                }
            }
            let (a, b, c) = (vs[0].clone(), vs[1].clone(), vs[2].clone());
            let cnum = |r: &mut Rng| T::Num(r.range(1, 3) as isize);
            let arity;
            body.push(match kind {
                0 => { arity = 3; PG::PlusZ(a, if r.chance(1, 3) { cnum(&mut r) } else { b }, c) }
                1 => { arity = 3; PG::TimesZ(a, if r.chance(1, 2) { cnum(&mut r) } else { b }, c) }
                2 => { arity = 3; PG::PlusFd(a, b, c) }
                3 => { arity = 3; PG::MinusFd(a, b, c) }
                4 => { arity = 3; PG::TimesFd(a, b, c) }
                5 => { arity = 2; PG::LteFd(a, b) }
                6 => { arity = 2; PG::DiseqFd(a, b) }
                7 => { arity = 3; PG::DistinctFd(T::list(vs.clone())) }
                _ => { arity = 2; PG::Neq(T::list(vec![a, b]), T::list(vec![cnum(&mut r), cnum(&mut r)])) }
            });
            let k = 2 + r.below(2);
            let clauses: Vec<Vec<PG>> = (0..k)
                .map(|_| {
                    let nums: Vec<T> = (0..arity).map(|_| T::Num(r.range(0, 6) as isize)).collect();
                    if r.chance(1, 2) {
                        vec![PG::Eq(T::list(vs[..arity].to_vec()), T::list(nums))]
                    } else {
                        let mut eqs: Vec<PG> = (0..arity).filter(|_| r.chance(5, 6)).map(|i| PG::Eq(vs[i].clone(), nums[i].clone())).collect();
                        for i in (1..eqs.len()).rev() {
                            let j = r.below(i + 1);
                            eqs.swap(i, j);
                        }
                        if eqs.is_empty() { vec![PG::Succ] } else { eqs }
                    }
                })
                .collect();
            body.push(PG::Conde(clauses));
            let p = Prog { nvars: 3, nq: 3, take: 0, body, raw: false };
            record(&p, out);
            continue;
        }
        if fd && r.chance(1, 6) {
            // a distinctfd posted before the disjunction, every branch binds ALL its variables in one unification
            out.stat("fd_distinct_multibinding");
            let vs: Vec<T> = (0..nv).map(T::Var).collect();
            let mut body: Vec<PG> = vec![];
            if r.chance(1, 2) {
                for v in &vs {
                    body.push(PG::InFd(v.clone(), g.domain(&mut r)));
                }
            }
            body.push(PG::DistinctFd(T::list(vs.clone())));
            let k = 2 + r.below(2);
            let clauses: Vec<Vec<PG>> = (0..k)
                .map(|_| vec![PG::Eq(T::list(vs.clone()), T::list((0..nv).map(|_| T::Num(r.range(1, 3) as isize)).collect()))])
                .collect();
            body.push(PG::Conde(clauses));
            let p = Prog { nvars: nv, nq: nv, take: 0, body, raw: false };
            record(&p, out);
            continue;
        }
        let mut body: Vec<PG> = if fd { let k = r.below(3); g.conj(&mut r, k) } else { (0..r.below(3)).map(|_| atom(&mut r, false)).collect() };
        let k = 2 + r.below(2);
        let clauses: Vec<Vec<PG>> = (0..k).map(|_| (0..1 + r.below(3)).map(|_| atom(&mut r, fd)).collect()).collect();
        body.push(PG::Conde(clauses));
        out.stat(if fd { "fd_programs" } else { "tree_clpz_programs" });
        let p = Prog { nvars: nv, nq: 1 + r.below(nv), take: 0, body, raw: false };
        record(&p, out);
    }
}
