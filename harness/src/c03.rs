//! C03 — answers are fully reified, closed, and carry their relevant constraints.
//!
//! Programs: the tree generator of C02 with compounds, nested lists, improper tails ending in a variable
//! and fresh (hidden) variables that stay unbound inside constraints.
//! Observable (model vs implementation): per answer the canonical terms, the truth table of all reported
//! constraints and, per query variable, the truth table of `LResult::constraints()`.
//! Oracle (pure Rust over the returned `LResult`s, plus an independent reference solver for the terms):
//!   1. no answer term contains a variable that is not a reified `_` variable;
//!   2. the canonical answer tuples are those of a reference Robinson solver run on every path of the
//!      program (so `_` variables are shared across query variables exactly as the free variables were);
//!   3. every variable of every reported constraint is a `_` variable occurring in some answer term;
//!   4. `constraints()` of a query variable contains every reported constraint one of whose operands
//!      (keys, and values that are variables) occurs in that variable's term, at any depth
//!      (independent traversal through lists and compounds).
use crate::c01::{runify, rwalk_star, Sub};
use crate::out::Out;
use crate::prog::*;
use crate::rng::Rng;
use crate::term::*;
use crate::tree::*;

fn all_vars(t: &T, out: &mut Vec<T>) {
    match t {
        T::Var(_) | T::Any(_) => {
            if !out.contains(t) {
                out.push(t.clone())
            }
        }
        T::Cons(h, tl) => {
            all_vars(h, out);
            all_vars(tl, out)
        }
        T::Comp(_, a) => a.iter().for_each(|x| all_vars(x, out)),
        _ => {}
    }
}

/// reference: canonical answer tuples, one per satisfiable path
fn reference(p: &Prog) -> Vec<String> {
    let mut res = vec![];
    for path in paths(&p.body) {
        let mut s = Sub::new();
        let mut ok = true;
        for a in &path {
            if let PG::Eq(u, v) = a {
                if !runify(&mut s, u, v) {
                    ok = false;
                    break;
                }
            }
        }
        if !ok {
            continue;
        }
        for a in &path {
            if let PG::Neq(u, v) = a {
                let mut s2 = s.clone();
                let before = s2.len();
                if runify(&mut s2, u, v) && s2.len() == before {
                    ok = false;
                    break;
                }
            }
        }
        if ok {
            let terms: Vec<T> = (0..p.nq).map(|i| rwalk_star(&s, &T::Var(i))).collect();
            res.push(show_tuple(&canon(&terms)));
        }
    }
    res.sort();
    res
}

pub fn eval(p: &Prog) -> (String, Option<String>, bool, u64) {
    // terminating programs: a generous budget, so that only genuine divergence is cut short
    let out = run_prog_b(p, 3_000_000);
    let fuel = model_fuel(&out);
    let line = show_run(&out, false);
    let answers = match &out {
        RunOut::Answers(a, _) => a,
        RunOut::Budget(_) => return (line, Some("pure tree program exhausted the step budget".into()), true, fuel),
        RunOut::Panic(s) => return (line, Some(format!("panic at {}", s)), true, fuel),
    };
    let mut fail = None;
    let mut got_terms: Vec<String> = vec![];
    for a in answers {
        let mut tvars = vec![];
        a.terms.iter().for_each(|t| all_vars(t, &mut tvars));
        // 1. closed
        if let Some(v) = tvars.iter().find(|v| matches!(v, T::Var(_))) {
            fail = Some(format!("answer `{}` contains the unreified variable {}", a.show(""), v.text()));
            break;
        }
        got_terms.push(show_tuple(&canon(&a.terms)));
        // 3. constraints mention only reified variables of this answer
        for c in &a.constraints {
            let mut cv = vec![];
            for (k, v) in c {
                all_vars(k, &mut cv);
                all_vars(v, &mut cv);
            }
            if let Some(v) = cv.iter().find(|v| !tvars.contains(v)) {
                fail = Some(format!("a reported constraint of answer `{}` mentions {}, which is not a reified variable of the answer", a.show(""), v.text()));
            }
        }
        // 4. relevant constraints per query variable
        for (i, t) in a.terms.iter().enumerate() {
            let mut tv = vec![];
            all_vars(t, &mut tv);
            for (ci, c) in a.constraints.iter().enumerate() {
                let operands: Vec<&T> = c.iter().flat_map(|(k, v)| if matches!(v, T::Any(_) | T::Var(_)) { vec![k, v] } else { vec![k] }).collect();
                let shares = operands.iter().any(|o| tv.contains(o));
                if shares && !a.relevant[i].contains(&ci) {
                    fail = Some(format!("constraints() of query variable {} (term {}) omits a reported constraint on one of its variables", i, t.text()));
                }
                if shares && !a.constrained[i] {
                    fail = Some(format!("is_constrained() of query variable {} (term {}) is false although a constraint mentions one of its variables", i, t.text()));
                }
            }
        }
        if fail.is_some() {
            break;
        }
    }
    // 2. terms and sharing agree with the reference solver
    if fail.is_none() {
        got_terms.sort();
        let want = reference(p);
        if want != got_terms {
            fail = Some(format!("canonical answer terms differ from the reference solver: reference [{}], engine [{}]", want.join(" | "), got_terms.join(" | ")));
        }
    }
    let nt = answers.iter().any(|a| !a.constraints.is_empty()) || answers.iter().any(|a| a.terms.iter().any(|t| !t.is_ground()));
    (line, fail, nt, fuel)
}

fn record(p: &Prog, out: &mut Out) {
    let (line, fail, nt, fuel) = eval(p);
    if line.contains("@ -") == false && line != "none" {
        out.stat("programs_with_constraints_in_answers");
    }
    out.push(p.line_f(fuel), line, fail, nt);
}

pub fn replay(line: &str, out: &mut Out) {
    record(&Prog::parse(line), out);
}

fn corpus() -> Vec<&'static str> {
    vec![
        // D9: constraints() must look inside compound terms
        "prog 2 1 0 - eq v0 comp0 cons i1 cons v1 nil neq v1 i3",
        // D10: a disequality against a variable that is not part of the answer is not reported
        "prog 2 1 0 - fresh neq v0 v1",
        "prog 3 2 0 - eq v0 cons v2 v1 neq v2 i1 neq v1 nil",
        "prog 3 2 0 - eq v0 cons i1 cons v2 nil eq v1 comp0 cons v2 cons v2 nil neq v2 i2",
        "prog 2 2 0 - eq v0 v1 neq v0 i1",
        "prog 4 2 0 - eq v0 cons v2 cons cons v3 nil nil eq v1 v3 neq cons v2 cons v3 nil cons i1 cons i2 nil",
        "prog 2 2 0 - neq v0 v1",
        "prog 3 1 0 - eq v0 cons i1 v1 neq v1 v2",
    ]
}

pub fn run(seed: u64, thorough: bool, out: &mut Out) {
    for l in corpus() {
        out.stat("corpus");
        replay(l, out);
    }
    let n = if thorough { 40000 } else { 2000 };
    for i in 0..n {
        let mut r = Rng::new(seed, 3, i);
        let g = TreeGen { nq: 1 + r.below(3), nh: r.below(3), compounds: r.chance(1, 2), max_atoms: 6, conde: r.chance(1, 3) };
        let mut p = g.prog(&mut r);
        // structure: query variables bound to lists / improper lists / compounds of other variables
        if r.chance(1, 2) {
            let nv = p.nvars;
            let v = |r: &mut Rng| T::Var(r.below(nv));
            let s = match r.below(6) {
                0 => T::cons(v(&mut r), v(&mut r)),
                1 => T::list(vec![v(&mut r), T::list(vec![v(&mut r)])]),
                2 => T::Comp(0, vec![v(&mut r), T::cons(T::Num(1), v(&mut r))]),
                3 => T::Comp(2, vec![T::list(vec![v(&mut r)]), v(&mut r)]),
                // compounds with an `Option` field after / before a term field (children that are not terms are
                // reified by a separate recursion: the names given so far must survive it)
                4 => {
                    let opt = if r.chance(1, 3) { T::Comp(4, vec![]) } else { T::Comp(4, vec![T::Comp(1, vec![v(&mut r), v(&mut r), v(&mut r)])]) };
                    T::Comp(5, vec![v(&mut r), opt])
                }
                _ => {
                    let opt = if r.chance(1, 3) { T::Comp(4, vec![]) } else { T::Comp(4, vec![T::Comp(1, vec![v(&mut r), v(&mut r), v(&mut r)])]) };
                    T::Comp(3, vec![opt, T::list(vec![v(&mut r), v(&mut r)])])
                }
            };
            let pos = r.below(p.body.len() + 1);
            p.body.insert(pos, PG::Eq(T::Var(r.below(p.nq)), s));
            out.stat("with_structured_query_term");
        }
        record(&p, out);
    }
}
