//! C24 — library list relations implement their documented relations.
//!
//! Every relation in every argument mode: each argument is ground, partially ground (a list with
//! variable elements) or a fresh variable.  Oracle: `Vec`-based definitions.
//!   * finite modes: the ground instances of the answers over a finite universe are EXACTLY the ground
//!     tuples of the universe that are in the relation (instance matching through the reported
//!     constraints), and `member` yields one answer per matching position, `member1` one per distinct value;
//!   * infinite modes (bounded prefix): every ground instance of every answer is in the relation.
use crate::out::Out;
use crate::prog::*;
use crate::rng::Rng;
use crate::term::T;
use crate::tree::instance_of;

fn as_vec(t: &T) -> Option<Vec<T>> {
    let (es, tl) = t.elems();
    if tl == T::Nil && matches!(t, T::Nil | T::Cons(_, _)) {
        Some(es)
    } else {
        None
    }
}

/// the documented relation on GROUND arguments
pub fn holds(rel: &str, a: &[T]) -> bool {
    match rel {
        "member" | "member1" => as_vec(&a[1]).map(|l| l.contains(&a[0])).unwrap_or(false),
        "append" => match (as_vec(&a[0]), as_vec(&a[2])) {
            // l must be a proper list; ls = l followed by s (s any term)
            (Some(l), _) => {
                let mut t = a[1].clone();
                for x in l.iter().rev() {
                    t = T::cons(x.clone(), t);
                }
                t == a[2]
            }
            _ => false,
        },
        "rember" => match (as_vec(&a[1]), as_vec(&a[2])) {
            (Some(ls), Some(out)) => {
                let mut v = ls.clone();
                if let Some(i) = v.iter().position(|x| x == &a[0]) {
                    v.remove(i);
                }
                v == out
            }
            _ => false,
        },
        "permute" => match (as_vec(&a[0]), as_vec(&a[1])) {
            (Some(mut x), Some(mut y)) => {
                x.sort();
                y.sort();
                x == y
            }
            _ => false,
        },
        "distinct" => as_vec(&a[0]).map(|l| (0..l.len()).all(|i| (0..i).all(|j| l[i] != l[j]))).unwrap_or(false),
        "cons" => T::cons(a[0].clone(), a[1].clone()) == a[2],
        "first" => matches!(&a[0], T::Cons(h, _) if **h == a[1]),
        "rest" => matches!(&a[0], T::Cons(_, t) if **t == a[1]),
        "empty" => a[0] == T::Nil,
        _ => false,
    }
}

fn goal(rel: &str, a: &[T]) -> PG {
    match rel {
        "cons" => PG::ConsR(a[0].clone(), a[1].clone(), a[2].clone()),
        "first" => PG::FirstR(a[0].clone(), a[1].clone()),
        "rest" => PG::RestR(a[0].clone(), a[1].clone()),
        "empty" => PG::EmptyR(a[0].clone()),
        r => PG::Call(r.to_string(), a.to_vec()),
    }
}

fn elem_universe() -> Vec<T> {
    vec![T::Num(1), T::Num(2), T::Num(3), T::Num(9)]
}
fn list_universe() -> Vec<T> {
    let e = vec![T::Num(1), T::Num(2), T::Num(3)];
    let mut res = vec![T::Nil];
    let mut cur = vec![vec![]];
    for _ in 0..3 {
        let mut next = vec![];
        for l in &cur {
            for x in &e {
                let mut m: Vec<T> = l.clone();
                m.push(x.clone());
                res.push(T::list(m.clone()));
                next.push(m);
            }
        }
        cur = next;
    }
    res
}

/// is argument position `i` of the relation a list position?
fn is_list_pos(rel: &str, i: usize) -> bool {
    matches!(
        (rel, i),
        ("member", 1) | ("member1", 1) | ("append", _) | ("rember", 1) | ("rember", 2) | ("permute", _) | ("distinct", 0) | ("cons", 1) | ("cons", 2)
            | ("first", 0) | ("rest", _) | ("empty", 0)
    )
}

struct Query {
    rel: &'static str,
    /// arguments: query variable i is `T::Var(i)` where it stands for a whole argument
    args: Vec<T>,
    nq: usize,
    finite: bool,
    known: bool,
    /// query variables that stand for the open TAIL of a list argument (`[e1, .., ek | t]`)
    tails: Vec<usize>,
}

pub fn eval(q: &Query) -> (Prog, String, Option<String>, bool, u64) {
    let p = Prog { nvars: q.nq, nq: q.nq, take: if q.finite { 0 } else { 25 }, body: vec![goal(q.rel, &q.args)], raw: false };
    let out = run_prog(&p);
    let fuel = model_fuel(&out);
    let line = show_run(&out, false);
    let answers = match &out {
        RunOut::Answers(a, _) => a.clone(),
        RunOut::Budget(a) => {
            if q.finite {
                return (p, line, Some("a finite mode exhausted the step budget".into()), true, fuel);
            }
            a.clone()
        }
        RunOut::Panic(s) => return (p, line, Some(format!("panic at {}", s)), true, fuel),
    };
    // candidate ground tuples for the query variables: each variable ranges over the universe of the
    // argument position(s) it occurs in
    let mut unis: Vec<Vec<T>> = vec![];
    for v in 0..q.nq {
        let whole_list = q.tails.contains(&v) || q.args.iter().enumerate().any(|(i, a)| *a == T::Var(v) && is_list_pos(q.rel, i));
        unis.push(if whole_list { list_universe() } else { elem_universe() });
    }
    let total: usize = unis.iter().map(|u| u.len()).product();
    let mut fail = None;
    if total <= 200_000 {
        for code in 0..total {
            let mut k = code;
            let tuple: Vec<T> = unis
                .iter()
                .map(|u| {
                    let t = u[k % u.len()].clone();
                    k /= u.len();
                    t
                })
                .collect();
            let ground_args: Vec<T> = q
                .args
                .iter()
                .map(|a| {
                    a.subst(&|x| match x {
                        T::Var(i) => Some(tuple[*i].clone()),
                        _ => None,
                    })
                })
                .collect();
            let want = holds(q.rel, &ground_args);
            let got = answers.iter().any(|a| instance_of(a, &tuple));
            if got && !want {
                fail = Some(format!("answer instance {:?} is NOT in the relation {}({})", tuple.iter().map(|t| t.text()).collect::<Vec<_>>(), q.rel,
                    ground_args.iter().map(|t| t.text()).collect::<Vec<_>>().join(", ")));
                break;
            }
            // `member1` commits to the FIRST matching position (`!=` guards on the earlier ones): its answers are pairwise
            // disjoint, a ground instance belongs to exactly one of them (seeded change C24-m: a de-duplicating fast path
            // that let a variable element and a later constant both match)
            if q.finite && q.rel == "member1" && want {
                let k = answers.iter().filter(|a| instance_of(a, &tuple)).count();
                if k > 1 {
                    fail = Some(format!("member1({}) is an instance of {} answers: member1 yields one answer per distinct matching value",
                        ground_args.iter().map(|t| t.text()).collect::<Vec<_>>().join(", "), k));
                    break;
                }
            }
            if q.finite && want && !got {
                fail = Some(format!("{}({}) holds but is an instance of no answer", q.rel, ground_args.iter().map(|t| t.text()).collect::<Vec<_>>().join(", ")));
                break;
            }
        }
    }
    // multiplicities on ground lists
    if fail.is_none() && q.finite && (q.rel == "member" || q.rel == "member1") && q.args[0] == T::Var(0) {
        if let Some(l) = as_vec(&q.args[1]) {
            if l.iter().all(|x| x.is_ground()) {
                let mut d = l.clone();
                d.sort();
                d.dedup();
                let want = if q.rel == "member" { l.len() } else { d.len() };
                if answers.len() != want {
                    fail = Some(format!("{}(x, {}) yields {} answers, expected {}", q.rel, q.args[1].text(), answers.len(), want));
                }
            }
        }
    }
    let _ = q.known;
    (p, line, fail, answers.len() > 1, fuel)
}

fn record(q: &Query, out: &mut Out) {
    let (p, line, fail, nt, fuel) = eval(q);
    out.stat(&format!("rel_{}", q.rel));
    out.stat(if q.finite { "finite_modes" } else { "infinite_modes" });
    if q.known {
        out.push_tagged("KF:C24-permute-sublists", p.line_f(fuel), line, fail, nt);
    } else {
        out.push(p.line_f(fuel), line, fail, nt);
    }
}

const RELS: [(&str, usize); 10] = [
    ("member", 2), ("member1", 2), ("append", 3), ("rember", 3), ("permute", 2), ("distinct", 1), ("cons", 3), ("first", 2), ("rest", 2), ("empty", 1),
];

fn rel_static(name: &str) -> &'static str {
    RELS.iter().find(|r| r.0 == name).map(|r| r.0).unwrap_or("member")
}

pub fn replay(line: &str, out: &mut Out) {
    let p = Prog::parse(line);
    let (rel, args): (&'static str, Vec<T>) = match &p.body[0] {
        PG::Call(r, a) => (rel_static(r), a.clone()),
        PG::ConsR(a, b, c) => ("cons", vec![a.clone(), b.clone(), c.clone()]),
        PG::FirstR(a, b) => ("first", vec![a.clone(), b.clone()]),
        PG::RestR(a, b) => ("rest", vec![a.clone(), b.clone()]),
        PG::EmptyR(a) => ("empty", vec![a.clone()]),
        _ => return,
    };
    let finite = p.take == 0;
    // variables standing for the open tail of a list argument
    let mut tails: Vec<usize> = vec![];
    for a in &args {
        let mut t = a;
        let mut depth = 0;
        while let T::Cons(_, tl) = t {
            t = tl;
            depth += 1;
        }
        if let (T::Var(k), true) = (t, depth > 0) {
            tails.push(*k);
        }
    }
    record(&Query { rel, args, nq: p.nq, finite, known: false, tails: tails.clone() }, out);
}

fn ground_list(r: &mut Rng, max: usize) -> T {
    let n = r.below(max + 1);
    T::list((0..n).map(|_| T::Num(r.range(1, 3) as isize)).collect())
}

/// is the mode finite (the relation has finitely many answers)?
fn mode_finite(rel: &str, args: &[T]) -> bool {
    let fixed_len = |t: &T| as_vec(t).is_some(); // a proper list (elements may be variables)
    match rel {
        "member" | "member1" => fixed_len(&args[1]),
        "append" => fixed_len(&args[2]) || fixed_len(&args[0]),
        "rember" => fixed_len(&args[1]),
        "permute" => fixed_len(&args[0]) && fixed_len(&args[1]),
        "distinct" => fixed_len(&args[0]),
        _ => true,
    }
}

pub fn run(seed: u64, thorough: bool, out: &mut Out) {
    // the known finding: `permute` also relates a list to the permutations of its SUB-lists, because
    // `rember` succeeds when the element is absent; pinned by the repository's own test_permute_1
    record(&Query { rel: "permute", args: vec![T::list(vec![T::Num(1), T::Num(2)]), T::Var(0)], nq: 1, finite: true, known: true, tails: vec![] }, out);
    let n = if thorough { 12000 } else { 900 };
    for i in 0..n {
        let mut r = Rng::new(seed, 24, i);
        let (rel, arity) = *r.pick(&RELS);
        let mut nq = 0;
        let mut args: Vec<T> = vec![];
        let mut tails: Vec<usize> = vec![];
        for pos in 0..arity {
            let list_pos = is_list_pos(rel, pos);
            let a = match r.below(5) {
                // partially ground: a list term with an OPEN TAIL `[e1, .., ek | t]` passed directly as the argument
                4 if list_pos => {
                    let es: Vec<T> = (0..1 + r.below(2)).map(|_| T::Num(r.range(1, 3) as isize)).collect();
                    nq += 1;
                    tails.push(nq - 1);
                    out.stat("open_tailed_list_arguments");
                    es.into_iter().rev().fold(T::Var(nq - 1), |tl, h| T::cons(h, tl))
                }
                // a fresh variable standing for the whole argument
                0 => {
                    nq += 1;
                    T::Var(nq - 1)
                }
                // partially ground: a list with a variable element (element variables are query variables too)
                1 if list_pos => {
                    let mut es: Vec<T> = (0..1 + r.below(3)).map(|_| T::Num(r.range(1, 3) as isize)).collect();
                    let k = r.below(es.len());
                    nq += 1;
                    es[k] = T::Var(nq - 1);
                    T::list(es)
                }
                _ => {
                    if list_pos {
                        ground_list(&mut r, 4)
                    } else {
                        T::Num(r.range(1, 3) as isize)
                    }
                }
            };
            args.push(a);
        }
        if nq > 3 {
            continue;
        }
        // stay out of the known finding's region: permute only between proper lists of the same length
        if rel == "permute" {
            let (a, b) = (as_vec(&args[0]), as_vec(&args[1]));
            match (a, b) {
                (Some(x), Some(y)) if x.len() == y.len() => {}
                _ => {
                    out.stat("skipped_permute_in_known_finding_region");
                    continue;
                }
            }
        }
        let finite = mode_finite(rel, &args);
        record(&Query { rel, args, nq, finite, known: false, tails: tails.clone() }, out);
    }
    if thorough {
        // exhaustive: every relation, every mode with whole-argument variables or ground lists of length <= 2 over {1,2}
        let lists: Vec<T> = vec![T::Nil, T::list(vec![T::Num(1)]), T::list(vec![T::Num(1), T::Num(2)]), T::list(vec![T::Num(2), T::Num(2)])];
        for (rel, arity) in RELS.iter() {
            let choices: Vec<Vec<Option<T>>> = (0..*arity)
                .map(|pos| {
                    let mut c: Vec<Option<T>> = vec![None];
                    if is_list_pos(rel, pos) {
                        c.extend(lists.iter().cloned().map(Some));
                    } else {
                        c.push(Some(T::Num(1)));
                        c.push(Some(T::Num(2)));
                    }
                    c
                })
                .collect();
            let total: usize = choices.iter().map(|c| c.len()).product();
            for code in 0..total {
                let mut k = code;
                let mut nq = 0;
                let tails: Vec<usize> = vec![];
                let args: Vec<T> = choices
                    .iter()
                    .map(|c| {
                        let x = c[k % c.len()].clone();
                        k /= c.len();
                        match x {
                            Some(t) => t,
                            None => {
                                nq += 1;
                                T::Var(nq - 1)
                            }
                        }
                    })
                    .collect();
                if *rel == "permute" {
                    match (as_vec(&args[0]), as_vec(&args[1])) {
                        (Some(x), Some(y)) if x.len() == y.len() => {}
                        _ => continue,
                    }
                }
                let finite = mode_finite(rel, &args);
                out.stat("exhaustive_modes");
                record(&Query { rel, args, nq, finite, known: false, tails: tails.clone() }, out);
            }
        }
        out.exhaustive = true;
        out.notes.push("thorough: every relation in every mode over whole-argument variables and ground lists of length <= 2 over {1,2}".into());
    }
}
