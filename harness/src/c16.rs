//! C16 — CLP(FD) answers satisfy every posted constraint;  C17 — labelling returns every solution exactly once.
//! One generator, one run per program; each property evaluates its own half of the brute-force oracle.
use crate::fdgen::*;
use crate::out::Out;
use crate::prog::*;
use crate::rng::Rng;
use crate::term::T;

pub const LO: isize = -4;
pub const HI: isize = 4;

/// `which`: 16 = soundness half, 17 = completeness/uniqueness half
pub fn eval(p: &Prog, which: u32) -> (String, Option<String>, bool, u64) {
    // labelling enumerates whole domain products: a generous budget, so that only a genuinely diverging
    // run is cut short
    let out = run_prog_b(p, 3_000_000);
    let fuel = model_fuel(&out);
    let line = show_run(&out, false);
    let answers = match &out {
        RunOut::Answers(a, _) => a,
        RunOut::Budget(_) => {
            return (line, if which == 17 { Some("finite-domain program did not finish within 3,000,000 engine steps (answers lost to divergence)".into()) } else { None }, true, fuel)
        }
        RunOut::Panic(s) => {
            // C23 owns panics on well-formed programs; here a panic is reported by the half that lost answers
            return (line, if which == 17 { Some(format!("panic at {}", s)) } else { None }, true, fuel);
        }
    };
    // outside the property (a replayed / shrunk case line that lost a domain): not judged
    if !fd_well_formed(p) {
        if std::env::var("PV_WF_DEBUG").is_ok() { eprintln!("NOTWF {}", p.line()); }
        return (line, None, false, fuel);
    }
    let (wlo, whi) = window(&p.body);
    // a query variable bound to a list / compound term of FD variables: `q == S(x1..xn)` as the first goal
    if let Some(PG::Eq(T::Var(0), s)) = p.body.first() {
        if p.nq == 1 && !matches!(s, T::Var(_) | T::Num(_)) {
            let mut proj = vec![];
            s.vars(&mut proj);
            proj.sort();
            proj.dedup();
            let sols = match fd_solutions_proj(p.nvars, &proj, &p.body[1..], wlo, whi) {
                Some(x) => x,
                None => return (line, None, false, fuel),
            };
            let want: Vec<String> = sols
                .iter()
                .map(|a| {
                    let t = s.subst(&|x| match x {
                        T::Var(k) => proj.iter().position(|i| i == k).map(|i| T::Num(a[i])),
                        _ => None,
                    });
                    Ans { terms: vec![t], constraints: vec![], relevant: vec![vec![]], constrained: vec![false], counters: None }.show("")
                })
                .collect();
            let got: Vec<String> = answers.iter().map(|a| a.show("")).collect();
            let mut fail = None;
            if which == 16 {
                for g in &got {
                    if !want.contains(g) {
                        fail = Some(format!("answer `{}` is not a solution (structured query term)", g));
                        break;
                    }
                }
            } else {
                let (mut w, mut g) = (want.clone(), got.clone());
                w.sort();
                g.sort();
                if w != g {
                    fail = Some(format!("labelling through the structured query term returned {} answers, {} solutions expected (each exactly once)", got.len(), want.len()));
                }
            }
            return (line, fail, want.len() > 1, fuel);
        }
    }
    let sols = match fd_solutions(p.nvars, p.nq, &p.body, wlo, whi) {
        Some(s) => s,
        None => return (line, None, false, fuel),
    };
    let mut fail = None;
    let mut tuples: Vec<Vec<isize>> = vec![];
    for a in answers {
        match int_tuple(a) {
            Some(t) => tuples.push(t),
            None => {
                if which == 16 {
                    fail = Some(format!("answer `{}` leaves a constrained query variable without an integer", a.show("")));
                }
            }
        }
    }
    if which == 16 {
        for t in &tuples {
            if fail.is_none() && !sols.contains(t) {
                fail = Some(format!("answer {:?} does not satisfy the posted constraints within the domains (no extension to a solution)", t));
            }
        }
    } else {
        let mut distinct = sols.clone();
        distinct.dedup();
        for s in &distinct {
            let want = sols.iter().filter(|t| *t == s).count();
            let n = tuples.iter().filter(|t| *t == s).count();
            if n != want && fail.is_none() {
                fail = Some(format!("solution {:?} is returned {} times (expected {}: once per disjunction path it satisfies); {} solutions, {} answers", s, n, want, sols.len(), tuples.len()));
            }
        }
    }
    (line, fail, sols.len() > 1 || !tuples.is_empty(), fuel)
}

fn corpus() -> Vec<&'static str> {
    vec![
        // D11: a propagator binding its own operand
        "prog 1 1 0 - infd v0 I 1 3 plusfd v0 v0 v0",
        // D12: distinctfd on variables that are already bound
        "prog 2 2 0 - eq v0 i1 eq v1 i1 distinctfd cons v0 cons v1 nil",
        // D14: timesfd with mixed signs
        "prog 2 2 0 - infd v0 I -2 2 infd v1 I -2 2 timesfd v0 v1 i-2",
        // D13 (hash-order dependent before the repairs)
        "prog 5 3 0 - infd v0 I 0 6 infd v1 I 0 6 infd v2 I 0 6 infd v3 I 0 6 infd v4 I 0 6 plusfd v0 v1 v3 plusfd v1 v2 v4 ltefd v3 v4 diseqfd v0 v2 ltefd v2 v3 plusfd v0 v4 i7 distinctfd cons v0 cons v1 cons v2 nil",
        "prog 2 2 0 - infd v0 I 0 3 infd v1 I 0 3 ltfd v0 v1",
        "prog 2 1 0 - infd v0 I 0 3 infd v1 V 3 1 3 3 minusfd v0 v1 v0",
        "prog 3 3 0 - infd v0 I 1 3 infd v1 I 1 3 infd v2 I 1 3 distinctfd cons v0 cons v1 cons v2 nil",
        "prog 2 2 0 - ltefd v0 v1 infd v0 I 2 4 infd v1 I 0 3",
        "prog 2 2 0 - infd cons v0 cons v1 nil I 0 2 diseqfd v0 v1 eq v0 v1",
        // a second domain with the same bounds and holes inside (C17-e), and through a unification of two domain variables
        "prog 1 1 0 - infd v0 I 0 4 infd v0 V 3 0 2 4",
        "prog 2 2 0 - infd v0 V 3 0 2 4 infd v1 I 0 4 eq v1 v0",
        "prog 2 2 0 - infd v0 V 3 0 2 4 infd v1 I 0 4 eq v0 v1",
        // one unification binding two domain variables (C09-k)
        "prog 3 3 0 - infd v0 I 0 5 infd v1 V 3 1 2 3 infd v2 V 3 2 3 4 eq cons v1 cons v2 nil cons v0 cons v0 nil",
        "prog 3 1 0 - infd v1 V 3 1 2 3 infd v2 V 3 1 2 3 eq cons v1 cons v2 nil cons i5 cons i2 nil eq v0 cons v1 cons v2 nil",
        // the seeds' own programs: distinct cascade (C16-k), hidden product (C17-k), aliased operands (C04-k)
        "prog 2 2 0 - infd v0 V 2 2 5 infd v1 I 0 5 ltefd v1 v0 distinctfd cons v0 cons v1 cons i5 nil",
        "prog 3 1 0 - infd v0 I 0 1 infd v1 I -3 2 infd v2 I -3 2 timesfd v1 v2 i4",
        "prog 4 2 0 - infd cons v0 cons v1 cons v2 cons v3 nil V 3 1 2 3 ltefd v0 v1 eq v0 v2 eq v1 v3 ltefd i3 v2 conde 2 1 eq v3 i3 1 ltefd v3 i1",
        // D15: labelling through a compound / list query term
        "prog 3 1 0 - eq v0 comp0 cons v1 cons v2 nil infd v1 I 0 1 infd v2 I 0 1",
        "prog 3 1 0 - eq v0 cons v1 cons cons v2 nil nil infd v1 I 0 1 infd v2 V 2 3 5 ltfd v1 v2",
    ]
}

fn record(p: &Prog, which: u32, out: &mut Out) {
    let (line, fail, nt, fuel) = eval(p, which);
    if line == "none" {
        out.stat("programs_without_answers");
    }
    out.push(p.line_f(fuel), line, fail, nt);
    // How far domains are pruned, and which entailed constraints are dropped, depends on the order in which the
    // propagators run (hash order in the implementation — cf. D21; the DESCRIBED SOLUTIONS do not: C09_order_independent_fd):
    // the representation of a state is a function of the program only when at most ONE propagator is involved.
    let props: usize = p.body.iter().map(|g| match g {
        PG::InFd(..) | PG::Eq(..) => 0,
        PG::LtFd(..) => 2, // ltfd posts two propagators (diseqfd and ltefd)
        _ => 1,
    }).sum();
    if which == 16 && props <= 1 {
        // STATE-LEVEL correspondence: the same program run raw (the states its body goal produces, before
        // labelling and reification); of every delivered state the substitution of every program variable, the
        // finite-domain store and the constraint store are dumped and compared with the model's state — the
        // objects the global theorems (Sem, WFS, Inv) speak about
        let d = Prog { nq: p.nvars, raw: true, take: 0, ..p.clone() };
        let dump = run_raw_dump(&d, 3_000_000);
        let t = last_ticks();
        let fuel = if dump.ends_with("BUDGET") { 1500 } else { 4 * t + 200 };
        out.stat("state_dumps");
        if dump.contains("C[") && !dump.contains("C[]") {
            out.stat("state_dumps_with_pending_constraints");
        }
        out.push(d.line_f(fuel).replacen(" raw", " rst", 1), dump, None, true);
    }
}

pub fn replay(line: &str, which: u32, out: &mut Out) {
    let p = Prog::parse(line);
    if line.split_whitespace().nth(4).map(|f| f.starts_with("rst")).unwrap_or(false) {
        // a state-dump case: replay the dump alone
        let dump = run_raw_dump(&p, 3_000_000);
        let t = last_ticks();
        let fuel = if dump.ends_with("BUDGET") { 1500 } else { 4 * t + 200 };
        out.push(p.line_f(fuel).replacen(" raw", " rst", 1), dump, None, true);
        return;
    }
    record(&p, which, out);
}

pub fn gen_prog(r: &mut Rng) -> Prog {
    if r.chance(1, 6) {
        let (nvars, nq, body) = crate::fdgen::scenario(r);
        return Prog { nvars, nq, take: 0, body, raw: false };
    }
    let nv = 1 + r.below(4);
    let signs = r.chance(1, 2);
    let g = FdGen { nv, lo: LO, hi: HI, signs };
    let k = 1 + r.below(5);
    let mut body = g.conj(r, k);
    if r.chance(1, 6) {
        // a disjunction of constraint groups
        let c1: Vec<PG> = (0..1 + r.below(2)).map(|_| g.constraint(r)).collect();
        let c2: Vec<PG> = (0..1 + r.below(2)).map(|_| g.constraint(r)).collect();
        let pos = r.below(body.len() + 1);
        body.insert(pos, PG::Conde(vec![c1, c2]));
    }
    if r.chance(1, 8) {
        // the query variable is a list / pair / nested list of the FD variables
        let shift = |t: &T| t.subst(&|x| match x { T::Var(k) => Some(T::Var(k + 1)), _ => None });
        let body: Vec<PG> = body.iter().map(|g| shift_goal(g, &shift)).collect();
        let vs: Vec<T> = (1..=nv).map(T::Var).collect();
        let s = match r.below(3) {
            0 => T::list(vs.clone()),
            1 => T::Comp(0, vec![vs[0].clone(), T::list(vs[1..].to_vec())]),
            _ => T::cons(vs[0].clone(), T::list(vec![T::list(vs[1..].to_vec()), T::Num(7)])),
        };
        let mut b = vec![PG::Eq(T::Var(0), s)];
        b.extend(body);
        return Prog { nvars: nv + 1, nq: 1, take: 0, body: b, raw: false };
    }
    let nq = 1 + r.below(nv);
    Prog { nvars: nv, nq, take: 0, body, raw: false }
}

pub fn shift_goal(g: &PG, f: &dyn Fn(&T) -> T) -> PG {
    match g {
        PG::InFd(x, d) => PG::InFd(f(x), d.clone()),
        PG::PlusFd(a, b, c) => PG::PlusFd(f(a), f(b), f(c)),
        PG::MinusFd(a, b, c) => PG::MinusFd(f(a), f(b), f(c)),
        PG::TimesFd(a, b, c) => PG::TimesFd(f(a), f(b), f(c)),
        PG::LteFd(a, b) => PG::LteFd(f(a), f(b)),
        PG::LtFd(a, b) => PG::LtFd(f(a), f(b)),
        PG::DiseqFd(a, b) => PG::DiseqFd(f(a), f(b)),
        PG::DistinctFd(a) => PG::DistinctFd(f(a)),
        PG::Eq(a, b) => PG::Eq(f(a), f(b)),
        PG::Conde(cs) => PG::Conde(cs.iter().map(|c| c.iter().map(|x| shift_goal(x, f)).collect()).collect()),
        other => other.clone(),
    }
}

pub fn run(seed: u64, thorough: bool, which: u32, out: &mut Out) {
    for l in corpus() {
        out.stat("corpus");
        replay(l, which, out);
    }
    let n = if thorough { 40000 } else { 1500 };
    for i in 0..n {
        let mut r = Rng::new(seed, 16, i);
        let p = gen_prog(&mut r);
        for g in &p.body {
            let k = match g {
                PG::PlusFd(..) => "plusfd",
                PG::MinusFd(..) => "minusfd",
                PG::TimesFd(..) => "timesfd",
                PG::LteFd(..) => "ltefd",
                PG::LtFd(..) => "ltfd",
                PG::DiseqFd(..) => "diseqfd",
                PG::DistinctFd(..) => "distinctfd",
                PG::Eq(..) => "eq",
                PG::Conde(..) => "conde",
                _ => "infd",
            };
            out.stat(&format!("atoms_{}", k));
        }
        if p.nq < p.nvars {
            out.stat("programs_with_hidden_fd_variables");
        }
        record(&p, which, out);
    }
    // SMALL SCOPE, EXHAUSTIVE (both tiers): 2 variables, every ordered pair of constraints from a fixed alphabet, under
    // 3 placements of the domain goals and 2 (quick) / 4 (thorough) choices of domains — the chains of events that random
    // conjunctions reach rarely (a collapse inside distinctfd waking another constraint, a unification binding both
    // variables, a bound operand met at posting time …) are all in here when they fit in two constraints.
    let v = |k: usize| T::Var(k);
    let n = |k: isize| T::Num(k);
    let cs: Vec<PG> = vec![
        PG::PlusFd(v(0), v(1), v(0)), PG::PlusFd(v(0), v(0), v(1)), PG::PlusFd(v(0), v(1), n(1)), PG::PlusFd(v(0), n(1), v(1)),
        PG::MinusFd(v(0), v(1), v(1)), PG::MinusFd(v(0), v(1), n(1)), PG::TimesFd(v(0), v(1), n(-2)), PG::TimesFd(v(0), v(0), v(1)),
        PG::TimesFd(v(0), v(1), v(0)), PG::TimesFd(v(0), v(1), n(0)), PG::LteFd(v(0), v(1)), PG::LteFd(v(1), v(0)), PG::LtFd(v(1), v(0)),
        PG::LteFd(n(1), v(0)), PG::LteFd(v(1), n(0)), PG::DiseqFd(v(0), v(1)), PG::DiseqFd(v(0), n(0)),
        PG::DistinctFd(T::list(vec![v(0), v(1), n(0)])), PG::DistinctFd(T::list(vec![n(2), v(1), v(0)])), PG::DistinctFd(T::list(vec![v(0), v(1)])),
        PG::Eq(v(0), v(1)), PG::Eq(v(1), v(0)), PG::Eq(v(0), n(-1)), PG::Eq(T::list(vec![v(0), v(1)]), T::list(vec![n(0), n(2)])),
        PG::Eq(T::list(vec![n(1), n(1)]), T::list(vec![v(0), v(1)])),
    ];
    let dom_choices: Vec<(D, D)> = if thorough {
        vec![(D::I(-2, 2), D::I(-2, 2)), (D::V(vec![-2, 0, 2]), D::I(0, 2)), (D::I(0, 1), D::V(vec![-1, 1, 2])), (D::V(vec![0, 2]), D::I(-1, 2))]
    } else {
        vec![(D::I(-2, 2), D::I(-2, 2)), (D::V(vec![-2, 0, 2]), D::I(0, 2))]
    };
    for (dx, dy) in &dom_choices {
        for a in &cs {
            for b in &cs {
                for order in 0..3 {
                    let doms = vec![PG::InFd(v(0), dx.clone()), PG::InFd(v(1), dy.clone())];
                    let body = match order {
                        0 => vec![doms[0].clone(), doms[1].clone(), a.clone(), b.clone()],
                        1 => vec![a.clone(), doms[0].clone(), b.clone(), doms[1].clone()],
                        _ => vec![a.clone(), b.clone(), doms[1].clone(), doms[0].clone()],
                    };
                    out.stat("exhaustive_pairs");
                    record(&Prog { nvars: 2, nq: 2, take: 0, body, raw: false }, which, out);
                }
            }
        }
    }
    // … and with a HIDDEN pair: the query variable q, two variables that are not part of the query, every constraint pair
    // of a smaller alphabet over them (hidden variables are labelled under onceo: one answer per q value that has a completion)
    let hs: Vec<PG> = vec![
        PG::TimesFd(v(1), v(2), n(4)), PG::TimesFd(v(1), v(2), n(-2)), PG::PlusFd(v(1), v(2), v(0)), PG::PlusFd(v(0), v(1), v(2)),
        PG::LteFd(v(1), v(2)), PG::LteFd(v(0), v(1)), PG::DiseqFd(v(1), v(2)), PG::DiseqFd(v(0), v(2)),
        PG::DistinctFd(T::list(vec![v(0), v(1), v(2)])), PG::Eq(v(1), v(2)), PG::TimesFd(v(1), v(1), v(2)),
    ];
    for a in &hs {
        for b in &hs {
            for order in 0..2 {
                let doms = vec![PG::InFd(v(0), D::I(0, 1)), PG::InFd(v(1), D::I(-3, 2)), PG::InFd(v(2), D::I(-3, 2))];
                let body = match order {
                    0 => vec![doms[0].clone(), doms[1].clone(), doms[2].clone(), a.clone(), b.clone()],
                    _ => vec![a.clone(), doms[1].clone(), doms[0].clone(), b.clone(), doms[2].clone()],
                };
                out.stat("exhaustive_hidden_pairs");
                record(&Prog { nvars: 3, nq: 1, take: 0, body, raw: false }, which, out);
            }
        }
    }
    out.exhaustive = true;
    out.notes.push(format!("every ordered pair of {} constraints over 2 variables under 3 domain placements and {} domain choices; every ordered pair of {} constraints over a query variable and two hidden variables under 2 placements", cs.len(), dom_choices.len(), hs.len()));
}
