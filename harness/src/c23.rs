//! C23 — solving well-formed programs never panics.
//!
//! WELL-FORMED stream: programs from every generator of this framework (tree constraints, search with
//! committed choice and infinite producers on bounded prefixes, FD, CLP(Z), compounds, library relations in
//! every mode, project reached at most once), run under `catch_unwind`.  Oracle: no panic at all — an
//! unsatisfiable program simply has no answers.  (Known finding D16: project reached twice, by call site.)
//! MALFORMED stream (the well-formedness boundary): operands of undocumented kinds, FD operands that never
//! get a domain, non-number constants in distinctfd.  No oracle claim; the model must predict the panic
//! SITE (a small enum derived from the panic message), so the boundary is where the model says it is.
use crate::c16;
use crate::out::Out;
use crate::prog::*;
use crate::rng::Rng;
use crate::search::SearchGen;
use crate::term::T;
use crate::tree::TreeGen;

/// runs the program with goal construction inside `catch_unwind` too (constructors `assert!` their operands)
fn run_all(p: &Prog) -> (RunOut, u64) {
    match crate::catch(|| run_prog_b(p, 200_000)) {
        Ok(o) => {
            let f = model_fuel(&o);
            (o, f)
        }
        Err(loc) => (RunOut::Panic(loc), 200),
    }
}

fn observable(o: &RunOut) -> String {
    match o {
        RunOut::Panic(loc) => {
            let msg = crate::LAST_PANIC_MSG.with(|m| m.borrow().clone());
            format!("PANIC {} {}", crate::canon_site(&msg, loc), loc)
        }
        other => show_run(other, false),
    }
}

fn record(p: &Prog, wellformed: bool, kind: &str, out: &mut Out) {
    crate::mark(&p.line());
    let (o, fuel) = run_all(p);
    let line = observable(&o);
    out.stat(&format!("{}_{}", if wellformed { "wf" } else { "malformed" }, kind));
    let panicked = line.starts_with("PANIC");
    if panicked {
        out.stat(&format!("panic_{}", line.split_whitespace().nth(1).unwrap_or("?")));
    }
    if wellformed && panicked && line.contains("lterm.rs:143") && kind == "project_twice" {
        out.push_tagged("KF:C11-project-twice", String::new(), line.clone(), Some("project reached twice panics (known finding D16)".into()), true);
        return;
    }
    let fail = if wellformed && panicked { Some(format!("a well-formed program panicked: {}", line)) } else { None };
    out.push(p.line_f(fuel), line, fail, true);
}

pub fn replay(line: &str, out: &mut Out) {
    // a replayed line is judged as well-formed unless it is one of the malformed shapes below
    let p = Prog::parse(line);
    let mal = line.contains("MALFORMED");
    // a replayed FD program that lost a domain (a shrunk case) is not well-formed: `verify_all_bound` panics on any tree
    let has_fd = line.contains("fd ");
    let wf = !mal && (!has_fd || crate::fdgen::fd_well_formed(&p));
    record(&p, wf, "replay", out);
}

fn clpz_prog(r: &mut Rng) -> Prog {
    let nv = 1 + r.below(3);
    let var = |r: &mut Rng| T::Var(r.below(nv));
    // zero is the edge value of every quotient arm: one number in four
    let num = |r: &mut Rng| T::Num(if r.chance(1, 4) { 0 } else { r.range(-5, 5) as isize });
    let op = |r: &mut Rng| if r.chance(2, 5) { num(r) } else { var(r) };
    let mut body: Vec<PG> = (0..1 + r.below(3))
        .map(|_| if r.chance(1, 2) { PG::PlusZ(op(r), op(r), op(r)) } else { PG::TimesZ(op(r), op(r), op(r)) })
        .collect();
    for _ in 0..r.below(4) {
        let pos = r.below(body.len() + 1);
        body.insert(pos, PG::Eq(var(r), num(r)));
    }
    // tree disequalities on the operands, mostly posted BEFORE the constraint that determines the operand: a stored
    // disequality must be re-run (and its key re-normalised) when CLP(Z) binds its variable (seeded change C23-j)
    if r.chance(1, 2) {
        for _ in 0..1 + r.below(2) {
            let pos = if r.chance(2, 3) { 0 } else { r.below(body.len() + 1) };
            let rhs = if r.chance(2, 3) { num(r) } else { var(r) };
            let (a, b) = (var(r), rhs);
            body.insert(pos, if r.chance(1, 2) { PG::Neq(a, b) } else { PG::Neq(b, a) });
        }
    }
    Prog { nvars: nv, nq: nv, take: 0, body, raw: false }
}

/// FD constraints over HIDDEN variables one of which is aliased to a further variable by `==` (either direction,
/// before or after the constraint is posted), the query variable unrelated: the constraint is still pending when the
/// query term has been labelled, and `verify_all_bound` must find the domain of the aliased operand through the
/// substitution (seeded change C23-g)
fn fd_alias_prog(r: &mut Rng) -> Prog {
    let dom = |r: &mut Rng| {
        let lo = r.range(-2, 2) as isize;
        D::I(lo, lo + 1 + r.below(3) as isize)
    };
    let (x, y, a) = (T::Var(1), T::Var(2), T::Var(3));
    let c = match r.below(5) {
        0 => PG::LteFd(x.clone(), y.clone()),
        1 => PG::DiseqFd(x.clone(), y.clone()),
        2 => PG::PlusFd(x.clone(), y.clone(), T::Num(r.range(0, 3) as isize)),
        3 => PG::LtFd(y.clone(), x.clone()),
        _ => PG::MinusFd(x.clone(), T::Num(1), y.clone()),
    };
    let alias = if r.chance(1, 2) { PG::Eq(x.clone(), a.clone()) } else { PG::Eq(a.clone(), x.clone()) };
    let mut body = vec![PG::InFd(x, dom(r)), PG::InFd(y, dom(r)), c];
    let pos = r.below(body.len() + 1);
    body.insert(pos, alias);
    if r.chance(1, 2) {
        let pos = r.below(body.len() + 1);
        body.insert(pos, PG::Eq(T::Var(0), T::Num(1)));
    }
    if r.chance(1, 3) {
        let pos = r.below(body.len() + 1);
        body.insert(pos, PG::InFd(a, dom(r)));
    }
    Prog { nvars: 4, nq: 1, take: 0, body, raw: false }
}

fn relation_prog(r: &mut Rng) -> Prog {
    let rels: [(&str, usize); 6] = [("member", 2), ("member1", 2), ("append", 3), ("rember", 3), ("distinct", 1), ("permute", 2)];
    let (rel, ar) = *r.pick(&rels);
    let mut nq = 0;
    let args: Vec<T> = (0..ar)
        .map(|_| match r.below(3) {
            0 => {
                nq += 1;
                T::Var(nq - 1)
            }
            1 => T::list((0..r.below(4)).map(|_| T::Num(r.range(1, 3) as isize)).collect()),
            _ => T::Num(r.range(1, 3) as isize),
        })
        .collect();
    Prog { nvars: nq.max(1), nq: nq.max(1), take: 12, body: vec![PG::Call(rel.into(), args)], raw: false }
}

pub fn run(seed: u64, thorough: bool, out: &mut Out) {
    // every sign / zero / groundness pattern of a single CLP(Z) constraint, operands ground before or after posting
    for p in crate::c19::edge_singles() {
        record(&p, true, "clpz_edge", out);
    }
    let n = if thorough { 5000 } else { 250 };
    for i in 0..n {
        let mut r = Rng::new(seed, 23, i);
        // tree
        let g = TreeGen { nq: 1 + r.below(2), nh: r.below(3), compounds: r.chance(1, 2), max_atoms: 6, conde: r.chance(1, 2) };
        record(&g.prog(&mut r), true, "tree", out);
        // search with committed choice and infinite producers
        let sg = SearchGen { nq: 1 + r.below(2), nh: r.below(2), dfs_safe: false, committed: true, calls: true };
        let mut body: Vec<PG> = (0..1 + r.below(2)).map(|_| sg.goal(&mut r, 2)).collect();
        let mut take = 0;
        if r.chance(1, 3) {
            take = 6;
            body.push(match r.below(3) {
                0 => PG::Loop(vec![vec![sg.goal(&mut r, 1)]]),
                1 => PG::Always,
                _ => PG::Call("member".into(), vec![T::Num(1), T::Var(0)]),
            });
        }
        if r.chance(1, 4) {
            body = vec![PG::Dfs(vec![SearchGen { dfs_safe: true, committed: false, ..sg }.goal(&mut r, 2)])];
            take = 0;
        }
        record(&Prog { nvars: sg.nq + sg.nh, nq: sg.nq, take, body, raw: false }, true, "search", out);
        // FD (incl. structured query terms and hidden variables), CLP(Z), relations, compounds
        record(&c16::gen_prog(&mut r), true, "fd", out);
        record(&fd_alias_prog(&mut r), true, "fd_aliased_hidden", out);
        record(&clpz_prog(&mut r), true, "clpz", out);
        record(&relation_prog(&mut r), true, "relations", out);
        // project: reached once (well-formed, must not panic) / twice (known finding)
        let twice = r.chance(1, 6);
        let mut pb: Vec<PG> = vec![];
        if twice {
            pb.push(PG::Call("member".into(), vec![T::Var(1), T::list(vec![T::Num(1), T::Num(2)])]));
        } else if r.chance(1, 2) {
            pb.push(PG::Eq(T::Var(1), T::list(vec![T::Num(r.range(1, 3) as isize), T::Var(2)])));
        }
        pb.push(PG::Project(vec![1], vec![PG::IsGround(T::Var(900)), PG::Eq(T::Var(0), T::Var(900))]));
        record(&Prog { nvars: 3, nq: 1, take: 0, body: pb, raw: false }, true, if twice { "project_twice" } else { "project_once" }, out);
        // MALFORMED stream
        let v = |k: usize| T::Var(k);
        let bad = match r.below(6) {
            // an FD / Z operand of an undocumented kind: the constructor asserts
            0 => vec![PG::PlusFd(T::list(vec![T::Num(1)]), v(0), v(1))],
            1 => vec![PG::LteFd(v(0), T::Bool(true))],
            2 => vec![PG::PlusZ(v(0), T::Nil, v(1))],
            // FD operands that never get a domain
            3 => vec![PG::PlusFd(v(0), v(1), v(2))],
            4 => vec![PG::InFd(v(0), D::I(0, 2)), PG::LteFd(v(0), v(1))],
            // a non-number constant in distinctfd
            _ => vec![PG::InFd(v(0), D::I(0, 2)), PG::DistinctFd(T::list(vec![v(0), T::Bool(true)]))],
        };
        record(&Prog { nvars: 3, nq: 3, take: 0, body: bad, raw: false }, false, "boundary", out);
    }
}
