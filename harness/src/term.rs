//! Term AST shared by all tree-level generators: building real `LTerm`s, reading terms back from
//! `LTerm`s, the token syntax of the line protocol, canonical renaming.
use crate::rng::Rng;
use proto_vulcan::compound::CompoundObject;
use proto_vulcan::lterm::{LTerm, LTermInner};
use proto_vulcan::lvalue::LValue;
use proto_vulcan::prelude::*;
use std::collections::HashMap;

#[compound]
pub struct P3(LTerm, LTerm, LTerm);

#[compound]
pub struct Named {
    a: LTerm,
    b: LTerm,
}

#[compound]
pub struct Slot(Option<P3>, LTerm);

/// the Option field AFTER a term field (reification / walks that treat non-term children differently from term
/// children see an earlier sibling here — seeded change C03-e)
#[compound]
pub struct Tols(LTerm, Option<P3>);

pub fn mk_tols(t: LT, inner: Option<(LT, LT, LT)>) -> LT {
    match inner {
        Some((a, b, c)) => Tols_compound::_InnerTols(t, Some(Into::<P3<DU, DE>>::into(P3_compound::_InnerP3(a, b, c)))).into(),
        None => Tols_compound::_InnerTols(t, None).into(),
    }
}

pub fn mk_slot(inner: Option<(LT, LT, LT)>, t: LT) -> LT {
    match inner {
        Some((a, b, c)) => Slot_compound::_InnerSlot(Some(Into::<P3<DU, DE>>::into(P3_compound::_InnerP3(a, b, c))), t).into(),
        None => Slot_compound::_InnerSlot(None, t).into(),
    }
}

/// The instrumented `User` type every harness run uses: it counts the constraint-lifecycle hook calls
/// and the extensions passed to `process_extension`; it never changes the search (C22 observes it,
/// every other property is indifferent to it).
#[derive(Debug, Clone, Default)]
pub struct CountUser {
    pub withs: usize,
    pub takes: usize,
    pub ext_calls: usize,
    pub ext_total: usize,
    /// `==` goals of the program solved successfully on the path to this state (counted by a tick goal the
    /// harness puts behind every `==` in counter mode — independent of the hooks)
    pub eq_goals: usize,
    /// hashes of the variables reported to `process_extension` on the path to this state: a variable is bound once, so it is
    /// reported once ("exactly that unification's NEW bindings"; seeded change C22-m reported the aliased left operand again
    /// instead of the variable it walked to)
    pub ext_keys: Vec<u64>,
}

impl proto_vulcan::user::User for CountUser {
    type UserTerm = ();
    type UserContext = ();

    fn process_extension<E: proto_vulcan::engine::Engine<Self>>(
        mut state: proto_vulcan::state::State<Self, E>,
        extension: &proto_vulcan::state::SMap<Self, E>,
    ) -> proto_vulcan::state::SResult<Self, E> {
        let n = extension.iter().count();
        // every reported binding must be in force in the state the hook sees
        for (k, _) in extension.iter() {
            if state.smap_ref().walk(k) == k {
                EXT_VIOLATION.with(|v| *v.borrow_mut() = Some("process_extension was given a binding that is not in the substitution".to_string()));
            }
        }
        for (k, _) in extension.iter() {
            use std::hash::{Hash, Hasher};
            let mut h = std::collections::hash_map::DefaultHasher::new();
            k.hash(&mut h);
            let id = h.finish();
            if state.user_state.ext_keys.contains(&id) {
                EXT_VIOLATION.with(|v| {
                    *v.borrow_mut() =
                        Some("process_extension was given a binding for a variable that an earlier unification on this path had already bound and reported".to_string())
                });
            }
            if !state.smap_ref().contains_key(k) {
                EXT_VIOLATION.with(|v| *v.borrow_mut() = Some("process_extension was given a key that is not a key of the substitution".to_string()));
            }
            state.user_state.ext_keys.push(id);
        }
        state.user_state.ext_calls += 1;
        state.user_state.ext_total += n;
        Ok(state)
    }

    fn with_constraint<E: proto_vulcan::engine::Engine<Self>>(
        state: &mut proto_vulcan::state::State<Self, E>,
        _constraint: &std::rc::Rc<dyn proto_vulcan::state::constraint::Constraint<Self, E>>,
    ) {
        state.user_state.withs += 1;
    }

    fn take_constraint<E: proto_vulcan::engine::Engine<Self>>(
        state: &mut proto_vulcan::state::State<Self, E>,
        _constraint: &std::rc::Rc<dyn proto_vulcan::state::constraint::Constraint<Self, E>>,
    ) {
        state.user_state.takes += 1;
    }
}

thread_local! {
    pub static EXT_VIOLATION: std::cell::RefCell<Option<String>> = std::cell::RefCell::new(None);
}

pub type DU = CountUser;
pub type DE = DefaultEngine<CountUser>;
pub type LT = LTerm<DU, DE>;

pub const STRINGS: [&str; 3] = ["a", "bc", ""];

#[derive(Clone, Debug, PartialEq, Eq, Hash, PartialOrd, Ord)]
pub enum T {
    Var(usize),
    /// reified variable `_.k` (only in observed output), canonical index
    Any(usize),
    Num(isize),
    Bool(bool),
    Chr(u32),
    Str(usize),
    Nil,
    Cons(Box<T>, Box<T>),
    /// tag 0 = Rust tuple (LTerm, LTerm); 1 = P3 (tuple struct, 3 fields); 2 = Named {a, b}
    Comp(usize, Vec<T>),
}

pub fn arity(tag: usize) -> usize {
    match tag {
        0 => 2,
        1 => 3,
        2 => 2,
        3 => 2,
        5 => 2,
        _ => 2,
    }
}

impl T {
    pub fn list(v: Vec<T>) -> T {
        let mut t = T::Nil;
        for x in v.into_iter().rev() {
            t = T::Cons(Box::new(x), Box::new(t));
        }
        t
    }
    pub fn improper(v: Vec<T>, tail: T) -> T {
        let mut t = tail;
        for x in v.into_iter().rev() {
            t = T::Cons(Box::new(x), Box::new(t));
        }
        t
    }
    pub fn cons(h: T, t: T) -> T {
        T::Cons(Box::new(h), Box::new(t))
    }

    /// token syntax (Polish): v3 a2 i-5 b1 ch97 s0 nil cons H T comp<tag> ARGS(as cons-list)
    pub fn toks(&self, out: &mut String) {
        match self {
            T::Var(k) => out.push_str(&format!("v{} ", k)),
            T::Any(k) => out.push_str(&format!("a{} ", k)),
            T::Num(n) => out.push_str(&format!("i{} ", n)),
            T::Bool(b) => out.push_str(if *b { "b1 " } else { "b0 " }),
            T::Chr(c) => out.push_str(&format!("ch{} ", c)),
            T::Str(s) => out.push_str(&format!("s{} ", s)),
            T::Nil => out.push_str("nil "),
            T::Cons(h, t) => {
                out.push_str("cons ");
                h.toks(out);
                t.toks(out);
            }
            T::Comp(tag, args) => {
                out.push_str(&format!("comp{} ", tag));
                T::list(args.clone()).toks(out);
            }
        }
    }
    pub fn text(&self) -> String {
        let mut s = String::new();
        self.toks(&mut s);
        s.trim_end().to_string()
    }

    pub fn parse(t: &mut std::slice::Iter<&str>) -> T {
        let k = *t.next().expect("term token");
        if k == "nil" {
            T::Nil
        } else if k == "cons" {
            let h = T::parse(t);
            let tl = T::parse(t);
            T::cons(h, tl)
        } else if let Some(r) = k.strip_prefix("comp") {
            let tag: usize = r.parse().unwrap();
            let args = T::parse(t);
            T::Comp(tag, args.elems().0)
        } else if let Some(r) = k.strip_prefix("ch") {
            T::Chr(r.parse().unwrap())
        } else if let Some(r) = k.strip_prefix('v') {
            T::Var(r.parse().unwrap())
        } else if let Some(r) = k.strip_prefix('a') {
            T::Any(r.parse().unwrap())
        } else if let Some(r) = k.strip_prefix('i') {
            T::Num(r.parse().unwrap())
        } else if let Some(r) = k.strip_prefix('b') {
            T::Bool(r == "1")
        } else if let Some(r) = k.strip_prefix('s') {
            T::Str(r.parse().unwrap())
        } else {
            panic!("bad term token {}", k)
        }
    }

    /// list elements and the final tail
    pub fn elems(&self) -> (Vec<T>, T) {
        let mut v = vec![];
        let mut cur = self;
        loop {
            match cur {
                T::Cons(h, t) => {
                    v.push((**h).clone());
                    cur = t;
                }
                other => return (v, other.clone()),
            }
        }
    }

    pub fn vars(&self, out: &mut Vec<usize>) {
        match self {
            T::Var(k) => out.push(*k),
            T::Cons(h, t) => {
                h.vars(out);
                t.vars(out);
            }
            T::Comp(_, a) => a.iter().for_each(|x| x.vars(out)),
            _ => {}
        }
    }
    pub fn anys(&self, out: &mut Vec<usize>) {
        match self {
            T::Any(k) => out.push(*k),
            T::Cons(h, t) => {
                h.anys(out);
                t.anys(out);
            }
            T::Comp(_, a) => a.iter().for_each(|x| x.anys(out)),
            _ => {}
        }
    }
    pub fn depth(&self) -> usize {
        match self {
            T::Cons(h, t) => 1 + h.depth().max(t.depth()),
            T::Comp(_, a) => 1 + a.iter().map(|x| x.depth()).max().unwrap_or(0),
            _ => 0,
        }
    }
    pub fn is_ground(&self) -> bool {
        let mut v = vec![];
        self.vars(&mut v);
        self.anys(&mut v);
        v.is_empty()
    }
    /// substitute variables (Var k and Any k both looked up, by separate maps)
    pub fn subst(&self, f: &dyn Fn(&T) -> Option<T>) -> T {
        if let Some(r) = f(self) {
            return r;
        }
        match self {
            T::Cons(h, t) => T::cons(h.subst(f), t.subst(f)),
            T::Comp(g, a) => T::Comp(*g, a.iter().map(|x| x.subst(f)).collect()),
            other => other.clone(),
        }
    }
}

/// Variables a raw observation contains beyond the program's own (`Var(k)`, k ≥ 1000: created by the code
/// under test; `Any(i)`: `_` pattern variables, shared by identity within one observation) renamed to hidden
/// program variables `nvars, nvars+1, …` so that a state can be re-created by unification WITH its sharing.
/// Returns the renamed terms and the number of hidden variables added.
pub fn rename_hidden(terms: &[T], nvars: usize) -> (Vec<T>, usize) {
    fn collect(t: &T, extra: &mut Vec<(bool, usize)>) {
        match t {
            T::Var(k) if *k >= 1000 => {
                if !extra.contains(&(false, *k)) {
                    extra.push((false, *k))
                }
            }
            T::Any(k) => {
                if !extra.contains(&(true, *k)) {
                    extra.push((true, *k))
                }
            }
            T::Cons(h, tl) => {
                collect(h, extra);
                collect(tl, extra)
            }
            T::Comp(_, a) => a.iter().for_each(|x| collect(x, extra)),
            _ => {}
        }
    }
    let mut extra: Vec<(bool, usize)> = vec![];
    terms.iter().for_each(|t| collect(t, &mut extra));
    let out = terms
        .iter()
        .map(|t| {
            t.subst(&|x| match x {
                T::Var(k) if *k >= 1000 => Some(T::Var(nvars + extra.iter().position(|e| *e == (false, *k)).unwrap())),
                T::Any(k) => Some(T::Var(nvars + extra.iter().position(|e| *e == (true, *k)).unwrap())),
                _ => None,
            })
        })
        .collect();
    (out, extra.len())
}

/// A table of real logic variables for one case.
#[derive(Clone)]
pub struct Vars {
    pub v: Vec<LT>,
}

impl Vars {
    pub fn new(n: usize) -> Vars {
        Vars { v: (0..n).map(|_| LT::var("x")).collect() }
    }
    pub fn ensure(&mut self, n: usize) {
        while self.v.len() < n {
            self.v.push(LT::var("x"));
        }
    }
    pub fn build(&mut self, t: &T) -> LT {
        match t {
            T::Var(k) => {
                self.ensure(*k + 1);
                self.v[*k].clone()
            }
            T::Any(_) => LT::any(),
            T::Num(n) => LT::from(*n),
            T::Bool(b) => LT::from(*b),
            T::Chr(c) => LT::from(std::char::from_u32(*c).unwrap()),
            T::Str(s) => LT::from(STRINGS[*s]),
            T::Nil => LT::empty_list(),
            T::Cons(h, tl) => {
                let h = self.build(h);
                let tl = self.build(tl);
                LT::cons(h, tl)
            }
            T::Comp(4, _) => LT::empty_list(), // an Option object is not a term on its own (only as a Slot field)
            T::Comp(3, args) => {
                // `Slot(Option<P3>, LTerm)`: the first field is `comp4 []` (None) or `comp4 [comp1 [a, b, c]]` (Some)
                let inner = match &args[0] {
                    T::Comp(4, k) if k.len() == 1 => match &k[0] {
                        T::Comp(1, abc) if abc.len() == 3 => Some((self.build(&abc[0]), self.build(&abc[1]), self.build(&abc[2]))),
                        _ => None,
                    },
                    _ => None,
                };
                let t = self.build(&args[1]);
                mk_slot(inner, t)
            }
            T::Comp(5, args) => {
                // `Tols(LTerm, Option<P3>)`: the same with the fields in the other order
                let inner = match &args[1] {
                    T::Comp(4, k) if k.len() == 1 => match &k[0] {
                        T::Comp(1, abc) if abc.len() == 3 => Some((self.build(&abc[0]), self.build(&abc[1]), self.build(&abc[2]))),
                        _ => None,
                    },
                    _ => None,
                };
                let t = self.build(&args[0]);
                mk_tols(t, inner)
            }
            T::Comp(tag, args) => {
                let a: Vec<LT> = args.iter().map(|x| self.build(x)).collect();
                match tag {
                    0 => (a[0].clone(), a[1].clone()).into(),
                    1 => P3_compound::_InnerP3(a[0].clone(), a[1].clone(), a[2].clone()).into(),
                    2 => Named_compound::_InnerNamed { a: a[0].clone(), b: a[1].clone() }.into(),
                    _ => Named_compound::_InnerNamed { a: a[0].clone(), b: a[1].clone() }.into(),
                }
            }
        }
    }
}

/// Reads an `LTerm` back into the AST. `vars`: known case variables (by identity); unknown variables
/// get indices from `extra` (fresh variables created by the code under test); `any` variables
/// (name "_") are `Any`.
pub struct Reader<'a> {
    pub vars: &'a Vars,
    pub extra: Vec<LT>,
    pub anys: Vec<LT>,
}

impl<'a> Reader<'a> {
    pub fn new(vars: &'a Vars) -> Reader<'a> {
        Reader { vars, extra: vec![], anys: vec![] }
    }
    pub fn read(&mut self, t: &LT) -> T {
        match t.as_ref() {
            LTermInner::Var(_, name) => {
                if let Some(i) = self.vars.v.iter().position(|x| x == t) {
                    return T::Var(i);
                }
                if *name == "_" {
                    if let Some(i) = self.anys.iter().position(|x| x == t) {
                        return T::Any(i);
                    }
                    self.anys.push(t.clone());
                    return T::Any(self.anys.len() - 1);
                }
                if let Some(i) = self.extra.iter().position(|x| x == t) {
                    return T::Var(1000 + i);
                }
                self.extra.push(t.clone());
                T::Var(1000 + self.extra.len() - 1)
            }
            LTermInner::Val(LValue::Number(n)) => T::Num(*n),
            LTermInner::Val(LValue::Bool(b)) => T::Bool(*b),
            LTermInner::Val(LValue::Char(c)) => T::Chr(*c as u32),
            LTermInner::Val(LValue::String(s)) => T::Str(STRINGS.iter().position(|x| x == s).unwrap_or(99)),
            LTermInner::Empty => T::Nil,
            LTermInner::Cons(h, tl) => {
                let h = self.read(h);
                let tl = self.read(tl);
                T::cons(h, tl)
            }
            LTermInner::Compound(obj) => self.read_obj(obj.as_ref()),
            _ => T::Str(97),
        }
    }
}

impl<'a> Reader<'a> {
    /// a compound object: its type and its children (terms, or nested compound objects such as an `Option` field)
    pub fn read_obj(&mut self, obj: &dyn CompoundObject<DU, DE>) -> T {
        let tag = match obj.type_name() {
            "P3" => 1,
            "Named" => 2,
            "Slot" => 3,
            "Some" | "None" => 4,
            "Tols" => 5,
            _ => 0,
        };
        let kids: Vec<T> = obj
            .children()
            .map(|c| match c.as_term() {
                Some(t) => self.read(t),
                None => self.read_obj(c),
            })
            .collect();
        T::Comp(tag, kids)
    }
}

/// Canonical renaming of a tuple of terms: variables (Var and Any alike) are renamed by first
/// occurrence, left to right, to Any(0), Any(1), …
pub fn canon(ts: &[T]) -> Vec<T> {
    let mut map: HashMap<T, usize> = HashMap::new();
    fn go(t: &T, map: &mut HashMap<T, usize>) -> T {
        match t {
            T::Var(_) | T::Any(_) => {
                let n = map.len();
                T::Any(*map.entry(t.clone()).or_insert(n))
            }
            T::Cons(h, tl) => {
                let h = go(h, map);
                let tl = go(tl, map);
                T::cons(h, tl)
            }
            T::Comp(g, a) => T::Comp(*g, a.iter().map(|x| go(x, map)).collect()),
            other => other.clone(),
        }
    }
    ts.iter().map(|t| go(t, &mut map)).collect()
}

pub fn show_tuple(ts: &[T]) -> String {
    ts.iter().map(|t| t.text()).collect::<Vec<_>>().join(" ; ")
}

/// Generator parameters for random terms.
pub struct TermGen {
    pub nvars: usize,
    pub max_depth: usize,
    pub compounds: bool,
    pub all_literals: bool,
}

impl TermGen {
    pub fn leaf(&self, r: &mut Rng) -> T {
        match r.below(10) {
            0..=3 => T::Var(r.below(self.nvars)),
            4..=6 => T::Num(r.range(1, 3) as isize),
            7 => T::Nil,
            _ => {
                if self.all_literals {
                    match r.below(4) {
                        0 => T::Bool(r.chance(1, 2)),
                        1 => T::Chr(97 + r.below(2) as u32),
                        2 => T::Str(r.below(STRINGS.len())),
                        _ => T::Num(r.range(-2, 6) as isize),
                    }
                } else {
                    T::Num(r.range(1, 3) as isize)
                }
            }
        }
    }
    pub fn term(&self, r: &mut Rng, depth: usize) -> T {
        if depth == 0 || r.chance(3, 10) {
            return self.leaf(r);
        }
        match r.below(10) {
            0..=3 => {
                let n = 1 + r.below(3);
                T::list((0..n).map(|_| self.term(r, depth - 1)).collect())
            }
            4 | 5 => {
                let n = 1 + r.below(2);
                let tail = if r.chance(2, 3) { T::Var(r.below(self.nvars)) } else { self.leaf(r) };
                T::improper((0..n).map(|_| self.term(r, depth - 1)).collect(), tail)
            }
            6 | 7 | 8 if self.compounds => {
                let tag = r.below(5);
                if tag >= 3 {
                    // a compound with an `Option` field (before or after its term field): Some(P3(..)) or None
                    let opt = self.option_field(r, depth - 1);
                    let t = self.term(r, depth - 1);
                    if tag == 3 { T::Comp(3, vec![opt, t]) } else { T::Comp(5, vec![t, opt]) }
                } else {
                    T::Comp(tag, (0..arity(tag)).map(|_| self.term(r, depth - 1)).collect())
                }
            }
            _ => T::cons(self.term(r, depth - 1), self.term(r, depth - 1)),
        }
    }
    /// the `Option<P3>` field of a `Slot` / `Tols`: `comp4 []` (None) or `comp4 [comp1 [a, b, c]]` (Some)
    pub fn option_field(&self, r: &mut Rng, depth: usize) -> T {
        if r.chance(2, 5) {
            T::Comp(4, vec![])
        } else {
            T::Comp(4, vec![T::Comp(1, (0..3).map(|_| self.term(r, depth.min(1))).collect())])
        }
    }
    /// a variant of `t`: same shape with some sub-terms replaced (to make unifiable pairs likely)
    pub fn variant(&self, r: &mut Rng, t: &T, depth: usize) -> T {
        if r.chance(1, 4) {
            return if r.chance(1, 2) { T::Var(r.below(self.nvars)) } else { self.term(r, depth.min(1)) };
        }
        // an Option field stays an Option field: flipped between Some and None, or varied inside
        let vary_opt = |gen: &TermGen, r: &mut Rng, o: &T| -> T {
            match o {
                T::Comp(4, k) if k.len() == 1 && !r.chance(1, 4) => match &k[0] {
                    T::Comp(1, abc) => T::Comp(4, vec![T::Comp(1, abc.iter().map(|x| gen.variant(r, x, depth.saturating_sub(1))).collect())]),
                    _ => o.clone(),
                },
                T::Comp(4, k) if k.is_empty() && !r.chance(1, 3) => o.clone(),
                _ => gen.option_field(r, 1),
            }
        };
        match t {
            T::Comp(3, a) => T::Comp(3, vec![vary_opt(self, r, &a[0]), self.variant(r, &a[1], depth.saturating_sub(1))]),
            T::Comp(5, a) => T::Comp(5, vec![self.variant(r, &a[0], depth.saturating_sub(1)), vary_opt(self, r, &a[1])]),
            T::Cons(h, tl) => T::cons(self.variant(r, h, depth.saturating_sub(1)), self.variant(r, tl, depth.saturating_sub(1))),
            T::Comp(g, a) => T::Comp(*g, a.iter().map(|x| self.variant(r, x, depth.saturating_sub(1))).collect()),
            other => {
                if r.chance(1, 6) {
                    self.leaf(r)
                } else {
                    other.clone()
                }
            }
        }
    }
}
