//! Generator and brute-force semantics of pure tree programs (==, !=, conj, conde, fresh) shared by
//! C02, C03, C04, C20.
use crate::prog::*;
use crate::rng::Rng;
use crate::term::*;

pub struct TreeGen {
    pub nq: usize,
    pub nh: usize,
    pub compounds: bool,
    pub max_atoms: usize,
    pub conde: bool,
}

impl TreeGen {
    fn nv(&self) -> usize {
        self.nq + self.nh
    }
    fn var(&self, r: &mut Rng) -> T {
        T::Var(r.below(self.nv()))
    }
    fn small(&self, r: &mut Rng, depth: usize) -> T {
        match r.below(12) {
            0..=3 => self.var(r),
            4..=6 => T::Num(r.range(1, 3) as isize),
            7 => T::Nil,
            8 if depth > 0 => T::list(vec![self.small(r, depth - 1)]),
            9 if depth > 0 => T::cons(self.small(r, depth - 1), self.small(r, depth - 1)),
            10 if depth > 0 && self.compounds => T::Comp(0, vec![self.small(r, depth - 1), self.small(r, depth - 1)]),
            10 if depth > 0 => T::list(vec![self.small(r, depth - 1), self.small(r, depth - 1)]),
            _ => T::Num(r.range(1, 2) as isize),
        }
    }
    fn atom(&self, r: &mut Rng, prev: &[PG]) -> PG {
        // targets: subsumption pairs, disequalities simplified or violated by later equalities
        if !prev.is_empty() && r.chance(1, 4) {
            if let PG::Neq(a, b) = r.pick(prev).clone() {
                return match r.below(4) {
                    0 => PG::Neq(T::list(vec![a, self.var(r)]), T::list(vec![b, self.small(r, 0)])), // weaker
                    1 => PG::Eq(a, b),                                                            // violates
                    2 => PG::Eq(a, self.small(r, 1)),                                             // simplifies
                    _ => PG::Neq(b, a),
                };
            }
            if let PG::Eq(a, _) = r.pick(prev).clone() {
                return PG::Neq(a, self.small(r, 1));
            }
        }
        // lists of DIFFERENT written length, one of them with an open tail (`[a | t] != [b, c, d]`): the tail can be bound
        // to a list that makes them coincide (by a later `==` of the two sides: the `prev` mechanism above) — a
        // disequality must not be decided by comparing the written lengths (seeded change C14-d)
        if r.chance(1, 10) {
            let n = 1 + r.below(2);
            let heads: Vec<T> = (0..n).map(|_| self.small(r, 0)).collect();
            let tail = self.var(r);
            let m = n + 1 + r.below(2);
            let other: Vec<T> = (0..m).map(|_| self.small(r, 0)).collect();
            let (a, b) = (T::improper(heads, tail), T::list(other));
            return if r.chance(1, 2) { PG::Neq(a, b) } else { PG::Neq(b, a) };
        }
        // multi-pair disequalities whose pairs share variables ([a, b] != [c, c], [x, y] != [y, 1]):
        // re-running them after later equalities must treat the pairs as ONE conjunction
        if r.chance(1, 6) {
            let k = 2 + r.below(2);
            let shared = self.var(r);
            let mk = |r: &mut Rng, g: &TreeGen| -> Vec<T> {
                (0..k).map(|_| match r.below(5) {
                    0 | 1 => shared.clone(),
                    2 | 3 => g.var(r),
                    _ => T::Num(r.range(1, 2) as isize),
                }).collect()
            };
            let (a, b) = (mk(r, self), mk(r, self));
            return if self.compounds && k == 2 && r.chance(1, 3) { PG::Neq(T::Comp(0, a), T::Comp(0, b)) } else { PG::Neq(T::list(a), T::list(b)) };
        }
        // equalities that ground variables (so stored disequalities are re-run on conflicting/entailing bindings)
        if !prev.is_empty() && r.chance(1, 5) {
            return PG::Eq(self.var(r), T::Num(r.range(1, 2) as isize));
        }
        let a = if r.chance(2, 3) { self.var(r) } else { self.small(r, 2) };
        let b = self.small(r, 2);
        let (a, b) = if r.chance(1, 2) { (a, b) } else { (b, a) };
        if r.chance(1, 2) {
            PG::Eq(a, b)
        } else {
            PG::Neq(a, b)
        }
    }
    fn conj(&self, r: &mut Rng, n: usize, depth: usize) -> Vec<PG> {
        let mut v: Vec<PG> = vec![];
        for _ in 0..n {
            if self.conde && depth > 0 && r.chance(1, 6) {
                let k = if r.chance(1, 6) { 1 } else { 2 + r.below(2) };
                let cs = (0..k).map(|_| { let m = if r.chance(1, 12) { 0 } else { 1 + r.below(2) }; self.conj(r, m, depth - 1) }).collect();
                v.push(PG::Conde(cs));
            } else if depth > 0 && r.chance(1, 10) {
                let m = 1 + r.below(2);
                v.push(PG::Fresh(Box::new(PG::Conj(self.conj(r, m, depth - 1)))));
            } else {
                let a = self.atom(r, &v);
                v.push(a);
            }
        }
        v
    }
    /// One pass of `run_constraints` over a store of several disequalities, triggered by ONE multi-binding
    /// unification: a disequality that is simplified by the bindings may come to subsume (and so remove) a
    /// stored one in the middle of the pass, while a third one — later in the store's iteration order — is
    /// violated or discharged by the same bindings.  Nothing follows the unification, so a constraint the pass
    /// skips is never looked at again.  (Seeded change C09-b: the pass stopped at the first constraint that had
    /// already left the store.)
    pub fn store_pass(r: &mut Rng) -> Prog {
        let nv = 5;
        let var = |r: &mut Rng| T::Var(r.below(nv));
        let c = |r: &mut Rng| T::Num(r.range(1, 3) as isize);
        let (p, pc) = (var(r), c(r)); // the pair shared by D1 and D2
        let (a, ac) = (var(r), c(r));
        let (z, zc) = (var(r), c(r));
        let (x, w) = (var(r), if r.chance(3, 4) { var(r) } else { c(r) });
        let two = |r: &mut Rng, l: (T, T), m: (T, T)| -> PG {
            if r.chance(1, 2) { PG::Neq(T::list(vec![l.0, m.0]), T::list(vec![l.1, m.1])) } else { PG::Neq(T::list(vec![m.0, l.0]), T::list(vec![m.1, l.1])) }
        };
        let mut ds = vec![
            two(r, (a.clone(), ac.clone()), (p.clone(), pc.clone())),
            two(r, (p.clone(), pc.clone()), (z, zc)),
            PG::Neq(x.clone(), w.clone()),
        ];
        for _ in 0..r.below(2) {
            ds.push(PG::Neq(var(r), if r.chance(1, 2) { var(r) } else { c(r) }));
        }
        // shuffle the disequalities
        for i in (1..ds.len()).rev() {
            let j = r.below(i + 1);
            ds.swap(i, j);
        }
        // the unification: binds `a` to its constant (D1 becomes `p != pc`) — or to another one (D1 is discharged) —
        // and `x` to `w` (D3 violated) — or to something else
        let a_to = if r.chance(3, 4) { ac } else { c(r) };
        let x_to = if r.chance(2, 3) { w } else { c(r) };
        let (l, rr) = if r.chance(1, 2) { (vec![x, a], vec![x_to, a_to]) } else { (vec![a, x], vec![a_to, x_to]) };
        let mut body = ds;
        body.push(PG::Eq(T::list(l), T::list(rr)));
        Prog { nvars: nv, nq: nv, take: 0, body, raw: false }
    }
    /// Scenario "nested re-run": a disequality against a NESTED term is stored first; a later unification gives the other
    /// side the same shape with variables deep inside (so the re-run leaves a residual on those inner variables, or on
    /// none); then the inner variables are bound — to the values that violate the disequality, or to others.  Written in
    /// a random order (the harness also permutes).  (Seeded change C02-m: a re-run fast path that looked only at the top
    /// level of both sides and discharged `[[a]] != [[1]]` for good.)
    pub fn nested_rerun(r: &mut Rng) -> Prog {
        // skeleton with numbered slots
        fn skel(r: &mut Rng, d: usize, slots: &mut usize) -> T {
            if d == 0 || r.chance(1, 4) {
                *slots += 1;
                return T::Var(1000 + *slots - 1);
            }
            match r.below(3) {
                0 => T::list((0..1 + r.below(2)).map(|_| skel(r, d - 1, slots)).collect()),
                1 => {
                    let h = skel(r, d - 1, slots);
                    let t = skel(r, d - 1, slots);
                    T::cons(h, t)
                }
                _ => T::Comp(0, (0..2).map(|_| skel(r, d - 1, slots)).collect()),
            }
        }
        let mut slots = 0;
        let depth = 2 + r.below(2);
        let sk = T::list(vec![skel(r, depth - 1, &mut slots)]);
        let consts: Vec<T> = (0..slots).map(|_| T::Num(r.range(1, 3) as isize)).collect();
        // which slots are inner variables (v1, v2) on the unified side
        let inner: Vec<Option<usize>> = (0..slots).map(|_| if r.chance(2, 3) { Some(1 + r.below(2)) } else { None }).collect();
        let fill = |f: &dyn Fn(usize) -> T| sk.subst(&|x| match x { T::Var(k) if *k >= 1000 => Some(f(*k - 1000)), _ => None });
        let t_const = fill(&|i| consts[i].clone());
        let other: Vec<bool> = (0..slots).map(|_| r.chance(1, 5)).collect();
        let t_var = fill(&|i| match inner[i] { Some(v) => T::Var(v), None => if !other[i] { consts[i].clone() } else { T::Num(9) } });
        let mut body = vec![];
        if r.chance(3, 4) {
            body.push(PG::Neq(T::Var(0), t_const.clone()));
            body.push(PG::Eq(T::Var(0), t_var));
        } else {
            // the two nested sides written directly
            body.push(PG::Neq(t_var, t_const.clone()));
        }
        for v in 1..3usize {
            if let Some(i) = inner.iter().position(|x| *x == Some(v)) {
                if r.chance(4, 5) {
                    let val = if r.chance(2, 3) { consts[i].clone() } else { T::Num(r.range(1, 3) as isize) };
                    body.push(PG::Eq(T::Var(v), val));
                }
            }
        }
        for i in (1..body.len()).rev() {
            let j = r.below(i + 1);
            body.swap(i, j);
        }
        Prog { nvars: 3, nq: 3, take: 0, body, raw: false }
    }
    pub fn prog(&self, r: &mut Rng) -> Prog {
        let n = 1 + r.below(self.max_atoms);
        Prog { nvars: self.nv(), nq: self.nq, take: 0, body: self.conj(r, n, 2), raw: false }
    }
}

/// ground semantics over a valuation of all program variables
pub fn sat(val: &[T], g: &PG) -> bool {
    let gi = |t: &T| {
        t.subst(&|x| match x {
            T::Var(k) => Some(val[*k].clone()),
            _ => None,
        })
    };
    match g {
        PG::Eq(a, b) => gi(a) == gi(b),
        PG::Neq(a, b) => gi(a) != gi(b),
        PG::Succ => true,
        PG::Fail => false,
        PG::Conj(gs) => gs.iter().all(|x| sat(val, x)),
        PG::Conde(cs) => cs.iter().any(|c| c.iter().all(|x| sat(val, x))),
        PG::Disj(gs) => gs.iter().any(|x| sat(val, x)),
        PG::Fresh(b) => sat(val, b),
        _ => panic!("sat: not a pure tree goal"),
    }
}

/// the paths of a goal: one clause chosen per disjunction, the atoms along it in order
pub fn paths(gs: &[PG]) -> Vec<Vec<PG>> {
    let mut res: Vec<Vec<PG>> = vec![vec![]];
    for g in gs {
        let alts: Vec<Vec<PG>> = match g {
            PG::Conj(x) => paths(x),
            PG::Fresh(b) => paths(&[(**b).clone()]),
            PG::Conde(cs) => cs.iter().flat_map(|c| paths(c)).collect(),
            PG::Disj(x) => x.iter().flat_map(|c| paths(&[c.clone()])).collect(),
            PG::Succ => vec![vec![]],
            PG::Fail => vec![],
            atom => vec![vec![atom.clone()]],
        };
        let mut next = vec![];
        for r in &res {
            for a in &alts {
                let mut v = r.clone();
                v.extend(a.iter().cloned());
                next.push(v);
            }
        }
        res = next;
    }
    res
}

/// Does the conjunction of eq/neq atoms have a solution once the query variables are fixed to the
/// ground tuple?  Hidden variables range over ALL ground terms: equalities are solved with the
/// reference Robinson unifier; a disequality is violated iff its two sides are already identical
/// under the solved equalities (finitely many non-trivial disequalities over an infinite universe
/// are simultaneously satisfiable).
pub fn path_sat(atoms: &[PG], qv: &[T]) -> bool {
    use crate::c01::{runify, Sub};
    let mut s = Sub::new();
    for (i, t) in qv.iter().enumerate() {
        s.insert(i, t.clone());
    }
    for a in atoms {
        if let PG::Eq(u, v) = a {
            if !runify(&mut s, u, v) {
                return false;
            }
        }
    }
    for a in atoms {
        if let PG::Neq(u, v) = a {
            let mut s2 = s.clone();
            let before = s2.len();
            if runify(&mut s2, u, v) && s2.len() == before {
                return false;
            }
        }
    }
    true
}

thread_local! {
    /// the universe the oracle enumerates for the program at hand: `universe8` plus ground instances of the sides of
    /// the program's own (dis)equalities — a disequality that excludes a value OUTSIDE the fixed universe would otherwise
    /// be invisible to the brute force (seeded change C02-e: a reported constraint silently dropped)
    static UNIVERSE: std::cell::RefCell<Vec<T>> = std::cell::RefCell::new(vec![]);
}

pub fn universe_cur() -> Vec<T> {
    let u = UNIVERSE.with(|u| u.borrow().clone());
    if u.is_empty() { universe8() } else { u }
}

fn universe_for(body: &[PG]) -> Vec<T> {
    let mut u = universe8();
    let mut sides: Vec<T> = vec![];
    fn collect(gs: &[PG], sides: &mut Vec<T>) {
        for g in gs {
            match g {
                PG::Neq(a, b) => {
                    sides.push(a.clone());
                    sides.push(b.clone());
                }
                PG::Conj(v) | PG::Disj(v) => collect(v, sides),
                PG::Conde(cs) => cs.iter().for_each(|c| collect(c, sides)),
                PG::Fresh(b) => collect(std::slice::from_ref(b), sides),
                _ => {}
            }
        }
    }
    collect(body, &mut sides);
    let mut extra = 0;
    for s in sides {
        if matches!(s, T::Var(_) | T::Any(_)) {
            continue;
        }
        for c in [T::Num(2), T::Num(1)] {
            let g = s.subst(&|x| match x {
                T::Var(_) | T::Any(_) => Some(c.clone()),
                _ => None,
            });
            if !u.contains(&g) && extra < 4 && g.depth() <= 4 {
                u.push(g);
                extra += 1;
            }
        }
    }
    u
}

/// all tuples of universe values for the query variables that extend to a solution
pub fn solutions(p: &Prog) -> Vec<Vec<T>> {
    // (for more than two query variables the enumeration of u^nq tuples x paths stays with the fixed universe)
    let u = if p.nq <= 2 { universe_for(&p.body) } else { universe8() };
    UNIVERSE.with(|c| *c.borrow_mut() = u.clone());
    let nq = p.nq;
    let ps = paths(&p.body);
    let mut res = vec![];
    let total = u.len().pow(nq as u32);
    for code in 0..total {
        let mut k = code;
        let qv: Vec<T> = (0..nq)
            .map(|_| {
                let t = u[k % u.len()].clone();
                k /= u.len();
                t
            })
            .collect();
        if ps.iter().any(|path| path_sat(path, &qv)) {
            res.push(qv);
        }
    }
    res
}

/// one-way matching of an answer term against a ground term, extending the valuation of its variables
pub fn match_term(pat: &T, g: &T, val: &mut Vec<(T, T)>) -> bool {
    match pat {
        T::Var(_) | T::Any(_) => {
            if let Some(p) = val.iter().find(|p| &p.0 == pat) {
                &p.1 == g
            } else {
                val.push((pat.clone(), g.clone()));
                true
            }
        }
        T::Cons(h, t) => match g {
            T::Cons(gh, gt) => match_term(h, gh, val) && match_term(t, gt, val),
            _ => false,
        },
        T::Comp(tag, a) => match g {
            T::Comp(gtag, ga) => tag == gtag && a.len() == ga.len() && a.iter().zip(ga.iter()).all(|(x, y)| match_term(x, y, val)),
            _ => false,
        },
        other => other == g,
    }
}

/// is the ground tuple an instance of the answer (terms + reported constraints)?
pub fn instance_of(a: &Ans, tuple: &[T]) -> bool {
    let mut val = vec![];
    for (p, g) in a.terms.iter().zip(tuple.iter()) {
        if !match_term(p, g, &mut val) {
            return false;
        }
    }
    satisfied_full(&val, &a.constraints)
}

/// constraints evaluated under a valuation; a constraint mentioning a variable without a value is
/// reported as not closed by the caller, here such variables take the fresh atom 8
pub fn satisfied_full(val: &[(T, T)], cs: &[Vec<(T, T)>]) -> bool {
    satisfied(val, cs)
}

/// permutations of 0..n (all when n <= 4, otherwise `k` random ones including identity)
pub fn perms(n: usize, k: usize, r: &mut Rng) -> Vec<Vec<usize>> {
    fn all(n: usize) -> Vec<Vec<usize>> {
        if n == 0 {
            return vec![vec![]];
        }
        let mut res = vec![];
        for p in all(n - 1) {
            for i in 0..=p.len() {
                let mut q = p.clone();
                q.insert(i, n - 1);
                res.push(q);
            }
        }
        res
    }
    if n <= 3 {
        let mut a = all(n);
        a.sort();
        a
    } else {
        let mut res = vec![(0..n).collect::<Vec<_>>()];
        for _ in 1..k {
            let mut p: Vec<usize> = (0..n).collect();
            r.shuffle(&mut p);
            if !res.contains(&p) {
                res.push(p);
            }
        }
        res
    }
}

/// apply a random permutation to every conjunction (and clause list) of the goal
pub fn permute_goal(g: &PG, r: &mut Rng, clauses_too: bool) -> PG {
    let pc = |gs: &Vec<PG>, r: &mut Rng| {
        let mut v: Vec<PG> = gs.iter().map(|x| permute_goal(x, r, clauses_too)).collect();
        r.shuffle(&mut v);
        v
    };
    match g {
        PG::Conj(gs) => PG::Conj(pc(gs, r)),
        PG::Conde(cs) => {
            let mut v: Vec<Vec<PG>> = cs.iter().map(|c| pc(c, r)).collect();
            if clauses_too {
                r.shuffle(&mut v);
            }
            PG::Conde(v)
        }
        PG::Disj(gs) => {
            let mut v: Vec<PG> = gs.iter().map(|x| permute_goal(x, r, clauses_too)).collect();
            if clauses_too {
                r.shuffle(&mut v);
            }
            PG::Disj(v)
        }
        PG::Fresh(b) => PG::Fresh(Box::new(permute_goal(b, r, clauses_too))),
        other => other.clone(),
    }
}
