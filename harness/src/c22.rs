//! C22 — user extension hooks observe a consistent constraint lifecycle.
//!
//! Every harness run uses the instrumented `CountUser` (term.rs).  Here programs over ==, !=, FD and
//! CLP(Z) constraints, with nested conde, get a probe goal after every goal and a final probe after
//! `reify`.  Oracle, at EVERY probe of every branch:
//!     with_constraint calls − take_constraint calls = number of constraints in the store;
//! for pure tree programs also: the bindings reported to `process_extension` so far are exactly the
//! bindings in the substitution (each successful unification reported once, with its own new bindings;
//! failed branches leave no trace in surviving states), and every reported binding is in force when the
//! hook runs.  Observable for the model: the sorted list of (answer terms, with, take, stored) the final
//! probes saw — per branch, so a leak of user state between branches shows as a disagreement.
use crate::c16::gen_prog;
use crate::out::Out;
use crate::prog::*;
use crate::rng::Rng;
use crate::term::EXT_VIOLATION;
use crate::tree::TreeGen;

/// `__query__ == [q1, .., qn]` of the query wrapper
const WRAPPER_UNIFICATIONS: usize = 1;

fn with_probes(gs: &[PG]) -> Vec<PG> {
    let mut v = vec![];
    for g in gs {
        v.push(match g {
            PG::Conde(cs) => PG::Conde(cs.iter().map(|c| with_probes(c)).collect()),
            PG::Conj(b) => PG::Conj(with_probes(b)),
            PG::Fresh(b) => PG::Fresh(Box::new(PG::Conj(with_probes(&[(**b).clone()])))),
            other => other.clone(),
        });
        v.push(PG::Probe);
    }
    v
}

fn is_tree_only(gs: &[PG]) -> bool {
    gs.iter().all(|g| match g {
        PG::Eq(..) | PG::Neq(..) | PG::Probe | PG::Succ | PG::Fail => true,
        PG::Conde(cs) => cs.iter().all(|c| is_tree_only(c)),
        PG::Conj(b) => is_tree_only(b),
        PG::Fresh(b) => is_tree_only(&[(**b).clone()]),
        _ => false,
    })
}

pub fn eval(p: &Prog) -> (String, Option<String>, bool, u64) {
    // absolute hook counts are an observable only for pure tree programs: for FD programs the NUMBER of
    // re-runs (take + with per re-run) depends on the hash order of the store; their difference does not
    let tree = is_tree_only(&p.body);
    // (measured: 1 pure tree program in 1000 also differs in absolute counts when several disequalities are
    // normalised in a different hash order, so the observable is the difference for every program)
    CNT_MODE.with(|c| c.set(2));
    EXT_VIOLATION.with(|v| *v.borrow_mut() = None);
    let out = run_prog_b(p, 3_000_000);
    let fuel = model_fuel(&out);
    let line = show_run(&out, false);
    let mut fail = None;
    if let RunOut::Panic(_) = &out {
        CNT_MODE.with(|c| c.set(0));
        return (line, None, false, fuel);
    }
    let mut nprobes = 0;
    PROBES.with(|pr| {
        for r in pr.borrow().iter() {
            nprobes += 1;
            if r.withs < r.takes || r.withs - r.takes != r.stored {
                fail = Some(format!(
                    "a state saw {} with_constraint and {} take_constraint calls but holds {} constraints",
                    r.withs, r.takes, r.stored
                ));
                break;
            }
            // `process_extension` runs after EVERY successful unification — also one that binds nothing (its extension is
            // then empty): as many calls as `==` goals have succeeded on this path, plus the one of the query wrapper
            if tree && !r.last && r.ext_calls != r.eq_goals + WRAPPER_UNIFICATIONS {
                fail = Some(format!(
                    "{} `==` goals have succeeded on this path (plus {} of the query wrapper) but process_extension was called {} times",
                    r.eq_goals, WRAPPER_UNIFICATIONS, r.ext_calls
                ));
                break;
            }
            if tree && !r.last && r.ext_total != r.smap_len {
                fail = Some(format!(
                    "process_extension was given {} bindings in {} calls, the substitution holds {}",
                    r.ext_total, r.ext_calls, r.smap_len
                ));
                break;
            }
        }
    });
    if fail.is_none() {
        fail = EXT_VIOLATION.with(|v| v.borrow().clone());
    }
    CNT_MODE.with(|c| c.set(0));
    (line, fail, nprobes > 2, fuel)
}

fn record(p: &Prog, out: &mut Out) {
    // the case line must carry the `cnt` flag: build it while counter mode is on
    let (line, fail, nt, fuel) = eval(p);
    CNT_MODE.with(|c| c.set(2));
    let case = p.line_f(fuel);
    CNT_MODE.with(|c| c.set(0));
    out.push(case, line, fail, nt);
}

pub fn replay(line: &str, out: &mut Out) {
    record(&Prog::parse(line), out);
}

fn corpus() -> Vec<&'static str> {
    vec![
        // D8: disequalities dropped as redundant must go through take_constraint
        "prog 2 2 0 cnd neq v0 i5 probe neq cons v0 cons v1 nil cons i5 cons i6 nil probe neq cons v0 cons v1 nil cons i5 cons i6 nil probe",
        "prog 2 2 0 cnd neq cons v0 cons v1 nil cons i1 cons i2 nil probe neq v0 i1 probe",
        "prog 2 2 0 cnd neq v0 v1 probe conde 2 2 eq v0 i1 probe 2 eq v0 v1 probe",
        // unifications that bind nothing are unifications too: the hook runs, with an empty extension (seeded change C22-g)
        "prog 2 2 0 cnd eq v0 i5 probe eq v0 i5 probe eq v1 v1 probe eq cons v0 cons i7 nil cons i5 cons i7 nil probe",
        "prog 2 2 0 cnd infd v0 I 0 3 probe infd v1 I 0 3 probe ltfd v0 v1 probe",
        "prog 3 3 0 cnd plusz v0 v1 v2 probe eq v0 i1 probe eq v1 i2 probe",
        "prog 3 3 0 cnd infd v0 I 1 3 infd v1 I 1 3 infd v2 I 1 3 distinctfd cons v0 cons v1 cons v2 nil probe eq v0 i1 probe",
    ]
}

pub fn run(seed: u64, thorough: bool, out: &mut Out) {
    for l in corpus() {
        out.stat("corpus");
        replay(l, out);
    }
    let n = if thorough { 20000 } else { 1000 };
    for i in 0..n {
        let mut r = Rng::new(seed, 22, i);
        let base = if r.chance(1, 2) {
            out.stat("tree_programs");
            let g = TreeGen { nq: 1 + r.below(2), nh: r.below(3), compounds: r.chance(1, 3), max_atoms: 6, conde: r.chance(1, 2) };
            let mut p = g.prog(&mut r);
            if r.chance(1, 4) {
                // a CLP(Z) constraint among tree atoms: stored and re-added through the same hooks
                let nv = p.nvars;
                let v = |r: &mut Rng| crate::term::T::Var(r.below(nv));
                let pos = r.below(p.body.len() + 1);
                p.body.insert(pos, PG::PlusZ(v(&mut r), v(&mut r), v(&mut r)));
            }
            p
        } else {
            out.stat("fd_programs");
            // (plusz is not mixed into FD programs: a CLP(Z) constraint binds its operand without the
            // finite-domain check — outside the given properties, noted in DESIGN.md)
            let p = gen_prog(&mut r);
            p
        };
        let p = Prog { body: with_probes(&base.body), ..base };
        record(&p, out);
    }
}
